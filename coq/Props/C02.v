(* C02 -- every returned future obeys the concurrent.futures.Future protocol.  Statements only.
   Stdlib state machine: Base/Fut.v; library futures: Model/MapFut.v (machine theorems from
   Proofs/MapFut_InvD.v); combinator outputs: Model/Comb.v (Proofs/Comb_Inv.v); retry futures: Model/Retry.v. *)
From Coq Require Import List Bool Arith.
From ME Require Import Base.Machine Base.Fut.
Import ListNotations.

(* the stdlib state machine every library future sits on: done states are absorbing for every method,
   a cancelled future can never be started or resolved, cancel() is refused once running/finished *)
Theorem c02_done_is_absorbing : forall s, fdone s = true ->
  fdone (fst (f_cancel s)) = true /\ (forall n b, f_srnc s = Some (n, b) -> fdone n = true) /\ f_set s = None.
Proof. exact done_is_stable. Qed.
Theorem c02_cancel_true_means_cancelled : forall s, snd (f_cancel s) = true -> fcancelled (fst (f_cancel s)) = true.
Proof. exact f_cancel_true_cancelled. Qed.
Theorem c02_cancel_false_on_finished : f_cancel Finished = (Finished, false) /\ f_set Finished = None /\ f_srnc Finished = None.
Proof. exact finished_refuses_cancel. Qed.

Print Assumptions c02_done_is_absorbing.
Print Assumptions c02_cancel_true_means_cancelled.
Print Assumptions c02_cancel_false_on_finished.
