(* C09 on the methods of TimeoutExecutor REGENERATED FROM THE SOURCE (tools/timeout2coq.py -> Gen/TimeoutSkel.v:
   submit, submit_timeout, shutdown, _on_future_done, _do_cancel, _job_loop with _job_loop_iter inlined;
   ShutdownHelper.ensure_alive / __call__ inlined) against the hand-written acceptor Model/Timeout.v.
   Part (a): PATH CONFORMANCE - every path through every generated method performs exactly the visible operations
   Timeout.step executes for that API call / loop iteration / callback.
   Parts (b) + (c): the machine run on the generated methods (Model/TimeoutIR.gstep: Timeout.step whose eight
   continuations belonging to methods of TimeoutExecutor are the instantiated SEGMENTS of the generated methods) makes
   the same step as Model/Timeout.v on every state and event - a lockstep bisimulation with the identity relation -
   and the machine theorems of Props/C09.v hold for every reachable state of the generated programs (`c09_..._src`).
   Nothing but statements; proofs are in Proofs/TimeoutIR_Paths.v, TimeoutIR_Sim.v, TimeoutIR_Transfer.v. *)
From Coq Require Import ZArith List Arith Bool.
From ME Require Import Base.Machine Base.Fut Base.GenPrelude Gen.TimeoutGen Model.Timeout Model.TimeoutIR Gen.TimeoutSkel
  Proofs.Timeout_Spec Proofs.Timeout_Inv Proofs.TimeoutIR_Paths Proofs.TimeoutIR_Sim Proofs.TimeoutIR_Transfer Props.C09.
Import ListNotations.

(* ---- (a1) every path through the generated methods, as sequences of visible operations ------------ *)
(* submit_timeout (and submit, which tail-calls it): gate shut -> RuntimeError (outside Model/Timeout.v);
   otherwise ONE path: gate; delegate.submit; MapFuture(...); add_done_callback(_on_future_done);
   monotonic() + timeout; the X-section appending the job; _jobs_write.set(); leave the gate; return *)
Theorem c09_submit_timeout_paths_src : forall o,
  flat_api o submit_timeout_m = Some (if o CGateFlag then [OpAcqG; OpRelG; OpRaise]
    else [OpAcqG; OpDSubmit; OpNewMap; OpAddCbWake; OpClockJob; OpXSecAppend; OpEvSet; OpRelG; OpRet]).
Proof. exact submit_timeout_paths. Qed.

Theorem c09_submit_paths_src : forall o,
  flat_api o submit_m = Some (if o CGateFlag then [OpAcqG; OpRelG; OpRaise]
    else [OpAcqG; OpDSubmit; OpNewMap; OpAddCbWake; OpClockJob; OpXSecAppend; OpEvSet; OpRelG; OpRet]).
Proof. exact submit_paths. Qed.

(* one iteration of _job_loop: executor collected / shut down -> the loop ends (outside Model/Timeout.v);
   otherwise: X { clock; done() per job; _jobs = pending } ; cancel every overdue job; wait_time = None;
   [pending non-empty: clock]; event.wait(wait_time); event.clear() *)
Theorem c09_job_loop_paths_src : forall o,
  flat_body o job_loop_m =
  Some (if negb (o CExecutor) then [OpBreak] else if o CShutdown then [OpBreak] else
        [OpXAcq; OpClockP; OpPDoneAll; OpPublish; OpXRel; OpCancelAll; OpWaitNone]
        ++ (if o CPending then [OpWaitClock] else []) ++ [OpWait; OpClear]).
Proof. exact job_loop_paths. Qed.

Theorem c09_do_cancel_paths_src : forall o, flat_body o do_cancel_m = Some [OpFutureCancel].
Proof. exact do_cancel_paths. Qed.

(* ---- (a2) the instructions these paths stand for ARE the programs Timeout.step runs ---------------- *)
(* for every timeout, ids and clock reading: the generated submit path, instantiated, is the concatenation of the
   four continuations Timeout.step pushes at ECallSubmit, EDSubmit, EClock (IClockD) and EXSec *)
Theorem c09_submit_timeout_conforms_src : forall o tmo j d w,
  o CGateFlag = false ->
  exists p, flat_api o submit_timeout_m = Some p /\ flat_api o submit_m = Some p /\
            inst (mkD tmo j d w [] [] None) p =
            Some ([IAcqG; IDSubmit tmo] ++ submit_prog j d tmo ++ [IXAppend (mkjob j (deadline_of w tmo))] ++ [IEvSet; IRelG; IRet]).
Proof. exact submit_timeout_conforms. Qed.

(* for every job list, overdue list and wait: the generated iteration, instantiated, is the concatenation of the
   continuations Timeout.step pushes at EXAcq, EClock (IClockP), EXRel, EClock (IWaitCalc) and the wait *)
Theorem c09_job_loop_conforms_src : forall o js ovd tau,
  o CExecutor = true -> o CShutdown = false ->
  exists p, flat_body o job_loop_m = Some p /\
            inst (mkD 0 0 0 0 js ovd tau) p =
            Some ([IClockP] ++ (map (fun job => IPDone (tj_id job)) js ++ [IXRelP]) ++ (map ITCancel ovd ++ [IWaitCalc None])
                  ++ (if o CPending then [IWWait tau] else []) ++ [IWClear]).
Proof. exact job_loop_conforms. Qed.

(* the done-callback registered by submit_timeout is the program Timeout.v runs for CbWake *)
Theorem c09_on_future_done_conforms_src : forall o j,
  flat_body o on_future_done_m = Some [OpEvSet] /\ inst d0 [OpEvSet] = Some (cb_prog j CbWake).
Proof. exact on_future_done_conforms. Qed.

(* ---- (a3) and those continuations are what Timeout.step0 does, in every state ---------------------- *)
Theorem c09_step_call_submit : forall s t tmo s',
  step0 s (ECallSubmit t tmo) = Some s' -> thr s t = [] /\ thr s' t = [IAcqG; IDSubmit tmo].
Proof. exact step_call_submit. Qed.
Theorem c09_step_dsubmit : forall s t d inl s',
  step0 s (EDSubmit t d inl) = Some s' ->
  exists tmo rest, thr s t = IDSubmit tmo :: rest /\ d = ndel s /\ thr s' t = submit_prog (nfut s) d tmo ++ rest.
Proof. exact step_dsubmit. Qed.
Theorem c09_step_clockd : forall s t w s' j tmo rest,
  thr s t = IClockD j tmo :: rest -> step0 s (EClock t w) = Some s' ->
  thr s' t = [IXAppend (mkjob j (deadline_of w tmo))] ++ rest.
Proof. exact step_clockd. Qed.
Theorem c09_step_xsec : forall s t s',
  step0 s (EXSec t) = Some s' -> exists job rest, thr s t = IXAppend job :: rest /\ thr s' t = [IEvSet; IRelG; IRet] ++ rest.
Proof. exact step_xsec. Qed.
Theorem c09_step_xacq : forall s t s',
  step0 s (EXAcq t) = Some s' -> t = jt /\ thr s t = [] /\ thr s' t = [IClockP].
Proof. exact step_xacq. Qed.
Theorem c09_step_clockp : forall s t w s' rest,
  thr s t = IClockP :: rest -> step0 s (EClock t w) = Some s' ->
  thr s' t = (map (fun job => IPDone (tj_id job)) (jobs s) ++ [IXRelP]) ++ rest.
Proof. exact step_clockp. Qed.
Theorem c09_step_xrel : forall s t s',
  step0 s (EXRel t) = Some s' ->
  exists rest, thr s t = IXRelP :: rest /\ jobs s' = fst (partition s) /\
               thr s' t = stamp s' ((map ITCancel (snd (partition s)) ++ [IWaitCalc None]) ++ rest).
Proof. exact step_xrel. Qed.
Theorem c09_step_waitcalc : forall s t w s' e rest,
  thr s t = IWaitCalc e :: rest -> step0 s (EClock t w) = Some s' ->
  jobs s <> [] /\ thr s' t = [IWWait (wait_time (jobs s) w)] ++ rest.
Proof. exact step_waitcalc. Qed.
Theorem c09_step_wwait : forall s r arg s',
  step0 s (EWWait r arg) = Some s' ->
  exists tau rest, wait_view (thr s jt) = IWWait tau :: rest /\
    thr s' jt = (match r with 0 => [IWClear] | _ => [IWWoke] end) ++ rest.
Proof. exact step_wwait_clear. Qed.
Theorem c09_step_wwoke : forall s kind s',
  step0 s (EWWoke kind) = Some s' -> exists rest, thr s jt = IWWoke :: rest /\ thr s' jt = [IWClear] ++ rest.
Proof. exact step_wwoke. Qed.
Theorem c09_step_wclear : forall s s',
  step0 s EWClear = Some s' -> exists rest, thr s jt = IWClear :: rest /\ thr s' jt = stamp s' rest.
Proof. exact step_wclear. Qed.

(* ---- shutdown(): not modelled by Model/Timeout.v; the protocol order on the generated text ----------- *)
Theorem c09_shutdown_paths_src : forall o,
  flat_api o shutdown_m =
  Some (if o CGateFlag then [OpAcqG; OpRelG; OpRet]
        else [OpAcqG; OpSetGateFlag; OpRelG; OpEvSet; OpDShutdown] ++ (if o CWaitArg then [OpJoin] else []) ++ [OpRet]).
Proof. exact shutdown_paths. Qed.

(* C11-m10: on every path that reaches delegate.shutdown(), the flag is written and the job thread woken first *)
Theorem c09_shutdown_wakes_before_delegate_src : forall o p,
  flat_api o shutdown_m = Some p -> In OpDShutdown p ->
  before OpSetGateFlag OpEvSet p = true /\ before OpEvSet OpDShutdown p = true.
Proof. exact shutdown_wakes_before_delegate. Qed.

(* non-vacuity: the modelled oracle takes the long paths *)
Example c09_paths_nonvacuous_src :
  flat_api (o_model true) submit_timeout_m <> Some [OpAcqG; OpRelG; OpRaise] /\
  flat_body (o_model true) job_loop_m <> Some [OpBreak] /\ flat_body (o_model false) job_loop_m <> flat_body (o_model true) job_loop_m.
Proof. repeat split; vm_compute; discriminate. Qed.

(* ==== (b) + (c): the generated programs and Model/Timeout.v step alike ================================= *)
(* the machine the theorems below are about: Model/TimeoutIR.gstep applied to the two generated programs
   (src_step := gstep submit_timeout_m job_loop_m, src_reachable s := reachable_from src_step init s) *)
Theorem c09_src_step_is_generated : src_step = gstep submit_timeout_m job_loop_m.
Proof. reflexivity. Qed.

(* what gstep loads at the eight binding events, for arbitrary data, is what Timeout.step loads *)
Theorem c09_segments_src : forall tmo j d w js ovd tau,
  inst (mkD tmo 0 0 0 [] [] None) (first_seg (path_submit submit_timeout_m)) = Some [IAcqG; IDSubmit tmo] /\
  inst (mkD tmo j d 0 [] [] None) (seg_after OpDSubmit (path_submit submit_timeout_m)) = Some (submit_prog j d tmo) /\
  inst (mkD tmo j 0 w [] [] None) (seg_after OpClockJob (path_submit submit_timeout_m)) = Some [IXAppend (mkjob j (deadline_of w tmo))] /\
  inst d0 (seg_after OpXSecAppend (path_submit submit_timeout_m)) = Some [IEvSet; IRelG; IRet] /\
  inst d0 (first_seg (path_iter job_loop_m true)) = Some [IClockP] /\
  inst (mkD 0 0 0 0 js [] None) (seg_after OpClockP (path_iter job_loop_m true)) = Some (map (fun job => IPDone (tj_id job)) js ++ [IXRelP]) /\
  inst (mkD 0 0 0 0 [] ovd None) (seg_after OpXRel (path_iter job_loop_m true)) = Some (map ITCancel ovd ++ [IWaitCalc None]) /\
  inst (mkD 0 0 0 0 [] [] tau) (seg_after OpWaitClock (path_iter job_loop_m true)) = Some [IWWait tau].
Proof. exact segments_all. Qed.

Theorem c09_step_equal_src : forall s te, src_step s te = step s te.
Proof. exact src_step_eq. Qed.

Theorem c09_lockstep_src : forall s te,
  match src_step s te, step s te with
  | Some s1, Some s2 => s1 = s2
  | None, None => True
  | _, _ => False
  end.
Proof. exact lockstep. Qed.

(* (b) every trace of the generated programs is a trace of Model/Timeout.v, ending in the same state *)
Theorem c09_src_trace_accepted_by_timeout : forall es s, run src_step init es = Some s -> run step init es = Some s.
Proof. exact src_trace_accepted_by_timeout. Qed.
(* (c) and conversely *)
Theorem c09_timeout_trace_accepted_by_src : forall es s, run step init es = Some s -> run src_step init es = Some s.
Proof. exact timeout_trace_accepted_by_src. Qed.

Theorem c09_reachable_equivalent_src : forall s, src_reachable s <-> reachable s.
Proof. exact src_reachable_iff. Qed.

(* the lockstep runner's verdict on a wire trace would be the same with the generated programs in place of Timeout.v *)
Theorem c09_same_verdict_src : forall ls, gaccept submit_timeout_m job_loop_m ls = accept ls.
Proof. exact same_verdict. Qed.

Theorem c09_invariant_transfer_src : forall P : st -> Prop,
  (forall s, reachable s -> P s) <-> (forall s, src_reachable s -> P s).
Proof. exact invariant_transfer. Qed.

(* ---- the machine theorems of Props/C09.v on the generated programs ----------------------------------- *)
Local Open Scope Z_scope.
Theorem c09_never_early_src : forall s, src_reachable s ->
  forall j dl ts, In (HAttempt j dl ts) (hist s) -> dl < ts.
Proof. exact never_early_src. Qed.

Theorem c09_never_early_creation_src : forall s, src_reachable s ->
  forall j dl ts, In (HAttempt j dl ts) (hist s) ->
  exists d tmo ts0, In (HNew j d tmo ts0) (hist s) /\ ts0 + tmo <= dl /\ dl < ts.
Proof. exact never_early_creation_src. Qed.

Theorem c09_at_most_once_src : forall s, src_reachable s -> NoDup (atts (hist s)).
Proof. exact at_most_once_src. Qed.

Theorem c09_attempt_from_partition_src : forall s, src_reachable s ->
  forall j dl ts, In (HAttempt j dl ts) (hist s) ->
  exists now pend ovd, In (HPart now pend ovd) (hist s) /\ In (mkjob j dl) ovd /\ dl < now /\ now <= ts.
Proof. exact attempt_from_partition_src. Qed.

Theorem c09_overdue_cancelled_this_iteration_src : forall s, src_reachable s ->
  forall now pend ovd job, In (HPart now pend ovd) (hist s) -> In job ovd ->
  (exists ts, In (HAttempt (tj_id job) (tj_deadline job) ts) (hist s)) \/
  (In job (tcs (thr s jt)) /\ match thr s jt with i :: _ => loopctl i = false | [] => False end).
Proof. exact overdue_attempted_src. Qed.

Theorem c09_sleep_le_earliest_src : forall s, src_reachable s ->
  forall tau r, thr s jt = IWWait tau :: r ->
  forall job, In job (jobs s) -> cov s tau job \/ evf s = true \/ pendset s.
Proof. exact sleep_le_earliest_src. Qed.

Theorem c09_no_lost_wakeup_src : forall s, src_reachable s ->
  forall r tau since, thr s jt = IWWoke :: r -> wblock s = Some (tau, since) -> wnotif s = false ->
  forall job, In job (jobs s) -> cov s tau job \/ pendset s.
Proof. exact no_lost_wakeup_src. Qed.

Theorem c09_outcome_kept_src : forall s, src_reachable s ->
  forall j o ts, In (HSet j o ts) (hist s) -> rs s j = Finished /\ rout s j = Some o.
Proof. exact outcome_kept_src. Qed.

Theorem c09_completed_before_deadline_no_attempt_src : forall s, src_reachable s ->
  forall j dl ts' o ts, In (HAttempt j dl ts') (hist s) -> In (HSet j o ts) (hist s) -> dl < ts.
Proof. exact set_before_deadline_no_attempt_src. Qed.

(* non-vacuity: the implementation history of Props/C09.v (two submissions; one times out and is cancelled, one
   completes before its deadline) run by the kernel ON THE GENERATED PROGRAMS: accepted, with an attempt and an
   outcome in the history *)
Example c09_trace_accepted_src : gaccept submit_timeout_m job_loop_m c09_trace = [-1].
Proof. vm_compute. reflexivity. Qed.

Example c09_nonvacuous_src :
  match decode_all c09_trace with
  | Some es => match run src_step init es with
               | Some s => existsb is_attempt (hist s) && existsb is_set (hist s) &&
                           fcancelled (rs s 0%nat) && fstate_eqb (rs s 1%nat) Finished
               | None => false
               end
  | None => false
  end = true.
Proof. vm_compute. reflexivity. Qed.

Print Assumptions c09_submit_timeout_paths_src.
Print Assumptions c09_submit_paths_src.
Print Assumptions c09_job_loop_paths_src.
Print Assumptions c09_do_cancel_paths_src.
Print Assumptions c09_submit_timeout_conforms_src.
Print Assumptions c09_job_loop_conforms_src.
Print Assumptions c09_on_future_done_conforms_src.
Print Assumptions c09_step_call_submit.
Print Assumptions c09_step_dsubmit.
Print Assumptions c09_step_clockd.
Print Assumptions c09_step_xsec.
Print Assumptions c09_step_xacq.
Print Assumptions c09_step_clockp.
Print Assumptions c09_step_xrel.
Print Assumptions c09_step_waitcalc.
Print Assumptions c09_step_wwait.
Print Assumptions c09_step_wwoke.
Print Assumptions c09_step_wclear.
Print Assumptions c09_shutdown_paths_src.
Print Assumptions c09_shutdown_wakes_before_delegate_src.
Print Assumptions c09_paths_nonvacuous_src.
Print Assumptions c09_src_step_is_generated.
Print Assumptions c09_segments_src.
Print Assumptions c09_step_equal_src.
Print Assumptions c09_lockstep_src.
Print Assumptions c09_src_trace_accepted_by_timeout.
Print Assumptions c09_timeout_trace_accepted_by_src.
Print Assumptions c09_reachable_equivalent_src.
Print Assumptions c09_same_verdict_src.
Print Assumptions c09_invariant_transfer_src.
Print Assumptions c09_never_early_src.
Print Assumptions c09_never_early_creation_src.
Print Assumptions c09_at_most_once_src.
Print Assumptions c09_attempt_from_partition_src.
Print Assumptions c09_overdue_cancelled_this_iteration_src.
Print Assumptions c09_sleep_le_earliest_src.
Print Assumptions c09_no_lost_wakeup_src.
Print Assumptions c09_outcome_kept_src.
Print Assumptions c09_completed_before_deadline_no_attempt_src.
Print Assumptions c09_trace_accepted_src.
Print Assumptions c09_nonvacuous_src.
