(* C17 -- f_proxy is transparent for forwarded operations; f_nocancel shields cancel.
   Statements only.  Dispatch model and proofs: Model/Proxy.v; the proxy's method table is
   regenerated from futures/proxy.py on every run (Gen/ProxyGen.v). *)
From Coq Require Import String List Bool Arith.
From ME Require Import Base.GenPrelude Gen.ProxyGen Model.Proxy.
Import ListNotations.
Local Open Scope string_scope.

(* for every value universe and every method table (i.e. all operand values of all types): a dunder
   whose body applies the operator / builtin to the result gives exactly what the operator / builtin
   gives on the result -- same value, or same exception *)
Theorem c17_binop_form_transparent : forall (val : Type) (meth : val -> string -> option (list val -> res val)) p v op rop b,
  meth p op = Some (fun args => binop val meth op rop v (hd v args)) ->
  binop val meth op rop p b = binop val meth op rop v b.
Proof. exact binop_form_transparent. Qed.
Theorem c17_unop_form_transparent : forall (val : Type) (meth : val -> string -> option (list val -> res val)) p v op,
  meth p op = Some (fun _ => unop val meth op v) -> unop val meth op p = unop val meth op v.
Proof. exact unop_form_transparent. Qed.
Theorem c17_builtin_form_transparent : forall (val : Type) (meth : val -> string -> option (list val -> res val)) p v post op args,
  (forall r, post (post r) = post r) -> (forall e, post (RExc e) = RExc e) ->
  meth p op = Some (fun a => builtin1 val meth post op v a) ->
  builtin1 val meth post op p args = builtin1 val meth post op v args.
Proof. exact builtin_form_transparent. Qed.

(* an explicit dunder call in a body would NOT be transparent (the 3 / 2.0 witness) ... *)
Theorem c17_method_call_form_refuted :
  binop nat w_meth "__truediv__" "__rtruediv__" 0 1 = RVal 3 /\
  binop nat w_meth "__truediv__" "__rtruediv__" 2 1 = RExc type_error.
Proof. exact method_call_form_not_transparent. Qed.

(* ... and the table regenerated from the source contains no such body for any dunder that a
   Python 3 operator or builtin looks up *)
Theorem c17_table_all_transparent : forallb entry_ok proxy_table = true.
Proof. vm_compute. reflexivity. Qed.

(* truth-testing is a constant; repr/str/equality/hash/ordering are not forwarded; unknown
   double-underscore attribute lookups raise AttributeError without resolving the future *)
Theorem c17_non_forwarded : forallb (fun name => negb (in_table name)) non_forwarded = true /\
  existsb (fun e => String.eqb (fst e) "__bool__" && match snd e with FConst => true | _ => false end) proxy_table = true /\
  getattr_dunder_guard = true.
Proof. vm_compute. repeat split; reflexivity. Qed.

(* f_nocancel: cancel() is the constant False and the wrapper is the identity MapFuture (whose
   mirroring of the outcome is C13's identity law) *)
Theorem c17_nocancel : nocancel_cancel_is_false = true /\ nocancel_is_identity_map = true.
Proof. split; reflexivity. Qed.

(* non-vacuity: the table really is the proxy's *)
Example c17_table_has_arithmetic : in_table "__add__" = true /\ in_table "__truediv__" = true /\ in_table "__len__" = true /\ length proxy_table = 33.
Proof. vm_compute. repeat split; reflexivity. Qed.

Print Assumptions c17_binop_form_transparent.
Print Assumptions c17_builtin_form_transparent.
Print Assumptions c17_table_all_transparent.
Print Assumptions c17_non_forwarded.
Print Assumptions c17_unop_form_transparent.
Print Assumptions c17_method_call_form_refuted.
Print Assumptions c17_nocancel.
