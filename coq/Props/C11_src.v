(* C11 -- source facts.  The machines and monitors this property rests on were written against, and validated on,
   these definitions of /repo; tools/srcfacts.py regenerates their normal-form digests on every run (coq/Gen/Src_*.v).
   Statements only.  Written by `tools/srcfacts.py --props` from PROP_MODULES. *)
From Coq Require Import List String.
From ME Require Import Model.SrcExpected Gen.Src_helpers Gen.Src_retry Gen.Src_poll Gen.Src_throttle Gen.Src_timeout Gen.Src_map Gen.Src_flat_map Gen.Src_cos Gen.Src_sync Gen.Src_event Gen.Src_common Gen.Src_asyncio Gen.Src_wrapped Gen.Src_logwrap Gen.Src_metrics_null
  Proofs.Src_ok_helpers Proofs.Src_ok_retry Proofs.Src_ok_poll Proofs.Src_ok_throttle Proofs.Src_ok_timeout Proofs.Src_ok_map Proofs.Src_ok_flat_map Proofs.Src_ok_cos Proofs.Src_ok_sync Proofs.Src_ok_event Proofs.Src_ok_common Proofs.Src_ok_asyncio Proofs.Src_ok_wrapped Proofs.Src_ok_logwrap Proofs.Src_ok_metrics_null.

(* more_executors/_impl/helpers.py *)
Theorem c11_source_helpers : Src_helpers.facts = expected_helpers.
Proof. exact src_helpers_ok. Qed.
(* more_executors/_impl/retry.py *)
Theorem c11_source_retry : Src_retry.facts = expected_retry.
Proof. exact src_retry_ok. Qed.
(* more_executors/_impl/poll.py *)
Theorem c11_source_poll : Src_poll.facts = expected_poll.
Proof. exact src_poll_ok. Qed.
(* more_executors/_impl/throttle.py *)
Theorem c11_source_throttle : Src_throttle.facts = expected_throttle.
Proof. exact src_throttle_ok. Qed.
(* more_executors/_impl/timeout.py *)
Theorem c11_source_timeout : Src_timeout.facts = expected_timeout.
Proof. exact src_timeout_ok. Qed.
(* more_executors/_impl/map.py *)
Theorem c11_source_map : Src_map.facts = expected_map.
Proof. exact src_map_ok. Qed.
(* more_executors/_impl/flat_map.py *)
Theorem c11_source_flat_map : Src_flat_map.facts = expected_flat_map.
Proof. exact src_flat_map_ok. Qed.
(* more_executors/_impl/cancel_on_shutdown.py *)
Theorem c11_source_cos : Src_cos.facts = expected_cos.
Proof. exact src_cos_ok. Qed.
(* more_executors/_impl/sync.py *)
Theorem c11_source_sync : Src_sync.facts = expected_sync.
Proof. exact src_sync_ok. Qed.
(* more_executors/_impl/event.py *)
Theorem c11_source_event : Src_event.facts = expected_event.
Proof. exact src_event_ok. Qed.
(* more_executors/_impl/common.py *)
Theorem c11_source_common : Src_common.facts = expected_common.
Proof. exact src_common_ok. Qed.
(* more_executors/_impl/asyncio.py *)
Theorem c11_source_asyncio : Src_asyncio.facts = expected_asyncio.
Proof. exact src_asyncio_ok. Qed.
(* more_executors/_impl/wrapped.py *)
Theorem c11_source_wrapped : Src_wrapped.facts = expected_wrapped.
Proof. exact src_wrapped_ok. Qed.
(* more_executors/_impl/logwrap.py *)
Theorem c11_source_logwrap : Src_logwrap.facts = expected_logwrap.
Proof. exact src_logwrap_ok. Qed.
(* more_executors/_impl/metrics/null.py *)
Theorem c11_source_metrics_null : Src_metrics_null.facts = expected_metrics_null.
Proof. exact src_metrics_null_ok. Qed.

Print Assumptions c11_source_helpers.
Print Assumptions c11_source_retry.
Print Assumptions c11_source_poll.
Print Assumptions c11_source_throttle.
Print Assumptions c11_source_timeout.
Print Assumptions c11_source_map.
Print Assumptions c11_source_flat_map.
Print Assumptions c11_source_cos.
Print Assumptions c11_source_sync.
Print Assumptions c11_source_event.
Print Assumptions c11_source_common.
Print Assumptions c11_source_asyncio.
Print Assumptions c11_source_wrapped.
Print Assumptions c11_source_logwrap.
Print Assumptions c11_source_metrics_null.
