(* C14 -- source facts.  The machines and monitors this property rests on were written against, and validated on,
   these definitions of /repo; tools/srcfacts.py regenerates their normal-form digests on every run (coq/Gen/Src_*.v).
   Statements only. *)
From Coq Require Import List String.
From ME Require Import Model.SrcExpected Gen.Src_fbool Gen.Src_fbase Gen.Src_fcheck Gen.Src_common
  Proofs.Src_ok_fbool Proofs.Src_ok_fbase Proofs.Src_ok_fcheck Proofs.Src_ok_common.

(* more_executors/_impl/futures/bool.py *)
Theorem c14_source_fbool : Src_fbool.facts = expected_fbool.
Proof. exact src_fbool_ok. Qed.
(* more_executors/_impl/futures/base.py *)
Theorem c14_source_fbase : Src_fbase.facts = expected_fbase.
Proof. exact src_fbase_ok. Qed.
(* more_executors/_impl/futures/check.py *)
Theorem c14_source_fcheck : Src_fcheck.facts = expected_fcheck.
Proof. exact src_fcheck_ok. Qed.
(* more_executors/_impl/common.py *)
Theorem c14_source_common : Src_common.facts = expected_common.
Proof. exact src_common_ok. Qed.

Print Assumptions c14_source_fbool.
Print Assumptions c14_source_fbase.
Print Assumptions c14_source_fcheck.
Print Assumptions c14_source_common.
