(* C12 -- worker threads and references are reclaimed; pending futures keep working.
   Statements only.  PARTIAL: CPython's finalisation on the last decref, cyclic GC timing, atexit
   ordering and daemon-thread teardown are modelled (Model/Refs.v), not verified; reference retention
   is decided by weakref probes on real executors (monitor) and, for the retry job list, by the
   machine of C05/C06.  The worker-loop protocol itself (Model/Refs.v) is in lockstep with the four real loops
   (harness/p_c12w.py: every deref with its result, the state of the temporary reference at each wait, every
   set / wait / wake-up / clear of the loop's event, the finalisation of the executor). *)
From Coq Require Import List Bool Arith.
From ME Require Import Base.Machine Model.Refs.
Import ListNotations.

Definition reachable := reachable_from step init.

(* wherever the drop of the last user reference lands relative to the loop's iteration -- while the
   loop holds its temporary strong reference, between its deref and its wait, or during the wait --
   the worker is never left asleep and un-notified once the executor has been finalised *)
Theorem c12_worker_woken_after_drop_partial : forall s, reachable s -> collected s = true -> wp s <> WBlocked false.
Proof. exact worker_not_asleep_after_collection. Qed.
(* ... and its next deref ends the loop *)
Theorem c12_deref_after_collection_exits_partial : forall s s' al, collected s = true -> wp s = WDeref -> step s (WorkerDeref al) = Some s' -> wp s' = WExit /\ al = false.
Proof. exact deref_after_collection_exits. Qed.
(* what the loop's `executor_ref()` returns is determined by finalisation (this observation is checked against the real
   deref in lockstep), and a timed wait that expires leads through clear() to the next deref *)
Theorem c12_deref_observation_partial : forall s s' al, step s (WorkerDeref al) = Some s' -> al = negb (collected s).
Proof. exact deref_observation. Qed.
Theorem c12_timeout_leads_to_deref_partial : forall s s', step s WorkerTimeout = Some s' -> wp s' = WClear.
Proof. exact timeout_leads_to_deref. Qed.
(* the executor is not finalised while the user or a running iteration still refers to it *)
Theorem c12_alive_while_referenced_partial : forall s, reachable s -> collected s = false -> userref s = true \/ wstrong s = true.
Proof. exact not_collected_while_referenced. Qed.

Example c12_nonvacuous : exists s, reachable s /\ collected s = true /\ wp s = WExit.
Proof.
  eexists. split; [exists [WorkerDeref true; UserDrop; WorkerRelease; WorkerWait true; WorkerClear; WorkerDeref false]; reflexivity|split; reflexivity].
Qed.

Print Assumptions c12_worker_woken_after_drop_partial.
Print Assumptions c12_alive_while_referenced_partial.
Print Assumptions c12_deref_after_collection_exits_partial.
Print Assumptions c12_deref_observation_partial.
Print Assumptions c12_timeout_leads_to_deref_partial.
