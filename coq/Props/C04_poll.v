(* C04 (no deadlock among API calls and internal threads) for the Poll machine Model/Poll.v.
   Locks of the model: M_j = PollFuture._me_lock (owner mown s j), X = PollExecutor._lock (xown s),
   G = the shutdown gate held across submit() (gown s).  The model has no re-entrant acquisition: a thread
   requesting a lock it owns would block for ever, so "never requests a lock it holds" is part of the claims.
   Vocabulary (lock, owner, lrank, effect, first_op, run, Disc, wants, unblocked_within): Proofs/Poll_L1.v, Poll_L2.v. *)
From Coq Require Import ZArith List Bool.
From ME Require Import Base.Machine Base.Fut Model.Poll Proofs.Poll_Inv Proofs.Poll_NoDup Proofs.Poll_L1 Proofs.Poll_L2
     Proofs.Poll_Refute.
Import ListNotations.

Definition reach (s : st) : Prop := reachable_from step init s.

(* lock_owner.  A lock has at most one owner by construction (owner s a : option nat).  In every reachable
   state, for every lock a and thread t: if t owns a, the first operation on a in t's program is its release
   (ER: IRelM / IRelMCbs / IXRel / IGRel, or an instruction whose expansion ends with that release); if t does
   not own a, its program does not release a before acquiring it. *)
Theorem c04_poll_lock_owner : forall s a t, reach s ->
  (owner s a = Some t -> first_op a (thr s t) = ER) /\
  (owner s a <> Some t -> first_op a (thr s t) <> ER).
Proof. intros s a t. exact (lock_owner_lemma s a t). Qed.

(* the full discipline behind it: executed symbolically for any one lock a from "t holds a / does not",
   every thread's program acquires and releases a alternately, never requests - while holding a - a lock
   that is not strictly above a (nor a itself), and ends without holding a. *)
Theorem c04_poll_lock_discipline : forall s a t, reach s ->
  run (ds s) a (holds (owner s a) t) (thr s t) = Some false.
Proof. intros s a t R. destruct (reach_disc s R) as [_ D]. exact (D a t). Qed.

(* lock_order.  Nestings that occur: submit(): G, inside it M_j alone (own add_done_callback), then - when
   the delegate is already done - X and inside X M_j (_register_poll -> _clear_delegate), or M_j alone
   followed by X alone (failed delegate: set_exception, then _clear_executor).  Delegate's completing thread:
   X then M_j, or M_j then (after releasing it) X.  cancel(): M_j only (delegate.cancel(), the unlocked scan
   and the cancel function run under M_j without X); X alone afterwards for the deregistration.  Poll
   thread: X alone (snapshot), M_j alone (yield), X alone (deregistration).  Hence G < X < M_j, no two M's
   nested: whenever a thread's next instruction needs a lock b, every lock a it holds is strictly below b
   (in particular a <> b: no re-entrant request). *)
Theorem c04_poll_lock_order : forall s t a b, reach s ->
  owner s a = Some t -> wants s t = Some b -> lrank a < lrank b.
Proof. exact lock_order_lemma. Qed.

(* no_deadlock.  From any thread, following "waits for a lock owned by ..." one reaches within 3 hops,
   never returning to the waiter, a thread that is not waiting for a held lock: no reachable state contains
   a cycle of lock waits (the chain strictly climbs G < X < M). *)
Theorem c04_poll_no_deadlock : forall s t, reach s -> unblocked_within 3 s t.
Proof. intros s t. exact (no_deadlock_lemma s t). Qed.

(* not vacuous: in this implementation history thread 2 (inside _register_poll) owns X and waits for M_0,
   owned by thread 1 (inside cancel()), which is not waiting for any lock *)
Example c04_poll_blocked_example :
  let s := state_of w_blocked in
  accepted w_blocked = true /\
  exists t t', t <> t' /\ wants s t = Some (LM 0) /\ owner s LX = Some t /\ owner s (LM 0) = Some t' /\ wants s t' = None.
Proof. exact blocked_example. Qed.

(* the deepest nesting G, X, M_0 held by one thread does occur (submit() with a finished delegate) *)
Example c04_poll_nested_example :
  let s := state_of w_nested in
  accepted w_nested = true /\
  exists t, owner s LG = Some t /\ owner s LX = Some t /\ owner s (LM 0) = Some t.
Proof. exact nested_example. Qed.

Print Assumptions c04_poll_lock_owner.
Print Assumptions c04_poll_lock_discipline.
Print Assumptions c04_poll_lock_order.
Print Assumptions c04_poll_no_deadlock.
Print Assumptions c04_poll_blocked_example.
