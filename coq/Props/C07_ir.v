(* C07 on the methods REGENERATED FROM THE SOURCE (tools/throttle2coq.py -> Gen/ThrottleSkel.v: AtomicInt.incr / decr,
   ThrottleExecutor.submit / shutdown / _block_until_ready / _eval_throttle / _do_submit / _do_cancel /
   _delegate_future_done, _submit_loop_iter, _submit_loop, ThrottleFuture.__init__ / _me_cancel / _clear_executor).
   PATH CONFORMANCE with Model/Throttle.v: each generated method, co-executed with Throttle.step from every machine
   state of a finite family (Model/ThrottleIR.v: coexec; Proofs/ThrottleIR_Conf.v: the families), issues exactly
   the instructions the machine has at the head of the calling thread's program - the machine's own step function
   is the reference.  Nothing but statements; proofs are in Proofs/ThrottleIR_Conf.v, ThrottleIR_Paths.v. *)
From Coq Require Import ZArith List Bool Arith String.
From ME Require Import Base.Machine Base.Fut Base.GenPrelude Gen.ThrottleGen Model.Throttle Model.ThrottleIR Gen.ThrottleSkel
  Proofs.ThrottleIR_Conf Proofs.ThrottleIR_Paths Proofs.ThrottleIR_Wake.
Import ListNotations.

(* what the co-execution returns is a run of Throttle.step, and the instructions derived from the generated term
   are the heads of the executing thread's program along it *)
Theorem c07_coexec_is_a_machine_run_src : forall fuel E en s t loc k tis evs sf c,
  coexec fuel E en s t loc k = Some (tis, evs, sf, c) ->
  run step s evs = Some sf /\ heads s t evs = Some (map snd tis).
Proof. exact coexec_sound. Qed.
Print Assumptions c07_coexec_is_a_machine_run_src.

(* submit(): gate, _eval_throttle, _block_until_ready, the ThrottleFuture, the X-section, event.set(), return *)
Theorem c07_submit_paths_conform_src : forall c, In c fam_submit ->
  exists tis evs s1 s2 done,
    step (state_of c) (0%Z, ECallSubmit T) = Some s1 /\
    coexec NF (env_of c) EnSubmit s1 T (loc_of c) (map IS submit_m ++ [KEnd]) = Some (tis, evs, s2, done) /\
    run step s1 evs = Some s2 /\ heads s1 T evs = Some (map snd tis) /\
    (done = true -> thr s2 T = []) /\ (done = true \/ NE <= List.length evs).
Proof. exact (all_paths_conform EnSubmit). Qed.
Print Assumptions c07_submit_paths_conform_src.

(* shutdown(wait): the test-and-set under the gate, delegate.shutdown, event.set(), join *)
Theorem c07_shutdown_paths_conform_src : forall c, In c fam_shutdown ->
  exists tis evs s1 s2 done,
    step (state_of c) (0%Z, ECallShutdown T (c_wait c)) = Some s1 /\
    coexec NF (env_of c) EnShutdown s1 T (loc_of c) (map IS shutdown_m ++ [KEnd]) = Some (tis, evs, s2, done) /\
    run step s1 evs = Some s2 /\ heads s1 T evs = Some (map snd tis) /\
    (done = true -> thr s2 T = []) /\ (done = true \/ NE <= List.length evs).
Proof. exact (all_paths_conform EnShutdown). Qed.
Print Assumptions c07_shutdown_paths_conform_src.

(* ThrottleFuture._me_cancel (with _do_cancel and, when the delegate's cancel() fires, _delegate_future_done inline)
   inside the _Future.cancel frame of common.py *)
Theorem c07_me_cancel_paths_conform_src : forall c, In c fam_cancel ->
  exists tis evs s1 s2 done,
    step (state_of c) (0%Z, ECallCancel T (c_j c)) = Some s1 /\
    coexec NF (env_of c) EnCancel s1 T (loc_of c)
      [KProto (cancel_head (c_j c)); IS (SCall "ThrottleFuture._me_cancel" me_cancel_m); KCancelTail; KEnd] = Some (tis, evs, s2, done) /\
    run step s1 evs = Some s2 /\ heads s1 T evs = Some (map snd tis) /\
    (done = true -> thr s2 T = []) /\ (done = true \/ NE <= List.length evs).
Proof. exact (all_paths_conform EnCancel). Qed.
Print Assumptions c07_me_cancel_paths_conform_src.

(* _delegate_future_done run by the thread that completes the delegate future (then _delegate_resolved, library code) *)
Theorem c07_delegate_future_done_paths_conform_src : forall c, In c fam_callback ->
  exists tis evs s1 s2 done,
    step (state_of c) (0%Z, EEnvFinish T 0 (c_ds c) (c_o c)) = Some s1 /\
    coexec NF (env_of c) EnCallback s1 T (loc_of c) [IS (SCall CB delegate_future_done_m); KDrain 0; KEnd] = Some (tis, evs, s2, done) /\
    run step s1 evs = Some s2 /\ heads s1 T evs = Some (map snd tis) /\
    (done = true -> thr s2 T = []) /\ (done = true \/ NE <= List.length evs).
Proof. exact (all_paths_conform EnCallback). Qed.
Print Assumptions c07_delegate_future_done_paths_conform_src.

(* the hand-over thread: _submit_loop with _submit_loop_iter, _eval_throttle, AtomicInt.incr, _do_submit (and
   _delegate_future_done when the delegate completes the future inside submit()), wait, clear - several iterations *)
Theorem c07_submit_loop_paths_conform_src : forall c, In c fam_loop ->
  exists tis evs s1 s2 done,
    step (state_of c) (0%Z, EHStart) = Some s1 /\
    coexec NF (env_of c) EnLoop s1 H (loc_of c) (map IS submit_loop_m ++ [KEnd]) = Some (tis, evs, s2, done) /\
    run step s1 evs = Some s2 /\ heads s1 H evs = Some (map snd tis) /\
    (done = true -> thr s2 H = []) /\ (done = true \/ NE <= List.length evs).
Proof. exact (all_paths_conform EnLoop). Qed.
Print Assumptions c07_submit_loop_paths_conform_src.

(* WITH INTERFERENCE: the path of submit() a single thread cannot take.  A blocking submit (limit 1, one future queued)
   waits in _block_until_ready; the hand-over thread, in the middle of its admission loop, takes the queued future
   (popleft, incr, leaves X); the resumed co-execution re-checks and completes with the enqueue.  The whole is ONE run
   of Throttle.step; on both sides of the interference the submitter's heads are the instructions of the generated term *)
Theorem c07_blocked_submit_resumes_src : forall dy ef n1, In (dy, ef, n1) wake_cases ->
  exists (s1 : st) (tis1 : list (bool * instr)) (evs1 : list (Z * ev)) (sm : st) (ievs : list (Z * ev)) (sm' : st)
         (tis2 : list (bool * instr)) (evs2 : list (Z * ev)) (s2 : st),
    step (state_w dy ef) (0%Z, ECallSubmit T) = Some s1 /\
    run step s1 (evs1 ++ ievs ++ evs2) = Some s2 /\
    heads s1 T evs1 = Some (map snd tis1) /\ run step s1 evs1 = Some sm /\
    run step sm ievs = Some sm' /\ map snd ievs = interference /\
    heads sm' T evs2 = Some (map snd tis2) /\
    existsb (fun ti => match snd ti with IWait _ (WSub _) => true | _ => false end) tis1 = true /\
    existsb (fun ti => match snd ti with IXEnq => true | _ => false end) tis2 = true /\
    thr s2 T = [] /\ List.length (qu s2) = 1.
Proof. exact blocked_submit_resumes. Qed.
Print Assumptions c07_blocked_submit_resumes_src.

Theorem c07_all_paths_conform_src : forall en c, In c (fam_of en) -> conforms en c.
Proof. exact all_paths_conform. Qed.
Print Assumptions c07_all_paths_conform_src.

(* ThrottleFuture.__init__ and ThrottleFuture._clear_executor have no visible operation *)
Theorem c07_silent_methods_src : forall s loc,
  settle FUEL false s loc (map IS future_init_m ++ [KStop]) [] = Some ([], loc, [KStop]) /\
  settle FUEL false s loc (map IS clear_executor_m ++ [KStop]) [] = Some ([], loc, [KStop]).
Proof. exact silent_methods. Qed.
Print Assumptions c07_silent_methods_src.

(* non-vacuity / coverage: sizes of the families, calls that complete, events matched; which instructions of
   Throttle.v's alphabet are issued by the generated terms and which by the library code underneath *)
Theorem c07_ir_coverage_src :
  stats EnSubmit = (576, 512, 5894)%Z /\ stats EnShutdown = (24, 24, 96)%Z /\ stats EnCancel = (320, 320, 2220)%Z /\
  stats EnCallback = (48, 48, 504)%Z /\ stats EnLoop = (2592, 1296, 61070)%Z.
Proof. exact coverage_counts. Qed.
Print Assumptions c07_ir_coverage_src.

Theorem c07_ir_instructions_covered_src :
  all_ir_tags = [1; 2; 3; 5; 6; 7; 8; 9; 10; 11; 12; 13; 22; 23; 24; 25; 26; 27; 28; 29; 30; 31; 32; 33; 34; 36; 39; 40] /\
  all_lib_tags = [14; 15; 16; 17; 18; 19; 20; 21; 35; 37; 38; 41; 42].
Proof. exact coverage_instrs. Qed.
Print Assumptions c07_ir_instructions_covered_src.

(* one co-execution spelled out: the hand-over thread, static count 1, two queued futures, nothing running *)
Definition c_ex : cfg := mkC false false (Some 1%Z) false [0; 1] 0%Z false (Answer None) None false 2 false true Pending (Ok 5).
Example c07_ir_loop_iteration :
  match conf_run EnLoop c_ex with
  | Some (_, (tis, _, _, _)) => firstn 16 tis
  | None => []
  end =
  [(true, IXAcqH); (true, IRcRead RLoop); (true, IPop); (true, IAcqA AIncr); (true, IRelA); (true, IRcRead RLoop);
   (true, IRelXH); (true, IDSubmit 0); (true, IAddCb1 1); (false, IAcqMSet 0 (Some 1)); (false, IRelM 0);
   (false, IAddCb2 1 0); (true, IRcRead RWait); (true, IWait 30 WH); (true, IWoke WH); (true, IClear)].
Proof. vm_compute. reflexivity. Qed.
