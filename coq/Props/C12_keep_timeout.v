(* C12 (second sentence) on the TimeoutExecutor machine (Model/Timeout.v): the executor's `_jobs` list holds a
   (future, deadline) record per submission; a record of a DONE future leaves `_jobs` at the job thread's next
   partition (_partition_jobs keeps only jobs whose future answered "not done"), and no such partition is missed:
   the future's completion runs TimeoutExecutor._on_future_done, which sets the event the job thread waits on.
   Statements only; proofs in Proofs/Keep_Timeout_A..F.v, Proofs/Keep_Timeout.v. *)
From Coq Require Import List ZArith Bool Arith Lia.
From ME Require Import Base.Machine Base.Fut Base.GenPrelude Gen.TimeoutGen Model.Timeout Proofs.Timeout_Inv
  Proofs.Keep_Timeout_C Proofs.Keep_Timeout_E Proofs.Keep_Timeout.
Import ListNotations.
Local Open Scope Z_scope.

Definition reachable (s : st) : Prop := reachable_from step init s.

(* ---- 1. at quiescence: every client thread idle, the job thread blocked in event.wait() and not notified ---------- *)
Theorem c12_timeout_jobs_quiescent : forall s, reachable s -> timeout_parked s -> wnotif s = false ->
  forall job, In job (jobs s) -> fdone (rs s (tj_id job)) = false.
Proof. exact timeout_jobs_quiescent_lemma. Qed.

(* ---- 2. the exact window, in EVERY reachable state: a job of a done future is still in _jobs only while
   (a) the job thread is at the top of its loop (between event.clear() and the clock read of the next partition), or
   (b) the partition is running and has not read this job's done() yet, or has read True (it will drop it), or
   (c) the event is set (the pending / running wait() returns at once), or
   (d) the blocked job thread has been notified, or
   (e) an event.set() is pending in some program, or the completing thread is about to run the callbacks
       (among them _on_future_done = CbWake).
   lcls reads the loop phase off the last instruction of the job thread's program (control instructions are last). *)
Theorem c12_timeout_done_job_window : forall s, reachable s -> forall job,
  In job (jobs s) -> fdone (rs s (tj_id job)) = true ->
  lcls (thr s jt) = CTop
  \/ (lcls (thr s jt) = CPart /\ (In (tj_id job) (pdh (thr s jt)) \/ pans s (tj_id job) = true))
  \/ evf s = true
  \/ (lcls (thr s jt) = CWoke /\ wnotif s = true /\ evf s = true)
  \/ evp s.
Proof. exact timeout_done_job_window_lemma. Qed.

(* the partition keeps only jobs whose done() it read as False, and an answer is the state at the call *)
Theorem c12_timeout_partition_keeps_not_done : forall s ts t s', step s (ts, EXRel t) = Some s' ->
  forall job, In job (jobs s') -> In job (jobs s) /\ pans s (tj_id job) = false.
Proof. exact timeout_partition_keeps_not_done_lemma. Qed.
Theorem c12_timeout_partition_answer : forall s ts t j pre s', step s (ts, EFR t 1 j pre) = Some s' ->
  forall r, thr s t = IPDone j :: r -> pans s' j = fdone (rs s j).
Proof. exact timeout_partition_answer_lemma. Qed.

Example c12_timeout_partition_nonvacuous :
  exists s s', reachable s /\ step s (1, EXRel 0) = Some s' /\
               map tj_id (jobs s) = [0%nat; 1%nat] /\ rs s 1 = Finished /\ pans s 1 = true /\ pans s 0 = false /\
               map tj_id (jobs s') = [0%nat].
Proof. exact timeout_partition_example. Qed.

(* every job in _jobs of a future that is not done has the wake-up callback in that future's callback list *)
Theorem c12_timeout_job_wake_registered : forall s, reachable s -> forall job,
  In job (jobs s) -> fdone (rs s (tj_id job)) = false -> In CbWake (rcbs s (tj_id job)).
Proof. exact timeout_job_wake_registered_lemma. Qed.

(* ---- 3. the callback list of a done future (_me_done_callbacks): cleared, except between the completing stdlib call
   and `leave M_j; _me_invoke_callbacks` of the same thread -------------------------------------------------------- *)
Theorem c12_timeout_done_callbacks_window : forall s, reachable s -> forall j, fdone (rs s j) = true ->
  rcbs s j = [] \/ exists t r, thr s t = IRelMCbs j :: r \/ thr s t = IFSrnc j :: IRelMCbs j :: r.
Proof. exact timeout_done_callbacks_window_lemma. Qed.
Theorem c12_timeout_done_callbacks_quiescent : forall s, reachable s -> timeout_parked s -> forall j,
  fdone (rs s j) = true -> rcbs s j = [].
Proof. exact timeout_done_callbacks_quiescent_lemma. Qed.

(* ---- 4. the literal "in every reachable state _jobs holds no job of a done future" is FALSE, even with every client
   idle and the job thread blocked in wait(): it has been notified and has not run yet ------------------------------ *)
Theorem c12_timeout_done_job_in_jobs_refuted :
  exists s job, reachable s /\ timeout_parked s /\ In job (jobs s) /\ fdone (rs s (tj_id job)) = true /\
                wnotif s = true /\ evf s = true.
Proof.
  destruct timeout_window_example as [s [Hr [Hp [Hn [He [Hj Hd]]]]]].
  destruct (jobs s) as [|j0 [|j1 [|j2 l]]] eqn:Ej; simpl in Hj; try discriminate Hj.
  injection Hj as H0 H1. exists s, j1. rewrite Ej, H1, Hd. simpl. auto 10.
Qed.

(* ---- non-vacuity: quiescent, future 1 done (its job dropped, its callbacks cleared), future 0 pending with its job
   in _jobs and the wake-up callback registered --------------------------------------------------------------------- *)
Example c12_timeout_quiescent_nonvacuous :
  exists s, reachable s /\ timeout_parked s /\ wnotif s = false /\
            map tj_id (jobs s) = [0%nat] /\ rs s 0 = Pending /\ rs s 1 = Finished /\ rcbs s 1 = [] /\ rcbs s 0 = [CbWake; CbUser 0].
Proof. exact timeout_quiescent_example. Qed.

Print Assumptions c12_timeout_jobs_quiescent.
Print Assumptions c12_timeout_done_job_window.
Print Assumptions c12_timeout_partition_keeps_not_done.
Print Assumptions c12_timeout_partition_answer.
Print Assumptions c12_timeout_partition_nonvacuous.
Print Assumptions c12_timeout_job_wake_registered.
Print Assumptions c12_timeout_done_callbacks_window.
Print Assumptions c12_timeout_done_callbacks_quiescent.
Print Assumptions c12_timeout_done_job_in_jobs_refuted.
Print Assumptions c12_timeout_quiescent_nonvacuous.
