(* C04 (no deadlock among API calls and internal threads) for the Timeout machine Model/Timeout.v:
   submit()/submit_timeout(), cancel(), add_done_callback(), the job thread, environment threads.
   Locks of the machine: the shutdown gate G, the jobs lock X, one lock M_j per returned future.
   Statements only; proofs in Proofs/Timeout_L1.v (pairing future/delegate), Proofs/Timeout_L2.v
   (static lock discipline as an inductive invariant), Proofs/Timeout_L3.v. *)
From Coq Require Import List ZArith Bool Arith Lia.
From ME Require Import Base.Machine Base.Fut Base.GenPrelude Gen.TimeoutGen Model.Timeout
                       Proofs.Timeout_Inv Proofs.Timeout_L1 Proofs.Timeout_L2 Proofs.Timeout_L3.
Import ListNotations.

Definition reachable (s : st) : Prop := reachable_from step init s.

(* 1. lock bookkeeping.  A lock has at most one owner (owner s L : option nat).  For every thread t
   there is exactly one lock context H (gate? X? which M_j?) for which t's remaining program is
   lock-balanced (chk: every release/critical-section instruction finds its lock held, every
   acquisition finds it not held, nothing is held at the end), and t owns precisely the locks of H:
   the owner is the thread whose program still carries the release obligation; a thread that does
   not own L carries none (H is unique). *)
Theorem c04_timeout_lock_owner : forall s, reachable s -> forall t,
  exists H, chk (cs s) H (thr s t) = true /\
            (forall L, owner s L = Some t <-> hlock H L) /\
            (forall H', chk (cs s) H' (thr s t) = true -> H' = H).
Proof. exact lock_owner_l. Qed.

Theorem c04_timeout_one_owner : forall s L t1 t2, owner s L = Some t1 -> owner s L = Some t2 -> t1 = t2.
Proof. intros s L t1 t2 A B. congruence. Qed.

(* 2. lock order.  Nestings that occur: submit_timeout holds G over everything and inside it takes
   M_j (constructor, add_done_callback; released again) and then X (append) -- never M_j and X
   together; the job thread takes X alone for the partition (Future.done() takes no model lock),
   releases it, and only then cancel()s expired futures under M_j alone; done-callbacks
   (_on_future_done = event.set()) run after M_j was released and take no lock; cancel() /
   add_done_callback() / _delegate_resolved take M_j alone.  Hence rank G = 0 < rank X = rank M_j = 1,
   and whenever a thread's next operation is an acquisition every lock it holds is strictly below
   the requested one (in particular it never requests a lock it holds: the re-entrant
   re-acquisitions of M_j inside cancel() are not operations of the machine). *)
Theorem c04_timeout_lock_order : forall s, reachable s ->
  forall t L, next_acq t (thr s t) = Some L -> forall L', owner s L' = Some t -> rank L' < rank L.
Proof. exact lock_order_l. Qed.

(* a thread parked on the executor's event (computing the wait, waiting, woken) holds no lock *)
Theorem c04_timeout_wait_holds_nothing : forall s, reachable s ->
  forall t i r, thr s t = i :: r -> is_wait i = true -> forall L, owner s L <> Some t.
Proof. exact wait_holds_nothing_l. Qed.

(* 3. no deadlock.  waits s t u: t's next operation acquires a lock owned by u.  The owner chain
   from any blocked thread ends after at most two hops, without repetition, in a thread that is
   not blocked on a lock. *)
Theorem c04_timeout_no_deadlock : forall s, reachable s ->
  forall t u, waits s t u ->
  u <> t /\
  ((forall v, ~ waits s u v) \/
   (exists v, waits s u v /\ v <> u /\ v <> t /\ forall w, ~ waits s v w)).
Proof. exact no_deadlock_l. Qed.

(* non-vacuity: thread 1 is inside submit (holds G) and wants M_0, which environment thread 3 holds
   inside _delegate_resolved; thread 2 calls submit and is blocked on G: chain 2 -> 1 -> 3 *)
Local Open Scope Z_scope.
Definition c04_trace : list (list Z) :=
  [[0; 0; 1; 5]; [0; 13; 1]; [0; 15; 1; 0; 0; 0; 0]; [0; 8; 1; 0]; [0; 9; 1; 0]; [0; 11; 1; 5; 0; 0];
   [0; 19; 3; 0; 0]; [0; 21; 3; 0; 1; 0; 7]; [0; 8; 3; 0]; [0; 0; 2; 3]].

Example c04_timeout_trace_accepted : accept c04_trace = [-1].
Proof. vm_compute. reflexivity. Qed.

Example c04_timeout_blocked_chain :
  exists s, reachable s /\ waits s 2%nat 1%nat /\ waits s 1%nat 3%nat /\ forall w, ~ waits s 3%nat w.
Proof.
  destruct (decode_all c04_trace) as [es|] eqn:D; [|discriminate D].
  destruct (run step init es) as [s|] eqn:R; [|vm_compute in D; inversion D; subst; vm_compute in R; discriminate R].
  exists s. split; [exists es; exact R|].
  vm_compute in D. inversion D; subst; clear D. vm_compute in R. inversion R; subst; clear R.
  split; [apply waitsb_waits; reflexivity|]. split; [apply waitsb_waits; reflexivity|].
  intros w [L [N _]]. discriminate N.
Qed.

Print Assumptions c04_timeout_lock_owner.
Print Assumptions c04_timeout_one_owner.
Print Assumptions c04_timeout_lock_order.
Print Assumptions c04_timeout_wait_holds_nothing.
Print Assumptions c04_timeout_no_deadlock.
Print Assumptions c04_timeout_blocked_chain.
