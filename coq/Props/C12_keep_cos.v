(* C12 (second sentence) on the CancelOnShutdownExecutor machine (Model/Cos.v): the set `_futures` (tracked) holds a
   delegate future from delegate.submit() until its done-callback set.discard ran.  The stdlib runs the done-callbacks
   inside the completing call (the model's `settle`: state change and discard are one step), so the only window is a
   future that delegate.submit() returned already done: tracked until add_done_callback(discard) of the same submit().
   (During shutdown() the sweeper additionally holds its local snapshot `todo` of the set.)
   Statements only; proofs in Proofs/Keep_Cos.v. *)
From Coq Require Import List Arith Bool.
From ME Require Import Base.Machine Base.Fut Model.Cos Proofs.Cos_Inv Proofs.Keep_Cos.
Import ListNotations.

Definition reachable := reachable_from step init.

(* exact window, in EVERY reachable state *)
Theorem c12_cos_tracked_done_window : forall s, reachable s -> forall f,
  In f (tracked s) -> fdone (fs s f) = true -> exists t, thr s t = S3 f.
Proof. exact cos_tracked_done_window. Qed.

(* at rest: no submit() is between delegate.submit and add_done_callback *)
Theorem c12_cos_tracked_not_done_at_rest : forall s, reachable s -> cos_at_rest s ->
  forall f, In f (tracked s) -> fdone (fs s f) = false.
Proof. exact cos_tracked_not_done_at_rest. Qed.
(* ... then the set is exactly the created futures that are not done *)
Theorem c12_cos_tracked_exact_at_rest : forall s, reachable s -> cos_at_rest s ->
  forall f, f < created s -> (In f (tracked s) <-> fdone (fs s f) = false).
Proof. exact cos_tracked_exact_at_rest. Qed.

(* the literal "in every reachable state no done future is tracked" is FALSE: a delegate that runs the job inline *)
Theorem c12_cos_tracked_done_refuted :
  exists s f, reachable s /\ In f (tracked s) /\ fdone (fs s f) = true /\ thr s 0 = S3 f.
Proof.
  destruct cos_window_example as [s [Hr [Ht [Hf Hp]]]]. exists s, 0. rewrite Ht, Hf. simpl. auto.
Qed.

(* non-vacuity: at rest (all threads idle), futures 0 and 2 done and not tracked, future 1 pending and tracked *)
Example c12_cos_at_rest_nonvacuous : exists s, reachable s /\ (forall t, thr s t = Idle) /\ created s = 3 /\
  tracked s = [1] /\ fs s 0 = Finished /\ fs s 1 = Pending /\ fs s 2 = Finished.
Proof. exact cos_rest_example. Qed.

Print Assumptions c12_cos_tracked_done_window.
Print Assumptions c12_cos_tracked_not_done_at_rest.
Print Assumptions c12_cos_tracked_exact_at_rest.
Print Assumptions c12_cos_tracked_done_refuted.
Print Assumptions c12_cos_at_rest_nonvacuous.
