(* Types and helpers the generated kernels (coq/Gen/*.v) are written against. Hand-written, fixed. *)
From Coq Require Import List ZArith QArith Qminmax Bool String.
Import ListNotations.

Definition isnil {A} (l : list A) : bool := match l with [] => true | _ => false end.
Definition isnone {A} (o : option A) : bool := match o with None => true | Some _ => false end.
Definition issome {A} (o : option A) : bool := negb (isnone o).
Definition the (o : option nat) : nat := match o with Some x => x | None => 0 end.

Definition Qltb (a b : Q) : bool := negb (Qle_bool b a).
Definition Qgtb (a b : Q) : bool := negb (Qle_bool a b).
Definition Qgeb (a b : Q) : bool := Qle_bool b a.

(* an answer of user code consulted by a kernel *)
Inductive policy_answer (A : Type) := Answer (a : A) | Raises.
Arguments Answer {A} a.
Arguments Raises {A}.

(* retry job as seen by _get_next_job *)
Record rjob := { rj_id : nat; rj_has_delegate : bool; rj_stop : bool; rj_when : Z }.
Definition the_job (o : option rjob) : rjob :=
  match o with Some j => j | None => {| rj_id := 0; rj_has_delegate := false; rj_stop := false; rj_when := 0 |} end.

(* timeout job *)
Record tjob := { tj_id : nat; tj_deadline : Z }.

(* what get_state_update / Zipper.handle_done read from the completed input future *)
Record fview := { v_cancelled : bool; v_failed : bool; v_truthy : bool }.

(* forms of a ProxyFuture dunder method body *)
Inductive pop := OpAdd | OpSub | OpMul | OpTrueDiv | OpFloorDiv | OpMod | OpLShift | OpRShift
               | OpAnd | OpXor | OpOr | OpPow | OpMatMul | OpNeg | OpPos | OpInvert.
Inductive pform :=
| FBinOp (o : pop)            (* return self.__result <op> other *)
| FUnOp (o : pop)             (* return <op> self.__result *)
| FBuiltin (name : string)    (* return builtin(self.__result, ...) *)
| FMethodCall (name : string) (* return self.__result.<name>(...)  -- an explicit method call *)
| FGetItem | FSetItem | FDelItem | FContains
| FConst.                     (* does not touch the result *)
