(* The stdlib concurrent.futures.Future state machine (Python 3.12 _base.py), one method = one
   linearisable step because each method holds the future's condition for its whole state access. *)
From Coq Require Import ZArith List Bool.
Import ListNotations.
Local Open Scope Z_scope.

Inductive fstate := Pending | Running | Cancelled | CancelledNotified | Finished.

Definition fdone (s : fstate) : bool :=
  match s with Cancelled | CancelledNotified | Finished => true | _ => false end.
Definition fcancelled (s : fstate) : bool :=
  match s with Cancelled | CancelledNotified => true | _ => false end.

Definition fcode (s : fstate) : Z :=
  match s with Pending => 0 | Running => 1 | Cancelled => 2 | CancelledNotified => 3 | Finished => 4 end.
Definition fstate_of (z : Z) : option fstate :=
  match z with 0 => Some Pending | 1 => Some Running | 2 => Some Cancelled
             | 3 => Some CancelledNotified | 4 => Some Finished | _ => None end.
Definition fstate_eqb (a b : fstate) : bool := Z.eqb (fcode a) (fcode b).

Lemma fstate_eqb_eq a b : fstate_eqb a b = true <-> a = b.
Proof. destruct a, b; unfold fstate_eqb; simpl; split; intros H; try reflexivity; try discriminate. Qed.

(* Future.cancel(): new state, return value *)
Definition f_cancel (s : fstate) : fstate * bool :=
  match s with
  | Pending => (Cancelled, true)
  | Cancelled => (Cancelled, true)
  | CancelledNotified => (CancelledNotified, true)
  | Running => (Running, false)
  | Finished => (Finished, false)
  end.
(* does this cancel() call run the done-callbacks?  only on the Pending -> Cancelled transition *)
Definition f_cancel_fires (s : fstate) : bool := match s with Pending => true | _ => false end.

(* Future.set_running_or_notify_cancel(): None = raises RuntimeError *)
Definition f_srnc (s : fstate) : option (fstate * bool) :=
  match s with
  | Pending => Some (Running, true)
  | Cancelled => Some (CancelledNotified, false)
  | _ => None
  end.

(* Future.set_result / set_exception: None = raises InvalidStateError *)
Definition f_set (s : fstate) : option fstate :=
  match s with Pending | Running => Some Finished | _ => None end.

Lemma f_cancel_true_cancelled s : snd (f_cancel s) = true -> fcancelled (fst (f_cancel s)) = true.
Proof. destruct s; simpl; congruence. Qed.
Lemma f_cancel_done_mono s : fdone s = true -> fst (f_cancel s) = s.
Proof. destruct s; simpl; congruence. Qed.
Lemma f_cancel_done s : fdone s = true -> fdone (fst (f_cancel s)) = true.
Proof. destruct s; simpl; congruence. Qed.

(* ---- protocol facts of the stdlib Future used by C02 / C06 ------------------------------------ *)
(* a cancelled future can never be started or given an outcome any more *)
Lemma cancelled_never_runs s : fcancelled s = true ->
  f_set s = None /\ (forall n b, f_srnc s = Some (n, b) -> b = false /\ fcancelled n = true) /\ fst (f_cancel s) = s.
Proof. destruct s; simpl; intros H; try discriminate; repeat split; intros; try congruence; inversion H0; subst; auto. Qed.
(* a finished future refuses cancel() and keeps its state *)
Lemma finished_refuses_cancel : f_cancel Finished = (Finished, false) /\ f_set Finished = None /\ f_srnc Finished = None.
Proof. repeat split. Qed.
(* a running future refuses cancel() and can still finish normally *)
Lemma running_refuses_cancel : f_cancel Running = (Running, false) /\ f_set Running = Some Finished.
Proof. split; reflexivity. Qed.
(* every method keeps a done future done *)
Lemma done_is_stable s : fdone s = true ->
  fdone (fst (f_cancel s)) = true /\ (forall n b, f_srnc s = Some (n, b) -> fdone n = true) /\ f_set s = None.
Proof. destruct s; simpl; intros H; try discriminate; repeat split; intros; try congruence; inversion H0; subst; auto. Qed.
