(* Generic trace-acceptor machines: run, reachability, the invariant rule. *)
From Coq Require Import List.
Import ListNotations.

Section Machine.
  Context {St Ev : Type}.
  Variable step : St -> Ev -> option St.

  Fixpoint run (s : St) (es : list Ev) : option St :=
    match es with
    | [] => Some s
    | e :: r => match step s e with Some s' => run s' r | None => None end
    end.

  (* index of the first rejected event, or None when the whole trace is accepted *)
  Fixpoint first_reject (s : St) (es : list Ev) (i : nat) : option nat :=
    match es with
    | [] => None
    | e :: r => match step s e with Some s' => first_reject s' r (S i) | None => Some i end
    end.

  Definition reachable_from (s0 s : St) : Prop := exists es, run s0 es = Some s.

  Lemma run_app s es1 es2 :
    run s (es1 ++ es2) = match run s es1 with Some s' => run s' es2 | None => None end.
  Proof.
    revert s; induction es1 as [|e r IH]; intros s; simpl; [reflexivity|].
    destruct (step s e); [apply IH|reflexivity].
  Qed.

  Lemma reachable_refl s : reachable_from s s.
  Proof. exists []; reflexivity. Qed.

  Lemma reachable_step s0 s e s' : reachable_from s0 s -> step s e = Some s' -> reachable_from s0 s'.
  Proof.
    intros [es H] Hs. exists (es ++ [e]). rewrite run_app, H. simpl. rewrite Hs. reflexivity.
  Qed.

  Lemma invariant_rule (P : St -> Prop) s0 :
    P s0 -> (forall s e s', P s -> step s e = Some s' -> P s') ->
    forall s, reachable_from s0 s -> P s.
  Proof.
    intros H0 Hstep s [es H]. revert s0 H0 H.
    induction es as [|e r IH]; simpl; intros s0 H0 H.
    - inversion H; subst; exact H0.
    - destruct (step s0 e) eqn:E; [|discriminate]. eapply IH; [|exact H]. eapply Hstep; eauto.
  Qed.

  (* invariant rule that may use reachability of the pre-state *)
  Lemma invariant_rule_r (P : St -> Prop) s0 :
    P s0 -> (forall s e s', reachable_from s0 s -> P s -> step s e = Some s' -> P s') ->
    forall s, reachable_from s0 s -> P s.
  Proof.
    intros H0 Hstep s [es H].
    assert (G : forall es2 es1 s1, run s0 es1 = Some s1 -> P s1 -> run s1 es2 = Some s -> P s).
    { induction es2 as [|e r IH]; simpl; intros es1 s1 R1 P1 R2.
      - inversion R2; subst; exact P1.
      - destruct (step s1 e) eqn:E; [|discriminate].
        apply (IH (es1 ++ [e]) s2); auto.
        + rewrite run_app, R1. simpl. rewrite E. reflexivity.
        + eapply Hstep; eauto. exists es1; exact R1. }
    apply (G es [] s0); auto.
  Qed.

  Lemma first_reject_none s es : first_reject s es 0 = None <-> run s es <> None.
  Proof.
    generalize 0. revert s. induction es as [|e r IH]; intros s n; simpl.
    - split; congruence.
    - destruct (step s e); [apply IH|]. split; congruence.
  Qed.
End Machine.

(* total maps nat -> A with point update *)
Definition upd {A} (f : nat -> A) (k : nat) (v : A) : nat -> A :=
  fun x => if Nat.eqb x k then v else f x.
Lemma upd_same {A} (f : nat -> A) k v : upd f k v k = v.
Proof. unfold upd. rewrite PeanoNat.Nat.eqb_refl. reflexivity. Qed.
Lemma upd_other {A} (f : nat -> A) k v x : x <> k -> upd f k v x = f x.
Proof. unfold upd. intros H. apply PeanoNat.Nat.eqb_neq in H. rewrite H. reflexivity. Qed.
