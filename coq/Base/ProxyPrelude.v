(* Syntax the second ProxyFuture kernel file (coq/Gen/Proxy2Gen.v) is written in.  Hand-written, fixed.
   Semantics: Model/Proxy2.v. *)
From Coq Require Import List ZArith Bool String.
From ME Require Import Base.GenPrelude.
Import ListNotations.

(* ---- the expression f_proxy hands to ProxyFuture as `timeout` --------------------------------------- *)
Inductive texpr :=
| TENone                                      (* None *)
| TEMax                                       (* MAX_TIMEOUT *)
| TEInt (z : Z)                               (* an integer literal *)
| TEKw (pop : bool) (key : string) (dflt : texpr)   (* kwargs.pop(key, dflt) / kwargs.get(key, dflt) *)
| TEOr (a b : texpr)                          (* a or b *)
| TEIfIsNone (x a b : texpr)                  (* a if x is None else b *)
| TEIfIsNotNone (x a b : texpr)               (* a if x is not None else b *)
| TEIfTruth (x a b : texpr).                  (* a if x else b *)

(* which timeout `__result` passes to self.result(...) *)
Inductive tsource :=
| TSConfigured                                (* self.result(self.__timeout) *)
| TSNoTimeout                                 (* self.result() *)
| TSConst (z : Z).                            (* self.result(<integer literal>) *)

(* ---- method bodies of ProxyFuture, as expressions (statement forms x[k] = v / del x[k] included) ---- *)
Inductive bexp :=
| BResult                                     (* self.__result *)
| BArg (n : string)                           (* a parameter of the method *)
| BStar (n : string)                          (* *n, as an argument of a call *)
| BTrue | BFalse
| BBin (o : pop) (a b : bexp)                 (* a <o> b *)
| BUn (o : pop) (a : bexp)                    (* <o> a *)
| BCall (fn : string) (args : list bexp)      (* a builtin or math.<fn> *)
| BMethod (recv : bexp) (name : string) (args : list bexp)   (* recv.name(args) *)
| BSelfMethod (name : string)                 (* self.name() *)
| BGetItem (a k : bexp)                       (* a[k] *)
| BSetItem (a k v : bexp)                     (* a[k] = v *)
| BDelItem (a k : bexp)                       (* del a[k] *)
| BContains (x a : bexp).                     (* x in a *)

(* a method: name, parameters after self (true = a *parameter), body *)
Definition pmethod : Type := string * list (string * bool) * bexp.

(* ---- ProxyFuture.__getattr__, statement by statement ------------------------------------------------ *)
Inductive gstmt :=
| GIfEqRaiseOwnException (s : string)         (* if name == s: raise self.exception() *)
| GIfPrefixRaiseAttributeError (p : string)   (* if name.startswith(p): raise AttributeError() *)
| GReturnGetattrResult.                       (* return getattr(self.__result, name) *)

(* ---- NoCancelFuture --------------------------------------------------------------------------------- *)
Inductive ncbody :=
| NCReturnConst (b : bool)                    (* return False / return True *)
| NCSuper.                                    (* return super().cancel() *)
Inductive nfn := NFIdentity | NFAbsent | NFOther.
