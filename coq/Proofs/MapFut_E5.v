(* Layer E5 (C06 c): the return token of an API call: every thread program holds at most one of
   {ICancelled, IDoneC, IDCancel, IRetB, IRet, IRetRaise, IDoneA}; how a step transforms it. *)
From Coq Require Import ZArith List Bool Arith Lia.
From RecordUpdate Require Import RecordSet.
From ME Require Import Base.Machine Base.Fut Base.GenPrelude Model.MapFut Model.MapLaw Proofs.MapFut_InvD Proofs.MapFut_E1.
Import ListNotations RecordSetNotations.

Definition isC (i : instr) : bool :=
  match i with ICancelled _ | IDoneC _ | IDCancel _ _ | IRetB _ | IRet | IRetRaise | IDoneA _ _ => true | _ => false end.
Definition cproj (p : list instr) : list instr := filter isC p.

Lemma cproj_app a b : cproj (a ++ b) = cproj a ++ cproj b.
Proof. apply filter_app. Qed.
Lemma cproj_fires s d r : cproj (fires s d r) = cproj r.
Proof. unfold fires. rewrite cproj_app. induction (ecbs s d); simpl; auto. Qed.
Lemma cproj_on_mapped s j x r : cproj (on_mapped s j x ++ r) = cproj r.
Proof. rewrite cproj_app. unfold on_mapped. destruct (mkind s j), (mflat s j), x; reflexivity. Qed.
Lemma cproj_cbs j l r : cproj (map (fun c => IUserCb j c false) l ++ r) = cproj r.
Proof. rewrite cproj_app. induction l; simpl; auto. Qed.

Definition is_retb (i : instr) : bool := match i with IRetB _ => true | _ => false end.

Definition ctrans (s s0 : st) (e : ev) : Prop :=
  let t := tid e in
  match e with
  | ERet _ code => exists i r, thr s t = i :: r /\ thr s0 t = r /\ isC i = true /\ (forall b, i = IRetB b -> code = if b then 2 else 1)
  | EFE _ 2 d pre => exists j r, thr s t = IDCancel j d :: r /\ cproj (thr s0 t) = IRetB (snd (f_cancel pre)) :: cproj r
  | ECallCancel _ _ => thr s t = [] /\ length (cproj (thr s0 t)) = 1
  | _ => cproj (thr s0 t) = cproj (thr s t) \/
         (exists i r i', thr s t = i :: r /\ isC i = true /\ is_retb i = false /\ cproj (thr s0 t) = i' :: cproj r) \/
         (thr s t = [] /\ length (cproj (thr s0 t)) = 1)
  end.

Lemma lstep_ctrans s e s0 : lstep s e = Some s0 -> shape_all s -> ctrans s s0 e.
Proof.
  intros H SH. pose proof (SH (tid e)) as Sh. unfold ctrans.
  step_cases H; simpl in *; rewrite ?upd_same.
  all: try (split; [assumption|reflexivity]).
  all: try (right; right; split; [assumption|reflexivity]).
  all: try (left; reflexivity).
  all: match goal with E : thr _ _ = _ |- _ => rewrite E in * end.
  all: rewrite ?cproj_on_mapped, ?cproj_fires, ?cproj_cbs.
  all: try (left; reflexivity).
  all: try (eexists _, _; split; [reflexivity|]; split; [reflexivity|]; split; [reflexivity|]; intros b' X; inversion X; subst; reflexivity).
  all: try (right; left; eexists _, _, _; split; [reflexivity|]; split; [reflexivity|]; split; [reflexivity|]; reflexivity).
  all: try (eexists _, _; split; [reflexivity|]; unfold cproj; simpl; rewrite ?filter_app; simpl; inv_eqs; reflexivity).
  all: simpl in Sh; destruct l as [|[] l']; try discriminate Sh; left; reflexivity.
Qed.

Lemma sil_cproj t s s' : sil t s s' -> forall t', cproj (thr s' t') = cproj (thr s t').
Proof.
  intros H t'. destruct (sil_thr _ _ _ H) as (i & r & Et & Ho & Hr).
  destruct (Nat.eq_dec t' t) as [->|N]; [|rewrite Ho by exact N; reflexivity].
  assert (NC : isC i = false).
  { inversion H; subst; rewrite (upd_eq_same _ _ _ _ H0) in Et; inversion Et; reflexivity. }
  rewrite Et. unfold cproj at 2. simpl. rewrite NC. fold (cproj r).
  destruct Hr as [->|(j0 & -> & ->)]; [reflexivity|apply cproj_cbs].
Qed.
Lemma sstar_cproj t s s' : sstar t s s' -> forall t', cproj (thr s' t') = cproj (thr s t').
Proof. induction 1; intros t'; [reflexivity|]. rewrite IHsstar. eapply sil_cproj; eauto. Qed.

(* at most one return token per thread *)
Definition Cp (s : st) : Prop := forall t, length (cproj (thr s t)) <= 1.

Lemma cproj_cons i r : cproj (i :: r) = if isC i then i :: cproj r else cproj r.
Proof. reflexivity. Qed.

Lemma lstep_cp s e s0 : lstep s e = Some s0 -> shape_all s -> Cp s -> Cp s0.
Proof.
  intros H SH I t'. destruct (Nat.eq_dec t' (tid e)) as [->|N]; [|rewrite (lstep_thr_other _ _ _ H _ N); apply I].
  pose proof (lstep_ctrans _ _ _ H SH) as T. pose proof (I (tid e)) as It. unfold ctrans in T.
  assert (G : cproj (thr s0 (tid e)) = cproj (thr s (tid e)) \/
         (exists i r i', thr s (tid e) = i :: r /\ isC i = true /\ cproj (thr s0 (tid e)) = i' :: cproj r) \/
         (exists i r, thr s (tid e) = i :: r /\ thr s0 (tid e) = r) \/
         (length (cproj (thr s0 (tid e))) = 1)).
  { destruct e; try (destruct T as [T|[(i & r & i' & T1 & T2 & _ & T3)|[_ T]]]; eauto 10; fail).
    - right; right; right; apply T.
    - destruct T as (i & r & T1 & T2 & _). right; right; left; eauto.
    - destruct op as [|[|[|op]]]; try (destruct T as [T|[(i & r & i' & T1 & T2 & _ & T3)|[_ T]]]; eauto 10; fail).
      destruct T as (j & r & T1 & T2). right; left. exists (IDCancel j d), r. eexists; split; [exact T1|split; [reflexivity|exact T2]]. }
  destruct G as [G|[(i & r & i' & G1 & G2 & G3)|[(i & r & G1 & G2)|G]]].
  - rewrite G; exact It.
  - rewrite G3. rewrite G1, cproj_cons, G2 in It. simpl in *. exact It.
  - rewrite G2. rewrite G1, cproj_cons in It. destruct (isC i); simpl in *; lia.
  - lia.
Qed.
Lemma sil_cp t s s' : sil t s s' -> Cp s -> Cp s'.
Proof. intros H I t'. rewrite (sil_cproj _ _ _ H). apply I. Qed.

Definition Inv9 (s : st) : Prop := Inv1 s /\ Cp s.
Lemma linv9 : linv Inv9.
Proof.
  apply linv_and; [apply linv1|intros t; simpl; lia| |].
  - intros s e s0 [SH _] _ C H. eapply lstep_cp; eauto.
  - intros; eapply sil_cp; eauto.
Qed.
Lemma inv9_reach s : reachable s -> Inv9 s.
Proof. apply linv_reach; [apply linv9|]. intros s0 H; apply H. Qed.
