(* source facts of more_executors/_impl/cancel_on_shutdown.py: what the translator finds now is what the models were written against *)
From Coq Require Import List String.
From ME Require Import Gen.Src_cos Model.SrcExpected.
Lemma src_cos_ok : Src_cos.facts = expected_cos.
Proof. reflexivity. Qed.
