(* Layer E3 (C06): the history facts about cancel(): forwarded to the delegate, True means the
   mapping function never starts afterwards. *)
From Coq Require Import ZArith List Bool Arith Lia.
From RecordUpdate Require Import RecordSet.
From ME Require Import Base.Machine Base.Fut Base.GenPrelude Model.MapFut Model.MapLaw Proofs.MapFut_InvD Proofs.MapFut_E1 Proofs.MapFut_E2.
Import ListNotations RecordSetNotations.

Record Ch (s : st) : Prop := {
  c_ret : forall l1 j l2, hist s = l1 ++ HCancelRet j true :: l2 -> In (HCancelled j) l2;
  c_fwd : forall l1 j l2, hist s = l1 ++ HCancelled j :: l2 -> exists d, In (HDCancel j d true) l2;
  c_att : forall l1 j d b l2, hist s = l1 ++ HDCancel j d b :: l2 -> attH (mkind s j) l2 j d;
  c_after : forall l1 j l2, hist s = l1 ++ HCancelRet j true :: l2 -> forall h, In h l1 -> hcall j h = false
}.

Lemma cancelled_logged s j : Hd s -> fcancelled (ms s j) = true -> In (HCancelled j) (hist s).
Proof.
  intros I X. destruct (h_done _ I j) as [[o Y]|Y]; [destruct (ms s j); simpl in *; congruence| |exact Y].
  destruct (h_set _ I _ _ Y) as [A _]. rewrite A in X. discriminate X.
Qed.

Lemma lstep_c_ret s e s0 : lstep s e = Some s0 -> Hd s -> Ch s ->
  forall l1 j l2, hist s0 = l1 ++ HCancelRet j true :: l2 -> In (HCancelled j) l2.
Proof.
  intros H I C. pose proof (c_ret _ C) as A. pose proof (c_grd _ I) as G.
  step_cases H; try exact A.
  all: intros l1 j' l2 E; simpl in E; try (eapply A; eauto; fail).
  all: apply app_cons_split in E; destruct E as [(-> & E1 & <-)|(l1' & -> & E)]; [|eapply A; eauto]; try discriminate E1.
  inversion E1; subst. specialize (G t). rewrite Heql in G. simpl in G. destruct G as [G _].
  specialize (G eq_refl _ Heqo). apply cancelled_logged; assumption.
Qed.

Lemma lstep_c_fwd s e s0 : lstep s e = Some s0 -> Cn s -> Ch s ->
  forall l1 j l2, hist s0 = l1 ++ HCancelled j :: l2 -> exists d, In (HDCancel j d true) l2.
Proof.
  intros H CN C. pose proof (c_fwd _ C) as A. pose proof (n_thr _ CN) as I1.
  step_cases H; try exact A.
  all: intros l1 j' l2 E; simpl in E; try (eapply A; eauto; fail).
  all: apply app_cons_split in E; destruct E as [(-> & E1 & <-)|(l1' & -> & E)]; [|eapply A; eauto]; try discriminate E1.
  inversion E1; subst. specialize (I1 t). rewrite Heql in I1. inversion I1; subst. simpl in H1. apply H1.
Qed.

Lemma lstep_c_att s e s0 : lstep s e = Some s0 -> Bnd s -> Cn s -> Ch s ->
  forall l1 j d b l2, hist s0 = l1 ++ HDCancel j d b :: l2 -> attH (mkind s0 j) l2 j d.
Proof.
  intros H B CN C. pose proof (c_att _ C) as A. pose proof (n_thr _ CN) as I1.
  step_cases H; try exact A.
  all: intros l1 j' d' b' l2 E; simpl in *; try (eapply A; eauto; fail).
  all: apply app_cons_split in E; destruct E as [(-> & E1 & <-)|(l1' & -> & E)]; try discriminate E1.
  all: try (eapply A; eauto; fail).
  - assert (L : j' < nfut s).
    { eapply (bnd_hist s (HDCancel j' d' b')); [exact B| |reflexivity]. rewrite E. apply in_or_app; right; left; reflexivity. }
    rewrite upd_other by lia. eapply A; eauto.
  - inversion E1; subst. specialize (I1 t). rewrite Heql in I1. inversion I1; subst. simpl in H1. apply H1.
  - inversion E1; subst. specialize (I1 t). rewrite Heql in I1. inversion I1; subst. simpl in H1. apply H1.
  - inversion E1; subst. specialize (I1 t). rewrite Heql in I1. inversion I1; subst. simpl in H1. apply H1.
  - inversion E1; subst. specialize (I1 t). rewrite Heql in I1. inversion I1; subst. simpl in H1. apply H1.
Qed.

Lemma lstep_c_after s e s0 : lstep s e = Some s0 -> Hd s -> Fn s -> Ol s -> Cn s -> Ch s ->
  forall l1 j l2, hist s0 = l1 ++ HCancelRet j true :: l2 -> forall h, In h l1 -> hcall j h = false.
Proof.
  intros H I F O CN C. pose proof (c_after _ C) as A.
  assert (K : forall j d, In (HCancelRet j true) (hist s) -> ncall s j = 0 -> In (HNew j d) (hist s) -> es s d = Finished -> False).
  { intros j d X Z Y W. apply (h_cret _ I) in X. destruct (n_canc _ CN j X Z) as (d' & Y' & W').
    rewrite (n_uniq _ CN _ _ _ Y Y') in W. rewrite W in W'. discriminate W'. }
  pose proof (f_thr _ F) as F1. pose proof (o_thr _ O) as O1.
  step_cases H; try exact A.
  all: intros l1 j' l2 E h Hh; simpl in E; try (eapply A; eauto; fail).
  all: apply app_cons_split in E; destruct E as [(-> & E1 & <-)|(l1' & -> & E)]; try (destruct Hh; fail).
  all: destruct Hh as [<-|Hh]; [|eapply A; eauto]; try reflexivity.
  all: simpl; destruct (Nat.eqb j' j) eqn:Ej; [apply Nat.eqb_eq in Ej; subst j'; exfalso|reflexivity].
  all: specialize (F1 t j); specialize (O1 t); rewrite Heql in F1, O1; inversion F1; subst; inversion O1; subst.
  all: match goal with X : okF _ _ _ |- _ => destruct X as [X _]; simpl in X; rewrite Nat.eqb_refl in X; specialize (X eq_refl) end.
  all: match goal with P : okP _ _ |- _ => simpl in P; destruct P as (P1 & P2 & _) end.
  all: eapply (K j d); eauto; rewrite E; apply in_or_app; right; left; reflexivity.
Qed.

Lemma sil_ch t s s' : sil t s s' -> Ch s -> Ch s'.
Proof.
  intros H [C1 C2 C3 C4]. constructor; rewrite ?(sil_hist _ _ _ H), ?(sil_mkind _ _ _ H); assumption.
Qed.

Lemma ch_init : Ch init.
Proof. constructor; simpl; intros; destruct l1; discriminate. Qed.

Definition Inv8 (s : st) : Prop := Inv7 s /\ Ch s.
Lemma linv8 : linv Inv8.
Proof.
  apply linv_and; [apply linv7|apply ch_init| |].
  - intros s e s0 [I6 (E & N & CN)] _ C H.
    pose proof (inv6_bnd _ I6) as B. pose proof (inv6_ol _ I6) as O. pose proof (inv6_hd _ I6) as HD. pose proof (inv6_fn _ I6) as F.
    constructor.
    + eapply lstep_c_ret; eauto.
    + eapply lstep_c_fwd; eauto.
    + eapply lstep_c_att; eauto.
    + eapply lstep_c_after; eauto.
  - intros; eapply sil_ch; eauto.
Qed.
Lemma inv8_reach s : reachable s -> Inv8 s.
Proof. apply linv_reach; [apply linv8|]. intros s0 H; apply H. Qed.

(* ---- C06 (a): cancel() returned True: cancelled for good, fn / error_fn never start afterwards --- *)
Lemma mapfut_cancel_true_fn_never_after : forall s, reachable s -> forall l1 j l2,
  hist s = l1 ++ HCancelRet j true :: l2 ->
  (forall d a, ~ In (HFn j d a) l1) /\ (forall d a, ~ In (HEfn j d a) l1) /\ fcancelled (ms s j) = true.
Proof.
  intros s R l1 j l2 E. destruct (inv8_reach s R) as [[I6 _] C].
  repeat split.
  - intros d a X. pose proof (c_after _ C _ _ _ E _ X) as Y. simpl in Y. rewrite Nat.eqb_refl in Y. discriminate Y.
  - intros d a X. pose proof (c_after _ C _ _ _ E _ X) as Y. simpl in Y. rewrite Nat.eqb_refl in Y. discriminate Y.
  - apply (h_cret _ (inv6_hd _ I6)). rewrite E. apply in_or_app; right; left; reflexivity.
Qed.

(* ---- C06 (b): True is only answered for a cancelled future, and a future is only ever cancelled after
   the request was forwarded to (and granted by) one of its delegates ------------------------------ *)
Lemma mapfut_cancel_true_cancelled_before : forall s, reachable s -> forall l1 j l2,
  hist s = l1 ++ HCancelRet j true :: l2 -> In (HCancelled j) l2.
Proof. intros s R. destruct (inv8_reach s R) as [_ C]. apply (c_ret _ C). Qed.
Lemma mapfut_cancelled_forwarded : forall s, reachable s -> forall l1 j l2,
  hist s = l1 ++ HCancelled j :: l2 -> exists d, In (HDCancel j d true) l2.
Proof. intros s R. destruct (inv8_reach s R) as [_ C]. apply (c_fwd _ C). Qed.
Lemma mapfut_dcancel_on_delegate : forall s, reachable s -> forall l1 j d b l2,
  hist s = l1 ++ HDCancel j d b :: l2 -> attH (mkind s j) l2 j d.
Proof. intros s R. destruct (inv8_reach s R) as [_ C]. apply (c_att _ C). Qed.
