(* cancel() returning True implies the future is (and stays) cancelled. *)
From Coq Require Import List ZArith Bool Arith Lia.
From RecordUpdate Require Import RecordSet.
From ME Require Import Base.Machine Base.Fut Base.GenPrelude Gen.RetryGen Model.Retry Proofs.Retry_Spec Proofs.Retry_C0 Proofs.Retry_C1.
Import ListNotations RecordSetNotations.

Definition is_relmcbs (i : instr) : bool := match i with IRelMCbs _ => true | _ => false end.

(* ex = 1: the next instruction must be ICatch; ex = 2: it must be IRelMCbs *)
Fixpoint cok (c : option nat) (can : nat -> bool) (seen : bool) (ex : nat) (p : list instr) : bool :=
  match p with
  | [] => Nat.eqb ex 0
  | i :: r =>
    match ex with
    | 1 => is_catch i && cok c can seen 0 r
    | 2 => is_relmcbs i && cok c can seen 0 r
    | _ =>
      match i with
      | IRetB b => isnil r && match c with Some j => negb b || seen || can j | None => false end
      | IFCancel j => opt_eqb c j && cok c can true 0 r
      | ICancelled j | IDoneC j | IXCancelScan j | IDCancel j _ _ => opt_eqb c j && isnil r
      | IThrow | IDCbDone _ => cok c can seen 1 r
      | IFSet _ _ => cok c can seen 2 r
      | IRaise => false
      | _ => cok c can seen 0 r
      end
    end
  end.

Lemma cok_weaken c can can' : forall p seen seen' ex,
  (forall j, c = Some j -> seen || can j = true -> seen' || can' j = true) ->
  cok c can seen ex p = true -> cok c can' seen' ex p = true.
Proof.
  induction p as [|i r IH]; intros seen seen' ex Hw H; [exact H|].
  destruct ex as [|[|[|ex]]].
  2,3: simpl in *; apply andb_true_iff in H; destruct H as [H1 H2]; rewrite H1; simpl; eapply IH; eassumption.
  all: destruct i; simpl in *; try (eapply IH; eassumption); try discriminate;
    try (apply andb_true_iff in H; destruct H as [H1 H2]; rewrite H1; simpl).
  all: try (eapply IH; eassumption); try exact H2.
  all: try (eapply IH; [|exact H2]; intros; reflexivity).
  all: destruct c as [j|]; [|discriminate]; destruct b; simpl in *; [|reflexivity]; eapply Hw; eauto.
Qed.

Lemma cok_norm c can seen : forall p,
  (cok c can seen 0 p = true -> cok c can seen 0 (norm false p) = true) /\
  (cok c can seen 1 p = true -> cok c can seen 0 (norm true p) = true).
Proof.
  induction p as [|i r [IH1 IH2]]; split; intros H; try exact H; try discriminate H.
  - destruct i; simpl in *; auto.
  - destruct i; simpl in *; try discriminate H. auto.
Qed.
Lemma cok_normf c can seen p : cok c can seen 0 p = true -> cok c can seen 0 (norm false p) = true.
Proof. apply cok_norm. Qed.
Lemma cok_normt c can seen p : cok c can seen 1 p = true -> cok c can seen 0 (norm true p) = true.
Proof. apply cok_norm. Qed.

Lemma cok_cbs c can seen j r : forall l, cok c can seen 0 (cbs_prog j l ++ r) = cok c can seen 0 r.
Proof. induction l as [|x l IH]; simpl; [reflexivity|]. destruct x; simpl; exact IH. Qed.

Lemma cok_tl2 c can seen p : cok c can seen 2 p = true -> cok c can seen 0 (tl p) = true.
Proof. destruct p; simpl; [discriminate|]. intros H. apply andb_true_iff in H. tauto. Qed.

Definition canf (s : st) (j : nat) : bool := fcancelled (rs s j).

Record CI (s : st) : Prop := {
  ci_hist : forall j ts, In (HCancelRet j true ts) (hist s) -> j < nfut s /\ fcancelled (rs s j) = true;
  ci_w : cancelling s worker = None;
  ci_lt : forall t j, cancelling s t = Some j -> j < nfut s;
  ci_thr : forall t, t <> worker -> cok (cancelling s t) (fun j => fcancelled (rs s j)) false 0 (thr s t) = true
}.

Lemma CI_init : CI init.
Proof. constructor; simpl; intros; try discriminate; try reflexivity; tauto. Qed.

Lemma cok_mono s c can' seen ex p :
  (forall j, c = Some j -> j < nfut s) ->
  (forall j, j < nfut s -> fcancelled (rs s j) = true -> can' j = true) ->
  cok c (fun j => fcancelled (rs s j)) seen ex p = true -> cok c can' seen ex p = true.
Proof.
  intros Hc Hm. apply cok_weaken. intros j Ej H. apply orb_true_iff in H. apply orb_true_iff.
  destruct H as [H|H]; [left; exact H|right; apply Hm; [apply Hc; exact Ej|exact H]].
Qed.

Lemma T_step s (c' : nat -> option nat) can' t p :
  (forall u, u <> worker -> cok (cancelling s u) (fun j => fcancelled (rs s j)) false 0 (thr s u) = true) ->
  (forall u j, cancelling s u = Some j -> j < nfut s) ->
  (forall j, j < nfut s -> fcancelled (rs s j) = true -> can' j = true) ->
  (forall u, u <> t -> c' u = cancelling s u) ->
  (t <> worker -> cok (c' t) can' false 0 p = true) ->
  forall u, u <> worker -> cok (c' u) can' false 0 (upd (thr s) t p u) = true.
Proof.
  intros T L Hm Hc Hp u Hu. unfold upd. destruct (Nat.eqb u t) eqn:E.
  - apply eqb_t in E. subst u. apply Hp, Hu.
  - apply Nat.eqb_neq in E. rewrite (Hc u E). eapply cok_mono; [apply L| exact Hm|apply T, Hu].
Qed.

Lemma opt_eqb_some c j : opt_eqb c j = true -> c = Some j.
Proof. destruct c; simpl; [intros H; apply eqb_t in H; congruence|discriminate]. Qed.
Lemma opt_eqb_refl j : opt_eqb (Some j) j = true.
Proof. simpl. apply Nat.eqb_refl. Qed.
Lemma isnil_nil {A} (l : list A) : isnil l = true -> l = [].
Proof. destruct l; [reflexivity|discriminate]. Qed.

Ltac bsplit :=
  repeat (match goal with H : _ && _ = true |- _ => apply andb_true_iff in H; destruct H end);
  repeat (match goal with H : _ || _ = false |- _ => apply orb_false_iff in H; destruct H end);
  repeat (match goal with H : negb _ = false |- _ => apply negb_false_iff in H end);
  repeat (match goal with H : Nat.eqb _ _ = true |- _ => apply eqb_t in H end);
  repeat (match goal with H : opt_eqb _ _ = true |- _ => apply opt_eqb_some in H end);
  repeat (match goal with H : isnil _ = true |- _ => apply isnil_nil in H end);
  repeat (match goal with H : fstate_eqb _ _ = true |- _ => apply fstate_eqb_eq in H end).

Lemma Hm_upd (rsf : nat -> fstate) j f (n : nat) :
  (fcancelled (rsf j) = true -> fcancelled f = true) ->
  forall j1, j1 < n -> fcancelled (rsf j1) = true -> fcancelled (upd rsf j f j1) = true.
Proof.
  intros H j1 _ H1. unfold upd. destruct (Nat.eqb j1 j) eqn:E; [|exact H1].
  apply eqb_t in E. subst. auto.
Qed.
Lemma f_cancel_can pre f : f_cancel pre = (f, true) -> fcancelled f = true.
Proof. destruct pre; simpl; intros [= <-]; reflexivity. Qed.
Lemma f_srnc_can pre f b : f_srnc pre = Some (f, b) -> fcancelled pre = true -> fcancelled f = true.
Proof. destruct pre; simpl; try discriminate; intros [= <- _]; auto. Qed.
Lemma f_set_can pre f : f_set pre = Some f -> fcancelled pre = true -> fcancelled f = true.
Proof. destruct pre; simpl; try discriminate. Qed.

Lemma cok_2_0 c can seen p : cok c can seen 2 p = true -> cok c can seen 0 (norm false p) = true.
Proof. destruct p as [|i r]; [discriminate|]. destruct i; simpl; try discriminate; auto. Qed.
Lemma cok_1_0 c can seen p : cok c can seen 1 p = true -> cok c can seen 0 p = true.
Proof. destruct p as [|i r]; [discriminate|]. destruct i; simpl; try discriminate; auto. Qed.

Lemma CI_step0 s e s' : CI s -> step0 s e = Some s' -> CI s'.
Proof.
  intros HI H. s0inv H; try exact HI.
  all: try (match goal with inl : option outcome |- _ => destruct inl end).
  all: destruct HI as [A W L T].
  all: match goal with Hq : thr _ ?t = _ |- _ => pose proof (T t) as Tt; rewrite Hq in Tt; simpl in Tt end.
  all: constructor; unfold log, set_prog; simpl.
  all: try assumption.
  (* history goals, rs unchanged *)
  all: try (intros j' ts' [E|Hin]; [discriminate E|apply A in Hin; exact Hin]).
  all: try (intros j' ts' [E|[E|[E|Hin]]]; [discriminate E|discriminate E|discriminate E|apply A in Hin; exact Hin]).
  (* thread goals *)
  all: try (apply (T_step s); [exact T|exact L|intros ? ? Hc; exact Hc|intros; reflexivity|
     intros Hw; specialize (Tt Hw); simpl; try apply cok_normf; try assumption; try reflexivity]).
  - bsplit. apply Nat.eqb_neq in H. rewrite upd_other; [exact W|intros E; apply H; symmetry; exact E].
  - bsplit. intros t0 j0. unfold upd. destruct (Nat.eqb t0 t); [|apply L].
    intros [= <-]. apply Nat.ltb_lt; assumption.
  - apply (T_step s (upd (cancelling s) t (Some j))); [exact T|exact L|intros ? ? Hc; exact Hc|intros; apply upd_other; assumption|].
    intros _. rewrite upd_same. simpl. rewrite Nat.eqb_refl. reflexivity.
  - bsplit. contradiction.
  - intros j ts [E|Hin]; [discriminate E|]. apply A in Hin. destruct Hin as [A1 A2].
    split; [lia|rewrite upd_lt by exact A1; exact A2].
  - intros t0 j Hc. apply L in Hc. lia.
  - apply (T_step s); [exact T|exact L|intros j Hj Hc; rewrite upd_lt by exact Hj; exact Hc|intros; reflexivity|].
    intros Hw. specialize (Tt Hw). apply cok_normf. eapply cok_mono; [apply L| |exact Tt].
    intros j Hj Hc; rewrite upd_lt by exact Hj; exact Hc.
  - bsplit. subst l. rewrite H. simpl. rewrite Nat.eqb_refl. reflexivity.
  - bsplit. subst l. rewrite H. reflexivity.
  - intros j ts [E|Hin]; [|apply A in Hin; exact Hin]. inversion E; subst. clear E.
    split; [eapply L; exact Heqo|].
    assert (Hw : t <> worker) by (intros ->; congruence). specialize (Tt Hw). rewrite Heqo in Tt.
    bsplit. exact H0.
  - unfold upd. destruct (Nat.eqb worker t); [reflexivity|exact W].
  - intros t0 j. unfold upd. destruct (Nat.eqb t0 t); [discriminate|apply L].
  - apply (T_step s (upd (cancelling s) t None)); [exact T|exact L|intros ? ? Hc; exact Hc|intros; apply upd_other; assumption|].
    intros Hw. specialize (Tt Hw). bsplit. subst l. reflexivity.
  - unfold upd. destruct (Nat.eqb worker t); [reflexivity|exact W].
  - intros t0 j. unfold upd. destruct (Nat.eqb t0 t); [discriminate|apply L].
  - apply (T_step s (upd (cancelling s) t None)); [exact T|exact L|intros ? ? Hc; exact Hc|intros; apply upd_other; assumption|].
    intros Hw. specialize (Tt Hw). discriminate Tt.
  - rewrite cok_cbs. exact Tt.
  - bsplit. subst. rewrite H. exact Heqb1.
  - bsplit. subst. rewrite H. simpl. rewrite Nat.eqb_refl. reflexivity.
  - bsplit. subst. rewrite H. reflexivity.
  - bsplit. subst. rewrite H. simpl. rewrite Nat.eqb_refl. reflexivity.
  - bsplit. subst.
    intros j1 ts [E|Hin]; [discriminate E|]. apply A in Hin. destruct Hin as [A1 A2]. split; [exact A1|].
    eapply Hm_upd; [|exact A1|exact A2]. intros _. eapply f_cancel_can; exact Heqp.
  - bsplit. subst.
    apply (T_step s); [exact T|exact L| |intros; reflexivity|].
    + eapply Hm_upd. intros _. eapply f_cancel_can; exact Heqp.
    + intros Hw. specialize (Tt Hw). bsplit. apply cok_normf. eapply cok_weaken; [|eassumption].
      intros jx Ej _. assert (jx = j0) by congruence. subst jx.
      simpl. rewrite upd_same. eapply f_cancel_can; exact Heqp.
  - bsplit. subst.
    intros j1 ts Hin. apply A in Hin. destruct Hin as [A1 A2]. split; [exact A1|].
    eapply Hm_upd; [|exact A1|exact A2]. eapply f_srnc_can; exact Heqo.
  - bsplit. subst.
    apply (T_step s); [exact T|exact L| |intros; reflexivity|].
    + eapply Hm_upd. eapply f_srnc_can; exact Heqo.
    + intros Hw. specialize (Tt Hw). apply cok_normf. eapply cok_mono; [apply L| |exact Tt].
      eapply Hm_upd. eapply f_srnc_can; exact Heqo.
  - bsplit. subst.
    intros j1 ts [E|Hin]; [discriminate E|]. apply A in Hin. destruct Hin as [A1 A2]. split; [exact A1|].
    eapply Hm_upd; [|exact A1|exact A2]. eapply f_set_can; exact Heqo0.
  - bsplit. subst.
    apply (T_step s); [exact T|exact L| |intros; reflexivity|].
    + eapply Hm_upd. eapply f_set_can; exact Heqo0.
    + intros Hw. specialize (Tt Hw). apply cok_2_0. eapply cok_mono; [apply L| |exact Tt].
      eapply Hm_upd. eapply f_set_can; exact Heqo0.
  - apply cok_tl2. exact Tt.
  - bsplit; subst; match goal with H: cancelling _ _ = Some _ |- _ => rewrite H end; simpl; rewrite ?Nat.eqb_refl; reflexivity.
  - bsplit; subst; match goal with H: cancelling _ _ = Some _ |- _ => rewrite H end; simpl; rewrite ?Nat.eqb_refl; reflexivity.
  - bsplit; subst; match goal with H: cancelling _ _ = Some _ |- _ => rewrite H end; simpl; rewrite ?Nat.eqb_refl; reflexivity.
  - apply cok_1_0. exact Tt.
  - apply cok_normt. exact Tt.
  - destruct (dcb s d); reflexivity.
  - destruct (dcb s d); reflexivity.
Qed.

Lemma CI_reach s : reachable_from step init s -> CI s.
Proof.
  apply (invariant_rule step CI); [exact CI_init|].
  intros s0 e s' IH H. apply step_split in H. destruct H as (s1 & Ht & H).
  apply tick_eq in Ht. subst s1. eapply CI_step0; [|exact H].
  destruct IH as [A W L T]. constructor; simpl; assumption.
Qed.

Lemma retry_cancel_true_stays : forall s, reachable_from step init s -> forall j ts,
  In (HCancelRet j true ts) (hist s) -> fcancelled (rs s j) = true.
Proof. intros s R j ts H. apply CI_reach in R. apply (ci_hist s R) in H. apply H. Qed.
