(* source facts of more_executors/_impl/poll.py: what the translator finds now is what the models were written against *)
From Coq Require Import List String.
From ME Require Import Gen.Src_poll Model.SrcExpected.
Lemma src_poll_ok : Src_poll.facts = expected_poll.
Proof. reflexivity. Qed.
