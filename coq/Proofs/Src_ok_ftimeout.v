(* source facts of more_executors/_impl/futures/timeout.py: what the translator finds now is what the models were written against *)
From Coq Require Import List String.
From ME Require Import Gen.Src_ftimeout Model.SrcExpected.
Lemma src_ftimeout_ok : Src_ftimeout.facts = expected_ftimeout.
Proof. reflexivity. Qed.
