(* Layer 8: the outcome law: the promise invariant and its preservation. *)
From Coq Require Import ZArith List Bool Arith Lia.
From RecordUpdate Require Import RecordSet.
From ME Require Import Base.Machine Base.Fut Base.GenPrelude Model.MapFut Model.MapLaw Proofs.MapFut_D0 Proofs.MapFut_D1 Proofs.MapFut_D2 Proofs.MapFut_D3 Proofs.MapFut_D4 Proofs.MapFut_D5 Proofs.MapFut_D6 Proofs.MapFut_D7.
Import ListNotations RecordSetNotations.

Lemma flatok_ncall s j d : flatok s j d -> ncall s j >= 1.
Proof.
  intros (_ & d0 & din & _ & _ & _ & X). unfold ncall.
  destruct din; destruct X as [_ X]; pose proof (in_cnt_pos (hcall j) _ _ X) as Y; simpl in Y;
    rewrite Nat.eqb_refl in Y; specialize (Y eq_refl); lia.
Qed.

Lemma lstep_ncall_le s e s0 j : lstep s e = Some s0 -> ncall s j <= ncall s0 j.
Proof. intros H. destruct (lstep_ncall _ _ _ H) as [NC|(j0 & _ & NC)]; rewrite NC; lia. Qed.

Lemma lstep_mflat_cases s e s0 : lstep s e = Some s0 -> forall j, j < nfut s ->
  mflat s0 j = mflat s j \/ (exists x rest, thr s (tid e) = IAcqMSet j x true :: rest).
Proof.
  intros H. step_cases H; intros j' L; simpl; auto.
  - left. rewrite upd_other by lia. reflexivity.
  - destruct (Nat.eq_dec j' j0) as [->|N]; [|left; rewrite upd_other by exact N; reflexivity].
    destruct flat; [right; eauto|left; rewrite upd_same; reflexivity].
Qed.

Lemma flip_unique s t j x rest : Dloc s -> shape2_all s -> thr s t = IAcqMSet j x true :: rest ->
  (forall t', t' <> t -> cnt (wD j) (thr s t') = 0) /\
  exists d rest', x = Some d /\ rest = IRelM j :: IAddCbE d j :: rest' /\ cnt (wD j) rest' = 0.
Proof.
  intros [loc L] S2 E. destruct (L j) as [L1 _]. pose proof (S2 t) as Sh. rewrite E in Sh. simpl in Sh.
  destruct x as [d|]; [|discriminate Sh]. destruct rest as [|[] [|[] rest']]; try discriminate Sh.
  apply andb_prop in Sh. destruct Sh as [Sh _]. apply andb_prop in Sh. destruct Sh as [Sh Sd].
  apply andb_prop in Sh. destruct Sh as [Sj1 Sj2]. apply Nat.eqb_eq in Sj1, Sj2, Sd. subst.
  match type of E with _ = IAcqMSet ?jj _ _ :: _ :: IAddCbE ?dd _ :: ?rr =>
    assert (W : cnt (wD jj) (thr s t) = 1 + cnt (wD jj) rr)
      by (rewrite E, !cnt_cons; unfold wD at 1 2 3; simpl; rewrite Nat.eqb_refl; simpl; reflexivity);
    assert (LL : loc jj = DT t) by (apply isDT_ge1; specialize (L1 t); lia);
    rewrite LL in *; split;
    [intros t' N; specialize (L1 t'); rewrite isDT_other in L1 by exact N; lia
    |exists dd, rr; repeat split; specialize (L1 t); rewrite isDT_same in L1; lia]
  end.
Qed.

Definition kept (s : st) (e : ev) (t' : nat) : list instr :=
  if Nat.eqb t' (tid e) then tl (thr s (tid e)) else thr s t'.

Lemma wD_of_parts j i : (isAddCb j i || wQ j i) = true \/ wC j i = true \/ wF j i = true -> wD j i = true.
Proof. unfold wD. destruct (wF j i), (wQ j i), (isAddCb j i), (wC j i); simpl; intuition. Qed.

Lemma tok_stable s e s0 : lstep s e = Some s0 -> Dloc s -> shape2_all s ->
  forall t' i j, In i (kept s e t') -> j < nfut s ->
    ((isAddCb j i || wQ j i) = true -> ncall s0 j = ncall s j) /\ (wC j i = true -> mflat s0 j = mflat s j).
Proof.
  intros H D S2 t' i j Hi L. unfold kept in Hi. split; intros W.
  - destruct (lstep_ncall _ _ _ H) as [NC|(j0 & IC & NC)]; [apply NC|].
    rewrite NC. destruct (Nat.eqb j j0) eqn:Ej; [|reflexivity]. apply Nat.eqb_eq in Ej. subst j0. exfalso.
    destruct (call_unique _ _ _ D IC) as (U1 & U2 & _).
    assert (WD : wD j i = true) by (apply wD_of_parts; auto).
    destruct (Nat.eqb t' (tid e)) eqn:Et.
    + destruct IC as (d & rest & IC). assert (E : exists hd, thr s (tid e) = hd :: rest) by (destruct IC; eauto).
      destruct E as [hd E]. rewrite E in Hi. simpl in Hi. pose proof (in_cnt_pos _ _ _ Hi WD). specialize (U2 _ _ E). lia.
    + apply Nat.eqb_neq in Et. pose proof (in_cnt_pos _ _ _ Hi WD). specialize (U1 _ Et). lia.
  - destruct (lstep_mflat_cases _ _ _ H j L) as [M|(x & rest & E)]; [exact M|]. exfalso.
    destruct (flip_unique _ _ _ _ _ D S2 E) as (U1 & d & rest' & -> & -> & U2).
    assert (WD : wD j i = true) by (apply wD_of_parts; auto).
    destruct (Nat.eqb t' (tid e)) eqn:Et.
    + rewrite E in Hi. simpl in Hi. destruct Hi as [<-|[<-|Hi]]; try discriminate W.
      pose proof (in_cnt_pos _ _ _ Hi WD). lia.
    + apply Nat.eqb_neq in Et. pose proof (in_cnt_pos _ _ _ Hi WD). specialize (U1 _ Et). lia.
Qed.

Definition isSetExc (j : nat) (i : instr) : bool := match i with IFSetExc j' _ => Nat.eqb j j' | _ => false end.
Definition isDoneQN (j : nat) (i : instr) : bool := match i with IDoneQ j' None => Nat.eqb j j' | _ => false end.
Definition gQ (s : st) (j : nat) (p : list instr) : Prop := grd (fdone (ms s j) = true) (isSetExc j) (isDoneQN j) p.

Record Ol (s : st) : Prop := {
  o_set : forall j o, In (HSet j o) (hist s) -> claim s j o;
  o_thr : forall t, Forall (okP s) (thr s t);
  o_ecbs : forall d j, In j (ecbs s d) -> tokP s j d;
  o_t3 : forall j, mflat s j = true -> ncall s j >= 1;
  o_grd : forall t j, gQ s j (thr s t)
}.

Lemma kept_sub s e t' i : In i (kept s e t') -> In i (thr s t').
Proof.
  unfold kept. destruct (Nat.eqb t' (tid e)) eqn:E; auto. apply Nat.eqb_eq in E. subst.
  destruct (thr s (tid e)); simpl; auto.
Qed.
Lemma kept_mono s e s0 : lstep s e = Some s0 -> Bnd s -> Dloc s -> shape2_all s ->
  (forall t, Forall (okP s) (thr s t)) -> forall t', Forall (okP s0) (kept s e t').
Proof.
  intros H B D S2 I t'. apply Forall_forall. intros i Hi. pose proof (kept_sub _ _ _ _ Hi) as Hi'.
  pose proof (b_thr _ B t') as X1. pose proof (I t') as X2. rewrite Forall_forall in X1, X2.
  eapply okP_mono; eauto.
  - intros j W. assert (L : j < nfut s) by (eapply wD_bnd; [apply X1; exact Hi'|apply wD_of_parts; auto]).
    apply (tok_stable _ _ _ H D S2 t' i j Hi L). exact W.
  - intros j W. assert (L : j < nfut s) by (eapply wD_bnd; [apply X1; exact Hi'|apply wD_of_parts; auto]).
    apply (tok_stable _ _ _ H D S2 t' i j Hi L). exact W.
Qed.

Lemma gQ_unborn s n j p : Forall (okI n) p -> n <= j -> gQ s j p.
Proof.
  intros H L. apply grd_noT. intros i Hi. rewrite Forall_forall in H. specialize (H i Hi).
  destruct i; simpl; auto. destruct cont; auto. unfold okI in H; simpl in H. apply Nat.eqb_neq. lia.
Qed.
Lemma gQ_on_mapped s j s1 j0 x r : gQ s j r -> gQ s j (on_mapped s1 j0 x ++ r).
Proof.
  intros H. unfold on_mapped, gQ. destruct (mkind s1 j0), (mflat s1 j0), x; simpl;
    destruct (Nat.eqb j j0); simpl; intuition discriminate.
Qed.
Lemma gQ_fires s j s1 d r : gQ s j r -> gQ s j (fires s1 d r).
Proof.
  intros H. unfold fires. apply grd_app; [|exact H].
  intros i Hi. apply in_flat_map in Hi. destruct Hi as (j' & _ & Hi). simpl in Hi.
  repeat (destruct Hi as [<-|Hi]; [reflexivity|]). destruct Hi.
Qed.
Lemma gQ_cbs s j j0 l r : gQ s j r -> gQ s j (map (fun c => IUserCb j0 c false) l ++ r).
Proof.
  intros H. apply grd_app; [|exact H]. intros i Hi. apply in_map_iff in Hi. destruct Hi as (c & <- & _). reflexivity.
Qed.

Lemma lstep_gQ s e s0 : lstep s e = Some s0 -> shape_all s -> Bnd s -> Bnd s0 ->
  (forall t j, gQ s j (thr s t)) -> forall t j, gQ s0 j (thr s0 t).
Proof.
  intros H SH B B0 I t' j. destruct (le_lt_dec (nfut s0) j) as [L|L].
  { eapply gQ_unborn; [apply (b_thr _ B0)|exact L]. }
  destruct (le_lt_dec (nfut s) j) as [L1|L1].
  { clear I. step_cases H; simpl in *; try lia.
    destruct (Nat.eq_dec t' t) as [->|N]; [rewrite upd_same|rewrite upd_other by exact N].
    - apply grd_noT. intros i Hi. simpl in Hi. repeat (destruct Hi as [<-|Hi]; [reflexivity|]). destruct Hi.
    - eapply gQ_unborn; [apply (b_thr _ B)|exact L1]. }
  assert (ST : fdone (ms s j) = true -> fdone (ms s0 j) = true) by (eapply lstep_done_stable; eauto).
  assert (OT : t' <> tid e -> gQ s0 j (thr s0 t')).
  { intros N. rewrite (lstep_thr_other _ _ _ H _ N). eapply grd_mono; [exact ST|apply I]. }
  destruct (Nat.eq_dec t' (tid e)) as [->|N]; [clear OT|exact (OT N)].
  pose proof (I (tid e) j) as It. pose proof (SH (tid e)) as Sh. clear I SH B B0 L.
  step_cases H; simpl tid in *; try (eapply grd_mono; [exact ST|exact It]).
  all: rewrite Heql in It, Sh; simpl in Sh; simp_thr.
  all: try (apply gQ_on_mapped); try (apply gQ_fires); try (apply gQ_cbs); unfold gQ in *.
  all: try (match goal with E : thr _ _ = IFSetExc ?j1 _ :: _ |- _ =>
            destruct (Nat.eq_dec j j1) as [->|Nj];
            [apply grd_C; simpl; rewrite ?upd_same; fset_facts; auto; fail|] end).
  all: try (match goal with E : thr _ _ = _ :: ?l |- context [tl ?l] => destruct l as [|[] ?]; try discriminate Sh; simpl tl end).
  all: eapply grd_mono; [exact ST|]; simpl in It |- *.
  all: repeat match goal with |- context [Nat.eqb ?a ?b] => destruct (Nat.eqb a b) eqn:? end.
  all: repeat match type of It with context [Nat.eqb ?a ?b] => destruct (Nat.eqb a b) eqn:? end.
  all: simpl in *; try (intuition (try discriminate); fail).
  all: apply Nat.eqb_eq in Heqb; congruence.
Qed.

Lemma lstep_o_t3 s e s0 : lstep s e = Some s0 -> Ol s -> forall j, mflat s0 j = true -> ncall s0 j >= 1.
Proof.
  intros H O. pose proof (o_t3 _ O) as I. pose proof (o_thr _ O (tid e)) as It.
  assert (LE : forall j, ncall s j <= ncall s0 j) by (intros; eapply lstep_ncall_le; eauto).
  assert (G : forall j, mflat s j = true -> ncall s0 j >= 1) by (intros j X; specialize (I j X); specialize (LE j); lia).
  clear I O. step_cases H; simpl tid in *; try exact G.
  all: intros j' X; simpl in X.
  - usplit (nfut s); [discriminate X|auto].
  - usplit j0; auto. destruct flat; [|simpl in X; auto].
    rewrite Heql in It. inversion It; subst. simpl in H1. destruct H1 as (d & _ & F).
    apply flatok_ncall in F. match goal with |- ncall _ ?jj >= 1 => specialize (LE jj) end. lia.
Qed.

Lemma lstep_o_set s e s0 : lstep s e = Some s0 -> Bnd s -> Ol s -> forall j o, In (HSet j o) (hist s0) -> claim s0 j o.
Proof.
  intros H B O. pose proof (o_thr _ O (tid e)) as It. pose proof (b_thr _ B (tid e)) as Ib.
  assert (G : forall j o, In (HSet j o) (hist s) -> claim s0 j o).
  { intros j o X. eapply claim_mono; eauto; [eapply (bnd_hist _ _ _ B X); reflexivity|apply (o_set _ O); exact X]. }
  assert (CM : forall j o, j < nfut s -> claim s j o -> claim s0 j o) by (intros; eapply claim_mono; eauto).
  clear O. step_cases H; simpl tid in *; try exact G.
  all: intros j' o' X; simpl in X; try (in_hist X); try (apply G; exact X).
  all: rewrite Heql in It, Ib; inversion It; subst; inversion Ib; subst; apply CM; assumption.
Qed.

Lemma lstep_o_ecbs s e s0 : lstep s e = Some s0 -> Bnd s -> Dloc s -> Ol s ->
  forall d j, In j (ecbs s0 d) -> tokP s0 j d.
Proof.
  intros H B D O. pose proof (o_thr _ O (tid e)) as It. pose proof (b_thr _ B (tid e)) as Ib.
  pose proof (lstep_ncall _ _ _ H) as NCor.
  assert (G : forall d j, In j (ecbs s d) -> tokP s0 j d).
  { intros d j X. pose proof (b_ecbs _ B d) as Y. rewrite Forall_forall in Y.
    eapply tokP_mono; eauto; [|apply (o_ecbs _ O); exact X].
    destruct NCor as [NC|(j0 & IC & NC)]; [apply NC|]. rewrite NC.
    destruct (Nat.eqb j j0) eqn:Ej; [|reflexivity]. apply Nat.eqb_eq in Ej. subst. exfalso.
    destruct (call_unique _ _ _ D IC) as (_ & _ & U3). apply cnt_eqb_pos in X. specialize (U3 d). lia. }
  assert (TM : forall j d, j < nfut s -> ncall s0 j = ncall s j -> tokP s j d -> tokP s0 j d) by (intros; eapply tokP_mono; eauto).
  clear O D. step_cases H; simpl tid in *; try exact G.
  all: intros d' j' X; simpl in X; try (eapply G; eauto; fail).
  all: unfold upd in X; destruct (Nat.eqb d' _) eqn:Ed; try (eapply G; eauto; fail); try (destruct X; fail).
  apply Nat.eqb_eq in Ed. subst d'. apply in_app_or in X. destruct X as [X|[<-|[]]]; [eapply G; eauto|].
  rewrite Heql in It, Ib. inversion It; subst. inversion Ib; subst. apply TM; auto.
Qed.
