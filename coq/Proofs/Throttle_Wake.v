(* No lost wake-up for the hand-over thread: whenever queued work is admissible under the limit the
   hand-over thread works with, it is about to test again, or the shared event is set, or it has been
   notified in its wait, or some thread is about to call event.set(). *)
From Coq Require Import ZArith List Bool Arith Lia.
From RecordUpdate Require Import RecordSet.
From ME Require Import Base.Machine Base.Fut Base.GenPrelude Gen.ThrottleGen Model.Throttle
  Proofs.Throttle_Spec Proofs.Throttle_Inv.
Import ListNotations RecordSetNotations.
Local Open Scope Z_scope.

Definition need (s : st) : bool := negb (isnil (qu s)) && negb (throttled (hlim s) (running s)).
Definition before_test (p : list instr) : bool :=
  match p with
  | IHStart :: _ | IXAcqH :: _ | ICount CH :: _ | IClear :: _ | IRcRead RLoop :: _ | IPop :: _
  | IAcqA AIncr :: _ | ILoop :: _ => true
  | IRelA :: ILoop :: _ => true
  | _ => false
  end.
Definition hnotified (s : st) : bool :=
  match wst s H with Some (g, _, _) => negb (Nat.eqb (egen s) g) | None => false end.
Definition setter (s : st) : Prop := exists t, In IEvSet (thr s t).
Definition will_look (s : st) : Prop :=
  before_test (thr s H) = true \/ eflag s = true \/ hnotified s = true \/ setter s.

Record InvW (s : st) : Prop := {
  w_need : shut s = false -> need s = true -> will_look s;
  w_wst : wst s H <> None -> exists rest, thr s H = IWoke WH :: rest
}.

Definition wview (s : st) := (shut s, qu s, hlim s, running s, eflag s, egen s, wst s H).

Lemma invW_ext s s' : wview s' = wview s -> thr s' = thr s -> InvW s -> InvW s'.
Proof.
  unfold wview. intros E Et [W1 W2]. inversion E as [[E1 E2 E3 E4 E5 E6 E7]].
  constructor; unfold need, will_look, hnotified, setter in *; rewrite ?E1, ?E2, ?E3, ?E4, ?E5, ?E6, ?E7, ?Et; auto.
Qed.
Lemma invW_log s h : InvW s -> InvW (log s h).
Proof. apply invW_ext; reflexivity. Qed.

Lemma in_norm s p : In IEvSet p -> In IEvSet (norm s p).
Proof.
  destruct p as [|i r]; [auto|]. destruct i; auto. simpl. intros [Hx|Hx]; [discriminate|].
  destruct (qu s); [right; exact Hx|]. destruct (hlim s); simpl; auto 8.
Qed.

(* thread t replaces its program i :: rest by newp; what the invariant looks at changes at most by making
   less work admissible *)
Lemma invW_step s s1 t i rest newp :
  InvW s -> thr s t = i :: rest -> thr s1 = thr s ->
  shut s1 = shut s -> (need s1 = true -> need s = true) -> eflag s1 = eflag s -> egen s1 = egen s -> wst s1 H = wst s H ->
  i <> IEvSet -> (t = H -> forall k, i <> IWoke k) -> (t = H -> before_test (i :: rest) = false) ->
  (In IEvSet rest -> In IEvSet newp) ->
  InvW (set_prog s1 t newp).
Proof.
  intros [W1 W2] Et Eth E1 En E5 E6 E7 Hi1 Hi2 Hb Hin.
  unfold set_prog. constructor; simpl.
  - unfold will_look, hnotified, setter in *. simpl. rewrite E1, E5, E6, E7, Eth.
    intros Hs Hn. assert (Hn2 : need s = true) by (apply En; exact Hn).
    destruct (W1 Hs Hn2) as [Hx|[Hx|[Hx|[u Hx]]]]; auto.
    + left. destruct (Nat.eq_dec t H) as [->|Hne]; [rewrite Et in Hx; rewrite (Hb eq_refl) in Hx; discriminate|].
      rewrite upd_other by (intro; apply Hne; auto). exact Hx.
    + right. right. right. destruct (Nat.eq_dec u t) as [->|Hne].
      * exists t. rewrite upd_same. apply in_norm. apply Hin. rewrite Et in Hx. destruct Hx as [Hx|Hx]; [contradiction (Hi1 Hx)|exact Hx].
      * exists u. rewrite upd_other by exact Hne. exact Hx.
  - rewrite E7, Eth. intros Hw. destruct (W2 Hw) as [r Hr].
    destruct (Nat.eq_dec t H) as [->|Hne]; [rewrite Et in Hr; injection Hr as Hi _; contradiction (Hi2 eq_refl WH Hi)|].
    exists r. rewrite upd_other by (intro; apply Hne; auto). exact Hr.
Qed.

Lemma invW_boring s s1 t i rest newp :
  InvW s -> thr s t = i :: rest -> wview s1 = wview s -> thr s1 = thr s ->
  i <> IEvSet -> (forall k, i <> IWoke k) -> before_test (i :: rest) = false ->
  (In IEvSet rest -> In IEvSet newp) ->
  InvW (set_prog s1 t newp).
Proof.
  intros IW Et Ev Eth Hi1 Hi2 Hb Hin. unfold wview in Ev. inversion Ev as [[E1 E2 E3 E4 E5 E6 E7]].
  apply (invW_step s s1 t i rest); auto. unfold need. rewrite E2, E3, E4. auto.
Qed.

(* a thread other than H installs a program (API calls, environment events) *)
Lemma invW_other s s1 t newp :
  InvW s -> t <> H -> wview s1 = wview s -> thr s1 = thr s -> (In IEvSet (thr s t) -> In IEvSet newp) ->
  InvW (set_prog s1 t newp).
Proof.
  intros [W1 W2] Hne Ev Eth Hin. unfold wview in Ev. inversion Ev as [[E1 E2 E3 E4 E5 E6 E7]].
  unfold set_prog. constructor; simpl.
  - unfold need, will_look, hnotified, setter in *. simpl. rewrite E1, E2, E3, E4, E5, E6, E7, Eth.
    intros Hs Hn. rewrite upd_other by (intro; apply Hne; auto).
    destruct (W1 Hs Hn) as [Hx|[Hx|[Hx|[u Hx]]]]; auto.
    right. right. right. destruct (Nat.eq_dec u t) as [->|Hn2].
    + exists t. rewrite upd_same. apply in_norm. auto.
    + exists u. rewrite upd_other by exact Hn2. exact Hx.
  - rewrite E7, Eth, upd_other by (intro; apply Hne; auto). exact W2.
Qed.

Lemma invW_boring_sub s s1 t i rest v rest' :
  InvW s -> thr s t = i :: rest -> wview s1 = wview s -> thr s1 = thr s ->
  i <> IEvSet -> (forall k, i <> IWoke k) -> before_test (i :: rest) = false ->
  (In IEvSet rest -> In IEvSet rest') ->
  InvW (sub_check s1 t v rest').
Proof.
  intros IW Et Ev Eth Hi1 Hi2 Hb Hin. unfold sub_check.
  destruct (blk s1 && negb (shut s1)); [destruct (block_ready (qlen s1) v) as [[|]|]|];
    repeat apply invW_log; apply (invW_boring s s1 t i rest); auto; intros Hx; simpl; auto 8.
Qed.

Ltac in_goal :=
  let Hin := fresh "Hin" in
  intros Hin; simpl in Hin |- *;
  first [ solve [intuition (try discriminate)]
        | solve [apply in_or_app; right; simpl; intuition (try discriminate)] ].

Ltac boring IW s :=
  repeat apply invW_log;
  first [ eapply (invW_boring s) | eapply (invW_boring_sub s) ];
  [ exact IW | eassumption | reflexivity | reflexivity | discriminate | intros ?; discriminate | reflexivity | in_goal ].

Ltac whandler IW Hx s := brk Hx; inv_some Hx; boring IW s.

Ltac not_H :=
  match goal with E : idle _ ?t = true |- _ =>
    let Hn := fresh "Hn" in
    assert (Hn : t <> H) by (intros ->; unfold idle in E; rewrite Nat.eqb_refl, andb_false_r in E; discriminate E)
  end.

Lemma do_call_submit_invW s t s' : InvW s -> do_call_submit s t = Some s' -> InvW s'.
Proof.
  intros IW Hx. unfold do_call_submit in Hx. brk Hx. inv_some Hx. not_H.
  apply (invW_other s); auto. unfold idle in *. destruct (thr s t); [intros []|]. rewrite andb_false_r in *. discriminate.
Qed.
Lemma do_call_shutdown_invW s t w s' : InvW s -> do_call_shutdown s t w = Some s' -> InvW s'.
Proof.
  intros IW Hx. unfold do_call_shutdown in Hx. brk Hx. inv_some Hx. not_H.
  apply (invW_other s); auto. unfold idle in *. destruct (thr s t); [intros []|]. rewrite andb_false_r in *. discriminate.
Qed.
Lemma do_call_cancel_invW s t j s' : InvW s -> do_call_cancel s t j = Some s' -> InvW s'.
Proof.
  intros IW Hx. unfold do_call_cancel in Hx. brk Hx. inv_some Hx.
  match goal with E : _ && _ = true |- _ => apply andb_prop in E; destruct E as [E _] end. not_H.
  apply (invW_other s); auto. unfold idle in *. destruct (thr s t); [intros []|]. rewrite andb_false_r in *. discriminate.
Qed.
Lemma do_ret_invW s t c s' : InvW s -> do_ret s t c = Some s' -> InvW s'.
Proof. intros IW Hx. unfold do_ret in Hx. whandler IW Hx s. Qed.
Lemma do_rel_g_invW s t s' : InvW s -> do_rel_g s t = Some s' -> InvW s'.
Proof. intros IW Hx. unfold do_rel_g in Hx. whandler IW Hx s. Qed.
Lemma do_dshutdown_invW s t s' : InvW s -> do_dshutdown s t = Some s' -> InvW s'.
Proof. intros IW Hx. unfold do_dshutdown in Hx. whandler IW Hx s. Qed.
Lemma do_acq_m_invW s t j s' : InvW s -> do_acq_m s t j = Some s' -> InvW s'.
Proof. intros IW Hx. unfold do_acq_m in Hx. whandler IW Hx s. Qed.
Lemma do_rel_m_invW s t j s' : InvW s -> do_rel_m s t j = Some s' -> InvW s'.
Proof. intros IW Hx. unfold do_rel_m in Hx. whandler IW Hx s. Qed.
Lemma do_fm_invW s t op j p s' : InvW s -> do_fm s t op j p = Some s' -> InvW s'.
Proof. intros IW Hx. unfold do_fm in Hx. whandler IW Hx s. Qed.
Lemma do_relx_invW s t s' : InvW s -> do_relx s t = Some s' -> InvW s'.
Proof. intros IW Hx. unfold do_relx in Hx. whandler IW Hx s. Qed.
Lemma do_dsubmit_invW s t d i s' : InvW s -> do_dsubmit s t d i = Some s' -> InvW s'.
Proof. intros IW Hx. unfold do_dsubmit in Hx. whandler IW Hx s. Qed.

Lemma clear_del_wview l : forall s, wview (clear_del s l) = wview s /\ thr (clear_del s l) = thr s.
Proof.
  unfold clear_del. induction l as [|c l IH]; intros s; simpl; [auto|].
  destruct (IH (match c with CbDone => s | CbRes j => s <| mdel := upd (mdel s) j None |> end)) as [A B].
  rewrite A, B. destruct c; simpl; auto.
Qed.

Lemma do_fd_invW s t op d p s' : InvW s -> do_fd s t op d p = Some s' -> InvW s'.
Proof.
  intros IW Hx. unfold do_fd in Hx. brk Hx; inv_some Hx; try solve [boring IW s].
  apply invW_log.
  match goal with |- InvW (set_prog (clear_del ?x ?l) _ _) => destruct (clear_del_wview l x) as [A B] end.
  eapply (invW_boring s); [exact IW|eassumption|rewrite A; reflexivity|rewrite B; reflexivity|discriminate|intros ?; discriminate|reflexivity|in_goal].
Qed.
Lemma do_env_run_invW s t d p s' : InvW s -> do_env_run s t d p = Some s' -> InvW s'.
Proof. intros IW Hx. unfold do_env_run in Hx. brk Hx; inv_some Hx; auto. apply (invW_ext s); auto. Qed.
Lemma do_env_finish_invW s t d p o s' : InvW s -> do_env_finish s t d p o = Some s' -> InvW s'.
Proof.
  intros IW Hx. unfold do_env_finish in Hx. brk Hx; inv_some Hx; auto.
  repeat match goal with E : _ && _ = true |- _ => apply andb_prop in E; destruct E as [E _] end. not_H.
  apply invW_log. apply (invW_other s); auto. unfold idle in *. destruct (thr s t); [intros []|]. rewrite andb_false_r in *. discriminate.
Qed.

(* the hand-over thread is about to look (again) *)
Lemma invW_look s s1 p :
  InvW s -> wst s1 H = None -> before_test (norm s1 p) = true -> InvW (set_prog s1 H p).
Proof.
  intros _ Hw Hb. unfold set_prog. constructor; simpl.
  - intros _ _. left. simpl. rewrite upd_same. exact Hb.
  - rewrite Hw. intros Hx. contradiction Hx. reflexivity.
Qed.
(* the executor is shut down: only the bookkeeping of wst remains *)
Lemma invW_shut s s1 t newp :
  InvW s -> shut s1 = true -> wst s1 H = wst s H -> thr s1 = thr s ->
  (t = H -> wst s H = None) -> InvW (set_prog s1 t newp).
Proof.
  intros [_ W2] Hs Hw Et Hn. unfold set_prog. constructor; simpl.
  - rewrite Hs. discriminate.
  - rewrite Hw, Et. intros Hx. destruct (W2 Hx) as [r Hr].
    destruct (Nat.eq_dec t H) as [->|Hne]; [contradiction (Hx (Hn eq_refl))|].
    exists r. rewrite upd_other by (intro; apply Hne; auto). exact Hr.
Qed.
(* H is not at IWoke, hence not registered as blocked *)
Lemma wst_none s i rest : InvW s -> thr s H = i :: rest -> (forall k, i <> IWoke k) -> wst s H = None.
Proof.
  intros [_ W2] Et Hi. destruct (wst s H) eqn:E; [|reflexivity].
  destruct W2 as [r Hr]; [discriminate|]. rewrite Et in Hr. injection Hr as Hx _. contradiction (Hi WH Hx).
Qed.

Lemma do_exit_invW s s' : InvW s -> do_exit s = Some s' -> InvW s'.
Proof. intros IW Hx. unfold do_exit in Hx. whandler IW Hx s. Qed.

Lemma do_new_invW s b dy v s' : InvW s -> do_new s b dy v = Some s' -> InvW s'.
Proof.
  intros [W1 W2] Hx. unfold do_new in Hx. brk Hx. inv_some Hx.
  match goal with E : _ || _ = false |- _ => apply orb_false_elim in E; destruct E as [_ E]; apply negb_false_iff in E end.
  destruct (thr s H) eqn:Et; [|discriminate].
  constructor; simpl.
  - intros _ _. left. reflexivity.
  - intros Hw. destruct (W2 Hw) as [r Hr]. discriminate.
Qed.

(* start of an iteration of the hand-over thread *)
Lemma invW_start_iter s s1 :
  InvW s -> wst s1 H = None -> wst s H = None -> thr s1 = thr s -> InvW (start_iter s1 H).
Proof.
  intros IW Hw Hw0 Et. unfold start_iter. destruct (shut s1) eqn:Es; [|destruct (dyn s1)].
  - apply (invW_shut s); auto. rewrite Hw, Hw0. reflexivity.
  - apply (invW_look s); auto.
  - apply (invW_look s); auto.
Qed.

Lemma do_hstart_invW s s' : InvW s -> do_hstart s = Some s' -> InvW s'.
Proof.
  intros IW Hx. unfold do_hstart in Hx. brk Hx. inv_some Hx.
  assert (Hw : wst s H = None) by (eapply wst_none; eauto; intros k; discriminate).
  apply (invW_start_iter s); auto.
Qed.
Lemma do_clear_invW s t s' : InvW s -> do_clear s t = Some s' -> InvW s'.
Proof.
  intros IW Hx. unfold do_clear in Hx. brk Hx. inv_some Hx.
  match goal with E : Nat.eqb _ H = true |- _ => apply Nat.eqb_eq in E; subst end.
  assert (Hw : wst s H = None) by (eapply wst_none; eauto; intros k; discriminate).
  apply (invW_start_iter s); auto.
Qed.

Lemma do_acq_g_invW s t s' : InvW s -> do_acq_g s t = Some s' -> InvW s'.
Proof.
  intros IW Hx. unfold do_acq_g in Hx. brk Hx; inv_some Hx; try solve [boring IW s].
  (* shutdown() sets the flag *)
  all: apply (invW_shut s); auto; intros ->; eapply wst_none; eauto; intros k; discriminate.
Qed.

Lemma do_count_invW s t a s' : InvW s -> do_count s t a = Some s' -> InvW s'.
Proof.
  intros IW Hx. unfold do_count in Hx. brk Hx; inv_some Hx; [|boring IW s].
  match goal with E : Nat.eqb _ H = true |- _ => apply Nat.eqb_eq in E; subst end.
  assert (Hw : wst s H = None) by (eapply wst_none; eauto; intros k; discriminate).
  apply (invW_look s); auto.
Qed.

Lemma invW_wst_frame s s1 t newp :
  InvW s -> wst s1 H = wst s H -> thr s1 = thr s -> (t = H -> wst s H = None) ->
  wst (set_prog s1 t newp) H <> None -> exists rest, thr (set_prog s1 t newp) H = IWoke WH :: rest.
Proof.
  intros [_ W2] Hw Et Hn. unfold set_prog. simpl. rewrite Hw, Et. intros Hx. destruct (W2 Hx) as [r Hr].
  destruct (Nat.eq_dec t H) as [->|Hne]; [contradiction (Hx (Hn eq_refl))|].
  exists r. rewrite upd_other by (intro; apply Hne; auto). exact Hr.
Qed.
Lemma invW_noneed s s1 t p :
  InvW s -> need s1 = false -> wst s1 H = wst s H -> thr s1 = thr s -> (t = H -> wst s H = None) -> InvW (set_prog s1 t p).
Proof.
  intros IW Hn Hw Et Hh. constructor; [|apply (invW_wst_frame s); auto].
  unfold set_prog, need in *. simpl. rewrite Hn. discriminate.
Qed.
Lemma invW_setter s s1 t p :
  InvW s -> In IEvSet p -> wst s1 H = wst s H -> thr s1 = thr s -> (t = H -> wst s H = None) -> InvW (set_prog s1 t p).
Proof.
  intros IW Hin Hw Et Hh. constructor; [|apply (invW_wst_frame s); auto].
  intros _ _. right. right. right. exists t. unfold set_prog. simpl. rewrite upd_same. apply in_norm. exact Hin.
Qed.
Lemma invW_flag s s1 t p :
  InvW s -> eflag s1 = true -> wst s1 H = wst s H -> thr s1 = thr s -> (t = H -> wst s H = None) -> InvW (set_prog s1 t p).
Proof.
  intros IW Hf Hw Et Hh. constructor; [|apply (invW_wst_frame s); auto].
  intros _ _. right. left. unfold set_prog. simpl. exact Hf.
Qed.
Lemma invW_loop s s1 r :
  InvW s -> wst s1 H = wst s H -> wst s H = None -> thr s1 = thr s -> InvW (set_prog s1 H (ILoop :: r)).
Proof.
  intros IW Hw Hw0 Et. destruct (qu s1) eqn:Eq.
  - apply (invW_noneed s); auto. unfold need. rewrite Eq. reflexivity.
  - apply (invW_look s); [exact IW|rewrite Hw; exact Hw0|]. simpl. rewrite Eq. destruct (hlim s1); reflexivity.
Qed.

Lemma do_xacq_invW s t s' : InvW s -> do_xacq s t = Some s' -> InvW s'.
Proof.
  intros IW Hx. unfold do_xacq in Hx. brk Hx. inv_some Hx.
  match goal with E : _ || _ = false |- _ => apply orb_false_elim in E; destruct E as [_ E]; apply negb_false_iff in E; apply Nat.eqb_eq in E; subst end.
  assert (Hw : wst s H = None) by (eapply wst_none; eauto; intros k; discriminate).
  apply (invW_loop s); auto.
Qed.

Lemma do_rcread_invW s t x s' : InvW s -> do_rcread s t x = Some s' -> InvW s'.
Proof.
  intros IW Hx. unfold do_rcread in Hx. brk Hx; inv_some Hx; try solve [boring IW s];
    match goal with E : _ || _ = false |- _ => apply orb_false_elim in E; destruct E as [E1 E2];
      apply negb_false_iff in E1, E2; apply Z.eqb_eq in E1; apply Nat.eqb_eq in E2; subst end;
    assert (Hw : wst s H = None) by (eapply wst_none; eauto; intros k; discriminate).
  - (* throttled: nothing is admissible right now *)
    apply (invW_noneed s); auto. unfold need.
    match goal with E : throttled _ _ = true |- _ => rewrite E end. apply andb_false_r.
  - apply (invW_look s); auto.
Qed.

Lemma do_rel_a_invW s t s' : InvW s -> do_rel_a s t = Some s' -> InvW s'.
Proof.
  intros IW Hx. unfold do_rel_a in Hx. brk Hx. inv_some Hx.
  destruct (Nat.eq_dec t H) as [->|Hne].
  - assert (Hw : wst s H = None) by (eapply wst_none; eauto; intros k; discriminate).
    destruct l as [|i2 r2]; [boring IW s|].
    destruct i2; try solve [boring IW s]. apply (invW_loop s); auto.
  - eapply (invW_step s); try eassumption; try reflexivity; auto; try discriminate; try (intros E; contradiction (Hne E)).
Qed.

Lemma do_pop_invW s t s' : InvA s -> InvW s -> do_pop s t = Some s' -> InvW s'.
Proof.
  intros IA IW Hx. unfold do_pop in Hx. brk Hx. inv_some Hx.
  match goal with E : _ && _ = true |- _ => apply andb_prop in E; destruct E as [E _]; apply Nat.eqb_eq in E; subst end.
  assert (Hw : wst s H = None) by (eapply wst_none; eauto; intros k; discriminate).
  pose proof (a_shape _ IA) as Hs.
  match goal with Et : thr s H = _ :: _ |- _ => rewrite Et in Hs end.
  destruct (shape_pop _ Hs) as [_ [r ->]].
  apply invW_log. apply (invW_look s); auto.
Qed.

Lemma do_acq_a_invW s t s' : InvA s -> InvW s -> do_acq_a s t = Some s' -> InvW s'.
Proof.
  intros IA IW Hx. unfold do_acq_a in Hx. brk Hx; inv_some Hx.
  - (* incr *)
    match goal with E : negb (Nat.eqb _ H) = false |- _ => apply negb_false_iff in E; apply Nat.eqb_eq in E; subst end.
    assert (Hw : wst s H = None) by (eapply wst_none; eauto; intros k; discriminate).
    pose proof (a_shape _ IA) as Hs.
    match goal with Et : thr s H = _ :: _ |- _ => rewrite Et in Hs end.
    destruct (shape_incr _ Hs) as [_ [r ->]].
    apply invW_log. apply (invW_look s); auto.
  - (* decr: the done-callback goes on with event.set() *)
    apply invW_log. apply (invW_setter s); auto; [simpl; auto|].
    intros ->. eapply wst_none; eauto. intros k; discriminate.
Qed.

Lemma remove_id_nil x l : remove_id x l <> [] -> l <> [].
Proof. destruct l; [intros Hx; exact Hx|discriminate]. Qed.

Lemma do_xsec_invW s t s' : InvW s -> do_xsec s t = Some s' -> InvW s'.
Proof.
  intros IW Hx. unfold do_xsec in Hx. brk Hx; inv_some Hx; [| |boring IW s].
  - (* enqueue: submit() goes on with event.set() *)
    apply invW_log. apply (invW_setter s); auto; [simpl; auto|].
    intros ->. eapply wst_none; eauto. intros k; discriminate.
  - (* a queued future is cancelled: less work, not more *)
    apply invW_log. eapply (invW_step s); try eassumption; try reflexivity; try discriminate.
    + unfold need. simpl. intros Hn. apply andb_prop in Hn. destruct Hn as [Hq Ht]. rewrite Ht, andb_true_r.
      destruct (qu s); [discriminate Hq|reflexivity].
    + in_goal.
Qed.

Lemma do_evset_invW s t s' : InvW s -> do_evset s t = Some s' -> InvW s'.
Proof.
  intros IW Hx. unfold do_evset in Hx. brk Hx. inv_some Hx.
  apply (invW_flag s); auto. intros ->. eapply wst_none; eauto. intros k; discriminate.
Qed.

Lemma invW_step_sub s s1 t i rest v rest' :
  InvW s -> thr s t = i :: rest -> thr s1 = thr s ->
  shut s1 = shut s -> (need s1 = true -> need s = true) -> eflag s1 = eflag s -> egen s1 = egen s -> wst s1 H = wst s H ->
  i <> IEvSet -> (t = H -> forall k, i <> IWoke k) -> (t = H -> before_test (i :: rest) = false) ->
  (In IEvSet rest -> In IEvSet rest') ->
  InvW (sub_check s1 t v rest').
Proof.
  intros IW Et Eth E1 En E5 E6 E7 Hi1 Hi2 Hb Hin. unfold sub_check.
  destruct (blk s1 && negb (shut s1)); [destruct (block_ready (qlen s1) v) as [[|]|]|];
    repeat apply invW_log; apply (invW_step s s1 t i rest); auto; intros Hx; simpl; auto 8.
Qed.

Lemma waiter_H k : waiter_ok H k = true -> k = WH.
Proof. destruct k; [reflexivity|discriminate]. Qed.
Lemma waiter_notH t v : waiter_ok t (WSub v) = true -> t <> H.
Proof. simpl. intros Hx ->. discriminate. Qed.

Lemma do_wait_invW s t r s' : InvW s -> do_wait s t r = Some s' -> InvW s'.
Proof.
  intros IW Hx. unfold do_wait in Hx.
  destruct (thr s t) as [|i rest] eqn:Et; [discriminate|]. destruct i; try discriminate.
  destruct (negb (waiter_ok t k)) eqn:Ew; [discriminate|]. apply negb_false_iff in Ew.
  destruct k as [|v].
  - (* the hand-over thread *)
    simpl in Ew. apply Nat.eqb_eq in Ew. subst t.
    assert (Hw : wst s H = None) by (eapply wst_none; eauto; intros k; discriminate).
    destruct r as [|r]; destruct (eflag s) eqn:Ef; try discriminate; inv_some Hx.
    + simpl. apply (invW_look s); auto.
    + (* blocks: the flag is clear, so a setter must be pending if work is admissible *)
      apply invW_log. destruct IW as [W1 W2]. unfold set_prog. constructor; simpl.
      * intros Hs Hn. destruct (W1 Hs Hn) as [Hx|[Hx|[Hx|[u Hx]]]].
        -- rewrite Et in Hx. discriminate.
        -- congruence.
        -- unfold hnotified in Hx. rewrite Hw in Hx. discriminate.
        -- right. right. right. unfold setter. simpl. destruct (Nat.eq_dec u H) as [->|Hne].
           ++ exists H. rewrite upd_same. rewrite Et in Hx. destruct Hx as [Hx|Hx]; [discriminate|]. right. exact Hx.
           ++ exists u. rewrite upd_other by exact Hne. exact Hx.
      * intros _. exists rest. reflexivity.
  - (* a blocking submitter *)
    pose proof (waiter_notH _ _ Ew) as Hne.
    destruct r as [|r]; destruct (eflag s) eqn:Ef; try discriminate; inv_some Hx.
    + simpl. eapply (invW_step_sub s); try eassumption; try reflexivity; auto; try discriminate; intros E; contradiction (Hne E).
    + apply invW_log. eapply (invW_step s); try eassumption; try reflexivity; auto; try discriminate.
      all: first [ solve [simpl; apply upd_other; intro E; apply Hne; auto]
                 | solve [intros E; contradiction (Hne E)] | in_goal ].
Qed.

Lemma do_woke_invW s t kind s' : InvW s -> do_woke s t kind = Some s' -> InvW s'.
Proof.
  intros IW Hx. unfold do_woke in Hx.
  destruct (thr s t) as [|i rest] eqn:Et; [discriminate|]. destruct i; try discriminate.
  destruct (wst s t) as [[[g tau] since]|] eqn:Ewst; [|discriminate].
  match type of Hx with (if ?c then _ else _) = _ => destruct c eqn:Ec; [|discriminate] end.
  apply andb_prop in Ec. destruct Ec as [_ Ew]. inv_some Hx.
  destruct k as [|v].
  - simpl in Ew. apply Nat.eqb_eq in Ew. subst t. simpl.
    apply (invW_look s); auto; try (simpl; apply upd_same).
  - pose proof (waiter_notH _ _ Ew) as Hne. simpl.
    eapply (invW_step_sub s); try eassumption; try reflexivity; auto; try discriminate.
    all: first [ solve [simpl; apply upd_other; intro E; apply Hne; auto]
               | solve [intros E; contradiction (Hne E)] | in_goal ].
Qed.

Lemma step0_invW s e s' : InvA s -> InvW s -> step0 s e = Some s' -> InvW s'.
Proof.
  intros IA IW Hx. destruct e; cbn [step0] in Hx;
  [ eapply do_new_invW | eapply do_hstart_invW | eapply do_exit_invW | eapply do_call_submit_invW
  | eapply do_call_cancel_invW | eapply do_call_shutdown_invW | eapply do_ret_invW | eapply do_acq_g_invW
  | eapply do_rel_g_invW | eapply do_count_invW | eapply do_xsec_invW | eapply do_xacq_invW | eapply do_relx_invW
  | eapply do_rcread_invW | eapply (do_pop_invW s) | eapply (do_acq_a_invW s) | eapply do_rel_a_invW | eapply do_evset_invW
  | eapply do_wait_invW | eapply do_woke_invW | eapply do_clear_invW | eapply do_dsubmit_invW | eapply do_dshutdown_invW
  | eapply do_acq_m_invW | eapply do_rel_m_invW | eapply do_fm_invW | eapply do_fd_invW | eapply do_env_run_invW
  | eapply do_env_finish_invW ]; eassumption.
Qed.

Lemma invW_init : InvW init.
Proof. constructor; simpl; [discriminate|intros Hx; contradiction Hx; reflexivity]. Qed.

Lemma invW_reachable s : reachable_from step init s -> InvW s.
Proof.
  apply invariant_rule_r; [exact invW_init|].
  intros s0 [ts e] s' Hr IW Hx. unfold step in Hx. simpl in Hx.
  destruct (tick s0 ts) as [s1|] eqn:Et; [|discriminate].
  pose proof (invA_reachable s0 Hr) as IA.
  eapply step0_invW; [eapply tick_invA; eauto| |exact Hx].
  unfold tick in Et. destruct (Z.leb (clock s0) ts); inv_some Et. apply (invW_ext s0); auto.
Qed.

(* the hand-over thread never sleeps on admissible work: if it is blocked in wait un-notified, the flag is clear
   and nobody is about to call event.set(), then the queue is empty or the limit it works with is reached *)
Lemma no_lost_wakeup_lemma s : reachable_from step init s -> shut s = false ->
  (exists rest g tau since, thr s H = IWoke WH :: rest /\ wst s H = Some (g, tau, since) /\ egen s = g) ->
  eflag s = false -> (forall t, ~ In IEvSet (thr s t)) ->
  qu s = [] \/ throttled (hlim s) (running s) = true.
Proof.
  intros Hr Hs [rest [g [tau [since [Et [Ew Eg]]]]]] Ef Hno.
  destruct (qu s) as [|j q] eqn:Eq; [left; reflexivity|right].
  destruct (throttled (hlim s) (running s)) eqn:Eth; [reflexivity|exfalso].
  destruct (w_need _ (invW_reachable s Hr) Hs) as [Hx|[Hx|[Hx|[u Hx]]]].
  - unfold need. rewrite Eq, Eth. reflexivity.
  - rewrite Et in Hx. discriminate.
  - congruence.
  - unfold hnotified in Hx. rewrite Ew, Eg, Nat.eqb_refl in Hx. discriminate.
  - exact (Hno u Hx).
Qed.

(* ---- with a static count the limit the hand-over thread works with is the count -------------------- *)
Definition InvS (s : st) : Prop :=
  dyn s = false -> started s = true -> shut s = false -> thr s H = [IHStart] \/ hlim s = last s.
Definition sview (s : st) := (dyn s, started s, shut s, hlim s, last s).

Lemma invS_step s s1 t i rest newp :
  InvS s -> thr s t = i :: rest -> i <> IHStart -> sview s1 = sview s -> thr s1 = thr s -> InvS (set_prog s1 t newp).
Proof.
  unfold InvS, sview, set_prog. intros IS Et Hi Ev Eth. inversion Ev as [[E1 E2 E3 E4 E5]]. simpl.
  rewrite E1, E2, E3, E4, E5, Eth. intros Hd Hst Hsh. destruct (IS Hd Hst Hsh) as [Hx|Hx]; [|right; exact Hx].
  left. destruct (Nat.eq_dec t H) as [->|Hne]; [rewrite Et in Hx; injection Hx as Hx _; contradiction (Hi Hx)|].
  rewrite upd_other by (intro; apply Hne; auto). exact Hx.
Qed.
Lemma invS_ext s s' : sview s' = sview s -> thr s' = thr s -> InvS s -> InvS s'.
Proof. unfold InvS, sview. intros Ev Eth IS. inversion Ev as [[E1 E2 E3 E4 E5]]. rewrite E1, E2, E3, E4, E5, Eth. exact IS. Qed.
Lemma invS_log s h : InvS s -> InvS (log s h).
Proof. apply invS_ext; reflexivity. Qed.
Lemma invS_sub s s1 t i rest v rest' :
  InvS s -> thr s t = i :: rest -> i <> IHStart -> sview s1 = sview s -> thr s1 = thr s -> InvS (sub_check s1 t v rest').
Proof.
  intros IS Et Hi Ev Eth. unfold sub_check.
  destruct (blk s1 && negb (shut s1)); [destruct (block_ready (qlen s1) v) as [[|]|]|];
    repeat apply invS_log; apply (invS_step s s1 t i rest); auto.
Qed.
Lemma invS_other s s1 t newp :
  InvS s -> t <> H -> sview s1 = sview s -> thr s1 = thr s -> InvS (set_prog s1 t newp).
Proof.
  unfold InvS, sview, set_prog. intros IS Hne Ev Eth. inversion Ev as [[E1 E2 E3 E4 E5]]. simpl.
  rewrite E1, E2, E3, E4, E5, Eth, upd_other by (intro; apply Hne; auto). exact IS.
Qed.
Lemma invS_start_iter s1 : InvS (start_iter s1 H).
Proof.
  unfold start_iter. destruct (shut s1) eqn:Es; [|destruct (dyn s1) eqn:Ed]; unfold InvS, set_prog; simpl; intros; try congruence.
  right. reflexivity.
Qed.
Lemma invS_shut s1 t p : shut s1 = true -> InvS (set_prog s1 t p).
Proof. unfold InvS, set_prog. simpl. intros; congruence. Qed.

Ltac sboring IS s :=
  repeat match goal with |- InvS (log _ _) => apply invS_log end;
  first [ eapply (invS_step s) | eapply (invS_sub s) ];
  [ exact IS | eassumption | discriminate | reflexivity | reflexivity ].
Ltac shandler IS Hx s := brk Hx; inv_some Hx; sboring IS s.

Lemma clear_del_sview l : forall s, sview (clear_del s l) = sview s /\ thr (clear_del s l) = thr s.
Proof.
  unfold clear_del. induction l as [|c l IH]; intros s; simpl; [auto|].
  destruct (IH (match c with CbDone => s | CbRes j => s <| mdel := upd (mdel s) j None |> end)) as [A B].
  rewrite A, B. destruct c; simpl; auto.
Qed.
Lemma do_ret_invS s t c s' : InvS s -> do_ret s t c = Some s' -> InvS s'.
Proof. intros IS Hx. unfold do_ret in Hx. shandler IS Hx s. Qed.
Lemma do_rel_g_invS s t s' : InvS s -> do_rel_g s t = Some s' -> InvS s'.
Proof. intros IS Hx. unfold do_rel_g in Hx. shandler IS Hx s. Qed.
Lemma do_rcread_invS s t x s' : InvS s -> do_rcread s t x = Some s' -> InvS s'.
Proof. intros IS Hx. unfold do_rcread in Hx. shandler IS Hx s. Qed.
Lemma do_pop_invS s t s' : InvS s -> do_pop s t = Some s' -> InvS s'.
Proof. intros IS Hx. unfold do_pop in Hx. shandler IS Hx s. Qed.
Lemma do_acq_a_invS s t s' : InvS s -> do_acq_a s t = Some s' -> InvS s'.
Proof. intros IS Hx. unfold do_acq_a in Hx. shandler IS Hx s. Qed.
Lemma do_rel_a_invS s t s' : InvS s -> do_rel_a s t = Some s' -> InvS s'.
Proof. intros IS Hx. unfold do_rel_a in Hx. shandler IS Hx s. Qed.
Lemma do_evset_invS s t s' : InvS s -> do_evset s t = Some s' -> InvS s'.
Proof. intros IS Hx. unfold do_evset in Hx. shandler IS Hx s. Qed.
Lemma do_dshutdown_invS s t s' : InvS s -> do_dshutdown s t = Some s' -> InvS s'.
Proof. intros IS Hx. unfold do_dshutdown in Hx. shandler IS Hx s. Qed.
Lemma do_acq_m_invS s t j s' : InvS s -> do_acq_m s t j = Some s' -> InvS s'.
Proof. intros IS Hx. unfold do_acq_m in Hx. shandler IS Hx s. Qed.
Lemma do_rel_m_invS s t j s' : InvS s -> do_rel_m s t j = Some s' -> InvS s'.
Proof. intros IS Hx. unfold do_rel_m in Hx. shandler IS Hx s. Qed.
Lemma do_fm_invS s t op j p s' : InvS s -> do_fm s t op j p = Some s' -> InvS s'.
Proof. intros IS Hx. unfold do_fm in Hx. shandler IS Hx s. Qed.
Lemma do_relx_invS s t s' : InvS s -> do_relx s t = Some s' -> InvS s'.
Proof. intros IS Hx. unfold do_relx in Hx. shandler IS Hx s. Qed.
Lemma do_dsubmit_invS s t d i s' : InvS s -> do_dsubmit s t d i = Some s' -> InvS s'.
Proof. intros IS Hx. unfold do_dsubmit in Hx. shandler IS Hx s. Qed.
Lemma do_xsec_invS s t s' : InvS s -> do_xsec s t = Some s' -> InvS s'.
Proof. intros IS Hx. unfold do_xsec in Hx. shandler IS Hx s. Qed.
Lemma do_xacq_invS s t s' : InvS s -> do_xacq s t = Some s' -> InvS s'.
Proof. intros IS Hx. unfold do_xacq in Hx. shandler IS Hx s. Qed.
Lemma do_exit_invS s  s' : InvS s -> do_exit s  = Some s' -> InvS s'.
Proof. intros IS Hx. unfold do_exit in Hx. shandler IS Hx s. Qed.
Lemma do_wait_invS s t r s' : InvS s -> do_wait s t r = Some s' -> InvS s'.
Proof.
  intros IS Hx. unfold do_wait in Hx.
  destruct (thr s t) as [|i rest] eqn:Et; [discriminate|]. destruct i; try discriminate. destruct k;
    brk Hx; inv_some Hx; unfold after_wait; sboring IS s.
Qed.
Lemma do_woke_invS s t k s' : InvS s -> do_woke s t k = Some s' -> InvS s'.
Proof.
  intros IS Hx. unfold do_woke in Hx.
  destruct (thr s t) as [|i rest] eqn:Et; [discriminate|]. destruct i; try discriminate. destruct k0;
    brk Hx; inv_some Hx; unfold after_wait; sboring IS s.
Qed.
Lemma do_call_submit_invS s t s' : InvS s -> do_call_submit s t = Some s' -> InvS s'.
Proof.
  intros IS Hx. unfold do_call_submit in Hx. brk Hx. inv_some Hx.
  repeat match goal with E : _ && _ = true |- _ => apply andb_prop in E; destruct E as [E _] end. not_H.
  apply (invS_other s); auto.
Qed.
Lemma do_call_shutdown_invS s t w s' : InvS s -> do_call_shutdown s t w = Some s' -> InvS s'.
Proof.
  intros IS Hx. unfold do_call_shutdown in Hx. brk Hx. inv_some Hx.
  repeat match goal with E : _ && _ = true |- _ => apply andb_prop in E; destruct E as [E _] end. not_H.
  apply (invS_other s); auto.
Qed.
Lemma do_call_cancel_invS s t j s' : InvS s -> do_call_cancel s t j = Some s' -> InvS s'.
Proof.
  intros IS Hx. unfold do_call_cancel in Hx. brk Hx. inv_some Hx.
  repeat match goal with E : _ && _ = true |- _ => apply andb_prop in E; destruct E as [E _] end. not_H.
  apply (invS_other s); auto.
Qed.
Lemma do_env_run_invS s t d p s' : InvS s -> do_env_run s t d p = Some s' -> InvS s'.
Proof. intros IS Hx. unfold do_env_run in Hx. brk Hx; inv_some Hx; auto; try (apply (invS_ext s); auto). Qed.
Lemma do_env_finish_invS s t d p o s' : InvS s -> do_env_finish s t d p o = Some s' -> InvS s'.
Proof.
  intros IS Hx. unfold do_env_finish in Hx. brk Hx; inv_some Hx; auto.
  repeat match goal with E : _ && _ = true |- _ => apply andb_prop in E; destruct E as [E _] end. not_H.
  apply invS_log. apply (invS_other s); auto.
Qed.
Lemma do_fd_invS s t op d p s' : InvS s -> do_fd s t op d p = Some s' -> InvS s'.
Proof.
  intros IS Hx. unfold do_fd in Hx. brk Hx; inv_some Hx; try solve [sboring IS s].
  apply invS_log.
  match goal with |- InvS (set_prog (clear_del ?x ?l) _ _) => pose proof (clear_del_sview l x) as [A B] end.
  eapply (invS_step s); [exact IS|eassumption|discriminate|rewrite A; reflexivity|rewrite B; reflexivity].
Qed.
Lemma do_new_invS s b dy v s' : InvS s -> do_new s b dy v = Some s' -> InvS s'.
Proof. intros IS Hx. unfold do_new in Hx. brk Hx. inv_some Hx. unfold InvS. simpl. intros. left. reflexivity. Qed.
Lemma do_hstart_invS s s' : InvS s -> do_hstart s = Some s' -> InvS s'.
Proof. intros IS Hx. unfold do_hstart in Hx. brk Hx. inv_some Hx. apply invS_start_iter. Qed.
Lemma do_clear_invS s t s' : InvS s -> do_clear s t = Some s' -> InvS s'.
Proof.
  intros IS Hx. unfold do_clear in Hx. brk Hx. inv_some Hx.
  match goal with E : Nat.eqb _ H = true |- _ => apply Nat.eqb_eq in E; subst end. apply invS_start_iter.
Qed.
Lemma do_acq_g_invS s t s' : InvS s -> do_acq_g s t = Some s' -> InvS s'.
Proof. intros IS Hx. unfold do_acq_g in Hx. brk Hx; inv_some Hx; try solve [sboring IS s]; apply invS_shut; reflexivity. Qed.
Lemma do_count_invS s t a s' : InvS s -> do_count s t a = Some s' -> InvS s'.
Proof.
  intros IS Hx. unfold do_count in Hx. destruct (negb (dyn s)) eqn:Ed; [discriminate|]. apply negb_false_iff in Ed.
  brk Hx; inv_some Hx; unfold InvS, sub_check, set_prog;
    repeat match goal with |- context [if ?c then _ else _] => destruct c end;
    repeat match goal with |- context [match ?c with _ => _ end] => destruct c end; simpl; intros; congruence.
Qed.

Lemma step0_invS s e s' : InvS s -> step0 s e = Some s' -> InvS s'.
Proof.
  intros IS Hx. destruct e; cbn [step0] in Hx;
  [ eapply do_new_invS | eapply do_hstart_invS | eapply do_exit_invS | eapply do_call_submit_invS
  | eapply do_call_cancel_invS | eapply do_call_shutdown_invS | eapply do_ret_invS | eapply do_acq_g_invS
  | eapply do_rel_g_invS | eapply do_count_invS | eapply do_xsec_invS | eapply do_xacq_invS | eapply do_relx_invS
  | eapply do_rcread_invS | eapply do_pop_invS | eapply do_acq_a_invS | eapply do_rel_a_invS | eapply do_evset_invS
  | eapply do_wait_invS | eapply do_woke_invS | eapply do_clear_invS | eapply do_dsubmit_invS | eapply do_dshutdown_invS
  | eapply do_acq_m_invS | eapply do_rel_m_invS | eapply do_fm_invS | eapply do_fd_invS | eapply do_env_run_invS
  | eapply do_env_finish_invS ]; eassumption.
Qed.

Lemma invS_reachable s : reachable_from step init s -> InvS s.
Proof.
  apply invariant_rule; [unfold InvS; simpl; discriminate|].
  intros s0 [ts e] s' IS Hx. unfold step in Hx. simpl in Hx.
  destruct (tick s0 ts) as [s1|] eqn:Et; [|discriminate].
  eapply step0_invS; [|exact Hx].
  unfold tick in Et. destruct (Z.leb (clock s0) ts); inv_some Et. apply (invS_ext s0); auto.
Qed.

(* no idle capacity at quiescence, static count: the hand-over thread is blocked un-notified, the flag is clear,
   nobody is about to set it; then the queue is empty or the running count has reached the count *)
Lemma no_idle_capacity_lemma s : reachable_from step init s -> started s = true -> dyn s = false -> shut s = false ->
  (exists rest g tau since, thr s H = IWoke WH :: rest /\ wst s H = Some (g, tau, since) /\ egen s = g) ->
  eflag s = false -> (forall t, ~ In IEvSet (thr s t)) ->
  qu s = [] \/ exists c, last s = Some c /\ c <= running s.
Proof.
  intros Hr Hst Hd Hs Hb Ef Hno.
  destruct (no_lost_wakeup_lemma s Hr Hs Hb Ef Hno) as [Hq|Ht]; [left; exact Hq|right].
  destruct Hb as [rest [g [tau [since [Et _]]]]].
  destruct (invS_reachable s Hr Hd Hst Hs) as [Hx|Hx]; [rewrite Et in Hx; discriminate|].
  rewrite Hx in Ht. apply throttled_spec in Ht. exact Ht.
Qed.
