(* Layer 10: the outcome law: silent steps, assembly, the theorem. *)
From Coq Require Import ZArith List Bool Arith Lia.
From RecordUpdate Require Import RecordSet.
From ME Require Import Base.Machine Base.Fut Base.GenPrelude Model.MapFut Model.MapLaw Proofs.MapFut_D0 Proofs.MapFut_D1 Proofs.MapFut_D2 Proofs.MapFut_D3 Proofs.MapFut_D4 Proofs.MapFut_D5 Proofs.MapFut_D6 Proofs.MapFut_D7 Proofs.MapFut_D8 Proofs.MapFut_D9.
Import ListNotations RecordSetNotations.

Lemma claim_sil t s s' j o : sil t s s' -> claim s j o -> claim s' j o.
Proof. intros H. unfold claim, law, inner_of. sil_frame H. auto. Qed.
Lemma flatok_sil t s s' j d : sil t s s' -> flatok s j d -> flatok s' j d.
Proof. intros H. unfold flatok. sil_frame H. auto. Qed.
Lemma tokP_sil t s s' j d : sil t s s' -> tokP s j d -> tokP s' j d.
Proof. intros H. unfold tokP, flatok, ncall. sil_frame H. auto. Qed.
Lemma okP_sil t s s' i : sil t s s' -> (forall j, wC j i = true -> mflat s' j = mflat s j) -> okP s i -> okP s' i.
Proof.
  intros H MF P. destruct i; simpl in *; auto.
  - destruct flat; auto. destruct P as (d & -> & P). exists d. split; [reflexivity|eapply flatok_sil; eauto].
  - eapply tokP_sil; eauto.
  - destruct P as [P1 P2]. split; [eapply tokP_sil; eauto|]. rewrite (sil_es _ _ _ H). exact P2.
  - revert P. unfold Pfn. sil_frame H. auto.
  - revert P. unfold Pefn. sil_frame H. auto.
  - destruct cont; auto. revert P. unfold Pcont. sil_frame H. rewrite MF by apply Nat.eqb_refl. auto.
  - eapply claim_sil; eauto.
  - eapply claim_sil; eauto.
Qed.
Lemma sil_en t s s' : sil t s s' -> En s -> En s'.
Proof. intros H. unfold En. sil_frame H. auto. Qed.

Lemma sil_mflat_cases t s s' : sil t s s' -> forall j,
  mflat s' j = mflat s j \/ (exists x rest, thr s t = IAcqMSet j x true :: rest).
Proof.
  intros H j'; inversion H; subst; simpl; auto.
  destruct (Nat.eq_dec j' j) as [->|N]; [|left; rewrite upd_other by exact N; reflexivity].
  destruct fl; [right; rewrite (upd_eq_same _ _ _ _ H0); eauto|left; rewrite upd_same; reflexivity].
Qed.

Lemma sil_kept_stable t s s' : sil t s s' -> Dloc s -> shape2_all s ->
  forall t' i j, In i (if Nat.eqb t' t then tl (thr s t) else thr s t') -> wC j i = true -> mflat s' j = mflat s j.
Proof.
  intros H D S2 t' i j Hi W. destruct (sil_mflat_cases _ _ _ H j) as [M|(x & rest & E)]; [exact M|]. exfalso.
  destruct (flip_unique _ _ _ _ _ D S2 E) as (U1 & d & rest' & -> & -> & U2).
  assert (WD : wD j i = true) by (apply wD_of_parts; auto).
  destruct (Nat.eqb t' t) eqn:Et.
  - rewrite E in Hi. simpl in Hi. destruct Hi as [<-|[<-|Hi]]; try discriminate W.
    pose proof (in_cnt_pos _ _ _ Hi WD). lia.
  - apply Nat.eqb_neq in Et. pose proof (in_cnt_pos _ _ _ Hi WD). specialize (U1 _ Et). lia.
Qed.

Lemma sil_head_notSE t s s' : sil t s s' -> forall i r, thr s t = i :: r -> forall j, isSetExc j i = false.
Proof. intros H i r E j; inversion H; subst; rewrite (upd_eq_same _ _ _ _ H0) in E; inversion E; reflexivity. Qed.

Lemma sil_ol t s s' : sil t s s' -> Dloc s -> shape2_all s -> Ol s -> Ol s'.
Proof.
  intros H D S2 [I1 I2 I3 I4 I5]. destruct (sil_thr _ _ _ H) as (i & r & Et & Ho & Hr).
  pose proof (sil_kept_stable _ _ _ H D S2) as KS.
  constructor.
  - intros j o. rewrite (sil_hist _ _ _ H). intros X. eapply claim_sil; eauto.
  - intros t'. destruct (Nat.eq_dec t' t) as [->|N].
    + assert (R : Forall (okP s') r).
      { pose proof (I2 t) as It. rewrite Et in It. inversion It; subst.
        apply Forall_forall. intros i0 Hi0. rewrite Forall_forall in H3.
        eapply okP_sil; eauto. intros j W. apply (KS t i0 j); [|exact W].
        rewrite Nat.eqb_refl, Et. exact Hi0. }
      destruct Hr as [->|(j0 & -> & ->)]; [exact R|apply okP_cbs; exact R].
    + rewrite Ho by exact N. apply Forall_forall. intros i0 Hi0.
      pose proof (I2 t') as It. rewrite Forall_forall in It.
      eapply okP_sil; eauto. intros j W. apply (KS t' i0 j); [|exact W].
      apply Nat.eqb_neq in N. rewrite N. exact Hi0.
  - intros d j. rewrite (sil_ecbs _ _ _ H). intros X. eapply tokP_sil; eauto.
  - intros j M. unfold ncall. rewrite (sil_hist _ _ _ H). fold (ncall s j).
    destruct (sil_mflat_cases _ _ _ H j) as [E|(x & rest & E)]; [apply I4; congruence|].
    pose proof (I2 t) as It. rewrite E in It. inversion It; subst. simpl in H2. destruct H2 as (d & _ & FO).
    apply flatok_ncall in FO. exact FO.
  - intros t' j. unfold gQ. rewrite (sil_ms _ _ _ H). destruct (Nat.eq_dec t' t) as [->|N]; [|rewrite Ho by exact N; apply I5].
    pose proof (I5 t j) as It. unfold gQ in It. rewrite Et in It. apply grd_tl in It; [|eapply sil_head_notSE; eauto].
    destruct Hr as [->|(j0 & -> & ->)]; [exact It|apply gQ_cbs; exact It].
Qed.

Definition Oinv (s : st) : Prop := shape2_all s /\ En s /\ Ol s.
Definition Inv6 (s : st) : Prop := Inv5 s /\ Oinv s.

Lemma oinv_init : Oinv init.
Proof.
  split; [intros t; reflexivity|]. split; [intros d X; discriminate X|].
  constructor; simpl; intros; try contradiction; try constructor; try discriminate.
Qed.

Lemma linv6 : linv Inv6.
Proof.
  apply linv_and; [apply linv5|apply oinv_init| |].
  - intros s e s0 [[[[[[SH _] B] _] _] _] [D F]] [[[[[[_ _] B0] _] _] _] _] (S2 & EN & O) H.
    split; [eapply lstep_shape2; eauto|]. split; [eapply lstep_en; eauto|].
    constructor.
    + eapply lstep_o_set; eauto.
    + eapply lstep_o_thr; eauto.
    + eapply lstep_o_ecbs; eauto.
    + eapply lstep_o_t3; eauto.
    + eapply lstep_gQ; eauto. apply (o_grd _ O).
  - intros t s s' [_ [D F]] _ (S2 & EN & O) H.
    split; [eapply sil_shape2; eauto|]. split; [eapply sil_en; eauto|eapply sil_ol; eauto].
Qed.
Lemma inv6_reach s : reachable s -> Inv6 s.
Proof. apply linv_reach; [apply linv6|]. intros s0 H; apply H. Qed.

Lemma mapfut_outcome_law : forall s, reachable s -> forall j o, In (HSet j o) (hist s) ->
  exists d din, In (HNew j d) (hist s) /\ eout s d = Some din /\ es s d = Finished /\
    match din with
    | Ok _ => if mfn s j then exists fa, In (HFn j d fa) (hist s) /\ apply_ans (mkind s j) fa din (inner_of s) = Some o
              else o = din
    | Err _ => if mefn s j then exists ea, In (HEfn j d ea) (hist s) /\ apply_ans (mkind s j) ea din (inner_of s) = Some o
               else o = din
    end.
Proof.
  intros s R j o X. destruct (inv6_reach s R) as [_ (_ & _ & O)]. exact (o_set _ O j o X).
Qed.
