(* Layer F: the final outcome is the outcome of the last delegate (retry_final_outcome). *)
From Coq Require Import List ZArith Bool Arith Lia PeanoNat.
From RecordUpdate Require Import RecordSet.
From ME Require Import Base.Machine Base.Fut Base.GenPrelude Gen.RetryGen Model.Retry Proofs.Retry_InvB0
  Proofs.Retry_InvB2 Proofs.Retry_InvB3 Proofs.Retry_InvB4 Proofs.Retry_InvB7.
Import ListNotations RecordSetNotations.

Definition Fact (s : st) (j : nat) (o : outcome) (d : nat) : Prop :=
  d < ndel s /\ dfor s d = j /\ dout s d = Some o /\ ds s d = Finished /\
  forall d', d' < ndel s -> dfor s d' = j -> datt s d' <= datt s d.
Definition FinOK (s : st) (t j : nat) (o : outcome) : Prop :=
  exists d, Fact s j o d /\
    (QuietEx s j None \/
     (t = worker /\ exists r rest, thr s worker = IXPop r :: rest /\ wcount rest = 0 /\ QuietEx s j (Some r))).
Record InvF (s : st) : Prop := {
  f_prog : forall t j o, In (IFSet j o) (thr s t) -> FinOK s t j o;
  f_hist : forall j o ts, In (HFinal j o ts) (hist s) -> exists d, Fact s j o d /\ QuietEx s j None
}.

(* everything one step provides to this layer *)
Definition StepF (s s' : st) : Prop :=
  NewJ s s' /\ OldSame s s' /\
  (forall r, r < nrec s -> liveq s' r -> liveq s r) /\ (forall d, d < ndel s -> pend s' d -> pend s d).

Lemma fact_quiet_stable s s' j o d x :
  InvA s -> InvB s -> StepF s s' -> Fact s j o d -> QuietEx s j x ->
  (x <> None -> wcount (thr s worker) = 0) -> Fact s' j o d /\ QuietEx s' j x.
Proof.
  intros IA IB (NJ & OS & Hl & Hp) (F1 & F2 & F3 & F4 & F5) Q Hx.
  assert (Hj : j < nfut s) by (rewrite <- F2; apply (a_dfor _ IA); auto).
  destruct (quiet_stable s s' j x IA IB NJ OS Hl Hp Hj Hx Q) as [Q' ND]. split; [|exact Q'].
  destruct NJ as (_ & _ & _ & N4 & _). destruct OS as (_ & O2).
  destruct (O2 d F1) as (E1 & E2 & E3). destruct (E3 F4) as [E4 E5].
  split; [lia|]. split; [congruence|]. split; [congruence|]. split; [auto|].
  intros d' H' E'. destruct (Nat.lt_ge_cases d' (ndel s)) as [G|G].
  - destruct (O2 d' G) as (G1 & G2 & _). rewrite E2, G2. apply F5; auto. congruence.
  - exfalso. apply (ND d' G H' E').
Qed.

Lemma finok_other s s' t t' j o :
  InvA s -> InvB s -> StepF s s' -> t' <> t -> thr s' t' = thr s t' ->
  (t <> worker -> thr s' worker = thr s worker) ->
  FinOK s t' j o -> FinOK s' t' j o.
Proof.
  intros IA IB SF Hn Ht Hw (d & F & [Q|(-> & r & rest & T & Wc & Q)]).
  - exists d. destruct (fact_quiet_stable s s' j o d None IA IB SF F Q) as [F' Q']; [tauto|]. auto.
  - exists d. destruct (fact_quiet_stable s s' j o d (Some r) IA IB SF F Q) as [F' Q'].
    { intros _. rewrite T. unfold wcount in *. simpl. exact Wc. }
    split; auto. right. split; auto. exists r, rest. rewrite Ht. auto.
Qed.

Lemma invF_gen s s' t p :
  InvA s -> InvB s -> InvF s -> StepF s s' ->
  thr s' = upd (thr s) t (norm false p) ->
  (forall r rest, thr s t <> IXPop r :: rest) ->
  (forall j o, In (IFSet j o) p -> In (IFSet j o) (thr s t) \/ FinOK s' t j o) ->
  (forall j o ts, In (HFinal j o ts) (hist s') ->
     In (HFinal j o ts) (hist s) \/ exists l, thr s t = IFSet j o :: l) ->
  InvF s'.
Proof.
  intros IA IB [F1 F2] SF Ht Hnp Hp Hh.
  assert (Own : forall j o, FinOK s t j o -> FinOK s' t j o /\ exists d, Fact s' j o d /\ QuietEx s' j None).
  { intros j o (d & F & [Q|(-> & r & rest & T & _)]); [|exfalso; eapply Hnp; eauto].
    destruct (fact_quiet_stable s s' j o d None IA IB SF F Q) as [F' Q']; [tauto|].
    split; exists d; auto. }
  constructor.
  - intros t' j o. destruct (Nat.eq_dec t' t) as [->|Hn].
    + rewrite Ht, upd_same. intros H. apply norm_in in H. destruct H as [H|H]; [|discriminate].
      destruct (Hp j o H) as [G|G]; [|exact G]. apply Own. apply F1; auto.
    + intros H. assert (E : thr s' t' = thr s t') by (rewrite Ht; apply upd_other; auto).
      rewrite E in H. eapply finok_other; eauto. intros Hw. rewrite Ht. apply upd_other. auto.
  - intros j o ts H. destruct (Hh j o ts H) as [G|(l & G)].
    + destruct (F2 j o ts G) as (d & F & Q). exists d.
      destruct (fact_quiet_stable s s' j o d None IA IB SF F Q); [tauto|auto].
    + apply Own. apply F1. rewrite G. left; auto.
Qed.

Lemma invF_pop s s' t r l :
  InvA s -> InvB s -> InvF s -> StepF s s' ->
  thr s t = IXPop r :: l -> thr s' = upd (thr s) t (norm false l) ->
  jobs s' = remove_id r (jobs s) -> hist s' = hist s -> InvF s'.
Proof.
  intros IA IB [F1 F2] SF Et Ht Hj Hh.
  constructor.
  - intros t' j o. destruct (Nat.eq_dec t' t) as [->|Hn].
    + rewrite Ht, upd_same. intros H. apply norm_in in H. destruct H as [H|H]; [|discriminate].
      assert (G : In (IFSet j o) (thr s t)) by (rewrite Et; right; auto).
      destruct (F1 t j o G) as (d & F & [Q|(-> & r' & rest & T & Wc & Q)]).
      * exists d. destruct (fact_quiet_stable s s' j o d None IA IB SF F Q) as [F' Q']; [tauto|]. auto.
      * rewrite Et in T. inversion T; subst r' rest. exists d.
        destruct (fact_quiet_stable s s' j o d (Some r) IA IB SF F Q) as [F' (Q1 & Q2)].
        { intros _. rewrite Et. unfold wcount in *. simpl. exact Wc. }
        split; auto. left. split; auto. intros r2 L E. exfalso.
        assert (X := Q1 r2 L E). inversion X; subst r2. destruct L as (_ & _ & [L|(i & Hi & L)]).
        -- rewrite Hj in L. apply in_remove_id in L. tauto.
        -- rewrite Ht, upd_same in L. apply norm_in in L. destruct L as [L|L].
           ++ apply (wcount0_in _ _ Wc) in L. rewrite (wheld_wki _ _ Hi) in L. discriminate.
           ++ subst i. destruct Hi as [Hi|[Hi|Hi]]; discriminate.
    + intros H. assert (E : thr s' t' = thr s t') by (rewrite Ht; apply upd_other; auto).
      rewrite E in H. eapply finok_other; eauto. intros Hw. rewrite Ht. apply upd_other. auto.
  - intros j o ts H. rewrite Hh in H. destruct (F2 j o ts H) as (d & F & Q). exists d.
    destruct (fact_quiet_stable s s' j o d None IA IB SF F Q); [tauto|auto].
Qed.

Lemma invF_same s s' :
  InvA s -> InvB s -> InvF s -> StepF s s' -> thr s' = thr s ->
  (forall j o ts, In (HFinal j o ts) (hist s') -> In (HFinal j o ts) (hist s)) -> InvF s'.
Proof.
  intros IA IB [F1 F2] SF Ht Hh. constructor.
  - intros t' j o H. rewrite Ht in H. destruct (F1 t' j o H) as (d & F & [Q|(-> & r & rest & T & Wc & Q)]).
    + exists d. destruct (fact_quiet_stable s s' j o d None IA IB SF F Q) as [F' Q']; [tauto|]. auto.
    + exists d. destruct (fact_quiet_stable s s' j o d (Some r) IA IB SF F Q) as [F' Q'].
      { intros _. rewrite T. unfold wcount in *. simpl. exact Wc. }
      split; auto. right. split; auto. exists r, rest. rewrite Ht. auto.
  - intros j o ts H. apply Hh in H. destruct (F2 j o ts H) as (d & F & Q). exists d.
    destruct (fact_quiet_stable s s' j o d None IA IB SF F Q); [tauto|auto].
Qed.

Lemma outcome_of_some s d o : dout s d = Some o -> outcome_of s d = o.
Proof. unfold outcome_of. intros ->. reflexivity. Qed.

Lemma finok_finalize s s' t i l r d p :
  InvA s -> InvB s -> InvC s -> InvE s -> StepF s s' ->
  thr s t = i :: l -> opt_eqb (cbk_of (recs s) i) d = true ->
  r < nrec s -> jdel (recs s r) = Some d -> ds s d = Finished ->
  nrec s' = nrec s -> ndel s' = ndel s -> recs s' = recs s -> dfor s' = dfor s -> datt s' = datt s ->
  ds s' = ds s -> dout s' = dout s -> dcb s' = dcb s ->
  thr s' = upd (thr s) t (norm false p) -> cbc (recs s) d p <= cbc (recs s) d l ->
  FinOK s' t (jf (recs s r)) (outcome_of s d).
Proof.
  intros IA IB IC IE (NJ & OS & Hl & Hp) Et Hh Hr Hd Hfin En Ed Er Ef Ea Es Eo Ec Ht Hc.
  destruct (a_rec _ IA r d Hr Hd) as (A1 & A2 & A3 & A4).
  destruct (cbc_head_one s t _ l d IB Et Hh) as [Q1 Q2].
  assert (Pd : pend s d) by (split; [auto|right; exists t; auto]).
  destruct (e_out _ IE d Hfin) as (o & Ho). rewrite (outcome_of_some _ _ _ Ho).
  assert (NP : ~ pend s' d).
  { intros (_ & [P|(t' & P)]).
    - unfold started in P. rewrite Ec, Es in P. assert (G := b_started _ IB t d Q1). unfold started in G. congruence.
    - assert (Z := retired_after s s' t p d IA IB). rewrite Er in Z, P.
      specialize (Z (fun _ _ => eq_refl) Ht Q1). rewrite Z in P; [lia|].
      lia. }
  exists d. split.
  - rewrite <- A2. unfold Fact. rewrite Ed, Ef, Ea, Es, Eo. repeat split; auto.
    intros d' H' E'. apply (c_l2d _ IC d d' Pd H' E').
  - left. split.
    + intros r2 L E. exfalso. assert (H2 : r2 < nrec s) by (rewrite <- En; apply L).
      assert (L2 := Hl r2 H2 L). rewrite Er in E.
      pose proof (c_l1d _ IC r2 d L2 A1 ltac:(congruence)).
      pose proof (c_l2q _ IC d r2 Pd H2 (proj1 (proj2 L2)) ltac:(congruence)). lia.
    + intros d2 P E. assert (H2 : d2 < ndel s) by (rewrite <- Ed; apply P).
      assert (P2 := Hp d2 H2 P). rewrite Ef in E.
      pose proof (c_l2d _ IC d d2 Pd H2 ltac:(congruence)).
      pose proof (c_l2d _ IC d2 d P2 A1 ltac:(congruence)).
      assert (d2 = d) by (apply (c_u1 _ IC); auto; [congruence|lia]). subst d2. auto.
Qed.

Lemma finok_discard s s' r d0 rest :
  InvA s -> InvC s -> InvE s -> StepF s s' ->
  In r (jobs s) -> jdel (recs s r) = None -> jold (recs s r) = Some d0 ->
  nrec s' = nrec s -> ndel s' = ndel s -> recs s' = recs s -> dfor s' = dfor s -> datt s' = datt s ->
  ds s' = ds s -> dout s' = dout s ->
  thr s' worker = IXPop r :: rest -> wcount rest = 0 ->
  FinOK s' worker (jf (recs s r)) (outcome_of s d0).
Proof.
  intros IA IC IE (NJ & OS & Hl & Hp) Hin Hq Ho En Ed Er Ef Ea Es Eo Ht Wc.
  assert (Hr := a_jobs _ IA r Hin).
  destruct (e_old _ IE r Hr Hq d0 Ho) as (A1 & A2 & A3 & A4).
  assert (Lr : liveq s r) by (split; [auto|split; auto]).
  destruct (e_out _ IE d0 A4) as (o & Hout). rewrite (outcome_of_some _ _ _ Hout).
  exists d0. split.
  - rewrite <- A2. unfold Fact. rewrite Ed, Ef, Ea, Es, Eo. repeat split; auto.
    intros d' H' E'. rewrite A3. apply (c_l1d _ IC r d' Lr H'). congruence.
  - right. split; auto. exists r, rest. split; auto. split; auto. split.
    + intros r2 L E. assert (H2 : r2 < nrec s) by (rewrite <- En; apply L).
      assert (L2 := Hl r2 H2 L). rewrite Er in E. f_equal.
      apply (c_u2 _ IC); auto; try apply L2.
      pose proof (c_l1q _ IC r r2 Lr H2 (proj1 (proj2 L2)) E).
      pose proof (c_l1q _ IC r2 r L2 Hr Hq (eq_sym E)). lia.
    + intros d2 P E. assert (H2 : d2 < ndel s) by (rewrite <- Ed; apply P).
      assert (P2 := Hp d2 H2 P). rewrite Ef in E.
      pose proof (c_l1d _ IC r d2 Lr H2 E).
      pose proof (c_l2q _ IC d2 r P2 Hr Hq (eq_sym E)). lia.
Qed.

Lemma stepF_step0 s e s' : InvA s -> InvB s -> step0 s e = Some s' -> StepF s s'.
Proof.
  intros IA IB H. assert (NJ := newj_step0 s e s' IA H).
  split; [exact NJ|]. split; [eapply oldsame_step0; eauto|]. split; [eapply lfacts_step0; eauto|].
  apply (pfacts s s' IA IB (bfacts_step0 s e s' IA IB H)). apply NJ.
Qed.

Ltac sv_fset E := simpl; intros j' o' Hin'; left; rewrite E; simpl in *; intuition (try discriminate).
Ltac sv_hfin := simpl; intros j' o' ts' Hin'; left; intuition (try discriminate).

Lemma invF_step0 s e s' : InvA s -> InvB s -> InvC s -> InvE s -> InvF s -> step0 s e = Some s' -> InvF s'.
Proof.
  intros IA IB IC IE IF H.
  assert (SF := stepF_step0 s e s' IA IB H).
  unfold step0 in H. destruct e.
  all: step_cases H.
  all: clean.
  all: try exact IF.
  all: try (eapply (invF_same s _ IA IB IF SF); [reflexivity|simpl; intros; intuition discriminate]; fail).
  all: try (eapply (invF_pop s _ _ _ _ IA IB IF SF); [eassumption|reflexivity|reflexivity|reflexivity]; fail).
  all: try match goal with E : thr _ ?t = _ |- _ =>
      eapply (invF_gen s _ t _ IA IB IF SF); [reflexivity|intros; rewrite E; discriminate| |] end.
  all: try (sv_hfin; fail).
  all: try match goal with E : thr _ ?t = _ |- _ => sv_fset E; fail end.
  - apply gnj_some in Heqo. destruct Heqo as [G1 G2].
    simpl. intros j o [Hi|[Hi|[Hi|[Hi|[]]]]]; try discriminate. inversion Hi; subst j o. right.
    eapply (finok_discard s _ (rj_id r) n _ IA IC IE SF G1 G2 Heqo0); try reflexivity.
  - (* EAcqM at IPolSR: stop_retry seen late, finalise *)
    assert (W := a_wf _ IA t). rewrite Heql in W. destruct (W _ (or_introl eq_refl)) as [W1 _].
    assert (Fi := e_prog _ IE t). rewrite Heql in Fi. specialize (Fi _ (or_introl eq_refl) n Heqo0).
    simpl. intros j1 o1 [Hi|[Hi|[Hi|Hi]]]; try discriminate; [|left; rewrite Heql; right; auto].
    inversion Hi; subst j1 o1. right.
    eapply (finok_finalize s _ t _ l r n _ IA IB IC IE SF Heql); try reflexivity; auto.
    all: simpl; try (rewrite Heqo0; apply Nat.eqb_refl); try (rewrite !cbc_cons_none by reflexivity; lia).
  - intros j o Hin. apply in_app_iff in Hin. destruct Hin as [Hin|Hin].
    + exfalso. clear - Hin. unfold cbs_prog in Hin. induction (rcbs s j0) as [|c l0 IH]; simpl in Hin; auto.
      apply in_app_iff in Hin. destruct Hin as [Hin|Hin]; auto. destruct c; simpl in Hin; intuition discriminate.
    + left. rewrite Heql. right; auto.
  - simpl. intros j1 o1 ts [E|Hin]; [inversion E; subst; right; eauto|left; auto].
  - simpl. intros j1 o1 [Hi|Hi]; [discriminate|]. left. rewrite Heql. right. apply in_tl_in; auto.
  - assert (W := a_wf _ IA t). rewrite Heql in W. destruct (W _ (or_introl eq_refl)) as [W1 W2].
    assert (Hh : opt_eqb (cbk_of (recs s) (IDCbCancelled d0 r)) d0 = true) by (simpl; apply Nat.eqb_refl).
    destruct (cbc_head_one s t _ l d0 IB Heql Hh) as [Q1 _].
    assert (St := b_started _ IB t d0 Q1). unfold started in St. apply andb_true_iff in St. destruct St as [_ St].
    assert (Fi := done_notcancelled _ St Heqb1).
    simpl. intros j1 o1 [Hi|[Hi|[Hi|[Hi|Hi]]]]; try discriminate; [|left; rewrite Heql; right; auto].
    inversion Hi; subst j1 o1. right.
    eapply (finok_finalize s _ t _ l r d0 _ IA IB IC IE SF Heql Hh W1 W2 Fi); try reflexivity.
  - assert (W := a_wf _ IA t). rewrite Heql in W. destruct (W _ (or_introl eq_refl)) as [W1 W2]. simpl in W2.
    destruct (jdel (recs s r)) as [d|] eqn:Ed; [clear W2|tauto]. simpl.
    assert (Fi := e_prog _ IE t). rewrite Heql in Fi. specialize (Fi _ (or_introl eq_refl) d Ed).
    simpl. intros j1 o1 [Hi|[Hi|[Hi|[Hi|Hi]]]]; try discriminate; [|left; rewrite Heql; right; auto].
    inversion Hi; subst j1 o1. right.
    eapply (finok_finalize s _ t _ l r d _ IA IB IC IE SF Heql); try reflexivity; auto.
    all: simpl; try (rewrite Ed; apply Nat.eqb_refl); try (rewrite !cbc_cons_none by reflexivity; lia).
  - assert (W := a_wf _ IA t). rewrite Heql in W. destruct (W _ (or_introl eq_refl)) as [W1 W2]. simpl in W2.
    destruct (jdel (recs s r)) as [d|] eqn:Ed; [clear W2|tauto]. simpl.
    assert (Fi := e_prog _ IE t). rewrite Heql in Fi. specialize (Fi _ (or_introl eq_refl) d Ed).
    simpl. intros j1 o1 [Hi|[Hi|[Hi|[Hi|Hi]]]]; try discriminate; [|left; rewrite Heql; right; auto].
    inversion Hi; subst j1 o1. right.
    eapply (finok_finalize s _ t _ l r d _ IA IB IC IE SF Heql); try reflexivity; auto.
    all: simpl; try (rewrite Ed; apply Nat.eqb_refl); try (rewrite !cbc_cons_none by reflexivity; lia).
  - assert (W := a_wf _ IA t). rewrite Heql in W. destruct (W _ (or_introl eq_refl)) as [W1 W2]. simpl in W2.
    destruct (jdel (recs s r)) as [d|] eqn:Ed; [clear W2|tauto]. simpl.
    assert (Fi := e_prog _ IE t). rewrite Heql in Fi. specialize (Fi _ (or_introl eq_refl) d Ed).
    simpl. intros j1 o1 [Hi|[Hi|[Hi|[Hi|Hi]]]]; try discriminate; [|left; rewrite Heql; right; auto].
    inversion Hi; subst j1 o1. right.
    eapply (finok_finalize s _ t _ l r d _ IA IB IC IE SF Heql); try reflexivity; auto.
    all: simpl; try (rewrite Ed; apply Nat.eqb_refl); try (rewrite !cbc_cons_none by reflexivity; lia).
Qed.

Lemma invF_init : InvF init.
Proof. constructor; simpl; tauto. Qed.

Lemma stepF_tick s ts : StepF s (s <| clock := ts |>).
Proof.
  split; [|split; [|split]]; auto.
  - unfold NewJ; simpl. repeat split; intros; lia.
  - split; [intros; apply same_rec_refl|intros; simpl; auto].
Qed.
Lemma invF_tick s ts : InvA s -> InvB s -> InvF s -> InvF (s <| clock := ts |>).
Proof. intros IA IB IF. eapply (invF_same s _ IA IB IF (stepF_tick s ts)); [reflexivity|auto]. Qed.

Lemma final_outcome_of_inv s : InvE s -> InvF s -> forall j o ts,
  In (HFinal j o ts) (hist s) ->
  exists d, d < ndel s /\ dfor s d = j /\ dout s d = Some o /\ fdone (ds s d) = true /\
            forall d', d' < ndel s -> dfor s d' = j -> d' <= d.
Proof.
  intros IE IF j o ts H. destruct (f_hist _ IF j o ts H) as (d & (F1 & F2 & F3 & F4 & F5) & _).
  exists d. repeat split; auto; [rewrite F4; reflexivity|].
  intros d' H' E'. destruct (Nat.le_gt_cases d' d) as [G|G]; auto.
  pose proof (e_ord _ IE d d' G H' ltac:(congruence)). specialize (F5 d' H' E'). lia.
Qed.
