(* C03 / C12 for the Retry machine, part 16: where new records and a canceller's delegate_future.cancel() come from;
   D6: while a canceller is about to call delegate_future.cancel() for record r of j, r is the only record of j in
   _jobs, unless the delegate future has finished meanwhile (then cancel() will answer False). *)
From Coq Require Import List ZArith Bool Arith Lia.
From RecordUpdate Require Import RecordSet.
From ME Require Import Base.Machine Base.Fut Base.GenPrelude Gen.RetryGen Model.Retry Proofs.Retry_Spec.
From ME Require Proofs.Retry_InvA.
From ME Require Import Proofs.Retry_C0 Proofs.Retry_C1 Proofs.Retry_C2 Proofs.Retry_C3 Proofs.Retry_C4 Proofs.Retry_C5 Proofs.Retry_C6
  Proofs.Retry_C7 Proofs.Retry_C8 Proofs.Retry_C9 Proofs.Retry_C10 Proofs.Retry_C11 Proofs.Retry_C12 Proofs.Retry_C13
  Proofs.Retry_C17 Proofs.Retry_C18
  Proofs.Retry_N0 Proofs.Retry_N1 Proofs.Retry_N5 Proofs.Retry_N10 Proofs.Retry_N12 Proofs.Retry_N15.
Import ListNotations RecordSetNotations.
#[local] Arguments norm : simpl nomatch.

(* where a new record in _jobs comes from *)
Lemma new_rec s e s' : step0 s e = Some s' -> In (nrec s) (jobs s') -> nrec s' = S (nrec s) ->
  jf (recs s' (nrec s)) = nfut s \/
  (exists t r1 delta l, thr s t = IXRetry r1 delta :: l /\ jf (recs s' (nrec s)) = jf (recs s r1)) \/
  (exists t r0 l, thr s t = IDSubmit r0 :: l /\ jf (recs s' (nrec s)) = jf (recs s r0)).
Proof.
  intros H. s0inv H; try lia.
  all: try (match goal with inl : option outcome |- _ => destruct inl end).
  all: bsplit; subst.
  all: unfold log, set_prog; simpl; try lia.
  all: intros _ _; rewrite upd_same; simpl.
  - left. reflexivity.
  - right. left. eauto 6.
  - right. right. eauto 6.
  - right. right. eauto 6.
Qed.

(* where a head IDCancel comes from *)
Lemma head_idcancel s e s' u j d r l : (forall t, posok (thr s t) = true) -> step0 s e = Some s' ->
  thr s' u = IDCancel j d r :: l ->
  thr s u = IDCancel j d r :: l \/
  (exists l0, thr s u = IXCancelScan j :: l0 /\ find_fut s j = Some r /\ jdel (recs s r) = Some d /\ jobs s' = jobs s).
Proof.
  intros HPos H. s0inv H; auto.
  all: try (match goal with inl : option outcome |- _ => destruct inl end).
  all: bsplit; subst.
  all: intros E.
  all: try (left; exact E).
  all: match goal with Hq : thr _ ?t = _ |- _ =>
      destruct (Nat.eq_dec u t) as [->|Nu];
      [pose proof (HPos t) as Pt; rewrite Hq in Pt; unfold posok in Pt; simpl in Pt
      |left; unfold log, set_prog in E; simpl in E; rewrite upd_other in E by exact Nu; exact E] end.
  all: unfold log, set_prog in E; simpl in E; rewrite ?upd_same in E.
  all: try (apply norm_head_nh in E; [|assumption]; discriminate E).
  all: try (inversion E; fail).
  - inversion E; subst. right. eexists. repeat split; eauto.
  - assert (X : forallb nh (cbs_prog j1 (rcbs s j1) ++ l0) = true) by (rewrite forallb_app, nh_cbs; exact Pt).
    apply norm_head_nh in E; [|exact X]. discriminate E.
  - apply (nh_norm l0 true) in Pt. rewrite E in Pt. simpl in Pt. discriminate Pt.
  - destruct (dcb s d0); simpl in E; inversion E.
  - destruct (dcb s d0); simpl in E; inversion E.
Qed.

Definition D6 (s : st) : Prop := forall t j d r l, thr s t = IDCancel j d r :: l -> fdone (rs s j) = false ->
  (forall r', In r' (jobs s) -> jf (recs s r') = j -> r' = r) \/ ds s d = Finished.

Lemma D6_step0 s e s' : D6 s -> uniq s -> JCH s -> HI s -> MI s -> PI s -> RI s -> (forall t, posok (thr s t) = true) ->
  step0 s e = Some s' -> D6 s'.
Proof.
  intros HD HU HJ HH HMI HP HR HPos H u j d r l E Hnd.
  pose proof (MONO_step0 _ _ _ H) as HM.
  destruct (Retry_InvA.step_ext _ _ _ H) as (_ & _ & _ & _ & Ej & _).
  destruct (head_idcancel s e s' u j d r l HPos H E) as [E0|(l0 & E0 & Ef & Ed & Ejobs)].
  - (* the canceller was already there *)
    pose proof (head_ipr s u _ _ HP E0) as Hi. simpl in Hi. destruct Hi as (Lr & Edr & Ejr & Ld).
    assert (Hj : j < nfut s) by (rewrite <- Ejr; apply (pi_jf s HP); exact Lr).
    assert (Hnd0 : fdone (rs s j) = false) by (eapply dn_back; eassumption).
    destruct (HD u j d r l E0 Hnd0) as [A|A]; [|right; apply (mo_dfin _ _ HM); assumption].
    destruct (ds s d) eqn:Eds; try (right; apply (mo_dfin _ _ HM); [exact Ld|exact Eds]).
    all: (destruct (fstate_eqb (ds s' d) Finished) eqn:Ef'; [right; apply fstate_eqb_eq; exact Ef'|left]).
    all: intros r' Hr' Ejf; destruct (Ej r' Hr') as [Hr0|[-> En]];
      [apply A; [exact Hr0|]; rewrite <- (mo_jf _ _ HM) by (apply (ri_jobs s HR); exact Hr0); exact Ejf|exfalso].
    all: destruct (new_rec s e s' H Hr' En) as [N|[(t & r1 & delta & l1 & Et & N)|(t & r0 & l1 & Et & N)]].
    all: try lia.
    all: try (assert (B1 : mown s j = Some u)
               by (eapply MI_head; [exact HMI|exact E0|]; right; simpl; rewrite Nat.eqb_refl; reflexivity);
             assert (B2 : mown s j = Some t)
               by (eapply MI_head; [exact HMI|exact Et|]; right; simpl; unfold jfs; rewrite <- N, Ejf, Nat.eqb_refl; reflexivity);
             assert (t = u) by congruence; subst t; rewrite E0 in Et; discriminate Et).
    all: pose proof (head_ipr s t _ _ HP Et) as Hi1; simpl in Hi1; destruct Hi1 as (L1 & d1 & Ed1 & Ld1 & Fd1 & _).
    all: assert (In1 : In r1 (jobs s))
      by (eapply (HJ t _ _ r1 Et); [reflexivity|rewrite <- N, Ejf; exact Hnd0|intros dd Hdd; congruence]).
    all: assert (r1 = r) by (apply A; [exact In1|rewrite <- N; exact Ejf]); subst r1.
    all: assert (d1 = d) by congruence; subst d1; congruence.
  - (* the X-section of executor._cancel has just found the record *)
    left. apply find_fut_some in Ef. destruct Ef as [Rin Rj].
    assert (Hj : j < nfut s) by (rewrite <- Rj; apply (pi_jf s HP), (ri_jobs s HR); exact Rin).
    assert (Hnd0 : fdone (rs s j) = false) by (eapply dn_back; eassumption).
    intros r' Hr' Ejf. rewrite Ejobs in Hr'.
    rewrite (mo_jf _ _ HM) in Ejf by (apply (ri_jobs s HR); exact Hr').
    destruct (HU r' r Hr' Rin) as [X|X]; [congruence|exact X|congruence].
Qed.

Lemma D6_reach s : reachable_from step init s -> D6 s.
Proof.
  apply (invariant_rule_r step D6).
  - intros t j d r l E. discriminate E.
  - intros s0 e s' R IH H. apply step_split in H. destruct H as (s1 & Ht & H).
    apply tick_eq in Ht. subst s1. destruct (JU_reach s0 R) as [U X].
    eapply D6_step0; [ | | | | | | | |exact H].
    + exact IH.
    + exact U.
    + exact (JCH_reach s0 R).
    + apply HI_tick, HI_reach, R.
    + apply MI_tick, MI_reach, R.
    + apply PI_tick, PI_reach, R.
    + apply RI_tick, RI_reach, R.
    + apply (POS_reach s0 R).
Qed.
