(* descriptor_exact_at_snapshot: relative to the moment the SNAPSHOT is taken the descriptor set is exact:
   it holds one descriptor for precisely the futures whose registration (_register_poll's append) happened
   before the snapshot and whose deregistration (_clear_executor, run inside the resolving call before that
   call returns) did not. *)
From Coq Require Import ZArith List Bool Arith Lia.
From ME Require Import Base.Machine Base.Fut Model.Poll Proofs.Poll_Inv.
Import ListNotations.

(* (j, v) was registered in r (newest first) and not deregistered afterwards *)
Definition live_in (r : list hev) (j v : nat) : Prop :=
  exists r1 r2 ts, r = r1 ++ HReg j v ts :: r2 /\ forall ts', ~ In (HDereg j ts') r1.

Lemma in_remove_fut_iff j p l : In p (remove_fut j l) <-> In p l /\ fst p <> j.
Proof. unfold remove_fut. rewrite filter_In, negb_true_iff, Nat.eqb_neq. tauto. Qed.

Lemma live_cons x r j v :
  (forall ts, x <> HDereg j ts) -> live_in r j v -> live_in (x :: r) j v.
Proof.
  intros Hx [r1 [r2 [ts [-> Hn]]]]. exists (x :: r1), r2, ts. split; [reflexivity|].
  intros ts' [H|H]; [apply (Hx ts'); exact H|apply (Hn ts'); exact H].
Qed.

Lemma descs_of_live r j v : In (j, v) (descs_of r) -> live_in r j v.
Proof.
  induction r as [|x r IH]; simpl; [tauto|].
  destruct x; try (intros H; apply live_cons; [intros; discriminate|apply IH, H]).
  - rewrite in_app_iff. simpl. intros [H|[H|[]]].
    + apply live_cons; [intros; discriminate|apply IH, H].
    + inversion H; subst. exists [], r, ts. split; [reflexivity|]. intros ts' [].
  - rewrite in_remove_fut_iff. simpl. intros [H Hne]. apply live_cons; [|apply IH, H].
    intros ts' Heq. inversion Heq. subst. apply Hne. reflexivity.
Qed.

Lemma live_descs_of r j v : live_in r j v -> In (j, v) (descs_of r).
Proof.
  intros [r1 [r2 [ts [-> Hn]]]]. induction r1 as [|x r1 IH]; simpl.
  - rewrite in_app_iff. right. left. reflexivity.
  - assert (Hn' : forall ts', ~ In (HDereg j ts') r1) by (intros ts' H; apply (Hn ts'); right; exact H).
    specialize (IH Hn'). destruct x; simpl; auto.
    + rewrite in_app_iff. left. exact IH.
    + rewrite in_remove_fut_iff. split; [exact IH|]. simpl. intros ->. apply (Hn ts0). left. reflexivity.
Qed.

Lemma snaps_ok_tail x r : snaps_ok (x :: r) -> snaps_ok r.
Proof. destruct x; simpl; tauto. Qed.

Lemma snap_is_descs h1 l ts r : snaps_ok (h1 ++ HSnap l ts :: r) -> l = descs_of r.
Proof.
  induction h1 as [|x h1 IH]; simpl; [tauto|]. intros H. apply IH. eapply snaps_ok_tail. exact H.
Qed.
