(* C04 for the Retry machine: lock ownership, lock order, absence of lock deadlock. *)
From Coq Require Import List ZArith Bool Arith Lia PeanoNat.
From ME Require Import Base.Machine Base.Fut Base.GenPrelude Gen.RetryGen Model.Retry
  Proofs.Retry_L0 Proofs.Retry_L1 Proofs.Retry_L2.
Import ListNotations.

Lemma lock_lt_irrefl a : ~ lock_lt a a.
Proof. destruct a; simpl; tauto. Qed.
Lemma lock_lt_trans a b c : lock_lt a b -> lock_lt b c -> lock_lt a c.
Proof. destruct a, b, c; simpl; tauto. Qed.

Lemma opt_eqb_true a t : opt_eqb a t = true <-> a = Some t.
Proof.
  destruct a as [x|]; simpl; [|split; discriminate]. rewrite Nat.eqb_eq. split; congruence.
Qed.
Lemma oeqb_true a j : oeqb a j = true <-> a = Some j.
Proof.
  destruct a as [x|]; simpl; [|split; discriminate]. rewrite Nat.eqb_eq. split; congruence.
Qed.

Lemma retry_lock_owner s : reachable_from step init s ->
  (forall j t, mown s j = Some t <-> pendM (recs s) j false (thr s t) = true) /\
  (forall t, xown s = Some t <-> pendX false (thr s t) = true) /\
  (forall j t1 t2, pendM (recs s) j false (thr s t1) = true -> pendM (recs s) j false (thr s t2) = true -> t1 = t2) /\
  (forall t1 t2, pendX false (thr s t1) = true -> pendX false (thr s t2) = true -> t1 = t2).
Proof.
  intros R. assert (IL := invL_reach s R).
  assert (A : forall j t, mown s j = Some t <-> pendM (recs s) j false (thr s t) = true).
  { intros j t. destruct (IL t) as (hM & L & M). destruct (lk_pend _ _ j _ _ _ _ L) as [-> _].
    rewrite oeqb_true. apply M. }
  assert (B : forall t, xown s = Some t <-> pendX false (thr s t) = true).
  { intros t. destruct (IL t) as (hM & L & M). destruct (lk_pend _ _ 0 _ _ _ _ L) as [_ ->].
    rewrite opt_eqb_true. tauto. }
  split; [exact A|]. split; [exact B|]. split.
  - intros j t1 t2 H1 H2. apply A in H1. apply A in H2. congruence.
  - intros t1 t2 H1 H2. apply B in H1. apply B in H2. congruence.
Qed.

(* what a thread holds, in terms of its lk parameters *)
Lemma holds_lk s t hM l : (forall j, mown s j = Some t <-> hM = Some j) -> holds s t l ->
  match l with LM j => hM = Some j | LX => opt_eqb (xown s) t = true end.
Proof. intros M H. destruct l; unfold holds in H; simpl in H; [apply M; exact H|apply opt_eqb_true; exact H]. Qed.

Lemma retry_lock_order s : reachable_from step init s -> forall t l,
  requests s t = Some l -> forall l', holds s t l' -> lock_lt l' l.
Proof.
  intros R t l Hr l' Hh. destruct (invL_reach s R t) as (hM & L & M).
  assert (Hl := holds_lk s t hM l' M Hh). unfold requests in Hr.
  destruct (thr s t) as [|i p].
  - cbn [lk] in L. destruct (Nat.eqb t worker); inversion Hr; subst l.
    destruct l'; simpl in *; intuition congruence.
  - destruct i; inversion Hr; subst l; clear Hr; cbn [lk kind] in L;
      destruct l'; simpl in *; intuition congruence.
Qed.

Lemma blocked_dec s t : (exists u, blocked s t u) \/ unblocked s t.
Proof.
  unfold unblocked, blocked. destruct (requests s t) as [l|] eqn:E.
  - destruct (owner s l) as [u|] eqn:O.
    + left. exists u, l. auto.
    + right. intros u (l' & H1 & H2). congruence.
  - right. intros u (l' & H1 & H2). discriminate.
Qed.

(* a blocked thread waits for a strictly larger lock than any it holds; hence along an owner
   chain the requested locks strictly increase: M_j, then X, then nothing *)
Lemma blocked_step s : reachable_from step init s -> forall t u l,
  requests s t = Some l -> owner s l = Some u ->
  u <> t /\ forall l', requests s u = Some l' -> lock_lt l l'.
Proof.
  intros R t u l Hr Ho. split.
  - intros ->. apply (lock_lt_irrefl l). eapply (retry_lock_order s R t l Hr l). exact Ho.
  - intros l' Hr'. apply (retry_lock_order s R u l' Hr' l). exact Ho.
Qed.

Lemma retry_no_deadlock s : reachable_from step init s -> forall t u, blocked s t u ->
  exists path, chain s t path /\ path <> [] /\ NoDup (t :: path) /\
               unblocked s (last path t) /\ length path <= 2.
Proof.
  intros R t u (l & Hr & Ho). destruct (blocked_step s R t u l Hr Ho) as [Ntu Hu].
  assert (Btu : blocked s t u) by (exists l; auto).
  destruct (blocked_dec s u) as [(w & l' & Hr' & Ho')|Fu].
  - destruct (blocked_step s R u w l' Hr' Ho') as [Nuw Hw]. specialize (Hu l' Hr').
    assert (Fw : unblocked s w).
    { intros x (l'' & Hr'' & _). specialize (Hw l'' Hr''). destruct l, l', l''; simpl in *; tauto. }
    assert (Nwt : w <> t).
    { intros ->. assert (Q := retry_lock_order s R t l Hr l' Ho'). destruct l, l'; simpl in *; tauto. }
    exists [u; w]. simpl. split; [split; [exact Btu|split; [exists l'; auto|exact I]]|].
    split; [discriminate|]. split; [|split; [exact Fw|lia]].
    repeat constructor; simpl; intuition congruence.
  - exists [u]. simpl. split; [tauto|]. split; [discriminate|]. split; [|split; [exact Fu|lia]].
    repeat constructor; simpl; intuition congruence.
Qed.

(* ---- a concrete accepted trace with a two-link wait chain -------------------------------------
   futures 0 and 1 are submitted; the worker (thread 0) is inside _submit_now for future 0 holding
   M_0 and X; thread 1 is inside cancel() of future 1 holding M_1 and waiting for X; thread 2 calls
   add_done_callback on future 1 and waits for M_1. *)
Definition ex_trace : list (Z * ev) :=
  [ (0, ECallSubmit 1); (0, EXSec 1 0); (0, EEvSet 1); (0, ERet 1 0);
    (0, ECallSubmit 1); (0, EXSec 1 0); (0, EEvSet 1); (0, ERet 1 0);
    (0, EXSec 0 0); (0, EAcqM 0 0); (0, EXAcq 0);
    (0, ECallCancel 1 1); (0, EAcqM 1 1); (0, EFR 1 0 1 Pending); (0, EFR 1 1 1 Pending);
    (0, ECallAddCb 2 1 7) ]%Z.
Definition ex_state : st := match run step init ex_trace with Some s => s | None => init end.

Lemma ex_reachable : reachable_from step init ex_state.
Proof. exists ex_trace. vm_compute. reflexivity. Qed.
Lemma ex_accepted : run step init ex_trace <> None.
Proof. vm_compute. discriminate. Qed.
Lemma ex_blocked : blocked ex_state 2 1 /\ blocked ex_state 1 0 /\ unblocked ex_state 0.
Proof.
  split; [exists (LM 1); vm_compute; auto|]. split; [exists LX; vm_compute; auto|].
  intros u (l & H & _). vm_compute in H. discriminate.
Qed.
