(* Frame facts about one step of the MapFut machine, used by the NoCancelFuture invariant. *)
From Coq Require Import ZArith List Bool Arith Lia.
From RecordUpdate Require Import RecordSet.
From ME Require Import Base.Machine Base.Fut Base.GenPrelude Model.MapFut Proofs.MapFut_D0 Proofs.MapFut_D1 Proofs.MapFut_D2 Proofs.MapFut_D7.
Import ListNotations RecordSetNotations.

Record same_frame (a b : st) : Prop := {
  sf_hist : hist b = hist a; sf_es : es b = es a; sf_eout : eout b = eout a; sf_nfut : nfut b = nfut a;
  sf_mkind : mkind b = mkind a; sf_mfn : mfn b = mfn a; sf_mefn : mefn b = mefn a; sf_ms : ms b = ms a; sf_mout : mout b = mout a
}.
Lemma sil_frame_rec t s s' : sil t s s' -> same_frame s s'.
Proof.
  intros H. constructor; [apply (sil_hist _ _ _ H)|apply (sil_es _ _ _ H)|apply (sil_eout _ _ _ H)|apply (sil_nfut _ _ _ H)
    |apply (sil_mkind _ _ _ H)|apply (sil_mfn _ _ _ H)|apply (sil_mefn _ _ _ H)|apply (sil_ms _ _ _ H)|apply (sil_mout _ _ _ H)].
Qed.
Lemma sstar_frame t s s' : sstar t s s' -> same_frame s s'.
Proof.
  induction 1 as [s|s s1 s2 H1 H2 IH].
  - constructor; reflexivity.
  - destruct (sil_frame_rec _ _ _ H1), IH. constructor; congruence.
Qed.
(* a step = its loud part followed by silent moves that leave everything the theorems look at alone *)
Lemma step_loud s e s' : reachable s -> step s e = Some s' -> exists s0, lstep s e = Some s0 /\ same_frame s0 s'.
Proof.
  intros R H. pose proof (inv2_reach _ R) as [[[SH _] _] _].
  destruct (step_decomp s e s' SH H) as (s0 & L & S). exists s0. split; [exact L|]. eapply sstar_frame; eauto.
Qed.

Lemma lstep_new_cancelcall s e s0 j : lstep s e = Some s0 -> In (HCancelCall j) (hist s0) ->
  In (HCancelCall j) (hist s) \/ exists t, e = ECallCancel t j.
Proof.
  intros H X. step_cases H; simpl in X; auto.
  all: destruct X as [X|X]; [try discriminate X|auto].
  inversion X; subst. right. eauto.
Qed.
Lemma lstep_new_fn s e s0 j d a : lstep s e = Some s0 -> In (HFn j d a) (hist s0) ->
  In (HFn j d a) (hist s) \/ exists t rest, e = EUserFn t a /\ thr s t = IUserFn j d :: rest.
Proof.
  intros H X. step_cases H; simpl in X; auto.
  all: destruct X as [X|X]; [try discriminate X|auto].
  all: inversion X; subst; right; eauto.
Qed.
Lemma lstep_callnew s t j k f e d s0 : lstep s (ECallNew t j k f e d) = Some s0 ->
  j = nfut s /\ nfut s0 = S j /\ mkind s0 j = k /\ mfn s0 j = f /\ mefn s0 j = e /\ hist s0 = HNew j d :: hist s /\
  es s0 = es s /\ eout s0 = eout s.
Proof.
  intros H. unfold lstep, step_gen in H. destruct (thr s t); [|discriminate].
  destruct (negb (Nat.eqb j (nfut s))) eqn:E; [discriminate|]. apply negb_false_iff, Nat.eqb_eq in E. subst j.
  inversion H; subst; clear H. simpl. rewrite !upd_same. repeat split; reflexivity.
Qed.
Lemma lstep_other_nfut s e s0 : lstep s e = Some s0 -> (forall t j k f e' d, e <> ECallNew t j k f e' d) -> nfut s0 = nfut s.
Proof. intros H N. step_cases H; simpl; auto. exfalso. eapply N; reflexivity. Qed.
