(* source facts of more_executors/_impl/futures/apply.py: what the translator finds now is what the models were written against *)
From Coq Require Import List String.
From ME Require Import Gen.Src_fapply Model.SrcExpected.
Lemma src_fapply_ok : Src_fapply.facts = expected_fapply.
Proof. reflexivity. Qed.
