(* I9b: every position token exists at most once; a stored zip slot has no token left. *)
From Coq Require Import List Arith Bool Lia PeanoNat ZArith.
From ME Require Import Base.Machine Base.Fut Base.GenPrelude Gen.BoolGen Gen.ZipGen Model.Comb Proofs.Comb_Spec.
From ME Require Import Proofs.Comb_I0 Proofs.Comb_I4 Proofs.Comb_I9a.
Import ListNotations.

Record ZU (T : nat -> nat) (E : nat -> nat) : Prop := {
  z_t1 : forall t, T t <= 1;
  z_tu : forall t1 t2, 1 <= T t1 -> 1 <= T t2 -> t1 = t2;
  z_e1 : forall d, E d <= 1;
  z_eu : forall d1 d2, 1 <= E d1 -> 1 <= E d2 -> d1 = d2;
  z_te : forall t d, 1 <= T t -> E d = 0
}.

(* abstract preservation: only thread a moves *)
Lemma ZU_keep T E T' E' a : ZU T E -> (forall u, u <> a -> T' u = T u) ->
  (((forall d, E' d = E d) /\ T' a <= T a)
   \/ (exists d, 1 <= T a /\ T' a + 1 <= T a /\ E' d = E d + 1 /\ forall d', d' <> d -> E' d' = E d')
   \/ (exists d, E' d = 0 /\ (forall d', d' <> d -> E' d' = E d') /\ T' a <= T a + E d)) ->
  ZU T' E'.
Proof.
  intros Z Ho Acc.
  assert (HT : forall u, u = a \/ T' u = T u) by (intros u; destruct (Nat.eq_dec u a); auto).
  destruct Acc as [[HE Ha]|[(d & A1 & A2 & A3 & A4)|(d & A1 & A2 & A3)]].
  - constructor.
    + intros t. pose proof (z_t1 _ _ Z t). pose proof (z_t1 _ _ Z a). destruct (HT t) as [-> | ->]; lia.
    + intros t1 t2 H1 H2. apply (z_tu _ _ Z); destruct (HT t1) as [-> | E1]; destruct (HT t2) as [-> | E2]; lia.
    + intros d. rewrite HE. apply Z.
    + intros d1 d2. rewrite !HE. apply Z.
    + intros t d H1. rewrite HE. apply (z_te _ _ Z t). destruct (HT t) as [-> | E1]; lia.
  - pose proof (z_t1 _ _ Z a) as Ba. assert (Ta0 : T' a = 0) by lia.
    assert (E0 : forall x, E x = 0) by (intros x; apply (z_te _ _ Z a); lia).
    assert (HE : forall x, x = d \/ E' x = E x) by (intros x; destruct (Nat.eq_dec x d); auto).
    constructor.
    + intros t. pose proof (z_t1 _ _ Z t). destruct (HT t) as [-> | ->]; lia.
    + intros t1 t2 H1 H2. destruct (HT t1) as [->|E1]; [lia|]. destruct (HT t2) as [->|E2]; [lia|].
      apply (z_tu _ _ Z); lia.
    + intros x. destruct (HE x) as [-> | ->]; [rewrite A3|]; rewrite E0; lia.
    + intros d1 d2 H1 H2. destruct (HE d1) as [->|E1]; destruct (HE d2) as [->|E2]; auto;
        rewrite ?E1, ?E2, E0 in *; lia.
    + intros t x H1. exfalso. destruct (HT t) as [->|Et]; [lia|]. rewrite Et in H1.
      assert (t = a) by (apply (z_tu _ _ Z); lia). subst. lia.
  - assert (HE : forall x, (x = d /\ E' x = 0) \/ E' x = E x).
    { intros x; destruct (Nat.eq_dec x d) as [->|]; auto. }
    pose proof (z_t1 _ _ Z a) as Ba. pose proof (z_e1 _ _ Z d) as Bd.
    assert (Bad : T a + E d <= 1).
    { destruct (T a) eqn:Ea; [lia|]. rewrite (z_te _ _ Z a d); lia. }
    constructor.
    + intros t. pose proof (z_t1 _ _ Z t). destruct (HT t) as [-> | ->]; lia.
    + intros t1 t2 H1 H2. destruct (HT t1) as [->|E1]; destruct (HT t2) as [->|E2]; auto.
      * rewrite E2 in H2. destruct (T a) eqn:Ea; [|apply (z_tu _ _ Z); lia].
        rewrite (z_te _ _ Z t2 d) in A3; lia.
      * rewrite E1 in H1. destruct (T a) eqn:Ea; [|apply (z_tu _ _ Z); lia].
        rewrite (z_te _ _ Z t1 d) in A3; lia.
      * apply (z_tu _ _ Z); lia.
    + intros x. pose proof (z_e1 _ _ Z x). destruct (HE x) as [[-> ->] | ->]; lia.
    + intros d1 d2 H1 H2. destruct (HE d1) as [[-> E1]|E1]; [lia|]. destruct (HE d2) as [[-> E2]|E2]; [lia|].
      apply (z_eu _ _ Z); lia.
    + intros t x H1. destruct (HE x) as [[-> ->] | Hx']; auto. rewrite Hx'. destruct (HT t) as [->|Et].
      * destruct (T a) eqn:Ea; [|apply (z_te _ _ Z a); lia].
        destruct (E x) eqn:Ex; auto. destruct (Nat.eq_dec x d) as [->|Hx]; [lia|].
        exfalso. apply Hx. apply (z_eu _ _ Z); lia.
      * apply (z_te _ _ Z t). lia.
Qed.

Lemma ZU_fresh T E a : (forall u, u <> a -> T u = 0) -> T a <= 1 -> (forall d, E d = 0) -> ZU T E.
Proof.
  intros H1 H2 H3.
  assert (HT : forall u, u = a \/ T u = 0) by (intros u; destruct (Nat.eq_dec u a); auto).
  constructor.
  - intros t. destruct (HT t) as [-> | ->]; lia.
  - intros t1 t2 A B. destruct (HT t1) as [-> | E1]; destruct (HT t2) as [-> | E2]; auto; lia.
  - intros d. rewrite H3. lia.
  - intros d1 d2 A. rewrite H3 in A. lia.
  - intros; apply H3.
Qed.

Definition TK (s : st) (i : nat) := ZU (fun t => tokc i (thr s t)) (fun d => ecnt i (ecbs s d)).

Record ZI (s : st) : Prop := {
  zi_u : forall i, TK s i;
  zi_sl : forall i, slots s i <> None -> (forall t, tokc i (thr s t) = 0) /\ (forall d, ecnt i (ecbs s d) = 0);
  zi_unb : built s = false -> forall i, slots s i = None
}.

Lemma ZI_init : ZI init.
Proof.
  constructor; simpl; auto; try congruence.
  intros i. apply (ZU_fresh _ _ 0); simpl; auto.
Qed.

Lemma TK_step s e s' i : I4 s -> TK s i -> step s e = Some s' -> TK s' i.
Proof.
  intros J Z H. pose proof (tok_account _ _ _ i H) as A. unfold Acc in A.
  assert (Ho : forall u, u <> actor e -> tokc i (thr s' u) = tokc i (thr s u)).
  { intros u Hu. rewrite (step_other_thr _ _ _ _ H Hu). reflexivity. }
  destruct A as [A|[A|[A|(Hb & A1 & A2)]]].
  - eapply ZU_keep; eauto.
  - eapply ZU_keep; eauto.
  - eapply ZU_keep; eauto.
  - destruct (i4_unb _ J Hb) as (Ht & He & _). apply (ZU_fresh _ _ (actor e)); auto.
    + intros u Hu. rewrite Ho, Ht; auto.
    + intros d. rewrite A2, He. reflexivity.
Qed.

Lemma zero_keep s e s' i : I4 s -> ZI s -> step s e = Some s' -> slots s i <> None ->
  (forall t, tokc i (thr s' t) = 0) /\ (forall d, ecnt i (ecbs s' d) = 0).
Proof.
  intros J Z H Hs. destruct (zi_sl _ Z i Hs) as [T0 E0].
  pose proof (tok_account _ _ _ i H) as A. unfold Acc in A.
  assert (Ho : forall u, u = actor e \/ tokc i (thr s' u) = 0).
  { intros u. destruct (Nat.eq_dec u (actor e)) as [|Hu]; auto. right.
    rewrite (step_other_thr _ _ _ _ H Hu). apply T0. }
  pose proof (T0 (actor e)) as Ta.
  destruct A as [[A1 A2]|[(d & A1 & _)|[(d & A1 & A2 & A3)|(Hb & _)]]].
  - split; [intros t; destruct (Ho t) as [-> | ?]; lia|]. intros d. rewrite A1. apply E0.
  - lia.
  - split; [intros t; destruct (Ho t) as [-> | ?]; auto; rewrite (E0 d) in A3; lia|].
    intros x. destruct (Nat.eq_dec x d) as [->|Hx]; auto. rewrite A2; auto.
  - exfalso. apply Hs. apply (zi_unb _ Z Hb).
Qed.

Lemma ZI_step s e s' : I4 s -> ZI s -> step s e = Some s' -> ZI s'.
Proof.
  intros J Z H. constructor.
  - intros i. eapply TK_step; eauto. apply Z.
  - intros i Hs. destruct (store_step _ _ _ H) as [E|(j & d & r & Ht & _ & _ & _ & _ & Es & _ & _ & Ht' & Ee)].
    + rewrite E in Hs. eapply zero_keep; eauto.
    + destruct (Nat.eq_dec i j) as [->|Hij].
      2:{ rewrite Es, upd_other in Hs by auto. eapply zero_keep; eauto. }
      pose proof (zi_u _ Z j) as U. unfold TK in U.
      assert (Ta : tokc j (thr s (actor e)) = 1).
      { pose proof (z_t1 _ _ U (actor e)) as B. simpl in B. rewrite Ht in *. rewrite tokc_cons in *.
        simpl istok in *. rewrite Nat.eqb_refl in *. lia. }
      split.
      * intros t. destruct (Nat.eq_dec t (actor e)) as [->|Hu].
        -- rewrite Ht'. rewrite Ht in Ta. rewrite tokc_cons in Ta. simpl istok in Ta. rewrite Nat.eqb_refl in Ta.
           rewrite tokc_cons, tokc_app. simpl istok. destruct (Z.eqb _ _); simpl; lia.
        -- rewrite (step_other_thr _ _ _ _ H Hu). destruct (tokc j (thr s t)) eqn:Et; auto.
           exfalso. apply Hu. apply (z_tu _ _ U); simpl; lia.
      * intros x. rewrite Ee. apply (z_te _ _ U (actor e)). simpl. lia.
  - intros Hb' i. destruct (built s) eqn:Hb.
    { destruct (step_built _ _ _ H Hb) as [Hx _]. congruence. }
    destruct (store_step _ _ _ H) as [E|(j & d & r & Ht & _)].
    + rewrite E. apply (zi_unb _ Z Hb).
    + destruct (i4_unb _ J Hb) as (Hn & _). rewrite Hn in Ht. discriminate.
Qed.

Lemma ZI_reach s : reachable s -> ZI s.
Proof.
  apply invariant_rule_r; [exact ZI_init|]. intros s0 e s' R Z H.
  eapply ZI_step; eauto using I4_reach.
Qed.
