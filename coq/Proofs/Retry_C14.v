(* The "retrying of j has been stopped" predicate and its stability. *)
From Coq Require Import List ZArith Bool Arith Lia.
From RecordUpdate Require Import RecordSet.
From ME Require Import Base.Machine Base.Fut Base.GenPrelude Gen.RetryGen Model.Retry Proofs.Retry_Spec Proofs.Retry_C0 Proofs.Retry_C1 Proofs.Retry_C2 Proofs.Retry_C3 Proofs.Retry_C4 Proofs.Retry_C5 Proofs.Retry_C6 Proofs.Retry_C7 Proofs.Retry_C8 Proofs.Retry_C9 Proofs.Retry_C10 Proofs.Retry_C11 Proofs.Retry_C12 Proofs.Retry_C13.
Import ListNotations RecordSetNotations.

Record Stp (s : st) (j : nat) : Prop := {
  st_jobs : forall r, In r (jobs s) -> jf (recs s r) = j -> jstop (recs s r) = true;
  st_pop : forall t r, In (IXAcqPop r) (thr s t) -> jf (recs s r) <> j;
  st_sec : forall t i l r, thr s t = i :: l -> (i = IDoneW r \/ i = IDSubmit r) -> jf (recs s r) <> j
}.
Definition Qs (s : st) (j : nat) : Prop := j < nfut s /\ (fdone (rs s j) = true \/ Stp s j).

Lemma Qs_nosubmit s j t r l : Qs s j -> HI s -> thr s t = IDSubmit r :: l -> jf (recs s r) <> j.
Proof.
  intros [_ [D|S]] HH E Ej.
  - pose proof (HH _ _ _ E) as Hh. simpl in Hh. destruct Hh as [_ Hn]. congruence.
  - apply (st_sec s j S t _ _ r E); auto.
Qed.

Lemma stp_jobs_step0 s e s' j : Stp s j -> j < nfut s -> fdone (rs s' j) = false ->
  JCH s -> PI s -> RI s -> step0 s e = Some s' ->
  forall r, In r (jobs s') -> jf (recs s' r) = j -> jstop (recs s' r) = true.
Proof.
  intros HS Hj Hd HJ HP HR H. pose proof (MONO_step0 _ _ _ H) as HM.
  assert (Old : forall r, In r (jobs s) -> jf (recs s' r) = j -> jstop (recs s' r) = true).
  { intros r Hr Ej. pose proof (ri_jobs s HR r Hr) as Lr. rewrite (mo_jf _ _ HM) in Ej by exact Lr.
    apply (mo_jstop_t _ _ HM); [exact Lr|]. apply (st_jobs s j HS); assumption. }
  s0inv H; try exact Old.
  all: try (match goal with inl : option outcome |- _ => destruct inl end).
  all: bsplit; subst.
  all: intros r0 Hr0; unfold log, set_prog in Hr0; simpl in Hr0.
  all: try (apply Old; first [exact Hr0 | apply in_remove_id in Hr0; apply Hr0]).
  all: apply in_app_iff in Hr0; destruct Hr0 as [Hr0|[<-|[]]];
    [apply Old; first [exact Hr0 | apply in_remove_id in Hr0; apply Hr0]|].
  all: unfold log, set_prog in *; simpl in *; rewrite upd_same; simpl; intros Ej.
  - lia.
  - pose proof (pi_thr s HP t) as Q. rewrite Heql in Q. inversion Q as [|? ? Qi _]; subst. simpl in Qi.
    destruct Qi as (Lr & d & Bd & _ & Fd & _).
    apply (st_jobs s _ HS r); [|reflexivity].
    eapply (HJ t _ _ r Heql); [reflexivity|exact Hd|intros d' Hd'; congruence].
  - exfalso. apply (st_sec s j HS t _ _ r Heql); auto.
  - exfalso. apply (st_sec s j HS t _ _ r Heql); auto.
Qed.

Lemma stp_pop_step0 s e s' j : Stp s j -> PI s -> step0 s e = Some s' ->
  forall u r, In (IXAcqPop r) (thr s' u) -> jf (recs s' r) <> j.
Proof.
  intros HS HP H. pose proof (MONO_step0 _ _ _ H) as HM.
  assert (Old : forall v r, In (IXAcqPop r) (thr s v) -> jf (recs s' r) <> j).
  { intros v r Hv. destruct (pop_ipr s v r HP Hv) as (Lr & _). rewrite (mo_jf _ _ HM) by exact Lr.
    apply (st_pop s j HS v r Hv). }
  s0inv H; try exact Old.
  all: try (match goal with inl : option outcome |- _ => destruct inl end).
  all: bsplit; subst.
  all: intros u r0 Hin.
  all: try (unfold log, set_prog in Hin; simpl in Hin; unfold upd in Hin;
    match type of Hin with context[Nat.eqb ?a ?b] => destruct (Nat.eqb a b) eqn:Eu end;
    [apply eqb_t in Eu; subst u; try (apply in_norm in Hin; destruct Hin as [Hin|Hin]; [|discriminate Hin]);
     simpl in Hin; repeat (destruct Hin as [Hin|Hin]; [try discriminate Hin|])
    |]).
  all: try contradiction.
  all: try (match goal with Hq : thr _ ?t = _ :: _ |- _ =>
     first [ apply (Old t); rewrite Hq; right; exact Hin | apply (Old u); exact Hin ] end).
  all: try (apply (Old u); exact Hin).
  - inversion Hin; subst. unfold set_prog. simpl. intros Ej.
    apply next_job_in in Heqo. destruct Heqo as [A _].
    rewrite (st_jobs s _ HS _ A Ej) in Heqb1. discriminate.
  - apply in_app_iff in Hin. destruct Hin as [Hin|Hin]; [exfalso; eapply in_cbs_pop; exact Hin|].
    apply (Old n). rewrite Heql. right. exact Hin.
  - apply in_tl in Hin. apply (Old t). rewrite Heql. right. exact Hin.
  - destruct (dcb s d); simpl in Hin; [destruct Hin as [E|[E|[]]]; discriminate E|destruct Hin].
  - destruct (dcb s d); simpl in Hin; [destruct Hin as [E|[E|[]]]; discriminate E|destruct Hin].
Qed.

Lemma stp_sec_step0 s e s' j : Stp s j -> PI s -> (forall t, posok (thr s t) = true) -> step0 s e = Some s' ->
  forall u i' l' r0, thr s' u = i' :: l' -> (i' = IDoneW r0 \/ i' = IDSubmit r0) -> jf (recs s' r0) <> j.
Proof.
  intros HS HP HPos H. pose proof (MONO_step0 _ _ _ H) as HM.
  assert (Old : forall v i l r, thr s v = i :: l -> (i = IDoneW r \/ i = IDSubmit r) -> jf (recs s' r) <> j).
  { intros v i l r Ev Hi.
    assert (Lr : r < nrec s).
    { pose proof (pi_thr s HP v) as Q. rewrite Ev in Q. inversion Q as [|? ? Qi _]; subst.
      destruct Hi as [-> | ->]; simpl in Qi; tauto. }
    rewrite (mo_jf _ _ HM) by exact Lr. apply (st_sec s j HS v i l r Ev Hi). }
  s0inv H; try exact Old.
  all: try (match goal with inl : option outcome |- _ => destruct inl end).
  all: bsplit; subst.
  all: intros u i' l' r0 E Hi.
  all: try (match goal with Hq : thr _ ?t = _ |- _ =>
      destruct (Nat.eq_dec u t) as [->|Nu];
      [pose proof (HPos t) as Pt; rewrite Hq in Pt; unfold posok in Pt; simpl in Pt
      |apply (Old u i' l' r0); [|exact Hi]; unfold log, set_prog in E; simpl in E; rewrite upd_other in E by exact Nu; exact E] end).
  all: unfold log, set_prog in E; simpl in E; rewrite ?upd_same in E.
  all: try (apply norm_head_nh in E; [|assumption]; destruct Hi as [-> | ->]; discriminate E).
  all: try (inversion E; subst; destruct Hi as [X|X]; discriminate X).
  - inversion E; subst. destruct Hi as [Hi|Hi]; inversion Hi; subst. unfold set_prog. simpl.
    apply (st_pop s j HS t r0). rewrite Heql. left. reflexivity.
  - assert (X : forallb nh (cbs_prog j1 (rcbs s j1) ++ l) = true) by (rewrite forallb_app, nh_cbs; exact Pt).
    apply norm_head_nh in E; [|exact X]. destruct Hi as [-> | ->]; discriminate E.
  - inversion E; subst. destruct Hi as [Hi|Hi]; inversion Hi; subst. unfold set_prog. simpl.
    apply (st_sec s j HS t _ _ r0 Heql). left. reflexivity.
  - simpl in E. apply (nh_norm l true) in Pt. rewrite E in Pt. simpl in Pt. apply andb_true_iff in Pt.
    destruct Pt as [Pt _]. destruct Hi as [-> | ->]; discriminate Pt.
  - destruct (dcb s d); simpl in E; inversion E; subst. destruct Hi as [X|X]; discriminate X.
  - destruct (dcb s d); simpl in E; inversion E; subst. destruct Hi as [X|X]; discriminate X.
Qed.

Lemma Qs_step0 s e s' j : Qs s j -> JCH s -> PI s -> RI s -> (forall t, posok (thr s t) = true) ->
  step0 s e = Some s' -> Qs s' j.
Proof.
  intros [Hj Q] HJ HP HR HPos H. pose proof (MONO_step0 _ _ _ H) as HM.
  split; [pose proof (mo_nfut _ _ HM); lia|].
  destruct (fdone (rs s' j)) eqn:Hd; [left; reflexivity|right].
  destruct Q as [D|S]; [rewrite (mo_rdone _ _ HM j Hj D) in Hd; discriminate|].
  constructor.
  - eapply stp_jobs_step0; eassumption.
  - eapply stp_pop_step0; eassumption.
  - eapply stp_sec_step0; eassumption.
Qed.

Lemma Qs_tick s ts j : Qs s j -> Qs (s <| clock := ts |>) j.
Proof. intros [A [B|[X Y Z]]]; split; auto. right. constructor; assumption. Qed.
