(* Layers, part 9: the synchronous executor.  Since commit 3a8457b (repair of G20) SyncExecutor.submit runs the callable
   after it has released its gate: for the checker the repaired submit is TRANSPARENT -- the callable is checked exactly
   as if the caller had run it itself at the sync layer, with nothing of that layer held.  Before the repair any upward
   call made by the callable was rejected (it was made under the sync gate). *)
From Coq Require Import List Bool Arith Lia.
From ME Require Import Base.Machine Model.Locks Proofs.Locks_Proofs Model.Layers Model.LayerShapes
  Proofs.Layers_Exec Proofs.Layers_Wf Proofs.Layers_Deadlock Proofs.Layers_Seq.
Import ListNotations.

Lemma sect_transparent K above k p : k < K -> wfs K above [] (sect k ++ p) = wfs K above [] p.
Proof.
  intros Hk. apply Nat.ltb_lt in Hk. unfold wfs, sect. cbn [app ofold wf1].
  unfold acq_ok. rewrite Hk. cbn [existsb forallb orb andb]. rewrite Nat.eqb_refl. reflexivity.
Qed.

Theorem sync_repaired_transparent : forall K above callable, 0 < K ->
  wfs K above [] (sync_submit_inline callable) = wfs K above [] callable.
Proof. intros K above callable HK. unfold sync_submit_inline. apply sect_transparent. exact HK. Qed.

Theorem sync_before_fix_rejects_up : forall K above b r,
  wfs K above [] (sync_submit_inline_before_fix (LUp b :: r)) = None.
Proof.
  intros K above b r. unfold wfs, sync_submit_inline_before_fix. cbn [app ofold wf1].
  destruct (acq_ok K [] G); reflexivity.
Qed.

Lemma wf_layers_ups K i c : wf_layers K i c = true -> forall n, wf_layers K (n + i) (ups n c) = true.
Proof.
  intros H n. induction n as [|n IH]; simpl; auto. apply wf_layers_up. exact IH.
Qed.

(* a submission made directly to the repaired synchronous executor at layer n+i, with nothing held, whose callable
   calls n layers up and runs there any program c that is well-formed when entered lock-free *)
Theorem sync_repaired_callable_wf : forall K n i c, 0 < K ->
  wf_layers K i c = true -> wf_layers K (n + i) (sync_submit_inline (ups n c)) = true.
Proof.
  intros K n i c HK Hc. apply wf_layers_iff. rewrite sync_repaired_transparent by exact HK.
  apply wf_layers_iff. apply wf_layers_ups. exact Hc.
Qed.

(* the same as a downward call from the layer just above the synchronous executor *)
Theorem sync_repaired_down_wf : forall K n i c, 0 < K ->
  wf_layers K i c = true -> wf_layers K (n + i) [LDown (sync_submit_inline (ups (S n) c))] = true.
Proof.
  intros K n i c HK Hc. apply wf_layers_down. apply (sync_repaired_callable_wf K (S n) i c HK Hc).
Qed.

(* a call of a thread that starts at layer `start`: well-formed, or a direct submission to the repaired synchronous
   executor (at that layer) of a callable that runs, m layers up, a program well-formed there *)
Definition call_ok (K start : nat) (p : list lp) : Prop :=
  wf_layers K start p = true \/
  exists m i c, start = m + i /\ wf_layers K i c = true /\ p = sync_submit_inline (ups m c).

Theorem sync_repaired_no_deadlock : forall K n start (calls : nat -> list (list lp)), 0 < K ->
  (forall t, Forall (call_ok K (start t)) (calls t)) ->
  (forall t, n <= t -> calls t = []) ->
  forall s, reachable_from step (init_of (fun t => lflat K (seq_thread start calls t))) s ->
  (exists t, prog s t <> []) -> exists t s', step s t = Some s'.
Proof.
  intros K n start calls HK Hok Hn. apply (layers_calls_no_deadlock K n); auto.
  intros t. eapply Forall_impl; [|apply Hok].
  intros p [H|(m & i & c & Es & Hc & Ep)]; [exact H|].
  subst p. rewrite Es. apply sync_repaired_callable_wf; auto.
Qed.
