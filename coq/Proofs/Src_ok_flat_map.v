(* source facts of more_executors/_impl/flat_map.py: what the translator finds now is what the models were written against *)
From Coq Require Import List String.
From ME Require Import Gen.Src_flat_map Model.SrcExpected.
Lemma src_flat_map_ok : Src_flat_map.facts = expected_flat_map.
Proof. reflexivity. Qed.
