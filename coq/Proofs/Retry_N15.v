(* C03 for the Retry machine, part 15: the delegate future of an in-flight record in _jobs is the LATEST delegate
   future of its retry future; hence (with the C06 layer: the final outcome is the last delegate's) a FINISHED future
   has no record at all in _jobs in a quiescent state. *)
From Coq Require Import List ZArith Bool Arith Lia.
From RecordUpdate Require Import RecordSet.
From ME Require Import Base.Machine Base.Fut Base.GenPrelude Gen.RetryGen Model.Retry Proofs.Retry_Spec.
From ME Require Proofs.Retry_InvA.
From ME Require Proofs.Retry_InvB0 Proofs.Retry_InvB1 Proofs.Retry_InvB2 Proofs.Retry_InvB3 Proofs.Retry_InvB4
  Proofs.Retry_InvB7 Proofs.Retry_InvB8 Proofs.Retry_InvB.
From ME Require Import Proofs.Retry_C0 Proofs.Retry_C1 Proofs.Retry_C2 Proofs.Retry_C3 Proofs.Retry_C4 Proofs.Retry_C5 Proofs.Retry_C6
  Proofs.Retry_C7 Proofs.Retry_C8 Proofs.Retry_C9 Proofs.Retry_C10 Proofs.Retry_C11 Proofs.Retry_C12 Proofs.Retry_C13
  Proofs.Retry_N0 Proofs.Retry_N1 Proofs.Retry_N5 Proofs.Retry_N9 Proofs.Retry_N12.
Import ListNotations RecordSetNotations.

Definition MX (s : st) : Prop := forall r d, In r (jobs s) -> jdel (recs s r) = Some d ->
  forall d', d' < ndel s -> dfor s d' = dfor s d -> d' <= d.

(* a new delegate future comes from the worker's delegate.submit for a record it holds *)
Lemma new_del s e s' : step0 s e = Some s' -> ndel s' = S (ndel s) ->
  exists t r0 l, thr s t = IDSubmit r0 :: l /\ dfor s' (ndel s) = jf (recs s r0).
Proof.
  intros H. s0inv H; try (intros X; exfalso; lia).
  all: try (match goal with inl : option outcome |- _ => destruct inl end).
  all: bsplit; subst.
  all: unfold log, set_prog; simpl; try (intros X; exfalso; lia).
  all: intros _; exists t, r, l; rewrite upd_same; auto.
Qed.

(* a record enters _jobs with a delegate future: it is the new one *)
Lemma new_inflight_del s e s' d : step0 s e = Some s' -> In (nrec s) (jobs s') -> nrec s' = S (nrec s) ->
  jdel (recs s' (nrec s)) = Some d -> d = ndel s /\ ndel s' = S (ndel s).
Proof.
  intros H. s0inv H; try lia.
  all: try (match goal with inl : option outcome |- _ => destruct inl end).
  all: bsplit; subst.
  all: unfold log, set_prog; simpl; try lia.
  all: intros _ _; rewrite upd_same; simpl; intros E; try discriminate E; inversion E; subst; auto.
Qed.

Lemma MX_step0 s e s' : MX s -> PI s -> RI s -> secx s -> HI s -> step0 s e = Some s' -> MX s'.
Proof.
  intros HX HP HR HS HH H r d Hin Hjd d' Hd' E.
  pose proof (MONO_step0 _ _ _ H) as HM.
  destruct (Retry_InvA.step_ext _ _ _ H) as (_ & _ & _ & _ & Ej & _ & _ & Hnd & _).
  destruct (Ej r Hin) as [Hin0|[-> En]].
  - assert (Hr : r < nrec s) by (apply (ri_jobs s HR); exact Hin0).
    rewrite (mo_jdel _ _ HM) in Hjd by exact Hr.
    destruct (pi_del s HP r d Hr Hjd) as [Hd Ef].
    rewrite (mo_dfor _ _ HM d Hd) in E.
    destruct (lt_dec d' (ndel s)) as [L|L].
    + rewrite (mo_dfor _ _ HM d' L) in E. exact (HX r d Hin0 Hjd d' L E).
    + exfalso. assert (d' = ndel s) by lia. subst d'. assert (En : ndel s' = S (ndel s)) by lia.
      destruct (new_del s e s' H En) as (t & r0 & l & Et & Ed). rewrite Ed in E.
      pose proof (HH _ _ _ Et) as Hh. simpl in Hh. destruct Hh as [_ Hn].
      apply (HS t _ _ r0 Et (or_intror eq_refl) Hn r Hin0). congruence.
  - destruct (new_inflight_del s e s' d H Hin En Hjd) as [-> En']. lia.
Qed.

Lemma MX_reach s : reachable_from step init s -> MX s.
Proof.
  apply (invariant_rule_r step MX).
  - intros r d H. destruct H.
  - intros s0 e s' R IH H. apply step_split in H. destruct H as (s1 & Ht & H).
    apply tick_eq in Ht. subst s1. eapply MX_step0; [ | | | | |exact H].
    + exact IH.
    + apply PI_tick, PI_reach, R.
    + apply RI_tick, RI_reach, R.
    + exact (proj2 (JU_reach s0 R)).
    + apply HI_tick, HI_reach, R.
Qed.

(* (c) for finished futures, in any reachable state: a record of a FINISHED future that is still in _jobs is in flight
   on the delegate future whose outcome the retry future got (the finalising thread pops it next) *)
Lemma retry_finished_job_is_last s : reachable_from step init s -> forall r, In r (jobs s) ->
  rs s (jf (recs s r)) = Finished -> exists d, jdel (recs s r) = Some d /\ ds s d = Finished.
Proof.
  intros R r Hin Hf.
  destruct (jdel (recs s r)) as [d|] eqn:Ed; [|exfalso; exact (retry_finished_no_idle_job s R _ Hf r Hin eq_refl Ed)].
  exists d. split; [reflexivity|].
  pose proof (PI_reach s R) as HP.
  assert (Hr : r < nrec s) by (apply (ri_jobs s (RI_reach s R)); exact Hin).
  destruct (pi_del s HP r d Hr Ed) as [Hd Ef].
  destruct (Retry_InvB.invAll_reach s R) as (_ & _ & IC & _ & _ & IE & IF).
  destruct (Retry_InvB1.retry_finished_has_final s R _ Hf) as (o & ts & Hh & _).
  destruct (Retry_InvB8.f_hist _ IF _ o ts Hh) as (d0 & (F1 & F2 & F3 & F4 & F5) & _).
  assert (L : d0 <= d) by (apply (MX_reach s R r d Hin Ed d0 F1); congruence).
  destruct (Nat.eq_dec d0 d) as [->|N]; [exact F4|exfalso].
  assert (L' : d0 < d) by lia.
  pose proof (Retry_InvB7.e_ord _ IE d0 d L' Hd (eq_trans F2 (eq_sym Ef))) as O.
  pose proof (F5 d Hd Ef). lia.
Qed.

(* ... hence in a quiescent state a FINISHED future has no record in _jobs at all *)
Lemma retry_finished_has_no_job s tau since : reachable_from step init s -> quiescent s tau since ->
  forall r, In r (jobs s) -> rs s (jf (recs s r)) <> Finished.
Proof.
  intros R Q r Hin Hf. destruct (retry_finished_job_is_last s R r Hin Hf) as (d & Ed & Fd).
  destruct (retry_inflight_at_quiescence s tau since R Q r d Hin Ed) as (_ & [(A & _ & B)|(A & _)]).
  - rewrite Hf in B. discriminate.
  - rewrite Fd in A. discriminate.
Qed.

(* what a done future can still own at quiescence: only a CANCELLED future can own anything -- an idle record, or an
   in-flight record whose delegate future somebody else cancelled *)
Lemma retry_done_job_residue2 s tau since : reachable_from step init s -> quiescent s tau since ->
  forall r, In r (jobs s) -> fdone (rs s (jf (recs s r))) = true ->
  fcancelled (rs s (jf (recs s r))) = true /\
  (jdel (recs s r) = None \/ exists d, jdel (recs s r) = Some d /\ fcancelled (ds s d) = true /\ envc s d).
Proof.
  intros R Q r Hin Hdn.
  assert (C : fcancelled (rs s (jf (recs s r))) = true).
  { pose proof (retry_finished_has_no_job s tau since R Q r Hin) as NF.
    destruct (rs s (jf (recs s r))); try discriminate Hdn; try reflexivity. exfalso. apply NF. reflexivity. }
  split; [exact C|].
  destruct (retry_done_job_residue s tau since R Q r Hin Hdn) as [(A & _)|B]; [left; exact A|right; exact B].
Qed.
