(* C06 / Throttle: cancel() == True means the work never starts (part 2: the events of the cancel protocol,
   reachability, the theorem). *)
From Coq Require Import ZArith List Bool Arith Lia.
From RecordUpdate Require Import RecordSet.
From ME Require Import Base.Machine Base.Fut Base.GenPrelude Gen.ThrottleGen Model.Throttle
  Proofs.Throttle_Spec Proofs.Throttle_Inv Proofs.Throttle_Fifo Proofs.Throttle_Tok Proofs.Throttle_TokA Proofs.Throttle_TokB
  Proofs.Throttle_U4 Proofs.Throttle_U5.
Import ListNotations RecordSetNotations.

Ltac old_prog IR Et Hi Hr :=
  let Hf := fresh "Hf" in
  match type of Et with thr ?s ?t = _ :: _ =>
    pose proof (r_prog _ IR t) as Hf; rewrite Et in Hf; inversion Hf as [|? ? Hi Hr]; subst; clear Hf end.

Lemma do_new_invR s b dy v s' : InvR s -> do_new s b dy v = Some s' -> InvR s'.
Proof.
  intros IR Hx. unfold do_new in Hx. brk Hx. inv_some Hx.
  apply (invR_step s _ H [IHStart] IR); try (intros; left; assumption).
  - unfold grows; simpl; auto 6.
  - intros u. reflexivity.
  - intros u _. reflexivity.
  - repeat constructor.
Qed.

Lemma do_call_cancel_invR s t j s' : InvR s -> do_call_cancel s t j = Some s' -> InvR s'.
Proof.
  intros IR Hx. unfold do_call_cancel in Hx. brk Hx. inv_some Hx.
  apply (invR_step s _ t (norm s [IAcqM j; ICancelled j]) IR); try (intros; left; assumption).
  - unfold grows; simpl; auto 6.
  - intros u. reflexivity.
  - intros u Hu. simpl. apply upd_other. exact Hu.
  - simpl. rewrite upd_same. constructor; [exact Logic.I|]. constructor; [|constructor].
    intros j' Hj. inversion Hj. reflexivity.
Qed.

Lemma do_ret_invR s t c s' : InvR s -> do_ret s t c = Some s' -> InvR s'.
Proof.
  intros IR Hx. unfold do_ret in Hx. brk Hx; inv_some Hx; try solve [rfin IR s].
  (* cancel() returns b *)
  match goal with E : thr s t = _ |- _ => rename E into Et end.
  match goal with E : cancelling s t = Some _ |- _ => rename E into Ec end.
  old_prog IR Et Hi Hr.
  match goal with |- InvR (log (set_prog ?s1 t ?p) ?h) => apply (invR_step s _ t (norm s1 p) IR) end;
    try (intros; left; assumption).
  - unfold grows. simpl. auto 6.
  - intros u. reflexivity.
  - intros u Hu. simpl. apply upd_other. exact Hu.
  - simpl. rewrite upd_same. apply forall_norm. eapply Forall_impl; [|exact Hr]. intros i. apply iok_none.
  - intros j Hj. simpl in Hj. destruct b; [|left; exact Hj]. destruct Hj as [<-|Hj]; [|left; exact Hj].
    right. simpl in Hi. exact (Hi _ Ec).
Qed.

Lemma do_xsec_invR s t s' : InvR s -> do_xsec s t = Some s' -> InvR s'.
Proof.
  intros IR Hx. unfold do_xsec in Hx. brk Hx; inv_some Hx.
  - (* enqueue: a fresh throttle future *)
    match goal with E : thr s t = _ |- _ => rename E into Et end. old_prog IR Et Hi Hr.
    match goal with |- InvR (log (set_prog ?s1 t ?p) ?h) => apply (invR_step s _ t (norm s1 p) IR) end.
    + unfold grows. simpl. auto 6.
    + intros u. reflexivity.
    + intros u _. reflexivity.
    + apply forall_norm. exact Hr.
    + intros j Hj. left. exact Hj.
    + intros j Hj. simpl in Hj. unfold upd in Hj. destruct (Nat.eqb j (nfut s)); [discriminate|left; exact Hj].
    + intros j d Hj. simpl in Hj. unfold upd in Hj. destruct (Nat.eqb j (nfut s)); [discriminate|left; exact Hj].
  - (* cancel of a queued submission: removed, going to return True *)
    match goal with E : thr s t = _ |- _ => rename E into Et end. old_prog IR Et Hi Hr. simpl in Hi.
    match goal with |- InvR (log (set_prog ?s1 t ?p) ?h) => apply (invR_step s _ t (norm s1 p) IR) end;
      try (intros; left; assumption).
    + unfold grows. simpl. split; [intros j0 Hj; apply in_or_app; left; exact Hj|auto 6].
    + intros u. reflexivity.
    + intros u _. reflexivity.
    + assert (Hj : just (log (set_prog (s <| qu := remove_id j (qu s) |>) t
                    (IFCancel j :: IFSrnc j :: IRelMCbs j :: IRetB true :: l)) (HCancelQ j (clock s))) j).
      { left. simpl. apply in_or_app. right. left. reflexivity. }
      simpl cancelling. unfold norm.
      constructor; [exact Hj|]. constructor; [exact Logic.I|]. constructor; [exact Logic.I|].
      constructor; [intros j' Hc; rewrite (Hi j' Hc); exact Hj|].
      eapply Forall_impl; [|exact Hr]. intros i. apply iok_grows. unfold grows. simpl.
      split; [intros j0 Hj0; apply in_or_app; left; exact Hj0|auto 6].
  - rfin IR s.
Qed.

Lemma do_acq_m_invR s t j s' : InvR s -> do_acq_m s t j = Some s' -> InvR s'.
Proof.
  intros IR Hx. unfold do_acq_m in Hx. brk Hx; inv_some Hx; try solve [rfin IR s].
  match goal with E : thr s t = _ |- _ => rename E into Et end. old_prog IR Et Hi Hr.
  match goal with E : Nat.eqb j _ = true |- _ => apply Nat.eqb_eq in E; subst end.
  match goal with |- InvR (set_prog ?s1 t ?p) => apply (invR_step s _ t (norm s1 p) IR) end; try (intros; left; assumption).
  - unfold grows; simpl; auto 6.
  - intros u. reflexivity.
  - intros u _. reflexivity.
  - apply forall_norm. exact Hr.
  - intros j d Hj. simpl in Hj. unfold upd in Hj. destruct (Nat.eqb j j0) eqn:E; [|left; exact Hj].
    apply Nat.eqb_eq in E. subst. right. simpl in Hi. exact Hi.
Qed.

Lemma do_fm_invR s t op j p s' : InvR s -> do_fm s t op j p = Some s' -> InvR s'.
Proof.
  intros IR Hx. unfold do_fm in Hx.
  destruct (negb (fstate_eqb p (ms s j))) eqn:Ep; [discriminate|]. apply negb_false_iff, fstate_eqb_eq in Ep.
  destruct (thr s t) as [|i rest] eqn:Et; [discriminate|]. old_prog IR Et Hi Hr.
  destruct i; try discriminate; brk Hx; inv_some Hx;
    repeat match goal with E : negb (Nat.eqb _ _) = false |- _ => apply negb_false_iff, Nat.eqb_eq in E; subst
                         | E : _ || _ = false |- _ => apply orb_false_elim in E; destruct E end;
    simpl in Hi.
  all: try solve [ apply (invR_set s); try reflexivity; try exact IR;
                   repeat (first [ apply forall_pre; [apply triv_setres|] | constructor; [exact Logic.I|] ]);
                   first [ exact Hr | inversion Hr; subst; assumption ] ].
  - (* IFSet: outcome set *)
    apply invR_log; [|exact Logic.I].
    match goal with |- InvR (set_prog ?s1 t ?p) => apply (invR_step s _ t (norm s1 p) IR) end; try (intros; left; assumption).
    + unfold grows; simpl; auto 6.
    + intros u. reflexivity.
    + intros u _. reflexivity.
    + apply forall_norm. exact Hr.
    + intros j Hj. simpl in Hj. unfold upd in Hj. destruct (Nat.eqb j j0) eqn:E; [|left; exact Hj].
      destruct (ms s j0); simpl in *; try discriminate; match goal with E2 : Some _ = Some _ |- _ => inversion E2; subst; discriminate end.
  - (* ICancelled, already cancelled: going to return True *)
    apply (invR_set s); try reflexivity; try exact IR.
    constructor; [exact Logic.I|]. constructor; [|exact Hr].
    intros j' Hc. rewrite (Hi j' Hc). apply (r_ms _ IR). assumption.
  - (* ICancelled, not cancelled *)
    apply (invR_set s); try reflexivity; try exact IR. constructor; [exact Hi|exact Hr].
  - (* IDoneC: forwarded to the delegate future *)
    apply (invR_set s); try reflexivity; try exact IR. constructor; [|exact Hr].
    split; [exact Hi|]. apply (r_mdel _ IR). assumption.
  - (* IDoneC: still with the executor *)
    apply (invR_set s); try reflexivity; try exact IR. constructor; [exact Hi|exact Hr].
  - (* IFCancel: the throttle future becomes cancelled *)
    apply invR_log; [|exact Logic.I].
    match goal with |- InvR (set_prog ?s1 t ?p) => apply (invR_step s _ t (norm s1 p) IR) end; try (intros; left; assumption).
    + unfold grows; simpl; auto 6.
    + intros u. reflexivity.
    + intros u _. reflexivity.
    + apply forall_norm. exact Hr.
    + intros j Hj. simpl in Hj. unfold upd in Hj. destruct (Nat.eqb j j0) eqn:E; [|left; exact Hj].
      apply Nat.eqb_eq in E. subst. right. exact Hi.
  - (* IFSrnc *)
    match goal with |- InvR (set_prog ?s1 t ?p) => apply (invR_step s _ t (norm s1 p) IR) end; try (intros; left; assumption).
    + unfold grows; simpl; auto 6.
    + intros u. reflexivity.
    + intros u _. reflexivity.
    + apply forall_norm. exact Hr.
    + intros j Hj. simpl in Hj. unfold upd in Hj. destruct (Nat.eqb j j0) eqn:E; [|left; exact Hj].
      apply Nat.eqb_eq in E. subst. left.
      destruct (ms s j0); simpl in *; try discriminate; try reflexivity;
        match goal with E2 : Some _ = Some _ |- _ => inversion E2; subst; discriminate end.
Qed.

Lemma clear_del_mdel l : forall s j d, mdel (clear_del s l) j = Some d -> mdel s j = Some d.
Proof.
  unfold clear_del. induction l as [|c l IH]; intros s j d; simpl; [auto|]. intros Hx. apply IH in Hx.
  destruct c; [exact Hx|]. simpl in Hx. unfold upd in Hx. destruct (Nat.eqb j j0); [discriminate|exact Hx].
Qed.
Lemma clear_del_rframe l : forall s,
  thr (clear_del s l) = thr s /\ hist (clear_del s l) = hist s /\ ndel (clear_del s l) = ndel s /\
  dfor (clear_del s l) = dfor s /\ ds (clear_del s l) = ds s /\ ms (clear_del s l) = ms s /\
  cancelling (clear_del s l) = cancelling s.
Proof.
  unfold clear_del. induction l as [|c l IH]; intros s; simpl; [auto 8|].
  destruct (IH (match c with CbDone => s | CbRes j => s <| mdel := upd (mdel s) j None |> end)) as [A [B [C [D [E [F G]]]]]].
  rewrite A, B, C, D, E, F, G. destruct c; simpl; auto 8.
Qed.

Lemma grows_ds s d n : (fcancelled (ds s d) = true -> fcancelled n = true) ->
  grows s (s <| ds := upd (ds s) d n |>).
Proof.
  intros Hn. unfold grows. simpl. split; [auto|]. split; [lia|]. split; [auto|].
  intros d0 _ Hc. unfold upd. destruct (Nat.eqb d0 d) eqn:E; [apply Nat.eqb_eq in E; subst; auto|exact Hc].
Qed.

Lemma do_fd_invR s t op d p s' : InvR s -> do_fd s t op d p = Some s' -> InvR s'.
Proof.
  intros IR Hx. unfold do_fd in Hx.
  destruct (negb (fstate_eqb p (ds s d))) eqn:Ep; [discriminate|]. apply negb_false_iff, fstate_eqb_eq in Ep.
  destruct (thr s t) as [|i rest] eqn:Et; [discriminate|]. old_prog IR Et Hi Hr.
  destruct i; try discriminate.
  - brk Hx; inv_some Hx; apply (invR_set s); try reflexivity; try exact IR;
      repeat (constructor; [exact Logic.I|]); exact Hr.
  - brk Hx; inv_some Hx; apply (invR_set s); try reflexivity; try exact IR;
      repeat (constructor; [exact Logic.I|]); exact Hr.
  - brk Hx; inv_some Hx; apply (invR_set s); try reflexivity; try exact IR;
      repeat (first [ apply forall_pre; [apply triv_setres|] | constructor; [exact Logic.I|] ]); exact Hr.
  - (* delegate.cancel() *)
    destruct op as [|[|[|op]]]; try discriminate.
    destruct (negb (Nat.eqb d d0)) eqn:Ed; [discriminate|]. apply negb_false_iff, Nat.eqb_eq in Ed. subst d0.
    simpl in Hi. destruct Hi as [Hc [Hlt Hdf]]. subst j.
    assert (Ef : f_cancel (ds s d) = (fst (f_cancel (ds s d)), snd (f_cancel (ds s d)))) by (destruct (f_cancel (ds s d)); reflexivity).
    rewrite Ef in Hx.
    assert (Hst : fcancelled (ds s d) = true -> fcancelled (fst (f_cancel (ds s d))) = true)
      by (destruct (ds s d); simpl; auto).
    pose proof (grows_ds s d _ Hst) as G.
    destruct (snd (f_cancel (ds s d))) eqn:Eb.
    + (* True: the delegate future is cancelled *)
      assert (Hcd : fcancelled (fst (f_cancel (ds s d))) = true) by (apply f_cancel_true_cancelled; exact Eb).
      assert (Hj : forall s2, ndel s2 = ndel s -> dfor s2 = dfor s -> ds s2 = upd (ds s) d (fst (f_cancel (ds s d))) -> just s2 (dfor s d)).
      { intros s2 E1 E2 E3. right. exists d. rewrite E1, E2, E3, upd_same. auto. }
      destruct (f_cancel_fires (ds s d)) eqn:Ec; inv_some Hx.
      * match goal with |- context [clear_del ?x ?l] => destruct (clear_del_rframe l x) as [A [B [C [D [E [F G2]]]]]] end.
        match goal with |- InvR (log (set_prog ?s1 t ?pp) ?h) => apply (invR_step s _ t (norm s1 pp) IR) end.
        -- unfold grows in *. simpl. rewrite B, C, D, E. simpl. exact G.
        -- intros u. simpl. rewrite A. reflexivity.
        -- intros u _. simpl. rewrite G2. reflexivity.
        -- apply forall_norm. apply forall_pre; [apply triv_cb_prog_held|].
           match goal with |- Forall (iok ?s2 ?c) _ =>
             assert (Hj2 : just s2 (dfor s d)) by (apply Hj; simpl; rewrite ?C, ?D, ?E; reflexivity);
             assert (Ec2 : c = cancelling s t) by (simpl; rewrite G2; reflexivity) end.
           rewrite Ec2.
           constructor; [exact Hj2|]. constructor; [exact Logic.I|]. constructor; [exact Logic.I|].
           constructor; [intros j' Hc'; rewrite (Hc j' Hc'); exact Hj2|].
           eapply Forall_impl; [|exact Hr]. intros i. apply iok_grows.
           unfold grows in *. simpl. rewrite B, C, D, E. simpl. exact G.
        -- intros j0 Hj0. left. simpl in Hj0. rewrite B in Hj0. exact Hj0.
        -- intros j0 Hj0. left. simpl in Hj0. rewrite F in Hj0. exact Hj0.
        -- intros j0 d1 Hm. left. simpl in Hm. apply clear_del_mdel in Hm. exact Hm.
      * match goal with |- InvR (set_prog ?s1 t ?pp) => apply (invR_step s _ t (norm s1 pp) IR) end; try (intros; left; assumption).
        -- exact G.
        -- intros u. reflexivity.
        -- intros u _. reflexivity.
        -- apply forall_norm.
           match goal with |- Forall (iok ?s2 ?c) _ => assert (Hj2 : just s2 (dfor s d)) by (apply Hj; reflexivity) end.
           constructor; [exact Hj2|]. constructor; [exact Logic.I|]. constructor; [exact Logic.I|].
           constructor; [intros j' Hc'; rewrite (Hc j' Hc'); exact Hj2|].
           eapply Forall_impl; [|exact Hr]. intros i. apply iok_grows. exact G.
    + inv_some Hx.
      match goal with |- InvR (set_prog ?s1 t ?pp) => apply (invR_step s _ t (norm s1 pp) IR) end; try (intros; left; assumption).
      * exact G.
      * intros u. reflexivity.
      * intros u _. reflexivity.
      * apply forall_norm. constructor; [exact Logic.I|]. constructor; [exact Logic.I|].
        eapply Forall_impl; [|exact Hr]. intros i. apply iok_grows. exact G.
Qed.

Lemma do_dsubmit_invR s t d i s' : InvR s -> do_dsubmit s t d i = Some s' -> InvR s'.
Proof.
  intros IR Hx. unfold do_dsubmit in Hx.
  destruct (thr s t) as [|i0 rest] eqn:Et; [discriminate|]. old_prog IR Et Hi Hr. destruct i0; try discriminate.
  destruct (negb (Nat.eqb d (ndel s)) || negb (Nat.eqb t H) || owned (xown s) t) eqn:Eg; [discriminate|].
  apply orb_false_elim in Eg. destruct Eg as [Eg Eo]. apply orb_false_elim in Eg. destruct Eg as [Ed Eh].
  apply negb_false_iff, Nat.eqb_eq in Ed. subst d. inv_some Hx.
  set (p' := IAddCb1 (ndel s) :: IAcqMSet j (Some (ndel s)) :: IRelM j :: IAddCb2 (ndel s) j :: rest).
  assert (G : forall s2, cancq (hist s2) = cancq (hist s) ->
              ndel s2 = S (ndel s) -> dfor s2 = upd (dfor s) (ndel s) j -> (exists x, ds s2 = upd (ds s) (ndel s) x) ->
              grows s s2).
  { intros s2 Eh2 E2 E3 [x E4]. unfold grows. rewrite Eh2, E2, E3, E4. split; [auto|].
    split; [lia|]. split; intros d0 Hd0; [|intros Hc]; rewrite upd_other by lia; auto. }
  assert (K : forall s2, grows s s2 -> ndel s2 = S (ndel s) -> dfor s2 = upd (dfor s) (ndel s) j ->
              (forall u, thr s2 u = upd (thr s) t p' u) -> cancelling s2 = cancelling s -> ms s2 = ms s -> mdel s2 = mdel s ->
              rets (hist s2) = rets (hist s) -> InvR s2).
  { intros s2 G2 E2 E3 Hthr E5 E6 E7 E8. apply (invR_step s s2 t p' IR G2 Hthr).
    - intros u _. rewrite E5. reflexivity.
    - unfold p'. rewrite E5. constructor; [exact Logic.I|]. constructor.
      + simpl. rewrite E2, E3, upd_same. split; [lia|reflexivity].
      + constructor; [exact Logic.I|]. constructor; [exact Logic.I|].
        eapply Forall_impl; [|exact Hr]. intros i0. apply iok_grows. exact G2.
    - intros j0 Hj0. left. rewrite E8 in Hj0. exact Hj0.
    - intros j0 Hj0. left. rewrite E6 in Hj0. exact Hj0.
    - intros j0 d0 Hm. left. rewrite E7 in Hm. exact Hm. }
  destruct (issome i); apply K; try reflexivity; apply G; try reflexivity; simpl; eauto.
Qed.

Lemma do_env_run_invR s t d p s' : InvR s -> do_env_run s t d p = Some s' -> InvR s'.
Proof.
  intros IR Hx. unfold do_env_run in Hx. brk Hx; inv_some Hx; auto. split_and.
  match goal with E : fstate_eqb _ _ = true |- _ => apply fstate_eqb_eq in E; rename E into Ep end.
  assert (G : grows s (s <| ds := upd (ds s) d f |>)).
  { apply grows_ds. subst p. destruct (ds s d); simpl in *; try discriminate;
      match goal with E2 : Some _ = Some _ |- _ => inversion E2; subst; auto end. }
  apply (invR_step s _ t (thr s t) IR); try (intros; left; assumption).
  - exact G.
  - intros u. simpl. apply upd_eta.
  - intros u _. reflexivity.
  - eapply Forall_impl; [|apply (r_prog _ IR t)]. intros i0. apply iok_grows. exact G.
Qed.

Lemma do_env_finish_invR s t d p o s' : InvR s -> do_env_finish s t d p o = Some s' -> InvR s'.
Proof.
  intros IR Hx. unfold do_env_finish in Hx. brk Hx; inv_some Hx; auto. split_and.
  match goal with E : fstate_eqb _ _ = true |- _ => apply fstate_eqb_eq in E; rename E into Ep end.
  assert (G : grows s (s <| ds := upd (ds s) d f |>)).
  { apply grows_ds. subst p. destruct (ds s d); simpl in *; try discriminate; auto. }
  match goal with |- InvR (log (set_prog ?s1 t ?pp) ?h) => apply (invR_step s _ t (norm s1 pp) IR) end; try (intros; left; assumption).
  - exact G.
  - intros u. reflexivity.
  - intros u _. reflexivity.
  - apply forall_norm. apply forall_triv. apply triv_cb_prog.
Qed.

(* ---- reachability, the theorem -------------------------------------------------------------------------- *)
Lemma step0_invR s e s' : InvR s -> step0 s e = Some s' -> InvR s'.
Proof.
  intros IR Hx. destruct e; cbn [step0] in Hx;
  [ eapply do_new_invR | eapply do_hstart_invR | eapply do_exit_invR | eapply do_call_submit_invR
  | eapply do_call_cancel_invR | eapply do_call_shutdown_invR | eapply do_ret_invR | eapply do_acq_g_invR
  | eapply do_rel_g_invR | eapply do_count_invR | eapply do_xsec_invR | eapply do_xacq_invR
  | eapply do_relx_invR | eapply do_rcread_invR | eapply do_pop_invR | eapply do_acq_a_invR
  | eapply do_rel_a_invR | eapply do_evset_invR | eapply do_wait_invR | eapply do_woke_invR | eapply do_clear_invR
  | eapply do_dsubmit_invR | eapply do_dshutdown_invR | eapply do_acq_m_invR | eapply do_rel_m_invR
  | eapply do_fm_invR | eapply do_fd_invR | eapply do_env_run_invR | eapply do_env_finish_invR ]; eassumption.
Qed.

Lemma invR_init : InvR init.
Proof. constructor; simpl; try (intros; discriminate); try (intros j []). intros t. constructor. Qed.

Theorem invR_reachable s : reachable_from step init s -> InvR s.
Proof.
  apply invariant_rule; [exact invR_init|].
  intros s0 [ts e] s' IR Hx. unfold step in Hx. simpl in Hx. unfold tick in Hx.
  destruct (Z.leb (clock s0) ts); [|discriminate]. eapply step0_invR; [|exact Hx].
  destruct IR as [R1 R2 R3 R4]. constructor; auto.
Qed.

(* cancel() returned True for submission j: j was removed from the queue (hence never handed over,
   cancel_queued_never_handed_over_lemma), or the delegate future created for j is cancelled *)
Theorem cancel_true_lemma s : reachable_from step init s -> forall j ts, In (HCancelRet j true ts) (hist s) ->
  In j (cancq (hist s)) \/ exists d, (d < ndel s)%nat /\ dfor s d = j /\ fcancelled (ds s d) = true.
Proof. intros Hr j ts Hin. apply (r_ret _ (invR_reachable s Hr)). eapply in_hcancelret_rets; eauto. Qed.

(* a cancelled throttle future: same justification *)
Theorem throttle_future_cancelled_lemma s : reachable_from step init s -> forall j, fcancelled (ms s j) = true ->
  In j (cancq (hist s)) \/ exists d, (d < ndel s)%nat /\ dfor s d = j /\ fcancelled (ds s d) = true.
Proof. intros Hr j Hc. exact (r_ms _ (invR_reachable s Hr) j Hc). Qed.
