(* Chain model: first-shutdown-wins along the chain.  A winning shutdown(k) puts exactly one token
   ICallSd (k-1) into the winner's program; consuming it is the one call layer k ever makes to its
   delegate's shutdown. *)
From Coq Require Import List Arith Bool Lia PeanoNat.
From ME Require Import Base.Machine Model.Chain Proofs.Chain_Base.
Import ListNotations.

Definition is_win (k : nat) (h : hev) : bool := match h with HWin _ j _ _ => Nat.eqb j k | _ => false end.
Definition is_down (k : nat) (h : hev) : bool := match h with HDown _ j _ _ => Nat.eqb j k | _ => false end.
Fixpoint cnt (f : hev -> bool) (l : list hev) : nat :=
  match l with [] => 0 | h :: r => (if f h then 1 else 0) + cnt f r end.
Definition is_tok (j : nat) (i : instr) : bool := match i with ICallSd j' _ _ => Nat.eqb j' j | _ => false end.
Fixpoint tokd (j : nat) (p : list instr) : nat :=
  match p with [] => 0 | i :: r => (if is_tok j i then 1 else 0) + tokd j r end.

Lemma tokd_app j a b : tokd j (a ++ b) = tokd j a + tokd j b.
Proof. induction a as [|i a IH]; simpl; [reflexivity|]. rewrite IH. lia. Qed.
Lemma tokd_unwind j p : tokd j (unwind p) = tokd j p.
Proof. destruct p as [|i [|i' r]]; simpl; try reflexivity; destruct i; try reflexivity; destruct i'; reflexivity. Qed.
Lemma tokd_start_sub j k : tokd j (start_sub k) = 0.
Proof. destruct k; reflexivity. Qed.
Lemma tokd_start_sd j k w kw : tokd j (start_sd k w kw) = 0.
Proof. destruct k; reflexivity. Qed.
Lemma tokd_sub_body c j k : tokd j (sub_body c k) = 0.
Proof. unfold sub_body. destruct (inline_submit (kindof c k)); reflexivity. Qed.
Lemma tokd_sd_body c j k w kw : tokd j (sd_body c k w kw) = if Nat.eqb (k - 1) j then 1 else 0.
Proof. unfold sd_body. simpl. destruct (Nat.eqb (k - 1) j); reflexivity. Qed.

Record AInv (s : st) : Prop := {
  a_flag0 : flag s 0 = false;
  a_f0 : forall k, flag s k = false -> cnt (is_win k) (hist s) = 0 /\ cnt (is_down k) (hist s) = 0;
  a_f0t : forall j t, flag s (S j) = false -> tokd j (prog s t) = 0;
  a_f1 : forall k, flag s k = true -> cnt (is_win k) (hist s) = 1;
  a_le : forall j t, tokd j (prog s t) <= 1;
  a_uniq : forall j t u, 0 < tokd j (prog s t) -> 0 < tokd j (prog s u) -> t = u;
  a_pend : forall j t, 0 < tokd j (prog s t) -> cnt (is_down (S j)) (hist s) = 0;
  a_dle : forall k, cnt (is_down k) (hist s) <= 1
}.

Lemma ainv_init : AInv init.
Proof. constructor; simpl; intros; auto; try lia; discriminate. Qed.

(* a step of thread t that keeps flags, token counts and the win/down counts *)
Lemma ainv_same s s' t p' : AInv s -> (forall k, flag s' k = flag s k) ->
  (forall u, prog s' u = upd (prog s) t p' u) -> (forall j, tokd j p' = tokd j (prog s t)) ->
  (forall k, cnt (is_win k) (hist s') = cnt (is_win k) (hist s)) ->
  (forall k, cnt (is_down k) (hist s') = cnt (is_down k) (hist s)) -> AInv s'.
Proof.
  intros [A0 A1 A2 A3 A4 A5 A6 A7] Ef Ep Ht Ew Ed.
  assert (Tk : forall j u, tokd j (prog s' u) = tokd j (prog s u)).
  { intros j u. rewrite Ep. unfold upd. destruct (Nat.eqb u t) eqn:E; [|reflexivity].
    apply Nat.eqb_eq in E; subst. apply Ht. }
  constructor.
  - rewrite Ef; exact A0.
  - intros k. rewrite Ef, Ew, Ed. apply A1.
  - intros j u. rewrite Ef, Tk. apply A2.
  - intros k. rewrite Ef, Ew. apply A3.
  - intros j u. rewrite Tk. apply A4.
  - intros j u v. rewrite !Tk. apply A5.
  - intros j u. rewrite Tk, Ed. apply A6.
  - intros k. rewrite Ed. apply A7.
Qed.

Ltac eqb_case a b E := destruct (Nat.eqb a b) eqn:E; [apply Nat.eqb_eq in E|apply Nat.eqb_neq in E].

Lemma ainv_win c s s' t k w kw r : AInv s -> flag s k = false -> 0 < k -> prog s t = IAcqSd k w kw :: r ->
  (forall k0, flag s' k0 = upd (flag s) k true k0) ->
  (forall u, prog s' u = upd (prog s) t (sd_body c k w kw ++ r) u) ->
  hist s' = HWin t k w kw :: hist s -> AInv s'.
Proof.
  intros [A0 A1 A2 A3 A4 A5 A6 A7] F K P Ef Ep Eh.
  destruct k as [|j]; [lia|]. clear K.
  assert (Z : forall u, tokd j (prog s u) = 0) by (intros u; apply A2; exact F).
  assert (Tt : forall j0, tokd j0 (prog s' t) = (if Nat.eqb j j0 then 1 else 0) + tokd j0 (prog s t)).
  { intros j0. rewrite Ep, upd_same, tokd_app, tokd_sd_body, P. simpl. rewrite Nat.sub_0_r. reflexivity. }
  assert (To : forall j0 u, u <> t -> tokd j0 (prog s' u) = tokd j0 (prog s u)).
  { intros j0 u Hu. rewrite Ep, upd_other; auto. }
  assert (Tj : forall j0 u, j0 <> j -> tokd j0 (prog s' u) = tokd j0 (prog s u)).
  { intros j0 u Hj. destruct (Nat.eq_dec u t) as [->|Hu]; [|apply To; exact Hu].
    rewrite Tt. eqb_case j j0 E; [congruence|reflexivity]. }
  assert (Cw : forall k0, cnt (is_win k0) (hist s') = (if Nat.eqb (S j) k0 then 1 else 0) + cnt (is_win k0) (hist s))
    by (intros k0; rewrite Eh; reflexivity).
  assert (Cd : forall k0, cnt (is_down k0) (hist s') = cnt (is_down k0) (hist s)) by (intros k0; rewrite Eh; reflexivity).
  constructor.
  - rewrite Ef. unfold upd. simpl. exact A0.
  - intros k0. rewrite Ef, Cw, Cd. unfold upd. rewrite (Nat.eqb_sym k0 (S j)). eqb_case (S j) k0 E; [discriminate|]. apply A1.
  - intros j0 u. rewrite Ef. unfold upd. eqb_case (S j0) (S j) E; [discriminate|]. intros Fj.
    rewrite Tj by congruence. apply A2; exact Fj.
  - intros k0. rewrite Ef, Cw. unfold upd. rewrite (Nat.eqb_sym k0 (S j)). eqb_case (S j) k0 E.
    + intros _. subst k0. destruct (A1 (S j) F) as [X _]. rewrite X. reflexivity.
    + apply A3.
  - intros j0 u. destruct (Nat.eq_dec j0 j) as [->|Hj]; [|rewrite Tj by exact Hj; apply A4].
    destruct (Nat.eq_dec u t) as [->|Hu]; [rewrite Tt, Z, Nat.eqb_refl; lia|rewrite To, Z by exact Hu; lia].
  - intros j0 u v. destruct (Nat.eq_dec j0 j) as [->|Hj]; [|rewrite !Tj by exact Hj; apply A5].
    destruct (Nat.eq_dec u t) as [->|Hu]; destruct (Nat.eq_dec v t) as [->|Hv]; auto;
      rewrite ?(To j u Hu), ?(To j v Hv), ?Z; lia.
  - intros j0 u. rewrite Cd. destruct (Nat.eq_dec j0 j) as [->|Hj]; [|rewrite Tj by exact Hj; apply A6].
    intros _. apply (A1 (S j) F).
  - intros k0. rewrite Cd. apply A7.
Qed.

Lemma ainv_down s s' t k w kw r h : AInv s -> prog s t = ICallSd k w kw :: r ->
  (forall k0, flag s' k0 = flag s k0) ->
  (forall u, prog s' u = upd (prog s) t (start_sd k w kw ++ r) u) ->
  hist s' = h :: HDown t (S k) w kw :: hist s -> is_win 0 h = false -> is_down 0 h = false ->
  (forall k0, is_win k0 h = false /\ is_down k0 h = false) -> AInv s'.
Proof.
  intros [A0 A1 A2 A3 A4 A5 A6 A7] P Ef Ep Eh _ _ Hh.
  assert (T1 : tokd k (prog s t) = 1).
  { generalize (A4 k t). rewrite P. simpl. rewrite Nat.eqb_refl. lia. }
  assert (Tt : forall j0, tokd j0 (prog s' t) + (if Nat.eqb k j0 then 1 else 0) = tokd j0 (prog s t)).
  { intros j0. rewrite Ep, upd_same, tokd_app, tokd_start_sd, P. simpl. lia. }
  assert (To : forall j0 u, u <> t -> tokd j0 (prog s' u) = tokd j0 (prog s u)).
  { intros j0 u Hu. rewrite Ep, upd_other; auto. }
  assert (Tk : forall u, tokd k (prog s' u) = 0).
  { intros u. destruct (Nat.eq_dec u t) as [->|Hu].
    - generalize (Tt k). rewrite Nat.eqb_refl, T1. lia.
    - rewrite To by exact Hu. destruct (tokd k (prog s u)) eqn:E; [reflexivity|].
      exfalso. apply Hu. apply (A5 k u t); lia. }
  assert (Tj : forall j0 u, j0 <> k -> tokd j0 (prog s' u) = tokd j0 (prog s u)).
  { intros j0 u Hj. destruct (Nat.eq_dec u t) as [->|Hu]; [|apply To; exact Hu].
    generalize (Tt j0). eqb_case k j0 E; [congruence|lia]. }
  assert (Cw : forall k0, cnt (is_win k0) (hist s') = cnt (is_win k0) (hist s)).
  { intros k0. rewrite Eh. simpl. destruct (Hh k0) as [X _]. rewrite X. reflexivity. }
  assert (Cd : forall k0, cnt (is_down k0) (hist s') = (if Nat.eqb (S k) k0 then 1 else 0) + cnt (is_down k0) (hist s)).
  { intros k0. rewrite Eh. simpl. destruct (Hh k0) as [_ X]. rewrite X. reflexivity. }
  assert (D0 : cnt (is_down (S k)) (hist s) = 0) by (apply (A6 k t); lia).
  assert (F1 : flag s (S k) = true).
  { destruct (flag s (S k)) eqn:F; [reflexivity|]. rewrite (A2 k t F) in T1. discriminate. }
  constructor.
  - rewrite Ef; exact A0.
  - intros k0. rewrite Ef, Cw, Cd. intros F. eqb_case (S k) k0 E; [congruence|]. apply A1; exact F.
  - intros j0 u. rewrite Ef. intros F. destruct (Nat.eq_dec j0 k) as [->|Hj]; [apply Tk|].
    rewrite Tj by exact Hj. apply A2; exact F.
  - intros k0. rewrite Ef, Cw. apply A3.
  - intros j0 u. destruct (Nat.eq_dec j0 k) as [->|Hj]; [rewrite Tk; lia|rewrite Tj by exact Hj; apply A4].
  - intros j0 u v. destruct (Nat.eq_dec j0 k) as [->|Hj]; [rewrite Tk; lia|rewrite !Tj by exact Hj; apply A5].
  - intros j0 u. destruct (Nat.eq_dec j0 k) as [->|Hj]; [rewrite Tk; lia|]. rewrite Tj, Cd by exact Hj.
    eqb_case (S k) (S j0) E; [congruence|]. apply A6.
  - intros k0. rewrite Cd. eqb_case (S k) k0 E; [subst; rewrite D0; lia|apply A7].
Qed.

Lemma upd_id {A} (f : nat -> A) t u : upd f t (f t) u = f u.
Proof. unfold upd. destruct (Nat.eqb u t) eqn:E; [apply Nat.eqb_eq in E; subst|]; reflexivity. Qed.

Lemma ainv_ext s s' : AInv s -> (forall k, flag s' k = flag s k) -> (forall u, prog s' u = prog s u) ->
  (forall k, cnt (is_win k) (hist s') = cnt (is_win k) (hist s)) ->
  (forall k, cnt (is_down k) (hist s') = cnt (is_down k) (hist s)) -> AInv s'.
Proof.
  intros I Ef Ep Ew Ed. apply (ainv_same s s' 0 (prog s 0)); auto.
  intros u. rewrite upd_id. apply Ep.
Qed.

Lemma ainv_gin c s t k r i s' : AInv s -> prog s t = i :: r -> 0 < k -> gin c s t k r i s' -> AInv s'.
Proof.
  intros I P K G. destruct G.
  - eapply (ainv_same s _ t); [exact I| | | | |]; try (intros; reflexivity).
    intros j. rewrite P. reflexivity.
  - eapply (ainv_same s _ t); [exact I| | | | |]; try (intros; reflexivity).
    intros j. rewrite P, tokd_app, tokd_sub_body. reflexivity.
  - eapply (ainv_same s _ t); [exact I| | | | |]; try (intros; reflexivity).
    intros j. rewrite P. reflexivity.
  - eapply (ainv_win c s _ t k w kw r); [exact I|exact H|exact K|exact P| | |]; intros; reflexivity.
Qed.

Ltac asame I t := eapply (ainv_same _ _ t); [exact I| | | | |]; try (intros; reflexivity).

Lemma ainv_step c s e s' : AInv s -> tr c s e s' -> AInv s'.
Proof.
  intros I T. destruct T.
  - asame I t. intros j. rewrite H0, tokd_app, tokd_start_sub. reflexivity.
  - asame I t. intros j. rewrite tokd_app, tokd_start_sub. reflexivity.
  - unfold finish_sub. destruct ok; asame I t; intros j; rewrite H0, ?tokd_unwind; reflexivity.
  - unfold finish_sub. destruct ok; asame I t; intros j; rewrite H, ?tokd_unwind; reflexivity.
  - refine (ainv_gin c (log (set_gate s k (Some t) 1) (HAcq t k (held_by c s t))) t k r i s' _ H0 H1 H2).
    apply (ainv_ext s); auto; intros; reflexivity.
  - refine (ainv_gin c (set_gate s k (Some t) (S (gdepth s k))) t k r i s' _ H0 H1 H2).
    apply (ainv_ext s); auto; intros; reflexivity.
  - asame I t. intros j. rewrite H1. destruct H2 as [[b ->]| ->]; reflexivity.
  - asame I t. intros j. rewrite H1. destruct H2 as [[b ->]| ->]; reflexivity.
  - eapply (ainv_down s _ t k w kw r (HSdCall t k w kw false)); [exact I|exact H0| | | | | |];
      try (intros; destruct k; reflexivity). intros k0; split; reflexivity.
  - eapply (ainv_same _ _ t); [exact I| | | | |]; try (intros; destruct k; reflexivity).
  - asame I t. intros j. rewrite H0. reflexivity.
  - asame I t. intros j. rewrite H. reflexivity.
  - apply (ainv_ext s); auto; intros; reflexivity.
Qed.

Theorem ainv_reachable c s : reachable_from (step c) init s -> AInv s.
Proof. apply invariant_rule; [apply ainv_init|]. intros s0 e s1 I H. eapply ainv_step; [exact I|apply step_tr; exact H]. Qed.
