(* C07 / Throttle, token invariant (part 2: the events that neither move a token nor touch the counter). *)
From Coq Require Import ZArith List Bool Arith Lia.
From RecordUpdate Require Import RecordSet.
From ME Require Import Base.Machine Base.Fut Base.GenPrelude Gen.ThrottleGen Model.Throttle
  Proofs.Throttle_Spec Proofs.Throttle_Inv Proofs.Throttle_Tok.
Import ListNotations RecordSetNotations.
Local Open Scope Z_scope.

Lemma idle_nil s t : idle s t = true -> thr s t = [].
Proof. unfold idle. intros Hx. destruct (thr s t); [reflexivity|]. rewrite andb_false_r in Hx. discriminate. Qed.

Ltac idle_goal :=
  let w := fresh "w" in let Hg := fresh "Hg" in
  intros w Hg;
  match goal with E : idle _ _ && _ = true |- _ => apply andb_prop in E; destruct E as [E _] | _ => idtac end;
  match goal with E : idle ?s ?t = true |- _ => rewrite (idle_nil s t E) end;
  cbn [msum]; kill_w w Hg; lia.

Lemma do_call_submit_invK N s t s' : InvN N s -> (t < N)%nat -> do_call_submit s t = Some s' -> InvN N s'.
Proof.
  intros I Ht Hx. unfold do_call_submit in Hx. brk Hx. inv_some Hx.
  apply (invN_set N s); try kside I. idle_goal.
Qed.
Lemma do_call_shutdown_invK N s t w s' : InvN N s -> (t < N)%nat -> do_call_shutdown s t w = Some s' -> InvN N s'.
Proof.
  intros I Ht Hx. unfold do_call_shutdown in Hx. brk Hx. inv_some Hx.
  apply (invN_set N s); try kside I. idle_goal.
Qed.
Lemma do_call_cancel_invK N s t j s' : InvN N s -> (t < N)%nat -> do_call_cancel s t j = Some s' -> InvN N s'.
Proof.
  intros I Ht Hx. unfold do_call_cancel in Hx. brk Hx. inv_some Hx.
  apply (invN_set N s); try kside I. idle_goal.
Qed.
Lemma do_ret_invK N s t c s' : InvN N s -> (t < N)%nat -> do_ret s t c = Some s' -> InvN N s'.
Proof. intros I Ht Hx. unfold do_ret in Hx. khandler I Hx N s. Qed.
Lemma do_acq_g_invK N s t s' : InvN N s -> (t < N)%nat -> do_acq_g s t = Some s' -> InvN N s'.
Proof.
  intros I Ht Hx. unfold do_acq_g in Hx. khandler I Hx N s. Qed.
Lemma do_rel_g_invK N s t s' : InvN N s -> (t < N)%nat -> do_rel_g s t = Some s' -> InvN N s'.
Proof. intros I Ht Hx. unfold do_rel_g in Hx. khandler I Hx N s. Qed.
Lemma do_xsec_invK N s t s' : InvN N s -> (t < N)%nat -> do_xsec s t = Some s' -> InvN N s'.
Proof. intros I Ht Hx. unfold do_xsec in Hx. khandler I Hx N s. Qed.
Lemma do_rel_a_invK N s t s' : InvN N s -> (t < N)%nat -> do_rel_a s t = Some s' -> InvN N s'.
Proof. intros I Ht Hx. unfold do_rel_a in Hx. khandler I Hx N s. Qed.
Lemma do_evset_invK N s t s' : InvN N s -> (t < N)%nat -> do_evset s t = Some s' -> InvN N s'.
Proof. intros I Ht Hx. unfold do_evset in Hx. khandler I Hx N s. Qed.
Lemma do_dshutdown_invK N s t s' : InvN N s -> (t < N)%nat -> do_dshutdown s t = Some s' -> InvN N s'.
Proof. intros I Ht Hx. unfold do_dshutdown in Hx. khandler I Hx N s. Qed.
Lemma do_acq_m_invK N s t j s' : InvN N s -> (t < N)%nat -> do_acq_m s t j = Some s' -> InvN N s'.
Proof. intros I Ht Hx. unfold do_acq_m in Hx. khandler I Hx N s. Qed.
Lemma do_rel_m_invK N s t j s' : InvN N s -> (t < N)%nat -> do_rel_m s t j = Some s' -> InvN N s'.
Proof. intros I Ht Hx. unfold do_rel_m in Hx. khandler I Hx N s. Qed.
Lemma do_wait_invK N s t r s' : InvN N s -> (t < N)%nat -> do_wait s t r = Some s' -> InvN N s'.
Proof. intros I Ht Hx. unfold do_wait in Hx. khandler I Hx N s. Qed.
Lemma do_woke_invK N s t k s' : InvN N s -> (t < N)%nat -> do_woke s t k = Some s' -> InvN N s'.
Proof. intros I Ht Hx. unfold do_woke in Hx. khandler I Hx N s. Qed.
Lemma do_fm_invK N s t op j p s' : InvN N s -> (t < N)%nat -> do_fm s t op j p = Some s' -> InvN N s'.
Proof. intros I Ht Hx. unfold do_fm in Hx. khandler I Hx N s. Qed.
Lemma do_count_invK N s t a s' : InvN N s -> (t < N)%nat -> do_count s t a = Some s' -> InvN N s'.
Proof. intros I Ht Hx. unfold do_count in Hx. khandler I Hx N s. Qed.
Lemma do_exit_invK N s s' : InvN N s -> (H < N)%nat -> do_exit s = Some s' -> InvN N s'.
Proof. intros I Ht Hx. unfold do_exit in Hx. khandler I Hx N s. Qed.

Lemma do_hstart_invK N s s' : InvN N s -> (H < N)%nat -> do_hstart s = Some s' -> InvN N s'.
Proof.
  intros I Ht Hx. unfold do_hstart in Hx. brk Hx. inv_some Hx.
  apply (invN_start_iter N s); try kside I.
Qed.
Lemma do_clear_invK N s t s' : InvN N s -> (t < N)%nat -> do_clear s t = Some s' -> InvN N s'.
Proof.
  intros I Ht Hx. unfold do_clear in Hx. brk Hx. inv_some Hx.
  apply (invN_start_iter N s); try kside I.
Qed.
