(* Specification lemmas about the kernels regenerated from retry.py (Gen/RetryGen.v). *)
From Coq Require Import List ZArith QArith Qminmax Bool Lia.
From ME Require Import Base.GenPrelude Gen.RetryGen.
Import ListNotations.

(* back-off formula: min(sleep * exponent^(k-1), max_sleep) *)
Lemma sleep_time_spec sleep exponent max_sleep (k : Z) :
  sleep_time sleep exponent max_sleep k == Qmin (sleep * Qpower exponent (k - 1)) max_sleep.
Proof. unfold sleep_time. reflexivity. Qed.

(* the delay never exceeds max_sleep and, for exponent >= 1 and sleep >= 0, never undercuts min(sleep,max_sleep) ... *)
Lemma sleep_time_le_max sleep exponent max_sleep k : sleep_time sleep exponent max_sleep k <= max_sleep.
Proof. unfold sleep_time. apply Q.le_min_r. Qed.

Lemma should_retry_spec isinst max_attempts bases attempt exc :
  should_retry isinst max_attempts bases attempt exc = true <->
  exists e, exc = Some e /\ (attempt < max_attempts)%Z /\ exists b, In b bases /\ isinst e b = true.
Proof.
  unfold should_retry, issome, isnone. destruct exc as [e|]; simpl.
  - destruct (Z.geb attempt max_attempts) eqn:G.
    + split; [discriminate|]. intros (e' & _ & L & _). rewrite Z.geb_leb in G. apply Z.leb_le in G. lia.
    + rewrite Z.geb_leb in G. apply Z.leb_gt in G. rewrite existsb_exists. split.
      * intros (b & Hb & Hi). exists e. repeat split; auto. exists b; auto.
      * intros (e' & He & _ & b & Hb & Hi). inversion He; subst. exists b; auto.
  - split; [discriminate|]. intros (e & He & _). discriminate.
Qed.

(* sequential evaluation of a callable under ExceptionRetryPolicy: script k = outcome of the k-th
   invocation (None = success, Some e = exception of class e); returns the number of invocations *)
Fixpoint seq_attempts (isinst : nat -> nat -> bool) (max_attempts : Z) (bases : list nat)
         (script : nat -> option nat) (fuel k : nat) : nat :=
  match fuel with
  | O => k
  | S f => if should_retry isinst max_attempts bases (Z.of_nat k) (script k)
           then seq_attempts isinst max_attempts bases script f (S k) else k
  end.

Definition retryable (isinst : nat -> nat -> bool) (bases : list nat) (o : option nat) :=
  exists e, o = Some e /\ exists b, In b bases /\ isinst e b = true.

(* C05 accounting: the callable runs exactly until the first success, the first exception outside
   exception_base, or max_attempts -- whichever comes first (attempts are numbered from 1) *)
Theorem exception_policy_runs isinst max_attempts bases script fuel :
  (1 <= max_attempts)%Z -> (Z.to_nat max_attempts <= fuel)%nat ->
  let n := seq_attempts isinst max_attempts bases script fuel 1 in
  (1 <= n)%nat /\ (Z.of_nat n <= max_attempts)%Z /\
  (forall i, (1 <= i < n)%nat -> retryable isinst bases (script i)) /\
  (script n = None \/ ~ retryable isinst bases (script n) \/ Z.of_nat n = max_attempts).
Proof.
  intros Hm Hf. cbv zeta.
  assert (G : forall fuel k, (1 <= k)%nat -> (Z.of_nat k <= max_attempts)%Z ->
              ((Z.to_nat max_attempts - k < fuel)%nat \/ Z.of_nat k = max_attempts) ->
              (forall i, (1 <= i < k)%nat -> retryable isinst bases (script i)) ->
              let n := seq_attempts isinst max_attempts bases script fuel k in
              (k <= n)%nat /\ (Z.of_nat n <= max_attempts)%Z /\
              (forall i, (1 <= i < n)%nat -> retryable isinst bases (script i)) /\
              (script n = None \/ ~ retryable isinst bases (script n) \/ Z.of_nat n = max_attempts)).
  { clear fuel Hf. induction fuel as [|f IH]; intros k Hk Hle Hfu Hpre; cbn [seq_attempts]; cbv zeta.
    - split; [lia|]. split; [auto|]. split; [auto|]. right; right. destruct Hfu as [Hfu|Hfu]; [lia|auto].
    - destruct (should_retry isinst max_attempts bases (Z.of_nat k) (script k)) eqn:E.
      + apply should_retry_spec in E. destruct E as (e & He & Hlt & b & Hb & Hi).
        assert (Hk1 : (Z.of_nat (S k) <= max_attempts)%Z) by lia.
        assert (P3 : (Z.to_nat max_attempts - S k < f)%nat \/ Z.of_nat (S k) = max_attempts).
        { destruct (Z.eq_dec (Z.of_nat (S k)) max_attempts); [right; auto|left; lia]. }
        assert (P4 : forall i, (1 <= i < S k)%nat -> retryable isinst bases (script i)).
        { intros i Hi'. destruct (Nat.eq_dec i k) as [->|N]; [|apply Hpre; lia].
          exists e; split; auto. exists b; auto. }
        destruct (IH (S k) ltac:(lia) Hk1 P3 P4) as (A & B & C & D).
        split; [lia|]. split; [auto|]. split; auto.
      + split; [lia|]. split; [auto|]. split; [auto|].
        destruct (script k) as [e|] eqn:Es; [|left; auto].
        destruct (Z.eq_dec (Z.of_nat k) max_attempts) as [Eq|Ne]; [right; right; auto|].
        right; left. intros (e' & He & b & Hb & Hi). inversion He; subst e'.
        assert (should_retry isinst max_attempts bases (Z.of_nat k) (Some e) = true).
        { apply should_retry_spec. exists e. repeat split; auto; try lia. exists b; auto. }
        congruence. }
  assert (P3 : (Z.to_nat max_attempts - 1 < fuel)%nat \/ Z.of_nat 1 = max_attempts).
  { destruct (Z.eq_dec 1 max_attempts); [right; auto|left; lia]. }
  assert (P4 : forall i, (1 <= i < 1)%nat -> retryable isinst bases (script i)) by (intros i Hi; lia).
  destruct (G fuel 1%nat ltac:(lia) ltac:(lia) P3 P4) as (A & B & C & D). auto.
Qed.

(* _get_next_job never returns an in-flight job, returns a stop_retry/due job when one exists, and
   otherwise the pending job with the smallest `when` *)
Definition idle (j : rjob) := rj_has_delegate j = false.

Lemma next_job_loop_spec now jobs : forall acc,
  (forall m, acc = Some m -> idle m /\ rj_stop m = false /\ (now < rj_when m)%Z) ->
  match next_job_loop now acc jobs with
  | None => acc = None /\ forall j, In j jobs -> rj_has_delegate j = true
  | Some r => (acc = Some r \/ In r jobs) /\ idle r /\
              (rj_stop r = true \/ (rj_when r <= now)%Z \/
               ((forall m, acc = Some m -> (rj_when r <= rj_when m)%Z) /\
                forall j, In j jobs -> idle j -> rj_stop j = false /\ (now < rj_when j)%Z /\ (rj_when r <= rj_when j)%Z))
  end.
Proof.
  induction jobs as [|j r IH]; intros acc Hacc; cbn [next_job_loop].
  - destruct acc as [m|]; [|split; [auto|intros ? []]].
    destruct (Hacc m eq_refl) as (A & B & C). split; [auto|]. split; [auto|].
    right; right. split; [intros m' E; inversion E; subst; lia|intros ? []].
  - unfold next_job_body. unfold idle in *.
    destruct (rj_has_delegate j) eqn:D.
    + specialize (IH acc Hacc). destruct (next_job_loop now acc r) as [x|].
      * destruct IH as (A & B & C). split; [destruct A; auto; right; right; auto|]. split; auto.
        destruct C as [C|[C|(C1 & C2)]]; auto. right; right. split; auto.
        intros j' [<-|Hj'] Hi; [congruence|auto].
      * destruct IH as (A & B). split; auto. intros j' [<-|Hj']; auto.
    + destruct (rj_stop j) eqn:St.
      { split; [right; left; auto|]. split; auto. }
      destruct (Z.leb (rj_when j) now) eqn:Du.
      { apply Z.leb_le in Du. split; [right; left; auto|]. split; auto. }
      apply Z.leb_gt in Du.
      unfold issome, isnone. destruct acc as [m|]; cbn [negb].
      * destruct (Hacc m eq_refl) as (Am & Bm & Cm).
        destruct (Z.ltb (rj_when j) (rj_when (the_job (Some m)))) eqn:Lt; cbn [the_job] in Lt.
        -- apply Z.ltb_lt in Lt.
           assert (Hn : forall m0, Some j = Some m0 -> rj_has_delegate m0 = false /\ rj_stop m0 = false /\ (now < rj_when m0)%Z)
             by (intros m0 E; inversion E; subst; auto).
           specialize (IH (Some j) Hn). destruct (next_job_loop now (Some j) r) as [x|].
           ++ destruct IH as (A & B & C). split.
              { destruct A as [A|A]; [inversion A; subst; right; left; auto|right; right; auto]. }
              split; auto. destruct C as [C|[C|(C1 & C2)]]; auto. right; right.
              specialize (C1 j eq_refl). split.
              { intros m' E; inversion E; subst. lia. }
              intros j' [<-|Hj'] Hi; auto.
           ++ destruct IH as (A & _). discriminate.
        -- apply Z.ltb_ge in Lt.
           specialize (IH (Some m) Hacc). destruct (next_job_loop now (Some m) r) as [x|].
           ++ destruct IH as (A & B & C). split.
              { destruct A as [A|A]; [left; auto|right; right; auto]. }
              split; auto. destruct C as [C|[C|(C1 & C2)]]; auto. right; right.
              split; auto. specialize (C1 m eq_refl).
              intros j' [<-|Hj'] Hi; auto. repeat split; auto; lia.
           ++ destruct IH as (A & _). discriminate.
      * assert (Hn : forall m0, Some j = Some m0 -> rj_has_delegate m0 = false /\ rj_stop m0 = false /\ (now < rj_when m0)%Z)
          by (intros m0 E; inversion E; subst; auto).
        specialize (IH (Some j) Hn). destruct (next_job_loop now (Some j) r) as [x|].
        -- destruct IH as (A & B & C). split.
           { destruct A as [A|A]; [inversion A; subst; right; left; auto|right; right; auto]. }
           split; auto. destruct C as [C|[C|(C1 & C2)]]; auto. right; right.
           specialize (C1 j eq_refl). split; [intros ? E; discriminate|].
           intros j' [<-|Hj'] Hi; auto.
        -- destruct IH as (A & _). discriminate.
Qed.

Theorem get_next_job_spec now jobs :
  match get_next_job now jobs with
  | None => forall j, In j jobs -> rj_has_delegate j = true
  | Some r => In r jobs /\ rj_has_delegate r = false /\
              (rj_stop r = true \/ (rj_when r <= now)%Z \/
               forall j, In j jobs -> rj_has_delegate j = false ->
                         rj_stop j = false /\ (now < rj_when j)%Z /\ (rj_when r <= rj_when j)%Z)
  end.
Proof.
  unfold get_next_job. pose proof (next_job_loop_spec now jobs None) as H.
  destruct (next_job_loop now None jobs) as [r|].
  - destruct H as (A & B & C); [intros ? E; discriminate|].
    split; [destruct A as [A|A]; [discriminate|auto]|]. split; [exact B|].
    destruct C as [C|[C|(_ & C)]]; auto.
  - destruct H as (_ & B); [intros ? E; discriminate|]. exact B.
Qed.

(* eval_policy: a stop_retry job is never retried; a raising policy ends retrying *)
Lemma eval_policy_stop sr st : eval_policy true sr st = (false, None).
Proof. reflexivity. Qed.
Lemma eval_policy_raise_sr st : eval_policy false Raises st = (false, None).
Proof. reflexivity. Qed.
Lemma eval_policy_raise_st : eval_policy false (Answer true) Raises = (false, None).
Proof. reflexivity. Qed.
Lemma eval_policy_retry d : eval_policy false (Answer true) (Answer d) = (true, Some d).
Proof. reflexivity. Qed.
