(* C03 for the Poll machine, part 1: small state invariants used by the quiescence theorems.
   Inv8: the delegate future's outcome, its state and the HDDone events of the history agree, and the
   _delegate_resolved callback is parked (dcb) only on a delegate that is not done.
   InvP: the poll thread has a program only inside / right after the poll function. *)
From Coq Require Import ZArith List Bool Arith Lia.
From RecordUpdate Require Import RecordSet.
From ME Require Import Base.Machine Base.Fut Base.GenPrelude Model.Poll Proofs.Poll_Inv Proofs.Poll_NoDup.
Import ListNotations RecordSetNotations.

Record Inv8 (s : st) : Prop := {
  i8_fin : forall j o, dout s j = Some o -> ds s j = Finished;
  i8_hd : forall j o ts, In (HDDone j o ts) (hist s) -> dout s j = Some o /\ j < nfut s;
  i8_dcb : forall j, dcb s j = true -> fdone (ds s j) = false
}.

Lemma inv8_init : Inv8 init.
Proof. constructor; simpl; intros; try tauto; discriminate. Qed.

Lemma fcancel_fin n b : f_cancel Finished = (n, b) -> n = Finished.
Proof. simpl. congruence. Qed.
Lemma fcancel_notdone s n : f_cancel s = (n, false) -> n = s.
Proof. destruct s; simpl; congruence. Qed.
Lemma fcancel_fires_not s : f_cancel_fires s = false -> fdone s = false -> s = Running.
Proof. destruct s; simpl; congruence. Qed.
Lemma fsrnc_notdone s n b : f_srnc s = Some (n, b) -> fdone s = false -> fdone n = false.
Proof. destruct s; simpl; intros H; inversion H; auto. Qed.
Lemma fset_some_notdone s n : f_set s = Some n -> fdone s = false.
Proof. destruct s; simpl; congruence. Qed.

Ltac fst_eqs :=
  repeat match goal with
  | E : fstate_eqb _ _ = true |- _ => apply fstate_eqb_eq in E; subst
  end.

Ltac in_hist :=
  repeat match goal with
  | H : _ \/ _ |- _ => destruct H as [H|H]; try discriminate H
  | H : HDDone _ _ _ = HDDone _ _ _ |- _ => inversion H; subst; clear H
  end.

Ltac conj8 :=
  repeat match goal with
  | H : _ && _ = true |- _ => apply andb_prop in H; destruct H
  | H : _ && _ = false |- _ => apply andb_false_iff in H; destruct H
  | H : (_, _) = (_, _) |- _ => inversion H; subst; clear H
  | H : Some _ = Some _ |- _ => inversion H; subst; clear H
  end.

Ltac inv8_fin If Ih Id :=
  let j0 := fresh "j0" in let o0 := fresh "o0" in let ts0 := fresh "ts0" in let Hx := fresh "Hx" in
  constructor; simpl in *;
  [ intros j0 o0 Hx; pose proof (If j0) as Hf0
  | intros j0 o0 ts0 Hx; pose proof (If j0) as Hf0; pose proof (Ih j0 o0 ts0) as Hh0; in_hist;
    try (destruct (Hh0 Hx) as [Hh1 Hh2])
  | intros j0 Hx; pose proof (Id j0) as Hd0; pose proof (If j0) as Hf0 ];
  fst_eqs; unfold upd in *; bools; cleanup; fst_eqs;
  repeat match goal with E : Nat.ltb _ _ = true |- _ => apply Nat.ltb_lt in E end;
  try solve [ eauto | split; [reflexivity|lia] | congruence | unfold issome, isnone in *; simpl in *; congruence | split; [congruence|lia] | split; [eauto|lia]
            | exfalso; lia
            | match goal with Hq : forall o, dout _ ?j = Some o -> ds _ ?j = Finished, Hr : dout _ ?j = Some _ |- _ =>
                rewrite (Hq _ Hr) in *; simpl in *; congruence end
            | match goal with E : context [ds ?s ?j] |- _ =>
                destruct (ds s j) eqn:?; simpl in *; conj8; simpl in *; solve [congruence | auto] end ].

Lemma inv8_step s e s' : Inv8 s -> step s e = Some s' -> Inv8 s'.
Proof.
  destruct e as [ts e]. intros I H. apply step_inv in H. destruct H as [s1 [Ht H]].
  assert (I1 : Inv8 s1).
  { apply tick_inv in Ht. destruct Ht as [[-> _]|[-> _]]; [exact I|]. destruct I; constructor; simpl; auto. }
  clear I Ht s. destruct I1 as [If Ih Id].
  apply step0_inv in H. destruct H as [[c [d [-> [_ ->]]]]|[_ [H|[H|H]]]].
  - constructor; simpl; auto.
  - open1 H; norm_eqs; inv8_fin If Ih Id.
  - open2 H; norm_eqs; inv8_fin If Ih Id.
  - open3 H; norm_eqs; inv8_fin If Ih Id.
Qed.

(* ---- the poll thread's program ------------------------------------------------------------------- *)
Definition prog_free (m : pm) : bool := match m with PBody _ | PRest _ => false | _ => true end.

Record InvP (s : st) : Prop := {
  ip_cfg : hist s <> [] \/ pmode s <> PTop \/ nfut s <> 0 -> cfgd s = true;
  ip_thr : prog_free (pmode s) = true -> thr s poller = []
}.

Lemma invp_init : InvP init.
Proof. constructor; simpl; auto. intros [H|[H|H]]; congruence. Qed.

Ltac invp_fin Ip :=
  constructor; simpl in *; [auto|];
  try solve [ auto | discriminate
            | match goal with E : pmode ?s = _ |- _ => rewrite E in *; simpl in * end; intros; discriminate
            | intros Hpf; try specialize (Ip Hpf);
              unfold upd; bools; cleanup; simpl in *; try solve [auto | congruence | discriminate]
            | match goal with E : pmode ?s = _ |- _ => rewrite E in Ip; simpl in Ip; specialize (Ip eq_refl) end;
              intros _; unfold upd; bools; cleanup; simpl in *; solve [auto | congruence | discriminate] ].

Lemma invp_step s e s' : InvP s -> step s e = Some s' -> InvP s'.
Proof.
  destruct e as [ts e]. intros I H. apply step_inv in H. destruct H as [s1 [Ht H]].
  assert (I1 : InvP s1).
  { apply tick_inv in Ht. destruct Ht as [[-> _]|[-> _]]; [exact I|]. destruct I; constructor; simpl; auto. }
  clear I Ht s. destruct I1 as [Ic Ip].
  apply step0_inv in H. destruct H as [[c [d [-> [_ ->]]]]|[Hc [H|[H|H]]]].
  - constructor; simpl; auto.
  - open1 H; norm_eqs; invp_fin Ip.
  - open2 H; norm_eqs; invp_fin Ip.
  - open3 H; norm_eqs; invp_fin Ip.
Qed.
