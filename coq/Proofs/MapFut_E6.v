(* Layer E6 (C06 c): trace-level theorem: what cancel() returns is what the delegate answered. *)
From Coq Require Import ZArith List Bool Arith Lia.
From RecordUpdate Require Import RecordSet.
From ME Require Import Base.Machine Base.Fut Base.GenPrelude Model.MapFut Model.MapLaw Proofs.MapFut_InvD Proofs.MapFut_E1 Proofs.MapFut_E5.
Import ListNotations RecordSetNotations.

Lemma step_ctrans s e s' : reachable s -> step s e = Some s' ->
  exists s0, ctrans s s0 e /\ (forall t', cproj (thr s' t') = cproj (thr s0 t')) /\
             (forall t', t' <> tid e -> cproj (thr s' t') = cproj (thr s t')).
Proof.
  intros R H. destruct (inv9_reach s R) as [[SH _] _].
  destruct (step_decomp s e s' SH H) as (s0 & L & S).
  exists s0. split; [eapply lstep_ctrans; eauto|]. split; [intros; eapply sstar_cproj; eauto|].
  intros t' N. rewrite (sstar_cproj _ _ _ S). rewrite (lstep_thr_other _ _ _ L _ N). reflexivity.
Qed.

(* ghost: the delegate's answer seen so far by thread t in its current cancel() call *)
Definition Pc (t : nat) (g : option bool) (s : st) : Prop :=
  length (cproj (thr s t)) = 1 /\ (forall b, g = Some b -> cproj (thr s t) = [IRetB b]).
Definition gupd (t : nat) (g : option bool) (e : ev) : option bool :=
  match e with EFE t' 2 d pre => if Nat.eqb t' t then Some (snd (f_cancel pre)) else g | _ => g end.

Lemma gupd_other t g e : tid e <> t -> gupd t g e = g.
Proof.
  intros N. destruct e; simpl; try reflexivity. destruct op as [|[|[|op]]]; try reflexivity.
  simpl in N. apply Nat.eqb_neq in N. rewrite N. reflexivity.
Qed.

Lemma Pc_step t g s e s' : reachable s -> step s e = Some s' -> (forall c, e <> ERet t c) -> Pc t g s ->
  Pc t (gupd t g e) s' /\ (forall b, g = Some b -> gupd t g e = Some b).
Proof.
  intros R H NR [P1 P2]. destruct (step_ctrans _ _ _ R H) as (s0 & T & C1 & C2).
  destruct (Nat.eq_dec (tid e) t) as [E|N].
  2:{ rewrite (gupd_other _ _ _ N). split; [|auto]. split; rewrite C2 by auto; assumption. }
  unfold Pc. rewrite C1. unfold ctrans in T. rewrite E in T.
  assert (G : forall X : cproj (thr s0 t) = cproj (thr s t) \/
         (exists i r i', thr s t = i :: r /\ isC i = true /\ is_retb i = false /\ cproj (thr s0 t) = i' :: cproj r) \/
         (thr s t = [] /\ length (cproj (thr s0 t)) = 1),
         (length (cproj (thr s0 t)) = 1 /\ (forall b, g = Some b -> cproj (thr s0 t) = [IRetB b]))).
  { intros [X|[(i & r & i' & X1 & X2 & X3 & X4)|[X1 X2]]].
    - rewrite X. split; assumption.
    - rewrite X1, cproj_cons, X2 in P1, P2. simpl in P1. rewrite X4.
      destruct (cproj r); [|simpl in P1; lia]. split; [reflexivity|].
      intros b Hb. specialize (P2 b Hb). inversion P2; subst. discriminate X3.
    - rewrite X1 in P1. simpl in P1. lia. }
  destruct e; simpl in E; subst; simpl gupd; try (split; [apply G; exact T|auto]; fail).
  - destruct T as [T _]. rewrite T in P1. simpl in P1. lia.
  - exfalso. eapply NR; reflexivity.
  - destruct op as [|[|[|op]]]; try (split; [apply G; exact T|auto]; fail).
    rewrite Nat.eqb_refl. destruct T as (j & r & T1 & T2). rewrite T1, cproj_cons in P1, P2. simpl in P1, P2.
    destruct (cproj r); [|simpl in P1; lia]. rewrite T2. split.
    + split; [reflexivity|]. intros b Hb. inversion Hb; subst. reflexivity.
    + intros b Hb. specialize (P2 b Hb). discriminate P2.
Qed.

Lemma Pc_run t : forall es s g s2, reachable s -> Pc t g s -> run step s es = Some s2 -> (forall c, ~ In (ERet t c) es) ->
  exists g2, Pc t g2 s2 /\ reachable s2 /\ (forall b, g = Some b -> g2 = Some b) /\
             (forall d pre, In (EFE t 2 d pre) es -> g2 = Some (snd (f_cancel pre))).
Proof.
  induction es as [|e r IH]; intros s g s2 R P H NR; simpl in H.
  - inversion H; subst. exists g. split; [exact P|]. split; [exact R|]. split; [auto|]. intros d pre X; destruct X.
  - destruct (step s e) as [s1|] eqn:E; [|discriminate H].
    assert (NR0 : forall c, e <> ERet t c) by (intros c X; eapply NR; left; exact X).
    destruct (Pc_step _ _ _ _ _ R E NR0 P) as [P1 M1].
    assert (R1 : reachable s1) by (eapply reachable_step; eauto).
    destruct (IH s1 (gupd t g e) s2 R1 P1 H) as (g2 & Q1 & Q2 & Q3 & Q4).
    { intros c X; eapply NR; right; exact X. }
    exists g2. split; [exact Q1|]. split; [exact Q2|]. split; [intros b Hb; apply Q3; apply M1; exact Hb|].
    intros d pre [X|X]; [|eapply Q4; eauto]. subst e. apply Q3. simpl. rewrite Nat.eqb_refl. reflexivity.
Qed.

Lemma mapfut_cancel_returns_delegate_answer : forall es s, run step init es = Some s ->
  forall es1 t j es2 code es3, es = es1 ++ ECallCancel t j :: es2 ++ ERet t code :: es3 ->
  (forall c, ~ In (ERet t c) es2) ->
  forall d pre, In (EFE t 2 d pre) es2 -> code = if snd (f_cancel pre) then 2 else 1.
Proof.
  intros es s H es1 t j es2 code es3 -> NR d pre X.
  rewrite run_app in H. destruct (run step init es1) as [sa|] eqn:Ea; [|discriminate H].
  cbn [run] in H. destruct (step sa (ECallCancel t j)) as [s1|] eqn:E1; [|discriminate H].
  rewrite run_app in H. destruct (run step s1 es2) as [s2|] eqn:E2; [|discriminate H].
  cbn [run] in H. destruct (step s2 (ERet t code)) as [s3|] eqn:E3; [|discriminate H].
  assert (Ra : reachable sa) by (exists es1; exact Ea).
  assert (R1 : reachable s1) by (eapply reachable_step; eauto).
  assert (P1 : Pc t None s1).
  { destruct (step_ctrans _ _ _ Ra E1) as (s0 & T & C1 & _). simpl in T. split; [rewrite C1; apply T|intros b Hb; discriminate Hb]. }
  destruct (Pc_run t es2 s1 None s2 R1 P1 E2 NR) as (g2 & [Q1 Q2] & R2 & _ & Q4).
  specialize (Q4 d pre X). specialize (Q2 _ Q4).
  destruct (step_ctrans _ _ _ R2 E3) as (s0 & T & _). simpl in T. destruct T as (i & r & T1 & _ & T3 & T4).
  rewrite T1, cproj_cons, T3 in Q2. inversion Q2; subst. apply T4. reflexivity.
Qed.
