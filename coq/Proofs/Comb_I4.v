(* I4: facts about the input futures and the registrations. *)
From Coq Require Import List Arith Bool Lia PeanoNat ZArith.
From ME Require Import Base.Machine Base.Fut Base.GenPrelude Gen.BoolGen Gen.ZipGen Model.Comb Proofs.Comb_Spec Proofs.Comb_I0.
Import ListNotations.

(* completed input futures are frozen *)
Lemma step_frozen s e s' x : step s e = Some s' -> fdone (es s x) = true -> es s' x = es s x /\ eout s' x = eout s x.
Proof.
  intros H Hd. destruct e; step_inv H; simpl; auto; clean;
    unfold upd; destruct (Nat.eqb x _) eqn:E; auto; clean;
    match goal with Hq : fdone (es s ?y) = true |- _ => destruct (es s y); simpl in *; try discriminate; split; congruence end.
Qed.

Lemma step_built s e s' : step s e = Some s' -> built s = true ->
  built s' = true /\ inputs s' = inputs s /\ ck s' = ck s.
Proof.
  intros H Hb. destruct e; step_inv H; simpl; auto. rewrite Hb in *. discriminate.
Qed.

Lemma step_done_mono s e s' d : step s e = Some s' -> fdone (es s d) = true -> fdone (es s' d) = true.
Proof. intros H Hd. destruct (step_frozen _ _ _ d H Hd) as [E _]. rewrite E. exact Hd. Qed.

Definition P4f (esf : nat -> fstate) (ins : list nat) (i : instr) : Prop :=
  match i with
  | IAcqL i d | ICancelledQ i d => fdone (esf d) = true /\ d = nth i ins 0 /\ i < length ins
  | IAddCbIn i => i < length ins
  | _ => True
  end.
Notation P4 s := (P4f (es s) (inputs s)).

Record I4 (s : st) : Prop := {
  i4_unb : built s = false -> (forall t, thr s t = []) /\ (forall d, ecbs s d = []) /\ ready s = false;
  i4_es : forall d, es s d = Pending \/ es s d = Cancelled \/ es s d = Finished;
  i4_eout : forall d, es s d = Finished <-> eout s d <> None;
  i4_thr : forall t, Forall (P4 s) (thr s t);
  i4_ecbs : forall d i, In i (ecbs s d) -> d = input_at s i /\ i < length (inputs s);
  i4_fsd : forall x, In x (inputs s) -> ~ In x (fsd s) -> fdone (es s x) = true
}.

Lemma I4_init : I4 init.
Proof.
  constructor; simpl; auto; try contradiction.
  intros d. split; [discriminate|congruence].
Qed.

Lemma dedup_in x l : In x (dedup l) <-> In x l.
Proof.
  induction l as [|a r IH]; simpl; [tauto|].
  rewrite filter_In, IH, negb_true_iff, Nat.eqb_neq.
  destruct (Nat.eq_dec a x); [subst; tauto|]. split; [tauto|]. intros [?|?]; [tauto|]. right; split; auto.
Qed.
Lemma remove_id_in x y l : In x (remove_id y l) <-> In x l /\ x <> y.
Proof. unfold remove_id. rewrite filter_In, negb_true_iff, Nat.eqb_neq. tauto. Qed.
Lemma memb_in x l : memb x l = true <-> In x l.
Proof.
  unfold memb. rewrite existsb_exists. split.
  - intros [y [Hin Hy]]. apply Nat.eqb_eq in Hy. subst y. exact Hin.
  - intros Hin. exists x. split; [exact Hin|apply Nat.eqb_refl].
Qed.

Lemma Forall_flat_map_in {A B} (P : B -> Prop) (f : A -> list B) l :
  (forall a, In a l -> Forall P (f a)) -> Forall P (flat_map f l).
Proof.
  intros H. induction l; simpl; [constructor|]. apply Forall_app. split; [apply H; left; auto|].
  apply IHl. intros; apply H; right; auto.
Qed.

Lemma P4_mono s s' i : inputs s' = inputs s -> (forall d, fdone (es s d) = true -> fdone (es s' d) = true) ->
  P4 s i -> P4 s' i.
Proof.
  intros Hi Hd. unfold P4f. rewrite Hi. destruct i; auto; intros (H1 & H2 & H3); auto.
Qed.

Lemma I4_unb s e s' : I4 s -> step s e = Some s' -> built s' = false ->
  (forall t, thr s' t = []) /\ (forall d, ecbs s' d = []) /\ ready s' = false.
Proof.
  intros I H Hb'. destruct (built s) eqn:Hb.
  { destruct (step_built _ _ _ H Hb) as [Hx _]. congruence. }
  destruct (i4_unb _ I Hb) as (Ht & He & Hr).
  destruct e; pose proof (Ht t) as Htt; step_inv H; simpl in *; try congruence; auto.
  all: rewrite ?Hb in *; simpl in *; try discriminate.
  all: unfold in_fires; rewrite He; simpl; repeat split; auto; intros; unfold upd;
       repeat match goal with |- context [if ?c then _ else _] => destruct c end; auto.
Qed.

Lemma I4_es s e s' : I4 s -> step s e = Some s' -> forall d, es s' d = Pending \/ es s' d = Cancelled \/ es s' d = Finished.
Proof.
  intros I H x. pose proof (i4_es _ I) as Hes.
  destruct e; step_inv H; simpl; auto; clean; unfold upd; destruct (Nat.eqb x _); auto;
  match goal with
  | Hq : f_cancel (es s ?y) = _ |- _ => destruct (Hes y) as [E|[E|E]]; rewrite E in *
  | Hq : f_set (es s ?y) = _ |- _ => destruct (Hes y) as [E|[E|E]]; rewrite E in *
  end; simpl in *; try discriminate;
  repeat match goal with Hq : Some _ = Some _ |- _ => inversion Hq; clear Hq; subst
                       | Hq : (_, _) = (_, _) |- _ => inversion Hq; clear Hq; subst end; auto.
Qed.

Lemma I4_eout s e s' : I4 s -> step s e = Some s' -> forall d, es s' d = Finished <-> eout s' d <> None.
Proof.
  intros I H x. pose proof (i4_es _ I) as Hes. pose proof (i4_eout _ I) as Heo.
  destruct e; step_inv H; simpl; auto; clean; unfold upd; destruct (Nat.eqb x _) eqn:E; auto; clean;
  try (rewrite <- Heo);
  match goal with
  | Hq : f_cancel (es s ?y) = _ |- _ => destruct (Hes y) as [E'|[E'|E']]; rewrite E' in *
  | Hq : f_set (es s ?y) = _ |- _ => destruct (Hes y) as [E'|[E'|E']]; rewrite E' in *
  end; simpl in *; try discriminate;
  repeat match goal with Hq : Some _ = Some _ |- _ => inversion Hq; clear Hq; subst
                       | Hq : (_, _) = (_, _) |- _ => inversion Hq; clear Hq; subst end;
  try tauto; split; congruence.
Qed.

Lemma P4_dead esf ins : P4f esf ins IDead.
Proof. exact I. Qed.

Lemma I4_thr_other s e s' u : I4 s -> step s e = Some s' -> u <> actor e -> Forall (P4 s') (thr s' u).
Proof.
  intros I H Hu. rewrite (step_other_thr _ _ _ _ H Hu).
  destruct (built s) eqn:Hb.
  - destruct (step_built _ _ _ H Hb) as (_ & Hi & _).
    eapply Forall_impl; [|apply (i4_thr _ I u)]. intros a. apply P4_mono; auto.
    intros d. eapply step_done_mono; eauto.
  - destruct (i4_unb _ I Hb) as (Ht & _). rewrite Ht. constructor.
Qed.

Lemma in_fires_P4 s esf d r : I4 s -> fdone (esf d) = true ->
  Forall (P4f esf (inputs s)) r -> Forall (P4f esf (inputs s)) (in_fires s d r).
Proof.
  intros I Hd Hr. unfold in_fires. apply Forall_app. split; [|exact Hr].
  apply Forall_flat_map_in. intros i Hin. destruct (i4_ecbs _ I d i Hin) as [E L].
  repeat constructor; simpl; auto.
Qed.

Lemma f_cancel_fires_done p f b : f_cancel p = (f, b) -> f_cancel_fires p = true -> fdone f = true.
Proof. destruct p; simpl; intros H; inversion H; subst; auto; discriminate. Qed.
Lemma f_set_done p f : f_set p = Some f -> fdone f = true.
Proof. destruct p; simpl; intros H; inversion H; subst; auto. Qed.

Lemma I4_thr_actor s e s' : I4 s -> step s e = Some s' -> Forall (P4 s') (thr s' (actor e)).
Proof.
  intros I H.
  assert (M : thr s (actor e) <> [] -> forall a, P4 s a -> P4 s' a).
  { intros Hne a. destruct (built s) eqn:Hb.
    - apply P4_mono; [apply (step_built _ _ _ H Hb)|]. intros d. eapply step_done_mono; eauto.
    - exfalso. apply Hne. apply (i4_unb _ I Hb). }
  destruct e; simpl actor in *; pose proof (i4_thr _ I t) as It; step_inv H;
  try match goal with Hq : thr _ _ = _ |- _ => rewrite Hq in It, M end;
  try (specialize (M ltac:(discriminate)); apply (Forall_impl _ M) in It); clear M; simpl in It; fa_hyps;
  simpl; rewrite ?upd_same; fold_retb; try (apply Forall_norm; [apply P4_dead|]);
  try solve [fa_tac ltac:(unfold P4f, input_at in *; simpl in *; clean; auto)];
  try assumption;
  try (apply in_fires_P4; auto; rewrite ?upd_same;
       solve [eapply f_cancel_fires_done; eauto | eapply f_set_done; eauto | constructor]).
  constructor; [exact Logic.I|]. apply Forall_app. split; [|repeat constructor].
  apply Forall_flat_map_in. intros i Hin. apply in_seq in Hin. repeat constructor; simpl; lia.
  all: try apply (i4_thr _ I). rewrite Heql; constructor.
Qed.

Lemma nonempty_built s t : I4 s -> thr s t <> [] -> built s = true.
Proof.
  intros I H. destruct (built s) eqn:Hb; auto. exfalso. apply H. apply (i4_unb _ I Hb).
Qed.

Lemma I4_ecbs s e s' : I4 s -> step s e = Some s' ->
  forall d i, In i (ecbs s' d) -> d = input_at s' i /\ i < length (inputs s').
Proof.
  intros I H x j. pose proof (i4_ecbs _ I) as He.
  destruct e; pose proof (i4_thr _ I t) as It; step_inv H; unfold input_at in *; simpl; auto;
  try match goal with Hq : thr _ _ = _ |- _ => rewrite Hq in It end; fa_hyps;
  unfold upd; try (destruct (Nat.eqb x _) eqn:E; clean; simpl; auto; try contradiction).
  - clean. destruct (i4_unb _ I H) as (_ & Hn & _). rewrite Hn. contradiction.
  - intros Hin. apply in_app_or in Hin. destruct Hin as [Hin|[<-|[]]]; auto.
Qed.

Lemma I4_fsd s e s' : I4 s -> step s e = Some s' ->
  forall x, In x (inputs s') -> ~ In x (fsd s') -> fdone (es s' x) = true.
Proof.
  intros I H x. pose proof (i4_fsd _ I x) as Hf.
  assert (Hm := step_done_mono _ _ _ x H).
  destruct e; pose proof (i4_thr _ I t) as It; step_inv H; simpl in *; auto;
  try match goal with Hq : thr _ _ = _ |- _ => rewrite Hq in It end; fa_hyps.
  - intros Hin Hn. exfalso. apply Hn. apply dedup_in. exact Hin.
  - intros Hin Hn. rewrite remove_id_in in Hn. destruct (Nat.eq_dec x d) as [->|Hx]; [apply Hhd|].
    apply Hf; auto.
  - intros Hin Hn. rewrite remove_id_in in Hn. destruct (Nat.eq_dec x d) as [->|Hx]; [apply Hhd|].
    apply Hf; auto.
Qed.

Lemma I4_step s e s' : I4 s -> step s e = Some s' -> I4 s'.
Proof.
  intros I H. constructor.
  - eapply I4_unb; eauto.
  - eapply I4_es; eauto.
  - eapply I4_eout; eauto.
  - intros u. destruct (Nat.eq_dec u (actor e)) as [->|Hu]; [eapply I4_thr_actor|eapply I4_thr_other]; eauto.
  - eapply I4_ecbs; eauto.
  - eapply I4_fsd; eauto.
Qed.

Lemma I4_reach s : reachable s -> I4 s.
Proof. apply invariant_rule; [exact I4_init|]. intros; eapply I4_step; eauto. Qed.
