(* THE GENERAL THEOREM.  For every set of loop paths with good_wpaths = true and every set of producer paths
   with good_ppaths = true, for every oracle: each trace of LoopIR.lstep is a trace of EventLoop.step, with
   related end states (the relation maps what is left of the worker's iteration to EventLoop's wpc through the
   protocol automaton of LoopIR, and a producer thread "between mutation and set" to a thread whose call still
   has a set() to come). *)
From Coq Require Import List Bool Arith Lia.
From ME Require Import Base.Machine Model.EventLoop Model.LoopIR.
Import ListNotations.

Definition wpc_of (a : ast) : wpc := match a with AScan => WScan | AWait => WWait | AClear => WClear end.
Definition is_mut (p : ppc) : bool := match p with PMutated => true | PIdle => false end.

Record R (s : lst) (s' : st) : Prop := {
  r_work : lwork s = work s';
  r_flag : lflag s = flag s';
  r_wp : exists a, path_ok a (lrest s) = true
                   /\ wp s' = match lblk s with Some (n, _) => WBlocked n | None => wpc_of a end
                   /\ (lblk s <> None -> a = AClear);
  r_prod : forall t, prun (is_mut (prod s' t)) (pres s t) = false
}.

Lemma R_init : R linit init.
Proof.
  constructor; simpl; auto. exists AScan. repeat split. intros H. congruence.
Qed.

(* ---- paths ------------------------------------------------------------------------------------------ *)
Lemma path_ok_cons a x r : path_ok a (x :: r) = true -> exists a', astep a x = Some a' /\ path_ok a' r = true.
Proof.
  unfold path_ok. simpl. destruct (astep a x) as [a'|]; [|discriminate]. intros H. exists a'. split; auto.
Qed.

Lemma path_ok_nil a : path_ok a [] = true -> boundary a = true.
Proof. unfold path_ok. simpl. auto. Qed.

Lemma good_wpaths_nth WP n a : good_wpaths WP = true -> boundary a = true ->
  nth n WP [] = [] \/ path_ok a (nth n WP []) = true.
Proof.
  intros G B. destruct (nth_in_or_default n WP []) as [I|E]; [|left; exact E]. right.
  unfold good_wpaths in G. rewrite forallb_forall in G. specialize (G _ I).
  apply andb_true_iff in G. destruct G as [G1 G2]. destruct a; [exact G1|exact G2|discriminate].
Qed.

Lemma good_ppaths_nth PP n : good_ppaths PP = true -> prun false (nth n PP []) = false.
Proof.
  intros G. destruct (nth_in_or_default n PP []) as [I|E]; [|rewrite E; reflexivity].
  unfold good_ppaths in G. rewrite forallb_forall in G. specialize (G _ I).
  apply negb_true_iff in G. exact G.
Qed.

Section Sim.
  Variable WP : list (list wact).
  Variable PP : list (list pact).
  Variable o : oracle.
  Hypothesis GW : good_wpaths WP = true.
  Hypothesis GP : good_ppaths PP = true.

  (* what the worker fetches continues a good path from the current automaton state *)
  Lemma wfetch_ok s a x r n : path_ok a (lrest s) = true -> wfetch WP o s = Some (x, r, n) ->
    exists a', astep a x = Some a' /\ path_ok a' r = true.
  Proof.
    unfold wfetch. intros P F. destruct (lrest s) as [|y q] eqn:E.
    - apply path_ok_nil in P.
      destruct (good_wpaths_nth WP (wch o (liter s)) a GW P) as [N|N].
      + rewrite N in F. discriminate.
      + destruct (nth (wch o (liter s)) WP []) as [|y q]; [discriminate|].
        inversion F; subst. apply path_ok_cons. exact N.
    - inversion F; subst. apply path_ok_cons. exact P.
  Qed.

  (* what a producer thread fetches keeps "pending -> a set is still to come" *)
  Lemma pfetch_ok s t b x r n : prun b (pres s t) = false -> pfetch PP o s t = Some (x, r, n) ->
    prun b (x :: r) = false.
  Proof.
    unfold pfetch. intros P F. destruct (pres s t) as [|y q] eqn:E.
    - simpl in P. subst b.
      pose proof (good_ppaths_nth PP (pch o t (pcall s t)) GP) as N.
      destruct (nth (pch o t (pcall s t)) PP []) as [|y q]; [discriminate|].
      inversion F; subst. exact N.
    - inversion F; subst. exact P.
  Qed.

  Lemma upd_prun (pr : nat -> ppc) (ps : nat -> list pact) t v r u :
    (forall u, prun (is_mut (pr u)) (ps u) = false) -> prun (is_mut v) r = false ->
    prun (is_mut (upd pr t v u)) (upd ps t r u) = false.
  Proof.
    intros H Hv. unfold upd. destruct (Nat.eqb u t); [exact Hv|apply H].
  Qed.

  Lemma sim_step s s' e s1 : R s s' -> lstep WP PP o s e = Some s1 ->
    exists s1', step s' e = Some s1' /\ R s1 s1'.
  Proof.
    intros [Rw Rf [a [Pa [Wa Ba]]] Rp] H. destruct e as [t|t| | | | |]; simpl in H.
    - (* ProdMutate *)
      destruct (pfetch PP o s t) as [[[x r] n]|] eqn:F; [|discriminate]. destruct x; [|discriminate].
      inversion H; subst; clear H. eexists. split; [reflexivity|].
      pose proof (pfetch_ok s t _ _ _ _ (Rp t) F) as Q. simpl in Q.
      constructor; simpl; auto.
      + exists a. auto.
      + intros u. apply upd_prun; auto.
    - (* ProdSet *)
      destruct (pfetch PP o s t) as [[[x r] n]|] eqn:F; [|discriminate]. destruct x; [discriminate|].
      inversion H; subst; clear H. eexists. split; [reflexivity|].
      pose proof (pfetch_ok s t _ _ _ _ (Rp t) F) as Q. simpl in Q.
      constructor; simpl; auto.
      + exists a. split; [exact Pa|]. rewrite Wa. destruct (lblk s) as [[nt tm]|] eqn:B.
        * split; [reflexivity|]. intros _. apply Ba. congruence.
        * split; [destruct a; reflexivity|]. intros C. congruence.
      + intros u. apply upd_prun; auto.
    - (* WorkerScan *)
      destruct (lblk s) as [[nt tm]|] eqn:B; [discriminate|].
      destruct (wfetch WP o s) as [[[x r] n]|] eqn:F; [|discriminate]. destruct x; try discriminate.
      inversion H; subst; clear H.
      destruct (wfetch_ok s a _ _ _ Pa F) as [a' [A P']].
      try rewrite B in Wa. destruct a; simpl in A; try discriminate; inversion A; subst; simpl in Wa; simpl; rewrite Wa.
      + eexists. split; [reflexivity|]. constructor; simpl; auto.
        exists AWait. repeat split; auto; try (intros C; congruence).
      + eexists. split; [reflexivity|]. constructor; simpl; auto.
        exists AWait. repeat split; auto; try (intros C; congruence).
    - (* WorkerWait *)
      destruct (lblk s) as [[nt tm]|] eqn:B; [discriminate|].
      destruct (wfetch WP o s) as [[[x r] n]|] eqn:F; [|discriminate]. destruct x as [|tm|]; try discriminate.
      inversion H; subst; clear H.
      destruct (wfetch_ok s a _ _ _ Pa F) as [a' [A P']].
      try rewrite B in Wa. destruct a; simpl in A; try discriminate; inversion A; subst; simpl in Wa; simpl; rewrite Wa.
      eexists. split; [reflexivity|]. constructor; simpl; auto.
      exists AClear. split; [exact P'|]. rewrite <- Rf. destruct (lflag s).
      + split; [reflexivity|]. intros C; congruence.
      + split; [reflexivity|]. reflexivity.
    - (* WorkerWoke *)
      destruct (lblk s) as [[nt tm]|] eqn:B; [|discriminate]. destruct nt; [|discriminate].
      inversion H; subst; clear H. try rewrite B in Wa. simpl. rewrite Wa.
      eexists. split; [reflexivity|]. constructor; simpl; auto.
      exists AClear. assert (a = AClear) by (apply Ba; congruence). subst a.
      repeat split; auto; try (intros C; congruence).
    - (* WorkerClear *)
      destruct (lblk s) as [[nt tm]|] eqn:B; [discriminate|].
      destruct (wfetch WP o s) as [[[x r] n]|] eqn:F; [|discriminate]. destruct x; try discriminate.
      inversion H; subst; clear H.
      destruct (wfetch_ok s a _ _ _ Pa F) as [a' [A P']].
      try rewrite B in Wa. destruct a; simpl in A; try discriminate; inversion A; subst; simpl in Wa; simpl; rewrite Wa.
      eexists. split; [reflexivity|]. constructor; simpl; auto.
      exists AScan. repeat split; auto; try (intros C; congruence).
    - (* WorkerTimeout *)
      destruct (lblk s) as [[nt tm]|] eqn:B; [|discriminate]. destruct tm; [|discriminate].
      inversion H; subst; clear H. try rewrite B in Wa. simpl. rewrite Wa.
      eexists. split; [reflexivity|]. constructor; simpl; auto.
      exists AClear. assert (a = AClear) by (apply Ba; congruence). subst a.
      repeat split; auto; try (intros C; congruence).
  Qed.

  Lemma sim_run tr : forall s s' s1, R s s' -> run (lstep WP PP o) s tr = Some s1 ->
    exists s1', run step s' tr = Some s1' /\ R s1 s1'.
  Proof.
    induction tr as [|e r IH]; simpl; intros s s' s1 HR H.
    - inversion H; subst. exists s'. split; auto.
    - destruct (lstep WP PP o s e) as [s2|] eqn:E; [|discriminate].
      destruct (sim_step _ _ _ _ HR E) as [s2' [E' HR']]. rewrite E'. eapply IH; eauto.
  Qed.

  (* every trace of the loop + producers is a trace of the generic protocol machine *)
  Theorem trace_inclusion tr s : run (lstep WP PP o) linit tr = Some s ->
    exists s', run step init tr = Some s' /\ R s s'.
  Proof. apply sim_run. exact R_init. Qed.

  Corollary reachable_related s : reachable_from (lstep WP PP o) linit s ->
    exists s', reachable_from step init s' /\ R s s'.
  Proof.
    intros [tr H]. destruct (trace_inclusion tr s H) as [s' [H' HR]]. exists s'. split; [exists tr; exact H'|exact HR].
  Qed.

  Lemma prun_true_in r : prun true r = false -> In PASet r.
  Proof.
    induction r as [|x r IH]; simpl; [discriminate|]. destruct x; [intros H; right; auto|intros _; left; reflexivity].
  Qed.

  (* transferred: a worker blocked in wait() un-notified with unseen work - timed or not - coexists with a
     producer thread that is inside a call with its set() still to come *)
  Theorem l_no_lost_wakeup s tm : reachable_from (lstep WP PP o) linit s ->
    lblk s = Some (false, tm) -> lwork s > 0 -> exists t, In PASet (pres s t).
  Proof.
    intros HR B W. destruct (reachable_related s HR) as [s' [HR' [Rw Rf [a [Pa [Wa Ba]]] Rp]]].
    try rewrite B in Wa. destruct (no_lost_wakeup s' HR' Wa) as [t Ht]; [lia|].
    exists t. apply prun_true_in. specialize (Rp t). rewrite Ht in Rp. exact Rp.
  Qed.

  (* transferred: every producer call returned, worker asleep un-notified => nothing unseen *)
  Theorem l_quiescent_no_unseen_work s tm : reachable_from (lstep WP PP o) linit s ->
    lblk s = Some (false, tm) -> (forall t, pres s t = []) -> lwork s = 0.
  Proof.
    intros HR B Q. destruct (Nat.eq_dec (lwork s) 0) as [|N]; auto.
    destruct (l_no_lost_wakeup s tm HR B) as [t Ht]; [lia|]. rewrite Q in Ht. destruct Ht.
  Qed.

  (* a blocked un-notified worker has the flag clear, a notified one has it ... set unless... (only the first) *)
  Theorem l_blocked_flag_clear s tm : reachable_from (lstep WP PP o) linit s ->
    lblk s = Some (false, tm) -> lflag s = false.
  Proof.
    intros HR B. destruct (reachable_related s HR) as [s' [HR' [Rw Rf [a [Pa [Wa Ba]]] Rp]]].
    try rewrite B in Wa. rewrite Rf. exact (i_blocked _ (reachable_inv s' HR') Wa).
  Qed.
End Sim.
