(* C12 / Throttle (part B): the events that change nothing the invariant InvK looks at but the program of the
   acting thread. *)
From Coq Require Import ZArith List Bool Arith Lia.
From RecordUpdate Require Import RecordSet.
From ME Require Import Base.Machine Base.Fut Base.GenPrelude Gen.ThrottleGen Model.Throttle
  Proofs.Throttle_Spec Proofs.Throttle_Inv Proofs.Throttle_Fifo Proofs.Keep_Throttle_A.
Import ListNotations RecordSetNotations.

Lemma do_new_invK s b dy v s' : InvK s -> do_new s b dy v = Some s' -> InvK s'.
Proof.
  intros IK Hx. unfold do_new in Hx. brk Hx. inv_some Hx.
  match goal with E : _ || _ = false |- _ => apply orb_false_elim in E; destruct E as [_ E] end.
  assert (Et : thr s H = []) by (destruct (thr s H); [reflexivity|discriminate]).
  apply (invK_plain s _ H s [IHStart] IK); try reflexivity; rewrite Et; [ext_tac|exact Logic.I].
Qed.
Lemma do_hstart_invK s s' : InvK s -> do_hstart s = Some s' -> InvK s'.
Proof. intros IK Hx. unfold do_hstart in Hx. khandler IK Hx s. Qed.
Lemma do_exit_invK s s' : InvK s -> do_exit s = Some s' -> InvK s'.
Proof. intros IK Hx. unfold do_exit in Hx. khandler IK Hx s. Qed.
Lemma do_call_submit_invK s t s' : InvK s -> do_call_submit s t = Some s' -> InvK s'.
Proof.
  intros IK Hx. unfold do_call_submit in Hx. brk Hx. inv_some Hx.
  match goal with E : idle s t = true |- _ => pose proof (idle_nil s t E) as Et end. kplain IK s.
Qed.
Lemma do_call_shutdown_invK s t w s' : InvK s -> do_call_shutdown s t w = Some s' -> InvK s'.
Proof.
  intros IK Hx. unfold do_call_shutdown in Hx. brk Hx. inv_some Hx.
  match goal with E : idle s t = true |- _ => pose proof (idle_nil s t E) as Et end. kplain IK s.
Qed.
Lemma do_call_cancel_invK s t j s' : InvK s -> do_call_cancel s t j = Some s' -> InvK s'.
Proof.
  intros IK Hx. unfold do_call_cancel in Hx. brk Hx. inv_some Hx.
  match goal with E : _ && _ = true |- _ => apply andb_prop in E; destruct E as [E _]; pose proof (idle_nil s t E) as Et end.
  kplain IK s.
Qed.
Lemma do_ret_invK s t c s' : InvK s -> do_ret s t c = Some s' -> InvK s'.
Proof. intros IK Hx. unfold do_ret in Hx. khandler IK Hx s. Qed.
Lemma do_acq_g_invK s t s' : InvK s -> do_acq_g s t = Some s' -> InvK s'.
Proof. intros IK Hx. unfold do_acq_g in Hx. khandler IK Hx s. Qed.
Lemma do_rel_g_invK s t s' : InvK s -> do_rel_g s t = Some s' -> InvK s'.
Proof. intros IK Hx. unfold do_rel_g in Hx. khandler IK Hx s. Qed.
Lemma do_count_invK s t a s' : InvK s -> do_count s t a = Some s' -> InvK s'.
Proof. intros IK Hx. unfold do_count in Hx. khandler IK Hx s. Qed.
Lemma do_xacq_invK s t s' : InvK s -> do_xacq s t = Some s' -> InvK s'.
Proof. intros IK Hx. unfold do_xacq in Hx. khandler IK Hx s. Qed.
Lemma do_relx_invK s t s' : InvK s -> do_relx s t = Some s' -> InvK s'.
Proof. intros IK Hx. unfold do_relx in Hx. khandler IK Hx s. Qed.
Lemma do_rcread_invK s t x s' : InvK s -> do_rcread s t x = Some s' -> InvK s'.
Proof. intros IK Hx. unfold do_rcread in Hx. khandler IK Hx s. Qed.
Lemma do_pop_invK s t s' : InvK s -> do_pop s t = Some s' -> InvK s'.
Proof. intros IK Hx. unfold do_pop in Hx. khandler IK Hx s. Qed.
Lemma do_acq_a_invK s t s' : InvK s -> do_acq_a s t = Some s' -> InvK s'.
Proof. intros IK Hx. unfold do_acq_a in Hx. khandler IK Hx s. Qed.
Lemma do_rel_a_invK s t s' : InvK s -> do_rel_a s t = Some s' -> InvK s'.
Proof. intros IK Hx. unfold do_rel_a in Hx. khandler IK Hx s. Qed.
Lemma do_evset_invK s t s' : InvK s -> do_evset s t = Some s' -> InvK s'.
Proof. intros IK Hx. unfold do_evset in Hx. khandler IK Hx s. Qed.
Lemma do_wait_invK s t r s' : InvK s -> do_wait s t r = Some s' -> InvK s'.
Proof. intros IK Hx. unfold do_wait in Hx. khandler IK Hx s. Qed.
Lemma do_woke_invK s t k s' : InvK s -> do_woke s t k = Some s' -> InvK s'.
Proof. intros IK Hx. unfold do_woke in Hx. khandler IK Hx s. Qed.
Lemma do_clear_invK s t s' : InvK s -> do_clear s t = Some s' -> InvK s'.
Proof. intros IK Hx. unfold do_clear in Hx. khandler IK Hx s. Qed.
Lemma do_dshutdown_invK s t s' : InvK s -> do_dshutdown s t = Some s' -> InvK s'.
Proof. intros IK Hx. unfold do_dshutdown in Hx. khandler IK Hx s. Qed.
Lemma do_rel_m_invK s t j s' : InvK s -> do_rel_m s t j = Some s' -> InvK s'.
Proof. intros IK Hx. unfold do_rel_m in Hx. khandler IK Hx s. Qed.
