(* C02 / Timeout, clause (d), part D1: every step of the machine has one of the seven shapes of Proto_Timeout_D.v. *)
From Coq Require Import ZArith List Bool Arith Lia.
From RecordUpdate Require Import RecordSet.
From ME Require Import Base.Machine Base.Fut Base.GenPrelude Gen.TimeoutGen Proofs.Timeout_Spec Model.Timeout
  Proofs.Timeout_Inv Proofs.Proto_Timeout_P Proofs.Proto_Timeout_P1 Proofs.Proto_Timeout_P2 Proofs.Proto_Timeout_D.
Import ListNotations RecordSetNotations.

Lemma sync_dshape s e s' : step_sync s e = Some s' -> dshape s e s'.
Proof.
  intros Hx. destruct e; cbn [step_sync] in Hx; try discriminate.
  - (* EXSec *) brk Hx; inv_some Hx; eqs; plain s.
  - (* EXAcq *) brk Hx; inv_some Hx; eqs; plain s.
  - (* EXRel *) brk Hx; inv_some Hx; eqs; plain_mid s.
  - (* EEvSet *) brk Hx; inv_some Hx; eqs; plain s.
  - (* EAcqM *) brk Hx; inv_some Hx; eqs; plain s.
  - (* ERelM *) brk Hx; inv_some Hx; eqs; try solve [plain s].
    match goal with Et : thr s ?t = IRelMCbs ?j :: ?rest |- dshape _ _ (set_prog ?s1 _ _) =>
      apply (DRun s _ _ t j rest s1); [exact Et|reflexivity|reflexivity|triv_h|triv_h] end.
  - (* EAcqG *) brk Hx; inv_some Hx; eqs; plain s.
  - (* ERelG *) brk Hx; inv_some Hx; eqs; plain s.
  - (* EClock *) brk Hx; inv_some Hx; eqs; first [solve [plain s] | plain_mid s].
  - (* EWWait *) brk Hx; inv_some Hx; wv; plain s.
  - (* EWWoke *) brk Hx; inv_some Hx; eqs; plain s.
  - (* EWClear *) brk Hx; inv_some Hx; eqs; plain s.
Qed.

Lemma call_dshape s e s' : step_call s e = Some s' -> dshape s e s'.
Proof.
  intros Hx. destruct e; cbn [step_call] in Hx; try discriminate.
  - (* ECallSubmit *) brk Hx; inv_some Hx; plain s.
  - (* ECallCancel *) brk Hx; inv_some Hx; plain s.
  - (* ECallAddCb *) brk Hx; inv_some Hx.
    match goal with Et : thr s ?t = [] |- dshape _ (ECallAddCb _ ?j ?c) (set_prog ?s1 _ _) =>
      apply (DReg s _ _ t j c s1); [reflexivity|exact Et|reflexivity|reflexivity|triv_h] end.
  - (* ERet *) brk Hx; inv_some Hx; eqs; plain s.
  - (* EUserCb *) brk Hx; inv_some Hx; eqs.
    match goal with Et : thr s ?t = IUserCb ?j ?c :: ?rest |- dshape _ _ (log (set_prog ?s1 _ _) (HCb _ _ ?ts)) =>
      apply (DCb s _ _ t j c rest s1 ts); [exact Et|reflexivity|reflexivity|reflexivity|triv_h] end.
  - (* EDSubmit *) brk Hx; inv_some Hx; eqs;
    match goal with Et : thr s ?t = IDSubmit ?tmo :: ?rest |- dshape _ _ (log (set_prog ?s1 _ _) _) =>
      apply (DPlain s _ _ t [IDSubmit tmo] (submit_prog (nfut s) (ndel s) tmo) rest s1);
        [exact Et|reflexivity|reflexivity|reflexivity|reflexivity|triv_h|triv_h] end.
  - (* EEnvRun *) brk Hx; inv_some Hx. apply DNone; [reflexivity|reflexivity|triv_h|triv_h].
  - (* EEnvFinish *) brk Hx; inv_some Hx; plain s.
Qed.

Lemma fd_dshape s t op d p s' : step_fd s t op d p = Some s' -> dshape s (EFD t op d p) s'.
Proof.
  intros Hx. unfold step_fd in Hx. brk Hx; inv_some Hx; eqs; plain s.
Qed.

Lemma fr_dshape s t op j p s' : step_fr s t op j p = Some s' -> dshape s (EFR t op j p) s'.
Proof.
  intros Hx. unfold step_fr in Hx.
  destruct (negb (fstate_eqb p (rs s j))) eqn:Epre; [discriminate|]. apply pre_eq in Epre. subst p.
  brk Hx; inv_some Hx; eqs;
    first
    [ solve [plain s]
    | solve [match goal with Et : thr s ?t = IDoneA ?j0 ?k :: ?rest, Ed : fdone _ = true |- dshape _ _ (set_prog ?s1 _ _) =>
        apply (DAddDone s _ _ t j0 k rest s1); [exact Et|exact Ed|reflexivity|reflexivity|triv_h|triv_h] end]
    | solve [match goal with Et : thr s ?t = IDoneA ?j0 ?k :: ?rest |- dshape _ _ (set_prog ?s1 _ _) =>
        apply (DAddPend s _ _ t j0 k rest s1); [exact Et|reflexivity|reflexivity|triv_h|triv_h] end]
    | (* tolerated InvalidStateError *)
      solve [match goal with Et : thr s ?t = ?i :: ?rest, Es : skip_cbs ?rest = Some ?r |- dshape _ _ (log (set_prog ?s1 _ (IRelM ?j0 :: _)) _) =>
        let jx := fresh "jx" in
        apply skip_cbs_inv in Es; destruct Es as [jx Es]; subst rest;
        apply (DPlain s _ _ t [i; IRelMCbs jx] [IRelM j0] r s1); [exact Et|reflexivity|reflexivity|reflexivity|reflexivity|triv_h|triv_h] end] ].
Qed.

Lemma step0_dshape s e s' : step0 s e = Some s' -> dshape s e s'.
Proof.
  intros Hx. destruct e; cbn [step0] in Hx;
    first [ eapply fr_dshape; eassumption | eapply fd_dshape; eassumption
          | eapply call_dshape; eassumption | eapply sync_dshape; eassumption ].
Qed.
