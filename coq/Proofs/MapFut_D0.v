(* Infrastructure: loud step (step with set_prog replaced by a plain program update) + silent micro-steps. *)
From Coq Require Import ZArith List Bool Arith Lia Relations.
From RecordUpdate Require Import RecordSet.
From ME Require Import Base.Machine Base.Fut Base.GenPrelude Model.MapFut.
Import ListNotations RecordSetNotations.

Definition set_thr (s : st) (t : nat) (p : list instr) : st := s <| thr := upd (thr s) t p |>.

Section Gen.
Variable sp : st -> nat -> list instr -> st.
Definition step_gen (s : st) (e : ev) : option st :=
  match e with
  | ECallNew t j k hasfn hasefn d =>
      match thr s t with
      | [] => if negb (Nat.eqb j (nfut s)) then None else
              Some (log (sp (s <| nfut := S j |> <| ms := upd (ms s) j Pending |> <| mout := upd (mout s) j None |>
                                     <| mcbs := upd (mcbs s) j [] |> <| mreg := upd (mreg s) j [] |> <| mdel := upd (mdel s) j None |>
                                     <| mkind := upd (mkind s) j k |> <| mflat := upd (mflat s) j false |>
                                     <| mfn := upd (mfn s) j hasfn |> <| mefn := upd (mefn s) j hasefn |>
                                     <| mown := upd (mown s) j None |>)
                                  t [IAcqMSet j (Some d) false; IRelM j; IAddCbE d j; IRet]) (HNew j d))
      | _ => None
      end
  | ECallCancel t j =>
      match thr s t with
      | [] => if negb (j <? nfut s) then None else
              Some (log (sp (s <| cancelling := upd (cancelling s) t (Some j) |>) t [IAcqM j; ICancelled j]) (HCancelCall j))
      | _ => None
      end
  | ECallAddCb t j c =>
      match thr s t with
      | [] => if negb (j <? nfut s) || existsb (Nat.eqb c) (mreg s j) then None
              else Some (sp (s <| mreg := upd (mreg s) j (c :: mreg s j) |>) t [IAcqM j; IDoneA j c])
      | _ => None
      end
  | ERet t code =>
      match thr s t with
      | IRet :: rest => if Nat.eqb code 0 then Some (sp s t rest) else None
      | IRetRaise :: rest => if Nat.eqb code 9 then Some (sp s t rest) else None
      | IRetB b :: rest =>
          if Nat.eqb code (if b then 2 else 1) then
            match cancelling s t with
            | Some j => Some (log (sp (s <| cancelling := upd (cancelling s) t None |>) t rest) (HCancelRet j b))
            | None => None
            end
          else None
      | _ => None
      end
  | EAcqM t j =>
      match thr s t, mown s j with
      | IAcqM j' :: rest, None =>
          if Nat.eqb j j' then Some (sp (s <| mown := upd (mown s) j (Some (t, 1)) |>) t rest) else None
      | IAcqMSet j' x fl :: rest, None =>
          if Nat.eqb j j' then Some (sp (s <| mown := upd (mown s) j (Some (t, 1)) |> <| mdel := upd (mdel s) j x |>
                                                <| mflat := upd (mflat s) j (fl || mflat s j) |>) t rest)
          else None
      | _, _ => None
      end
  | ERelM t j =>
      match thr s t, mown s j with
      | IRelM j' :: rest, Some (t', 1) =>
          if Nat.eqb j j' && Nat.eqb t t' then Some (sp (s <| mown := upd (mown s) j None |>) t rest) else None
      | IRelMCbs j' :: rest, Some (t', 1) =>
          if Nat.eqb j j' && Nat.eqb t t' then
            Some (sp (s <| mown := upd (mown s) j None |> <| mcbs := upd (mcbs s) j [] |>) t
                           (map (fun c => IUserCb j c false) (mcbs s j) ++ rest))
          else None
      | _, _ => None
      end
  | EFM t op j pre =>
      if negb (fstate_eqb pre (ms s j)) then None else
      match thr s t, op with
      | ICancelled j' :: rest, 0 =>
          if negb (Nat.eqb j j') then None else
          if fcancelled pre then Some (sp s t (IRelM j :: IRetB true :: rest)) else Some (sp s t (IDoneC j :: rest))
      | IDoneC j' :: rest, 1 =>
          if negb (Nat.eqb j j') then None else
          if fdone pre then Some (sp s t (IRelM j :: IRetB false :: rest)) else
          match mdel s j with
          | Some d => Some (sp s t (IDCancel j d :: rest))
          | None => Some (sp s t (IRelM j :: IRetB false :: rest))
          end
      | IDoneA j' c :: rest, 1 =>
          if negb (Nat.eqb j j') then None else
          if fdone pre then Some (sp s t (IRelM j :: IUserCb j c true :: IRet :: rest))
          else Some (sp (s <| mcbs := upd (mcbs s) j (mcbs s j ++ [c]) |>) t (IRelM j :: IRet :: rest))
      | IDoneQ j' cont :: rest, 1 =>
          if negb (Nat.eqb j j') then None else
          if fdone pre then Some (sp s t rest) else
          match cont with
          | Some x => Some (sp s t (on_mapped s j x ++ rest))
          | None => Some (sp s t (on_mapped s j (MVal none_value) ++ rest))
          end
      | IFCancel j' :: rest, 2 =>
          if negb (Nat.eqb j j') then None else
          let '(n, b) := f_cancel pre in
          if b then Some (log (sp (s <| ms := upd (ms s) j n |>) t rest) (HCancelled j)) else None
      | IFSrnc j' :: rest, 3 =>
          if negb (Nat.eqb j j') then None else
          match f_srnc pre with Some (n, _) => Some (sp (s <| ms := upd (ms s) j n |>) t rest) | None => None end
      | IFSetRes j' v :: rest, 4 =>
          if negb (Nat.eqb j j') then None else
          match f_set pre with
          | Some n => Some (log (sp (s <| ms := upd (ms s) j n |> <| mout := upd (mout s) j (Some (Ok v)) |>) t rest) (HSet j (Ok v)))
          | None => Some (log (sp s t (IRelM j :: tl rest)) (HSetLost j))
          end
      | IFSetExc j' e :: rest, 6 =>
          if negb (Nat.eqb j j') then None else
          match f_set pre with
          | Some n => Some (log (sp (s <| ms := upd (ms s) j n |> <| mout := upd (mout s) j (Some (Err e)) |>) t rest) (HSet j (Err e)))
          | None => Some (log (sp s t (IRelM j :: tl rest)) (HSetLost j))
          end
      | _, _ => None
      end
  | EFE t op d pre =>
      if negb (fstate_eqb pre (es s d)) then None else
      match thr s t, op with
      | IAddCbE d' j :: rest, 5 =>
          if negb (Nat.eqb d d') then None else
          if fdone pre then Some (sp s t (resolved_prog j d ++ rest))
          else Some (sp (s <| ecbs := upd (ecbs s) d (ecbs s d ++ [j]) |>) t rest)
      | IDCancelledQ j d' :: rest, 0 =>
          if negb (Nat.eqb d d') then None else
          if fcancelled pre then Some (sp s t (IThrow :: rest))      (* plain `return`: unwinds to the enclosing frame *)
          else
            match oc_of s d with
            | Err e => if mefn s j && negb (mflat s j) then Some (sp s t (IUserEfn j d :: rest))
                       else Some (sp s t (setexc_prog j e ++ IDoneQ j None :: rest))
            | Ok v => if mflat s j then Some (sp s t (on_mapped s j (MVal v) ++ rest))
                      else if mfn s j then Some (sp s t (IUserFn j d :: rest))
                      else match mkind s j with
                           | KMap => Some (sp s t (on_mapped s j (MVal v) ++ rest))
                           | KFlat => None      (* flat_map without fn wraps through f_return: not in this machine *)
                           end
            end
      | IDCancel j d' :: rest, 2 =>
          if negb (Nat.eqb d d') then None else
          let '(n, b) := f_cancel pre in
          let s1 := log (s <| es := upd (es s) d n |>) (HDCancel j d b) in
          if b then
            let cont := IFCancel j :: IFSrnc j :: IRelMCbs j :: IRetB true :: rest in
            if f_cancel_fires pre then Some (sp (s1 <| ecbs := upd (ecbs s1) d [] |>) t (fires s d cont))
            else Some (sp s1 t cont)
          else Some (sp s1 t (IRelM j :: IRetB false :: rest))
      | _, _ => None
      end
  | EUserFn t a =>
      match thr s t with
      | IUserFn j d :: rest =>
          let s1 := log s (HFn j d a) in
          match a with
          | ARet v => Some (sp s1 t (on_mapped s j (MVal v) ++ rest))
          | ARetFut d' => Some (sp s1 t (on_mapped s j (MFut d') ++ rest))
          | ARaise e => Some (sp s1 t (setexc_prog j e ++ IThrow :: rest))
          | ARaiseSame => None
          end
      | _ => None
      end
  | EUserEfn t a =>
      match thr s t with
      | IUserEfn j d :: rest =>
          let s1 := log s (HEfn j d a) in
          match a, oc_of s d with
          | ARet v, _ => Some (sp s1 t (IDoneQ j (Some (MVal v)) :: rest))
          | ARetFut d', _ => Some (sp s1 t (IDoneQ j (Some (MFut d')) :: rest))
          | ARaise e, _ => Some (sp s1 t (setexc_prog j e ++ IDoneQ j None :: rest))
          | ARaiseSame, Err e => Some (sp s1 t (setexc_prog j e ++ IDoneQ j None :: rest))
          | ARaiseSame, Ok _ => None
          end
      | _ => None
      end
  | EUserCb t j c raises =>
      match thr s t with
      | IUserCb j' c' direct :: rest =>
          if Nat.eqb j j' && Nat.eqb c c' then
            (* an exception from a callback is logged and swallowed on both paths *)
            Some (log (sp s t rest) (HCb j c))
          else None
      | _ => None
      end
  | EEnvRun t d pre =>
      match thr s t with
      | [] => if negb (fstate_eqb pre (es s d)) then None else
              match f_srnc pre with Some (n, _) => Some (s <| es := upd (es s) d n |>) | None => Some s end
      | _ => None
      end
  | EEnvFinish t d pre o =>
      match thr s t with
      | [] => if negb (fstate_eqb pre (es s d)) then None else
              match f_set pre with
              | Some n => Some (log (sp (s <| es := upd (es s) d n |> <| eout := upd (eout s) d (Some o) |>
                                                 <| ecbs := upd (ecbs s) d [] |>) t (fires s d [])) (HEnvDone d o))
              | None => Some s
              end
      | _ => None
      end
  | EEnvCancel t d pre =>
      match thr s t with
      | [] => if negb (fstate_eqb pre (es s d)) then None else
              let '(n, b) := f_cancel pre in
              if f_cancel_fires pre then
                Some (log (sp (s <| es := upd (es s) d n |> <| ecbs := upd (ecbs s) d [] |>) t (fires s d [])) (HEnvCancel d))
              else Some (s <| es := upd (es s) d n |>)
      | _ => None
      end
  | EDied t => match thr s t with IDead :: _ => Some s | _ => None end
  end.
End Gen.

Lemma step_is_gen : step = step_gen set_prog.
Proof. reflexivity. Qed.
Definition lstep := step_gen set_thr.

Definition tid (e : ev) : nat :=
  match e with
  | ECallNew t _ _ _ _ _ | ECallCancel t _ | ECallAddCb t _ _ | ERet t _ | EAcqM t _ | ERelM t _
  | EFM t _ _ _ | EFE t _ _ _ | EUserFn t _ | EUserEfn t _ | EUserCb t _ _ _ | EEnvRun t _ _
  | EEnvFinish t _ _ _ | EEnvCancel t _ _ | EDied t => t
  end.

(* silent micro-steps of thread t; [base] is the thread map outside t *)
Definition wthr (s : st) (base : nat -> list instr) (t : nat) (p : list instr) : st := s <| thr := upd base t p |>.
Inductive sil (t : nat) : st -> st -> Prop :=
| sil_catch s base r : thr s = upd base t (ICatch :: r) -> sil t s (wthr s base t r)
| sil_throw s base r : thr s = upd base t (IThrow :: r) -> sil t s (wthr s base t r)
| sil_acq s base j k r : thr s = upd base t (IAcqM j :: r) -> mown s j = Some (t, k) ->
    sil t s (wthr (s <| mown := upd (mown s) j (Some (t, S k)) |>) base t r)
| sil_acqset s base j x fl k r : thr s = upd base t (IAcqMSet j x fl :: r) -> mown s j = Some (t, k) ->
    sil t s (wthr (s <| mown := upd (mown s) j (Some (t, S k)) |> <| mdel := upd (mdel s) j x |>
                     <| mflat := upd (mflat s) j (fl || mflat s j) |>) base t r)
| sil_rel s base j k r : thr s = upd base t (IRelM j :: r) -> mown s j = Some (t, S (S k)) ->
    sil t s (wthr (s <| mown := upd (mown s) j (Some (t, S k)) |>) base t r)
| sil_relcbs s base j k r : thr s = upd base t (IRelMCbs j :: r) -> mown s j = Some (t, S (S k)) ->
    sil t s (wthr (s <| mown := upd (mown s) j (Some (t, S k)) |> <| mcbs := upd (mcbs s) j [] |>) base t
                  (map (fun c => IUserCb j c false) (mcbs s j) ++ r)).

Inductive sstar (t : nat) : st -> st -> Prop :=
| ss_refl s : sstar t s s
| ss_step s s1 s2 : sil t s s1 -> sstar t s1 s2 -> sstar t s s2.

(* adjacency shape of programs *)
Definition nxt (i : instr) (r : list instr) : bool :=
  match i with
  | IThrow | IDCancelledQ _ _ | IUserFn _ _ => match r with ICatch :: _ => true | _ => false end
  | IFSetRes j _ | IFSetExc j _ => match r with IRelMCbs j' :: _ => Nat.eqb j j' | _ => false end
  | IFCancel j => match r with IFSrnc j1 :: IRelMCbs j2 :: _ => Nat.eqb j j1 && Nat.eqb j j2 | _ => false end
  | _ => true
  end.
Fixpoint shape (p : list instr) : bool :=
  match p with [] => true | i :: r => nxt i r && shape r end.
Definition shape_all (s : st) : Prop := forall t, shape (thr s t) = true.

Lemma thr_set_thr_same s t p : thr (set_thr s t p) t = p.
Proof. unfold set_thr; simpl. apply upd_same. Qed.
Lemma thr_set_thr_other s t p t' : t' <> t -> thr (set_thr s t p) t' = thr s t'.
Proof. intros; unfold set_thr; simpl. apply upd_other; auto. Qed.

Lemma settle_thr f : forall th s t p s1 p1, settle f th s t p = (s1, p1) -> thr s1 = thr s.
Proof.
  induction f as [|f IH]; intros th s t p s1 p1 H; simpl in H.
  - inversion H; reflexivity.
  - destruct p as [|i r]; [inversion H; reflexivity|].
    destruct i; try (destruct th; [eapply IH in H; exact H | inversion H; reflexivity]);
      try (eapply IH in H; exact H);
      (destruct th; [eapply IH in H; exact H|]);
      destruct (mown s j) as [[o k]|]; try (inversion H; reflexivity).
    + destruct (Nat.eqb o t); [apply IH in H; exact H | inversion H; reflexivity].
    + destruct (Nat.eqb o t); [apply IH in H; exact H | inversion H; reflexivity].
    + destruct k as [|[|k]]; try (inversion H; reflexivity).
      destruct (Nat.eqb o t); [apply IH in H; exact H | inversion H; reflexivity].
    + destruct k as [|[|k]]; try (inversion H; reflexivity).
      destruct (Nat.eqb o t); [apply IH in H; exact H | inversion H; reflexivity].
Qed.

Lemma shape_map_cb j l r : shape r = true -> shape (map (fun c => IUserCb j c false) l ++ r) = true.
Proof. intros H; induction l; simpl; auto. Qed.

Lemma settle_sil f : forall th s t p s1 p1 base,
  shape p = true -> (th = true -> exists r, p = ICatch :: r) ->
  settle f th s t p = (s1, p1) -> sstar t (wthr s base t p) (wthr s1 base t p1).
Proof.
  induction f as [|f IH]; intros th s t p s1 p1 base Hs Ht H; simpl in H.
  - inversion H; subst. apply ss_refl.
  - destruct p as [|i r].
    { destruct th; [destruct (Ht eq_refl) as [? ?]; discriminate|]. inversion H; subst. apply ss_refl. }
    simpl in Hs. apply andb_prop in Hs. destruct Hs as [Hn Hs].
    destruct th.
    { destruct (Ht eq_refl) as [r' E]. inversion E; subst.
      eapply ss_step. 2:{ eapply (IH false); [exact Hs| discriminate | exact H]. }
      exact (sil_catch t (wthr s base t (ICatch :: r')) base r' eq_refl). }
    destruct i; try (inversion H; subst; apply ss_refl).
    + (* IAcqM *) destruct (mown s j) as [[o k]|] eqn:Em; [|inversion H; subst; apply ss_refl].
      destruct (Nat.eqb o t) eqn:Eo; [|inversion H; subst; apply ss_refl].
      apply Nat.eqb_eq in Eo; subst o.
      eapply ss_step. 2:{ eapply (IH false); [exact Hs| discriminate | exact H]. }
      exact (sil_acq t (wthr s base t (IAcqM j :: r)) base j k r eq_refl Em).
    + destruct (mown s j) as [[o k]|] eqn:Em; [|inversion H; subst; apply ss_refl].
      destruct (Nat.eqb o t) eqn:Eo; [|inversion H; subst; apply ss_refl].
      apply Nat.eqb_eq in Eo; subst o.
      eapply ss_step. 2:{ eapply (IH false); [exact Hs| discriminate | exact H]. }
      exact (sil_acqset t (wthr s base t (IAcqMSet j x flat :: r)) base j x flat k r eq_refl Em).
    + destruct (mown s j) as [[o [|[|k]]]|] eqn:Em; try (inversion H; subst; apply ss_refl).
      destruct (Nat.eqb o t) eqn:Eo; [|inversion H; subst; apply ss_refl].
      apply Nat.eqb_eq in Eo; subst o.
      eapply ss_step. 2:{ eapply (IH false); [exact Hs| discriminate | exact H]. }
      exact (sil_rel t (wthr s base t (IRelM j :: r)) base j k r eq_refl Em).
    + destruct (mown s j) as [[o [|[|k]]]|] eqn:Em; try (inversion H; subst; apply ss_refl).
      destruct (Nat.eqb o t) eqn:Eo; [|inversion H; subst; apply ss_refl].
      apply Nat.eqb_eq in Eo; subst o.
      eapply ss_step. 2:{ eapply (IH false); [apply shape_map_cb; exact Hs| discriminate | exact H]. }
      exact (sil_relcbs t (wthr s base t (IRelMCbs j :: r)) base j k r eq_refl Em).
    + (* ICatch *) eapply ss_step. 2:{ eapply (IH false); [exact Hs| discriminate | exact H]. }
      exact (sil_catch t (wthr s base t (ICatch :: r)) base r eq_refl).
    + (* IThrow *) eapply ss_step. 2:{ eapply (IH true); [exact Hs| | exact H].
        intros _. simpl in Hn. destruct r as [|[] r']; try discriminate. eauto. }
      exact (sil_throw t (wthr s base t (IThrow :: r)) base r eq_refl).
Qed.

Lemma set_prog_sil s t p : shape p = true -> sstar t (set_thr s t p) (set_prog s t p).
Proof.
  intros Hs. unfold set_prog. destruct (settle (S (length p) + 8) false s t p) as [s1 p1] eqn:E.
  pose proof (settle_thr _ _ _ _ _ _ _ E) as Ht. rewrite Ht.
  refine (settle_sil _ false _ _ _ _ _ (thr s) Hs _ E). intros; discriminate.
Qed.

Lemma sil_log t a b h : sil t a b -> sil t (log a h) (log b h).
Proof.
  intros H; inversion H; subst.
  - exact (sil_catch t (log a h) base r H0).
  - exact (sil_throw t (log a h) base r H0).
  - exact (sil_acq t (log a h) base j k r H0 H1).
  - exact (sil_acqset t (log a h) base j x fl k r H0 H1).
  - exact (sil_rel t (log a h) base j k r H0 H1).
  - exact (sil_relcbs t (log a h) base j k r H0 H1).
Qed.
Lemma sstar_log t a b h : sstar t a b -> sstar t (log a h) (log b h).
Proof. induction 1; [apply ss_refl|eapply ss_step; [apply sil_log; eassumption|assumption]]. Qed.

(* ---- case analysis of a loud step -------------------------------------------------------- *)
Ltac norm_hyps :=
  repeat match goal with
  | H : negb _ = false |- _ => apply negb_false_iff in H
  | H : negb _ = true |- _ => apply negb_true_iff in H
  | H : _ && _ = true |- _ => apply andb_prop in H; destruct H
  | H : Nat.eqb _ _ = true |- _ => apply Nat.eqb_eq in H; subst
  | H : fstate_eqb _ _ = true |- _ => apply fstate_eqb_eq in H; subst
  end.

Ltac step_cases H :=
  unfold lstep, step_gen in H;
  match type of H with match ?e with _ => _ end = _ => destruct e end;
  repeat match type of H with
    | None = Some _ => discriminate H
    | context [match thr ?s ?t with _ => _ end] => destruct (thr s t) as [|[] ?] eqn:?
    | context [if ?b then _ else _] => destruct b eqn:?
    | context [match ?x with _ => _ end] => destruct x eqn:?
    end;
  try discriminate H; inversion H; subst; clear H; norm_hyps.

Lemma shape_upd s t p : shape_all s -> shape p = true -> forall t', shape (upd (thr s) t p t') = true.
Proof.
  intros I Hp t'. destruct (Nat.eq_dec t' t) as [->|N]; [rewrite upd_same; exact Hp|rewrite upd_other by exact N; apply I].
Qed.
Lemma shape_fires s d r : shape r = true -> shape (fires s d r) = true.
Proof. intros H; unfold fires. induction (ecbs s d); simpl; auto. Qed.
Lemma shape_on_mapped s j x r : shape r = true -> shape (on_mapped s j x ++ r) = true.
Proof.
  intros H; unfold on_mapped. destruct (mkind s j), (mflat s j), x; simpl; rewrite ?Nat.eqb_refl; auto.
Qed.
Lemma shape_tl r : shape r = true -> shape (tl r) = true.
Proof. destruct r; simpl; auto. intros H; apply andb_prop in H; tauto. Qed.

Lemma lstep_shape s e s0 : lstep s e = Some s0 -> shape_all s -> shape_all s0.
Proof.
  intros H I. step_cases H; try exact I.
  all: intros t'; simpl; apply shape_upd; [exact I|].
  all: match goal with E : thr _ ?t = _ |- _ => pose proof (I t) as It; rewrite E in It; simpl in It end.
  all: repeat match goal with H : _ && _ = true |- _ => apply andb_prop in H; destruct H end.
  all: try assumption; try reflexivity.
  all: try (simpl; rewrite ?Nat.eqb_refl; simpl; first [assumption | apply shape_on_mapped; assumption | apply shape_fires; simpl; rewrite ?Nat.eqb_refl; assumption]).
  all: try (apply shape_map_cb; assumption).
  all: try (simpl; apply shape_tl; assumption).
  all: match goal with H : match ?l with _ => _ end = true |- _ => destruct l as [|[] ?]; try discriminate H end.
  all: simpl in *; rewrite ?Nat.eqb_refl; simpl; assumption.
Qed.


Ltac step_cases0 H :=
  match type of H with match ?e with _ => _ end = _ => destruct e end;
  repeat match type of H with
    | None = Some _ => discriminate H
    | context [match thr ?s ?t with _ => _ end] => destruct (thr s t) as [|[] ?] eqn:?
    | context [if ?b then _ else _] => destruct b eqn:?
    | context [match ?x with _ => _ end] => destruct x eqn:?
    end;
  try discriminate H; inversion H; subst; clear H.

Definition wlog (w : option hev) (s : st) : st := match w with Some h => log s h | None => s end.
Section G.
Variable sp : st -> nat -> list instr -> st.
Lemma step_gen_form s e s' : step_gen sp s e = Some s' ->
  (forall sp', step_gen sp' s e = Some s') \/
  exists w X p, s' = wlog w (sp X (tid e) p) /\ forall sp', step_gen sp' s e = Some (wlog w (sp' X (tid e) p)).
Proof.
  intros H. unfold step_gen in H.
  step_cases0 H.
  all: try (left; intros sp'; unfold step_gen;
    repeat (match goal with E : ?l = _ |- _ => progress rewrite E end; cbv beta iota); reflexivity).
  all: right.
  all: try (eexists (Some _), _, _; split; [reflexivity|]; intros sp'; unfold step_gen;
    repeat (match goal with E : ?l = _ |- _ => progress rewrite E end; cbv beta iota); reflexivity).
  all: (eexists None, _, _; split; [reflexivity|]; intros sp'; unfold step_gen;
    repeat (match goal with E : ?l = _ |- _ => progress rewrite E end; cbv beta iota); reflexivity).
Qed.
End G.

Lemma step_decomp s e s' : shape_all s -> step s e = Some s' ->
  exists s0, lstep s e = Some s0 /\ sstar (tid e) s0 s'.
Proof.
  intros I H. rewrite step_is_gen in H. apply step_gen_form in H.
  destruct H as [H|(w & X & p & -> & H)].
  - exists s'. split; [apply H|apply ss_refl].
  - exists (wlog w (set_thr X (tid e) p)). split; [apply H|].
    pose proof (lstep_shape s e _ (H set_thr) I (tid e)) as HS.
    assert (shape p = true) as Hp.
    { destruct w; simpl in HS; rewrite upd_same in HS; exact HS. }
    destruct w; simpl; [apply sstar_log|]; apply set_prog_sil; exact Hp.
Qed.

(* facts about a silent step, in a form convenient for invariants over all threads *)
Lemma upd_eq_same {A} (f g : nat -> A) t v : f = upd g t v -> f t = v.
Proof. intros ->; apply upd_same. Qed.
Lemma upd_eq_other {A} (f g : nat -> A) t v t' : f = upd g t v -> t' <> t -> g t' = f t'.
Proof. intros -> N; symmetry; apply upd_other; exact N. Qed.

Lemma shape_cons i r : shape (i :: r) = true -> shape r = true.
Proof. simpl; intros H; apply andb_prop in H; tauto. Qed.
Lemma sil_shape t s s' : sil t s s' -> shape_all s -> shape_all s'.
Proof.
  intros H I t'. pose proof (I t) as It.
  inversion H; subst; simpl;
    (destruct (Nat.eq_dec t' t) as [->|N];
     [rewrite upd_same; rewrite (upd_eq_same _ _ _ _ H0) in It; apply shape_cons in It; try exact It
     |rewrite upd_other by exact N; rewrite (upd_eq_other _ _ _ _ _ H0 N); apply I]).
  apply shape_map_cb; exact It.
Qed.

Definition reachable := reachable_from step init.
Definition linv (P : st -> Prop) : Prop :=
  P init /\ (forall s e s0, P s -> lstep s e = Some s0 -> P s0) /\ (forall t s s', P s -> sil t s s' -> P s').

Lemma linv_sstar P t s s' : linv P -> sstar t s s' -> P s -> P s'.
Proof. intros (_ & _ & HS). induction 1; auto. intros; apply IHsstar. eapply HS; eauto. Qed.

Theorem linv_reach P : linv P -> (forall s, P s -> shape_all s) -> forall s, reachable s -> P s.
Proof.
  intros L Hsh. apply invariant_rule; [apply L|].
  intros s e s' Ps H. destruct (step_decomp s e s' (Hsh _ Ps) H) as (s0 & L0 & S0).
  eapply linv_sstar; eauto. destruct L as (_ & HL & _). eapply HL; eauto.
Qed.

Lemma linv_shape : linv shape_all.
Proof.
  split; [intros t; reflexivity|]. split.
  - intros s e s0 I H. eapply lstep_shape; eauto.
  - intros t s s' I H. eapply sil_shape; eauto.
Qed.

Lemma linv_and (P Q : st -> Prop) : linv P -> Q init ->
  (forall s e s0, P s -> P s0 -> Q s -> lstep s e = Some s0 -> Q s0) ->
  (forall t s s', P s -> P s' -> Q s -> sil t s s' -> Q s') ->
  linv (fun s => P s /\ Q s).
Proof.
  intros (P0 & PL & PS) Q0 QL QS. split; [split; assumption|]. split.
  - intros s e s0 [Ps Qs] H. split; [eapply PL; eauto|]. eapply QL; eauto.
  - intros t s s' [Ps Qs] H. split; [eapply PS; eauto|]. eapply QS; eauto.
Qed.
