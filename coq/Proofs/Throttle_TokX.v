(* C07 / Throttle, token invariant: non-vacuity witnesses (concrete reachable states, by computation). *)
From Coq Require Import ZArith List Bool Arith Lia.
From ME Require Import Base.Machine Base.Fut Base.GenPrelude Gen.ThrottleGen Model.Throttle
  Proofs.Throttle_Spec Proofs.Throttle_Inv Proofs.Throttle_Tok Proofs.Throttle_TokC.
Import ListNotations.
Local Open Scope Z_scope.

Definition tok_events_of (w : list (list Z)) : list (Z * ev) := match decode_all w with Some es => es | None => [] end.

(* limit 2, non-blocking, static count; thread 1 submits two jobs; the hand-over thread admits both in one
   iteration and hands them to the delegate (futures 0 and 1, callbacks registered); the delegate (thread 2)
   finishes future 0 ... *)
Definition tok_prefix : list (list Z) :=
  [[0; 0; 0; 0; 0; 2]; [0; 1];
   [0; 3; 1]; [0; 12; 1]; [0; 23; 1]; [0; 29; 1]; [0; 13; 1]; [0; 7; 1; 0];
   [0; 3; 1]; [0; 12; 1]; [0; 23; 1]; [0; 29; 1]; [0; 13; 1]; [0; 7; 1; 0];
   [0; 24; 0]; [0; 26; 0; 0]; [0; 31; 0]; [0; 27; 0]; [0; 28; 0];
   [0; 26; 0; 1]; [0; 31; 0]; [0; 27; 0]; [0; 28; 0]; [0; 25; 0];
   [0; 15; 0; 0; 0; 0; 0]; [0; 11; 0; 5; 0; 0]; [0; 8; 0; 0]; [0; 9; 0; 0]; [0; 11; 0; 5; 0; 0];
   [0; 15; 0; 1; 0; 0; 0]; [0; 11; 0; 5; 1; 0]; [0; 8; 0; 1]; [0; 9; 0; 1]; [0; 11; 0; 5; 1; 0];
   [1; 21; 2; 0; 0; 0; 7]].
(* ... and its done-callback decrements the running count *)
Definition tok_trace : list (list Z) := tok_prefix ++ [[1; 27; 2]; [1; 28; 2]].

(* two delegate futures, one done, one in flight; the bound of inflight_true_lemma is tight here *)
Example inflight_true_nonvacuous :
  exists s, reachable_from step init s /\ ndel s = 2%nat /\ fdone (ds s 0) = true /\ fdone (ds s 1) = false /\
            inflight s = 1 /\ committed s = 0 /\ running s = 1.
Proof.
  eexists. split; [exists (tok_events_of tok_trace); vm_compute; reflexivity|].
  repeat split; reflexivity.
Qed.

(* the same history one step earlier: future 0 is done but its callback has not decremented yet -- the running
   count (2) is strictly above the number in flight (1); the token of future 0 is the pending decrement *)
Example inflight_true_slack :
  exists s, reachable_from step init s /\ ndel s = 2%nat /\ inflight s = 1 /\ running s = 2 /\
            In (IAcqA (ADecr 0)) (thr s 2).
Proof.
  eexists. split; [exists (tok_events_of tok_prefix); vm_compute; reflexivity|].
  repeat split; try reflexivity. vm_compute. auto.
Qed.

(* at the second admission under limit 2: nothing in flight yet, two jobs committed *)
Example inflight_at_admit_nonvacuous :
  exists s, reachable_from step init s /\ hlim s = Some 2 /\ inflight s = 0 /\ committed s = 2 /\ running s = 2 /\
            In (HAdmit 1 2 (Some 2) 0) (hist s).
Proof.
  eexists. split; [exists (tok_events_of (firstn 22 tok_prefix)); vm_compute; reflexivity|].
  repeat split; try reflexivity. vm_compute. auto.
Qed.

(* the second delegate.submit of that iteration: one future in flight, limit 2 -- with the new one exactly at
   the limit (inflight_at_dsubmit_lemma is tight) *)
Example inflight_at_dsubmit_nonvacuous :
  exists s s', reachable_from step init s /\ step s (0, EDSubmit 0 1 None) = Some s' /\ hlim s = Some 2 /\
               inflight s + 1 = 2 /\ inflight s' = 2 /\ running s' = 2.
Proof.
  eexists. eexists. split; [exists (tok_events_of (firstn 29 tok_prefix)); vm_compute; reflexivity|].
  split; [vm_compute; reflexivity|]. repeat split; reflexivity.
Qed.
