(* C03 for the Retry machine, part 0: quiescence, program shapes around the worker's wait and around the
   "mutate, then set" producers, the event-flag invariant of a parked worker, and the pending
   add_done_callback of a freshly submitted delegate future. *)
From Coq Require Import List ZArith Bool Arith Lia.
From RecordUpdate Require Import RecordSet.
From ME Require Import Base.Machine Base.Fut Base.GenPrelude Gen.RetryGen Model.Retry Proofs.Retry_Spec
  Proofs.Retry_C0 Proofs.Retry_C1 Proofs.Retry_C2 Proofs.Retry_C3 Proofs.Retry_C4 Proofs.Retry_C5 Proofs.Retry_C6.
Import ListNotations RecordSetNotations.

(* every client/environment thread has returned; the worker is parked in event.wait(tau) since `since`
   and no set() has arrived since it parked *)
Definition quiescent (s : st) (tau : option Z) (since : Z) : Prop :=
  (forall t, t <> worker -> thr s t = []) /\ wblock s = Some (tau, since) /\ wnotif s = false.

(* ---- wait instructions only ever form a one-instruction program ---------------------------------- *)
Definition notwait (i : instr) : bool := match i with IWWait _ | IWWoke | IWClear => false | _ => true end.
Definition wsh (p : list instr) : bool := forallb notwait (tl p) && (notwait (hd IRet p) || isnil (tl p)).

Lemma nw_wsh p : forallb notwait p = true -> wsh p = true.
Proof.
  destruct p as [|i r]; [reflexivity|]. unfold wsh. simpl. intros H. apply andb_true_iff in H.
  destruct H as [-> ->]. reflexivity.
Qed.
Lemma nw_norm : forall p b, forallb notwait p = true -> forallb notwait (norm b p) = true.
Proof.
  induction p as [|i r IH]; intros b H.
  - destruct b; reflexivity.
  - simpl in H. apply andb_true_iff in H. destruct H as [Hi Hr].
    destruct i; simpl; try (apply IH; exact Hr); try discriminate Hi;
      (destruct b; [apply IH; exact Hr|simpl; exact Hr]).
Qed.
Lemma wsh_norm p : wsh p = true -> wsh (norm false p) = true.
Proof.
  destruct p as [|i r]; [reflexivity|]. unfold wsh. simpl tl. simpl hd. intros H.
  apply andb_true_iff in H. destruct H as [H1 H2].
  destruct i; try (simpl; rewrite H1; exact H2); simpl; apply nw_wsh; apply nw_norm; exact H1.
Qed.
Lemma nw_cbs j l : forallb notwait (cbs_prog j l) = true.
Proof. induction l as [|c l IH]; simpl; [reflexivity|]. destruct c; simpl; exact IH. Qed.
Lemma nw_tl p : forallb notwait p = true -> forallb notwait (tl p) = true.
Proof. destruct p; simpl; auto. intros H. apply andb_true_iff in H. apply H. Qed.

Lemma WSH_step0 s e s' : step0 s e = Some s' -> (forall t, wsh (thr s t) = true) ->
  forall t, wsh (thr s' t) = true.
Proof.
  intros H HP t. pose proof (HP t) as Hok. s0inv H; try exact Hok.
  all: thr_norm Hok.
  all: unfold wsh in Hok; simpl in Hok; rewrite ?andb_true_r in Hok.
  all: try (apply andb_true_iff in Hok; destruct Hok as [Hok Hok2]).
  all: try (apply nw_wsh, nw_norm; assumption).
  all: try (unfold wsh; simpl; rewrite ?Hok; reflexivity).
  all: try (destruct l; [|discriminate Hok2]; reflexivity).
  - apply nw_wsh, nw_norm. rewrite forallb_app, nw_cbs. exact Hok.
  - apply nw_wsh. simpl. apply nw_tl. exact Hok.
  - destruct (dcb s d); reflexivity.
  - destruct (dcb s d); reflexivity.
Qed.

Lemma WSH_reach s : reachable_from step init s -> forall t, wsh (thr s t) = true.
Proof.
  apply (invariant_rule step (fun s => forall t, wsh (thr s t) = true)).
  - intros t. reflexivity.
  - intros s0 e s' IH H. apply step_split in H. destruct H as (s1 & Ht & H).
    apply tick_eq in Ht. subst s1. eapply WSH_step0; [exact H|exact IH].
Qed.

Lemma wsh_single i l : wsh (i :: l) = true -> notwait i = false -> l = [].
Proof.
  unfold wsh. simpl. intros H N. rewrite N in H. apply andb_true_iff in H. destruct H as [_ H].
  destruct l; [reflexivity|discriminate H].
Qed.

(* ---- producers: the X-section that appends an idle job is immediately followed by event.set() ------ *)
Definition is_evset (p : list instr) : bool := match p with IEvSet :: _ => true | _ => false end.
Fixpoint evok (p : list instr) : bool :=
  match p with
  | [] => true
  | i :: l => (match i with IXAppend0 | IXRetry _ _ => is_evset l | _ => true end) && evok l
  end.

Lemma evok_tl p : evok p = true -> evok (tl p) = true.
Proof. destruct p as [|i l]; simpl; auto. intros H. apply andb_true_iff in H. apply H. Qed.
Lemma evok_norm : forall p b, evok p = true -> evok (norm b p) = true.
Proof.
  induction p as [|i r IH]; intros b H.
  - destruct b; reflexivity.
  - pose proof (evok_tl _ H) as Hr. simpl in Hr.
    destruct i; simpl norm; try (apply IH; exact Hr); (destruct b; [apply IH; exact Hr|exact H]).
Qed.
Lemma evok_cbs j l r : evok r = true -> evok (cbs_prog j l ++ r) = true.
Proof. intros H. induction l as [|c l IH]; simpl; [exact H|]. destruct c; simpl; exact IH. Qed.

Lemma EVOK_step0 s e s' : step0 s e = Some s' -> (forall t, evok (thr s t) = true) ->
  forall t, evok (thr s' t) = true.
Proof.
  intros H HP t. pose proof (HP t) as Hok. s0inv H; try exact Hok.
  all: thr_norm Hok.
  all: repeat (apply andb_true_iff in Hok; let X := fresh "Hk" in destruct Hok as [X Hok]).
  all: try (try apply evok_norm; simpl; rewrite ?Hok; reflexivity).
  all: try reflexivity.
  all: try apply evok_norm.
  - apply evok_cbs. exact Hok.
  - simpl. apply evok_tl. exact Hok.
  - destruct (dcb s d); reflexivity.
  - destruct (dcb s d); reflexivity.
Qed.

Lemma EVOK_reach s : reachable_from step init s -> forall t, evok (thr s t) = true.
Proof.
  apply (invariant_rule step (fun s => forall t, evok (thr s t) = true)).
  - intros t. reflexivity.
  - intros s0 e s' IH H. apply step_split in H. destruct H as (s1 & Ht & H).
    apply tick_eq in Ht. subst s1. eapply EVOK_step0; [exact H|exact IH].
Qed.

(* ---- the parked worker: program, event flag ------------------------------------------------------ *)
Definition WB (s : st) : Prop := forall tau since, wblock s = Some (tau, since) ->
  thr s worker = [IWWoke] /\ wnotif s = evf s /\ (since <= clock s)%Z.

Lemma WB_step0 s e s' : WB s -> (forall t, wsh (thr s t) = true) -> step0 s e = Some s' -> WB s'.
Proof.
  intros HW HS H tau since. s0inv H.
  all: try (match goal with inl : option outcome |- _ => destruct inl end).
  all: unfold log, set_prog; simpl.
  all: try (intros Hb; destruct (HW _ _ Hb) as (A & B & C);
            match goal with Hq : thr _ ?t = _ |- _ =>
              unfold upd; destruct (Nat.eqb worker t) eqn:E;
              [apply eqb_t in E; try subst t; rewrite A in Hq; discriminate Hq|auto] end).
  all: try (intros Hb; exact (HW _ _ Hb)).
  all: try discriminate.
  - (* EEvSet *) rewrite Hb. simpl. auto.
  - (* EWWait 1 *) intros Hb. inversion Hb; subst. rewrite upd_same.
    pose proof (HS worker) as W. rewrite Heql in W. apply wsh_single in W; [|reflexivity]. subst l.
    split; [reflexivity|]. split; [symmetry; assumption|lia].
Qed.

Lemma WB_reach s : reachable_from step init s -> WB s.
Proof.
  apply (invariant_rule_r step WB).
  - intros tau since H. discriminate H.
  - intros s0 e s' R IH H. apply step_split in H. destruct H as (s1 & Ht & H).
    pose proof Ht as Ht'. apply tick_eq in Ht. subst s1.
    unfold tick in Ht'. destruct (Z.leb (clock s0) (fst e)) eqn:Ec; [|discriminate Ht']. apply Z.leb_le in Ec.
    eapply WB_step0; [| |exact H].
    + intros tau since Hb. simpl in *. destruct (IH _ _ Hb) as (A & B & C). repeat split; auto. lia.
    + intros t. simpl. apply (WSH_reach s0 R).
Qed.

(* a parked worker that has not been notified sees a cleared event flag *)
Lemma parked_flag_clear s tau since : reachable_from step init s ->
  wblock s = Some (tau, since) -> wnotif s = false -> evf s = false.
Proof. intros R Hb Hn. destruct (WB_reach s R _ _ Hb) as (_ & B & _). congruence. Qed.

(* ---- add_done_callback(_delegate_callback) of a freshly submitted delegate future is still ahead ---- *)
Definition addhd (d : nat) (p : list instr) : bool :=
  match p with
  | IXRel :: IRelM _ :: IAddCbD d' :: _ => Nat.eqb d' d
  | IRelM _ :: IAddCbD d' :: _ => Nat.eqb d' d
  | IAddCbD d' :: _ => Nat.eqb d' d
  | _ => false
  end.
Definition AP (s : st) : Prop := forall d, d < ndel s -> dcb s d = false -> exists t, addhd d (thr s t) = true.

Lemma AP_step0 s e s' : AP s -> step0 s e = Some s' -> AP s'.
Proof.
  intros HA H. s0inv H.
  all: try (match goal with inl : option outcome |- _ => destruct inl end).
  all: bsplit; subst.
  all: unfold AP, log, set_prog; simpl.
  all: try exact HA.
  all: intros dd Hd Hc.
  (* fresh delegate future *)
  all: try (match type of Hd with _ < S (ndel ?s) =>
         destruct (Nat.eq_dec dd (ndel s)) as [->|Nd];
         [exists t; rewrite upd_same; simpl; apply Nat.eqb_refl
         |rewrite (upd_other _ _ _ _ Nd) in Hc; assert (Hd' : dd < ndel s) by lia; clear Hd; rename Hd' into Hd] end).
  all: try (match type of Hc with upd _ ?d0 true _ = false =>
         destruct (Nat.eq_dec dd d0) as [->|Nd]; [rewrite upd_same in Hc; discriminate Hc|rewrite (upd_other _ _ _ _ Nd) in Hc] end).
  all: destruct (HA dd Hd Hc) as [u Hu]; exists u.
  all: match goal with Hq : thr _ ?t = _ |- _ =>
         unfold upd; destruct (Nat.eqb u t) eqn:E;
         [apply eqb_t in E; subst u; rewrite Hq in Hu; simpl in Hu; try discriminate Hu|exact Hu] end.
  all: try (destruct l as [|[] l]; simpl in Hu; try discriminate Hu; simpl; exact Hu).
  all: try (bsplit; subst; destruct l as [|[] l]; simpl in Hu; try discriminate Hu; simpl; exact Hu).
  all: try (apply eqb_t in Hu; congruence).
Qed.

Lemma AP_reach s : reachable_from step init s -> AP s.
Proof.
  apply (invariant_rule step AP).
  - intros d Hd. simpl in Hd. lia.
  - intros s0 e s' IH H. apply step_split in H. destruct H as (s1 & Ht & H).
    apply tick_eq in Ht. subst s1. eapply AP_step0; [|exact H]. exact IH.
Qed.
