(* N5: once the output has been cancelled, every input position receives a cancel() request that is
   logged after the output's cancellation (chain_cancel runs for every position, whatever the state of
   the input). *)
From Coq Require Import List Arith Bool Lia PeanoNat ZArith.
From ME Require Import Base.Machine Base.Fut Base.GenPrelude Gen.BoolGen Gen.ZipGen Model.Comb Proofs.Comb_Spec.
From ME Require Import Proofs.Comb_I0 Proofs.Comb_I1 Proofs.Comb_I3 Proofs.Comb_I4 Proofs.Comb_I5 Proofs.Comb_I8 Proofs.Comb_I10a
  Proofs.Comb_I10b Proofs.Comb_I10c Proofs.Comb_N1.
Import ListNotations.

(* a cancel request on x is logged more recently than the (newest) cancellation of the output *)
Fixpoint creq_after (l : list hev) (x : nat) : bool :=
  match l with
  | [] => false
  | HCancelReq y _ :: r => Nat.eqb y x || creq_after r x
  | HOutCancelled :: _ => false
  | _ :: r => creq_after r x
  end.

Lemma creq_after_split l1 l2 x : ~ In HOutCancelled l1 ->
  creq_after (l1 ++ HOutCancelled :: l2) x = true -> exists pre, In (HCancelReq x pre) l1.
Proof.
  induction l1 as [|h r IH]; simpl; intros Hn Hc; [discriminate|].
  assert (Hn' : ~ In HOutCancelled r) by tauto.
  destruct h; try (destruct (IH Hn' Hc) as [p Hp]; exists p; right; exact Hp).
  - exfalso. apply Hn. left. reflexivity.
  - apply orb_true_iff in Hc. destruct Hc as [Hc|Hc].
    + apply Nat.eqb_eq in Hc. subst. exists pre. left. reflexivity.
    + destruct (IH Hn' Hc) as [p Hp]; exists p; right; exact Hp.
Qed.

Lemma creq_keep s e s' x : step s e = Some s' -> fcancelled (os s) = true ->
  creq_after (hist s) x = true -> creq_after (hist s') x = true.
Proof.
  intros H Hc Hq. destruct e; step_inv H; simpl; auto; clean;
  repeat match goal with |- context [if ?c then _ else _] => destruct c end; simpl; rewrite ?Hq, ?orb_true_r; auto.
  destruct (os s); simpl in *; discriminate.
Qed.

Lemma cancel_logged s e s' x r : step s e = Some s' -> thr s (actor e) = ICancelIn x :: r ->
  creq_after (hist s') x = true.
Proof.
  intros H Hr. destruct e; simpl in Hr; step_inv H; try congruence; clean;
  inversion Hr; subst; simpl; rewrite Nat.eqb_refl; reflexivity.
Qed.

Definition LQ (s : st) : Prop :=
  fcancelled (os s) = true -> built s = true -> forall i, i < length (inputs s) -> i <> notify_id ->
  creq_after (hist s) (input_at s i) = true \/ pend (thr s) (ICancelIn (input_at s i)) \/
  pend (thr s) (IOutCancelledQ i) \/ pend (thr s) (IAddCbOut i).

Lemma LQ_step s e s' : I1 s -> I4 s -> LO s -> LR s -> LQ s -> step s e = Some s' -> LQ s'.
Proof.
  intros I J L R C H Hc' Hb' i Hi' Hni.
  destruct (built s) eqn:Hb.
  2:{ exfalso. destruct (i4_unb _ J Hb) as (Ht & _). pose proof (lo_unbo _ L Hb) as Op.
      destruct e; pose proof (Ht t) as Htt; step_inv H; simpl in *; try congruence; rewrite Op in *; simpl in *; discriminate. }
  destruct (step_built _ _ _ H Hb) as (_ & Hin & _). unfold input_at. rewrite Hin in *.
  fold (input_at s i).
  destruct (fcancelled (os s)) eqn:Hc.
  - destruct (C Hc Hb i Hi' Hni) as [A|[[u Hu]|[[u Hu]|[u Hu]]]].
    + left. eapply creq_keep; eauto.
    + destruct (step_pending _ _ _ u _ I H (keep_cancelin _) Hu) as [Hk|[-> [r Hr]]].
      { right. left. exists u. exact Hk. }
      left. eapply cancel_logged; eauto.
    + destruct (step_pending _ _ _ u _ I H (keep_outq i) Hu) as [Hk|[-> [r Hr]]].
      { right. right. left. exists u. auto. }
      right. left. exists (actor e).
      destruct e; simpl in Hr |- *; step_inv H; try congruence; clean; simpl in *; inversion Hr; subst;
        rewrite upd_same; try (left; reflexivity). congruence.
    + destruct (step_pending _ _ _ u _ I H (keep_addout i) Hu) as [Hk|[-> [r Hr]]].
      { right. right. right. exists u. auto. }
      right. right. left. exists (actor e).
      destruct e; simpl in Hr |- *; step_inv H; try congruence; clean; simpl in *; inversion Hr; subst;
        rewrite upd_same; try (left; reflexivity).
      destruct (os s); simpl in *; discriminate.
  - assert (X : exists t l b, thr s t = ICancelOut :: l /\ e = EFO t 2 Pending /\ os s = Pending /\
                thr s' t = norm false (out_fires s (retb_fix b l))).
    { destruct e; step_inv H; simpl in *; try congruence; clean; destruct (os s); simpl in *; try discriminate;
      repeat match goal with Hq : Some _ = Some _ |- _ => inversion Hq; clear Hq; subst
                       | Hq : (_, _) = (_, _) |- _ => inversion Hq; clear Hq; subst end; try discriminate.
      eexists t, l, _. rewrite upd_same. repeat split; eauto. }
    destruct X as (t & l & b & Ht & -> & Ho & Ht').
    destruct (R ltac:(rewrite Ho; reflexivity) Hb i Hi') as [Hio|[u Hu]].
    + right. right. left. exists t. rewrite Ht'. apply norm_in; [|discriminate|apply outq_in_fires; auto].
      pose proof (I t) as It. rewrite Ht in It. fa_hyps. apply nothrow_out_fires. apply Forall_retb; [intros; nt|auto].
    + right. right. right. destruct (step_pending _ _ _ u _ I H (keep_addout i) Hu) as [Hk|[-> [r Hr]]]; [exists u; auto|].
      simpl in Hr. congruence.
Qed.

Lemma LQ_reach s : reachable s -> LQ s.
Proof.
  apply invariant_rule_r; [intros H; discriminate|]. intros s0 e s' R D H.
  destruct (I10_reach _ R) as (_ & B & _).
  eapply LQ_step; eauto using I1_reach, I4_reach, LO_reach.
Qed.

(* the output is completed at most once: split form for HOutCancelled *)
Lemma count_zero_notin' (f : hev -> bool) l x : length (filter f l) = 0 -> f x = true -> ~ In x l.
Proof.
  intros H Hx Hin. assert (Hf : In x (filter f l)) by (apply filter_In; auto).
  destruct (filter f l); [contradiction|discriminate].
Qed.
Lemma out_cancel_once s : reachable s -> forall l1 l2, hist s = l1 ++ HOutCancelled :: l2 ->
  (forall h, isout h = true -> ~ In h l1) /\ (forall h, isout h = true -> ~ In h l2).
Proof.
  intros R l1 l2 Hh. pose proof (i3_le _ (I3_reach s R)) as Hle.
  unfold nout in Hle. rewrite Hh, filter_app, app_length in Hle. simpl in Hle.
  split; intros h Hi; apply (count_zero_notin' isout); auto; lia.
Qed.

Lemma cancel_fans_out s : reachable s -> quiescent s -> length (inputs s) <= notify_id ->
  forall l1 l2, hist s = l1 ++ HOutCancelled :: l2 ->
  forall x, In x (inputs s) -> exists pre, In (HCancelReq x pre) l1.
Proof.
  intros R Q Hlen l1 l2 Hh x Hx.
  assert (Hin : In HOutCancelled (hist s)) by (rewrite Hh; apply in_or_app; right; left; reflexivity).
  assert (Hc : fcancelled (os s) = true) by (apply (OC_reach s R); exact Hin).
  assert (Hb : built s = true).
  { destruct (built s) eqn:E; auto. apply (i5_unb _ (I5_reach s R) E) in Hin. discriminate. }
  destruct (In_nth _ _ 0 Hx) as (i & Hi & Hn).
  destruct (LQ_reach s R Hc Hb i Hi ltac:(lia)) as [A|[[t A]|[[t A]|[t A]]]]; try (rewrite Q in A; contradiction).
  unfold input_at in A. rewrite Hn, Hh in A.
  apply creq_after_split in A; auto.
  apply (out_cancel_once s R l1 l2 Hh). reflexivity.
Qed.
