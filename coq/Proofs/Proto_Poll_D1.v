(* C02 / Poll, clause (d), part D1: two invariants over the step shapes of Proto_Poll_D.v.
   InvT: in every program a set_running_or_notify_cancel() on j is followed by the callbacks of j (IRelMCbs j).
   InvK: a done future whose _clear_executor is still registered (pcb) has its callbacks, or the notification that
         precedes them, pending in some program. *)
From Coq Require Import ZArith List Bool Arith Lia.
From RecordUpdate Require Import RecordSet.
From ME Require Import Base.Machine Base.Fut Base.GenPrelude Model.Poll Proofs.Poll_Inv
  Proofs.Proto_Poll_P Proofs.Proto_Poll_P1 Proofs.Proto_Poll_P2 Proofs.Proto_Poll_D.
Import ListNotations RecordSetNotations.

Definition InvT (s : st) : Prop := forall t, tripb (thr s t) = true.
Definition InvK (s : st) : Prop :=
  forall j, fdone (ps s j) = true -> pcb s j = true -> exists t, has_w2 j (thr s t) = true.

Lemma tick_same s ts s1 : tick s ts = Some s1 ->
  thr s1 = thr s /\ nfut s1 = nfut s /\ ps s1 = ps s /\ pcb s1 = pcb s /\ hist s1 = hist s.
Proof. intros H. apply tick_inv in H. destruct H as [[-> _]|[-> _]]; simpl; auto 6. Qed.

(* the program of thread u after the step *)
Lemma upd_thr (f : nat -> list instr) t p u : upd f t p u = if Nat.eqb u t then p else f u.
Proof. reflexivity. Qed.

Lemma invT_shape s s' : InvT s -> pshape s s' -> InvT s'.
Proof.
  intros IT Hs u.
  destruct Hs as [Et _ _ | t p s1 Et Et' Hp Htr _ _ | t i p rest s1 Et Et' _ _ Htr _ _ _ _ | t rest s1 Et Et' _ _ _ _
                 | t j rest s1 Et _ Et' _ _ | t j rest s1 Et _ Et' _ _ _ _ | t j rest s1 Et Et' _ _ _ _
                 | t j rest s1 ts Et Et' _ _ | t j rest s1 n b Et _ Et' _ _ _ _];
    try (rewrite Et; apply IT);
    rewrite Et'; unfold upd; destruct (Nat.eqb u t); try apply IT; apply tripb_norm;
    pose proof (IT t) as Hr; rewrite Et in Hr.
  - exact Htr.
  - apply tripb_app; [exact Htr|eapply tripb_tl; exact Hr].
  - apply tripb_app; [reflexivity|eapply tripb_tl; exact Hr].
  - simpl. eapply tripb_tl; exact Hr.
  - simpl. eapply tripb_tl; exact Hr.
  - apply tripb_app; [destruct (pcb s j); reflexivity|eapply tripb_tl; exact Hr].
  - eapply tripb_tl; exact Hr.
  - eapply tripb_tl; exact Hr.
Qed.

Lemma invT_reachable : forall s, reachable s -> InvT s.
Proof.
  apply invariant_rule_r; [intros t; reflexivity|].
  intros s0 [ts e] s' Hr IT Hx. apply step_inv in Hx. destruct Hx as [s1 [Ht Hx]].
  destruct (tick_same _ _ _ Ht) as [E1 _].
  assert (IT1 : InvT s1) by (intros t; rewrite E1; apply IT).
  assert (IP1 : InvP s1).
  { pose proof (invP_reachable s0 Hr) as IP. apply tick_inv in Ht. destruct Ht as [[-> _]|[-> _]]; [exact IP|].
    apply (invP_view s0); auto; bnd IP. }
  eapply invT_shape; [exact IT1|]. eapply step0_pshape; eauto.
Qed.

Lemma has_w2_app j p q : has_w2 j (p ++ q) = has_w2 j p || has_w2 j q.
Proof. apply existsb_app. Qed.
Lemma cbs_w2 j r : existsb (is_cbs j) r = true -> has_w2 j r = true.
Proof.
  unfold has_w2. rewrite !existsb_exists. intros [x [A B]]. exists x. split; [exact A|]. destruct x; simpl in *; auto; discriminate.
Qed.

Lemma invK_shape s s' : InvT s -> InvK s -> pshape s s' -> InvK s'.
Proof.
  intros IT IK Hs j Hd Hp.
  destruct Hs as [Et [_ [Eps Epc]] _ | t p s1 Et Et' _ _ [_ [Eps Epc]] _ | t i p rest s1 Et Et' Hq _ _ _ Epc _ Hps | t rest s1 Et Et' _ Eps Epc _
                 | t j0 rest s1 Et _ Et' [_ [Eps Epc]] _ | t j0 rest s1 Et Hnd Et' _ Eps Epc _ | t j0 rest s1 Et Et' _ Eps Epc _
                 | t j0 rest s1 ts Et Et' [_ [Eps Epc]] _ | t j0 rest s1 n b Et Hf Et' _ Eps Epc _].
  - (* SNone *) rewrite Eps in Hd. rewrite Epc in Hp. destruct (IK j Hd Hp) as [u Hu]. exists u. rewrite Et. exact Hu.
  - (* SStart *) rewrite Eps in Hd. rewrite Epc in Hp. destruct (IK j Hd Hp) as [u Hu]. exists u. rewrite Et'. unfold upd.
    destruct (Nat.eqb u t) eqn:E; [apply Nat.eqb_eq in E; subst; rewrite Et in Hu; discriminate|exact Hu].
  - (* SPlain *) rewrite Epc in Hp.
    assert (Old : fdone (ps s j) = true -> exists u, has_w2 j (thr s' u) = true).
    { intros Hd0. destruct (IK j Hd0 Hp) as [u Hu]. exists u. rewrite Et'. unfold upd.
      destruct (Nat.eqb u t) eqn:E; [|exact Hu]. apply Nat.eqb_eq in E. subst. rewrite Et in Hu. simpl in Hu.
      apply has_w2_norm. rewrite has_w2_app. apply orb_true_iff. right.
      destruct i; simpl in Hq, Hu; try discriminate; exact Hu. }
    destruct Hps as [Eps|[j0 [n [Eps Hw]]]]; [rewrite Eps in Hd; auto|].
    rewrite Eps in Hd. unfold upd in Hd. destruct (Nat.eqb j j0) eqn:E; [|auto]. apply Nat.eqb_eq in E. subst j0.
    destruct Hw as [Hw|Hw]; [auto|]. exists t. rewrite Et', upd_same. apply has_w2_norm. exact Hw.
  - (* SNew *) rewrite Eps in Hd. rewrite Epc in Hp. unfold upd in Hp. destruct (Nat.eqb j (nfut s)); [discriminate|].
    destruct (IK j Hd Hp) as [u Hu]. exists u. rewrite Et'. unfold upd.
    destruct (Nat.eqb u t) eqn:E; [|exact Hu]. apply Nat.eqb_eq in E. subst. rewrite Et in Hu. simpl in Hu.
    apply has_w2_norm. simpl. exact Hu.
  - (* SAddDone *) rewrite Eps in Hd. rewrite Epc in Hp. destruct (IK j Hd Hp) as [u Hu]. exists u. rewrite Et'. unfold upd.
    destruct (Nat.eqb u t) eqn:E; [|exact Hu]. apply Nat.eqb_eq in E. subst. rewrite Et in Hu. simpl in Hu.
    apply has_w2_norm. simpl. exact Hu.
  - (* SAddPend *) rewrite Eps in Hd. rewrite Epc in Hp. unfold upd in Hp. destruct (Nat.eqb j j0) eqn:E.
    + apply Nat.eqb_eq in E. subst. congruence.
    + destruct (IK j Hd Hp) as [u Hu]. exists u. rewrite Et'. unfold upd.
      destruct (Nat.eqb u t) eqn:E2; [|exact Hu]. apply Nat.eqb_eq in E2. subst. rewrite Et in Hu. simpl in Hu.
      apply has_w2_norm. simpl. exact Hu.
  - (* SRun *) rewrite Eps in Hd. rewrite Epc in Hp. unfold upd in Hp. destruct (Nat.eqb j j0) eqn:E; [discriminate|].
    destruct (IK j Hd Hp) as [u Hu]. exists u. rewrite Et'. unfold upd.
    destruct (Nat.eqb u t) eqn:E2; [|exact Hu]. apply Nat.eqb_eq in E2. subst. rewrite Et in Hu. simpl in Hu.
    rewrite Nat.eqb_sym, E in Hu. simpl in Hu.
    apply has_w2_norm. rewrite has_w2_app. apply orb_true_iff. right. exact Hu.
  - (* SDereg *) rewrite Eps in Hd. rewrite Epc in Hp. destruct (IK j Hd Hp) as [u Hu]. exists u. rewrite Et'. unfold upd.
    destruct (Nat.eqb u t) eqn:E; [|exact Hu]. apply Nat.eqb_eq in E. subst. rewrite Et in Hu. simpl in Hu.
    apply has_w2_norm. exact Hu.
  - (* SSrnc *) rewrite Epc in Hp. rewrite Eps in Hd. unfold upd in Hd. destruct (Nat.eqb j j0) eqn:E.
    + apply Nat.eqb_eq in E. subst j0. exists t. rewrite Et', upd_same. apply has_w2_norm.
      pose proof (IT t) as Htr. rewrite Et in Htr. simpl in Htr. apply andb_prop in Htr. destruct Htr as [A _].
      apply cbs_w2. exact A.
    + destruct (IK j Hd Hp) as [u Hu]. exists u. rewrite Et'. unfold upd.
      destruct (Nat.eqb u t) eqn:E2; [|exact Hu]. apply Nat.eqb_eq in E2. subst. rewrite Et in Hu. simpl in Hu.
      rewrite Nat.eqb_sym, E in Hu. simpl in Hu. apply has_w2_norm. exact Hu.
Qed.

Lemma invK_reachable : forall s, reachable s -> InvK s.
Proof.
  apply invariant_rule_r; [intros j Hd; discriminate|].
  intros s0 [ts e] s' Hr IK Hx. apply step_inv in Hx. destruct Hx as [s1 [Ht Hx]].
  destruct (tick_same _ _ _ Ht) as [E1 [E2 [E3 [E4 E5]]]].
  pose proof (invT_reachable s0 Hr) as IT.
  assert (IT1 : InvT s1) by (intros t; rewrite E1; apply IT).
  assert (IK1 : InvK s1) by (intros j; rewrite E1, E3, E4; apply IK).
  assert (IP1 : InvP s1).
  { pose proof (invP_reachable s0 Hr) as IP. apply tick_inv in Ht. destruct Ht as [[-> _]|[-> _]]; [exact IP|].
    apply (invP_view s0); auto; bnd IP. }
  eapply invK_shape; [exact IT1|exact IK1|]. eapply step0_pshape; eauto.
Qed.
