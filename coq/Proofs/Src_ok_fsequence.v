(* source facts of more_executors/_impl/futures/sequence.py: what the translator finds now is what the models were written against *)
From Coq Require Import List String.
From ME Require Import Gen.Src_fsequence Model.SrcExpected.
Lemma src_fsequence_ok : Src_fsequence.facts = expected_fsequence.
Proof. reflexivity. Qed.
