(* C03 / C12 for the Poll machine, part 10: a done poll future has no descriptor once everybody is idle. *)
From Coq Require Import ZArith List Bool Arith Lia.
From RecordUpdate Require Import RecordSet.
From ME Require Import Base.Machine Base.Fut Base.GenPrelude Model.Poll Proofs.Poll_Inv Proofs.Poll_Prov
     Proofs.Poll_Raise Proofs.Poll_NoDup Proofs.Poll_Snap Proofs.Poll_Thms
     Proofs.Poll_N1 Proofs.Poll_N2 Proofs.Poll_N3 Proofs.Poll_N4 Proofs.Poll_N5 Proofs.Poll_N6 Proofs.Poll_N8 Proofs.Poll_N9.
Import ListNotations RecordSetNotations.

(* _register_poll never appends a descriptor for a future that is already done *)
Lemma pre12_of s : Inv3 s -> Inv5 s -> Inv7 s -> Inv8 s -> InvK s -> Pre12 s.
Proof.
  intros I3 I5 I7 I8 IK. constructor.
  - intros t j v l E. destruct (fdone (ps s j)) eqn:Hd; [|reflexivity]. exfalso.
    pose proof (i7_cnt _ I7 j t) as Hc. rewrite E in Hc. simpl in Hc. rewrite Nat.eqb_refl in Hc.
    assert (Ht : tok s j <> None).
    { intros Hn. rewrite Hn in Hc. simpl in Hc. lia. }
    destruct (i7_tok _ I7 j Ht) as [_ Hn0].
    pose proof (i5_prog _ I5 t) as Hj. rewrite E in Hj. inversion Hj as [|? ? Hh _]; subst. simpl in Hh.
    destruct Hh as [ts Hh]. destruct (i8_hd _ I8 _ _ _ Hh) as [Ho _].
    destruct (k_done _ IK j Hd) as [Hr|[Hc'|[e [ts' Hf]]]].
    + unfold Rh in Hr. lia.
    + unfold Cd in Hc'. rewrite (i8_fin _ I8 _ _ Ho) in Hc'. discriminate.
    + destruct (i8_hd _ I8 _ _ _ Hf) as [Ho' _]. congruence.
  - intros j Hin. rewrite (i3_descs _ I3) in Hin. apply in_descs_nreg in Hin.
    destruct (Nat.lt_ge_cases j (nfut s)) as [Hl|Hl]; [exact Hl|].
    destruct (i7_fresh _ I7 j Hl) as [_ [_ Hz]]. lia.
Qed.

Record InvC12 (s : st) : Prop := { c_k : InvK s; c_q : InvQ s; c_12 : Inv12 s }.

Lemma reach_c12 s : reachable s -> InvC12 s.
Proof.
  apply (invariant_rule_r step InvC12 init).
  - constructor; [exact invk_init|exact invq_init|exact inv12_init].
  - intros x e x' R [IK IQ I12] H.
    pose proof (reach_c03 x R) as [I8 _ ID _ _].
    constructor.
    + eapply invk_step; [apply reach_inv3, R|apply reach_inv5, R|exact IK|exact H].
    + eapply invq_step; [exact ID|exact IQ|exact H].
    + eapply inv12_step; [exact ID|exact IQ| |exact I12|exact H].
      apply pre12_of; auto; [apply reach_inv3|apply reach_inv5|apply reach_inv7]; exact R.
Qed.

Lemma registered_not_done_lemma s t j v l :
  reachable s -> thr s t = IXAcqReg j v :: l -> fdone (ps s j) = false.
Proof.
  intros R. apply (p_reg s). apply pre12_of;
    [apply reach_inv3|apply reach_inv5|apply reach_inv7|apply (c_8 _ (reach_c03 s R))|apply (c_k _ (reach_c12 s R))]; exact R.
Qed.

Lemma done_not_registered_lemma s j :
  reachable s -> quiescent s -> fdone (ps s j) = true -> ~ In j (map fst (descs s)).
Proof.
  intros R Q Hd Hin. pose proof (quiescent_all s R Q) as Hq.
  destruct (c_12 _ (reach_c12 s R) j Hd Hin) as [[t H]|[[_ [t H]]|[t H]]]; rewrite Hq in H; exact H.
Qed.

(* every descriptor listed in a quiescent state belongs to a pending future *)
Lemma quiescent_descs_pending_lemma s j v :
  reachable s -> quiescent s -> In (j, v) (descs s) -> fdone (ps s j) = false /\ j < nfut s.
Proof.
  intros R Q Hin. assert (Hm : In j (map fst (descs s))) by (apply in_map_iff; exists (j, v); auto). split.
  - destruct (fdone (ps s j)) eqn:Hd; [|reflexivity]. exfalso. exact (done_not_registered_lemma s j R Q Hd Hm).
  - apply (p_lt s); [|exact Hm]. apply pre12_of;
      [apply reach_inv3|apply reach_inv5|apply reach_inv7|apply (c_8 _ (reach_c03 s R))|apply (c_k _ (reach_c12 s R))]; exact R.
Qed.
