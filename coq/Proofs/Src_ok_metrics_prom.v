(* source facts of more_executors/_impl/metrics/prometheus.py: what the translator finds now is what the models were written against *)
From Coq Require Import List String.
From ME Require Import Gen.Src_metrics_prom Model.SrcExpected.
Lemma src_metrics_prom_ok : Src_metrics_prom.facts = expected_metrics_prom.
Proof. reflexivity. Qed.
