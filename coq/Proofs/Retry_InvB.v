(* The lemmas behind Props/C05_machine.v, assembled from the invariant layers. *)
From Coq Require Import List ZArith Bool Arith Lia PeanoNat.
From RecordUpdate Require Import RecordSet.
From ME Require Import Base.Machine Base.Fut Base.GenPrelude Gen.RetryGen Model.Retry Proofs.Retry_InvB0
  Proofs.Retry_InvB1 Proofs.Retry_InvB2 Proofs.Retry_InvB3 Proofs.Retry_InvB4 Proofs.Retry_InvB5 Proofs.Retry_InvB6 Proofs.Retry_InvB7 Proofs.Retry_InvB8.
Import ListNotations RecordSetNotations.

Definition InvAll (s : st) : Prop := InvA s /\ InvB s /\ InvC s /\ InvD1 s /\ InvD2 s /\ InvE s /\ InvF s.

Lemma invAll_reach s : reachable_from step init s -> InvAll s.
Proof.
  apply invariant_rule.
  - split; [apply invA_init|]. split; [apply invB_init|]. split; [apply invC_init|]. split; [apply invD1_init|]. split; [apply invD2_init|]. split; [apply invE_init|apply invF_init].
  - intros s0 e s1 (IA & IB & IC & ID1 & ID2 & IE & IF) H. apply step_tick in H. destruct H as (s2 & T & H).
    unfold tick in T. destruct (Z.leb (clock s0) (fst e)); inv_some T.
    assert (IA' := invA_tick _ (fst e) IA). assert (IB' := invB_tick _ (fst e) IB).
    assert (IC' := invC_tick _ (fst e) IC).
    assert (ID1' := invD1_tick _ (fst e) ID1). assert (ID2' := invD2_tick _ (fst e) ID2).
    assert (IE' := invE_tick _ (fst e) IA IE). assert (IF' := invF_tick _ (fst e) IA IB IF).
    split; [eapply invA_step0; eauto|]. split; [eapply invB_step0; eauto|].
    split; [eapply invC_step0; eauto|]. split; [eapply invD1_step0; eauto|]. split; [eapply invD2_step0; eauto|].
    split; [eapply invE_step0; eauto|eapply invF_step0; eauto].
Qed.

Definition retry_finished_has_final := Retry_InvB1.retry_finished_has_final.
Definition retry_callbacks_after_final := Retry_InvB1.retry_callbacks_after_final.

Lemma retry_policy_once s : reachable_from step init s -> forall l1 j a ans ts l2,
  hist s = l1 ++ HPolSR j a ans ts :: l2 ->
  1 <= a /\ (forall ans' ts', ~ In (HPolSR j a ans' ts') l2) /\
  (2 <= a -> exists t', In (HPolSR j (a - 1) 1 t') l2).
Proof. intros H. destruct (invAll_reach s H) as (_ & _ & _ & ID1 & _). exact (d_pol _ ID1). Qed.

Lemma retry_policy_decline_ends s : reachable_from step init s -> forall l1 j a ans ts l2,
  hist s = l1 ++ HPolSR j a ans ts :: l2 -> ans <> 1 ->
  forall j' d a' t' w, In (HDSubmit j' d a' t' w) l1 -> j' <> j.
Proof. intros H. destruct (invAll_reach s H) as (_ & _ & _ & _ & ID2 & _). exact (e_dec _ ID2). Qed.

Lemma retry_final_outcome s : reachable_from step init s -> forall j o ts,
  In (HFinal j o ts) (hist s) ->
  exists d, d < ndel s /\ dfor s d = j /\ dout s d = Some o /\ fdone (ds s d) = true /\
            forall d', d' < ndel s -> dfor s d' = j -> d' <= d.
Proof.
  intros H. destruct (invAll_reach s H) as (_ & _ & _ & _ & _ & IE & IF). exact (final_outcome_of_inv s IE IF).
Qed.
