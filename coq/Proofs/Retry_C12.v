(* IXPop of a queued record only for stop records; then the invariant about pending IXAcqPop. *)
From Coq Require Import List ZArith Bool Arith Lia.
From RecordUpdate Require Import RecordSet.
From ME Require Import Base.Machine Base.Fut Base.GenPrelude Gen.RetryGen Model.Retry Proofs.Retry_Spec Proofs.Retry_C0 Proofs.Retry_C1 Proofs.Retry_C2 Proofs.Retry_C3 Proofs.Retry_C4 Proofs.Retry_C5 Proofs.Retry_C6 Proofs.Retry_C7 Proofs.Retry_C8 Proofs.Retry_C9 Proofs.Retry_C10 Proofs.Retry_C11.
Import ListNotations RecordSetNotations.

Lemma FA_upd (Q : st -> instr -> Prop) s s' : (forall i, Q s i -> Q s' i) ->
  (forall u, Forall (Q s) (thr s u)) ->
  forall t p, (forall u, thr s' u = upd (thr s) t p u) -> Forall (Q s') p ->
  forall u, Forall (Q s') (thr s' u).
Proof.
  intros M H t p E Hp u. rewrite E. unfold upd. destruct (Nat.eqb u t); [exact Hp|].
  eapply Forall_impl; [|apply H]. exact M.
Qed.

Definition psq (s : st) (i : instr) : Prop :=
  match i with
  | IXPop r => r < nrec s /\ (jdel (recs s r) = None -> jstop (recs s r) = true)
  | _ => True
  end.
Lemma psq_mono s s' i : MONO s s' -> psq s i -> psq s' i.
Proof.
  intros M. destruct i; simpl; auto. intros [A B]. split; [pose proof (mo_nrec _ _ M); lia|].
  rewrite (mo_jdel _ _ M) by exact A. intros E. apply (mo_jstop_t _ _ M); auto.
Qed.
Definition PS (s : st) : Prop := forall t, Forall (psq s) (thr s t).

Lemma PS_step0 s e s' : PS s -> PI s -> RI s -> step0 s e = Some s' -> PS s'.
Proof.
  intros HS HP HR H. pose proof (MONO_step0 _ _ _ H) as HM. s0inv H; try exact HS.
  all: try (match goal with inl : option outcome |- _ => destruct inl end).
  all: bsplit; subst.
  all: match goal with Hq : thr _ ?t = _ |- _ => pose proof (HS t) as Tt; rewrite Hq in Tt; pose proof (pi_thr s HP t) as Pt; rewrite Hq in Pt end.
  all: eapply Forall_impl in Tt; [|intros i; apply psq_mono; exact HM].
  all: unfold PS in *.
  all: first [eapply (FA_upd psq s _ (fun i => psq_mono s _ i HM) HS); [intros u; reflexivity|]
             | intros u; eapply Forall_impl; [|apply HS]; intros i; apply psq_mono; exact HM].
  all: try (apply Forall_norm; [exact I|]).
  all: repeat (match goal with H : Forall _ (_ :: _) |- _ => inversion H; subst; clear H end).
  all: try assumption.
  all: repeat (match goal with |- Forall _ (_ :: _) => apply Forall_cons end); try assumption; try exact I; try apply Forall_nil.
  all: unfold log, set_prog in *; simpl in *.
  all: repeat match goal with H : _ /\ _ |- _ => destruct H | H : exists _, _ |- _ => destruct H end.
  all: try (split; [assumption|]; intros; congruence).
  - apply next_job_in in Heqo. destruct Heqo as [A B]. split; [apply (ri_jobs s HR); exact A|]. intros _. assumption.
  - apply next_job_in in Heqo. destruct Heqo as [A B]. split; [apply (ri_jobs s HR); exact A|]. intros _. assumption.
  - apply Forall_app. split; [apply Forall_cbs; intros; exact I|assumption].
  - apply Forall_tl. assumption.
  - destruct (dcb s d); repeat constructor.
  - destruct (dcb s d); repeat constructor.
Qed.

Lemma PS_reach s : reachable_from step init s -> PS s.
Proof.
  apply (invariant_rule_r step PS).
  - intros t. constructor.
  - intros s0 e s' R IH H. apply step_split in H. destruct H as (s1 & Ht & H).
    apply tick_eq in Ht. subst s1. eapply PS_step0; [ | | |exact H].
    + intros t. eapply Forall_impl; [|apply IH]. intros i. destruct i; simpl; auto.
    + apply PI_tick, PI_reach, R.
    + apply RI_tick, RI_reach, R.
Qed.

Lemma fcpre_1_0 s j p : fcpre s j 1 p = true -> fcpre s j 0 p = true.
Proof. destruct p as [|i r]; [discriminate|]. destruct i; simpl; try discriminate; auto. Qed.

Definition JPOP (s : st) : Prop := forall t r, In (IXAcqPop r) (thr s t) ->
  In r (jobs s) \/ fdone (rs s (jf (recs s r))) = true \/ exists c, fcpre s (jf (recs s r)) 0 (thr s c) = true.

Lemma fcpre_step s e s' j c : step0 s e = Some s' -> PI s -> fcpre s j 0 (thr s c) = true ->
  fcpre s' j 0 (thr s' c) = true \/ fdone (rs s' j) = true.
Proof.
  intros H HP F. pose proof (MONO_step0 _ _ _ H) as HM.
  assert (Fm : forall p, Forall (ipr s) p -> fcpre s j 0 p = true -> fcpre s' j 0 p = true)
    by (intros p Hp; apply fcpre_mono; [exact HM|exact Hp]).
  assert (Fm1 : forall p, Forall (ipr s) p -> fcpre s j 1 p = true -> fcpre s' j 1 p = true)
    by (intros p Hp; apply fcpre_mono; [exact HM|exact Hp]).
  s0inv H. all: try (left; exact F).
  all: try (match goal with inl : option outcome |- _ => destruct inl end).
  all: bsplit; subst.
  all: try (timeout 5 match goal with Hq : thr _ ?t = _ |- _ =>
      pose proof (pi_thr s HP t) as Pit; rewrite Hq in Pit;
      destruct (Nat.eq_dec c t) as [->|Nu];
      [rewrite Hq in F; simpl in F; try discriminate F
      |left; match goal with |- fcpre ?B _ 0 (thr ?B ?cc) = true =>
         let Et := fresh in assert (Et : thr B cc = thr s cc) by (unfold log, set_prog; simpl; apply upd_other; exact Nu);
         rewrite Et; exact (Fm _ (pi_thr s HP cc) F) end] end).
  all: try (inversion Pit as [|? ? Pi1 Pl]; subst).
  - left. rewrite thr_set_prog_same. apply fcpre_norm. apply Fm; assumption.
  - right. apply eqb_t in F. subst. unfold log, set_prog. simpl. rewrite upd_same.
    eapply f_cancel_done'; eassumption.
  - left. rewrite thr_set_prog_same. apply andb_true_iff in F. destruct F as [F1 F2].
    cbn [norm]. cbn [fcpre]. rewrite (Fm _ Pl (fcpre_1_0 _ _ _ F2)), andb_true_r.
    apply (mo_dcan _ _ HM); [apply Pi1|exact F1].
  - left. rewrite thr_set_prog_same. apply andb_true_iff in F. destruct F as [F1 F2].
    cbn [norm]. apply fcpre_norm. apply Fm1; assumption.
  - left. rewrite thr_set_prog_same. apply andb_true_iff in F. destruct F as [F1 F2].
    apply fcpre_norm. apply Fm; assumption.
  - apply andb_true_iff in F. destruct F as [F1 F2]. congruence.
  - apply andb_true_iff in F. destruct F as [F1 F2]. congruence.
  - left. exact (Fm _ (pi_thr s HP c) F).
  - left. exact (Fm _ (pi_thr s HP c) F).
Qed.

Definition jpd (s : st) (r : nat) : Prop :=
  In r (jobs s) \/ fdone (rs s (jf (recs s r))) = true \/ exists c, fcpre s (jf (recs s r)) 0 (thr s c) = true.

Lemma jpop_keep s e s' r : step0 s e = Some s' -> PI s -> r < nrec s -> jpd s r ->
  (In r (jobs s) -> jpd s' r) -> jpd s' r.
Proof.
  intros H HP Hr D K. pose proof (MONO_step0 _ _ _ H) as M. destruct D as [D|[D|[c D]]].
  - apply K, D.
  - right. left. rewrite (mo_jf _ _ M) by exact Hr. apply (mo_rdone _ _ M); [apply (pi_jf s HP); exact Hr|exact D].
  - right. destruct (fcpre_step s e s' _ c H HP D) as [F|F].
    + right. exists c. rewrite (mo_jf _ _ M) by exact Hr. exact F.
    + left. rewrite (mo_jf _ _ M) by exact Hr. exact F.
Qed.

Lemma in_cbs_pop r j l : ~ In (IXAcqPop r) (cbs_prog j l).
Proof.
  induction l as [|c l IH]; simpl; [tauto|]. destruct c; simpl; intros [E|H]; try discriminate E; auto.
  destruct H as [E|H]; [discriminate E|auto].
Qed.
Lemma pop_ipr s v r : PI s -> In (IXAcqPop r) (thr s v) ->
  r < nrec s /\ jdel (recs s r) = None /\ jstop (recs s r) = false.
Proof. intros HP H. pose proof (pi_thr s HP v) as Q. rewrite Forall_forall in Q. apply (Q _ H). Qed.

Lemma JPOP_step0 s e s' : JPOP s -> PI s -> PS s -> RI s -> (forall t, wpb t (thr s t) = true) ->
  step0 s e = Some s' -> JPOP s'.
Proof.
  intros HJ HP HS HR HW H. pose proof H as H0. s0inv H; try exact HJ.
  all: try (match goal with inl : option outcome |- _ => destruct inl end).
  all: bsplit; subst.
  all: intros u r0 Hin.
  all: match goal with |- In _ (jobs ?B) \/ _ => change (jpd B r0) end.
  (* reduce to the old program *)
  all: assert (Hr0 : forall v, In (IXAcqPop r0) (thr s v) -> r0 < nrec s)
    by (intros v Hv; pose proof (pi_thr s HP v) as Q; rewrite Forall_forall in Q; apply (Q _ Hv)).
  all: try (unfold log, set_prog in Hin; simpl in Hin; unfold upd in Hin;
    match type of Hin with context[Nat.eqb ?a ?b] => destruct (Nat.eqb a b) eqn:Eu end;
    [apply eqb_t in Eu; subst u; try (apply in_norm in Hin; destruct Hin as [Hin|Hin]; [|discriminate Hin]);
     simpl in Hin; repeat (destruct Hin as [Hin|Hin]; [try discriminate Hin|])
    |]).
  all: try (match goal with Hq : thr _ ?t = _ :: _ |- _ =>
     first [ assert (Hold : In (IXAcqPop r0) (thr s t)) by (rewrite Hq; right; exact Hin)
           | assert (Hold : In (IXAcqPop r0) (thr s u)) by exact Hin ] end;
     match type of Hold with In _ (thr _ ?v) =>
       apply (jpop_keep s _ _ r0 H0 HP (Hr0 v Hold) (HJ v r0 Hold)); intros Hj end;
     try (left; unfold log, set_prog; simpl; first [exact Hj | apply in_app_iff; left; exact Hj]; fail)).
  all: try (match goal with Hq : thr _ ?t = [] |- _ =>
     assert (Hold : In (IXAcqPop r0) (thr s u)) by exact Hin;
     apply (jpop_keep s _ _ r0 H0 HP (Hr0 u Hold) (HJ u r0 Hold)); intros Hj;
     left; unfold log, set_prog; simpl; exact Hj end).
  all: try contradiction.
  - inversion Hin; subst. left. unfold set_prog. simpl. apply next_job_in in Heqo. apply Heqo.
  - destruct (Nat.eq_dec r0 n) as [->|Nn].
    + right. right. exists t. apply find_fut_some in Heqo. destruct Heqo as [_ Ej].
      unfold set_prog. simpl. rewrite upd_same. simpl. rewrite Ej. apply Nat.eqb_refl.
    + left. unfold set_prog. simpl. apply in_remove_id. split; assumption.
  - destruct (Nat.eq_dec r0 n) as [->|Nn].
    + right. right. exists t. apply find_fut_some in Heqo. destruct Heqo as [_ Ej].
      unfold set_prog. simpl. rewrite upd_same. simpl. rewrite Ej. apply Nat.eqb_refl.
    + left. unfold set_prog. simpl. apply in_remove_id. split; assumption.
  - left. unfold log, set_prog. simpl. apply in_app_iff. left. apply in_remove_id. split; [exact Hj|].
    intros ->. destruct (pop_ipr s _ _ HP Hold) as (_ & A & _).
    pose proof (pi_thr s HP t) as Q. rewrite Heql in Q. inversion Q as [|? ? Qi _]; subst. simpl in Qi.
    destruct Qi as (_ & d & B & _). congruence.
  - left. unfold log, set_prog. simpl. apply in_app_iff. left. apply in_remove_id. split; [exact Hj|].
    intros ->. destruct (pop_ipr s _ _ HP Hold) as (_ & A & _).
    pose proof (pi_thr s HP t) as Q. rewrite Heql in Q. inversion Q as [|? ? Qi _]; subst. simpl in Qi.
    destruct Qi as (_ & d & B & _). congruence.
  - left. unfold set_prog. simpl. apply in_remove_id. split; [exact Hj|].
    intros ->. destruct (pop_ipr s _ _ HP Hold) as (_ & A & B).
    pose proof (HS t) as Q. rewrite Heql in Q. inversion Q as [|? ? Qi _]; subst. simpl in Qi.
    destruct Qi as (_ & C). rewrite (C A) in B. discriminate.
  - left. unfold set_prog. simpl. apply in_remove_id. split; [exact Hj|].
    intros ->. destruct (pop_ipr s _ _ HP Hold) as (_ & A & B).
    pose proof (HS t) as Q. rewrite Heql in Q. inversion Q as [|? ? Qi _]; subst. simpl in Qi.
    destruct Qi as (_ & C). rewrite (C A) in B. discriminate.
  - exfalso. eapply (wpb_once t _ r r0 l (HW t) Heql). exact Hin.
  - exfalso. apply Nat.eqb_neq in Eu. apply Eu.
    assert (u = worker) by (eapply wpb_worker; [apply HW|exact Hold]).
    assert (t = worker) by (eapply wpb_worker; [apply HW|rewrite Heql; left; reflexivity]). congruence.
  - apply in_app_iff in Hin. destruct Hin as [Hin|Hin]; [exfalso; eapply in_cbs_pop; exact Hin|].
    assert (Hold : In (IXAcqPop r0) (thr s n)) by (rewrite Heql; right; exact Hin).
    apply (jpop_keep s _ _ r0 H0 HP (Hr0 n Hold) (HJ n r0 Hold)); intros Hj. left. exact Hj.
  - apply in_tl in Hin.
    assert (Hold : In (IXAcqPop r0) (thr s t)) by (rewrite Heql; right; exact Hin).
    apply (jpop_keep s _ _ r0 H0 HP (Hr0 t Hold) (HJ t r0 Hold)); intros Hj. left. exact Hj.
  - destruct (dcb s d); simpl in Hin; [destruct Hin as [E|[E|[]]]; discriminate E|destruct Hin].
  - destruct (dcb s d); simpl in Hin; [destruct Hin as [E|[E|[]]]; discriminate E|destruct Hin].
Qed.

Lemma fcpre_tick s ts j ex p : fcpre (s <| clock := ts |>) j ex p = fcpre s j ex p.
Proof.
  revert ex. induction p as [|i r IH]; intros ex; [reflexivity|].
  destruct ex as [|[|ex]]; simpl; rewrite ?IH; try reflexivity; destruct i; simpl; rewrite ?IH; reflexivity.
Qed.

Lemma JPOP_reach s : reachable_from step init s -> JPOP s.
Proof.
  apply (invariant_rule_r step JPOP).
  - intros t r H. destruct H.
  - intros s0 e s' R IH H. apply step_split in H. destruct H as (s1 & Ht & H).
    apply tick_eq in Ht. subst s1. eapply JPOP_step0; [ | | | | |exact H].
    + intros t r Hin. destruct (IH t r Hin) as [A|[A|[c A]]]; [left; exact A|right; left; exact A|].
      right. right. exists c. simpl. rewrite fcpre_tick. exact A.
    + apply PI_tick, PI_reach, R.
    + intros t. eapply Forall_impl; [|apply (PS_reach s0 R)]. intros i. destruct i; simpl; auto.
    + apply RI_tick, RI_reach, R.
    + apply (WP_reach s0 R).
Qed.
