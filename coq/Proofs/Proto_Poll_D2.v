(* C02 / Poll, clause (d), part D2: conservation of the built-in done-callback _clear_executor of every poll future
   (it is in exactly one place: pending registration IDoneA j, registered pcb, pending invocation IXDereg j, ran HDereg j),
   hence: it runs at most once, only on a done future, and at rest exactly once on every done future. *)
From Coq Require Import ZArith List Bool Arith Lia.
From RecordUpdate Require Import RecordSet.
From ME Require Import Base.Machine Base.Fut Base.GenPrelude Model.Poll Proofs.Poll_Inv Proofs.Poll_Prov Proofs.Poll_Refute
  Proofs.Poll_N7 Proofs.Keep_PollC Proofs.Proto_Gen
  Proofs.Proto_Poll_P Proofs.Proto_Poll_P1 Proofs.Proto_Poll_P2 Proofs.Proto_Poll_V Proofs.Proto_Poll_T
  Proofs.Proto_Poll_D Proofs.Proto_Poll_D1.
Import ListNotations RecordSetNotations.

Fixpoint sumT (f : nat -> nat) (T : list nat) : nat := match T with [] => 0 | t :: r => f t + sumT f r end.
Lemma sumT_ext f f' T : (forall u, In u T -> f' u = f u) -> sumT f' T = sumT f T.
Proof.
  induction T as [|a T IH]; [reflexivity|]. intros H. simpl. rewrite (H a (or_introl eq_refl)), IH; [reflexivity|].
  intros u Hu. apply H. right. exact Hu.
Qed.
Lemma sumT_upd f f' t T : NoDup T -> In t T -> (forall u, u <> t -> f' u = f u) -> sumT f' T + f t = sumT f T + f' t.
Proof.
  induction T as [|a T IH]; [intros _ []|]. intros Hnd Hin Hf. inversion Hnd as [|x l Hni Hnd']; subst. simpl.
  destruct (Nat.eq_dec a t) as [->|Hne].
  - rewrite (sumT_ext f f' T); [lia|]. intros u Hu. apply Hf. intros ->. contradiction.
  - destruct Hin as [Hx|Hin]; [contradiction|]. rewrite (Hf a Hne). specialize (IH Hnd' Hin Hf). lia.
Qed.
Lemma sumT_ge f t T : In t T -> f t <= sumT f T.
Proof. induction T as [|a T IH]; [intros []|]. intros [->|Hin]; simpl; [lia|]. specialize (IH Hin). lia. Qed.

(* T lists (without repetition) every thread whose program is not empty *)
Definition supp (s : st) (T : list nat) : Prop := NoDup T /\ forall t, thr s t <> [] -> In t T.
Definition total (j : nat) (s : st) (T : list nat) : nat :=
  hD j (hist s) + bP s j + sumT (fun t => pcI j (thr s t)) T.

(* what one step does to the four places, for the thread t that moves *)
Lemma shape_delta s s' j : pshape s s' ->
  (forall t, bP s j + pcI j (thr s t) <= alloc s j) ->
  exists t, (forall u, u <> t -> thr s' u = thr s u) /\
    hD j (hist s') + bP s' j + pcI j (thr s' t) + alloc s j = hD j (hist s) + bP s j + pcI j (thr s t) + alloc s' j.
Proof.
  intros Hs Hle. unfold bP, alloc in *.
  destruct Hs as [Et [En [Eps Epc]] Eh | t p s1 Et Et' Hp _ [En [Eps Epc]] Eh | t i p rest s1 Et Et' Hq Hp _ En Epc Eh _
                 | t rest s1 Et Et' En Eps Epc Eh
                 | t j0 rest s1 Et _ Et' [En [Eps Epc]] Eh | t j0 rest s1 Et Hnd Et' En Eps Epc Eh | t j0 rest s1 Et Et' En Eps Epc Eh
                 | t j0 rest s1 ts Et Et' [En [Eps Epc]] Eh | t j0 rest s1 n b Et Hf Et' En Eps Epc Eh].
  - exists 0. rewrite Et, En, Epc, (Eh j). split; [reflexivity|lia].
  - exists t. split; [intros u Hu; rewrite Et', upd_other by exact Hu; reflexivity|].
    rewrite Et', upd_same, pcI_norm, (plain_pcI j p Hp), Et, En, Epc, (Eh j). simpl. lia.
  - exists t. split; [intros u Hu; rewrite Et', upd_other by exact Hu; reflexivity|].
    rewrite Et', upd_same, pcI_norm, pcI_app, (plain_pcI j p Hp), Et, En, Epc, (Eh j). simpl.
    assert (wI j i = 0) by (destruct i; simpl in Hq |- *; try discriminate; reflexivity). lia.
  - exists t. split; [intros u Hu; rewrite Et', upd_other by exact Hu; reflexivity|].
    specialize (Hle t). rewrite Et in Hle. simpl in Hle.
    rewrite Et', upd_same, pcI_norm, pcI_app, Et, En, Epc, (Eh j). simpl. unfold upd.
    destruct (Nat.eqb j (nfut s)) eqn:E.
    + apply Nat.eqb_eq in E. subst j. rewrite Nat.eqb_refl, Nat.ltb_irrefl in *.
      rewrite (ltb_of (nfut s) (S (nfut s))) by lia. destruct (pcb s (nfut s)); lia.
    + rewrite (Nat.eqb_sym (nfut s) j), E. apply Nat.eqb_neq in E.
      destruct (j <? nfut s) eqn:E1.
      * apply Nat.ltb_lt in E1. rewrite (ltb_of j (S (nfut s))) by lia. lia.
      * apply Nat.ltb_ge in E1. assert (E2 : (j <? S (nfut s)) = false) by (apply Nat.ltb_ge; lia). rewrite E2. lia.
  - exists t. split; [intros u Hu; rewrite Et', upd_other by exact Hu; reflexivity|].
    rewrite Et', upd_same, pcI_norm, Et, En, Epc, (Eh j). simpl. lia.
  - exists t. split; [intros u Hu; rewrite Et', upd_other by exact Hu; reflexivity|].
    specialize (Hle t). rewrite Et in Hle. simpl in Hle.
    rewrite Et', upd_same, pcI_norm, Et, En, Epc, (Eh j). simpl. unfold upd.
    destruct (Nat.eqb j j0) eqn:E.
    + apply Nat.eqb_eq in E. subst j0. rewrite Nat.eqb_refl in *. destruct (pcb s j); destruct (j <? nfut s); lia.
    + rewrite (Nat.eqb_sym j0 j), E. lia.
  - exists t. split; [intros u Hu; rewrite Et', upd_other by exact Hu; reflexivity|].
    rewrite Et', upd_same, pcI_norm, pcI_app, Et, En, Epc, (Eh j). simpl. unfold upd.
    destruct (Nat.eqb j j0) eqn:E.
    + apply Nat.eqb_eq in E. subst j0. destruct (pcb s j); simpl; rewrite ?Nat.eqb_refl; lia.
    + destruct (pcb s j0); simpl; rewrite ?(Nat.eqb_sym j0 j), ?E; lia.
  - exists t. split; [intros u Hu; rewrite Et', upd_other by exact Hu; reflexivity|].
    rewrite Et', upd_same, pcI_norm, Et, En, Epc, Eh. simpl. lia.
  - exists t. split; [intros u Hu; rewrite Et', upd_other by exact Hu; reflexivity|].
    rewrite Et', upd_same, pcI_norm, Et, En, Epc, (Eh j). simpl. lia.
Qed.

Lemma step_shape s e s' : reachable s -> step s e = Some s' ->
  exists s1, pshape s1 s' /\ thr s1 = thr s /\ nfut s1 = nfut s /\ ps s1 = ps s /\ pcb s1 = pcb s /\ hist s1 = hist s.
Proof.
  intros Hr Hx. destruct e as [ts e]. apply step_inv in Hx. destruct Hx as [s1 [Ht Hx]]. exists s1.
  split; [|exact (tick_same _ _ _ Ht)].
  apply (step0_pshape s1 e); [|exact Hx].
  pose proof (invP_reachable s Hr) as IP. apply tick_inv in Ht. destruct Ht as [[-> _]|[-> _]]; [exact IP|].
  apply (invP_view s); auto; bnd IP.
Qed.

(* every reachable state has a finite support, and the conservation law holds for each of its supports *)
Definition InvC (s : st) : Prop := (exists T, supp s T) /\ forall T, supp s T -> forall j, total j s T = alloc s j.

Lemma invC_le s : InvC s -> forall j t, bP s j + pcI j (thr s t) <= alloc s j.
Proof.
  intros [[T [Hnd Hsup]] HC] j t.
  set (T0 := if in_dec Nat.eq_dec t T then T else t :: T).
  assert (Hin0 : In t T0) by (unfold T0; destruct (in_dec Nat.eq_dec t T); [assumption|left; reflexivity]).
  assert (HT0 : supp s T0).
  { unfold T0. destruct (in_dec Nat.eq_dec t T); split; auto; [constructor; assumption|intros u Hu; right; auto]. }
  specialize (HC T0 HT0 j). unfold total in HC.
  pose proof (sumT_ge (fun u => pcI j (thr s u)) t T0 Hin0) as Hge. simpl in Hge. lia.
Qed.

Lemma invC_reachable : forall s, reachable s -> InvC s.
Proof.
  apply invariant_rule_r.
  - split; [exists []; split; [constructor|intros t Ht; apply Ht; reflexivity]|].
    intros T [Hnd _] j. unfold total, bP, alloc. simpl.
    assert (E : sumT (fun _ : nat => 0) T = 0) by (clear; induction T; simpl; auto). exact E.
  - intros s e s' Hr IC Hx. destruct (step_shape s e s' Hr Hx) as [s1 [Hs [E1 [E2 [E3 [E4 E5]]]]]].
    assert (IC1 : InvC s1).
    { destruct IC as [[T HT] HC]. split.
      - exists T. unfold supp. rewrite E1. exact HT.
      - intros T' HT' j. unfold supp in HT'. rewrite E1 in HT'. specialize (HC T' HT' j).
        unfold total, bP, alloc in *. rewrite E1, E2, E4, E5. exact HC. }
    clear IC. pose proof (invC_le s1 IC1) as Hle. destruct IC1 as [[T0 [Hnd0 Hsup0]] HC].
    split.
    + destruct (shape_delta s1 s' 0 Hs (Hle 0)) as [t [Hoth _]].
      exists (if in_dec Nat.eq_dec t T0 then T0 else t :: T0). split.
      * destruct (in_dec Nat.eq_dec t T0); [assumption|constructor; assumption].
      * intros u Hu. destruct (Nat.eq_dec u t) as [->|Hne].
        -- destruct (in_dec Nat.eq_dec t T0); [assumption|left; reflexivity].
        -- rewrite (Hoth u Hne) in Hu. specialize (Hsup0 u Hu). destruct (in_dec Nat.eq_dec t T0); [assumption|right; assumption].
    + intros T [Hnd Hsup] j. destruct (shape_delta s1 s' j Hs (Hle j)) as [t [Hoth Hd]].
      set (T1 := if in_dec Nat.eq_dec t T then T else t :: T).
      assert (Hin1 : In t T1) by (unfold T1; destruct (in_dec Nat.eq_dec t T); [assumption|left; reflexivity]).
      assert (Hnd1 : NoDup T1) by (unfold T1; destruct (in_dec Nat.eq_dec t T); [assumption|constructor; assumption]).
      assert (Hsup1 : forall u, thr s1 u <> [] -> In u T1).
      { intros u Hu. destruct (Nat.eq_dec u t) as [->|Hne]; [exact Hin1|]. rewrite <- (Hoth u Hne) in Hu.
        specialize (Hsup u Hu). unfold T1. destruct (in_dec Nat.eq_dec t T); [assumption|right; assumption]. }
      pose proof (HC T1 (conj Hnd1 Hsup1) j) as H1.
      assert (Hsame : total j s' T = total j s' T1).
      { unfold T1. destruct (in_dec Nat.eq_dec t T) as [Hi|Hni]; [reflexivity|]. unfold total. simpl.
        destruct (thr s' t) as [|i r] eqn:E; [simpl; lia|]. exfalso. apply Hni. apply Hsup. rewrite E. discriminate. }
      rewrite Hsame. unfold total in *.
      pose proof (sumT_upd (fun u => pcI j (thr s1 u)) (fun u => pcI j (thr s' u)) t T1 Hnd1 Hin1) as Hs1. simpl in Hs1.
      assert (Hf : forall u, u <> t -> pcI j (thr s' u) = pcI j (thr s1 u)) by (intros u Hu; rewrite (Hoth u Hu); reflexivity).
      specialize (Hs1 Hf). lia.
Qed.

(* ---- consequences ------------------------------------------------------------------------------------------------ *)
(* AT MOST ONCE, and only for an allocated future *)
Lemma poll_dereg_at_most_once s : reachable s -> forall j, hD j (hist s) <= alloc s j.
Proof.
  intros Hr j. destruct (invC_reachable s Hr) as [[T HT] HC]. specialize (HC T HT j). unfold total in HC. lia.
Qed.
Lemma hD_mid j l1 ts l2 : hD j (l1 ++ HDereg j ts :: l2) = hD j l1 + 1 + hD j l2.
Proof. rewrite hD_app. simpl. rewrite Nat.eqb_refl. lia. Qed.
Lemma poll_dereg_once s : reachable s -> forall l1 j ts l2, hist s = l1 ++ HDereg j ts :: l2 ->
  j < nfut s /\ (forall ts', ~ In (HDereg j ts') l1) /\ (forall ts', ~ In (HDereg j ts') l2).
Proof.
  intros Hr l1 j ts l2 E. pose proof (poll_dereg_at_most_once s Hr j) as H. rewrite E, hD_mid in H. unfold alloc in H.
  destruct (j <? nfut s) eqn:Ej; [|lia]. split; [apply Nat.ltb_lt; exact Ej|].
  split; intros ts' Hin.
  - assert (0 < hD j l1) by (apply hD_pos; exists ts'; exact Hin). lia.
  - assert (0 < hD j l2) by (apply hD_pos; exists ts'; exact Hin). lia.
Qed.

(* ONLY ON A DONE FUTURE: a pending invocation and a recorded run are on done futures *)
Definition InvX (s : st) : Prop :=
  (forall t j, In (IXDereg j) (thr s t) -> fdone (ps s j) = true) /\
  (forall j ts, In (HDereg j ts) (hist s) -> fdone (ps s j) = true).
Lemma in_norm_dereg s p j : In (IXDereg j) (norm s p) -> In (IXDereg j) p.
Proof.
  destruct p as [|i r]; [auto|]. destruct i; auto. unfold norm. intros Hin. apply in_app_or in Hin. destruct Hin as [Hin|Hin]; [|right; exact Hin].
  exfalso. destruct (cancel_cont_cases s j0) as [E|[E|[v E]]]; rewrite E in Hin; simpl in Hin; intuition discriminate.
Qed.
Lemma plain_no_dereg p j : forallb plain p = true -> ~ In (IXDereg j) p.
Proof. intros Hp Hin. rewrite forallb_forall in Hp. specialize (Hp _ Hin). discriminate. Qed.

Lemma invX_reachable : forall s, reachable s -> InvX s.
Proof.
  apply invariant_rule_r; [split; [intros t j []|intros j ts []]|].
  intros s e s' Hr [X1 X2] Hx.
  assert (Hr' : reachable s') by (eapply reachable_step; eauto).
  assert (Hst : forall j, fdone (ps s j) = true -> fdone (ps s' j) = true).
  { intros j Hd. assert (Hrun : run step s [e] = Some s') by (simpl; rewrite Hx; reflexivity).
    destruct (poll_stable s Hr [e] s' Hrun j Hd) as [A _]. eapply frefines_done; eauto. }
  destruct (step_shape s e s' Hr Hx) as [s1 [Hs [E1 [E2 [E3 [E4 E5]]]]]].
  assert (Y1 : forall t j, In (IXDereg j) (thr s1 t) -> fdone (ps s' j) = true) by (intros t j; rewrite E1; intros Hin; eauto).
  assert (Y2 : forall j ts, In (HDereg j ts) (hist s1) -> fdone (ps s' j) = true) by (intros j ts; rewrite E5; intros Hin; eauto).
  assert (Hh : same_hd s1 s' -> forall j ts, In (HDereg j ts) (hist s') -> fdone (ps s' j) = true).
  { intros Eh j ts Hin. assert (Hpos : 0 < hD j (hist s')) by (apply hD_pos; eauto). rewrite (Eh j) in Hpos.
    apply hD_pos in Hpos. destruct Hpos as [ts' Hin']. eauto. }
  assert (Old : forall t i rest u j q, thr s1 t = i :: rest -> thr s' = upd (thr s1) t q -> (In (IXDereg j) q -> In (IXDereg j) rest \/ fdone (ps s' j) = true) ->
                 In (IXDereg j) (thr s' u) -> fdone (ps s' j) = true).
  { intros t i rest u j q Et Et' Hq Hin. rewrite Et' in Hin. unfold upd in Hin. destruct (Nat.eqb u t) eqn:E; [|eauto].
    destruct (Hq Hin) as [A|A]; [|exact A]. apply (Y1 t). rewrite Et. right. exact A. }
  destruct Hs as [Et [En [Eps Epc]] Eh | t p s2 Et Et' Hp _ [En [Eps Epc]] Eh | t i p rest s2 Et Et' Hq Hp _ En Epc Eh _
                 | t rest s2 Et Et' En Eps Epc Eh
                 | t j0 rest s2 Et Hd0 Et' [En [Eps Epc]] Eh | t j0 rest s2 Et Hnd Et' En Eps Epc Eh | t j0 rest s2 Et Et' En Eps Epc Eh
                 | t j0 rest s2 ts0 Et Et' [En [Eps Epc]] Eh | t j0 rest s2 n b Et Hf Et' En Eps Epc Eh].
  - split; [|apply Hh; exact Eh]. intros t j. rewrite Et. apply Y1.
  - split; [|apply Hh; exact Eh]. intros u j Hin. rewrite Et' in Hin. unfold upd in Hin. destruct (Nat.eqb u t); [|eauto].
    apply in_norm_dereg in Hin. exfalso. eapply plain_no_dereg; eauto.
  - split; [|apply Hh; exact Eh]. intros u j. apply (Old t i rest u j _ Et Et'). intros Hin. apply in_norm_dereg in Hin. apply in_app_or in Hin.
    destruct Hin as [Hin|Hin]; [exfalso; eapply plain_no_dereg; eauto|left; exact Hin].
  - split; [|apply Hh; exact Eh]. intros u j. apply (Old t _ rest u j _ Et Et'). intros Hin. apply in_norm_dereg in Hin. simpl in Hin.
    destruct Hin as [Hin|[Hin|[Hin|[Hin|[Hin|Hin]]]]]; try discriminate. left. exact Hin.
  - split; [|apply Hh; exact Eh]. intros u j. apply (Old t _ rest u j _ Et Et'). intros Hin. apply in_norm_dereg in Hin. simpl in Hin.
    destruct Hin as [Hin|[Hin|Hin]]; try discriminate; [|left; exact Hin]. inversion Hin; subst. right. apply Hst. rewrite <- E3. exact Hd0.
  - split; [|apply Hh; exact Eh]. intros u j. apply (Old t _ rest u j _ Et Et'). intros Hin. apply in_norm_dereg in Hin. simpl in Hin.
    destruct Hin as [Hin|Hin]; try discriminate. left. exact Hin.
  - split; [|apply Hh; exact Eh]. intros u j. apply (Old t _ rest u j _ Et Et'). intros Hin. apply in_norm_dereg in Hin. apply in_app_or in Hin.
    destruct Hin as [Hin|Hin]; [|left; exact Hin]. right. destruct (pcb s1 j0); simpl in Hin; [|contradiction].
    destruct Hin as [Hin|[]]. inversion Hin; subst. apply Hst.
    apply (window_only_done_lemma s t j rest Hr). left. rewrite <- E1. exact Et.
  - split.
    + intros u j. apply (Old t _ rest u j _ Et Et'). intros Hin. apply in_norm_dereg in Hin. left. exact Hin.
    + intros j ts Hin. rewrite Eh in Hin. destruct Hin as [Hin|Hin]; [|eauto]. inversion Hin; subst.
      apply (Y1 t). rewrite Et. left. reflexivity.
  - split; [|apply Hh; exact Eh]. intros u j. apply (Old t _ rest u j _ Et Et'). intros Hin. apply in_norm_dereg in Hin. left. exact Hin.
Qed.

Lemma poll_dereg_only_on_done s : reachable s ->
  (forall t j, In (IXDereg j) (thr s t) -> fdone (ps s j) = true) /\
  (forall j ts, In (HDereg j ts) (hist s) -> fdone (ps s j) = true).
Proof. intros Hr. exact (invX_reachable s Hr). Qed.

(* AT REST: for every allocated future the callback is registered xor has run; on a done future it has run, exactly once *)
Lemma poll_dereg_at_rest s : reachable s -> poll_at_rest s -> forall j,
  hD j (hist s) + bP s j = alloc s j /\
  (fdone (ps s j) = true -> pcb s j = false /\ (j < nfut s -> hD j (hist s) = 1)) /\
  (fdone (ps s j) = false -> hD j (hist s) = 0 /\ (j < nfut s -> pcb s j = true)).
Proof.
  intros Hr Hrest j. pose proof (at_rest_idle s Hrest) as Hidle.
  destruct (invC_reachable s Hr) as [_ HC].
  assert (HT : supp s []) by (split; [constructor|intros t Ht; exfalso; apply Ht; apply Hidle]).
  pose proof (HC [] HT j) as H. unfold total in H. simpl in H. rewrite Nat.add_0_r in H. split; [exact H|].
  unfold bP, alloc in H. split.
  - intros Hd. assert (Hp : pcb s j = false).
    { destruct (pcb s j) eqn:Ep; [|reflexivity]. destruct (invK_reachable s Hr j Hd Ep) as [t Ht]. rewrite Hidle in Ht. discriminate. }
    split; [exact Hp|]. intros Hj. rewrite Hp, (ltb_of _ _ Hj) in H. lia.
  - intros Hnd. assert (H0 : hD j (hist s) = 0).
    { destruct (hD j (hist s)) eqn:E; [reflexivity|]. assert (Hpos : 0 < hD j (hist s)) by lia. apply hD_pos in Hpos.
      destruct Hpos as [ts Hin]. destruct (invX_reachable s Hr) as [_ X2]. rewrite (X2 j ts Hin) in Hnd. discriminate. }
    split; [exact H0|]. intros Hj. rewrite H0, (ltb_of _ _ Hj) in H. destruct (pcb s j); [reflexivity|simpl in H; lia].
Qed.

(* ---- witnesses --------------------------------------------------------------------------------------------------- *)
(* at rest (w_proto, Proto_Poll_T.v): future 0 finished, future 1 cancelled: _clear_executor ran once for each and is no
   longer registered; future 2 pending: still registered, not run *)
Lemma proto_dereg_rest_example :
  let s := state_of w_proto in
  accepted w_proto = true /\ poll_at_rest s /\
  hD 0 (hist s) = 1 /\ pcb s 0 = false /\ hD 1 (hist s) = 1 /\ pcb s 1 = false /\ hD 2 (hist s) = 0 /\ pcb s 2 = true /\
  ps s 2 = Pending.
Proof.
  cbv zeta. split; [vm_compute; reflexivity|]. split.
  { split; [quiet_threads|]. split; vm_compute; [reflexivity|exact I]. }
  do 6 (split; [vm_compute; reflexivity|]). vm_compute; reflexivity.
Qed.
(* the window: future 1 is cancelled and notified (done), its callbacks are the next step of the cancelling thread and
   _clear_executor is still registered: "a done future has been deregistered" is false in this state *)
Local Open Scope Z_scope.
Definition w_proto_window : list (list Z) := w_proto_prefix ++ [[1; 14; 3; 3; 1; 2]].
Local Close Scope Z_scope.
Lemma proto_dereg_window_example :
  let s := state_of w_proto_window in
  accepted w_proto_window = true /\ ps s 1 = CancelledNotified /\ pcb s 1 = true /\ hD 1 (hist s) = 0 /\
  thr s 3 = [IRelMCbs 1; IRetB true].
Proof. cbv zeta. do 4 (split; [vm_compute; reflexivity|]). vm_compute; reflexivity. Qed.
