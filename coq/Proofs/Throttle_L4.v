(* C04 / Throttle, part 4: lock ownership, lock order, absence of lock deadlock. *)
From Coq Require Import ZArith List Bool Arith Lia.
From RecordUpdate Require Import RecordSet.
From ME Require Import Base.Machine Base.Fut Base.GenPrelude Gen.ThrottleGen Model.Throttle
  Proofs.Throttle_Inv Proofs.Throttle_L1 Proofs.Throttle_L1b Proofs.Throttle_L2 Proofs.Throttle_L3.
Import ListNotations RecordSetNotations.

Inductive lock := LG | LX | LA | LM (j : nat).
Definition owner (s : st) (L : lock) : option nat :=
  match L with LG => gown s | LX => xown s | LA => aown s | LM j => mown s j end.
Definition rank (L : lock) : nat := match L with LG => 0 | LM _ => 1 | LX => 2 | LA => 3 end.
Definition holds_lock (h : held) (L : lock) : bool :=
  match L with LG => hg h | LX => hx h | LA => ha h | LM j => hm h j end.
(* the lock the next instruction of a program acquires, if it is an acquisition *)
Definition req (p : list instr) : option lock :=
  match p with
  | IAcqG _ :: _ => Some LG
  | IXAcqH :: _ | IXEnq :: _ | IXCancel _ :: _ => Some LX
  | IAcqA _ :: _ => Some LA
  | IAcqM j :: _ | IAcqMSet j _ :: _ => Some (LM j)
  | _ => None
  end.

Lemma owns_lock s t h L : owns s t h -> owned (owner s L) t = holds_lock h L.
Proof. intros [O1 O2 O3 O4]. destruct L; simpl; auto. Qed.
Lemma owned_iff o t : owned o t = true <-> o = Some t.
Proof.
  destruct o as [u|]; simpl; [|split; discriminate]. rewrite Nat.eqb_eq. split; [intros ->; reflexivity|intros Hx; inversion Hx; reflexivity].
Qed.

(* the held-set a program is typed from is unique *)
Lemma step1_inj c i h h' k : step1 c h i = Some k -> step1 c h' i = Some k -> h = h'.
Proof.
  destruct i; destruct h; simpl; try discriminate; destruct h'; simpl; try discriminate; try congruence;
    unfold ifb; repeat match goal with |- context [if ?b then _ else _] => destruct b eqn:? end; try discriminate;
    repeat match goal with E : Nat.eqb _ _ = true |- _ => apply Nat.eqb_eq in E; subst end; try congruence.
Qed.
Lemma run_inj c p : forall h h' k, run c h p = Some k -> run c h' p = Some k -> h = h'.
Proof.
  induction p as [|i r IH]; intros h h' k; simpl; [congruence|].
  destruct (step1 c h i) as [h2|] eqn:E1; [|discriminate]. destruct (step1 c h' i) as [h2'|] eqn:E2; [|discriminate].
  intros R1 R2. pose proof (IH _ _ _ R1 R2) as ->. exact (step1_inj c i h h' _ E1 E2).
Qed.

Lemma lock_owner_lemma s : reachable_from step init s -> forall t,
  exists h, wfh (ds s) h (thr s t) = true /\ (forall h', wfh (ds s) h' (thr s t) = true -> h' = h) /\
            forall L, owner s L = Some t <-> holds_lock h L = true.
Proof.
  intros Hr t. destruct (invL_reachable s Hr t) as [h [Ho Hw]]. exists h. split; [exact Hw|split].
  - intros h' Hw'. apply wfh_run in Hw, Hw'. exact (run_inj _ _ _ _ _ Hw' Hw).
  - intros L. rewrite <- (owns_lock s t h L Ho). symmetry. apply owned_iff.
Qed.

(* the nestings that occur: what a thread may hold when its next instruction acquires a lock *)
Definition nesting_ok (h : held) (p : list instr) : bool :=
  match p, h with
  | IAcqG _ :: _, H0 => true                           (* G is taken first *)
  | IXAcqH :: _, H0 => true                            (* hand-over loop: X with nothing held *)
  | IXEnq :: _, HG => true                             (* submit(): G then X *)
  | IXCancel j :: _, HM j' => Nat.eqb j j'             (* cancel() of a queued future: M_j then X *)
  | IAcqA AIncr :: _, HX => true                       (* hand-over loop: X then A *)
  | IAcqA (ADecr _) :: _, H0 => true                   (* done-callback of a delegate future: A alone *)
  | IAcqA (ADecr _) :: _, HM _ => true                 (* ... run inline by cancel(): M_j then A *)
  | IAcqM _ :: _, H0 | IAcqMSet _ _ :: _, H0 => true   (* a future's lock: with nothing held *)
  | _, _ => false
  end.

Lemma nesting_lemma s : reachable_from step init s -> forall t L, req (thr s t) = Some L ->
  exists h, owns s t h /\ nesting_ok h (thr s t) = true.
Proof.
  intros Hr t L Hq. destruct (invL_reachable s Hr t) as [h [Ho Hw]]. exists h. split; [exact Ho|].
  apply wfh_run in Hw. destruct (thr s t) as [|i r]; [discriminate|].
  simpl in Hw. destruct (step1 (ds s) h i) as [h2|] eqn:E; [|discriminate]. clear Hw.
  destruct i; try discriminate Hq; destruct h; simpl in E; try discriminate E; try reflexivity.
  all: try (destruct k; try discriminate E; reflexivity).
  all: simpl; unfold ifb in E; match type of E with (if ?b then _ else _) = _ => destruct b end; [reflexivity|discriminate].
Qed.

Lemma nesting_rank h p L L' : nesting_ok h p = true -> req p = Some L -> holds_lock h L' = true -> rank L' < rank L.
Proof.
  destruct p as [|i r]; [discriminate|]. destruct i; simpl; try discriminate; destruct h; try discriminate;
    try (destruct k; try discriminate); intros _ Hq; inversion Hq; subst; destruct L'; simpl; try discriminate; intros; lia.
Qed.

Lemma lock_order_lemma s : reachable_from step init s -> forall t L, req (thr s t) = Some L ->
  forall L', owner s L' = Some t -> rank L' < rank L.
Proof.
  intros Hr t L Hq L' Hown. destruct (nesting_lemma s Hr t L Hq) as [h [Ho Hn]].
  apply (nesting_rank h (thr s t)); auto. rewrite <- (owns_lock s t h L' Ho). apply owned_iff. exact Hown.
Qed.

(* ---- no lock deadlock ------------------------------------------------------------------------------ *)
(* the thread whose lock t's next instruction is waiting for, if any (t itself never) *)
Definition blocked_on (s : st) (t : nat) : option nat :=
  match req (thr s t) with Some L => owner s L | None => None end.
Definition want_rank (s : st) (t : nat) : nat := match req (thr s t) with Some L => 4 - rank L | None => 0 end.

Inductive unblocks (s : st) : nat -> Prop :=
| ub_free t : blocked_on s t = None -> unblocks s t
| ub_step t u : blocked_on s t = Some u -> u <> t -> unblocks s u -> unblocks s t.

Lemma blocked_rank s : reachable_from step init s -> forall t u, blocked_on s t = Some u ->
  u <> t /\ (blocked_on s u <> None -> want_rank s u < want_rank s t).
Proof.
  intros Hr t u Hb. unfold blocked_on in Hb. destruct (req (thr s t)) as [L|] eqn:Hq; [|discriminate]. split.
  - intros ->. pose proof (lock_order_lemma s Hr t L Hq L Hb). lia.
  - intros Hbu. unfold blocked_on in Hbu. unfold want_rank. rewrite Hq.
    destruct (req (thr s u)) as [L'|] eqn:Hq'; [|contradiction Hbu; reflexivity].
    pose proof (lock_order_lemma s Hr u L' Hq' L Hb). destruct L, L'; simpl in *; lia.
Qed.

Lemma no_deadlock_lemma s : reachable_from step init s -> forall t, unblocks s t.
Proof.
  intros Hr. assert (G : forall n t, want_rank s t <= n -> unblocks s t).
  { induction n as [|n IH]; intros t Hle.
    - apply ub_free. unfold blocked_on. unfold want_rank in Hle. destruct (req (thr s t)) as [L|]; [destruct L; simpl in Hle; lia|reflexivity].
    - destruct (blocked_on s t) as [u|] eqn:Hb; [|apply ub_free; exact Hb].
      destruct (blocked_rank s Hr t u Hb) as [Hne Hlt]. apply (ub_step s t u Hb Hne).
      destruct (blocked_on s u) eqn:Hbu; [|apply ub_free; exact Hbu].
      apply IH. assert (want_rank s u < want_rank s t) by (apply Hlt; discriminate). lia. }
  intros t. apply (G (want_rank s t)). lia.
Qed.
