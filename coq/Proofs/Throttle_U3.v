(* C03 / Throttle: the done-callbacks of a delegate future are run (and the list cleared) when it becomes done;
   quiescent accounting: with every thread idle and the hand-over thread parked, the running count IS the number
   of delegate futures in flight, each of which has _delegate_future_done registered. *)
From Coq Require Import ZArith List Bool Arith Lia.
From RecordUpdate Require Import RecordSet.
From ME Require Import Base.Machine Base.Fut Base.GenPrelude Gen.ThrottleGen Model.Throttle
  Proofs.Throttle_Spec Proofs.Throttle_Inv Proofs.Throttle_Fifo Proofs.Throttle_Wake
  Proofs.Throttle_L1 Proofs.Throttle_L2 Proofs.Throttle_L3
  Proofs.Throttle_Tok Proofs.Throttle_TokA Proofs.Throttle_TokB Proofs.Throttle_TokC Proofs.Throttle_U1 Proofs.Throttle_U2.
Import ListNotations RecordSetNotations.
Local Open Scope Z_scope.

(* ---- a done delegate future has no registered callbacks left ----------------------------------------- *)
Definition InvC (s : st) : Prop := forall d, fdone (ds s d) = true -> dcbs s d = [].
Definition cview (s : st) := (ds s, dcbs s).
Lemma invC_view s s' : cview s' = cview s -> InvC s -> InvC s'.
Proof. unfold cview, InvC. intros E IC. inversion E as [[E1 E2]]. rewrite E1, E2. exact IC. Qed.
Lemma cview_log s h : cview (log s h) = cview s. Proof. reflexivity. Qed.
Lemma cview_set s t p : cview (set_prog s t p) = cview s. Proof. reflexivity. Qed.
Lemma cview_sub_check s t v rest : cview (sub_check s t v rest) = cview s.
Proof. unfold sub_check. destruct (blk s && negb (shut s)); [destruct (block_ready (qlen s) v) as [[|]|]|]; reflexivity. Qed.
Lemma cview_after_wait s t k rest : cview (after_wait s t k rest) = cview s.
Proof. destruct k; simpl; [reflexivity|apply cview_sub_check]. Qed.
Lemma cview_start_iter s t : cview (start_iter s t) = cview s.
Proof. unfold start_iter. destruct (shut s); [|destruct (dyn s)]; reflexivity. Qed.

Ltac cv_step :=
  first [ rewrite cview_log | rewrite cview_set | rewrite cview_sub_check | rewrite cview_after_wait | rewrite cview_start_iter ].
Ltac cv IC Hx s := brk Hx; inv_some Hx; first [exact IC | apply (invC_view s); [repeat cv_step; reflexivity|exact IC]].

Lemma do_dsubmit_invC s t d i s' : InvC s -> do_dsubmit s t d i = Some s' -> InvC s'.
Proof.
  intros IC Hx. unfold do_dsubmit in Hx. brk Hx; inv_some Hx;
    intros d0; simpl; unfold upd; (destruct (Nat.eqb d0 d); [reflexivity|apply IC]).
Qed.
Lemma do_env_run_invC s t d p s' : InvC s -> do_env_run s t d p = Some s' -> InvC s'.
Proof.
  intros IC Hx. unfold do_env_run in Hx. brk Hx; inv_some Hx; auto. split_and.
  match goal with E : fstate_eqb _ _ = true |- _ => apply fstate_eqb_eq in E; rename E into Ep end.
  intros d0. simpl. unfold upd. destruct (Nat.eqb d0 d) eqn:Ed; [|apply IC].
  apply Nat.eqb_eq in Ed. subst d0. intros Hd. apply IC. rewrite <- Ep.
  destruct p; simpl in *; try discriminate; match goal with E2 : Some _ = Some _ |- _ => inversion E2; subst; try reflexivity; discriminate end.
Qed.
Lemma do_env_finish_invC s t d p o s' : InvC s -> do_env_finish s t d p o = Some s' -> InvC s'.
Proof.
  intros IC Hx. unfold do_env_finish in Hx. brk Hx; inv_some Hx; auto.
  intros d0. simpl. unfold upd. destruct (Nat.eqb d0 d); [reflexivity|apply IC].
Qed.
Lemma clear_del_cview l : forall s, cview (clear_del s l) = cview s.
Proof.
  unfold clear_del. induction l as [|c l IH]; intros s; simpl; [reflexivity|].
  rewrite IH. destruct c; reflexivity.
Qed.
Lemma do_fd_invC s t op d p s' : InvC s -> do_fd s t op d p = Some s' -> InvC s'.
Proof.
  intros IC Hx. unfold do_fd in Hx.
  destruct (negb (fstate_eqb p (ds s d))) eqn:Ep; [discriminate|]. apply negb_false_iff, fstate_eqb_eq in Ep.
  destruct (thr s t) as [|i rest] eqn:Et; [discriminate|].
  destruct i; try discriminate.
  - brk Hx; inv_some Hx; [apply (invC_view s); [reflexivity|exact IC]|].
    match goal with E : negb (Nat.eqb d _) = false |- _ => apply negb_false_iff, Nat.eqb_eq in E; subst d0 end.
    intros d0. simpl. unfold upd. destruct (Nat.eqb d0 d) eqn:Ed; [|apply IC].
    apply Nat.eqb_eq in Ed. subst d0. congruence.
  - brk Hx; inv_some Hx; [apply (invC_view s); [reflexivity|exact IC]|].
    match goal with E : negb (Nat.eqb d _) = false |- _ => apply negb_false_iff, Nat.eqb_eq in E; subst d0 end.
    intros d1. simpl. unfold upd. destruct (Nat.eqb d1 d) eqn:Ed; [|apply IC].
    apply Nat.eqb_eq in Ed. subst d1. congruence.
  - brk Hx; inv_some Hx; apply (invC_view s); try exact IC; repeat cv_step; reflexivity.
  - destruct op as [|[|[|op]]]; try discriminate.
    destruct (negb (Nat.eqb d d0)) eqn:Ed; [discriminate|]. apply negb_false_iff, Nat.eqb_eq in Ed. subst d0.
    assert (Ef : f_cancel p = (fst (f_cancel p), snd (f_cancel p))) by (destruct (f_cancel p); reflexivity).
    rewrite Ef in Hx. destruct (snd (f_cancel p)) eqn:Eb; [destruct (f_cancel_fires p) eqn:Ec|]; inv_some Hx.
    + match goal with |- context [clear_del ?x ?l] => apply (invC_view x); [rewrite cview_log, cview_set; apply clear_del_cview|] end.
      intros d0. simpl. unfold upd. destruct (Nat.eqb d0 d); [reflexivity|apply IC].
    + (* already cancelled: state unchanged *)
      intros d0. simpl. unfold upd. destruct (Nat.eqb d0 d) eqn:Ed; [|apply IC].
      apply Nat.eqb_eq in Ed. subst d0. intros _. apply IC. destruct (ds s d); simpl in *; try discriminate; reflexivity.
    + intros d0. simpl. unfold upd. destruct (Nat.eqb d0 d) eqn:Ed; [|apply IC].
      apply Nat.eqb_eq in Ed. subst d0. intros Hd. apply IC. destruct (ds s d); simpl in *; try discriminate; reflexivity.
Qed.

Lemma step0_invC s e s' : InvC s -> step0 s e = Some s' -> InvC s'.
Proof.
  intros IC Hx. destruct e; cbn [step0] in Hx;
    try (eapply do_dsubmit_invC; eassumption); try (eapply do_fd_invC; eassumption);
    try (eapply do_env_run_invC; eassumption); try (eapply do_env_finish_invC; eassumption).
  - unfold do_new in Hx. cv IC Hx s.
  - unfold do_hstart in Hx. cv IC Hx s.
  - unfold do_exit in Hx. cv IC Hx s.
  - unfold do_call_submit in Hx. cv IC Hx s.
  - unfold do_call_cancel in Hx. cv IC Hx s.
  - unfold do_call_shutdown in Hx. cv IC Hx s.
  - unfold do_ret in Hx. cv IC Hx s.
  - unfold do_acq_g in Hx. cv IC Hx s.
  - unfold do_rel_g in Hx. cv IC Hx s.
  - unfold do_count in Hx. cv IC Hx s.
  - unfold do_xsec in Hx. cv IC Hx s.
  - unfold do_xacq in Hx. cv IC Hx s.
  - unfold do_relx in Hx. cv IC Hx s.
  - unfold do_rcread in Hx. cv IC Hx s.
  - unfold do_pop in Hx. cv IC Hx s.
  - unfold do_acq_a in Hx. cv IC Hx s.
  - unfold do_rel_a in Hx. cv IC Hx s.
  - unfold do_evset in Hx. cv IC Hx s.
  - unfold do_wait in Hx. cv IC Hx s.
  - unfold do_woke in Hx. cv IC Hx s.
  - unfold do_clear in Hx. cv IC Hx s.
  - unfold do_dshutdown in Hx. cv IC Hx s.
  - unfold do_acq_m in Hx. cv IC Hx s.
  - unfold do_rel_m in Hx. cv IC Hx s.
  - unfold do_fm in Hx. cv IC Hx s.
Qed.

Theorem invC_reachable s : reachable_from step init s -> InvC s.
Proof.
  apply invariant_rule; [intros d Hd; reflexivity|].
  intros s0 [ts e] s' IC Hx. unfold step in Hx. simpl in Hx. unfold tick in Hx.
  destruct (Z.leb (clock s0) ts); [|discriminate]. eapply step0_invC; [|exact Hx]. exact IC.
Qed.

(* ---- quiescent accounting ------------------------------------------------------------------------------ *)
Lemma sumT_indicator n (g : nat -> bool) :
  sumT n (fun d => if g d then 1 else 0) = Z.of_nat (length (filter g (seq 0 n))).
Proof.
  induction n as [|n IH]; [reflexivity|]. rewrite sumT_S, IH, seq_S, filter_app, app_length, Nat2Z.inj_add.
  simpl. destruct (g n); simpl; lia.
Qed.
Lemma sumT_zero n f : (forall k, (k < n)%nat -> f k = 0) -> sumT n f = 0.
Proof. induction n as [|n IH]; intros Hz; simpl; [reflexivity|]. rewrite IH by (intros; apply Hz; lia). rewrite Hz by lia. lia. Qed.
Lemma cb_pos_in l : 0 < cb l -> In CbDone l.
Proof.
  induction l as [|c l IH]; cbn [cb]; [lia|]. destruct c; [left; reflexivity|]. cbn [cbw]. intros Hp. right. apply IH. lia.
Qed.
Lemma invL_woke_notown s : InvL s -> thr s H = [IWoke WH] -> owned (xown s) H = false.
Proof.
  intros IL Et. destruct (IL H) as [h [Hown Hw]]. rewrite (o_x _ _ _ Hown). rewrite Et in Hw.
  unfold wfh in Hw. cbn [run] in Hw. destruct h; try reflexivity; discriminate Hw.
Qed.

(* every thread but the hand-over thread is idle, the hand-over thread is parked in event.wait() *)
Definition all_idle_parked (s : st) : Prop := (forall u, u <> H -> thr s u = []) /\ thr s H = [IWoke WH].

Theorem quiescent_accounting_lemma s : reachable_from step init s -> all_idle_parked s ->
  running s = inflight s /\
  forall d, (d < ndel s)%nat -> fdone (ds s d) = false -> In CbDone (dcbs s d) /\ cb (dcbs s d) = 1.
Proof.
  intros Hr [Hidle Et].
  destruct (invKE_reachable s Hr) as [N [[S1 R1 L1 D1 F1] [_ E1 O1]]].
  pose proof (invC_reachable s Hr) as IC. pose proof (invL_woke_notown s (invL_reachable s Hr) Et) as Eo.
  assert (Hc : forall u d, cT d (thr s u) = 0).
  { intros u d. destruct (Nat.eq_dec u H) as [->|Hne]; [rewrite Et|rewrite (Hidle u Hne)]; reflexivity. }
  assert (Htok : forall d, tokN N s d = cb (dcbs s d)).
  { intros d. unfold tokN. rewrite sumT_zero by (intros; apply Hc). lia. }
  assert (Hq : Qx s = 0) by (unfold Qx; rewrite Eo, Et; reflexivity).
  assert (Hcb : forall d, (d < ndel s)%nat -> cb (dcbs s d) = if negb (fdone (ds s d)) then 1 else 0).
  { intros d Hd. destruct (fdone (ds s d)) eqn:Ed; simpl.
    - rewrite (IC d Ed). reflexivity.
    - pose proof (L1 d Hd Ed) as P1. pose proof (O1 d) as P2. rewrite Htok in P1, P2. lia. }
  split.
  - rewrite E1, Hq. unfold inflight. rewrite <- (sumT_indicator (ndel s) (fun d => negb (fdone (ds s d)))).
    rewrite (sumT_ext (ndel s) (tokN N s) (fun d => if negb (fdone (ds s d)) then 1 else 0)); [lia|].
    intros d Hd. rewrite Htok. apply Hcb. exact Hd.
  - intros d Hd Hnd. pose proof (Hcb d Hd) as P1. rewrite Hnd in P1. simpl in P1. split; [apply cb_pos_in; lia|exact P1].
Qed.

(* no future is lost, no capacity idle: quiescent (all idle, hand-over thread parked un-notified, flag clear),
   static count, not shut down.  Then the running count is exactly the number of delegate futures in flight, each
   of them has the decrement-and-wake callback registered, and the queue is empty unless that number has reached
   the count. *)
Theorem no_lost_lemma s : reachable_from step init s -> started s = true -> dyn s = false -> shut s = false ->
  all_idle_parked s -> (exists g tau since, wst s H = Some (g, tau, since) /\ egen s = g) -> eflag s = false ->
  running s = inflight s /\
  (forall d, (d < ndel s)%nat -> fdone (ds s d) = false -> In CbDone (dcbs s d)) /\
  (qu s = [] \/ exists c, last s = Some c /\ hlim s = Some c /\ c <= inflight s).
Proof.
  intros Hr Hst Hd Hs Hq [g [tau [since [Ew Eg]]]] Ef.
  destruct (quiescent_accounting_lemma s Hr Hq) as [Hrun Hcb]. destruct Hq as [Hidle Et].
  split; [exact Hrun|]. split; [intros d Hlt Hnd; exact (proj1 (Hcb d Hlt Hnd))|].
  assert (Hno : forall t, ~ In IEvSet (thr s t)).
  { intros t. destruct (Nat.eq_dec t H) as [->|Hne]; [rewrite Et; simpl; intros [Hx|[]]; discriminate|rewrite (Hidle t Hne); intros []]. }
  destruct (no_idle_capacity_lemma s Hr Hst Hd Hs) as [Hx|[c [Hl Hc]]]; auto.
  - exists [], g, tau, since. auto.
  - right. exists c. split; [exact Hl|]. split; [|lia].
    destruct (invS_reachable s Hr Hd Hst Hs) as [Hx|Hx]; [rewrite Et in Hx; discriminate|congruence].
Qed.
