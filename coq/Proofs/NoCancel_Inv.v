(* An invariant of the MapFut machine used by the NoCancelFuture theorems: every cancel-path instruction of future j in a thread
   program, and every cancel forwarded to a delegate on behalf of j, is preceded by a cancel() CALL on j. *)
From Coq Require Import ZArith List Bool Arith Lia.
From RecordUpdate Require Import RecordSet.
From ME Require Import Base.Machine Base.Fut Base.GenPrelude Model.MapFut Proofs.MapFut_D0 Proofs.MapFut_D1 Proofs.MapFut_D2 Proofs.MapFut_E3.
Import ListNotations RecordSetNotations.

Definition ccall (s : st) (i : instr) : Prop := forall j, cinstr i = Some j -> In (HCancelCall j) (hist s).
Record Icc (s : st) : Prop := {
  cc_thr : forall t, Forall (ccall s) (thr s t);
  cc_hist : forall j d b, In (HDCancel j d b) (hist s) -> In (HCancelCall j) (hist s)
}.

Lemma ccall_fires s0 s d r : Forall (ccall s0) r -> Forall (ccall s0) (fires s d r).
Proof.
  intros H; unfold fires. induction (ecbs s d); simpl; auto.
  repeat (constructor; [intros ? X; discriminate X|]). exact IHl.
Qed.
Lemma ccall_on_mapped s0 s j x r : Forall (ccall s0) r -> Forall (ccall s0) (on_mapped s j x ++ r).
Proof.
  intros H; unfold on_mapped. destruct (mkind s j), (mflat s j), x; simpl;
    repeat (constructor; [intros ? X; discriminate X|]); exact H.
Qed.
Lemma ccall_map_cb s0 j l r : Forall (ccall s0) r -> Forall (ccall s0) (map (fun c => IUserCb j c false) l ++ r).
Proof. intros H; induction l; simpl; auto. constructor; [intros ? X; discriminate X|exact IHl]. Qed.
Lemma ccall_mono s s0 : (forall h, In h (hist s) -> In h (hist s0)) -> forall l, Forall (ccall s) l -> Forall (ccall s0) l.
Proof. intros M l H. eapply Forall_impl; [|exact H]. intros i Hi j E. apply M. apply Hi. exact E. Qed.

Lemma lstep_hist_mono_cc s e s0 : lstep s e = Some s0 -> forall h, In h (hist s) -> In h (hist s0).
Proof. intros H h Hh. step_cases H; simpl; auto. Qed.

Lemma lstep_cc_thr s e s0 : lstep s e = Some s0 -> Icc s -> forall t, Forall (ccall s0) (thr s0 t).
Proof.
  intros H I. pose proof (lstep_hist_mono_cc _ _ _ H) as M. pose proof (cc_thr _ I) as I1.
  assert (forall t, Forall (ccall s0) (thr s t)) as I2 by (intros t; eapply ccall_mono; [exact M|apply I1]).
  clear I1 M.
  step_cases H; try exact I2.
  all: match goal with E : thr _ ?t = _ |- _ => pose proof (I2 t) as It; rewrite E in It; try (inversion It; subst) end.
  all: simpl; apply Forall_upd_dep; [intros t' N; apply I2|].
  all: try (apply ccall_on_mapped); try (apply ccall_fires); try (apply ccall_map_cb).
  all: repeat (constructor; [first [intros ? X; discriminate X | assumption]|]); try assumption; try (constructor; fail).
  all: try (apply ccall_on_mapped); try (apply Forall_tl); try assumption.
  all: repeat (constructor; [first [intros ? X; discriminate X | assumption
                                   | (intros ? X; simpl in X; inversion X; subst; simpl; auto; fail)]|]); try assumption.
Qed.

Lemma lstep_cc_hist s e s0 : lstep s e = Some s0 -> Icc s ->
  forall j d b, In (HDCancel j d b) (hist s0) -> In (HCancelCall j) (hist s0).
Proof.
  intros H I j d b X. pose proof (lstep_hist_mono_cc _ _ _ H) as M. pose proof (cc_hist _ I) as I1. pose proof (cc_thr _ I) as I2.
  step_cases H; simpl in *.
  all: try (apply M; eapply I1; eassumption).
  all: try (destruct X as [X|X]; [try discriminate X|]; try (right; eapply I1; eassumption)).
  all: try (apply M; eapply I1; eassumption).
  all: inversion X; subst;
       match goal with E : thr _ ?t = _ |- _ => pose proof (I2 t) as It; rewrite E in It; inversion It; subst end;
       match goal with Hc : ccall _ (IDCancel _ _) |- _ => right; apply Hc; reflexivity end.
Qed.

Lemma sil_icc t s s' : sil t s s' -> Icc s -> Icc s'.
Proof.
  intros H [I1 I2]. destruct (sil_thr _ _ _ H) as (i & r & Et & Ho & Hr).
  constructor; unfold ccall in *; sil_frame H; try assumption.
  intros t'. pose proof (I1 t) as It. rewrite Et in It. inversion It; subst.
  destruct (Nat.eq_dec t' t) as [->|N]; [|rewrite Ho by exact N; apply I1].
  destruct Hr as [->|(j & -> & ->)]; [assumption|apply (ccall_map_cb s); assumption].
Qed.

Lemma icc_init : Icc init.
Proof. constructor; simpl; intros; [constructor|contradiction]. Qed.

Definition InvCC (s : st) : Prop := Inv2 s /\ Icc s.
Lemma linv_cc : linv InvCC.
Proof.
  apply linv_and; [apply linv2|apply icc_init| |].
  - intros s e s0 _ _ I H. constructor; [eapply lstep_cc_thr; eauto|eapply lstep_cc_hist; eauto].
  - intros t s s' _ _ I H. eapply sil_icc; eauto.
Qed.
Lemma invcc_reach s : reachable s -> InvCC s.
Proof. apply linv_reach; [apply linv_cc|]. intros s0 H; apply H. Qed.

(* every cancel forwarded to a delegate on behalf of j follows a cancel() call on j *)
Theorem mapfut_dcancel_needs_call : forall s, reachable s -> forall j d b,
  In (HDCancel j d b) (hist s) -> In (HCancelCall j) (hist s).
Proof. intros s R. apply (cc_hist _ (proj2 (invcc_reach _ R))). Qed.
(* a future on which cancel() was never called is never cancelled, and no thread is on its cancel path *)
Theorem mapfut_no_call_no_cancel : forall s, reachable s -> forall j, ~ In (HCancelCall j) (hist s) ->
  (forall d b, ~ In (HDCancel j d b) (hist s)) /\ ~ In (HCancelled j) (hist s) /\ fcancelled (ms s j) = false /\
  (forall t i, In i (thr s t) -> cinstr i <> Some j).
Proof.
  intros s R j NC. pose proof (invcc_reach _ R) as [[[I1 B] HD] CC].
  assert (forall d b, ~ In (HDCancel j d b) (hist s)) as N1.
  { intros d b X. apply NC. eapply cc_hist; eauto. }
  assert (~ In (HCancelled j) (hist s)) as N2.
  { intros X. apply in_split in X. destruct X as (l1 & l2 & E).
    destruct (mapfut_cancelled_forwarded s R l1 j l2 E) as (d & X). apply (N1 d true). rewrite E. apply in_or_app. right. right. exact X. }
  repeat split; auto.
  - destruct (fcancelled (ms s j)) eqn:F; [|reflexivity]. exfalso.
    assert (fdone (ms s j) = true) as D by (destruct (ms s j); simpl in *; congruence).
    destruct (h_done _ HD j D) as [[o X]|X]; [|contradiction].
    destruct (h_set _ HD j o X) as [E _]. rewrite E in F. discriminate.
  - intros t i Hi E. apply NC. pose proof (cc_thr _ CC t) as F. rewrite Forall_forall in F. apply (F i Hi j E).
Qed.
