(* N3: (f_or / f_and) while undecided, every input still in BoolOperation.fs has a handle_done
   registration that has not yet run; fs only becomes empty inside the deciding evaluation. *)
From Coq Require Import List Arith Bool Lia PeanoNat ZArith.
From ME Require Import Base.Machine Base.Fut Base.GenPrelude Gen.BoolGen Gen.ZipGen Model.Comb Proofs.Comb_Spec.
From ME Require Import Proofs.Comb_I0 Proofs.Comb_I1 Proofs.Comb_I2 Proofs.Comb_I4 Proofs.Comb_I5 Proofs.Comb_I8 Proofs.Comb_I10a Proofs.Comb_N1.
Import ListNotations.

Definition live (s : st) (x : nat) : Prop :=
  (exists t i, In (IAddCbIn i) (thr s t) /\ input_at s i = x) \/
  (exists t i, In (IAcqL i x) (thr s t)) \/
  ecbs s x <> [].

Definition BL (s : st) : Prop :=
  built s = true -> ck s <> KZip -> cdone s = false ->
  (forall x, In x (fsd s) -> live s x) /\ (fsd s <> [] \/ exists x, evaluating (thr s) x).

Lemma keep_addin i : keepable (IAddCbIn i). Proof. split; intros; discriminate. Qed.
Lemma keep_acq i x : keepable (IAcqL i x). Proof. split; intros; discriminate. Qed.

Lemma step_fsd_sub s e s' x : step s e = Some s' -> built s = true -> In x (fsd s') -> In x (fsd s).
Proof.
  intros H Hb. destruct e; step_inv H; simpl; auto; try (rewrite Hb in *; discriminate);
  rewrite remove_id_in; tauto.
Qed.

Lemma step_ecbs_live s e s' x : I1 s -> step s e = Some s' -> ecbs s x <> [] ->
  ecbs s' x <> [] \/ exists i, In (IAcqL i x) (thr s' (actor e)).
Proof.
  intros I H Hne.
  assert (F : forall r, Forall nothrow r -> exists i, In (IAcqL i x) (norm false (in_fires s x r))).
  { intros r Hr. destruct (ecbs s x) as [|i l] eqn:E; [congruence|]. exists i.
    apply norm_in; [apply nothrow_in_fires; auto|discriminate|].
    unfold in_fires. rewrite E. simpl. left. reflexivity. }
  destruct e; simpl actor; pose proof (I t) as It; step_inv H; simpl; auto;
  try match goal with Hq : thr _ _ = _ |- _ => rewrite Hq in It end; fa_hyps;
  clean; unfold upd at 1; destruct (Nat.eqb x _) eqn:E; auto; clean.
  all: try (left; intros Hx; apply app_eq_nil in Hx; destruct Hx; discriminate).
  all: right; rewrite upd_same; apply F; auto.
Qed.

Lemma live_step s e s' x : I1 s -> I2 s -> step s e = Some s' -> built s = true -> ck s <> KZip ->
  cdone s = false -> In x (fsd s') -> live s x -> live s' x.
Proof.
  intros I K H Hb Hk Hc Hx' L.
  destruct (step_built _ _ _ H Hb) as (_ & Hi & _).
  destruct L as [(u & i & Hu & Ei)|[(u & i & Hu)|Hne]].
  - destruct (step_pending _ _ _ u _ I H (keep_addin i) Hu) as [Hk'|[-> [r Hr]]].
    { left. exists u, i. unfold input_at in *. rewrite Hi. auto. }
    destruct e; simpl in Hr; step_inv H; try congruence; clean; inversion Hr; subst; unfold live, input_at in *; simpl.
    + right. left. exists t, i. rewrite upd_same. left. reflexivity.
    + right. right. rewrite upd_same. intros Hx; apply app_eq_nil in Hx; destruct Hx; discriminate.
  - destruct (step_pending _ _ _ u _ I H (keep_acq i x) Hu) as [Hk'|[-> [r Hr]]].
    { right. left. exists u, i. auto. }
    exfalso. destruct e; simpl in Hr; step_inv H; try congruence; clean; inversion Hr; subst; simpl in *.
    all: try (rewrite remove_id_in in Hx'; tauto).
    all: try (apply memb_in in Hx'; congruence).
  - destruct (step_ecbs_live _ _ _ x I H Hne) as [A|[i A]].
    + right. right. exact A.
    + right. left. exists (actor e), i. exact A.
Qed.

Lemma BL_step s e s' : I1 s -> I2 s -> I4 s -> LO s -> BL s -> step s e = Some s' -> BL s'.
Proof.
  intros I K J L B H Hb' Hk' Hc'.
  destruct (built s) eqn:Hb.
  2:{ destruct (i4_unb _ J Hb) as (Ht & _).
      destruct e; pose proof (Ht t) as Htt; step_inv H; simpl in *; try congruence. clean.
      split.
      - intros x Hx. apply (proj1 (dedup_in _ _)) in Hx. destruct (In_nth _ _ 0 Hx) as (i & Hi & Hn).
        left. exists t, i. unfold input_at. simpl. rewrite upd_same. split; auto.
        right. apply in_or_app. left. apply in_flat_map. exists i. split; [apply in_seq; lia|right; left; reflexivity].
      - left. destruct ins as [|a r]; [destruct k; simpl in *; congruence|]. simpl. discriminate. }
  destruct (step_built _ _ _ H Hb) as (_ & Hi & Hk). rewrite Hk in Hk'.
  assert (Hc : cdone s = false).
  { destruct (cdone s) eqn:E; auto. rewrite (step_cdone _ _ _ K H E) in Hc'. discriminate. }
  destruct (B Hb Hk' Hc) as [B1 B2]. split.
  - intros x Hx. eapply live_step; eauto. apply B1. eapply step_fsd_sub; eauto.
  - destruct B2 as [B2|(x & u & i & r & Hu)].
    + destruct e; step_inv H; simpl in *; auto; try congruence; try (rewrite Hb in *; discriminate).
      all: right; eexists _, t, _, _; apply upd_same.
    + destruct (Nat.eq_dec u (actor e)) as [->|Hne].
      2:{ right. exists x, u, i, r. rewrite (step_other_thr _ _ _ _ H Hne). exact Hu. }
      left. destruct e; simpl in Hu; step_inv H; try congruence; simpl in *; clean; try congruence.
      all: destruct (fsd s); simpl in *; try discriminate; congruence.
Qed.

Lemma BL_reach s : reachable s -> BL s.
Proof.
  apply invariant_rule_r; [intros H; discriminate|]. intros s0 e s' R D H.
  eapply BL_step; eauto using I1_reach, I2_reach, I4_reach, LO_reach.
Qed.

(* f_or / f_and: when nothing is running and every input is done, the decision has been taken *)
Lemma bool_all_done_decided s : reachable s -> quiescent s -> built s = true -> ck s <> KZip ->
  (forall x, In x (inputs s) -> fdone (es s x) = true) -> cdone s = true.
Proof.
  intros R Q Hb Hk Hall. destruct (cdone s) eqn:Hc; auto. exfalso.
  destruct (BL_reach s R Hb Hk Hc) as [B1 [B2|(x & u & i & r & Hu)]].
  2:{ rewrite Q in Hu. discriminate. }
  destruct (fsd s) as [|x l] eqn:Ef; [congruence|].
  destruct (B1 x (or_introl eq_refl)) as [(u & i & Hu & _)|[(u & i & Hu)|Hne]]; try (rewrite Q in Hu; contradiction).
  destruct (ecbs s x) as [|i l'] eqn:Ee; [congruence|].
  destruct (i4_ecbs _ (I4_reach s R) x i) as [Ex Hl]; [rewrite Ee; left; reflexivity|].
  assert (Hin : In x (inputs s)) by (rewrite Ex; apply nth_In; exact Hl).
  rewrite (EC_reach s R x (Hall x Hin)) in Ee. discriminate.
Qed.
