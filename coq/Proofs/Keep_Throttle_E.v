(* C12 / Throttle (part E): delegate.submit, the environment, reachability. *)
From Coq Require Import ZArith List Bool Arith Lia.
From RecordUpdate Require Import RecordSet.
From ME Require Import Base.Machine Base.Fut Base.GenPrelude Gen.ThrottleGen Model.Throttle
  Proofs.Throttle_Spec Proofs.Throttle_Inv Proofs.Throttle_Fifo Proofs.Throttle_U5 Proofs.Throttle_U6
  Proofs.Keep_Throttle_A Proofs.Keep_Throttle_B Proofs.Keep_Throttle_C Proofs.Keep_Throttle_D.
Import ListNotations RecordSetNotations.

Ltac split_and :=
  repeat match goal with
         | E : _ && _ = true |- _ => let A := fresh "Ha" in let B := fresh "Hb" in apply andb_prop in E; destruct E as [A B]
         end.

Lemma invK_dsubmit s s2 t j rest x :
  InvR s -> InvK s -> thr s t = IDSubmit j :: rest ->
  (forall u, thr s2 u = upd (thr s) t (IAddCb1 (ndel s) :: IAcqMSet j (Some (ndel s)) :: IRelM j :: IAddCb2 (ndel s) j :: rest) u) ->
  cancq (hist s2) = cancq (hist s) -> dsubs (hist s2) = dsubs (hist s) ++ [j] ->
  ndel s2 = S (ndel s) -> dfor s2 = upd (dfor s) (ndel s) j -> ds s2 = upd (ds s) (ndel s) x ->
  dcbs s2 = upd (dcbs s) (ndel s) [] -> ms s2 = ms s -> mdel s2 = mdel s -> InvK s2.
Proof.
  intros IR IK Et Hthr E1 E2 E3 E4 E5 E6 E7 E8. head_obl IK Et Hi Hr.
  assert (G : kgrows s s2).
  { unfold kgrows. rewrite E1, E3, E4, E5. split; [auto|]. split; [lia|].
    split; intros d0 Hd0; [|intros Hx]; rewrite upd_other by lia; auto. }
  eapply (invK_step s s2 t _ IK G); [| exact Hthr | | | | | |].
  - rewrite E2, E3, E4, seq_S, map_app, (k_ds _ IK). simpl. rewrite upd_same. f_equal.
    apply map_ext_in. intros a Ha. apply in_seq in Ha. rewrite upd_other by lia. reflexivity.
  - split; [exact Logic.I|]. split; [right; left; reflexivity|]. split; [exact Logic.I|].
    split; [split; [lia|rewrite E4; apply upd_same]|]. eapply pok_grows; eauto.
  - intros j0 Hd. left. rewrite <- E7. exact Hd.
  - intros d0 j0 Hin. left. rewrite E6 in Hin. unfold upd in Hin. destruct (Nat.eqb d0 (ndel s)); [destruct Hin|exact Hin].
  - intros j0 d0 Hm. left. rewrite <- E8. exact Hm.
  - intros d0 j0 Hin. destruct (Nat.eq_dec d0 (ndel s)) as [->|Hne].
    + right. right. rewrite E8. intros Hm. destruct (r_mdel _ IR _ _ Hm) as [Hlt _]. lia.
    + left. rewrite E6, upd_other by exact Hne. exact Hin.
  - intros y Hy Hin. left. revert y Hy Hin. rewrite Et. to_sub. sub_tac.
Qed.

Lemma do_dsubmit_invK s t d i s' : InvR s -> InvK s -> do_dsubmit s t d i = Some s' -> InvK s'.
Proof.
  intros IR IK Hx. unfold do_dsubmit in Hx.
  destruct (thr s t) as [|i0 rest] eqn:Et; [discriminate|]. destruct i0; try discriminate.
  destruct (negb (Nat.eqb d (ndel s)) || negb (Nat.eqb t H) || owned (xown s) t) eqn:Eg; [discriminate|].
  apply orb_false_elim in Eg. destruct Eg as [Eg Eo]. apply orb_false_elim in Eg. destruct Eg as [Ed Eh].
  apply negb_false_iff, Nat.eqb_eq in Ed. subst d. inv_some Hx.
  destruct (issome i); eapply (invK_dsubmit s _ t j rest _ IR IK Et); try reflexivity; intros u; reflexivity.
Qed.

Lemma do_env_run_invK s t d p s' : InvK s -> do_env_run s t d p = Some s' -> InvK s'.
Proof.
  intros IK Hx. unfold do_env_run in Hx. brk Hx; inv_some Hx; auto. split_and.
  match goal with E : fstate_eqb _ _ = true |- _ => apply fstate_eqb_eq in E; rename E into Ep end.
  match goal with E : idle s t = true |- _ => pose proof (idle_nil s t E) as Et end.
  assert (G : kgrows s (s <| ds := upd (ds s) d f |>)).
  { apply kgrows_of; simpl; auto. intros d0 Hd0. unfold upd. destruct (Nat.eqb d0 d) eqn:E; [|exact Hd0].
    apply Nat.eqb_eq in E. subst d0. subst p. destruct (ds s d); simpl in *; try discriminate;
      match goal with E2 : Some _ = Some _ |- _ => inversion E2; subst; auto end. }
  apply (invK_neutral s _ t s [] IK G).
  - simpl. apply (k_ds _ IK).
  - intros u. simpl. unfold upd. destruct (Nat.eqb u t) eqn:E; [apply Nat.eqb_eq in E; subst; exact Et|reflexivity].
  - exact Logic.I.
  - intros j Hd. left. exact Hd.
  - reflexivity.
  - intros d1 j. simpl. tauto.
  - rewrite Et. intros y _ [].
Qed.

Lemma in_cbs_prog d l j : In (CbRes j) l -> In (IAcqMSet j None) (flat_map (cb_prog d) l).
Proof.
  induction l as [|c l IH]; [intros []|]. simpl. intros [->|Hin]; apply in_or_app; [left; simpl; auto|right; auto].
Qed.

Lemma do_env_finish_invK s t d p o s' : InvK s -> do_env_finish s t d p o = Some s' -> InvK s'.
Proof.
  intros IK Hx. unfold do_env_finish in Hx. brk Hx; inv_some Hx; auto. split_and.
  match goal with E : fstate_eqb _ _ = true |- _ => apply fstate_eqb_eq in E; rename E into Ep end.
  match goal with E : idle s t = true |- _ => pose proof (idle_nil s t E) as Et end.
  assert (Hf : fdone f = true).
  { match goal with E : f_set p = Some f |- _ => clear - E; destruct p; simpl in E; inversion E; reflexivity end. }
  match goal with |- InvK (log (set_prog ?s1 t ?pp) ?h) =>
    assert (G : kgrows s (log (set_prog s1 t pp) h));
    [|apply (invK_step s _ t (norm s1 pp) IK G)] end.
  { apply kgrows_of; simpl; auto. intros d0 Hd0. unfold upd. destruct (Nat.eqb d0 d); [exact Hf|exact Hd0]. }
  - simpl. apply (k_ds _ IK).
  - intros u. reflexivity.
  - apply pok_norm. rewrite <- (app_nil_r (flat_map _ _)). apply pok_cbs; [| |exact Logic.I].
    + intros j Hin. eapply hand_grows; [exact G|]. apply (k_cb _ IK). exact Hin.
    + simpl. rewrite upd_same. exact Hf.
  - intros j Hd. left. exact Hd.
  - intros d0 j Hin. left. simpl in Hin. unfold upd in Hin. destruct (Nat.eqb d0 d); [destruct Hin|exact Hin].
  - intros j d0 Hm. left. exact Hm.
  - intros d0 j Hin. destruct (Nat.eq_dec d0 d) as [->|Hne].
    + right. left. exists t. right. simpl. rewrite upd_same. apply in_norm_rel; [reflexivity|]. apply in_cbs_prog. exact Hin.
    + left. simpl. rewrite upd_other by exact Hne. exact Hin.
  - rewrite Et. intros y _ [].
Qed.

Lemma step0_invK s e s' : InvR s -> InvK s -> step0 s e = Some s' -> InvK s'.
Proof.
  intros IR IK Hx. destruct e; cbn [step0] in Hx;
  [ eapply do_new_invK | eapply do_hstart_invK | eapply do_exit_invK | eapply do_call_submit_invK
  | eapply do_call_cancel_invK | eapply do_call_shutdown_invK | eapply do_ret_invK | eapply do_acq_g_invK
  | eapply do_rel_g_invK | eapply do_count_invK | eapply do_xsec_invK | eapply do_xacq_invK
  | eapply do_relx_invK | eapply do_rcread_invK | eapply do_pop_invK | eapply do_acq_a_invK
  | eapply do_rel_a_invK | eapply do_evset_invK | eapply do_wait_invK | eapply do_woke_invK | eapply do_clear_invK
  | eapply (do_dsubmit_invK _ _ _ _ _ IR) | eapply do_dshutdown_invK | eapply do_acq_m_invK | eapply do_rel_m_invK
  | eapply do_fm_invK | eapply (do_fd_invK _ _ _ _ _ _ IR) | eapply do_env_run_invK | eapply do_env_finish_invK ]; eassumption.
Qed.

Lemma invK_init : InvK init.
Proof.
  constructor; simpl; try (intros; discriminate); try (intros ? ? []); [reflexivity|].
  intros t. exact Logic.I.
Qed.

Theorem invK_reachable s : reachable_from step init s -> InvK s.
Proof.
  apply invariant_rule_r; [exact invK_init|].
  intros s0 [ts e] s' Hr IK Hx. pose proof (invR_reachable s0 Hr) as IR.
  unfold step in Hx. simpl in Hx. unfold tick in Hx.
  destruct (Z.leb (clock s0) ts); [|discriminate].
  apply (step0_invK (s0 <| clock := ts |>) e s'); [| |exact Hx].
  - destruct IR as [R1 R2 R3 R4]. constructor; auto.
  - destruct IK as [K1 K2 K3 K4 K5]. constructor; auto.
    intros t. apply (pok_kv s0); [reflexivity|apply K5].
Qed.
