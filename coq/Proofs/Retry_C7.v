(* Uniqueness of the delegate-callback chain of each delegate future. *)
From Coq Require Import List ZArith Bool Arith Lia.
From RecordUpdate Require Import RecordSet.
From ME Require Import Base.Machine Base.Fut Base.GenPrelude Gen.RetryGen Model.Retry Proofs.Retry_Spec Proofs.Retry_C0 Proofs.Retry_C1 Proofs.Retry_C2 Proofs.Retry_C3 Proofs.Retry_C4 Proofs.Retry_C5 Proofs.Retry_C6.
Import ListNotations RecordSetNotations.

Definition chd (s : st) (d : nat) (i : instr) : bool :=
  match i with
  | IAddCbD d' | IDCbDone d' | IDCbCancelled d' _ => Nat.eqb d' d
  | IPolSR r | IPolST r | IXRetry r _ => opt_eqb (jdel (recs s r)) d
  | IXPop r => opt_eqb (jdel (recs s r)) d && negb (fcancelled (ds s d))
  | _ => false
  end.
Fixpoint cnt (s : st) (d : nat) (p : list instr) : nat :=
  match p with [] => 0 | i :: r => (if chd s d i then 1 else 0) + cnt s d r end.

Lemma cnt_app s d a b : cnt s d (a ++ b) = cnt s d a + cnt s d b.
Proof. induction a as [|i r IH]; simpl; [reflexivity|]. rewrite IH. lia. Qed.
Lemma cnt_cbs s d j l : cnt s d (cbs_prog j l) = 0.
Proof. induction l as [|c l IH]; simpl; [reflexivity|]. destruct c; simpl; exact IH. Qed.
Lemma cnt_norm s d : forall p b, cnt s d (norm b p) <= cnt s d p.
Proof.
  induction p as [|i r IH]; intros b.
  - destruct b; simpl; lia.
  - destruct i; simpl; try (specialize (IH true); specialize (IH false); destruct b; simpl; lia);
      try (pose proof (IH true); pose proof (IH false);
           destruct b; simpl; repeat match goal with |- context[if ?c then _ else _] => destruct c end; lia).
Qed.
Lemma cnt_tl s d p : cnt s d (tl p) <= cnt s d p.
Proof. destruct p; simpl; lia. Qed.

Lemma chd_mono s s' d i : MONO s s' -> ipr s i -> chd s' d i = chd s d i.
Proof.
  intros M. destruct i; simpl; try reflexivity.
  - intros (A & _). rewrite (mo_jdel _ _ M) by exact A. reflexivity.
  - intros (A & _). rewrite (mo_jdel _ _ M) by exact A. reflexivity.
  - intros (A & _). rewrite (mo_jdel _ _ M) by exact A. reflexivity.
  - intros (A & B). rewrite (mo_jdel _ _ M) by exact A.
    destruct (jdel (recs s r)) as [d'|] eqn:E; simpl; [|reflexivity].
    destruct (Nat.eqb d' d) eqn:E2; [|reflexivity]. apply eqb_t in E2. subst d'.
    destruct (B d eq_refl) as [B1 B2]. rewrite (mo_dcan_inv _ _ M) by assumption. reflexivity.
Qed.
Lemma cnt_mono s s' d p : MONO s s' -> Forall (ipr s) p -> cnt s' d p = cnt s d p.
Proof.
  intros M. induction p as [|i r IH]; intros H; [reflexivity|]. inversion H; subst.
  simpl. rewrite (chd_mono s s' d i M) by assumption. rewrite IH by assumption. reflexivity.
Qed.

Lemma in_norm x : forall p b, In x (norm b p) -> In x p \/ x = IDead.
Proof.
  induction p as [|i r IH]; intros b H.
  - destruct b; simpl in H; [destruct H as [<-|[]]; auto|destruct H].
  - destruct i; simpl in H;
      try (destruct b; [apply IH in H; destruct H as [H|H]; [left; right; exact H|right; exact H]|left; exact H]);
      (apply IH in H; destruct H as [H|H]; [left; right; exact H|right; exact H]).
Qed.

Record UI (s : st) : Prop := {
  u_le : forall d t1 t2, t1 <> t2 -> cnt s d (thr s t1) + cnt s d (thr s t2) <= 1;
  u_one : forall d t, cnt s d (thr s t) <= 1;
  u_cb : forall t d, In (IAddCbD d) (thr s t) -> dcb s d = false
}.
Lemma UI_init : UI init.
Proof. constructor; simpl; intros; try lia; try tauto. Qed.

Lemma U_upd s s' t p' : UI s -> PI s -> MONO s s' ->
  (forall u, thr s' u = upd (thr s) t p' u) ->
  (forall d, cnt s' d p' <= cnt s d (thr s t) \/ (cnt s' d p' <= 1 /\ forall u, cnt s d (thr s u) = 0)) ->
  (forall d t1 t2, t1 <> t2 -> cnt s' d (thr s' t1) + cnt s' d (thr s' t2) <= 1) /\
  (forall d t, cnt s' d (thr s' t) <= 1).
Proof.
  intros [L O _] P M E H.
  assert (A : forall d u, u <> t -> cnt s' d (thr s' u) = cnt s d (thr s u)).
  { intros d u Hu. rewrite E. rewrite upd_other by exact Hu. apply cnt_mono; [exact M|apply (pi_thr s P)]. }
  assert (B : forall d, cnt s' d (thr s' t) = cnt s' d p').
  { intros d. rewrite E. rewrite upd_same. reflexivity. }
  split.
  - intros d t1 t2 Hn. destruct (Nat.eq_dec t1 t) as [->|N1]; destruct (Nat.eq_dec t2 t) as [->|N2].
    + contradiction.
    + rewrite B, (A d t2 N2). destruct (H d) as [H1|[H1 H2]].
      * specialize (L d t t2 Hn). lia.
      * rewrite (H2 t2). lia.
    + rewrite B, (A d t1 N1). destruct (H d) as [H1|[H1 H2]].
      * specialize (L d t1 t Hn). lia.
      * rewrite (H2 t1). lia.
    + rewrite (A d t1 N1), (A d t2 N2). apply L. exact Hn.
  - intros d u. destruct (Nat.eq_dec u t) as [->|N].
    + rewrite B. destruct (H d) as [H1|[H1 H2]]; [specialize (O d t); lia|exact H1].
    + rewrite (A d u N). apply O.
Qed.

Lemma cnt_zero_fresh s d p : Forall (ipr s) p -> ndel s <= d -> cnt s d p = 0.
Proof.
  intros H Hd. induction H as [|i r Hi Hr IH]; [reflexivity|]. simpl. rewrite IH.
  assert (E : chd s d i = false); [|rewrite E; reflexivity].
  destruct i; simpl in *; try reflexivity.
  - destruct Hi. apply Nat.eqb_neq. lia.
  - destruct Hi as (A & B & C & D). apply Nat.eqb_neq. lia.
  - destruct Hi as (A & x & B & C & D). rewrite B. simpl. apply Nat.eqb_neq. lia.
  - destruct Hi as (A & x & B & C & D). rewrite B. simpl. apply Nat.eqb_neq. lia.
  - destruct Hi as (A & x & B & C & D). rewrite B. simpl. apply Nat.eqb_neq. lia.
  - destruct Hi as (A & B). destruct (jdel (recs s r0)) as [x|]; simpl; [|reflexivity].
    destruct (B x eq_refl). replace (Nat.eqb x d) with false; [reflexivity|]. symmetry. apply Nat.eqb_neq. lia.
  - apply Nat.eqb_neq. lia.
Qed.

Lemma cnt_zero_notdone s d p : Forall (ipr s) p -> (forall d', In (IAddCbD d') p -> dcb s d' = false) ->
  fdone (ds s d) = false -> dcb s d = true -> cnt s d p = 0.
Proof.
  intros H Hc Hd Hb. induction H as [|i r Hi Hr IH]; [reflexivity|]. simpl.
  rewrite IH by (intros d' Hin; apply Hc; right; exact Hin).
  assert (E : chd s d i = false); [|rewrite E; reflexivity].
  destruct i; simpl in *; try reflexivity.
  - destruct Hi as (A & B & C). destruct (Nat.eqb d0 d) eqn:E; [|reflexivity]. apply eqb_t in E. congruence.
  - destruct Hi as (A & B & C & D & F). destruct (Nat.eqb d0 d) eqn:E; [|reflexivity]. apply eqb_t in E. congruence.
  - destruct Hi as (A & x & B & C & D & F). rewrite B. simpl. destruct (Nat.eqb x d) eqn:E; [|reflexivity].
    apply eqb_t in E. subst x. rewrite D in Hd. discriminate.
  - destruct Hi as (A & x & B & C & D & F). rewrite B. simpl. destruct (Nat.eqb x d) eqn:E; [|reflexivity].
    apply eqb_t in E. subst x. rewrite D in Hd. discriminate.
  - destruct Hi as (A & x & B & C & D & F). rewrite B. simpl. destruct (Nat.eqb x d) eqn:E; [|reflexivity].
    apply eqb_t in E. subst x. rewrite D in Hd. discriminate.
  - destruct Hi as (A & B). destruct (jdel (recs s r0)) as [x|]; simpl; [|reflexivity].
    destruct (Nat.eqb x d) eqn:E; [|reflexivity]. apply eqb_t in E. subst x. destruct (B d eq_refl). congruence.
  - destruct (Nat.eqb d0 d) eqn:E; [|reflexivity]. apply eqb_t in E. subst d0.
    rewrite (Hc d) in Hb by (left; reflexivity). discriminate.
Qed.

Lemma UI_cnt_step0 s e s' : UI s -> PI s -> RI s -> step0 s e = Some s' ->
  (forall d t1 t2, t1 <> t2 -> cnt s' d (thr s' t1) + cnt s' d (thr s' t2) <= 1) /\
  (forall d t, cnt s' d (thr s' t) <= 1).
Proof.
  intros HU HP HR H. pose proof (MONO_step0 _ _ _ H) as HM. s0inv H; try (destruct HU; split; assumption).
  all: try (match goal with inl : option outcome |- _ => destruct inl end).
  all: bsplit; subst.
  all: match goal with Hq : thr _ ?t = _ |- _ => pose proof (pi_thr s HP t) as Tt; rewrite Hq in Tt end.
  all: try (eapply (U_upd s _ _ _ HU HP HM); [intros u; reflexivity|]; intros dd;
    match goal with Hq : thr _ _ = _ |- _ => rewrite Hq end;
    assert (Cl : forall l', Forall (ipr s) l' -> cnt _ dd l' = cnt s dd l') by (intros l'; apply cnt_mono; exact HM)).
  all: repeat (match goal with H : Forall _ (_ :: _) |- _ => inversion H; subst; clear H end).
  all: try (left; etransitivity; [apply cnt_norm|]; rewrite Cl by assumption; simpl; lia).
  all: try (left; simpl; rewrite ?Cl by assumption; simpl; lia).
  - left. apply next_job_in in Heqo. destruct Heqo as [A B]. simpl. rewrite B. simpl. lia.
  - left. apply next_job_in in Heqo. destruct Heqo as [A B]. simpl. rewrite B. simpl. lia.
  - left; cbn [norm cnt]; rewrite (Cl l) by assumption; unfold set_prog, log; simpl;
    match goal with Hh : ipr s _ |- _ => simpl in Hh end;
    repeat match goal with H : _ /\ _ |- _ => destruct H | H : exists _, _ |- _ => destruct H end;
    repeat match goal with H : jdel _ = _ |- _ => rewrite H end; simpl;
    repeat match goal with |- context[Nat.eqb ?a ?b] => destruct (Nat.eqb a b) end;
    repeat match goal with |- context[fcancelled ?x] => destruct (fcancelled x) end; simpl; lia.
  - left. etransitivity; [apply cnt_norm|]. rewrite cnt_app. rewrite (Cl l) by assumption. rewrite Cl by (apply Forall_cbs; intros; exact I).
    rewrite cnt_cbs. simpl. lia.
  - left. etransitivity; [apply cnt_norm|]. simpl. rewrite Cl by (apply Forall_tl; assumption).
    pose proof (cnt_tl s dd l). lia.
  - simpl in H3. destruct H3 as (A & B & C & D).
    assert (Ef : fcancelled f = true) by (eapply f_cancel_can; exact Heqp).
    assert (Z : forall u, cnt s d0 (thr s u) = 0).
    { intros u. apply cnt_zero_notdone; [apply (pi_thr s HP)|intros d' Hin; eapply (u_cb s HU); exact Hin| |exact H0].
      destruct (ds s d0); simpl in H; try discriminate; reflexivity. }
    cbn [norm cnt]. rewrite (Cl l) by assumption. unfold set_prog. simpl. rewrite B. simpl.
    destruct (Nat.eqb d0 dd) eqn:E.
    + apply eqb_t in E. subst dd. right. rewrite upd_same, Ef. simpl.
      pose proof (Z t) as Zt. rewrite Heql in Zt. simpl in Zt. split; [lia|exact Z].
    + left. simpl. lia.
  - simpl in H1. destruct H1 as (A & B & C & D).
    assert (Ef : fcancelled f = true) by (eapply f_cancel_can; exact Heqp).
    left. cbn [norm cnt]. rewrite (Cl l) by assumption. unfold set_prog. simpl. rewrite B. simpl.
    destruct (Nat.eqb d0 dd) eqn:E; simpl; [|lia].
    apply eqb_t in E. subst dd. rewrite upd_same, Ef. simpl. lia.
  - left. cbn [norm]. etransitivity; [apply cnt_norm|]. rewrite Cl by assumption. simpl. lia.
  - left; cbn [norm cnt]; rewrite (Cl l) by assumption; unfold set_prog, log; simpl;
    match goal with Hh : ipr s _ |- _ => simpl in Hh end;
    repeat match goal with H : _ /\ _ |- _ => destruct H | H : exists _, _ |- _ => destruct H end;
    repeat match goal with H : jdel _ = _ |- _ => rewrite H end; simpl;
    repeat match goal with |- context[Nat.eqb ?a ?b] => destruct (Nat.eqb a b) end;
    repeat match goal with |- context[fcancelled ?x] => destruct (fcancelled x) end; simpl; lia.
  - left; cbn [norm cnt]; rewrite (Cl l) by assumption; unfold set_prog, log; simpl;
    match goal with Hh : ipr s _ |- _ => simpl in Hh end;
    repeat match goal with H : _ /\ _ |- _ => destruct H | H : exists _, _ |- _ => destruct H end;
    repeat match goal with H : jdel _ = _ |- _ => rewrite H end; simpl;
    repeat match goal with |- context[Nat.eqb ?a ?b] => destruct (Nat.eqb a b) end;
    repeat match goal with |- context[fcancelled ?x] => destruct (fcancelled x) end; simpl; lia.
  - left; cbn [norm cnt]; rewrite (Cl l) by assumption; unfold set_prog, log; simpl;
    match goal with Hh : ipr s _ |- _ => simpl in Hh end;
    repeat match goal with H : _ /\ _ |- _ => destruct H | H : exists _, _ |- _ => destruct H end;
    repeat match goal with H : jdel _ = _ |- _ => rewrite H end; simpl;
    repeat match goal with |- context[Nat.eqb ?a ?b] => destruct (Nat.eqb a b) end;
    repeat match goal with |- context[fcancelled ?x] => destruct (fcancelled x) end; simpl; lia.
  - left; cbn [norm cnt]; rewrite (Cl l) by assumption; unfold set_prog, log; simpl;
    match goal with Hh : ipr s _ |- _ => simpl in Hh end;
    repeat match goal with H : _ /\ _ |- _ => destruct H | H : exists _, _ |- _ => destruct H end;
    repeat match goal with H : jdel _ = _ |- _ => rewrite H end; simpl;
    repeat match goal with |- context[Nat.eqb ?a ?b] => destruct (Nat.eqb a b) end;
    repeat match goal with |- context[fcancelled ?x] => destruct (fcancelled x) end; simpl; lia.
  - left; cbn [norm cnt]; rewrite (Cl l) by assumption; unfold set_prog, log; simpl;
    match goal with Hh : ipr s _ |- _ => simpl in Hh end;
    repeat match goal with H : _ /\ _ |- _ => destruct H | H : exists _, _ |- _ => destruct H end;
    repeat match goal with H : jdel _ = _ |- _ => rewrite H end; simpl;
    repeat match goal with |- context[Nat.eqb ?a ?b] => destruct (Nat.eqb a b) end;
    repeat match goal with |- context[fcancelled ?x] => destruct (fcancelled x) end; simpl; lia.
  - cbn [norm cnt]. rewrite (Cl l) by assumption. unfold set_prog, log; simpl.
    destruct (Nat.eqb (ndel s) dd) eqn:E.
    + apply eqb_t in E. subst dd. right.
      assert (Z : forall u, cnt s (ndel s) (thr s u) = 0) by (intros u; apply cnt_zero_fresh; [apply (pi_thr s HP)|lia]).
      pose proof (Z t) as Zt. rewrite Heql in Zt. simpl in Zt. split; [lia|exact Z].
    + left. simpl. lia.
  - cbn [norm cnt]. rewrite (Cl l) by assumption. unfold set_prog, log; simpl.
    destruct (Nat.eqb (ndel s) dd) eqn:E.
    + apply eqb_t in E. subst dd. right.
      assert (Z : forall u, cnt s (ndel s) (thr s u) = 0) by (intros u; apply cnt_zero_fresh; [apply (pi_thr s HP)|lia]).
      pose proof (Z t) as Zt. rewrite Heql in Zt. simpl in Zt. split; [lia|exact Z].
    + left. simpl. lia.
  - destruct HU as [L O _].
    assert (A : forall d0 u, cnt (s <| ds := upd (ds s) d f |>) d0 (thr s u) = cnt s d0 (thr s u))
      by (intros; apply cnt_mono; [exact HM|apply (pi_thr s HP)]).
    split; [intros d0 t1 t2 Hn|intros d0 t0]; simpl; rewrite !A; auto.
  - destruct HU as [L O _].
    assert (A : forall d0 u, cnt (log s (HStart d (clock s))) d0 (thr s u) = cnt s d0 (thr s u))
      by (intros; apply cnt_mono; [exact HM|apply (pi_thr s HP)]).
    split; [intros d0 t1 t2 Hn|intros d0 t0]; simpl; rewrite !A; auto.
  - destruct (dcb s d) eqn:Ed; [|left; simpl; lia].
    cbn [norm cnt chd]. destruct (Nat.eqb d dd) eqn:E; [|left; simpl; lia].
    apply eqb_t in E. subst dd. right. split; [simpl; lia|].
    intros u. apply cnt_zero_notdone; [apply (pi_thr s HP)|intros d' Hin; eapply (u_cb s HU); exact Hin| |exact Ed].
    destruct (ds s d); simpl in Heqo0; try discriminate; reflexivity.
  - destruct (dcb s d) eqn:Ed; [|left; simpl; lia].
    cbn [norm cnt chd]. destruct (Nat.eqb d dd) eqn:E; [|left; simpl; lia].
    apply eqb_t in E. subst dd. right. split; [simpl; lia|].
    intros u. apply cnt_zero_notdone; [apply (pi_thr s HP)|intros d' Hin; eapply (u_cb s HU); exact Hin| |exact Ed].
    destruct (ds s d); simpl in *; try discriminate; reflexivity.
Qed.

Lemma in_cnt s d p : In (IAddCbD d) p -> 1 <= cnt s d p.
Proof.
  induction p as [|i r IH]; intros H; [destruct H|]. destruct H as [->|H].
  - simpl. rewrite Nat.eqb_refl. lia.
  - simpl. apply IH in H. lia.
Qed.

Lemma in_cbs_addcb d j l : ~ In (IAddCbD d) (cbs_prog j l).
Proof.
  induction l as [|c l IH]; simpl; [tauto|]. destruct c; simpl; intros [E|H]; try discriminate E; auto.
  destruct H as [E|H]; [discriminate E|auto].
Qed.
Lemma in_tl {A} (x : A) l : In x (tl l) -> In x l.
Proof. destruct l; simpl; auto. Qed.

Lemma UI_cb_step0 s e s' : UI s -> PI s -> step0 s e = Some s' ->
  forall u dd, In (IAddCbD dd) (thr s' u) -> dcb s' dd = false.
Proof.
  intros HU HP H. s0inv H; try (apply (u_cb s HU)).
  all: try (match goal with inl : option outcome |- _ => destruct inl end).
  all: bsplit; subst.
  all: intros u dd Hin; unfold log, set_prog in *; simpl in *.
  all: try (unfold upd in Hin;
    match type of Hin with context[Nat.eqb ?a ?b] => destruct (Nat.eqb a b) eqn:Eu end;
    [apply eqb_t in Eu; subst u; try (apply in_norm in Hin; destruct Hin as [Hin|Hin]; [|discriminate Hin]);
     simpl in Hin; repeat (destruct Hin as [Hin|Hin]; [try discriminate Hin|]);
     try (match goal with Hq : thr _ ?t = _ |- _ => apply (u_cb s HU t); rewrite Hq; try (right; exact Hin); try exact Hin end; fail)
    |try (apply (u_cb s HU u); exact Hin)]).
  - apply in_app_iff in Hin. destruct Hin as [Hin|Hin]; [exfalso; eapply in_cbs_addcb; exact Hin|].
    apply (u_cb s HU n). rewrite Heql. right. exact Hin.
  - apply in_tl in Hin. apply (u_cb s HU t). rewrite Heql. right. exact Hin.
  - destruct (Nat.eqb dd d0) eqn:E.
    + apply eqb_t in E. subst dd. exfalso. pose proof (u_one s HU d0 t) as O. rewrite Heql in O. simpl in O.
      rewrite Nat.eqb_refl in O. apply (in_cnt s) in Hin. lia.
    + apply Nat.eqb_neq in E. rewrite upd_other by exact E. apply (u_cb s HU t). rewrite Heql. right. exact Hin.
  - destruct (Nat.eqb dd d0) eqn:E.
    + apply eqb_t in E. subst dd. exfalso. apply Nat.eqb_neq in Eu. pose proof (u_le s HU d0 u t Eu) as O.
      rewrite Heql in O. simpl in O. rewrite Nat.eqb_refl in O. apply (in_cnt s) in Hin. lia.
    + apply Nat.eqb_neq in E. rewrite upd_other by exact E. apply (u_cb s HU u). exact Hin.
  - destruct (Nat.eqb dd d0) eqn:E.
    + apply eqb_t in E. subst dd. exfalso. pose proof (u_one s HU d0 t) as O. rewrite Heql in O. simpl in O.
      rewrite Nat.eqb_refl in O. apply (in_cnt s) in Hin. lia.
    + apply Nat.eqb_neq in E. rewrite upd_other by exact E. apply (u_cb s HU t). rewrite Heql. right. exact Hin.
  - destruct (Nat.eqb dd d0) eqn:E.
    + apply eqb_t in E. subst dd. exfalso. apply Nat.eqb_neq in Eu. pose proof (u_le s HU d0 u t Eu) as O.
      rewrite Heql in O. simpl in O. rewrite Nat.eqb_refl in O. apply (in_cnt s) in Hin. lia.
    + apply Nat.eqb_neq in E. rewrite upd_other by exact E. apply (u_cb s HU u). exact Hin.
  - inversion Hin; subst. apply upd_same.
  - assert (Hd : dd < ndel s).
    { pose proof (pi_thr s HP t) as P. rewrite Heql in P. rewrite Forall_forall in P.
      apply (P (IAddCbD dd)). right. exact Hin. }
    rewrite upd_lt by exact Hd. apply (u_cb s HU t). rewrite Heql. right. exact Hin.
  - assert (Hd : dd < ndel s).
    { pose proof (pi_thr s HP u) as P. rewrite Forall_forall in P. apply (P _ Hin). }
    rewrite upd_lt by exact Hd. apply (u_cb s HU u). exact Hin.
  - inversion Hin; subst. apply upd_same.
  - assert (Hd : dd < ndel s).
    { pose proof (pi_thr s HP t) as P. rewrite Heql in P. rewrite Forall_forall in P.
      apply (P (IAddCbD dd)). right. exact Hin. }
    rewrite upd_lt by exact Hd. apply (u_cb s HU t). rewrite Heql. right. exact Hin.
  - assert (Hd : dd < ndel s).
    { pose proof (pi_thr s HP u) as P. rewrite Forall_forall in P. apply (P _ Hin). }
    rewrite upd_lt by exact Hd. apply (u_cb s HU u). exact Hin.
  - apply (u_cb s' HU u). exact Hin.
  - destruct (dcb s d); simpl in Hin; [destruct Hin as [E|[E|[]]]; discriminate E|destruct Hin].
  - apply (u_cb s' HU u). exact Hin.
  - apply (u_cb s' HU u). exact Hin.
  - destruct (dcb s d); simpl in Hin; [destruct Hin as [E|[E|[]]]; discriminate E|destruct Hin].
  - apply (u_cb s' HU u). exact Hin.
Qed.

Lemma UI_step0 s e s' : UI s -> PI s -> RI s -> step0 s e = Some s' -> UI s'.
Proof.
  intros HU HP HR H. destruct (UI_cnt_step0 s e s' HU HP HR H) as [A B].
  constructor; [exact A|exact B|eapply UI_cb_step0; eassumption].
Qed.

Lemma UI_tick s ts : UI s -> UI (s <| clock := ts |>).
Proof.
  intros [L O C].
  assert (A : forall d p, cnt (s <| clock := ts |>) d p = cnt s d p).
  { intros d p. induction p as [|i r IH]; [reflexivity|]. simpl. rewrite IH.
    replace (chd (s <| clock := ts |>) d i) with (chd s d i); [reflexivity|]. destruct i; reflexivity. }
  constructor; simpl; intros; rewrite ?A; auto.
  eapply C; eassumption.
Qed.

Lemma UI_reach s : reachable_from step init s -> UI s.
Proof.
  apply (invariant_rule_r step UI); [exact UI_init|].
  intros s0 e s' R IH H. apply step_split in H. destruct H as (s1 & Ht & H).
  apply tick_eq in Ht. subst s1. eapply UI_step0; [apply UI_tick; exact IH| | |exact H].
  - apply PI_tick, PI_reach, R.
  - apply RI_tick, RI_reach, R.
Qed.
