(* C12 / Timeout (part D): the wake-up callback.  Every job in _jobs whose future is not done has
   TimeoutExecutor._on_future_done (CbWake) in that future's callback list: it is registered (IDoneA j CbWake)
   before the deadline is computed and the job appended. *)
From Coq Require Import List ZArith Bool Arith Lia.
From RecordUpdate Require Import RecordSet.
From ME Require Import Base.Machine Base.Fut Base.GenPrelude Gen.TimeoutGen Proofs.Timeout_Spec Model.Timeout Proofs.Timeout_Inv
  Proofs.Keep_Timeout_A Proofs.Keep_Timeout_B.
Import ListNotations RecordSetNotations.
Local Open Scope Z_scope.

(* the append of a job for j is pending in p and the registration of the wake-up callback is not ahead of it any more *)
Fixpoint armed (j : nat) (p : list instr) : bool :=
  match p with
  | [] => false
  | i :: r =>
      match i with
      | IDoneA j' CbWake => if Nat.eqb j j' then false else armed j r
      | IClockD j' _ => if Nat.eqb j j' then true else armed j r
      | IXAppend job => if Nat.eqb j (tj_id job) then true else armed j r
      | _ => armed j r
      end
  end.
Definition neutralA (i : instr) : bool :=
  match i with IDoneA _ CbWake | IClockD _ _ | IXAppend _ => false | _ => true end.

Lemma armed_app j p q : forallb neutralA p = true -> armed j (p ++ q) = armed j q.
Proof.
  induction p as [|i r IH]; simpl; [reflexivity|]. intros Hx. apply andb_true_iff in Hx. destruct Hx as [A B].
  destruct i; simpl in A; try discriminate A; auto. destruct c; [discriminate A|auto].
Qed.
Lemma armed_stamp j s p : armed j (stamp s p) = armed j p.
Proof. unfold stamp. destruct p as [|[] r]; try reflexivity. destruct e; reflexivity. Qed.
Lemma armed_ret_of j t b l : armed j (ret_of t b ++ l) = armed j l.
Proof. unfold ret_of. destruct (Nat.eqb t jt); reflexivity. Qed.
Lemma armed_cb_prog j j0 c l : armed j (cb_prog j0 c ++ l) = armed j l.
Proof. destruct c; reflexivity. Qed.
Lemma armed_cbs_prog j j0 cs l : armed j (cbs_prog j0 cs ++ l) = armed j l.
Proof.
  apply armed_app. unfold cbs_prog. apply forallb_forall. intros i Hi. apply in_flat_map in Hi.
  destruct Hi as [c [_ Hc]]. destruct c; simpl in Hc; destruct Hc as [<-|[]]; reflexivity.
Qed.
Lemma armed_map_tc j l q : armed j (map ITCancel l ++ q) = armed j q.
Proof. apply armed_app. apply forallb_forall. intros i Hi. apply in_map_iff in Hi. destruct Hi as [x [<- _]]. reflexivity. Qed.
Lemma armed_map_pd j (l : list tjob) q : armed j (map (fun job => IPDone (tj_id job)) l ++ q) = armed j q.
Proof. apply armed_app. apply forallb_forall. intros i Hi. apply in_map_iff in Hi. destruct Hi as [x [<- _]]. reflexivity. Qed.

Record InvRG (s : st) : Prop := {
  g_jobs : forall job, In job (jobs s) -> fdone (rs s (tj_id job)) = false -> In CbWake (rcbs s (tj_id job));
  g_prog : forall t j, armed j (thr s t) = true -> fdone (rs s j) = false -> In CbWake (rcbs s j)
}.

Lemma nd_mono s s' : (forall j, fdone (rs s j) = true -> fdone (rs s' j) = true) ->
  forall j, fdone (rs s' j) = false -> fdone (rs s j) = false.
Proof. intros DM j Hn. destruct (fdone (rs s j)) eqn:E; [|reflexivity]. rewrite (DM j E) in Hn. discriminate. Qed.

Lemma invrg_gen s s' t s1 P :
  InvRG s -> thr s' = upd (thr s) t (stamp s1 P) ->
  (forall j, fdone (rs s j) = true -> fdone (rs s' j) = true) ->
  (forall j, fdone (rs s' j) = false -> In CbWake (rcbs s j) -> In CbWake (rcbs s' j)) ->
  (forall job, In job (jobs s') -> In job (jobs s) \/ armed (tj_id job) (thr s t) = true) ->
  (forall j, armed j P = true -> armed j (thr s t) = true \/ (fdone (rs s' j) = false -> In CbWake (rcbs s' j))) ->
  InvRG s'.
Proof.
  intros [G1 G2] ET DM HC HJ HP. pose proof (nd_mono s s' DM) as ND. split.
  - intros job Hin Hn. apply HC; [exact Hn|]. destruct (HJ job Hin) as [Hx|Hx]; [apply G1; auto|apply (G2 t); auto].
  - intros t' j Ha Hn. rewrite ET in Ha. unfold upd in Ha. destruct (Nat.eqb t' t) eqn:E.
    + rewrite armed_stamp in Ha. destruct (HP j Ha) as [Hx|Hx]; [|auto]. apply HC; [exact Hn|]. apply (G2 t); auto.
    + apply HC; [exact Hn|]. apply (G2 t'); auto.
Qed.

Ltac arm_simpl H :=
  repeat (cbn [armed app setres_prog setexc_prog resolved_prog submit_prog] in H;
          rewrite ?armed_ret_of, ?armed_cb_prog, ?armed_cbs_prog, ?armed_map_tc, ?armed_map_pd in H).

Lemma invrg_step0 s e s' : InvSH s -> InvRG s -> step0 s e = Some s' -> InvRG s'.
Proof.
  intros SH I H. pose proof (done_mono _ _ _ H) as DM. step0_cases H.
  all: try match goal with E : wait_view _ = _ |- _ => apply wait_view_inv in E; destruct E as [E|[E _]] end.
  all: try solve [ match goal with I0 : InvRG ?s0, E : thr ?s0 ?t = _ |- _ =>
         eapply (invrg_gen s0 _ t); [exact I|simpl; reflexivity|exact DM|intros j' _ Hc; exact Hc|intros job' Hj; left; exact Hj|];
         intros j' Ha; left; rewrite E; arm_simpl Ha; cbn [armed]; exact Ha end ].
  all: repeat match goal with E : negb (Nat.eqb _ _) = false |- _ => apply negb_false_iff, Nat.eqb_eq in E; subst end.
  all: try match goal with E : negb (fstate_eqb _ _) = false |- _ => apply pre_eq in E; subst end.
  all: repeat match goal with E : _ && _ = true |- _ =>
         let A := fresh "Ea" in let B := fresh "Eb" in apply andb_true_iff in E; destruct E as [A B] end.
  all: repeat match goal with E : Nat.eqb _ _ = true |- _ => apply Nat.eqb_eq in E; subst end.
  all: try match goal with I0 : InvRG ?s0, E : thr ?s0 _ = _ |- _ => rename E into Et end.
  all: try solve [ match goal with I0 : InvRG ?s0, E : thr ?s0 ?t0 = IDSubmit _ :: _ |- _ =>
                   eapply (invrg_gen s0 _ t0); [exact I0|simpl; reflexivity|exact DM|intros j' _ Hc; exact Hc|intros job' Hj; left; exact Hj|];
                   intros j' Ha; left; rewrite E; arm_simpl Ha; cbn [armed];
                   destruct (Nat.eqb j' (nfut s0)); [discriminate Ha|exact Ha] end ].
  - (* _jobs.append(job) *)
    eapply (invrg_gen s _ t); [exact I|simpl; reflexivity|exact DM|intros j' _ Hc; exact Hc| |].
    + intros job' Hj. simpl in Hj. apply in_app_or in Hj. destruct Hj as [Hj|[<-|[]]]; [left; exact Hj|right].
      rewrite Et. cbn [armed]. rewrite Nat.eqb_refl. reflexivity.
    + intros j' Ha. left. rewrite Et. arm_simpl Ha. cbn [armed]. rewrite Ha. destruct (Nat.eqb j' (tj_id job)); reflexivity.
  - (* _jobs = pending *)
    eapply (invrg_gen s _ t); [exact I|simpl; reflexivity|exact DM|intros j' _ Hc; exact Hc| |].
    + intros job' Hj. left. simpl in Hj. eapply partition_pend_incl; eauto.
    + intros j' Ha. left. rewrite Et. arm_simpl Ha. cbn [armed]. exact Ha.
  - (* leave M_j, run the callbacks: j is done *)
    match type of Et with thr s ?t0 = IRelMCbs ?jj :: _ =>
      assert (Hdj : fdone (rs s jj) = true) by (destruct (SH t0) as [_ B]; rewrite Et in B; exact B);
      eapply (invrg_gen s _ t0); [exact I|simpl; reflexivity|exact DM| |intros job' Hj; left; exact Hj|] end.
    + intros j' Hn Hc. simpl in Hn |- *. unfold upd. destruct (Nat.eqb j' j0) eqn:Ej; [|exact Hc].
      apply Nat.eqb_eq in Ej. subst j'. congruence.
    + intros j' Ha. left. rewrite Et. arm_simpl Ha. cbn [armed]. exact Ha.
  - (* add_done_callback on a done future: the callback runs at once *)
    eapply (invrg_gen s _ t); [exact I|simpl; reflexivity|exact DM|intros j' _ Hc; exact Hc|intros job' Hj; left; exact Hj|].
    intros j' Ha. arm_simpl Ha. rewrite Et. destruct c; cbn [armed]; [|left; exact Ha].
    destruct (Nat.eqb j' j0) eqn:Ej; [|left; exact Ha]. apply Nat.eqb_eq in Ej. subst j'. right. simpl. congruence.
  - (* add_done_callback: registered *)
    eapply (invrg_gen s _ t); [exact I|simpl; reflexivity|exact DM| |intros job' Hj; left; exact Hj|].
    + intros j' _ Hc. simpl. unfold upd. destruct (Nat.eqb j' j0) eqn:Ej; [|exact Hc].
      apply Nat.eqb_eq in Ej. subst j'. apply in_or_app. left. exact Hc.
    + intros j' Ha. arm_simpl Ha. rewrite Et. destruct c; cbn [armed]; [|left; exact Ha].
      destruct (Nat.eqb j' j0) eqn:Ej; [|left; exact Ha]. apply Nat.eqb_eq in Ej. subst j'. right. intros _.
      simpl. rewrite upd_same. apply in_or_app. right. left. reflexivity.
  - destruct I as [G1 G2]. split; [exact G1|exact G2].
Qed.

Lemma invrg_reach s : reachable_from step init s -> InvRG s.
Proof.
  apply invariant_rule_r; [split; [intros job []|intros t j Ha; discriminate Ha]|]. intros s0 e s1 R I H.
  apply step_split in H. destruct H as [_ H]. eapply invrg_step0; [| |exact H].
  - intros t. exact (invsh_reach s0 R t).
  - destruct I as [G1 G2]. split; [exact G1|exact G2].
Qed.
