(* C07 / Throttle, token invariant (part 5: at the delegate.submit instants).

   While the hand-over thread has committed jobs not yet handed to the delegate (committed s > 0), the running
   count is within the limit of its current iteration (hlim): the limit changes only at the top of an
   iteration, where nothing is committed, the count grows only by the hand-over thread's own increments, each
   of which fits (Throttle_Inv.a_bound).  Together with the token invariant: at every delegate.submit the
   futures in flight including the new one are within the limit. *)
From Coq Require Import ZArith List Bool Arith Lia.
From RecordUpdate Require Import RecordSet.
From ME Require Import Base.Machine Base.Fut Base.GenPrelude Gen.ThrottleGen Model.Throttle
  Proofs.Throttle_Spec Proofs.Throttle_Inv Proofs.Throttle_Fifo Proofs.Throttle_L1 Proofs.Throttle_L2 Proofs.Throttle_L3
  Proofs.Throttle_Tok Proofs.Throttle_TokA Proofs.Throttle_TokB Proofs.Throttle_TokC.
Import ListNotations RecordSetNotations.
Local Open Scope Z_scope.

(* ---- shape: the count callable is consulted by the hand-over thread only as its whole program ------- *)
Definition ncnt (i : instr) : bool := match i with ICount CH => false | _ => true end.
Definition ncs (p : list instr) : bool := forallb ncnt p.
Definition Kshape (s : st) : Prop := thr s H = [ICount CH] \/ ncs (thr s H) = true.
Definition Jlim (s : st) : Prop := 0 < Q s -> forall t, hlim s = Some t -> running s <= t.
Record InvJ (s : st) : Prop := { j_shape : Kshape s; j_lim : Jlim s }.

Lemma ncs_app p q : ncs (p ++ q) = ncs p && ncs q.
Proof. apply forallb_app. Qed.
Lemma ncs_norm s p : ncs p = true -> ncs (norm s p) = true.
Proof.
  destruct p as [|i r]; [auto|]. destruct i; auto. simpl. intros Hx.
  destruct (qu s); [exact Hx|]. destruct (hlim s); exact Hx.
Qed.
Lemma ncs_map_dsubmit l : ncs (map IDSubmit l) = true.
Proof. induction l; simpl; auto. Qed.
Lemma ncs_cb_prog d l : ncs (flat_map (cb_prog d) l) = true.
Proof. induction l as [|c l IH]; [reflexivity|]. simpl. rewrite ncs_app, IH. destruct c; reflexivity. Qed.
Lemma ncs_cb_prog_held d l : ncs (flat_map (cb_prog_held d) l) = true.
Proof. induction l as [|c l IH]; [reflexivity|]. simpl. rewrite ncs_app, IH. destruct c; reflexivity. Qed.
Lemma ncs_setres j o : ncs (setres_prog j o) = true.
Proof. destruct o; reflexivity. Qed.
Lemma ncs_tl p : ncs p = true -> ncs (tl p) = true.
Proof. destruct p as [|i r]; simpl; [auto|]. intros Hx. apply andb_prop in Hx. tauto. Qed.
Lemma shape_rest s i rest : Kshape s -> thr s H = i :: rest -> ncs rest = true.
Proof.
  intros [Hk|Hk] Et; rewrite Et in Hk.
  - inversion Hk. reflexivity.
  - simpl in Hk. apply andb_prop in Hk. tauto.
Qed.
Lemma shape_count s rest : Kshape s -> thr s H = ICount CH :: rest -> rest = [].
Proof.
  intros [Hk|Hk] Et; rewrite Et in Hk; [inversion Hk; reflexivity|]. simpl in Hk. discriminate.
Qed.

(* outside its X-section the hand-over thread does not own X (lock typing, Throttle_L2/L3) *)
Definition outsec (i : instr) : bool := match i with IHStart | IClear | ICount CH => true | _ => false end.
Lemma invL_notown s i rest : InvL s -> thr s H = i :: rest -> outsec i = true -> owned (xown s) H = false.
Proof.
  intros IL Et Ho. destruct (IL H) as [h [Hown Hw]]. rewrite (o_x _ _ _ Hown). rewrite Et in Hw.
  unfold wfh in Hw. cbn [run] in Hw.
  destruct i; try discriminate Ho; destruct h; try reflexivity; try discriminate Hw.
  all: destruct k; try discriminate Ho; discriminate Hw.
Qed.

(* ---- generic preservation ---------------------------------------------------------------------------- *)
Lemma invJ_log s h : InvJ s -> InvJ (log s h).
Proof. intros [J1 J2]. constructor; auto. Qed.

Lemma invJ_step s s' t p' :
  InvJ s -> (forall u, thr s' u = upd (thr s) t p' u) -> (t = H -> ncs p' = true) ->
  (0 < Q s' -> 0 < Q s) -> hlim s' = hlim s -> running s' <= running s -> InvJ s'.
Proof.
  intros [J1 J2] Hthr Hn HQ Eh Er. constructor.
  - unfold Kshape. rewrite Hthr. destruct (Nat.eq_dec t H) as [->|Hne].
    + right. rewrite upd_same. auto.
    + rewrite upd_other by (intro; apply Hne; auto). exact J1.
  - intros Hq lim El. rewrite Eh in El. specialize (J2 (HQ Hq) lim El). lia.
Qed.

Lemma invJ_set_m s s1 t p :
  InvJ s -> thr s1 = thr s -> running s1 = running s -> xown s1 = xown s -> hadm s1 = hadm s -> hlim s1 = hlim s ->
  q1 p = q1 (thr s t) -> q2 p = q2 (thr s t) -> (t = H -> ncs p = true) -> InvJ (set_prog s1 t p).
Proof.
  intros IJ E1 E2 E3 E4 E5 H1 H2 Hn.
  assert (Hthr : forall u, thr (set_prog s1 t p) u = upd (thr s) t (norm s1 p) u)
    by (intros u; unfold set_prog; simpl; rewrite E1; reflexivity).
  apply (invJ_step s _ t (norm s1 p)); auto.
  - intros E. apply ncs_norm. auto.
  - rewrite (Q_upd s (set_prog s1 t p) t (norm s1 p)); auto; [rewrite q1_norm; exact H1|rewrite q2_norm; exact H2].
  - unfold set_prog. simpl. lia.
Qed.
Lemma invJ_set s s1 t p :
  InvJ s -> thr s1 = thr s -> running s1 = running s -> xown s1 = xown s -> hadm s1 = hadm s -> hlim s1 = hlim s ->
  same_meas p (thr s t) -> (t = H -> ncs p = true) -> InvJ (set_prog s1 t p).
Proof.
  intros IJ E1 E2 E3 E4 E5 Hm Hn. apply (invJ_set_m s); auto; [apply (Hm wS good_wS)|apply (Hm wQ good_wQ)].
Qed.

Lemma neutral_same_meas pre : forallb neutral pre = true -> same_meas pre [].
Proof.
  intros Hp w Hg. induction pre as [|i r IH]; [reflexivity|]. simpl in Hp. apply andb_prop in Hp. destruct Hp as [A B].
  simpl. rewrite (Hg i A), (IH B). reflexivity.
Qed.

Lemma invJ_sub_check s s1 t v rest :
  InvJ s -> thr s1 = thr s -> running s1 = running s -> xown s1 = xown s -> hadm s1 = hadm s -> hlim s1 = hlim s ->
  same_meas rest (thr s t) -> (t = H -> ncs rest = true) -> InvJ (sub_check s1 t v rest).
Proof.
  intros IJ E1 E2 E3 E4 E5 Hm Hn. unfold sub_check.
  assert (Hp : forall pre, forallb neutral pre = true -> ncs pre = true ->
               same_meas (pre ++ rest) (thr s t) /\ (t = H -> ncs (pre ++ rest) = true)).
  { intros pre A B. split; [apply same_meas_app; [apply neutral_same_meas; exact A|exact Hm]|].
    intros E. rewrite ncs_app, B, (Hn E). reflexivity. }
  destruct (blk s1 && negb (shut s1)); [destruct (block_ready (qlen s1) v) as [[|]|]|];
    repeat apply invJ_log; apply (invJ_set s); auto;
    first [ apply (Hp enq_prog); reflexivity | apply (Hp [IWait 30 (WSub v)]); reflexivity
          | apply (Hp [IRelG; IRetRaise]); reflexivity ].
Qed.
Lemma invJ_after_wait s s1 t k rest :
  InvJ s -> thr s1 = thr s -> running s1 = running s -> xown s1 = xown s -> hadm s1 = hadm s -> hlim s1 = hlim s ->
  same_meas rest (thr s t) -> (t = H -> ncs rest = true) -> InvJ (after_wait s1 t k rest).
Proof.
  intros IJ E1 E2 E3 E4 E5 Hm Hn. destruct k; simpl.
  - apply (invJ_set s s1 t _ IJ E1 E2 E3 E4 E5).
    + intros w Hg. simpl. rewrite (Hg IClear eq_refl), (Hm w Hg). reflexivity.
    + intros E. simpl. auto.
  - apply (invJ_sub_check s); auto.
Qed.

(* top of an iteration: nothing committed, X not owned; the limit may change *)
Lemma invJ_start_iter s s1 :
  InvJ s -> thr s1 = thr s -> running s1 = running s -> xown s1 = xown s -> hadm s1 = hadm s ->
  owned (xown s) H = false -> InvJ (start_iter s1 H).
Proof.
  intros IJ E1 E2 E3 E4 Eo. unfold start_iter.
  assert (G : forall s2 i, xown s2 = xown s1 -> wS i = 0 -> (i = ICount CH \/ ncnt i = true) -> i <> ILoop ->
              InvJ (set_prog s2 H [i])).
  { intros s2 i Ex Hw Hc Hl. constructor.
    - assert (En : norm s2 [i] = [i]) by (destruct i; try reflexivity; contradiction Hl; reflexivity).
      unfold Kshape. change (thr (set_prog s2 H [i]) H) with (upd (thr s2) H (norm s2 [i]) H).
      rewrite upd_same, En. destruct Hc as [->|Hc]; [left; reflexivity|right; simpl; rewrite Hc; reflexivity].
    - intros Hq. exfalso. rewrite Q_set_prog_H, Ex, E3, Eo in Hq. unfold q1 in Hq. cbn [msum] in Hq. lia. }
  destruct (shut s1); [|destruct (dyn s1)]; apply G; try reflexivity; auto; discriminate.
Qed.

(* ---- tactics ---------------------------------------------------------------------------------------- *)
Ltac ncs_goal IJ :=
  let E := fresh "E" in let Hs := fresh "Hs" in
  intros E; try subst;
  match goal with Et : thr _ H = _ :: _ |- _ => pose proof (shape_rest _ _ _ (j_shape _ IJ) Et) as Hs end;
  simpl in Hs;
  rewrite ?ncs_app, ?ncs_setres, ?ncs_cb_prog, ?ncs_cb_prog_held, ?ncs_map_dsubmit; simpl;
  rewrite ?ncs_app, ?ncs_setres, ?Hs, ?(ncs_tl _ Hs); reflexivity.

Ltac jside IJ :=
  first [ exact IJ
        | assumption
        | reflexivity
        | solve [intros; reflexivity]
        | sm_goal
        | ncs_goal IJ ].
Ltac jfin IJ s :=
  repeat apply invJ_log;
  first [ apply (invJ_set s) | apply (invJ_sub_check s) | apply (invJ_after_wait s) ]; jside IJ.
Ltac jhandler IJ Hx s := brk Hx; inv_some Hx; jfin IJ s.

(* ---- events that leave the committed jobs, the limit and the counter alone ---------------------------- *)
Ltac idle_sm :=
  let w := fresh "w" in let Hg := fresh "Hg" in
  intros w Hg;
  match goal with E : idle _ _ && _ = true |- _ => apply andb_prop in E; destruct E as [E _] | _ => idtac end;
  match goal with E : idle ?s ?t = true |- _ => rewrite (idle_nil s t E) end;
  cbn [msum]; kill_w w Hg; lia.

Lemma do_call_submit_invJ s t s' : InvJ s -> do_call_submit s t = Some s' -> InvJ s'.
Proof. intros IJ Hx. unfold do_call_submit in Hx. brk Hx. inv_some Hx. apply (invJ_set s); try jside IJ. idle_sm. Qed.
Lemma do_call_shutdown_invJ s t w s' : InvJ s -> do_call_shutdown s t w = Some s' -> InvJ s'.
Proof. intros IJ Hx. unfold do_call_shutdown in Hx. brk Hx. inv_some Hx. apply (invJ_set s); try jside IJ. idle_sm. Qed.
Lemma do_call_cancel_invJ s t j s' : InvJ s -> do_call_cancel s t j = Some s' -> InvJ s'.
Proof. intros IJ Hx. unfold do_call_cancel in Hx. brk Hx. inv_some Hx. apply (invJ_set s); try jside IJ. idle_sm. Qed.
Lemma do_ret_invJ s t c s' : InvJ s -> do_ret s t c = Some s' -> InvJ s'.
Proof. intros IJ Hx. unfold do_ret in Hx. jhandler IJ Hx s. Qed.
Lemma do_acq_g_invJ s t s' : InvJ s -> do_acq_g s t = Some s' -> InvJ s'.
Proof. intros IJ Hx. unfold do_acq_g in Hx. jhandler IJ Hx s. Qed.
Lemma do_rel_g_invJ s t s' : InvJ s -> do_rel_g s t = Some s' -> InvJ s'.
Proof. intros IJ Hx. unfold do_rel_g in Hx. jhandler IJ Hx s. Qed.
Lemma do_xsec_invJ s t s' : InvJ s -> do_xsec s t = Some s' -> InvJ s'.
Proof. intros IJ Hx. unfold do_xsec in Hx. jhandler IJ Hx s. Qed.
Lemma do_rel_a_invJ s t s' : InvJ s -> do_rel_a s t = Some s' -> InvJ s'.
Proof. intros IJ Hx. unfold do_rel_a in Hx. jhandler IJ Hx s. Qed.
Lemma do_evset_invJ s t s' : InvJ s -> do_evset s t = Some s' -> InvJ s'.
Proof. intros IJ Hx. unfold do_evset in Hx. jhandler IJ Hx s. Qed.
Lemma do_dshutdown_invJ s t s' : InvJ s -> do_dshutdown s t = Some s' -> InvJ s'.
Proof. intros IJ Hx. unfold do_dshutdown in Hx. jhandler IJ Hx s. Qed.
Lemma do_acq_m_invJ s t j s' : InvJ s -> do_acq_m s t j = Some s' -> InvJ s'.
Proof. intros IJ Hx. unfold do_acq_m in Hx. jhandler IJ Hx s. Qed.
Lemma do_rel_m_invJ s t j s' : InvJ s -> do_rel_m s t j = Some s' -> InvJ s'.
Proof. intros IJ Hx. unfold do_rel_m in Hx. jhandler IJ Hx s. Qed.
Lemma do_wait_invJ s t r s' : InvJ s -> do_wait s t r = Some s' -> InvJ s'.
Proof. intros IJ Hx. unfold do_wait in Hx. jhandler IJ Hx s. Qed.
Lemma do_woke_invJ s t k s' : InvJ s -> do_woke s t k = Some s' -> InvJ s'.
Proof. intros IJ Hx. unfold do_woke in Hx. jhandler IJ Hx s. Qed.
Lemma do_fm_invJ s t op j p s' : InvJ s -> do_fm s t op j p = Some s' -> InvJ s'.
Proof. intros IJ Hx. unfold do_fm in Hx. jhandler IJ Hx s. Qed.
Lemma do_exit_invJ s s' : InvJ s -> do_exit s = Some s' -> InvJ s'.
Proof. intros IJ Hx. unfold do_exit in Hx. jhandler IJ Hx s. Qed.

Lemma thr_set_prog_H s1 p : thr (set_prog s1 H p) H = norm s1 p.
Proof. reflexivity. Qed.

(* ---- the remaining events ----------------------------------------------------------------------------- *)
Lemma do_new_invJ s b dy v s' : InvJ s -> do_new s b dy v = Some s' -> InvJ s'.
Proof.
  intros IJ Hx. unfold do_new in Hx. brk Hx. inv_some Hx.
  match goal with E : _ || _ = false |- _ => apply orb_false_elim in E; destruct E as [_ E]; apply negb_false_iff in E end.
  destruct (thr s H) eqn:Et; [|discriminate].
  apply (invJ_step s _ H [IHStart] IJ).
  - intros u. reflexivity.
  - reflexivity.
  - match goal with |- 0 < Q ?x -> _ => rewrite (Q_upd s x H [IHStart]) end; auto; try (rewrite Et; reflexivity); try (intros u; reflexivity).
  - reflexivity.
  - simpl. lia.
Qed.

Lemma do_hstart_invJ s s' : InvL s -> InvJ s -> do_hstart s = Some s' -> InvJ s'.
Proof.
  intros IL IJ Hx. unfold do_hstart in Hx. brk Hx. inv_some Hx.
  match goal with E : thr s H = _ |- _ => rename E into Et end.
  apply (invJ_start_iter s); auto. apply (invL_notown s _ _ IL Et). reflexivity.
Qed.
Lemma do_clear_invJ s t s' : InvL s -> InvJ s -> do_clear s t = Some s' -> InvJ s'.
Proof.
  intros IL IJ Hx. unfold do_clear in Hx. brk Hx. inv_some Hx.
  match goal with E : Nat.eqb _ H = true |- _ => apply Nat.eqb_eq in E; subst end.
  match goal with E : thr s H = _ |- _ => rename E into Et end.
  apply (invJ_start_iter s); auto. apply (invL_notown s _ _ IL Et). reflexivity.
Qed.

Lemma do_count_invJ s t a s' : InvL s -> InvJ s -> do_count s t a = Some s' -> InvJ s'.
Proof.
  intros IL IJ Hx. unfold do_count in Hx. brk Hx; inv_some Hx.
  - (* the hand-over thread obtains the limit of a new iteration: nothing is committed *)
    match goal with E : Nat.eqb _ H = true |- _ => apply Nat.eqb_eq in E; subst end.
    match goal with E : thr s H = _ |- _ => rename E into Et end.
    pose proof (shape_count s _ (j_shape _ IJ) Et) as Er. subst.
    pose proof (invL_notown s _ _ IL Et eq_refl) as Eo.
    constructor.
    + right. reflexivity.
    + intros Hq. exfalso. rewrite Q_set_prog_H in Hq. simpl (xown _) in Hq. rewrite Eo in Hq.
      unfold q1 in Hq. cbn [msum wS] in Hq. lia.
  - jfin IJ s.
Qed.

Lemma do_xacq_invJ s t s' : InvJ s -> do_xacq s t = Some s' -> InvJ s'.
Proof.
  intros IJ Hx. unfold do_xacq in Hx. brk Hx. inv_some Hx. t_is_H.
  constructor.
  - right. rewrite thr_set_prog_H. apply ncs_norm. reflexivity.
  - intros Hq. exfalso. rewrite Q_set_prog_H in Hq. simpl in Hq. unfold q2 in Hq. cbn [msum wQ] in Hq. lia.
Qed.

Lemma do_relx_invJ s t s' : InvA s -> InvJ s -> do_relx s t = Some s' -> InvJ s'.
Proof.
  intros IA IJ Hx. unfold do_relx in Hx. brk Hx. inv_some Hx. t_is_H.
  match goal with E : thr s H = _ |- _ => rename E into Et end.
  match goal with E : owned (xown s) H = true |- _ => rename E into Eo end.
  pose proof (a_shape _ IA) as Hs. rewrite Et in Hs. apply shape_tail in Hs; [|reflexivity]. apply clean_q2 in Hs.
  pose proof (shape_rest _ _ _ (j_shape _ IJ) Et) as Hn.
  match goal with |- InvJ (set_prog ?s1 H ?p') => apply (invJ_step s _ H (norm s1 p') IJ) end.
  - intros u. reflexivity.
  - intros _. apply ncs_norm. rewrite ncs_app, ncs_map_dsubmit. simpl. exact Hn.
  - rewrite Q_set_prog_H, Q_unfold, Et, Eo. simpl (xown _). simpl (hadm _). cbn [owned].
    unfold q1, q2 in *. rewrite !msum_app. fold (q1 (map IDSubmit (hadm s))). rewrite q1_map_dsubmit.
    cbn [msum wS wQ]. rewrite Hs. lia.
  - reflexivity.
  - simpl. lia.
Qed.

Lemma do_rcread_invJ s t x s' : InvJ s -> do_rcread s t x = Some s' -> InvJ s'.
Proof.
  intros IJ Hx. unfold do_rcread in Hx. brk Hx; inv_some Hx; try solve [jfin IJ s].
  match goal with E : thr s t = _ |- _ => rename E into Et end.
  apply (invJ_set_m s); try jside IJ; try (rewrite Et; unfold q1, q2; cbn [msum wS wQ]; lia).
Qed.

Lemma do_pop_invJ s t s' : InvJ s -> do_pop s t = Some s' -> InvJ s'.
Proof.
  intros IJ Hx. unfold do_pop in Hx. brk Hx. inv_some Hx. t_is_H.
  match goal with E : thr s H = _ |- _ => rename E into Et end.
  match goal with E : owned (xown s) H = true |- _ => rename E into Eo end.
  pose proof (shape_rest _ _ _ (j_shape _ IJ) Et) as Hn.
  apply invJ_log.
  match goal with |- InvJ (set_prog ?s1 H ?p') => apply (invJ_step s _ H (norm s1 p') IJ) end.
  - intros u. reflexivity.
  - intros _. apply ncs_norm. exact Hn.
  - rewrite Q_set_prog_H, Q_unfold, Et. simpl (xown _). simpl (hadm _). rewrite Eo.
    rewrite app_length, Nat2Z.inj_add. cbn [length]. unfold q1, q2. cbn [msum wS wQ]. lia.
  - reflexivity.
  - simpl. lia.
Qed.

Lemma do_acq_a_invJ s t s' : InvA s -> InvJ s -> do_acq_a s t = Some s' -> InvJ s'.
Proof.
  intros IA IJ Hx. unfold do_acq_a in Hx.
  destruct (negb (free (aown s))); [discriminate|].
  destruct (thr s t) as [|i rest] eqn:Et; [discriminate|]. destruct i; try discriminate. destruct k.
  - (* incr: fits under the limit of the iteration (a_bound) *)
    destruct (negb (Nat.eqb t H)) eqn:Eh; [discriminate|]. apply negb_false_iff, Nat.eqb_eq in Eh. subst t. inv_some Hx.
    pose proof (shape_rest _ _ _ (j_shape _ IJ) Et) as Hn.
    pose proof (a_bound _ IA) as Hb. rewrite Et in Hb. specialize (Hb eq_refl).
    apply invJ_log. constructor.
    + right. rewrite thr_set_prog_H. apply ncs_norm. exact Hn.
    + intros _ lim El. simpl in El. specialize (Hb lim El). simpl. lia.
  - (* decr *)
    destruct rest as [|i2 r2]; [discriminate|]. destruct i2; try discriminate.
    destruct r2 as [|i3 r3]; [discriminate|]. destruct i3; try discriminate. inv_some Hx.
    apply invJ_log.
    match goal with |- InvJ (set_prog ?s1 t ?p') => apply (invJ_step s _ t (norm s1 p') IJ) end.
    + intros u. reflexivity.
    + intros E. subst t. pose proof (shape_rest _ _ _ (j_shape _ IJ) Et) as Hn. exact Hn.
    + match goal with |- 0 < Q ?x -> _ => rewrite (Q_upd s x t (IRelA :: IEvSet :: r3)) end; auto; try (rewrite Et; reflexivity); try (intros u; reflexivity).
    + reflexivity.
    + simpl. lia.
Qed.

Lemma do_dsubmit_invJ s t d i s' : InvJ s -> do_dsubmit s t d i = Some s' -> InvJ s'.
Proof.
  intros IJ Hx. unfold do_dsubmit in Hx.
  destruct (thr s t) as [|i0 rest] eqn:Et; [discriminate|]. destruct i0; try discriminate.
  destruct (negb (Nat.eqb d (ndel s)) || negb (Nat.eqb t H) || owned (xown s) t) eqn:Eg; [discriminate|].
  apply orb_false_elim in Eg. destruct Eg as [Eg Eo]. apply orb_false_elim in Eg. destruct Eg as [Ed Eh].
  apply negb_false_iff, Nat.eqb_eq in Ed. apply negb_false_iff, Nat.eqb_eq in Eh. subst t d.
  inv_some Hx.
  pose proof (shape_rest _ _ _ (j_shape _ IJ) Et) as Hn.
  set (p' := IAddCb1 (ndel s) :: IAcqMSet j (Some (ndel s)) :: IRelM j :: IAddCb2 (ndel s) j :: rest).
  destruct (issome i); apply (invJ_step s _ H p' IJ); try reflexivity; try (simpl; lia);
    try (intros _; simpl; exact Hn);
    (unfold Q; simpl (xown _); simpl (hadm _); simpl (thr _); rewrite !upd_same, Et, Eo; unfold p', q1; cbn [msum wS]; lia).
Qed.

Lemma do_env_run_invJ s t d p s' : InvJ s -> do_env_run s t d p = Some s' -> InvJ s'.
Proof.
  intros IJ Hx. unfold do_env_run in Hx. brk Hx; inv_some Hx; auto.
  destruct IJ as [J1 J2]. constructor; auto.
Qed.
Lemma do_env_finish_invJ s t d p o s' : InvJ s -> do_env_finish s t d p o = Some s' -> InvJ s'.
Proof.
  intros IJ Hx. unfold do_env_finish in Hx. brk Hx; inv_some Hx; auto.
  split_and. match goal with E : idle s t = true |- _ => pose proof (idle_nil s t E) as Et; rename E into Ei end.
  apply invJ_log. apply (invJ_set_m s); try jside IJ.
  - rewrite Et. unfold q1. rewrite (msum_cb_prog wS d _ good_wS). reflexivity.
  - rewrite Et. unfold q2. rewrite (msum_cb_prog wQ d _ good_wQ). reflexivity.
  - intros _. apply ncs_cb_prog.
Qed.

Lemma do_fd_invJ s t op d p s' : InvJ s -> do_fd s t op d p = Some s' -> InvJ s'.
Proof.
  intros IJ Hx. unfold do_fd in Hx. brk Hx; inv_some Hx; try solve [jfin IJ s].
  - (* add_done_callback on a done future: the callback runs inline *)
    match goal with E : thr s t = _ |- _ => rename E into Et end.
    apply (invJ_set_m s); try jside IJ; try (rewrite Et; reflexivity).
  - (* ... on a future not yet done: registered *)
    match goal with E : thr s t = _ |- _ => rename E into Et end.
    apply (invJ_set_m s); try jside IJ; try (rewrite Et; reflexivity).
  - (* cancel() fires the callbacks *)
    match goal with E : thr s t = _ |- _ => rename E into Et end.
    apply invJ_log.
    match goal with |- InvJ (set_prog (clear_del ?x ?l) _ _) =>
      destruct (clear_del_frameK l x) as [A [B [C [D [E [F G]]]]]]; destruct (clear_del_frame l x) as [_ [_ [C2 _]]] end.
    apply (invJ_set_m s); rewrite ?A, ?C, ?D, ?E, ?C2; try reflexivity; try rewrite Et.
    + exact IJ.
    + unfold q1. rewrite msum_app, (msum_cb_prog_held wS _ _ good_wS). cbn [msum wS]. lia.
    + unfold q2. rewrite msum_app, (msum_cb_prog_held wQ _ _ good_wQ). cbn [msum wQ]. lia.
    + ncs_goal IJ.
Qed.

(* ---- the invariant holds in every reachable state ------------------------------------------------------ *)
Lemma step0_invJ s e s' : InvA s -> InvL s -> InvJ s -> step0 s e = Some s' -> InvJ s'.
Proof.
  intros IA IL IJ Hx. destruct e; cbn [step0] in Hx;
  [ eapply do_new_invJ | eapply (do_hstart_invJ s s' IL) | eapply do_exit_invJ | eapply do_call_submit_invJ
  | eapply do_call_cancel_invJ | eapply do_call_shutdown_invJ | eapply do_ret_invJ | eapply do_acq_g_invJ
  | eapply do_rel_g_invJ | eapply (do_count_invJ s t a s' IL) | eapply do_xsec_invJ | eapply do_xacq_invJ
  | eapply (do_relx_invJ s t s' IA) | eapply do_rcread_invJ | eapply do_pop_invJ | eapply (do_acq_a_invJ s t s' IA)
  | eapply do_rel_a_invJ | eapply do_evset_invJ | eapply do_wait_invJ | eapply do_woke_invJ
  | eapply (do_clear_invJ s t s' IL)
  | eapply do_dsubmit_invJ | eapply do_dshutdown_invJ | eapply do_acq_m_invJ | eapply do_rel_m_invJ
  | eapply do_fm_invJ | eapply do_fd_invJ | eapply do_env_run_invJ | eapply do_env_finish_invJ ]; eassumption.
Qed.

Lemma invJ_init : InvJ init.
Proof. constructor; [right; reflexivity|]. intros Hq. vm_compute in Hq. discriminate. Qed.

Theorem invJ_reachable s : reachable_from step init s -> InvJ s.
Proof.
  apply invariant_rule_r; [exact invJ_init|].
  intros s0 [ts e] s' Hr IJ Hx. unfold step in Hx. simpl in Hx.
  destruct (tick s0 ts) as [s1|] eqn:Et; [|discriminate].
  pose proof (invA_reachable s0 Hr) as IA. pose proof (invL_reachable s0 Hr) as IL.
  pose proof (tick_invA _ _ _ IA Et) as IA1.
  unfold tick in Et. destruct (Z.leb (clock s0) ts); inv_some Et.
  eapply step0_invJ; [exact IA1| | |exact Hx].
  - apply (invL_ext s0); auto.
  - destruct IJ as [J1 J2]. constructor; auto.
Qed.

(* while jobs are committed and not yet handed over, the running count is within the limit of the iteration *)
Theorem committed_within_limit_lemma s : reachable_from step init s ->
  0 < committed s -> forall t, hlim s = Some t -> running s <= t.
Proof. intros Hr. exact (j_lim _ (invJ_reachable s Hr)). Qed.

(* ---- (2) at the delegate.submit instants ---------------------------------------------------------------- *)
Lemma dsubmit_effect s ts tid d inl s' :
  step s (ts, EDSubmit tid d inl) = Some s' ->
  tid = H /\ d = ndel s /\ owned (xown s) H = false /\ running s' = running s /\ hlim s' = hlim s /\
  exists j rest, thr s H = IDSubmit j :: rest /\ In (HDSub j d ts) (hist s').
Proof.
  unfold step. simpl. unfold tick. destruct (Z.leb (clock s) ts); [|discriminate]. intros Hx.
  unfold do_dsubmit in Hx. simpl in Hx.
  destruct (thr s tid) as [|i0 rest] eqn:Et; [discriminate|]. destruct i0; try discriminate.
  destruct (negb (Nat.eqb d (ndel s)) || negb (Nat.eqb tid H) || owned (xown s) tid) eqn:Eg; [discriminate|].
  apply orb_false_elim in Eg. destruct Eg as [Eg Eo]. apply orb_false_elim in Eg. destruct Eg as [Ed Eh].
  apply negb_false_iff, Nat.eqb_eq in Ed. apply negb_false_iff, Nat.eqb_eq in Eh. subst tid d.
  inv_some Hx. repeat split; auto.
  - destruct (issome inl); reflexivity.
  - destruct (issome inl); reflexivity.
  - exists j, rest. split; [exact Et|]. destruct (issome inl); simpl; auto.
Qed.

(* whenever the hand-over thread performs delegate.submit under the limit Some t of its current iteration, the
   delegate futures in flight INCLUDING the new one (counted whether or not the delegate ran it inline) are
   within the limit -- before the call (inflight s + 1) and in the state after it *)
Theorem inflight_at_dsubmit_lemma s ts tid d inl s' :
  reachable_from step init s -> step s (ts, EDSubmit tid d inl) = Some s' ->
  forall t, hlim s = Some t -> inflight s + 1 <= t /\ inflight s' <= t.
Proof.
  intros Hr Hx t El.
  destruct (dsubmit_effect s ts tid d inl s' Hx) as [_ [_ [Eo [Er [_ [j [rest [Et _]]]]]]]].
  assert (Hq : 1 <= committed s).
  { unfold committed, Q. rewrite Eo, Et. unfold q1. cbn [msum wS]. pose proof (q1_nonneg rest) as P1. unfold q1 in P1. lia. }
  pose proof (committed_within_limit_lemma s Hr ltac:(lia) t El) as P2.
  pose proof (inflight_committed_lemma s Hr) as P3.
  assert (Hr' : reachable_from step init s') by (eapply reachable_step; eauto).
  pose proof (inflight_committed_lemma s' Hr') as P4. pose proof (committed_nonneg s') as P5.
  split; lia.
Qed.
