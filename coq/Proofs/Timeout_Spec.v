(* Specification lemmas about the kernels regenerated from timeout.py (Gen/TimeoutGen.v):
   _partition_jobs, the wait-time computation of _job_loop_iter, the deadline of submit_timeout. *)
From Coq Require Import List ZArith Bool Lia.
From ME Require Import Base.GenPrelude Gen.TimeoutGen.
Import ListNotations.
Local Open Scope Z_scope.

Definition keep_b (isdone : tjob -> bool) (now : Z) (j : tjob) : bool :=
  negb (isdone j) && negb (Z.ltb (tj_deadline j) now).
Definition ovd_b (isdone : tjob -> bool) (now : Z) (j : tjob) : bool :=
  negb (isdone j) && Z.ltb (tj_deadline j) now.

Lemma partition_loop_spec isdone now jobs : forall p o,
  partition_loop isdone now (p, o) jobs =
  (p ++ filter (keep_b isdone now) jobs, o ++ filter (ovd_b isdone now) jobs).
Proof.
  induction jobs as [|j r IH]; intros p o; simpl.
  - rewrite !app_nil_r. reflexivity.
  - unfold keep_b, ovd_b. destruct (isdone j); simpl.
    + apply IH.
    + destruct (Z.ltb (tj_deadline j) now); simpl; rewrite IH; unfold keep_b, ovd_b;
        rewrite <- app_assoc; reflexivity.
Qed.

(* the partition is two order-preserving filters of _jobs *)
Lemma partition_jobs_spec isdone now jobs :
  partition_jobs isdone now jobs = (filter (keep_b isdone now) jobs, filter (ovd_b isdone now) jobs).
Proof. unfold partition_jobs. rewrite partition_loop_spec. reflexivity. Qed.

(* never_early: a job is classified overdue only if its deadline is strictly before the clock
   reading and its future answered "not done" *)
Lemma partition_overdue isdone now jobs j :
  In j (snd (partition_jobs isdone now jobs)) <->
  In j jobs /\ isdone j = false /\ tj_deadline j < now.
Proof.
  rewrite partition_jobs_spec. simpl. rewrite filter_In. unfold ovd_b.
  rewrite andb_true_iff, negb_true_iff, Z.ltb_lt. tauto.
Qed.

Lemma partition_pending isdone now jobs j :
  In j (fst (partition_jobs isdone now jobs)) <->
  In j jobs /\ isdone j = false /\ now <= tj_deadline j.
Proof.
  rewrite partition_jobs_spec. simpl. rewrite filter_In. unfold keep_b.
  rewrite andb_true_iff, !negb_true_iff, Z.ltb_ge. tauto.
Qed.

(* nothing is lost: every job is discarded as done, kept, or overdue *)
Lemma partition_complete isdone now jobs j :
  In j jobs -> isdone j = true \/ In j (fst (partition_jobs isdone now jobs)) \/ In j (snd (partition_jobs isdone now jobs)).
Proof.
  intros H. rewrite partition_pending, partition_overdue.
  destruct (isdone j); [left; reflexivity|right].
  destruct (Z.lt_ge_cases (tj_deadline j) now); [right|left]; auto.
Qed.

(* pending keeps the order of _jobs (it is a filter); NoDup is inherited *)
Lemma filter_map_NoDup {A B} (f : A -> B) (g : A -> bool) l : NoDup (map f l) -> NoDup (map f (filter g l)).
Proof.
  induction l as [|a r IH]; simpl; intros H; [constructor|].
  inversion H as [|x l' Hn Hr]; subst. destruct (g a); simpl; auto.
  constructor; auto. intros Hin. apply Hn. apply in_map_iff in Hin. destruct Hin as [y [E Hy]].
  apply filter_In in Hy. apply in_map_iff. exists y. tauto.
Qed.

Lemma partition_disjoint isdone now jobs j :
  In j (fst (partition_jobs isdone now jobs)) -> In j (snd (partition_jobs isdone now jobs)) -> False.
Proof. rewrite partition_pending, partition_overdue. lia. Qed.

(* wait_time = max(min deadline - now, 0) *)
Lemma fold_min_le l : forall a, fold_left Z.min l a <= a /\ (forall x, In x l -> fold_left Z.min l a <= x) /\
                              In (fold_left Z.min l a) (a :: l).
Proof.
  induction l as [|y r IH]; intros a; simpl.
  - split; [lia|]. split; [tauto|]. left; reflexivity.
  - destruct (IH (Z.min a y)) as [H1 [H2 H3]]. split; [lia|]. split.
    + intros x [E|Hin]; [subst; lia|auto].
    + destruct H3 as [E|Hin]; [|right; right; exact Hin].
      rewrite <- E. destruct (Z.min_spec a y) as [[_ M]|[_ M]]; rewrite M; auto.
Qed.

Lemma wait_time_nil now : wait_time [] now = None.
Proof. reflexivity. Qed.

Lemma wait_time_spec pend now : pend <> [] ->
  exists m, wait_time pend now = Some (Z.max (m - now) 0) /\
            In m (map tj_deadline pend) /\ forall j, In j pend -> m <= tj_deadline j.
Proof.
  destruct pend as [|j r]; [congruence|]. intros _. simpl.
  destruct (fold_min_le (map tj_deadline r) (tj_deadline j)) as [H1 [H2 H3]].
  eexists. split; [reflexivity|]. split.
  - destruct H3 as [E|Hin]; [left; exact E|right; exact Hin].
  - intros k [E|Hin]; [subst; exact H1|]. apply H2. apply in_map. exact Hin.
Qed.

(* the job thread never plans to sleep past the earliest pending deadline *)
Lemma wait_time_le pend now tau j : wait_time pend now = Some tau -> In j pend ->
  0 <= tau /\ (now + tau <= Z.max now (tj_deadline j)).
Proof.
  intros H Hin. destruct (wait_time_spec pend now) as [m [E [_ Hm]]].
  { intros ->. inversion Hin. }
  rewrite E in H. inversion H; subst. specialize (Hm j Hin). lia.
Qed.

Lemma deadline_of_spec now tmo : deadline_of now tmo = now + tmo.
Proof. reflexivity. Qed.
