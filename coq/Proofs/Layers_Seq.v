(* Layers, part 7: closure of well-formedness under sequencing (a thread performs any finite sequence of API calls, a
   worker loop any finite number of iterations) and under calls made with nothing held; the no-deadlock theorem for
   threads that each perform an arbitrary sequence of calls drawn from well-formed shapes. *)
From Coq Require Import List Bool Arith Lia.
From ME Require Import Base.Machine Model.Locks Proofs.Locks_Proofs Model.Layers Proofs.Layers_Exec Proofs.Layers_Wf
  Proofs.Layers_Deadlock.
Import ListNotations.

Lemma ofold_app {A B} (f : A -> B -> option A) a l1 l2 :
  ofold f a (l1 ++ l2) = match ofold f a l1 with Some a' => ofold f a' l2 | None => None end.
Proof.
  revert a. induction l1 as [|b r IH]; intros a; simpl; auto.
  destruct (f a b); auto.
Qed.

Lemma wf_layers_iff K i0 p : wf_layers K i0 p = true <-> wfs K (repeat [] i0) [] p = Some [].
Proof.
  unfold wf_layers. destruct (wfs K (repeat [] i0) [] p) as [[|z zs]|]; split; intros H; try discriminate; auto.
Qed.

Lemma wf_layers_nil K i0 : wf_layers K i0 [] = true.
Proof. reflexivity. Qed.

Lemma wf_layers_app K i0 p q :
  wf_layers K i0 p = true -> wf_layers K i0 q = true -> wf_layers K i0 (p ++ q) = true.
Proof.
  rewrite !wf_layers_iff. unfold wfs. intros Hp Hq. rewrite ofold_app, Hp. exact Hq.
Qed.

Lemma wf_layers_concat K i0 ps :
  Forall (fun p => wf_layers K i0 p = true) ps -> wf_layers K i0 (concat ps) = true.
Proof.
  induction ps as [|p r IH]; intros H; simpl; [reflexivity|].
  inversion H; subst. apply wf_layers_app; auto.
Qed.

(* a call into the layer below / a callback of the layer above made with nothing held *)
Lemma wf_layers_down K i0 b : wf_layers K (S i0) b = true -> wf_layers K i0 [LDown b] = true.
Proof.
  rewrite !wf_layers_iff. unfold wfs. intros H. simpl in H. simpl. rewrite H. reflexivity.
Qed.

Lemma wf_layers_up K i0 b : wf_layers K i0 b = true -> wf_layers K (S i0) [LUp b] = true.
Proof.
  rewrite !wf_layers_iff. unfold wfs. intros H. simpl. rewrite H. reflexivity.
Qed.

Lemma wf_closure : forall K i0,
  (forall p q, wf_layers K i0 p = true -> wf_layers K i0 q = true -> wf_layers K i0 (p ++ q) = true) /\
  (forall ps, Forall (fun p => wf_layers K i0 p = true) ps -> wf_layers K i0 (concat ps) = true) /\
  (forall b, wf_layers K (S i0) b = true -> wf_layers K i0 [LDown b] = true) /\
  (forall b, wf_layers K i0 b = true -> wf_layers K (S i0) [LUp b] = true).
Proof.
  intros K i0. split; [exact (wf_layers_app K i0)|]. split; [exact (wf_layers_concat K i0)|].
  split; [exact (wf_layers_down K i0)|exact (wf_layers_up K i0)].
Qed.

Lemma flat_app K i p q : flat K i (p ++ q) = flat K i p ++ flat K i q.
Proof. unfold flat. apply flat_map_app. Qed.

(* every thread t starts at layer start t and performs the sequence calls t of API calls / loop iterations *)
Definition seq_thread (start : nat -> nat) (calls : nat -> list (list lp)) (t : nat) : lthread :=
  {| l_start := start t; l_prog := concat (calls t) |}.

Theorem layers_calls_no_deadlock : forall K n start (calls : nat -> list (list lp)),
  (forall t, Forall (fun p => wf_layers K (start t) p = true) (calls t)) ->
  (forall t, n <= t -> calls t = []) ->
  forall s, reachable_from step (init_of (fun t => lflat K (seq_thread start calls t))) s ->
  (exists t, prog s t <> []) -> exists t s', step s t = Some s'.
Proof.
  intros K n start calls Hw Hn. apply (layers_no_deadlock K n).
  - intros t. unfold lwf. simpl. apply wf_layers_concat. apply Hw.
  - intros t Ht. simpl. rewrite (Hn t Ht). reflexivity.
Qed.
