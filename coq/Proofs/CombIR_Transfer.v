(* Consequences of the lockstep theorem: every trace of the generated combinator programs is accepted by Comb.v (and,
   apart from the constructor call of Zipper over no inputs, conversely); reachable IR states are related to reachable
   Comb states; the lemmas behind Props/C14_ir.v and Props/C15_ir.v. *)
From Coq Require Import List Arith Bool Lia PeanoNat ZArith.
From ME Require Import Base.Machine Base.Fut Base.GenPrelude Gen.BoolGen Gen.ZipGen Model.Comb Model.CombIR Gen.CombSkel
  Proofs.Comb_Spec Proofs.Comb_I0 Proofs.Comb_Inv Proofs.Comb_N5 Proofs.Comb_N6 Proofs.Comb_N7
  Proofs.CombIR_Sim Proofs.CombIR_Sim2 Proofs.CombIR_Sim4 Proofs.CombIR_Sim9.
Import ListNotations.

Definition ireachable (s : ist) : Prop := reachable_from gstep iinit s.
Definition iquiescent (s : ist) : Prop := forall t, ithr s t = [].
Definition no_zip0 (es : list ev) : Prop := Forall (fun e => ~ is_zip0 e) es.

(* ---- traces ------------------------------------------------------------------------------------------------------ *)
(* forward simulation: every trace the generated programs can produce is accepted by Comb.v ... *)
Lemma run_forward es : forall s cs, R s cs -> forall s', run gstep s es = Some s' ->
  exists cs', run step cs es = Some cs' /\ R s' cs'.
Proof.
  induction es as [|e r IH]; intros s cs HR s' H; simpl in *.
  - inversion H; subst. exists cs. split; [reflexivity|exact HR].
  - pose proof (lockstep s cs e HR) as L. unfold lock_ok in L.
    destruct (gstep s e) as [s1|]; [|discriminate H]. destruct (step cs e) as [cs1|]; [|contradiction].
    apply (IH s1 cs1 L s' H).
Qed.

(* ... and backward: apart from Zipper over no inputs, Comb.v accepts nothing the generated programs cannot do *)
Lemma run_backward es : no_zip0 es -> forall s cs, R s cs -> forall cs', run step cs es = Some cs' ->
  exists s', run gstep s es = Some s' /\ R s' cs'.
Proof.
  induction es as [|e r IH]; intros Hz s cs HR cs' H; simpl in *.
  - inversion H; subst. exists s. split; [reflexivity|exact HR].
  - inversion Hz as [|? ? Hz1 Hz2]; subst.
    pose proof (lockstep s cs e HR) as L. unfold lock_ok in L.
    destruct (step cs e) as [cs1|]; [|discriminate H]. destruct (gstep s e) as [s1|]; [|contradiction].
    apply (IH Hz2 s1 cs1 L cs' H).
Qed.

Theorem ir_trace_accepted_by_comb : forall es s, run gstep iinit es = Some s ->
  exists cs, run step init es = Some cs /\ R s cs.
Proof. intros es s H. exact (run_forward es iinit init R_init s H). Qed.

Theorem comb_trace_accepted_by_ir : forall es cs, no_zip0 es -> run step init es = Some cs ->
  exists s, run gstep iinit es = Some s /\ R s cs.
Proof. intros es cs Hz H. exact (run_backward es Hz iinit init R_init cs H). Qed.

Theorem ir_comb_trace_equivalent : forall es, no_zip0 es -> (run gstep iinit es <> None <-> run step init es <> None).
Proof.
  intros es Hz. split; intros H.
  - destruct (run gstep iinit es) as [s|] eqn:E; [|congruence].
    destruct (ir_trace_accepted_by_comb es s E) as (cs & -> & _). discriminate.
  - destruct (run step init es) as [cs|] eqn:E; [|congruence].
    destruct (comb_trace_accepted_by_ir es cs Hz E) as (s & -> & _). discriminate.
Qed.

(* same verdict on every wire trace, first rejected event included *)
Lemma first_reject_lockstep es : no_zip0 es -> forall s cs n, R s cs -> first_reject gstep s es n = first_reject step cs es n.
Proof.
  induction es as [|e r IH]; intros Hz s cs n HR; simpl; [reflexivity|].
  inversion Hz as [|? ? Hz1 Hz2]; subst.
  pose proof (lockstep s cs e HR) as L. unfold lock_ok in L.
  destruct (gstep s e) as [s1|]; destruct (step cs e) as [cs1|]; try contradiction; [apply IH; assumption|reflexivity].
Qed.
Theorem iaccept_eq_accept : forall ls,
  (forall es, decode_all ls = Some es -> no_zip0 es) -> iaccept gstep ls = accept ls.
Proof.
  intros ls Hz. unfold iaccept, accept. destruct (decode_all ls) as [es|]; [|reflexivity].
  rewrite (first_reject_lockstep es (Hz es eq_refl) iinit init 0 R_init). reflexivity.
Qed.

(* the one trace on which they differ: Comb.v's constructor call of Zipper over no inputs (f_zip() never makes it) *)
Theorem zip_no_inputs_only_in_comb : forall t,
  gstep iinit (ECallNew t KZip []) = None /\ step init (ECallNew t KZip []) <> None.
Proof. intros t. split; [reflexivity|discriminate]. Qed.

Lemma ireachable_related : forall s, ireachable s -> exists cs, reachable cs /\ R s cs.
Proof.
  intros s [es H]. destruct (ir_trace_accepted_by_comb es s H) as [cs [Hc HR]]. exists cs. split; [exists es; exact Hc|exact HR].
Qed.

(* every invariant of Comb.v holds of the Comb state related to a reachable IR state *)
Theorem ir_invariant_transfer : forall (P : st -> Prop),
  (forall cs, reachable cs -> P cs) -> forall s, ireachable s -> exists cs, R s cs /\ P cs.
Proof.
  intros P HP s Hs. destruct (ireachable_related s Hs) as [cs [Hc HR]]. exists cs. split; [exact HR|apply HP; exact Hc].
Qed.

(* ---- reading a related Comb state off the IR state ------------------------------------------------------------------ *)
Lemma R_core s cs : R s cs -> Rcore (sh s) cs.
Proof. intros [H _]. exact H. Qed.

Lemma R_quiescent s cs : R s cs -> iquiescent s -> quiescent cs.
Proof.
  intros [Hc [H0|[[t0 H1]|H2]]] Hq t.
  - destruct H0 as (_ & _ & _ & Hidle). apply Hidle.
  - destruct H1 as (_ & _ & _ & _ & _ & Hi0 & _ & _). rewrite (Hq t0) in Hi0. discriminate Hi0.
  - destruct H2 as (_ & _ & _ & Hall). destruct (Hall t) as [HRt _]. apply (R_thr_idle _ _ _ HRt). apply Hq.
Qed.

(* transfer tactic: open the relation, rewrite the IR fields into Comb.st's *)
Ltac to_comb Hs cs Hreach HR Hc :=
  destruct (ireachable_related _ Hs) as [cs [Hreach HR]]; pose proof (R_core _ _ HR) as Hc.

Ltac rw_core Hc :=
  rewrite ?(rc_ck _ _ Hc), ?(rc_inputs _ _ Hc), ?(rc_slots _ _ Hc), ?(rc_cdone _ _ Hc), ?(rc_lown _ _ Hc), ?(rc_os _ _ Hc),
          ?(rc_oout _ _ Hc), ?(rc_ocbs _ _ Hc), ?(rc_es _ _ Hc), ?(rc_eout _ _ Hc), ?(rc_ecbs _ _ Hc), ?(rc_built _ _ Hc),
          ?(rc_ready _ _ Hc), ?(rc_hist _ _ Hc), ?(Rcore_oc _ _ _ Hc), ?(Rcore_input _ _ _ Hc) in *.

(* ---- C14 / C15 / C02 / C03 / C06 on the generated program -------------------------------------------------------------- *)
Lemma ir_or_fold : forall s, ireachable s -> ick (sh s) = KOr -> forall l1 d o l2,
  ihist (sh s) = l1 ++ HDecide d o :: l2 ->
  exists v l2', l2 = HSeen d v :: l2' /\
    (truthy_view v = true \/ forall x, In x (iinputs (sh s)) -> seen_in l2 x) /\
    (forall d' v', In (HSeen d' v') l2' -> truthy_view v' = false) /\
    o = (if v_cancelled v then None else Some (ioc_of (sh s) d)).
Proof. intros s Hs. to_comb Hs cs Hreach HR Hc. intros. rw_core Hc. eapply comb_or_fold; eauto. Qed.

Lemma ir_and_fold : forall s, ireachable s -> ick (sh s) = KAnd -> forall l1 d o l2,
  ihist (sh s) = l1 ++ HDecide d o :: l2 ->
  exists v l2', l2 = HSeen d v :: l2' /\
    (falsy_view v = true \/ forall x, In x (iinputs (sh s)) -> seen_in l2 x) /\
    (forall d' v', In (HSeen d' v') l2' -> falsy_view v' = false) /\
    o = (if v_cancelled v then None else Some (ioc_of (sh s) d)).
Proof. intros s Hs. to_comb Hs cs Hreach HR Hc. intros. rw_core Hc. eapply comb_and_fold; eauto. Qed.

Lemma ir_decide_once : forall s, ireachable s -> forall l1 d o l2,
  ihist (sh s) = l1 ++ HDecide d o :: l2 -> forall d' o', ~ In (HDecide d' o') l2 /\ ~ In (HDecide d' o') l1.
Proof. intros s Hs. to_comb Hs cs Hreach HR Hc. intros. rw_core Hc. eapply comb_decide_once; eauto. Qed.

Lemma ir_output_is_decider : forall s, ireachable s -> ick (sh s) <> KZip -> forall o,
  In (HSetOut o) (ihist (sh s)) -> exists d, In (HDecide d (Some o)) (ihist (sh s)).
Proof. intros s Hs. to_comb Hs cs Hreach HR Hc. intros. rw_core Hc. eapply comb_output_is_decider; eauto. Qed.

Lemma ir_losers_cancelled : forall s, ireachable s -> iquiescent s -> ibuilt (sh s) = true ->
  fdone (ios (sh s)) = true ->
  ~ In out_id (iinputs (sh s)) -> length (iinputs (sh s)) <= notify_id ->
  (ick (sh s) <> KZip \/ fcancelled (ios (sh s)) = true) ->
  forall x, In x (iinputs (sh s)) -> fdone (ies (sh s) x) = true.
Proof.
  intros s Hs Hq. to_comb Hs cs Hreach HR Hc. pose proof (R_quiescent _ _ HR Hq) as Hqc. intros. rw_core Hc.
  eapply comb_losers_cancelled_alt; eauto.
Qed.

Lemma ir_zip_positions : forall s, ireachable s -> ick (sh s) = KZip -> forall o, In (HSetOut o) (ihist (sh s)) ->
  (exists e, o = Err e) \/
  forall i, i < length (iinputs (sh s)) -> exists v t, islots (sh s) i = Some v /\ ieout (sh s) (iinput_at (sh s) i) = Some (Ok v t).
Proof.
  intros s Hs. to_comb Hs cs Hreach HR Hc. intros Hk o Ho. rw_core Hc.
  destruct (comb_zip_positions cs Hreach Hk o Ho) as [He|Hp]; [left; exact He|right].
  intros i Hi. rewrite (Rcore_input _ _ _ Hc). apply Hp. exact Hi.
Qed.

Lemma ir_zip_first_failure : forall s, ireachable s -> ick (sh s) = KZip -> forall l1 d o l2,
  ihist (sh s) = l1 ++ HDecide d o :: l2 ->
  exists v l2', (l2 = HSeen d v :: l2' \/
                 (v_cancelled v = false /\ v_failed v = false /\ exists i w, l2 = HStore i w :: HSeen d v :: l2')) /\
    (forall d' v', In (HSeen d' v') l2' -> v_cancelled v' = false /\ v_failed v' = false) /\
    o = (if v_cancelled v then None else Some (ioc_of (sh s) d)).
Proof. intros s Hs. to_comb Hs cs Hreach HR Hc. intros. rw_core Hc. eapply comb_zip_first_failure_alt; eauto. Qed.

Lemma ir_output_once : forall s, ireachable s -> forall l1 o l2,
  ihist (sh s) = l1 ++ HSetOut o :: l2 -> (forall o', ~ In (HSetOut o') l2) /\ ~ In HOutCancelled l2 /\ ~ In HOutCancelled l1.
Proof. intros s Hs. to_comb Hs cs Hreach HR Hc. intros. rw_core Hc. eapply comb_output_once; eauto. Qed.

Lemma ir_cancel_notified : forall s, ireachable s -> iquiescent s -> ios (sh s) <> Cancelled.
Proof.
  intros s Hs Hq. to_comb Hs cs Hreach HR Hc. pose proof (R_quiescent _ _ HR Hq) as Hqc. intros. rw_core Hc.
  eapply comb_cancel_notified; eauto.
Qed.

(* no thread of the generated programs dies: the IR machine has no such step, and where Comb.v would accept a
   thread death the IR state is not related *)
Lemma ir_no_thread_dies : forall s, ireachable s -> forall t, gstep s (EDied t) = None.
Proof. intros s _ t. reflexivity. Qed.

Lemma ir_no_lost : forall s, ireachable s -> iquiescent s -> ibuilt (sh s) = true -> iinputs (sh s) <> [] ->
  (forall x, In x (iinputs (sh s)) -> fdone (ies (sh s) x) = true) ->
  ios (sh s) = Finished \/ ios (sh s) = CancelledNotified.
Proof.
  intros s Hs Hq. to_comb Hs cs Hreach HR Hc. pose proof (R_quiescent _ _ HR Hq) as Hqc. intros. rw_core Hc.
  eapply no_lost; eauto.
Qed.

Lemma ir_pending_output_pending_input : forall s, ireachable s -> iquiescent s -> ibuilt (sh s) = true ->
  iinputs (sh s) <> [] -> fdone (ios (sh s)) = false -> exists x, In x (iinputs (sh s)) /\ fdone (ies (sh s) x) = false.
Proof.
  intros s Hs Hq. to_comb Hs cs Hreach HR Hc. pose proof (R_quiescent _ _ HR Hq) as Hqc. intros. rw_core Hc.
  eapply pending_output_pending_input; eauto.
Qed.

Lemma ir_all_done_decided : forall s, ireachable s -> iquiescent s -> ibuilt (sh s) = true ->
  iinputs (sh s) <> [] -> (forall x, In x (iinputs (sh s)) -> fdone (ies (sh s) x) = true) ->
  exists d o, In (HDecide d o) (ihist (sh s)).
Proof.
  intros s Hs Hq. to_comb Hs cs Hreach HR Hc. pose proof (R_quiescent _ _ HR Hq) as Hqc. intros. rw_core Hc.
  eapply all_done_decided_hist; eauto.
Qed.

Lemma ir_decided_output_done : forall s, ireachable s -> iquiescent s ->
  forall d o, In (HDecide d o) (ihist (sh s)) -> ios (sh s) = Finished \/ ios (sh s) = CancelledNotified.
Proof.
  intros s Hs Hq. to_comb Hs cs Hreach HR Hc. pose proof (R_quiescent _ _ HR Hq) as Hqc. intros. rw_core Hc.
  eapply decided_output_done; eauto.
Qed.

Lemma ir_decision_published : forall s, ireachable s -> iquiescent s ->
  forall d o, In (HDecide d o) (ihist (sh s)) ->
  (ios (sh s) = CancelledNotified /\ In HOutCancelled (ihist (sh s))) \/
  (ios (sh s) = Finished /\ exists o', In (HSetOut o') (ihist (sh s)) /\ ioout (sh s) = Some o' /\ (ick (sh s) <> KZip -> o = Some o')).
Proof.
  intros s Hs Hq. to_comb Hs cs Hreach HR Hc. pose proof (R_quiescent _ _ HR Hq) as Hqc. intros. rw_core Hc.
  eapply decision_published; eauto.
Qed.

Lemma ir_pending_iff_undecided : forall s, ireachable s -> iquiescent s ->
  (fdone (ios (sh s)) = false <-> (forall d o, ~ In (HDecide d o) (ihist (sh s))) /\ ~ In HOutCancelled (ihist (sh s))).
Proof.
  intros s Hs Hq. to_comb Hs cs Hreach HR Hc. pose proof (R_quiescent _ _ HR Hq) as Hqc. intros. rw_core Hc.
  eapply pending_iff_undecided; eauto.
Qed.

Lemma ir_done_means_decided : forall s, ireachable s -> fdone (ios (sh s)) = true ->
  (exists d o, In (HDecide d o) (ihist (sh s))) \/ In HOutCancelled (ihist (sh s)).
Proof. intros s Hs. to_comb Hs cs Hreach HR Hc. intros. rw_core Hc. eapply done_means_decided; eauto. Qed.

Lemma ir_cancel_fans_out : forall s, ireachable s -> iquiescent s -> length (iinputs (sh s)) <= notify_id ->
  forall l1 l2, ihist (sh s) = l1 ++ HOutCancelled :: l2 ->
  forall x, In x (iinputs (sh s)) -> exists pre, In (HCancelReq x pre) l1.
Proof.
  intros s Hs Hq. to_comb Hs cs Hreach HR Hc. pose proof (R_quiescent _ _ HR Hq) as Hqc. intros. rw_core Hc.
  eapply cancel_fans_out; eauto.
Qed.

Lemma ir_cancel_fans_out_effect : forall s, ireachable s -> iquiescent s -> length (iinputs (sh s)) <= notify_id ->
  forall l1 l2, ihist (sh s) = l1 ++ HOutCancelled :: l2 ->
  forall x, In x (iinputs (sh s)) -> exists pre, In (HCancelReq x pre) l1 /\
    (pre = Pending -> ies (sh s) x = Cancelled) /\ (pre <> Pending -> fdone pre = true /\ ies (sh s) x = pre).
Proof.
  intros s Hs Hq. to_comb Hs cs Hreach HR Hc. pose proof (R_quiescent _ _ HR Hq) as Hqc. intros. rw_core Hc.
  eapply cancel_fans_out_effect; eauto.
Qed.

Lemma ir_out_cancelled_split : forall s, ireachable s -> forall l1 l2,
  ihist (sh s) = l1 ++ HOutCancelled :: l2 ->
  fcancelled (ios (sh s)) = true /\ (forall o, ~ In (HSetOut o) l1) /\ (forall o, ~ In (HSetOut o) l2).
Proof. intros s Hs. to_comb Hs cs Hreach HR Hc. intros. rw_core Hc. eapply out_cancelled_split; eauto. Qed.

(* out.cancel() = True *)
Lemma ir_cancel_true_cancelled : forall s t s1, ireachable s -> gstep s (ERet t 2) = Some s1 ->
  fcancelled (ios (sh s)) = true /\ ios (sh s1) = ios (sh s) /\ ihist (sh s1) = ihist (sh s).
Proof.
  intros s t s1 Hs H. to_comb Hs cs Hreach HR Hc.
  pose proof (lockstep s cs (ERet t 2) HR) as L. unfold lock_ok in L. rewrite H in L.
  destruct (step cs (ERet t 2)) as [cs1|] eqn:E; [|contradiction].
  pose proof (R_core _ _ L) as Hc1.
  destruct (cancel_true_cancelled cs t cs1 Hreach E) as (H1 & H2 & H3).
  rewrite (rc_os _ _ Hc), (rc_os _ _ Hc1), (rc_hist _ _ Hc), (rc_hist _ _ Hc1). auto.
Qed.

Lemma ir_cancel_true_stays : forall s t s1, ireachable s -> gstep s (ERet t 2) = Some s1 ->
  forall evs s', run gstep s1 evs = Some s' ->
  fcancelled (ios (sh s')) = true /\ In HOutCancelled (ihist (sh s')) /\ forall o, ~ In (HSetOut o) (ihist (sh s')).
Proof.
  intros s t s1 Hs H evs s' Hrun. to_comb Hs cs Hreach HR Hc.
  pose proof (lockstep s cs (ERet t 2) HR) as L. unfold lock_ok in L. rewrite H in L.
  destruct (step cs (ERet t 2)) as [cs1|] eqn:E; [|contradiction].
  destruct (run_forward evs s1 cs1 L s' Hrun) as (cs' & Hrun' & HR').
  pose proof (R_core _ _ HR') as Hc'.
  rewrite (rc_os _ _ Hc'), (rc_hist _ _ Hc').
  exact (cancel_true_stays cs t cs1 Hreach E evs cs' Hrun').
Qed.

(* the single-input shortcut of the generated wrappers: f_or(f) / f_and(f) run no visible operation, construct
   nothing, and return f itself *)
Lemma single_input_returns_it : forall h f lv,
  iinputs h = [f] ->
  gsrun FUEL h (map IS or_wrapper_prog ++ [KRet]) lv = (h, [KRet], set_ret lv (RIn f)) /\
  gsrun FUEL h (map IS and_wrapper_prog ++ [KRet]) lv = (h, [KRet], set_ret lv (RIn f)).
Proof.
  intros h f lv Hin. unfold gsrun, FUEL. simpl. rewrite Hin. simpl. unfold iinput_at. rewrite Hin. simpl. split; reflexivity.
Qed.
(* f_zip() constructs nothing either *)
Lemma zip_no_input_constructs_nothing : forall h lv,
  iinputs h = [] ->
  gsrun FUEL h (map IS zip_wrapper_prog ++ [KRet]) lv = (h, [KRet], set_ret lv RUnit).
Proof. intros h lv Hin. unfold gsrun, FUEL. simpl. rewrite Hin. simpl. reflexivity. Qed.
