(* C03 / C12 for the Poll machine, part 8: why a poll future can be done.
   InvK: a poll future is done only if it was registered for polling (R: a yield, a raising poll call, a cancel()
   after registration), or its delegate is cancelled (C: cancel() before registration), or its delegate failed (F).
   [kprog] justifies, along every program, each pending operation that can make a future done.  Consequence:
   _register_poll never appends a descriptor for a future that is already done. *)
From Coq Require Import ZArith List Bool Arith Lia.
From RecordUpdate Require Import RecordSet.
From ME Require Import Base.Machine Base.Fut Base.GenPrelude Model.Poll Proofs.Poll_Inv Proofs.Poll_Prov
     Proofs.Poll_Raise Proofs.Poll_NoDup Proofs.Poll_N1 Proofs.Poll_N2 Proofs.Poll_N3 Proofs.Poll_N4.
Import ListNotations RecordSetNotations.

Definition Rh (h : list hev) (j : nat) : Prop := 1 <= nreg j h.
Definition Cd (dsf : nat -> fstate) (j : nat) : Prop := fcancelled (dsf j) = true.
Definition Fh (h : list hev) (j : nat) : Prop := exists e ts, In (HDDone j (Err e) ts) h.

Fixpoint kprog (N : nat) (R C F : nat -> Prop) (p : list instr) : Prop :=
  match p with
  | [] => True
  | IXAcqReg j _ :: r => kprog N (fun k => k = j \/ R k) C F r
  | IAcqMClr j :: r => R j /\ kprog N R C F r
  | IFCancel j :: r | ICancelFnQ j :: r | IUserCancelFn j _ :: r => (R j \/ C j) /\ kprog N R C F r
  | IDoneS j _ :: r | IFSetRes j _ :: r | IDoneX j _ :: r | IFSetExc j _ :: r => (R j \/ F j) /\ kprog N R C F r
  | ICancelled j :: r | IDoneC j :: r | IDCancel j :: r => j < N /\ kprog N R C F r
  | _ :: r => kprog N R C F r
  end.

Lemma kprog_mono N N' (R R' C C' F F' : nat -> Prop) p :
  N <= N' -> (forall k, R k -> R' k) -> (forall k, C k -> C' k) -> (forall k, F k -> F' k) ->
  kprog N R C F p -> kprog N' R' C' F' p.
Proof.
  intros HN. revert R R'. induction p as [|i r IH]; intros R R' HR HC HF; simpl; [auto|].
  destruct i; try (apply IH; assumption);
    try (intros [H1 H2]; split; [|eapply IH; eauto]; first [lia | apply HR, H1 | destruct H1; [left; auto|right; auto]]).
  apply IH; auto. intros k [Hk|Hk]; [left; exact Hk|right; apply HR, Hk].
Qed.

Lemma kprog_cancel_cont N R C F s j r :
  kprog N R C F (ICancelFnQ j :: r) -> kprog N R C F (cancel_cont s j ++ r).
Proof.
  simpl. intros [H1 H2]. unfold cancel_cont, cancel_no, cancel_ok.
  destruct (negb (pexec s j)); [exact H2|].
  destruct (negb (hascfn s)); [simpl; auto|]. destruct (lookup j (descs s)); simpl; auto.
Qed.
Lemma kprog_norm N R C F s p : kprog N R C F p -> kprog N R C F (norm s p).
Proof. destruct p as [|i r]; [auto|]. destruct i; auto. apply kprog_cancel_cont. Qed.
Lemma kprog_raise N (R C F : nat -> Prop) e (sn : list (nat * nat)) :
  (forall j, In j (map fst sn) -> R j) -> kprog N R C F (flat_map (fun p => exc_prog (fst p) e) sn).
Proof.
  induction sn as [|p r IH]; simpl; intros H; [exact I|]. split; [left; apply H; left; reflexivity|].
  apply IH. intros j Hj. apply H. right. exact Hj.
Qed.

Lemma Rh_cons x h j : Rh h j -> Rh (x :: h) j.
Proof. unfold Rh. pose proof (nreg_tail x j h). lia. Qed.
Lemma Fh_cons x h j : Fh h j -> Fh (x :: h) j.
Proof. intros [e [ts H]]. exists e, ts. right. exact H. Qed.
Lemma Rh_reg j v ts h : Rh (HReg j v ts :: h) j.
Proof. unfold Rh. simpl. rewrite Nat.eqb_refl. lia. Qed.

Lemma lookup_some_in j l : issome (lookup j l) = true -> In j (map fst l).
Proof.
  destruct (lookup j l) eqn:E; [|discriminate]. intros _. apply lookup_in in E.
  apply in_map_iff. exists (j, n). auto.
Qed.

Lemma fsrnc_done_back s n b : f_srnc s = Some (n, b) -> fdone n = true -> fdone s = true.
Proof. destruct s; simpl; intros H; inversion H; subst; simpl; congruence. Qed.
Lemma fcancel_false_done_back s n : f_cancel s = (n, false) -> fdone n = true -> fdone s = true.
Proof. destruct s; simpl; intros H; inversion H; subst; simpl; congruence. Qed.

Record InvK (s : st) : Prop := {
  k_prog : forall t, kprog (nfut s) (Rh (hist s)) (Cd (ds s)) (Fh (hist s)) (thr s t);
  k_done : forall j, fdone (ps s j) = true -> Rh (hist s) j \/ Cd (ds s) j \/ Fh (hist s) j;
  k_pdel : forall j, j < nfut s -> pdel s j = false -> Rh (hist s) j;
  k_fresh : forall j, nfut s <= j -> ds s j = Pending;
  k_body : forall l, pmode s = PCall l \/ pmode s = PBody l -> forall j, In j (map fst l) -> Rh (hist s) j
}.

Lemma invk_init : InvK init.
Proof.
  constructor; simpl; intros; try exact I; try discriminate; try lia; auto.
  destruct H; discriminate.
Qed.

Ltac Rmono := repeat apply Rh_cons; assumption.
Ltac Fmono := repeat apply Fh_cons; assumption.
Ltac Cmono If :=
  unfold Cd in *; simpl in *; unfold upd in *; bools; cleanup; fst_eqs;
  solve [ assumption | congruence
        | eapply fcancel_keeps; eassumption | eapply fsrnc_keeps; eassumption
        | eapply fcancel_true_cancelled; eassumption
        | exfalso; match goal with E : f_set _ = Some _ |- _ => apply fset_not_cancelled in E; congruence end
        | exfalso; match goal with Hc : fcancelled (ds ?s (nfut ?s)) = true |- _ =>
                     rewrite (If (nfut s) (le_n _)) in Hc; discriminate Hc end ].

Ltac kmono If :=
  eapply kprog_mono; [| | | |eassumption];
  [ simpl; lia
  | let k := fresh "k" in let Hk := fresh "Hk" in intros k Hk;
    first [ Rmono | destruct Hk as [->|Hk]; [apply Rh_reg|Rmono] | right; Rmono | right; assumption ]
  | let k := fresh "k" in let Hk := fresh "Hk" in intros k Hk; Cmono If
  | let k := fresh "k" in let Hk := fresh "Hk" in intros k Hk; Fmono ].

Ltac jsolve If :=
  (* a justification in the new state from the facts at hand *)
  first [ lia
        | assumption
        | Rmono
        | left; solve [ Rmono | left; reflexivity | apply Rh_reg ]
        | right; solve [ Fmono | Cmono If ]
        | match goal with Hj : _ \/ _ |- _ => destruct Hj as [Hj|Hj]; [left; Rmono | right; first [Fmono | Cmono If]] end ].

Ltac gK_prog Ip If Ipd Ib I5 :=
  let t0 := fresh "t0" in intros t0; pose proof (Ip t0) as Hc0;
  try match goal with
  | E : thr ?s ?t = _ |- _ =>
      let Hc := fresh "Hc" in pose proof (Ip t) as Hc; rewrite E in Hc; simpl in Hc
  end;
  try match goal with |- context [upd (thr _) ?t _ t0] =>
    destruct (Nat.eq_dec t0 t) as [Heq|Hne];
    [ subst t0; rewrite (upd_same _ t); try apply kprog_norm; try apply kprog_cancel_cont
    | rewrite (upd_other _ t _ t0) by assumption ]
  end;
  try match goal with |- context [yield_prog _ ?o] => destruct o end;
  try match goal with |- context [if ?c then [IXDereg _] else []] => destruct c end;
  simpl;
  repeat match goal with H : _ /\ _ |- _ => destruct H end;
  repeat match goal with |- _ /\ _ => split end;
  try solve [ exact I
            | jsolve If
            | kmono If
            | apply kprog_raise; intros; repeat apply Rh_cons; eapply Ib; eauto
            | (* yield: the future is in the snapshot *)
              left; repeat apply Rh_cons; eapply Ib; [eauto|];
              match goal with E : _ && issome (lookup _ _) = true |- _ =>
                apply andb_prop in E; destruct E as [_ E]; apply lookup_some_in in E; exact E end
            | (* cancel() after registration *)
              left; repeat apply Rh_cons; apply Ipd; [lia|assumption]
            | (* failed delegate *)
              right; match goal with E : dout ?s ?d = Some (Err ?e) |- _ =>
                       destruct (i5_dout _ I5 _ _ E) as [tsx Hx]; exists e, tsx; simpl; auto end
            | match goal with E : Nat.ltb _ _ = true |- _ => apply Nat.ltb_lt in E; simpl; lia end ].

Ltac gK_done Ip Id If :=
  let j0 := fresh "j0" in let Hd := fresh "Hd" in
  try match goal with
  | E : thr ?s ?t = _ |- _ =>
      let Hc := fresh "Hc" in pose proof (Ip t) as Hc; rewrite E in Hc; simpl in Hc
  end;
  intros j0 Hd; pose proof (Id j0) as Hd0; split_j j0;
  repeat match goal with H : _ /\ _ |- _ => destruct H end;
  try solve [ match goal with Hj : _ \/ _ |- _ => destruct Hj as [Hj|Hj] end;
              [ left; Rmono | first [ right; right; Fmono | right; left; Cmono If ] ]
            | match type of Hd0 with ?A -> _ =>
                assert (Hd1 : A)
                  by first [ assumption
                           | eapply fsrnc_done_back; eassumption
                           | eapply fcancel_false_done_back; eassumption ];
                let Hq := fresh "Hq" in
                destruct (Hd0 Hd1) as [Hq|[Hq|Hq]];
                [ left; Rmono | right; left; Cmono If | right; right; Fmono ] end ].

Ltac gK_pdel Ip Ipd :=
  let j0 := fresh "j0" in let Hl := fresh "Hl" in let Hx := fresh "Hx" in
  try match goal with
  | E : thr ?s ?t = _ |- _ =>
      let Hc := fresh "Hc" in pose proof (Ip t) as Hc; rewrite E in Hc; simpl in Hc
  end;
  intros j0 Hl Hx; pose proof (Ipd j0) as Hp0; split_j j0;
  repeat match goal with H : _ /\ _ |- _ => destruct H end;
  try solve [ discriminate | Rmono | repeat apply Rh_cons; apply Hp0; [lia|assumption] ].

Ltac gK_fresh Ip If :=
  let j0 := fresh "j0" in let Hl := fresh "Hl" in
  try match goal with
  | E : thr ?s ?t = _ |- _ =>
      let Hc := fresh "Hc" in pose proof (Ip t) as Hc; rewrite E in Hc; simpl in Hc
  end;
  fst_eqs;
  intros j0 Hl; pose proof (If j0) as Hf0; split_j j0;
  repeat match goal with H : _ /\ _ |- _ => destruct H end;
  repeat match goal with E : Nat.ltb _ _ = true |- _ => apply Nat.ltb_lt in E end;
  try solve [ apply Hf0; lia | exfalso; lia ].

Ltac gK_body Ib I3 :=
  let l0 := fresh "l0" in let Hm := fresh "Hm" in let j0 := fresh "j0" in let Hj := fresh "Hj" in
  intros l0 Hm j0 Hj;
  try solve [ destruct Hm; discriminate
            | repeat apply Rh_cons; eapply Ib; eauto
            | repeat apply Rh_cons; eapply Ib; [|exact Hj]; destruct Hm as [Hm|Hm]; inversion Hm; subst; eauto
            | (* the snapshot *)
              destruct Hm as [Hm|Hm]; inversion Hm; subst; apply Rh_cons; unfold Rh;
              apply in_descs_nreg; rewrite <- (i3_descs _ I3); exact Hj ].

Ltac invk_fin Ip Id Ipd If Ib I3 I5 :=
  eqb_facts; constructor; simpl in *;
  [ try solve [gK_prog Ip If Ipd Ib I5] | try solve [gK_done Ip Id If] | try solve [gK_pdel Ip Ipd]
  | try solve [gK_fresh Ip If] | try solve [gK_body Ib I3] ].

Lemma invk_step s e s' : Inv3 s -> Inv5 s -> InvK s -> step s e = Some s' -> InvK s'.
Proof.
  destruct e as [ts e]. intros I3 I5 I H. apply step_inv in H. destruct H as [s1 [Ht H]].
  assert (I1 : Inv3 s1 /\ Inv5 s1 /\ InvK s1).
  { apply tick_inv in Ht. destruct Ht as [[-> _]|[-> _]]; [auto|].
    split; [destruct I3; constructor; simpl; auto|]. split; [destruct I5; constructor; simpl; auto|].
    destruct I; constructor; simpl; auto. }
  clear I I3 I5 Ht s. destruct I1 as [I3 [I5 [Ip Id Ipd If Ib]]].
  apply step0_inv in H. destruct H as [[c [d [Hev [_ Hs']]]]|[_ [H|[H|H]]]].
  - subst. constructor; simpl; auto.
  - open1 H; norm_eqs; invk_fin Ip Id Ipd If Ib I3 I5.
  - open2 H; norm_eqs; invk_fin Ip Id Ipd If Ib I3 I5.
  - open3 H; norm_eqs; invk_fin Ip Id Ipd If Ib I3 I5.
Qed.
