(* PATH CONFORMANCE of the method bodies regenerated from retry.py / common.py (Gen/RetrySkel.v) with the programs of
   the hand-written machine Model/Retry.v: for every method, the set of paths through the generated term (atoms
   performed, after dropping the atoms the machine does not represent and the outcomes it excludes - both lists are in
   Model/RetryIR.v) EQUALS the set of paths the machine's control-flow table `mcont` generates from the entry program
   of that API call / loop iteration / callback, each instruction replaced by the atoms it stands for (`atoms_of`).
   `mcont` is what Retry.step0 does: Proofs/RetryIR_Step.v.  Every lemma is a kernel computation. *)
From Coq Require Import List Bool.
Import ListNotations.
From ME Require Import Model.Retry Model.RetryIR Gen.RetrySkel.

(* ---- API calls ------------------------------------------------------------------------------------- *)
(* RetryExecutor.submit_retry  ~  ECallSubmit: [IXAppend0; IEvSet; IRet] *)
Lemma conf_submit_retry : conforms (paths_api submit_retry_prog) [OXAppend0; OEvSet; ORet] = true.
Proof. vm_compute. reflexivity. Qed.

(* _Future.cancel -> RetryFuture._me_cancel -> RetryExecutor._cancel  ~  ECallCancel: [IAcqM j; ICancelled j] *)
Lemma conf_cancel : conforms (paths_api future_cancel_prog) [OAcqM; OCancelled] = true.
Proof. vm_compute. reflexivity. Qed.

(* _Future.add_done_callback  ~  ECallAddCb: [IAcqM j; IDoneA j c] *)
Lemma conf_add_done_callback : conforms (paths_api future_add_done_callback_prog) [OAcqM; ODoneA] = true.
Proof. vm_compute. reflexivity. Qed.

(* ---- the submit thread --------------------------------------------------------------------------------- *)
(* one iteration of _submit_loop (with _submit_wait, _pop_job, copy_future, _submit_now)  ~  the worker with an empty
   program: EXSec and what follows *)
Lemma conf_submit_loop_iter : conforms (paths_in [] submit_loop_iter_prog) [OXNext] = true.
Proof. vm_compute. reflexivity. Qed.

(* ---- callbacks ------------------------------------------------------------------------------------------- *)
(* RetryExecutor._delegate_callback (with eval_policy, _retry, copy_future, _pop_job)  ~  [IDCbDone d; ICatch] *)
Lemma conf_delegate_callback : conforms (paths_in [] delegate_callback_prog) [ODCbDone; OCatch] = true.
Proof. vm_compute. reflexivity. Qed.

(* RetryFuture._clear_executor  ~  CbClear: [IAcqM j; IRelM j] *)
Lemma conf_clear_executor : conforms (paths_in [] clear_executor_prog) [OAcqM; ORelM] = true.
Proof. vm_compute. reflexivity. Qed.

(* ---- internal methods, each against the instruction sequence that stands for it ---------------------------- *)
Lemma conf_wake_thread : conforms (paths_in [] wake_thread_prog) [OEvSet] = true.
Proof. vm_compute. reflexivity. Qed.
Lemma conf_pop_job : conforms (paths_in [] pop_job_prog) [OXPop] = true.
Proof. vm_compute. reflexivity. Qed.
Lemma conf_retry : conforms (paths_in [] retry_prog) [OXRetry; OEvSet] = true.
Proof. vm_compute. reflexivity. Qed.
Lemma conf_submit_now : conforms (paths_in [] submit_now_prog) [OAcqM; OXAcqPop] = true.
Proof. vm_compute. reflexivity. Qed.
(* RetryFuture.set_result / set_exception inside try_set_result / copy_future_exception  ~  finalize_prog without its IXPop *)
Lemma conf_set_result : conforms (paths_in [] [STry [SCall [] set_result_prog] false []]) [OAcqM; OFSet; ORelMCbs] = true.
Proof. vm_compute. reflexivity. Qed.
Lemma conf_set_exception : conforms (paths_in [] [STry [SCall [] set_exception_prog] false []]) [OAcqM; OFSet; ORelMCbs] = true.
Proof. vm_compute. reflexivity. Qed.
(* _submit_wait: wait, THEN clear *)
Lemma conf_submit_wait timed : conforms (paths_in [] (submit_wait_prog timed)) [OWWait timed] = true.
Proof. destruct timed; vm_compute; reflexivity. Qed.
(* copy_future(delegate_future, job.future): the finalisation *)
Lemma conf_copy_future_cur : conforms (paths_in [] (copy_future_prog RD)) [OAcqM; OFSet; ORelMCbs] = true.
Proof. vm_compute. reflexivity. Qed.

(* ---- the constructor: what the machine folds into IXAppend0 (rdel := None, rcbs := [CbClear]) ----------------- *)
Lemma retry_future_init_path :
  paths_in [] retry_future_init_prog =
  [[AtAct ZSuperInit OU; AtAct ZClearDelegate OU; AtAct ZSetExecutor OU; AtAct ZAddCbClearExecutor OU]].
Proof. vm_compute. reflexivity. Qed.

(* ---- outside the machine's alphabet (no instruction of Retry.v stands for them): recorded as path sets ----------- *)
(* RetryExecutor.shutdown: the flag is closed BEFORE the wake-up, the delegate is shut down after it *)
Lemma shutdown_paths :
  paths_in [] shutdown_prog =
  [ [AtAct ZGateClose (OB true); AtAct AEvSet OU; AtAct ADShutdown OU; AtTest TWaitArg true; AtAct AJoin OU];
    [AtAct ZGateClose (OB true); AtAct AEvSet OU; AtAct ADShutdown OU; AtTest TWaitArg false];
    [AtAct ZGateClose (OB false)] ].
Proof. vm_compute. reflexivity. Qed.
(* RetryFuture.running: every read happens under the future's lock *)
Lemma running_paths_locked :
  forallb (fun p => match p with AtAcq LM :: _ => true | _ => false end) (paths_api running_prog) = true.
Proof. vm_compute. reflexivity. Qed.

(* ---- non-vacuity: the path sets are not empty, never out of fuel, and the comparison can fail ------------------------ *)
Example path_counts :
  (length (paths_api future_cancel_prog), length (mpaths FUEL [OAcqM; OCancelled]),
   length (paths_in [] submit_loop_iter_prog), length (mpaths FUEL [OXNext]),
   length (paths_in [] delegate_callback_prog), length (mpaths FUEL [ODCbDone; OCatch])) = (13, 10, 18, 16, 37, 24).
Proof. vm_compute. reflexivity. Qed.
Example no_fuel_exhaustion :
  forallb (forallb (fun a => negb (atom_eqb a AtFuel)))
    (paths_api future_cancel_prog ++ paths_in [] submit_loop_iter_prog ++ paths_in [] delegate_callback_prog ++
     mpaths FUEL [OAcqM; OCancelled] ++ mpaths FUEL [OXNext] ++ mpaths FUEL [ODCbDone; OCatch]) = true.
Proof. vm_compute. reflexivity. Qed.
(* seeded C06-m1 by hand: _submit_now without the future's lock does not conform *)
Example submit_now_without_future_lock_refuted :
  conforms (paths_in [] (match submit_now_prog with SWith LM b :: r => b ++ r | p => p end)) [OAcqM; OXAcqPop] = false.
Proof. vm_compute. reflexivity. Qed.
(* clear before wait does not conform *)
Example clear_before_wait_refuted :
  conforms (paths_in [] (rev (submit_wait_prog false))) [OWWait false] = false.
Proof. vm_compute. reflexivity. Qed.
