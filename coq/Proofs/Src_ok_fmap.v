(* source facts of more_executors/_impl/futures/map.py: what the translator finds now is what the models were written against *)
From Coq Require Import List String.
From ME Require Import Gen.Src_fmap Model.SrcExpected.
Lemma src_fmap_ok : Src_fmap.facts = expected_fmap.
Proof. reflexivity. Qed.
