(* I9a: position tokens (the handle_done registration of each input position) and their accounting. *)
From Coq Require Import List Arith Bool Lia PeanoNat ZArith.
From ME Require Import Base.Machine Base.Fut Base.GenPrelude Gen.BoolGen Gen.ZipGen Model.Comb Proofs.Comb_Spec.
From ME Require Import Proofs.Comb_I0 Proofs.Comb_I4.
Import ListNotations.

Definition istok (i : nat) (x : instr) : bool :=
  match x with IAddCbIn j | IAcqL j _ | ICancelledQ j _ => Nat.eqb j i | _ => false end.
Definition tokc (i : nat) (p : list instr) : nat := length (filter (istok i) p).
Definition ecnt (i : nat) (l : list nat) : nat := length (filter (fun j => Nat.eqb j i) l).

Lemma tokc_app i p q : tokc i (p ++ q) = tokc i p + tokc i q.
Proof. unfold tokc. rewrite filter_app, app_length. reflexivity. Qed.
Lemma tokc_cons i x p : tokc i (x :: p) = (if istok i x then 1 else 0) + tokc i p.
Proof. unfold tokc. simpl. destruct (istok i x); reflexivity. Qed.
Lemma ecnt_app i p q : ecnt i (p ++ q) = ecnt i p + ecnt i q.
Proof. unfold ecnt. rewrite filter_app, app_length. reflexivity. Qed.

Lemma tokc_norm i b p : tokc i (norm b p) <= tokc i p.
Proof.
  revert b. induction p as [|x r IH]; intros b; simpl.
  - destruct b; simpl; auto.
  - pose proof (IH true) as IHt. pose proof (IH false) as IHf.
    rewrite (tokc_cons i x r).
    destruct x; simpl istok; cbv iota; try (destruct b; [lia|rewrite tokc_cons; simpl istok; cbv iota; lia]); lia.
Qed.

Lemma tokc_in_fires i s d r : tokc i (in_fires s d r) = ecnt i (ecbs s d) + tokc i r.
Proof.
  unfold in_fires. rewrite tokc_app. f_equal. induction (ecbs s d) as [|j l IH]; simpl; auto.
  rewrite tokc_cons. simpl istok. rewrite tokc_cons. simpl istok. unfold ecnt in *. simpl.
  destruct (Nat.eqb j i); simpl; lia.
Qed.
Lemma tokc_out_fires i s r : tokc i (out_fires s r) = tokc i r.
Proof.
  unfold out_fires. rewrite tokc_app. induction (ocbs s) as [|j l IH]; simpl; auto.
  rewrite tokc_app. destruct (Nat.eqb j notify_id); simpl; lia.
Qed.
Lemma tokc_cancels i l : tokc i (map cancel_instr l) = 0.
Proof.
  induction l as [|x l IH]; simpl; auto. rewrite tokc_cons, IH. unfold cancel_instr.
  destruct (Nat.eqb x out_id); reflexivity.
Qed.
Lemma tokc_retb i b l : tokc i (retb_fix b l) = tokc i l.
Proof. destruct l as [|x r]; simpl; auto. destruct x; reflexivity. Qed.

Lemma tokc_ctor i n a :
  tokc i (flat_map (fun j => [IAddCbOut j; IAddCbIn j]) (seq a n)) <= 1 /\
  (i < a -> tokc i (flat_map (fun j => [IAddCbOut j; IAddCbIn j]) (seq a n)) = 0).
Proof.
  revert a. induction n as [|n IH]; intros a; simpl; [split; auto|].
  destruct (IH (S a)) as [A B]. rewrite !tokc_cons. simpl istok.
  destruct (Nat.eqb a i) eqn:E.
  - apply Nat.eqb_eq in E. subst. rewrite B by lia. split; lia.
  - apply Nat.eqb_neq in E. split; [lia|]. intros. rewrite B by lia. reflexivity.
Qed.

Definition Acc (i : nat) (s s' : st) (a : nat) : Prop :=
  let T := tokc i (thr s a) in let T' := tokc i (thr s' a) in
  let E := fun d => ecnt i (ecbs s d) in let E' := fun d => ecnt i (ecbs s' d) in
  ((forall d, E' d = E d) /\ T' <= T)
  \/ (exists d, 1 <= T /\ T' + 1 <= T /\ E' d = E d + 1 /\ forall d', d' <> d -> E' d' = E d')
  \/ (exists d, E' d = 0 /\ (forall d', d' <> d -> E' d' = E d') /\ T' <= T + E d)
  \/ (built s = false /\ T' <= 1 /\ forall d, E' d = E d).

Ltac tok_simp :=
  rewrite ?tokc_cons, ?tokc_app, ?tokc_in_fires, ?tokc_out_fires, ?tokc_cancels, ?tokc_retb; simpl istok; cbv iota.
Ltac tok_crunch Hn :=
  repeat (revert Hn; tok_simp; intros Hn);
  repeat match goal with |- context [if ?c then _ else _] => destruct c end;
  repeat match goal with Hq : context [if ?c then _ else _] |- _ => destruct c end; simpl in *; try lia.

Lemma tok_account s e s' i : step s e = Some s' -> Acc i s s' (actor e).
Proof.
  intros H. unfold Acc. destruct e; simpl actor; step_inv H;
  try (rewrite ?thr_log, thr_set_same); fold_retb;
  try match goal with |- context [tokc i (norm false ?P)] =>
    let Hn := fresh "Hn" in pose proof (tokc_norm i false P) as Hn; revert Hn;
    generalize (tokc i (norm false P)); intros T' Hn end;
  rewrite ?Heql; simpl ecbs.
  all: try solve [left; split; [reflexivity|]; tok_crunch Hn].
  - (* ECallNew *) right. right. right. clean. split; auto. split; auto.
    revert Hn. tok_simp. pose proof (tokc_ctor i (length ins) 0) as [A _]. change (tokc i [IRet]) with 0. lia.
  - (* register *)
    destruct (Nat.eqb i1 i) eqn:E.
    + right. left. exists d. revert Hn. tok_simp. rewrite E. intros Hn. repeat split; try lia.
      * rewrite upd_same, ecnt_app. unfold ecnt at 2. simpl. rewrite E. reflexivity.
      * intros d' Hd. rewrite upd_other; auto.
    + left. split; [|tok_crunch Hn; rewrite E in *; lia].
      intros d1. unfold upd. destruct (Nat.eqb d1 d) eqn:E1; auto. apply Nat.eqb_eq in E1. subst d1.
      rewrite ecnt_app. unfold ecnt at 2. simpl. rewrite E. simpl. lia.
  - (* ICancelIn fires *)
    right. right. left. exists d. rewrite upd_same. repeat split; auto.
    + intros d' Hd. rewrite upd_other; auto.
    + tok_crunch Hn.
  - right. right. left. exists d. rewrite upd_same. repeat split; auto.
    + intros d' Hd. rewrite upd_other; auto.
    + tok_crunch Hn. change (tokc i []) with 0 in *. lia.
  - right. right. left. exists d. rewrite upd_same. repeat split; auto.
    + intros d' Hd. rewrite upd_other; auto.
    + tok_crunch Hn. change (tokc i []) with 0 in *. lia.
  - left. simpl. rewrite Heql. split; auto.
Qed.

(* how a step changes the zip slots *)
Lemma store_step s e s' : step s e = Some s' ->
  slots s' = slots s \/
  exists j d r, thr s (actor e) = ICancelledQ j d :: r /\ ck s = KZip /\ cdone s = false /\
    fcancelled (es s d) = false /\ v_failed (view s d) = false /\
    slots s' = upd (slots s) j (match oc_of s d with Ok v _ => Some v | _ => None end) /\
    remaining s' = (remaining s - 1)%Z /\ cdone s' = Z.eqb (remaining s - 1) 0 /\
    thr s' (actor e) = IRelL :: (if Z.eqb (remaining s - 1) 0 then [ISetOut (Ok 0 true)] else []) ++ r /\
    ecbs s' = ecbs s.
Proof.
  intros H. destruct e; simpl actor; step_inv H; simpl; auto; right; clean;
  eexists _, _, _; rewrite upd_same; rewrite ?Heqb4; simpl; repeat split; eauto.
Qed.
