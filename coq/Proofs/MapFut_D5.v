(* Layer 5: delegate-resolution tokens: at most one per library future. *)
From Coq Require Import ZArith List Bool Arith Lia.
From RecordUpdate Require Import RecordSet.
From ME Require Import Base.Machine Base.Fut Base.GenPrelude Model.MapFut Proofs.MapFut_D0 Proofs.MapFut_D1 Proofs.MapFut_D2 Proofs.MapFut_D3 Proofs.MapFut_D4.
Import ListNotations RecordSetNotations.

Definition wF (j : nat) (i : instr) : bool :=
  match i with IUserFn j' _ | IUserEfn j' _ => Nat.eqb j j' | _ => false end.
Definition wQ (j : nat) (i : instr) : bool :=
  match i with IDCancelledQ j' _ => Nat.eqb j j' | _ => false end.
Definition isAddCb (j : nat) (i : instr) : bool :=
  match i with IAddCbE _ j' => Nat.eqb j j' | _ => false end.
Definition isAcqFlat (j : nat) (i : instr) : bool :=
  match i with IAcqMSet j' _ true => Nat.eqb j j' | _ => false end.
Definition wC (j : nat) (i : instr) : bool :=
  match i with IDoneQ j' (Some _) => Nat.eqb j j' | _ => false end.
Definition wD (j : nat) (i : instr) : bool := wF j i || wQ j i || isAddCb j i || wC j i.

Lemma cntD_fires j s d r : cnt (wD j) (fires s d r) = cnt (Nat.eqb j) (ecbs s d) + cnt (wD j) r.
Proof.
  unfold fires. rewrite cnt_app. f_equal. induction (ecbs s d) as [|a l IH]; [reflexivity|].
  simpl. rewrite !cnt_cons. simpl. unfold wD at 1 2; simpl. fold (wD j). rewrite IH.
  destruct (Nat.eqb j a); reflexivity.
Qed.
Lemma cntD_on_mapped_le j s j0 x : cnt (wD j) (on_mapped s j0 x) <= if Nat.eqb j j0 then 1 else 0.
Proof.
  unfold on_mapped. destruct (mkind s j0), (mflat s j0), x; unfold cnt, wD; simpl;
    destruct (Nat.eqb j j0); simpl; lia.
Qed.
Lemma cntD_cbs j j0 l : cnt (wD j) (map (fun c => IUserCb j0 c false) l) = 0.
Proof. apply cnt_zero. intros x Hx. apply in_map_iff in Hx. destruct Hx as (c & <- & _). reflexivity. Qed.

Lemma cntD_on_mapped_val j s j0 v : cnt (wD j) (on_mapped s j0 (MVal v)) = 0.
Proof. unfold on_mapped. destruct (mkind s j0), (mflat s j0); reflexivity. Qed.
Lemma cnt_tl_le {A} (f : A -> bool) l : cnt f (tl l) <= cnt f l.
Proof. destruct l; simpl; auto. rewrite cnt_cons. lia. Qed.

Inductive dteff (s s0 : st) (t : nat) : Prop :=
| de_le : (forall j, cnt (wD j) (thr s0 t) <= cnt (wD j) (thr s t)) -> ecbs s0 = ecbs s -> nfut s0 = nfut s -> dteff s s0 t
| de_new : thr s t = [] -> (forall j, cnt (wD j) (thr s0 t) = if Nat.eqb j (nfut s) then 1 else 0) ->
    ecbs s0 = ecbs s -> nfut s0 = S (nfut s) -> dteff s s0 t
| de_park d j rest : thr s t = IAddCbE d j :: rest -> thr s0 t = rest ->
    ecbs s0 = upd (ecbs s) d (ecbs s d ++ [j]) -> nfut s0 = nfut s -> dteff s s0 t
| de_fire d cont : (forall j, cnt (wD j) (thr s0 t) = cnt (Nat.eqb j) (ecbs s d) + cnt (wD j) cont) ->
    (forall j, cnt (wD j) cont <= cnt (wD j) (thr s t)) -> ecbs s0 = upd (ecbs s) d [] -> nfut s0 = nfut s -> dteff s s0 t.

Ltac dnorm := rewrite ?cnt_app, ?cntD_cbs, ?cnt_cons, ?cnt_nil; unfold wD; simpl.

Lemma lstep_dteff s e s0 : lstep s e = Some s0 -> shape_all s -> dteff s s0 (tid e).
Proof.
  intros H SH. step_cases H; norm2; simpl.
  all: try (solve [apply de_le; simpl; auto]).
  all: try (solve [eapply de_park; simpl; rewrite ?upd_same; try reflexivity; eassumption]).
  all: try (solve [eapply de_new; simpl; rewrite ?upd_same; try reflexivity; try eassumption;
                   intros j'; dnorm; rewrite ?orb_false_r; destruct (Nat.eqb j' (nfut s)); reflexivity]).
  all: try (solve [eapply de_fire; [intros j'; simpl; rewrite upd_same; apply cntD_fires
                                   |intros j'; rewrite ?Heql; dnorm; lia | reflexivity | reflexivity]]).
  all: apply de_le; simpl; try reflexivity; intros j'; rewrite ?upd_same;
    match goal with E : thr _ _ = _ |- _ => rewrite E end.
  all: try (unfold cnt; simpl; lia).
  all: rewrite ?cnt_app;
    try match goal with |- context [on_mapped ?s ?j0 ?x] => generalize (cntD_on_mapped_le j' s j0 x) end;
    rewrite ?cntD_cbs, ?cnt_cons, ?cnt_nil; unfold wD; simpl; try intro.
  all: repeat match goal with |- context [Nat.eqb ?a ?b] => destruct (Nat.eqb a b) end; simpl in *; try lia.
  all: fold (wD j'); rewrite ?cntD_cbs, ?cntD_on_mapped_val; try lia; apply cnt_tl_le.
Qed.

Lemma sil_dteff t s s' : sil t s s' -> dteff s s' t.
Proof.
  intros H; inversion H; subst; pose proof (upd_eq_same _ _ _ _ H0) as Et;
    apply de_le; simpl; try reflexivity; intros j'; rewrite upd_same, Et, ?cnt_app, ?cntD_cbs, !cnt_cons; lia.
Qed.

Inductive dloc := DT (t : nat) | DE (d : nat) | DN.
Definition isDT (l : dloc) (t : nat) : nat := match l with DT t' => if Nat.eqb t t' then 1 else 0 | _ => 0 end.
Definition isDE (l : dloc) (d : nat) : nat := match l with DE d' => if Nat.eqb d d' then 1 else 0 | _ => 0 end.
Definition Dloc (s : st) : Prop := exists loc : nat -> dloc, forall j,
  (forall t, cnt (wD j) (thr s t) <= isDT (loc j) t) /\ (forall d, cnt (Nat.eqb j) (ecbs s d) <= isDE (loc j) d).

Lemma isDT_same t : isDT (DT t) t = 1.
Proof. simpl. rewrite Nat.eqb_refl. reflexivity. Qed.
Lemma isDT_ge1 l t : isDT l t >= 1 -> l = DT t.
Proof. destruct l; simpl; try lia. destruct (Nat.eqb t t0) eqn:E; [apply Nat.eqb_eq in E; subst; auto|lia]. Qed.
Lemma isDT_other t t' : t' <> t -> isDT (DT t) t' = 0.
Proof. intros N. simpl. apply Nat.eqb_neq in N. rewrite N. reflexivity. Qed.
Lemma isDE_same d : isDE (DE d) d = 1.
Proof. simpl. rewrite Nat.eqb_refl. reflexivity. Qed.
Lemma isDE_ge1 l d : isDE l d >= 1 -> l = DE d.
Proof. destruct l; simpl; try lia. destruct (Nat.eqb d d0) eqn:E; [apply Nat.eqb_eq in E; subst; auto|lia]. Qed.
Lemma isDE_other d d' : d' <> d -> isDE (DE d) d' = 0.
Proof. intros N. simpl. apply Nat.eqb_neq in N. rewrite N. reflexivity. Qed.

Lemma wD_bnd n i j : okI n i -> wD j i = true -> j < n.
Proof.
  unfold okI, wD. destruct i; simpl; intros H X; try discriminate; rewrite ?orb_false_r in X; try (apply Nat.eqb_eq in X; subst; exact H).
  destruct cont; [apply Nat.eqb_eq in X; subst; exact H|discriminate].
Qed.
Lemma cntD_unborn s t j : Bnd s -> nfut s <= j -> cnt (wD j) (thr s t) = 0.
Proof.
  intros B L. apply cnt_zero. intros x Hx. destruct (wD j x) eqn:E; auto.
  pose proof (b_thr _ B t) as F. rewrite Forall_forall in F. pose proof (wD_bnd _ _ _ (F x Hx) E). lia.
Qed.
Lemma cntE_unborn s d j : Bnd s -> nfut s <= j -> cnt (Nat.eqb j) (ecbs s d) = 0.
Proof.
  intros B L. apply cnt_zero. intros x Hx. apply Nat.eqb_neq.
  pose proof (b_ecbs _ B d) as F. rewrite Forall_forall in F. specialize (F x Hx). lia.
Qed.

Lemma dloc_trans s s0 t : Bnd s -> Dloc s -> (forall t', t' <> t -> thr s0 t' = thr s t') -> dteff s s0 t -> Dloc s0.
Proof.
  intros B [loc L] Ho E.
  destruct E as [Le Ee En | Et E0 Ee En | d j rest Et E0 Ee En | d cont E0 Le Ee En].
  - exists loc. intros j. destruct (L j) as [L1 L2]. rewrite Ee. split; auto.
    intros t'. destruct (Nat.eq_dec t' t) as [->|N]; [|rewrite Ho by exact N; apply L1].
    specialize (Le j). specialize (L1 t). lia.
  - exists (fun j => if Nat.eqb j (nfut s) then DT t else loc j). intros j. destruct (L j) as [L1 L2]. rewrite Ee.
    destruct (Nat.eqb j (nfut s)) eqn:Ej.
    + apply Nat.eqb_eq in Ej. subst j. split.
      * intros t'. destruct (Nat.eq_dec t' t) as [->|N]; [rewrite E0, Nat.eqb_refl, isDT_same; lia|].
        rewrite Ho by exact N. rewrite cntD_unborn by (auto; lia). lia.
      * intros d. rewrite cntE_unborn by (auto; lia). lia.
    + split; auto. intros t'. destruct (Nat.eq_dec t' t) as [->|N]; [|rewrite Ho by exact N; apply L1].
      rewrite E0, Ej. lia.
  - exists (fun j' => if Nat.eqb j' j then DE d else loc j'). intros j'. destruct (L j') as [L1 L2]. rewrite Ee.
    destruct (Nat.eqb j' j) eqn:Ej.
    + apply Nat.eqb_eq in Ej. subst j'.
      assert (LL : loc j = DT t).
      { apply isDT_ge1. specialize (L1 t). rewrite Et in L1. revert L1. rewrite cnt_cons. unfold wD at 1. simpl. rewrite Nat.eqb_refl. simpl. lia. }
      rewrite LL in *. simpl in L2. split.
      * intros t'. simpl. destruct (Nat.eq_dec t' t) as [->|N].
        -- specialize (L1 t). rewrite Et, isDT_same in L1. revert L1. rewrite E0, cnt_cons. unfold wD at 1. simpl. rewrite Nat.eqb_refl. simpl. lia.
        -- rewrite Ho by exact N. specialize (L1 t'). rewrite isDT_other in L1 by exact N. lia.
      * intros d'. destruct (Nat.eq_dec d' d) as [->|N].
        -- rewrite upd_same, isDE_same, cnt_app, cnt_cons, cnt_nil, Nat.eqb_refl. specialize (L2 d). lia.
        -- rewrite upd_other by exact N. specialize (L2 d'). lia.
    + split.
      * intros t'. destruct (Nat.eq_dec t' t) as [->|N]; [|rewrite Ho by exact N; apply L1].
        specialize (L1 t). rewrite Et in L1. revert L1. rewrite E0, cnt_cons. lia.
      * intros d'. destruct (Nat.eq_dec d' d) as [->|N]; [|rewrite upd_other by exact N; apply L2].
        rewrite upd_same, cnt_app, cnt_cons, cnt_nil, Ej. specialize (L2 d). lia.
  - exists (fun j => if 0 <? cnt (Nat.eqb j) (ecbs s d) then DT t else loc j). intros j. destruct (L j) as [L1 L2]. rewrite Ee.
    destruct (0 <? cnt (Nat.eqb j) (ecbs s d)) eqn:Ec.
    + apply Nat.ltb_lt in Ec. assert (LL : loc j = DE d) by (apply isDE_ge1; specialize (L2 d); lia).
      rewrite LL in *. simpl in L1. split.
      * intros t'. destruct (Nat.eq_dec t' t) as [->|N].
        -- rewrite E0, isDT_same. specialize (Le j). specialize (L1 t). specialize (L2 d). rewrite isDE_same in L2. lia.
        -- rewrite Ho by exact N. specialize (L1 t'). lia.
      * intros d'. simpl. destruct (Nat.eq_dec d' d) as [->|N]; [rewrite upd_same; unfold cnt; simpl; lia|].
        rewrite upd_other by exact N. specialize (L2 d'). rewrite isDE_other in L2 by exact N. lia.
    + apply Nat.ltb_ge in Ec. split.
      * intros t'. destruct (Nat.eq_dec t' t) as [->|N]; [|rewrite Ho by exact N; apply L1].
        rewrite E0. specialize (Le j). specialize (L1 t). lia.
      * intros d'. destruct (Nat.eq_dec d' d) as [->|N]; [rewrite upd_same; unfold cnt; simpl; lia|].
        rewrite upd_other by exact N. apply L2.
Qed.

(* ---- fn / error_fn are called at most once --------------------------------------------------- *)
Definition hcall (j : nat) (h : hev) : bool :=
  match h with HFn j' _ _ | HEfn j' _ _ => Nat.eqb j j' | _ => false end.
Definition ncall (s : st) (j : nat) : nat := cnt (hcall j) (hist s).
Definition Cj (s : st) (j : nat) : Prop := ncall s j = 0 \/ mflat s j = true.
Definition okF (s : st) (j : nat) (i : instr) : Prop :=
  (wF j i = true -> ncall s j = 0) /\ (wQ j i = true -> Cj s j).
Record Fn (s : st) : Prop := {
  f_le : forall j, ncall s j <= 1;
  f_thr : forall t j, Forall (okF s j) (thr s t);
  f_ecbs : forall d, Forall (Cj s) (ecbs s d);
  f_grd : forall t j, grd (Cj s j) (isAcqFlat j) (isAddCb j) (thr s t)
}.

Lemma lstep_mflat_mono s e s0 : lstep s e = Some s0 -> forall j, j < nfut s -> mflat s j = true -> mflat s0 j = true.
Proof.
  intros H. step_cases H; intros j' L X; simpl; auto.
  all: try (rewrite upd_other by lia; exact X).
  all: usplit j0; auto. all: rewrite X; apply orb_true_r.
Qed.

Definition is_call (s : st) (t j : nat) : Prop :=
  exists d rest, thr s t = IUserFn j d :: rest \/ thr s t = IUserEfn j d :: rest.
Lemma lstep_ncall s e s0 : lstep s e = Some s0 ->
  (forall j, ncall s0 j = ncall s j) \/
  (exists j, is_call s (tid e) j /\ forall j', ncall s0 j' = (if Nat.eqb j' j then 1 else 0) + ncall s j').
Proof.
  intros H. unfold ncall, is_call. step_cases H; simpl; auto.
  all: right; exists j; (split; [eauto|intros j'; rewrite cnt_cons; reflexivity]).
Qed.

Lemma ncall_unborn s j : Bnd s -> nfut s <= j -> ncall s j = 0.
Proof.
  intros B L. apply cnt_zero. intros x Hx. destruct (hcall j x) eqn:E; auto.
  pose proof (b_hist _ B) as F. rewrite Forall_forall in F. specialize (F x Hx).
  destruct x; simpl in E; try discriminate; apply Nat.eqb_eq in E; subst; unfold okH in F; simpl in F; lia.
Qed.
Lemma Cj_mono s e s0 j : lstep s e = Some s0 -> ncall s0 j = ncall s j -> j < nfut s -> Cj s j -> Cj s0 j.
Proof. intros H NC L [X|X]; [left; congruence|right; eapply lstep_mflat_mono; eauto]. Qed.
Lemma okF_mono s e s0 j i : lstep s e = Some s0 -> ncall s0 j = ncall s j ->
  okI (nfut s) i -> okF s j i -> okF s0 j i.
Proof.
  intros H NC O [F1 F2]. split; intros W.
  - rewrite NC. auto.
  - eapply Cj_mono; eauto. destruct i; simpl in W; try discriminate. apply Nat.eqb_eq in W; subst. exact O.
Qed.
Lemma okF_plain s j i : wF j i = false -> wQ j i = false -> okF s j i.
Proof. intros A B. unfold okF. rewrite A, B. split; discriminate. Qed.
Lemma okF_on_mapped s j s1 j0 x r : Forall (okF s j) r -> Forall (okF s j) (on_mapped s1 j0 x ++ r).
Proof.
  intros H. unfold on_mapped. destruct (mkind s1 j0), (mflat s1 j0), x; simpl;
    repeat (constructor; [apply okF_plain; reflexivity|]); exact H.
Qed.
Lemma okF_cbs s j j0 l r : Forall (okF s j) r -> Forall (okF s j) (map (fun c => IUserCb j0 c false) l ++ r).
Proof. intros H. induction l; simpl; auto. constructor; [apply okF_plain; reflexivity|exact IHl]. Qed.
Lemma okF_Q s j j0 d : (j = j0 -> Cj s j) -> okF s j (IDCancelledQ j0 d).
Proof. intros C. split; simpl; [discriminate|]. intros E. apply Nat.eqb_eq in E. auto. Qed.
Lemma okF_fires s j s1 d r : (In j (ecbs s1 d) -> Cj s j) -> Forall (okF s j) r -> Forall (okF s j) (fires s1 d r).
Proof.
  intros H Hr. unfold fires. induction (ecbs s1 d) as [|a l IH]; simpl; auto.
  constructor; [apply okF_plain; reflexivity|].
  constructor; [apply okF_plain; reflexivity|].
  constructor; [apply okF_Q; intros ->; apply H; left; reflexivity|].
  constructor; [apply okF_plain; reflexivity|]. apply IH. intros X; apply H; right; exact X.
Qed.

Ltac simp_thr :=
  match goal with |- context [thr ?S ?t] =>
    match S with
    | context [set_thr] => let p := eval simpl in (thr S t) in change (thr S t) with p; rewrite ?upd_same
    end end.

(* EC: the parked futures keep their condition *)
Lemma lstep_f_thr_nc s e s0 j : lstep s e = Some s0 -> Bnd s -> Fn s -> ncall s0 j = ncall s j ->
  forall t, Forall (okF s0 j) (thr s0 t).
Proof.
  intros H B F NC t'.
  assert (MONO : forall i, okI (nfut s) i -> okF s j i -> okF s0 j i) by (intros; eapply okF_mono; eauto).
  assert (CM : j < nfut s -> Cj s j -> Cj s0 j) by (intros; eapply Cj_mono; eauto).
  assert (OLD : forall t', Forall (okF s0 j) (thr s t')).
  { intros t1. apply Forall_forall. intros i Hi. pose proof (b_thr _ B t1) as X1. pose proof (f_thr _ F t1 j) as X2.
    rewrite Forall_forall in X1, X2. auto. }
  assert (EC : forall d, In j (ecbs s d) -> Cj s0 j).
  { intros d Hj. pose proof (b_ecbs _ B d) as X1. pose proof (f_ecbs _ F d) as X2.
    rewrite Forall_forall in X1, X2. auto. }
  destruct (Nat.eq_dec t' (tid e)) as [->|N]; [|rewrite (lstep_thr_other _ _ _ H _ N); apply OLD].
  pose proof (OLD (tid e)) as It. pose proof (f_thr _ F (tid e) j) as Io. pose proof (f_grd _ F (tid e)) as Ig.
  pose proof (b_thr _ B (tid e)) as Ib.
  clear NC OLD F. step_cases H; simpl tid in *; try exact It.
  all: rewrite Heql in It, Io, Ig, Ib; try (inversion It; subst); simp_thr.
  all: try (apply okF_on_mapped); try (apply okF_fires; [apply EC|]); try (apply okF_cbs).
  all: repeat (constructor; [apply okF_plain; reflexivity|]); try assumption; try (constructor; fail).
  all: try (apply okF_on_mapped); try (apply Forall_tl); try assumption.
  1:{ constructor; [|constructor; [apply okF_plain; reflexivity|assumption]].
    apply okF_Q. intros ->. inversion Ib; subst. apply CM; [assumption|].
    specialize (Ig j0). simpl in Ig. destruct Ig as [Ig _]. apply Ig. apply Nat.eqb_refl. }
  all: constructor; [|assumption]; inversion Ib; subst; inversion Io; subst;
    (apply MONO; [assumption|]); split; simpl; intros W; try discriminate W;
    apply Nat.eqb_eq in W; subst j;
    match goal with Q : okF _ _ (IDCancelledQ _ _) |- _ => destruct Q as [_ Q2]; simpl in Q2; rewrite Nat.eqb_refl in Q2;
      destruct (Q2 eq_refl) as [Q3|Q3]; [exact Q3|congruence] end.
Qed.

Lemma lstep_f_ecbs_nc s e s0 j : lstep s e = Some s0 -> Bnd s -> Fn s -> ncall s0 j = ncall s j ->
  forall d, In j (ecbs s0 d) -> Cj s0 j.
Proof.
  intros H B F NC.
  assert (CM : j < nfut s -> Cj s j -> Cj s0 j) by (intros; eapply Cj_mono; eauto).
  assert (EC : forall d, In j (ecbs s d) -> Cj s0 j).
  { intros d Hj. pose proof (b_ecbs _ B d) as X1. pose proof (f_ecbs _ F d) as X2.
    rewrite Forall_forall in X1, X2. auto. }
  pose proof (f_grd _ F (tid e)) as Ig. pose proof (b_thr _ B (tid e)) as Ib.
  clear NC F. step_cases H; simpl tid in *; try exact EC.
  all: rewrite Heql in Ig, Ib; intros d'; simpl ecbs; try apply EC.
  all: unfold upd; destruct (Nat.eqb d' _); try apply EC; try (intros []; fail).
  intros X. apply in_app_or in X. destruct X as [X|[<-|[]]]; [eapply EC; eauto|].
  inversion Ib; subst. apply CM; [assumption|].
  specialize (Ig j0). simpl in Ig. destruct Ig as [Ig _]. apply Ig. apply Nat.eqb_refl.
Qed.

Definition gA (C : Prop) (j : nat) (p : list instr) : Prop := grd C (isAcqFlat j) (isAddCb j) p.
Lemma gA_on_mapped C j s j0 x r : gA C j r -> gA C j (on_mapped s j0 x ++ r).
Proof.
  intros H. unfold on_mapped, gA. destruct (mkind s j0), (mflat s j0), x; simpl;
    destruct (Nat.eqb j j0); simpl; intuition discriminate.
Qed.
Lemma gA_fires C j s d r : gA C j r -> gA C j (fires s d r).
Proof.
  intros H. unfold fires. apply grd_app; [|exact H].
  intros i Hi. apply in_flat_map in Hi. destruct Hi as (j' & _ & Hi). simpl in Hi.
  repeat (destruct Hi as [<-|Hi]; [reflexivity|]). destruct Hi.
Qed.
Lemma gA_cbs C j j0 l r : gA C j r -> gA C j (map (fun c => IUserCb j0 c false) l ++ r).
Proof.
  intros H. apply grd_app; [|exact H]. intros i Hi. apply in_map_iff in Hi. destruct Hi as (c & <- & _). reflexivity.
Qed.
Lemma gA_unborn C n j p : Forall (okI n) p -> n <= j -> gA C j p.
Proof.
  intros H L. apply grd_noT. intros i Hi. rewrite Forall_forall in H. specialize (H i Hi).
  destruct i; simpl; auto. unfold okI in H; simpl in H. apply Nat.eqb_neq. lia.
Qed.
