(* Layer E9 (C06): cancel() holds M_j from its first check to the delegate cancel; _delegate does not
   change under it. *)
From Coq Require Import ZArith List Bool Arith Lia.
From RecordUpdate Require Import RecordSet.
From ME Require Import Base.Machine Base.Fut Base.GenPrelude Model.MapFut Model.MapLaw Proofs.MapFut_InvD Proofs.MapFut_E1 Proofs.MapFut_E2 Proofs.MapFut_E3 Proofs.MapFut_E4 Proofs.MapFut_E7 Proofs.MapFut_E8.
Import ListNotations RecordSetNotations.

(* the cancel-phase instructions *)
Definition iscp (i : instr) : bool := match i with ICancelled _ | IDoneC _ | IDCancel _ _ => true | _ => false end.
Definition nocp (p : list instr) : bool := forallb (fun i => negb (iscp i)) p.
Definition chead (p : list instr) : option nat :=
  match p with (ICancelled j | IDoneC j | IDCancel j _) :: _ => Some j | _ => None end.

Lemma nocp_app a b : nocp (a ++ b) = nocp a && nocp b.
Proof. apply forallb_app. Qed.
Lemma nocp_fires s d r : nocp (fires s d r) = nocp r.
Proof. unfold fires. rewrite nocp_app. replace (nocp (flat_map _ _)) with true; [reflexivity|]. induction (ecbs s d); simpl; auto. Qed.
Lemma nocp_on_mapped s j x r : nocp (on_mapped s j x ++ r) = nocp r.
Proof. rewrite nocp_app. unfold on_mapped. destruct (mkind s j), (mflat s j), x; reflexivity. Qed.
Lemma nocp_cbs j l r : nocp (map (fun c => IUserCb j c false) l ++ r) = nocp r.
Proof. rewrite nocp_app. replace (nocp (map _ l)) with true; [reflexivity|]. induction l; simpl; auto. Qed.
Lemma nocp_tl p : nocp p = true -> nocp (tl p) = true.
Proof. destruct p; simpl; auto. intros H. apply andb_prop in H. tauto. Qed.
Lemma chead_nocp p : nocp p = true -> chead p = None.
Proof. destruct p as [|[] r]; simpl; auto; discriminate. Qed.

(* position: a cancel-phase instruction sits at the head, or right behind the IAcqM of its call *)
Definition cpos (p : list instr) : Prop :=
  nocp (tl p) = true \/ exists j r, p = IAcqM j :: ICancelled j :: r /\ nocp r = true.
Definition Cpos (s : st) : Prop := forall t, cpos (thr s t).

Lemma cpos_nocp p : nocp p = true -> cpos p.
Proof. intros H. left. apply nocp_tl. exact H. Qed.
Lemma cpos_rest i r : cpos (i :: r) -> cpos r.
Proof.
  intros [H|(j & r' & E & H)]; simpl in H.
  - apply cpos_nocp. exact H.
  - inversion E; subst. left. exact H.
Qed.
Lemma cpos_rest_nocp i r : cpos (i :: r) -> (forall j, i <> IAcqM j) -> nocp r = true.
Proof. intros [H|(j & r' & E & H)] N; [exact H|inversion E; subst; exfalso; eapply N; reflexivity]. Qed.

Lemma lstep_cpos s e s0 : lstep s e = Some s0 -> shape_all s -> Cpos s -> Cpos s0.
Proof.
  intros H SH I t'. destruct (Nat.eq_dec t' (tid e)) as [->|N]; [|rewrite (lstep_thr_other _ _ _ H _ N); apply I].
  pose proof (I (tid e)) as It. pose proof (SH (tid e)) as Sh.
  step_cases H; simpl in *; rewrite ?upd_same; try exact It.
  all: try (right; eexists _, _; split; reflexivity).
  all: try (left; reflexivity).
  all: rewrite Heql in It, Sh.
  all: try (apply cpos_rest in It; exact It).
  all: try (apply cpos_rest_nocp in It; [|intros; discriminate]; left; simpl;
            rewrite ?nocp_fires, ?nocp_on_mapped, ?nocp_cbs; simpl; rewrite ?It; try reflexivity;
            try (apply nocp_tl; rewrite nocp_on_mapped; exact It); try (apply nocp_tl; rewrite nocp_cbs; exact It);
            try (apply nocp_tl; exact It)).
  - apply nocp_tl. rewrite nocp_fires. simpl. exact It.
  - apply cpos_nocp. rewrite nocp_fires. reflexivity.
  - apply cpos_nocp. rewrite nocp_fires. reflexivity.
Qed.
Lemma sil_cpos t s s' : sil t s s' -> Cpos s -> Cpos s'.
Proof.
  intros H I t'. destruct (sil_thr _ _ _ H) as (i & r & Et & Ho & Hr).
  destruct (Nat.eq_dec t' t) as [->|N]; [|rewrite Ho by exact N; apply I].
  pose proof (I t) as It. rewrite Et in It.
  destruct Hr as [->|(j & -> & ->)]; [apply cpos_rest in It; exact It|].
  apply cpos_nocp. rewrite nocp_cbs. apply cpos_rest_nocp in It; [exact It|intros; discriminate].
Qed.


Lemma chead_on_mapped s j x r : chead (on_mapped s j x ++ r) = None.
Proof. unfold on_mapped. destruct (mkind s j), (mflat s j), x; reflexivity. Qed.
Lemma chead_fires s d r j : chead (fires s d r) = Some j -> chead r = Some j.
Proof. unfold fires. destruct (ecbs s d); simpl; auto. discriminate. Qed.
Lemma chead_cbs j0 l r j : chead (map (fun c => IUserCb j0 c false) l ++ r) = Some j -> chead r = Some j.
Proof. destruct l; simpl; auto. discriminate. Qed.

Definition holds (s : st) (t j : nat) : Prop := exists k, mown s j = Some (t, k).

Lemma lstep_mown_other s e s0 : lstep s e = Some s0 -> forall j t', j < nfut s -> t' <> tid e ->
  holds s t' j -> mown s0 j = mown s j /\ mdel s0 j = mdel s j.
Proof.
  intros H. step_cases H; intros j' t' L N [kk X]; simpl in *; auto.
  all: try (rewrite !upd_other by lia; auto; fail).
  all: usplit j0; auto; try congruence.
  all: rewrite X in *; inv_eqs; try congruence.
Qed.

Lemma sil_mown_other t s s' : sil t s s' -> forall j t', t' <> t -> holds s t' j ->
  mown s' j = mown s j /\ mdel s' j = mdel s j.
Proof.
  intros H j' t' N [kk X]. inversion H; subst; simpl; auto.
  all: usplit j; auto; rewrite X in *; inv_eqs; congruence.
Qed.

Record Lk (s : st) : Prop := {
  l_hold : forall t j, chead (thr s t) = Some j -> holds s t j;
  l_del : forall t j d r, thr s t = IDCancel j d :: r -> mdel s j = Some d
}.

Lemma chead_bnd s t j : Bnd s -> chead (thr s t) = Some j -> j < nfut s.
Proof.
  intros B X. pose proof (b_thr _ B t) as F. destruct (thr s t) as [|i r]; [discriminate X|].
  inversion F; subst. destruct i; simpl in X; try discriminate X; inversion X; subst; exact H1.
Qed.

Lemma lstep_l_hold_t s e s0 : lstep s e = Some s0 -> Cpos s -> Lk s -> forall j,
  chead (thr s0 (tid e)) = Some j -> holds s0 (tid e) j /\ (forall d r, thr s0 (tid e) = IDCancel j d :: r -> mdel s0 j = Some d).
Proof.
  intros H CP [L1 L2]. pose proof (CP (tid e)) as Ct. pose proof (L1 (tid e)) as Lt. pose proof (L2 (tid e)) as Dt.
  step_cases H; intros j' X; simpl in *; rewrite ?upd_same in *; try discriminate X.
  all: try (rewrite Heql in X; simpl in X; discriminate X).
  all: try (apply chead_fires in X; simpl in X; discriminate X).
  all: rewrite Heql in Ct, Lt, Dt.
  all: try (rewrite chead_on_mapped in X; discriminate X).
  all: try (apply chead_cbs in X).
  all: try (apply chead_fires in X; simpl in X; discriminate X).
  all: try (apply cpos_rest_nocp in Ct; [|intros; discriminate]; apply chead_nocp in Ct; simpl in *; congruence).
  - destruct Ct as [Ct|(j1 & r1 & E1 & Ct)]; [simpl in Ct; apply chead_nocp in Ct; congruence|].
    inversion E1; subst. simpl in X. inversion X; subst. split; [exists 1; apply upd_same|intros d r E; discriminate E].
  - inversion X; subst. split; [apply (Lt j' eq_refl)|intros d r E; discriminate E].
  - inversion X; subst. split; [apply (Lt j' eq_refl)|intros d r E; inversion E; subst; assumption].
Qed.

Lemma lstep_lk s e s0 : lstep s e = Some s0 -> Bnd s -> Cpos s -> Lk s -> Lk s0.
Proof.
  intros H B CP L. pose proof (lstep_l_hold_t _ _ _ H CP L) as T. destruct L as [L1 L2].
  assert (O : forall t j, t <> tid e -> chead (thr s0 t) = Some j -> holds s0 t j /\ mdel s0 j = mdel s j).
  { intros t j N X. rewrite (lstep_thr_other _ _ _ H _ N) in X. pose proof (L1 t j X) as Y.
    destruct (lstep_mown_other _ _ _ H j t (chead_bnd _ _ _ B X) N Y) as [M1 M2].
    split; [destruct Y as [k Y]; exists k; congruence|exact M2]. }
  constructor.
  - intros t j X. destruct (Nat.eq_dec t (tid e)) as [->|N]; [apply T; exact X|apply O; assumption].
  - intros t j d r E. destruct (Nat.eq_dec t (tid e)) as [->|N].
    + assert (X : chead (thr s0 (tid e)) = Some j) by (rewrite E; reflexivity). eapply (proj2 (T j X)); eauto.
    + assert (X : chead (thr s0 t) = Some j) by (rewrite E; reflexivity). destruct (O t j N X) as [_ M]. rewrite M.
      rewrite (lstep_thr_other _ _ _ H _ N) in E. eapply L2; eauto.
Qed.

Lemma sil_lk t s s' : sil t s s' -> Cpos s -> Lk s -> Lk s'.
Proof.
  intros H CP [L1 L2]. destruct (sil_thr _ _ _ H) as (i & r & Et & Ho & Hr).
  assert (T : forall j, chead (thr s' t) = Some j -> holds s' t j /\ forall d r0, thr s' t = IDCancel j d :: r0 -> False).
  { intros j X. pose proof (CP t) as Ct. rewrite Et in Ct.
    destruct Ct as [Ct|(j0 & r0 & E & _)].
    - simpl in Ct. exfalso. destruct Hr as [Hr|(j0 & -> & Hr)]; rewrite Hr in X; [|apply chead_cbs in X]; apply chead_nocp in Ct; congruence.
    - inversion E; subst. inversion H; subst; rewrite (upd_eq_same _ _ _ _ H0) in Et; inversion Et; subst.
      simpl in X. rewrite upd_same in X. simpl in X. inversion X; subst.
      split; [exists (S k); simpl; apply upd_same|]. intros d r1 E1. simpl in E1. rewrite upd_same in E1. discriminate E1. }
  constructor.
  - intros t' j X. destruct (Nat.eq_dec t' t) as [->|N]; [apply T; exact X|].
    rewrite Ho in X by exact N. pose proof (L1 t' j X) as Y.
    destruct (sil_mown_other _ _ _ H j t' N Y) as [M1 _]. destruct Y as [k Y]. exists k. congruence.
  - intros t' j d r0 E. destruct (Nat.eq_dec t' t) as [->|N].
    + exfalso. assert (X : chead (thr s' t) = Some j) by (rewrite E; reflexivity). eapply (proj2 (T j X)); eauto.
    + rewrite Ho in E by exact N. assert (X : chead (thr s t') = Some j) by (rewrite E; reflexivity).
      destruct (sil_mown_other _ _ _ H j t' N (L1 t' j X)) as [_ M2]. rewrite M2. eapply L2; eauto.
Qed.
