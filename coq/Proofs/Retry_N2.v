(* C03 for the Retry machine, part 2: a step keeps a queued record (idle, or in flight with a delegate future
   that is not done) as a witness, or replaces it by another one. *)
From Coq Require Import List ZArith Bool Arith Lia.
From RecordUpdate Require Import RecordSet.
From ME Require Import Base.Machine Base.Fut Base.GenPrelude Gen.RetryGen Model.Retry Proofs.Retry_Spec.
From ME Require Import Proofs.Retry_C0 Proofs.Retry_C1 Proofs.Retry_C2 Proofs.Retry_C3 Proofs.Retry_C4 Proofs.Retry_C5 Proofs.Retry_C6
  Proofs.Retry_C7 Proofs.Retry_C8 Proofs.Retry_C9 Proofs.Retry_C10 Proofs.Retry_C11 Proofs.Retry_C12 Proofs.Retry_N0 Proofs.Retry_N1.
Import ListNotations RecordSetNotations.
#[local] Arguments norm : simpl nomatch.

Ltac w1 := left.
Ltac w2 := right; left.
Ltac w3 := right; right; left.
Ltac w4 := right; right; right; left.
Ltac w5 := right; right; right; right; left.
Ltac w6 := right; right; right; right; right; left.
Ltac w7 := right; right; right; right; right; right.

Lemma keep1 s e s' j : SI s -> step0 s e = Some s' -> W1 s j -> Wit s' j.
Proof.
  intros HS H (r & Hin & Hjf & Hjd).
  assert (Hr : r < nrec s) by (apply (ri_jobs s (si_ri s HS)); exact Hin).
  pose proof (si_pi s HS) as HP. pose proof (si_xp s HS) as HX.
  s0inv H.
  all: try (match goal with inl : option outcome |- _ => destruct inl end).
  all: bsplit; subst.
  all: unfold Wit, W1, log, set_prog; simpl.
  all: try solve [w1; exists r; repeat split; assumption].
  all: try (match goal with Hq : thr _ ?t = ?i :: _ |- _ => pose proof (head_ipr _ t i _ HP Hq) as Hi; simpl in Hi end).
  - (* IXAppend0 *) w1. exists r. split; [apply in_app_iff; left; exact Hin|]. rewrite upd_lt by exact Hr. auto.
  - (* cancel scan, in flight: stop_retry := true *) w1. exists r. split; [exact Hin|].
    destruct (Nat.eq_dec r n) as [->|Nn]; [rewrite upd_same; simpl; auto|rewrite (upd_other _ _ _ _ Nn); auto].
  - (* cancel scan, idle: removed; the canceller is about to cancel the future *)
    destruct (Nat.eq_dec r n) as [->|Nn].
    + w6. exists t. simpl. rewrite upd_same. simpl. apply find_fut_some in Heqo. destruct Heqo as [_ <-]. apply Nat.eqb_refl.
    + w1. exists r. split; [apply in_remove_id; split; assumption|auto].
  - (* _retry *) destruct Hi as (_ & d' & Ed & _).
    w1. exists r. split; [apply in_app_iff; left; apply in_remove_id; split; [exact Hin|congruence]|].
    rewrite upd_lt by exact Hr. auto.
  - (* _pop_job *) destruct (Nat.eq_dec r r0) as [->|Nn].
    + assert (Ho : In (IXPop r0) (thr s t)) by (rewrite Heql; left; reflexivity).
      destruct (HX t r0 Ho Hjd) as [o Eo]. rewrite Heql in Eo. inversion Eo; subst l.
      w4. exists t. simpl. rewrite upd_same. simpl. apply Nat.eqb_refl.
    + w1. exists r. split; [apply in_remove_id; split; assumption|auto].
  - (* _submit_now takes the record *) destruct (Nat.eq_dec r r0) as [->|Nn].
    + w5. exists t, r0. simpl. rewrite upd_same. simpl. split; [apply Nat.eqb_refl|reflexivity].
    + w1. exists r. split; [apply in_remove_id; split; assumption|auto].
  - w1. exists r. split; [apply in_app_iff; left; exact Hin|]. rewrite upd_lt by exact Hr. auto.
  - w1. exists r. split; [apply in_app_iff; left; exact Hin|]. rewrite upd_lt by exact Hr. auto.
Qed.

Lemma addhd_chainhd d r p : addhd d p = true -> chainhd d r p = true.
Proof.
  destruct p as [|i p]; [discriminate|]. destruct i; try discriminate; simpl; auto.
Qed.
Lemma f_srnc_keeps x n b : f_srnc x = Some (n, b) -> fdone n = fdone x.
Proof. destruct x; simpl; intros H; inversion H; reflexivity. Qed.
Lemma f_set_fin x n : f_set x = Some n -> n = Finished.
Proof. destruct x; simpl; intros H; inversion H; reflexivity. Qed.

Lemma keep2 s e s' j : SI s -> step0 s e = Some s' -> W2 s j -> Wit s' j.
Proof.
  intros HS H (r & d & Hin & Hjf & Hjd & Hnd).
  assert (Hr : r < nrec s) by (apply (ri_jobs s (si_ri s HS)); exact Hin).
  pose proof (si_pi s HS) as HP.
  assert (Hd : d < ndel s) by (apply (pi_del s HP r d Hr Hjd)).
  s0inv H.
  all: try (match goal with inl : option outcome |- _ => destruct inl end).
  all: bsplit; subst.
  all: unfold Wit, W2, log, set_prog; simpl.
  all: try solve [w2; exists r, d; repeat split; assumption].
  all: try (match goal with Hq : thr _ ?t = ?i :: _ |- _ => pose proof (head_ipr _ t i _ HP Hq) as Hi; simpl in Hi end).
  - w2. exists r, d. split; [apply in_app_iff; left; exact Hin|]. rewrite upd_lt by exact Hr. auto.
  - w2. exists r, d. split; [exact Hin|].
    destruct (Nat.eq_dec r n) as [->|Nn]; [rewrite upd_same; simpl; auto|rewrite (upd_other _ _ _ _ Nn); auto].
  - w2. exists r, d. split; [apply in_remove_id; split; [exact Hin|congruence]|auto].
  - destruct Hi as (_ & d' & Ed & _ & Ef & _).
    assert (r <> r0) by (intros ->; rewrite Ed in Hjd; inversion Hjd; subst; rewrite Ef in Hnd; discriminate).
    w2. exists r, d. split; [apply in_app_iff; left; apply in_remove_id; split; assumption|].
    rewrite upd_lt by exact Hr. auto.
  - destruct Hi as (_ & Ed).
    assert (r <> r0) by (intros ->; destruct (Ed _ Hjd) as [_ Ef]; rewrite Ef in Hnd; discriminate).
    w2. exists r, d. split; [apply in_remove_id; split; assumption|auto].
  - destruct Hi as (_ & Ed & _).
    w2. exists r, d. split; [apply in_remove_id; split; [exact Hin|congruence]|auto].
  - destruct Hi as (Hr0 & Ed & Ej & Hd0).
    destruct (Nat.eq_dec d d1) as [->|Nd].
    + assert (r = r0) by (apply (si_inj s HS r r0 d1); assumption). subst r0.
      w6. exists t. simpl. rewrite upd_same. simpl. rewrite upd_same, (f_cancel_can _ _ Heqp), Ej, Nat.eqb_refl. reflexivity.
    + w2. exists r, d. rewrite (upd_other _ _ _ _ Nd). auto.
  - destruct Hi as (Hr0 & Ed & Ej & Hd0).
    destruct (Nat.eq_dec d d1) as [->|Nd].
    + assert (r = r0) by (apply (si_inj s HS r r0 d1); assumption). subst r0.
      w6. exists t. simpl. rewrite upd_same. simpl. rewrite Ej, Nat.eqb_refl. reflexivity.
    + w2. exists r, d. rewrite (upd_other _ _ _ _ Nd). auto.
  - w2. exists r, d. split; [apply in_app_iff; left; exact Hin|]. rewrite !upd_lt by assumption. auto.
  - w2. exists r, d. split; [apply in_app_iff; left; exact Hin|]. rewrite !upd_lt by assumption. auto.
  - w2. exists r, d. repeat split; auto.
    destruct (Nat.eq_dec d d0) as [->|Nd]; [rewrite upd_same, (f_srnc_keeps _ _ _ Heqo); exact Hnd|rewrite (upd_other _ _ _ _ Nd); exact Hnd].
  - destruct (Nat.eq_dec d d0) as [->|Nd].
    + w3. apply f_set_fin in Heqo0. subst f. destruct (dcb s d0) eqn:Ec.
      * exists r, d0, t. simpl. rewrite !upd_same. simpl. rewrite Nat.eqb_refl. auto.
      * destruct (si_ap s HS d0 Hd Ec) as [u Hu].
        assert (Nu : u <> t) by (intros ->; rewrite Heql in Hu; discriminate Hu).
        exists r, d0, u. simpl. rewrite upd_same, (upd_other _ _ _ _ Nu). repeat split; auto. apply addhd_chainhd, Hu.
    + w2. exists r, d. rewrite (upd_other _ _ _ _ Nd). auto.
  - (* somebody else cancels the delegate future *)
    destruct (Nat.eq_dec d d0) as [->|Nd].
    + w7. exists r, d0. simpl. rewrite upd_same. repeat split; auto.
      * destruct (ds s d0); simpl in *; congruence.
      * exists (clock s). left. reflexivity.
    + w2. exists r, d. rewrite (upd_other _ _ _ _ Nd). auto.
Qed.
