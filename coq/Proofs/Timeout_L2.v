(* C04 for the Timeout machine, part 2: every thread's program is lock-balanced for exactly the
   locks the thread owns (static lock discipline `chk`), as an inductive invariant. *)
From Coq Require Import List ZArith Bool Arith Lia.
From RecordUpdate Require Import RecordSet.
From ME Require Import Base.Machine Base.Fut Base.GenPrelude Gen.TimeoutGen Proofs.Timeout_Spec Model.Timeout
                       Proofs.Timeout_Inv Proofs.Timeout_L1.
Import ListNotations RecordSetNotations.

(* the locks a thread holds: the gate G, the jobs lock X, at most one future lock M_j *)
Record hs := mkH { hg : bool; hx : bool; hm : option nat }.
Definition emp : hs := mkH false false None.
Definition nomx (H : hs) : bool := negb (hx H) && isnone (hm H).
Definition holdsm (j : nat) (H : hs) : bool :=
  match hm H with Some j' => Nat.eqb j j' && negb (hx H) | None => false end.
Definition is_emp (H : hs) : bool := negb (hg H) && nomx H.

(* static lock effect of one instruction (None = the instruction may not occur in this lock context);
   instructions that stand for "rest of a critical section" (ICancelled, IDoneC, IDoneA, IDCancel:
   their expansions end with the release of M_j) count as the release.
   c d = "delegate d exists and is cancelled" (needed where _delegate_resolved runs re-entrantly
   inside cancel(): there it must take the early `return`). *)
Definition eff (c : nat -> bool) (i : instr) (H : hs) : option hs :=
  match i with
  | IAcqG => if is_emp H then Some (mkH true false None) else None
  | IRelG => if hg H && nomx H then Some emp else None
  | IDSubmit _ | IClockD _ _ | IXAppend _ => if hg H && nomx H then Some emp else None   (* the rest of submit_timeout: ends with leaving the gate *)
  | IAcqMSet j _ | IAcqM j => if nomx H then Some (mkH (hg H) false (Some j)) else None
  | ITCancel _ => if is_emp H then Some H else None
  | IRelM j | IRelMCbs j | ICancelled j | IDoneC j | IDoneA j _ | IDCancel j _ =>
      if holdsm j H then Some (mkH (hg H) false None) else None
  | IFCancel j | IFSrnc j | IFSetRes j _ | IFSetExc j _ => if holdsm j H then Some H else None
  | IDCancelledQ j d =>
      match hm H with
      | None => if hx H then None else Some H
      | Some _ => if holdsm j H && c d then Some H else None
      end
  | IAddCbD _ _ | IDoneQ _ | IUserCb _ _ | IEvSet | IRet | IRetB _ => if nomx H then Some H else None
  | IPDone _ => if hx H && negb (hg H) && isnone (hm H) then Some H else None
  | IClockP | IXRelP => if hx H && negb (hg H) && isnone (hm H) then Some emp else None   (* IClockP: the rest of the partition *)
  | IWaitCalc _ | IWWait _ | IWWoke | IWClear => if is_emp H then Some H else None
  end.

Fixpoint chk (c : nat -> bool) (H : hs) (p : list instr) : bool :=
  match p with
  | [] => is_emp H
  | i :: r => match eff c i H with Some H1 => chk c H1 r | None => false end
  end.

Lemma eff_mono c c' i H H1 : (forall d, c d = true -> c' d = true) -> eff c i H = Some H1 -> eff c' i H = Some H1.
Proof.
  intros M. destruct i; simpl; auto. destruct (hm H); auto.
  destruct (holdsm j H); simpl; auto. destruct (c d) eqn:E; [rewrite (M _ E); auto|discriminate].
Qed.
Lemma chk_mono c c' H p : (forall d, c d = true -> c' d = true) -> chk c H p = true -> chk c' H p = true.
Proof.
  intros M. revert H. induction p as [|i r IH]; intros H; simpl; auto.
  destruct (eff c i H) eqn:E; [|discriminate]. rewrite (eff_mono _ _ _ _ _ M E). apply IH.
Qed.

Lemma chk_app c H p q : chk c H (p ++ q) =
  (fix go H p := match p with [] => chk c H q | i :: r => match eff c i H with Some H1 => go H1 r | None => false end end) H p.
Proof. revert H. induction p as [|i r IH]; intros H; simpl; auto. destruct (eff c i H); auto. Qed.

(* instruction blocks without lock effect, runnable when neither X nor a future lock is held *)
Lemma chk_ret_of c H t b q : nomx H = true -> chk c H (ret_of t b ++ q) = chk c H q.
Proof. intros N. unfold ret_of. destruct (Nat.eqb t jt); simpl; [reflexivity|]. rewrite N. reflexivity. Qed.
Lemma chk_cb_prog c H j cb q : nomx H = true -> chk c H (cb_prog j cb ++ q) = chk c H q.
Proof. intros N. destruct cb; simpl; rewrite N; reflexivity. Qed.
Lemma chk_cbs_prog c H j l q : nomx H = true -> chk c H (cbs_prog j l ++ q) = chk c H q.
Proof.
  intros N. induction l as [|cb r IH]; [reflexivity|]. unfold cbs_prog in *. simpl flat_map.
  rewrite <- app_assoc, chk_cb_prog; auto.
Qed.
Lemma chk_map_tc c l q : chk c emp (map ITCancel l ++ q) = chk c emp q.
Proof. induction l; simpl; auto. Qed.
Lemma chk_map_pd c (l : list tjob) q : chk c (mkH false true None) (map (fun job => IPDone (tj_id job)) l ++ q) = chk c (mkH false true None) q.
Proof. induction l; simpl; auto. Qed.
Lemma chk_stamp c H s p : chk c H (stamp s p) = chk c H p.
Proof. unfold stamp. destruct p as [|[] r]; try reflexivity. destruct e; reflexivity. Qed.

(* ownership as seen from thread t *)
Definition holds (s : st) (t : nat) (H : hs) : Prop :=
  (gown s = Some t <-> hg H = true) /\ (xown s = Some t <-> hx H = true) /\
  (forall j, mown s j = Some t <-> hm H = Some j).

Definition Inv11 (s : st) : Prop := forall t, exists H, chk (cs s) H (thr s t) = true /\ holds s t H.

Definition okch (t : nat) (a b : option nat) : Prop :=
  a = b \/ ((a = None \/ a = Some t) /\ (b = None \/ b = Some t)).

Lemma holds_other s s' t t' H : t' <> t ->
  okch t (gown s) (gown s') -> okch t (xown s) (xown s') -> (forall j, okch t (mown s j) (mown s' j)) ->
  holds s t' H -> holds s' t' H.
Proof.
  intros Ne G X M [H1 [H2 H3]].
  assert (K : forall a b, okch t a b -> (a = Some t' <-> b = Some t')).
  { intros a b [->|[[->| ->] [->| ->]]]; split; intros Q; try exact Q; try discriminate Q; exfalso; apply Ne; congruence. }
  split; [rewrite <- (K _ _ G); exact H1|]. split; [rewrite <- (K _ _ X); exact H2|].
  intros j. rewrite <- (K _ _ (M j)). apply H3.
Qed.

Lemma issome_false {A} (o : option A) : issome o = false -> o = None.
Proof. destruct o; unfold issome, isnone; simpl; [discriminate|reflexivity]. Qed.

Ltac norm_hyps :=
  repeat match goal with
         | E : _ || _ = false |- _ => apply orb_false_iff in E; destruct E
         | E : _ && _ = true |- _ => apply andb_true_iff in E; destruct E
         | E : negb (Nat.eqb _ _) = false |- _ => apply negb_false_iff, Nat.eqb_eq in E; subst
         | E : Nat.eqb _ _ = true |- _ => apply Nat.eqb_eq in E; subst
         | E : issome _ = false |- _ => apply issome_false in E
         end.

Ltac okch_tac :=
  unfold okch; simpl; try (left; reflexivity);
  try (let jz := fresh "jz" in let Ej := fresh "Ej" in
       intros jz; unfold upd; destruct (Nat.eqb jz _) eqn:Ej; [apply Nat.eqb_eq in Ej; subst|left; reflexivity]);
  right; repeat match goal with
                | E : gown _ = _ |- _ => rewrite E
                | E : xown _ = _ |- _ => rewrite E
                | E : mown _ _ = _ |- _ => rewrite E
                end; split; auto.

Ltac holds_tac M :=
  let M1 := fresh "M1" in let M2 := fresh "M2" in let M3 := fresh "M3" in
  let jz := fresh "jz" in let Ej := fresh "Ej" in
  unfold holds in *; simpl in *; destruct M as [M1 [M2 M3]];
  split; [|split];
  try (intros jz; specialize (M3 jz); unfold upd;
       try (destruct (Nat.eqb jz _) eqn:Ej; [apply Nat.eqb_eq in Ej; subst|apply Nat.eqb_neq in Ej]));
  intuition (try congruence; try discriminate).

Ltac other_thread A CM t t' n :=
  let Hh := fresh "Hh" in let Cc := fresh "Cc" in let Mm := fresh "Mm" in
  destruct (A t') as [Hh [Cc Mm]]; exists Hh; split;
  [ simpl; unfold upd; try rewrite (proj2 (Nat.eqb_neq _ _) n); apply (chk_mono _ _ _ _ CM Cc)
  | eapply (holds_other _ _ t); [exact n|okch_tac|okch_tac|okch_tac|exact Mm] ].

Local Opaque ret_of cb_prog cbs_prog.
Arguments cs : simpl never.

Lemma cs_fire s s' d j pre f : Inv10 s -> dcb s d = Some j -> f_cancel pre = (f, true) ->
  ndel s' = ndel s -> ds s' d = f -> cs s' d = true.
Proof.
  intros I D F N E. unfold cs. rewrite N, E. destruct (q_dcb s I _ _ D) as [tmo [ts P]].
  destruct (q_lt s I _ _ _ _ P) as [_ L]. apply Nat.ltb_lt in L. rewrite L. simpl.
  pose proof (f_cancel_true_cancelled pre) as K. rewrite F in K. simpl in K. auto.
Qed.

Lemma weird_branch s t j j' d l : Inv10 s -> thr s t = IDCancel j d :: l -> dcb s d = Some j' -> Nat.eqb j' j = false -> False.
Proof.
  intros I E D N. apply Nat.eqb_neq in N. apply N. symmetry.
  apply (q_fun s I j j' d); [|apply (q_dcb s I _ _ D)].
  apply (q_prog s I t). unfold pairs. rewrite E, ext_cons. simpl. auto.
Qed.


Ltac chk_goal Cc :=
  simpl thr; rewrite ?upd_same; rewrite ?chk_stamp;
  try match goal with E : thr _ _ = _ |- _ => rewrite E end;
  simpl; unfold holdsm, nomx, is_emp; simpl;
  repeat (rewrite Nat.eqb_refl; simpl);
  repeat first [ rewrite chk_ret_of by reflexivity | rewrite chk_cb_prog by reflexivity
               | rewrite chk_cbs_prog by reflexivity | rewrite chk_map_tc | rewrite chk_map_pd ];
  simpl; unfold holdsm, nomx, is_emp; simpl; repeat (rewrite Nat.eqb_refl; simpl); first [exact Cc | reflexivity].

Ltac try_cand Cc Mm H' := exists H'; split; [chk_goal Cc|holds_tac Mm].

Ltac self_thread A CM :=
  match goal with E : thr _ ?t = _ |- _ =>
    let g := fresh "g" in let x := fresh "x" in let m := fresh "m" in let jm := fresh "jm" in
    let Cc := fresh "Cc" in let Mm := fresh "Mm" in
    destruct (A t) as [[g x m] [Cc Mm]]; rewrite E in Cc; apply (chk_mono _ _ _ _ CM) in Cc; simpl in Cc; unfold holdsm, nomx, is_emp in Cc; simpl in Cc;
    destruct g, x, m as [jm|]; simpl in Cc; try discriminate Cc;
    repeat (match type of Cc with context [Nat.eqb ?a ?b] => destruct (Nat.eqb a b) eqn:? end; simpl in Cc; try discriminate Cc);
    repeat (match type of Cc with context [cs ?a ?b] => destruct (cs a b) eqn:? end; simpl in Cc; try discriminate Cc);
    norm_hyps;
    try solve [ exfalso; match goal with Ec : cs _ _ = true, Ep : negb (fstate_eqb _ _) = false |- _ =>
                  unfold cs in Ec; simpl in Ec; apply andb_true_iff in Ec; destruct Ec as [_ Ec];
                  apply pre_eq in Ep; subst; congruence end ];
    first [ solve [try_cand Cc Mm (mkH false false None)] | solve [try_cand Cc Mm (mkH true false None)]
          | solve [try_cand Cc Mm (mkH false true None)]
          | match goal with |- context [upd (mown _) ?j (Some _)] =>
              first [ solve [try_cand Cc Mm (mkH false false (Some j))] | solve [try_cand Cc Mm (mkH true false (Some j))] ] end
          | match goal with jm : nat |- _ =>
              first [ solve [try_cand Cc Mm (mkH false false (Some jm))] | solve [try_cand Cc Mm (mkH true false (Some jm))] ] end
          | idtac ]
  end.

Lemma inv11_step0 s e s' : Inv10 s -> Inv11 s -> step0 s e = Some s' -> Inv11 s'.
Proof.
  intros I10 A H. pose proof (fun d => cs_mono s e s' d H) as CM. step0_cases H.
  all: try match goal with E : wait_view _ = _ |- _ => apply wait_view_inv in E; destruct E as [E|[E _]] end.
  all: norm_hyps.
  all: intros t'; match goal with E : thr _ ?t = _ |- _ =>
         let ne := fresh "ne" in destruct (Nat.eq_dec t' t) as [->|ne]; [|solve [other_thread A CM t t' ne]] end.
  all: self_thread A CM.
  all: try solve [exfalso; eapply weird_branch; eauto].
  all: try match goal with |- context [chk (cs ?st) _ _] =>
         assert (CS : cs st d0 = true) by (eapply cs_fire; eauto; simpl; rewrite ?upd_same; reflexivity) end.
  all: match goal with Mm : holds _ _ {| hg := ?g; hx := false; hm := Some ?jm |} |- _ =>
         exists (mkH g false (Some jm)); split;
         [ simpl thr; rewrite ?upd_same, ?chk_stamp; simpl; unfold holdsm, nomx, is_emp; simpl;
           rewrite ?Nat.eqb_refl; simpl; rewrite CS; simpl; repeat (rewrite Nat.eqb_refl; simpl);
           rewrite chk_ret_of by reflexivity; exact Cc
         | holds_tac Mm ] end.
Qed.

Lemma inv11_init : Inv11 init.
Proof. intros t. exists emp. split; [reflexivity|]. repeat split; simpl; intros; discriminate. Qed.

Lemma inv11_reach s : reachable_from step init s -> Inv11 s.
Proof.
  apply invariant_rule_r; [exact inv11_init|]. intros s0 e s1 R I H.
  apply step_split in H. destruct H as [_ H]. eapply inv11_step0; [| |exact H].
  - destruct (inv10_reach s0 R) as [A B C D E]. split; auto.
  - intros t. destruct (I t) as [H0 [C M]]. exists H0. split; [exact C|exact M].
Qed.

