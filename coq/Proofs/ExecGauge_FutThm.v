(* Future-side laws of Model/ExecGauge.v on the product machine. *)
From Coq Require Import ZArith List Bool Arith Lia.
From ME Require Import Base.Machine Model.ExecGauge Proofs.ExecGauge_Defs Proofs.ExecGauge_Thm Proofs.ExecGauge_Fut.
Import ListNotations.
Local Open Scope Z_scope.

Lemma finv_reach s : reachable s -> FInv (fu s).
Proof.
  apply (invariant_rule step (fun s => FInv (fu s)) init).
  - exact finv_init.
  - intros s0 e s1 I H. destruct (step_split _ _ _ H) as [[x [_ [_ Hx]]]|[f [_ [Hf _]]]].
    + rewrite Hx. exact I.
    + eapply finv_step; eauto.
Qed.

(* numbers of futures of series q, read off the futures themselves; `seen` lists every future track_future was
   ever called on, each once (future_seen_exact) *)
Definition n_tracked (s : st) (q : nat) : nat := countb (fun f => p_own q (fs (fu s) f)) (seen (fu s)).
Definition n_inprogress (s : st) (q : nat) : nat := countb (fun f => p_prog q (fs (fu s) f)) (seen (fu s)).
Definition n_counted (k : kind) (s : st) (q : nat) : nat := countb (fun f => p_cnt k q (fs (fu s) f)) (seen (fu s)).
Definition n_done (k : kind) (s : st) (q : nat) : nat := countb (fun f => p_done k q (fs (fu s) f)) (seen (fu s)).
(* no record_done of series q is in the middle of its updates *)
Definition no_recording (s : st) (q : nat) : Prop := forall f, p_rec q (fs (fu s) f) = false.

Section Fut.
Variable s : st.
Hypothesis R : reachable s.

Theorem future_seen_exact : NoDup (seen (fu s)) /\ forall f, In f (seen (fu s)) <-> fs (fu s) f <> SNone.
Proof. destruct (finv_reach s R) as [D [M _]]. split; assumption. Qed.

(* inprogress = number of tracked futures whose record_done has not run; never negative *)
Theorem future_gauge_exact q : fprog (fu s) q = Z.of_nat (n_inprogress s q) /\ 0 <= fprog (fu s) q.
Proof.
  destruct (finv_reach s R) as [_ [_ I]]. destruct (I q) as [_ [P _]].
  unfold n_inprogress. unfold cnt in P. rewrite P. split; [reflexivity|lia].
Qed.

Theorem future_counters q :
  ftot (fu s) q = Z.of_nat (n_tracked s q)
  /\ fcancel (fu s) q = Z.of_nat (n_counted KCancel s q)
  /\ ferr (fu s) q = Z.of_nat (n_counted KErr s q)
  /\ fcancel (fu s) q + ferr (fu s) q <= ftot (fu s) q - fprog (fu s) q.
Proof.
  destruct (finv_reach s R) as [_ [_ I]]. destruct (I q) as [T [P [C E]]]. unfold cnt in *.
  split; [exact T|]. split; [exact C|]. split; [exact E|].
  rewrite T, P, C, E.
  pose proof (countb_le3 (fun f => p_cnt KCancel q (fs (fu s) f)) (fun f => p_cnt KErr q (fs (fu s) f))
                         (fun f => p_prog q (fs (fu s) f)) (fun f => p_own q (fs (fu s) f)) (seen (fu s))) as L.
  assert (forall f, (b2n (p_cnt KCancel q (fs (fu s) f)) + b2n (p_cnt KErr q (fs (fu s) f)) + b2n (p_prog q (fs (fu s) f))
                     <= b2n (p_own q (fs (fu s) f)))%nat) as Pt.
  { intros f. destruct (fs (fu s) f) as [|l|l|l c|l c]; simpl; try lia;
      destruct (Nat.eqb q l); simpl; try lia; destruct c; simpl; lia. }
  specialize (L Pt). lia.
Qed.

(* when no record_done of the series is half-way, the counters are the numbers of futures whose REAL outcome
   (carried by FEnd) was cancelled / failed, and total - inprogress is the number recorded *)
Theorem future_counters_at_rest q : no_recording s q ->
  fcancel (fu s) q = Z.of_nat (n_done KCancel s q)
  /\ ferr (fu s) q = Z.of_nat (n_done KErr s q)
  /\ ftot (fu s) q - fprog (fu s) q
     = Z.of_nat (n_done KOk s q + n_done KCancel s q + n_done KErr s q + countb (fun f => match fs (fu s) f with STot l => Nat.eqb q l | _ => false end) (seen (fu s))).
Proof.
  intros NR. destruct (future_counters q) as [T [C [E _]]]. destruct (future_gauge_exact q) as [P _].
  assert (forall k, n_counted k s q = n_done k s q) as CD.
  { intros k. unfold n_counted, n_done. apply countb_ext. intros f _. specialize (NR f).
    destruct (fs (fu s) f) as [|l|l|l c|l c]; simpl in *; try reflexivity. rewrite NR. reflexivity. }
  rewrite C, E, T, P, !CD. split; [reflexivity|]. split; [reflexivity|].
  unfold n_tracked, n_inprogress, n_done.
  induction (seen (fu s)) as [|f r IH]; [reflexivity|]. rewrite !countb_cons.
  specialize (NR f).
  assert ((b2n (p_own q (fs (fu s) f)) = b2n (p_prog q (fs (fu s) f)) + b2n (p_done KOk q (fs (fu s) f)) + b2n (p_done KCancel q (fs (fu s) f))
           + b2n (p_done KErr q (fs (fu s) f)) + b2n (match fs (fu s) f with STot l => Nat.eqb q l | _ => false end))%nat) as Pt.
  { destruct (fs (fu s) f) as [|l|l|l c|l c]; simpl in *; try lia;
      destruct (Nat.eqb q l); simpl in *; try lia; try discriminate; destruct c; simpl; lia. }
  lia.
Qed.
End Fut.

(* ---- step-level facts --------------------------------------------------------------------------------- *)
(* record_done for a future that is not in progress (untracked, or already recorded) is rejected *)
Theorem future_record_untracked_rejected s l f : fs (fu s) f <> STracked l -> step s (EF (FDec l f)) = None.
Proof.
  intros N. unfold step, step_gen. simpl. destruct (fs (fu s) f) as [|l0|l0|l0 c|l0 c] eqn:Ef; try reflexivity.
  destruct (Nat.eqb l0 l) eqn:El; [|reflexivity]. apply Nat.eqb_eq in El. subst l0. congruence.
Qed.

Theorem future_track_twice_rejected s l f : fs (fu s) f <> SNone -> step s (EF (FTotal l f)) = None.
Proof.
  intros N. unfold step, step_gen. simpl. destruct (fs (fu s) f); try reflexivity. congruence.
Qed.

(* the counter touched by record_done is the one of the future's real outcome *)
Theorem future_outcome_matches s l f k s' : step s (EF (FEnd l f k)) = Some s' ->
  fs (fu s) f = SRec l k /\ fs (fu s') f = SDone l k.
Proof.
  unfold step, step_gen. simpl. destruct (fs (fu s) f) as [|l0|l0|l0 c|l0 c] eqn:Ef; try discriminate.
  destruct (Nat.eqb l0 l) eqn:El; [|discriminate]. apply Nat.eqb_eq in El. subst l0.
  destruct (kind_eqb c k) eqn:Ek; [|discriminate].
  assert (c = k) by (destruct c, k; simpl in Ek; congruence). subst c.
  simpl. intros H; inversion H; subst; simpl. rewrite upd_same. split; reflexivity.
Qed.

(* an accepted observation of the real future at final quiescence: a future that is really done with outcome k
   has been recorded with outcome k (its record_done ran: it no longer counts as in progress); one that is really
   pending counts as in progress *)
Theorem future_obs_sound s f o s' : step s (EF (FObs f o)) = Some s' ->
  s' = s /\ match o with
            | Some k => exists l, fs (fu s) f = SDone l k
            | None => exists l, fs (fu s) f = STracked l
            end.
Proof.
  unfold step, step_gen. simpl.
  destruct (fs (fu s) f) as [|l0|l0|l0 c|l0 c] eqn:Ef; destruct o as [k|]; try discriminate.
  - intros H; inversion H; subst. split; [destruct s; reflexivity|]. exists l0. reflexivity.
  - destruct (kind_eqb c k) eqn:Ek; [|discriminate].
    assert (c = k) by (destruct c, k; simpl in Ek; congruence). subst c.
    intros H; inversion H; subst. split; [destruct s; reflexivity|]. exists l0. reflexivity.
Qed.
