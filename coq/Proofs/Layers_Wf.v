(* Layers, part 2: THE COMPOSITION LEMMA.  A layered program accepted by the layer-local checker `wf_layers`
   flattens to a program that respects the ONE global (lexicographic) lock order of Locks.ordered. *)
From Coq Require Import List Bool Arith Lia.
From ME Require Import Base.Machine Model.Locks Model.Layers Proofs.Layers_Exec.
Import ListNotations.

(* induction principle for the nested type lp *)
Section LpInd.
  Variable P : lp -> Prop.
  Hypothesis HA : forall k, P (LAcq k).
  Hypothesis HR : forall k, P (LRel k).
  Hypothesis HD : forall b, Forall P b -> P (LDown b).
  Hypothesis HU : forall b, Forall P b -> P (LUp b).
  Fixpoint lp_ind' (x : lp) : P x :=
    match x with
    | LAcq k => HA k
    | LRel k => HR k
    | LDown b => HD b ((fix go (l : list lp) : Forall P l :=
                          match l with [] => Forall_nil P | y :: r => Forall_cons y (lp_ind' y) (go r) end) b)
    | LUp b => HU b ((fix go (l : list lp) : Forall P l :=
                        match l with [] => Forall_nil P | y :: r => Forall_cons y (lp_ind' y) (go r) end) b)
    end.
End LpInd.

(* what the checker guarantees for one node, in every context *)
Definition sound1 (K : nat) (x : lp) : Prop :=
  forall above cur cur', bnds K above -> bnd K cur -> wf1 K above cur x = Some cur' ->
    bnd K cur' /\
    exec (gstack K cur above) (flat1 K (length above) x) = Some (gstack K cur' above).

Definition sounds (K : nat) (p : list lp) : Prop :=
  forall above cur cur', bnds K above -> bnd K cur -> wfs K above cur p = Some cur' ->
    bnd K cur' /\
    exec (gstack K cur above) (flat K (length above) p) = Some (gstack K cur' above).

Lemma sounds_of_Forall K p : Forall (sound1 K) p -> sounds K p.
Proof.
  induction p as [|x r IH]; intros HF above cur cur' Ha Hc Hw.
  - unfold wfs in Hw. simpl in Hw. inversion Hw; subst. split; auto.
  - inversion HF as [|? ? Hx Hr]; subst. unfold wfs in Hw. simpl in Hw.
    destruct (wf1 K above cur x) as [c1|] eqn:E1; [|discriminate].
    destruct (Hx above cur c1 Ha Hc E1) as [Hc1 X1].
    destruct (IH Hr above c1 cur' Ha Hc1 Hw) as [Hc' X2].
    split; auto. unfold flat. simpl. rewrite exec_app, X1. exact X2.
Qed.

Lemma sound1_all K x : sound1 K x.
Proof.
  induction x as [k|k|b IHb|b IHb] using lp_ind'; intros above cur cur' Ha Hc Hw; simpl in Hw.
  - (* LAcq *)
    destruct (acq_ok K cur k) eqn:Ek; [|discriminate]. inversion Hw; subst cur'; clear Hw.
    destruct (acq_ok_global K above cur k Ha Hc Ek) as [HK G].
    split; [constructor; auto|].
    simpl. rewrite G. rewrite gstack_cons. reflexivity.
  - (* LRel *)
    destruct cur as [|h r]; [discriminate|].
    destruct (Nat.eqb h k) eqn:E; [|discriminate]. apply Nat.eqb_eq in E. subst h.
    inversion Hw; subst cur'; clear Hw.
    split; [inversion Hc; auto|].
    simpl. rewrite gstack_cons. rewrite Nat.eqb_refl. reflexivity.
  - (* LDown *)
    destruct (ofold (wf1 K (cur :: above)) [] b) as [[|z zs]|] eqn:Eb; try discriminate.
    inversion Hw; subst cur'; clear Hw. split; auto.
    assert (Ha' : bnds K (cur :: above)) by (constructor; auto).
    assert (Hn : bnd K []) by constructor.
    destruct (sounds_of_Forall K b IHb (cur :: above) [] [] Ha' Hn Eb) as [_ X].
    exact X.
  - (* LUp *)
    destruct cur as [|c cs]; [|discriminate].
    destruct above as [|a ab]; [discriminate|].
    destruct (ofold (wf1 K ab) a b) as [a'|] eqn:Eb; [|discriminate].
    destruct (list_eqb a' a) eqn:Ea; [|discriminate]. apply list_eqb_eq in Ea. subst a'.
    inversion Hw; subst cur'; clear Hw. split; [constructor|].
    inversion Ha as [|? ? Ha1 Ha2]; subst.
    destruct (sounds_of_Forall K b IHb ab a a Ha2 Ha1 Eb) as [_ X].
    exact X.
Qed.

Lemma sounds_all K p : sounds K p.
Proof. apply sounds_of_Forall. apply Forall_forall. intros x _. apply sound1_all. Qed.

(* the composition lemma: layer-local discipline + lock-free upward calls ==> one global order *)
Theorem wf_layers_ordered : forall K i0 p,
  wf_layers K i0 p = true -> ordered [] (flat K i0 p) = true.
Proof.
  intros K i0 p H. unfold wf_layers in H.
  destruct (wfs K (repeat [] i0) [] p) as [[|z zs]|] eqn:E; try discriminate.
  assert (Hn : bnd K []) by constructor.
  destruct (sounds_all K p (repeat [] i0) [] [] (bnds_repeat K i0) Hn E) as [_ X].
  rewrite repeat_length, gstack_nil_repeat in X.
  apply exec_ordered. exact X.
Qed.
