(* Witness traces (taken from implementation histories, corpus/C08/*.json, cut at the offending poll call)
   showing that the strict reading (relative to the entry of the poll function) of "exact descriptor set" fails for the faithful model. *)
From Coq Require Import ZArith List Bool Arith Lia.
From ME Require Import Base.Machine Base.Fut Base.GenPrelude Model.Poll Proofs.Poll_Inv Proofs.Poll_Prov.
Import ListNotations.
Local Open Scope Z_scope.

Definition state_of (w : list (list Z)) : st :=
  match decode_all w with
  | Some es => match run step init es with Some s => s | None => init end
  | None => init
  end.
Definition accepted (w : list (list Z)) : bool :=
  match decode_all w with
  | Some es => match run step init es with Some _ => true | None => false end
  | None => false
  end.

Lemma accepted_reachable w : accepted w = true -> reachable (state_of w).
Proof.
  unfold accepted, state_of, reachable, reachable_from. destruct (decode_all w) as [es|]; [|discriminate].
  destruct (run step init es) eqn:E; [|discriminate]. intros _. exists es. exact E.
Qed.

(* corpus/C08/window-missing.json *)
Definition w_missing : list (list Z) :=
  (* verdict [-1] events 26 future 0 eligible since 33 missing from the poll that began at 35 (snapshot 20) *)
   [[0; 0; 0; 2];
    [0; 1; 1];
    [0; 4; 1];
    [0; 6; 1; 0; 0; 0; 0];
    [0; 12; 1; 0];
    [0; 14; 1; 1; 0; 0];
    [0; 13; 1; 0];
    [0; 15; 1; 5; 0; 0];
    [0; 5; 1];
    [0; 11; 1; 0];
    [0; 7; 0];
    [0; 16; 0];
    [0; 18; 0; 0; 0];
    [0; 21; 1];
    [2; 22; 1];
    [2; 23];
    [2; 7; 0];
    [2; 25; 2; 0; 0; 0; 100];
    [2; 15; 2; 0; 0; 4];
    [2; 8; 2];
    [2; 12; 2; 0];
    [2; 13; 2; 0];
    [2; 10; 2];
    [2; 9; 2];
    [2; 11; 2; 0];
    [2; 16; 0]].

(* corpus/C08/window-stale-after-cancel.json *)
Definition w_cancel : list (list Z) :=
  (* verdict [-1] events 40 descriptor for future 0 whose resolving call returned at 51, poll began at 53 (snapshot 39) *)
   [[0; 0; 0; 2];
    [0; 7; 0];
    [0; 16; 0];
    [0; 1; 1];
    [0; 4; 1];
    [0; 6; 1; 0; 0; 0; 0];
    [0; 12; 1; 0];
    [0; 14; 1; 1; 0; 0];
    [0; 13; 1; 0];
    [0; 15; 1; 5; 0; 0];
    [0; 5; 1];
    [0; 11; 1; 0];
    [0; 18; 0; 0; 0];
    [0; 25; 2; 0; 0; 0; 100];
    [0; 15; 2; 0; 0; 4];
    [0; 8; 2];
    [0; 12; 2; 0];
    [0; 13; 2; 0];
    [0; 10; 2];
    [0; 9; 2];
    [0; 11; 2; 0];
    [0; 21; 0];
    [0; 23];
    [0; 7; 0];
    [0; 16; 0; 100];
    [0; 18; 0; 0; 0];
    [0; 21; 1];
    [2; 22; 1];
    [2; 23];
    [2; 7; 0];
    [2; 2; 1; 0];
    [2; 12; 1; 0];
    [2; 14; 1; 0; 0; 0];
    [2; 14; 1; 1; 0; 0];
    [2; 14; 1; 2; 0; 0];
    [2; 14; 1; 3; 0; 2];
    [2; 13; 1; 0];
    [2; 7; 1];
    [2; 11; 1; 2];
    [2; 16; 0; 100]].

Local Close Scope Z_scope.

(* strict reading, "none missing": a poll call begins although the delegate's completing call and submit()
   have returned for a still pending future that is not in the list it receives *)
Definition strict_missing (s : st) : Prop :=
  exists t l ts h j v,
    hist s = HPoll t l ts :: h /\ (exists ts1, In (HDRet j ts1) h) /\ (exists ts2, In (HSubmitRet j ts2) h) /\
    dok h j v /\ ps s j = Pending /\ ~ In (j, v) l.

(* strict reading, "none for a resolved future": the poll call receives a descriptor of a future whose
   cancel() had already returned True *)
Definition stale_after_cancel (s : st) : Prop :=
  exists t l ts h j v,
    hist s = HPoll t l ts :: h /\ In (j, v) l /\ (exists t' ts', In (HCancelRet t' j true ts') h).

Ltac in_solve := vm_compute; repeat first [left; reflexivity | right].

Lemma strict_missing_witness : exists s, reachable s /\ strict_missing s.
Proof.
  exists (state_of w_missing). split; [apply accepted_reachable; vm_compute; reflexivity|].
  unfold strict_missing. do 4 eexists. exists 0, 100. split; [vm_compute; reflexivity|].
  repeat split; try (eexists; in_solve); try (vm_compute; tauto).
Qed.

Lemma stale_after_cancel_witness : exists s, reachable s /\ stale_after_cancel s.
Proof.
  exists (state_of w_cancel). split; [apply accepted_reachable; vm_compute; reflexivity|].
  unfold stale_after_cancel. do 4 eexists. exists 0, 100. split; [vm_compute; reflexivity|].
  split; [in_solve|]. do 2 eexists. in_solve.
Qed.

(* non-vacuity: in the witness of the cancel race the poll function was called three times, a future was
   registered, shown, cancelled with cancel() = True and deregistered *)
Example poll_nonvacuous :
  let s := state_of w_cancel in
  accepted w_cancel = true /\ length (hist s) = 18 /\ descs s = [] /\ ps s 0 = CancelledNotified /\
  pmode s = PBody [(0, 100)].
Proof. vm_compute. repeat split. Qed.
