(* C03 for the Poll machine, part 7: witness traces (wire format of Model/Poll.v, hand-written after the
   implementation histories of corpus/C08) for the non-vacuity of the quiescence theorems. *)
From Coq Require Import ZArith List Bool Arith Lia.
From ME Require Import Base.Machine Base.Fut Base.GenPrelude Model.Poll Proofs.Poll_Inv Proofs.Poll_NoDup Proofs.Poll_Refute
     Proofs.Poll_N3 Proofs.Poll_N6.
Import ListNotations.
Local Open Scope Z_scope.

(* submit() by thread t creating future d on a pending delegate, at time ts *)
Definition w_submit (ts t d : Z) : list (list Z) :=
  [[ts; 1; t]; [ts; 4; t]; [ts; 6; t; d; 0; 0; 0]; [ts; 12; t; d]; [ts; 14; t; 1; d; 0]; [ts; 13; t; d];
   [ts; 15; t; 5; d; 0]; [ts; 5; t]; [ts; 11; t; 0]].
(* the environment (thread t) finishes pending delegate d with result v: _delegate_resolved, _register_poll *)
Definition w_finish (ts t d v : Z) : list (list Z) :=
  [[ts; 25; t; d; 0; 0; v]; [ts; 15; t; 0; d; 4]; [ts; 8; t]; [ts; 12; t; d]; [ts; 13; t; d]; [ts; 10; t];
   [ts; 9; t]; [ts; 11; t; 0]].
(* the poll thread: woken by a set(), clears the event, takes the snapshot *)
Definition w_wake_snap (ts : Z) : list (list Z) := [[ts; 22; 0]; [ts; 23]; [ts; 7; 0]].
(* ... the poll function returns nothing special, the thread goes to sleep *)
Definition w_ret_sleep (ts : Z) : list (list Z) := [[ts; 18; 0; 0; 0]; [ts; 21; 1]].

(* three futures: 0 is resolved by the poll function, 1 still waits for its delegate, 2 is being polled *)
Definition w_three : list (list Z) :=
  [[0; 0; 0; 2]] ++ w_submit 0 1 0 ++ w_submit 0 1 1 ++ w_submit 0 1 2 ++
  [[0; 7; 0]; [0; 16; 0]] ++ w_ret_sleep 0 ++
  w_finish 1 2 0 100 ++ w_wake_snap 1 ++
  [[1; 16; 0; 100]; [1; 17; 0; 0; 0; 7]; [1; 12; 0; 0]; [1; 14; 0; 1; 0; 0]; [1; 14; 0; 4; 0; 0]; [1; 13; 0; 0]; [1; 7; 0]] ++
  w_ret_sleep 1 ++
  w_finish 1 2 2 200 ++ w_wake_snap 1 ++ [[1; 16; 0; 200]] ++ w_ret_sleep 1.

(* PollFuture.cancel() while the delegate is pending: delegate.cancel() succeeds, _delegate_resolved returns at
   once (cancelled delegate), no descriptor so no veto, super().cancel(), callbacks: deregistration *)
Definition w_cancel_pending : list (list Z) :=
  [[0; 0; 0; 2]] ++ w_submit 0 1 0 ++ [[0; 7; 0]; [0; 16; 0]] ++ w_ret_sleep 0 ++
  [[0; 2; 1; 0]; [0; 12; 1; 0]; [0; 14; 1; 0; 0; 0]; [0; 14; 1; 1; 0; 0]; [0; 15; 1; 2; 0; 0]; [0; 15; 1; 0; 0; 2];
   [0; 14; 1; 2; 0; 0]; [0; 14; 1; 3; 0; 2]; [0; 13; 1; 0]; [0; 7; 1]; [0; 11; 1; 2]].

(* defect G1: somebody else cancels the (pending) delegate future of poll future 0: the done-callback
   PollFuture._delegate_resolved runs inline, sees delegate.cancelled() and returns silently *)
Definition w_foreign_cancel : list (list Z) :=
  [[0; 0; 0; 2]] ++ w_submit 0 1 0 ++ [[0; 7; 0]; [0; 16; 0]] ++ w_ret_sleep 0 ++
  [[0; 26; 2; 0; 0]; [0; 15; 2; 0; 0; 2]; [0; 11; 2; 0]].
(* ... and the poll thread's timed wake-ups go on for ever without being shown that future: three more rounds *)
Definition w_round (ts : Z) : list (list Z) := [[ts; 22; 1]; [ts; 23]; [ts; 7; 0]; [ts; 16; 0]] ++ w_ret_sleep ts.
Definition w_foreign_cancel_later : list (list Z) := w_foreign_cancel ++ w_round 2 ++ w_round 4 ++ w_round 6.
(* the only way out: the client calls cancel() on the lost poll future itself (delegate.cancel() answers True for
   the already cancelled delegate, no descriptor so no veto, super().cancel(), deregistration) *)
Definition w_foreign_cancel_then_cancel : list (list Z) :=
  w_foreign_cancel ++
  [[0; 2; 1; 0]; [0; 12; 1; 0]; [0; 14; 1; 0; 0; 0]; [0; 14; 1; 1; 0; 0]; [0; 15; 1; 2; 0; 2];
   [0; 14; 1; 2; 0; 0]; [0; 14; 1; 3; 0; 2]; [0; 13; 1; 0]; [0; 7; 1]; [0; 11; 1; 2]].
Local Close Scope Z_scope.


Ltac quiet_threads :=
  let t := fresh "t" in intros t _;
  do 4 (destruct t as [|t]; [vm_compute; reflexivity|]); vm_compute; reflexivity.

(* non-vacuity of poll_no_lost: a reachable quiescent state with one resolved future, one waiting for its
   delegate and one in the polling stage *)
Example three_example :
  let s := state_of w_three in
  accepted w_three = true /\ quiescent s /\ nfut s = 3 /\
  (ps s 0 = Finished /\ pout s 0 = Some (Ok 7)) /\
  (ps s 1 = Pending /\ waits_for_delegate s 1) /\
  (ps s 2 = Pending /\ in_polling_stage s 2) /\
  descs s = [(2, 200)] /\ last_snap (hist s) = Some [(2, 200)] /\ wblock s = Some (2, 1)%Z.
Proof.
  cbv zeta. split; [vm_compute; reflexivity|]. split.
  { split; [quiet_threads|]. split; vm_compute; reflexivity. }
  split; [vm_compute; reflexivity|]. split; [split; vm_compute; reflexivity|].
  split; [split; [vm_compute; reflexivity|split; vm_compute; reflexivity]|].
  split.
  { split; [vm_compute; reflexivity|]. split.
    - exists 200. split; [vm_compute; left; reflexivity|vm_compute; reflexivity].
    - exists 2%Z, 1%Z. vm_compute. reflexivity. }
  repeat split; vm_compute; reflexivity.
Qed.

(* in the model a delegate future is cancelled only through PollFuture.cancel(), which then cancels the
   poll future as well: the quiescent state after such a cancel() *)
Example cancel_example :
  let s := state_of w_cancel_pending in
  accepted w_cancel_pending = true /\ quiescent s /\ nfut s = 1 /\
  ds s 0 = Cancelled /\ ps s 0 = CancelledNotified /\ descs s = [] /\ dcb s 0 = false.
Proof.
  cbv zeta. split; [vm_compute; reflexivity|]. split.
  { split; [quiet_threads|]. split; vm_compute; reflexivity. }
  repeat split; vm_compute; reflexivity.
Qed.

(* (b) poll_lost_after_foreign_cancel: a reachable quiescent state in which the delegate future was cancelled by
   the environment and its poll future is still Pending and not registered anywhere: no callback parked on the
   delegate, no pending _delegate_resolved / _register_poll, no descriptor, never registered *)
Example foreign_cancel_example :
  let s := state_of w_foreign_cancel in
  accepted w_foreign_cancel = true /\ quiescent s /\ nfut s = 1 /\
  ds s 0 = Cancelled /\ ps s 0 = Pending /\ pout s 0 = None /\
  descs s = [] /\ dcb s 0 = false /\ tok s 0 = None /\ nreg 0 (hist s) = 0.
Proof.
  cbv zeta. split; [vm_compute; reflexivity|]. split.
  { split; [quiet_threads|]. split; vm_compute; reflexivity. }
  repeat split; vm_compute; reflexivity.
Qed.

(* the same future three poll intervals later: still Pending, the three poll calls were shown nothing *)
Example foreign_cancel_later_example :
  let s := state_of w_foreign_cancel_later in
  accepted w_foreign_cancel_later = true /\ quiescent s /\ clock s = 6%Z /\
  ds s 0 = Cancelled /\ ps s 0 = Pending /\ descs s = [] /\ last_snap (hist s) = Some [].
Proof.
  cbv zeta. split; [vm_compute; reflexivity|]. split.
  { split; [quiet_threads|]. split; vm_compute; reflexivity. }
  repeat split; vm_compute; reflexivity.
Qed.

(* the hypothesis "no cancel() on j" of lost_for_ever is needed: that call does resolve the future *)
Example foreign_cancel_then_cancel_example :
  let s := state_of w_foreign_cancel_then_cancel in
  accepted w_foreign_cancel_then_cancel = true /\ quiescent s /\
  ds s 0 = Cancelled /\ ps s 0 = CancelledNotified /\ descs s = [].
Proof.
  cbv zeta. split; [vm_compute; reflexivity|]. split.
  { split; [quiet_threads|]. split; vm_compute; reflexivity. }
  repeat split; vm_compute; reflexivity.
Qed.
