(* Layer 3: done-callbacks: effect summary of a step on callback tokens. *)
From Coq Require Import ZArith List Bool Arith Lia.
From RecordUpdate Require Import RecordSet.
From ME Require Import Base.Machine Base.Fut Base.GenPrelude Model.MapFut Proofs.MapFut_D0 Proofs.MapFut_D1 Proofs.MapFut_D2.
Import ListNotations RecordSetNotations.

Definition wA (j c : nat) (i : instr) : bool :=
  match i with IDoneA j' c' => Nat.eqb j j' && Nat.eqb c c' | _ => false end.
Definition wU (j c : nat) (i : instr) : bool :=
  match i with IUserCb j' c' _ => Nat.eqb j j' && Nat.eqb c c' | _ => false end.
Definition wH (j c : nat) (h : hev) : bool :=
  match h with HCb j' c' => Nat.eqb j j' && Nat.eqb c c' | _ => false end.
Definition cnt {A} (f : A -> bool) (l : list A) : nat := length (filter f l).

Lemma cnt_app {A} (f : A -> bool) a b : cnt f (a ++ b) = cnt f a + cnt f b.
Proof. unfold cnt. rewrite filter_app, app_length. reflexivity. Qed.
Lemma cnt_cons {A} (f : A -> bool) x l : cnt f (x :: l) = (if f x then 1 else 0) + cnt f l.
Proof. unfold cnt; simpl. destruct (f x); reflexivity. Qed.
Lemma cnt_zero {A} (f : A -> bool) l : (forall x, In x l -> f x = false) -> cnt f l = 0.
Proof.
  induction l; simpl; auto. intros H. rewrite cnt_cons, H by (left; reflexivity).
  apply IHl. intros x Hx; apply H; right; exact Hx.
Qed.
Lemma cnt_pos_in {A} (f : A -> bool) l : cnt f l > 0 -> exists x, In x l /\ f x = true.
Proof.
  induction l; simpl; [unfold cnt; simpl; lia|]. rewrite cnt_cons. destruct (f a) eqn:E.
  - intros _. exists a; auto.
  - intros H. destruct IHl as (x & X1 & X2); [simpl in H; exact H|]. exists x; auto.
Qed.
Lemma in_cnt_pos {A} (f : A -> bool) l x : In x l -> f x = true -> cnt f l > 0.
Proof.
  induction l; simpl; [tauto|]. rewrite cnt_cons. intros [->|H] E; [rewrite E; lia|].
  specialize (IHl H E). lia.
Qed.

(* instructions and history events that are not callback tokens *)
Definition ncb (i : instr) : bool := match i with IDoneA _ _ | IUserCb _ _ _ => false | _ => true end.
Lemma ncb_w i : ncb i = true -> forall j c, wA j c i = false /\ wU j c i = false.
Proof. destruct i; simpl; intros; try discriminate; auto. Qed.
Lemma ncb_cnt p : forallb ncb p = true -> forall j c, cnt (wA j c) p = 0 /\ cnt (wU j c) p = 0.
Proof.
  intros H j c. rewrite forallb_forall in H.
  split; apply cnt_zero; intros x Hx; apply (ncb_w x (H x Hx)).
Qed.
Lemma ncb_fires s d : forallb ncb (fires s d []) = true.
Proof. unfold fires. rewrite app_nil_r. induction (ecbs s d); simpl; auto. Qed.
Lemma ncb_on_mapped s j x : forallb ncb (on_mapped s j x) = true.
Proof. unfold on_mapped; destruct (mkind s j), (mflat s j), x; reflexivity. Qed.

Definition cbs_of (j : nat) (l : list nat) : list instr := map (fun c => IUserCb j c false) l.

Inductive cbeff (s s0 : st) (t : nat) : Prop :=
| ce_neutral :
    (forall j c, cnt (wA j c) (thr s0 t) = cnt (wA j c) (thr s t)) ->
    (forall j c, cnt (wU j c) (thr s0 t) = cnt (wU j c) (thr s t)) ->
    (forall j c, cnt (wH j c) (hist s0) = cnt (wH j c) (hist s)) ->
    ((mcbs s0 = mcbs s /\ mreg s0 = mreg s /\ nfut s0 = nfut s) \/
     (mcbs s0 = upd (mcbs s) (nfut s) [] /\ mreg s0 = upd (mreg s) (nfut s) [] /\ nfut s0 = S (nfut s))) ->
    cbeff s s0 t
| ce_reg j c : thr s t = [] -> thr s0 t = [IAcqM j; IDoneA j c] -> mreg s0 = upd (mreg s) j (c :: mreg s j) ->
    ~ In c (mreg s j) -> j < nfut s -> mcbs s0 = mcbs s -> hist s0 = hist s -> ms s0 = ms s -> nfut s0 = nfut s -> cbeff s s0 t
| ce_add_done j c rest : thr s t = IDoneA j c :: rest -> thr s0 t = IRelM j :: IUserCb j c true :: IRet :: rest ->
    fdone (ms s j) = true -> mcbs s0 = mcbs s -> mreg s0 = mreg s -> hist s0 = hist s -> ms s0 = ms s -> nfut s0 = nfut s -> cbeff s s0 t
| ce_add_wait j c rest : thr s t = IDoneA j c :: rest -> thr s0 t = IRelM j :: IRet :: rest ->
    fdone (ms s j) = false -> mcbs s0 = upd (mcbs s) j (mcbs s j ++ [c]) -> mreg s0 = mreg s -> hist s0 = hist s ->
    ms s0 = ms s -> nfut s0 = nfut s -> cbeff s s0 t
| ce_flush j rest : thr s t = IRelMCbs j :: rest -> thr s0 t = cbs_of j (mcbs s j) ++ rest ->
    mcbs s0 = upd (mcbs s) j [] -> mreg s0 = mreg s -> hist s0 = hist s -> ms s0 = ms s -> nfut s0 = nfut s -> cbeff s s0 t
| ce_run j c b rest : thr s t = IUserCb j c b :: rest -> thr s0 t = rest -> hist s0 = HCb j c :: hist s ->
    mcbs s0 = mcbs s -> mreg s0 = mreg s -> ms s0 = ms s -> nfut s0 = nfut s -> cbeff s s0 t.

Lemma existsb_nat_false c l : existsb (Nat.eqb c) l = false -> ~ In c l.
Proof.
  intros H X. assert (existsb (Nat.eqb c) l = true); [|congruence].
  apply existsb_exists. exists c; split; [exact X|apply Nat.eqb_refl].
Qed.

Lemma lstep_thr_other s e s0 : lstep s e = Some s0 -> forall t', t' <> tid e -> thr s0 t' = thr s t'.
Proof. intros H. step_cases H; intros t' N; simpl in *; auto; rewrite upd_other by exact N; reflexivity. Qed.

Lemma cntA_fires j c s d r : cnt (wA j c) (fires s d r) = cnt (wA j c) r.
Proof. unfold fires. rewrite cnt_app. induction (ecbs s d); simpl; auto. Qed.
Lemma cntU_fires j c s d r : cnt (wU j c) (fires s d r) = cnt (wU j c) r.
Proof. unfold fires. rewrite cnt_app. induction (ecbs s d); simpl; auto. Qed.
Lemma cntA_on_mapped j c s j0 x r : cnt (wA j c) (on_mapped s j0 x ++ r) = cnt (wA j c) r.
Proof. rewrite cnt_app, (proj1 (ncb_cnt _ (ncb_on_mapped s j0 x) j c)). reflexivity. Qed.
Lemma cntU_on_mapped j c s j0 x r : cnt (wU j c) (on_mapped s j0 x ++ r) = cnt (wU j c) r.
Proof. rewrite cnt_app, (proj2 (ncb_cnt _ (ncb_on_mapped s j0 x) j c)). reflexivity. Qed.

Lemma lstep_cbeff s e s0 : lstep s e = Some s0 -> shape_all s -> cbeff s s0 (tid e).
Proof.
  intros H SH. step_cases H; norm2; simpl.
  all: try (solve [eapply ce_reg; simpl; rewrite ?upd_same; try reflexivity; try eassumption; apply existsb_nat_false; assumption]).
  all: try (solve [eapply ce_add_done; simpl; rewrite ?upd_same; try reflexivity; eassumption]).
  all: try (solve [eapply ce_add_wait; simpl; rewrite ?upd_same; try reflexivity; eassumption]).
  all: try (solve [eapply ce_flush; simpl; rewrite ?upd_same; try reflexivity; eassumption]).
  all: try (solve [eapply ce_run; simpl; rewrite ?upd_same; try reflexivity; eassumption]).
  all: apply ce_neutral; simpl; try (left; repeat split; reflexivity); try (right; repeat split; reflexivity); intros j' c'; rewrite ?upd_same;
    try match goal with E : thr _ _ = _ |- _ => rewrite E end;
    rewrite ?cntA_fires, ?cntU_fires, ?cntA_on_mapped, ?cntU_on_mapped, ?cnt_cons; simpl; try reflexivity.
  all: match goal with E : thr _ ?t = _ :: ?l |- _ => pose proof (SH t) as Sh; rewrite E in Sh; simpl in Sh;
         destruct l as [|[] ?]; try discriminate Sh; reflexivity end.
Qed.

Lemma sil_cbeff t s s' : sil t s s' -> cbeff s s' t.
Proof.
  intros H; inversion H; subst; pose proof (upd_eq_same _ _ _ _ H0) as Et.
  1-5: apply ce_neutral; simpl; try (left; repeat split; reflexivity); intros j' c'; rewrite ?upd_same, ?Et, ?cnt_cons; reflexivity.
  eapply ce_flush; simpl; rewrite ?upd_same; try reflexivity; eassumption.
Qed.

(* ---- who flushes the callbacks of a done future -------------------------------------------- *)
Definition isSetter (j : nat) (i : instr) : bool :=
  match i with IFSetRes j' _ | IFSetExc j' _ | IFCancel j' => Nat.eqb j j' | _ => false end.
Definition isRelCbs (j : nat) (i : instr) : bool :=
  match i with IRelMCbs j' => Nat.eqb j j' | _ => false end.
Fixpoint live (j : nat) (p : list instr) : bool :=
  match p with
  | [] => false
  | IFSetRes _ _ :: r | IFSetExc _ _ :: r => match r with [] => false | _ :: r' => live j r' end
  | IRelMCbs j' :: r => Nat.eqb j j' || live j r
  | _ :: r => live j r
  end.
Definition plain (i : instr) : bool :=
  match i with IFSetRes _ _ | IFSetExc _ _ | IRelMCbs _ | IFCancel _ => false | _ => true end.

Lemma live_plain_app j a r : forallb plain a = true -> live j (a ++ r) = live j r.
Proof.
  induction a as [|i a IH]; simpl; auto. intros H. apply andb_prop in H. destruct H as [Hi Ha].
  destruct i; simpl in Hi; try discriminate; apply IH; exact Ha.
Qed.
Lemma plain_cbs j l : forallb plain (cbs_of j l) = true.
Proof. induction l; simpl; auto. Qed.
Lemma plain_fires_pre s d : forallb plain (flat_map (fun j => resolved_prog j d) (ecbs s d)) = true.
Proof. induction (ecbs s d); simpl; auto. Qed.
Lemma live_fires j s d r : live j (fires s d r) = live j r.
Proof. unfold fires. apply live_plain_app. apply plain_fires_pre. Qed.
Lemma live_on_mapped j s j0 x r : live j (on_mapped s j0 x ++ r) = live j r.
Proof. unfold on_mapped. destruct (mkind s j0), (mflat s j0), x; reflexivity. Qed.

Definition gF (s : st) (j : nat) (p : list instr) : Prop := grd (fdone (ms s j) = true) (isSetter j) (isRelCbs j) p.
Lemma grd_noT C G T p : (forall i, In i p -> T i = false) -> grd C G T p.
Proof. intros H. rewrite <- (app_nil_r p). apply grd_app; [exact H|exact I]. Qed.

Lemma gF_plain_app s j a r : forallb plain a = true -> gF s j r -> gF s j (a ++ r).
Proof.
  intros H. apply grd_app. intros i Hi. rewrite forallb_forall in H. specialize (H i Hi).
  destruct i; simpl in H; try discriminate; reflexivity.
Qed.
Lemma gF_on_mapped s j s1 j0 x r : gF s j r -> gF s j (on_mapped s1 j0 x ++ r).
Proof.
  intros H. unfold on_mapped, gF. destruct (mkind s1 j0), (mflat s1 j0), x; simpl;
    destruct (Nat.eqb j j0); simpl; intuition discriminate.
Qed.

Lemma gF_unborn s n j p : Forall (okI n) p -> n <= j -> gF s j p.
Proof.
  intros H L. apply grd_noT. intros i Hi. rewrite Forall_forall in H. specialize (H i Hi).
  destruct i; simpl; auto. unfold okI in H; simpl in H. apply Nat.eqb_neq. lia.
Qed.
Lemma gF_fires s j s1 d r : gF s j r -> gF s j (fires s1 d r).
Proof. intros H. unfold fires. apply gF_plain_app; [apply plain_fires_pre|exact H]. Qed.
Lemma gF_cbs s j j0 l r : gF s j r -> gF s j (map (fun c => IUserCb j0 c false) l ++ r).
Proof. intros H. apply gF_plain_app; [apply (plain_cbs j0 l)|exact H]. Qed.

Lemma lstep_gF s e s0 : lstep s e = Some s0 -> shape_all s -> Bnd s -> Bnd s0 ->
  (forall t j, gF s j (thr s t)) -> forall t j, gF s0 j (thr s0 t).
Proof.
  intros H SH B B0 I t' j. destruct (le_lt_dec (nfut s0) j) as [L|L].
  { eapply gF_unborn; [apply (b_thr _ B0)|exact L]. }
  destruct (le_lt_dec (nfut s) j) as [L1|L1].
  { (* j is being created *)
    clear I. step_cases H; simpl in *; try lia.
    destruct (Nat.eq_dec t' t) as [->|N]; [rewrite upd_same|rewrite upd_other by exact N].
    - apply grd_noT. intros i Hi. simpl in Hi. repeat (destruct Hi as [<-|Hi]; [reflexivity|]). destruct Hi.
    - eapply gF_unborn; [apply (b_thr _ B)|exact L1]. }
  assert (ST : fdone (ms s j) = true -> fdone (ms s0 j) = true) by (eapply lstep_done_stable; eauto).
  assert (OT : t' <> tid e -> gF s0 j (thr s0 t')).
  { intros N. rewrite (lstep_thr_other _ _ _ H _ N). eapply grd_mono; [exact ST|apply I]. }
  destruct (Nat.eq_dec t' (tid e)) as [->|N]; [clear OT|exact (OT N)].
  pose proof (I (tid e) j) as It. pose proof (SH (tid e)) as Sh. clear I SH B B0 L.
  step_cases H; simpl in *; rewrite ?upd_same; try exact It.
  all: rewrite ?Heql in It, Sh.
  all: try (apply gF_on_mapped); try (apply gF_fires); try (apply gF_cbs); unfold gF in *.
  (* a setter at the head: the future is done afterwards *)
  all: try (match goal with E : thr _ _ = ?i :: _ |- _ =>
              match i with IFCancel ?j1 => idtac | IFSetRes ?j1 _ => idtac | IFSetExc ?j1 _ => idtac end end;
            destruct (Nat.eq_dec j j1) as [->|Nj];
            [apply grd_C; simpl; rewrite ?upd_same; fset_facts; auto; fcrush s j1; fail|]).
  all: try (match goal with E : thr _ _ = _ :: ?l |- context [tl ?l] => destruct l as [|[] ?]; try discriminate Sh end).
  all: eapply grd_mono; [exact ST|]; simpl in It |- *.
  all: repeat match goal with |- context [Nat.eqb ?a ?b] => destruct (Nat.eqb a b) eqn:? end.
  all: repeat match type of It with context [Nat.eqb ?a ?b] => destruct (Nat.eqb a b) eqn:? end.
  all: simpl in *; intuition (try discriminate).
  all: norm_hyps; congruence.
Qed.

Lemma lstep_mcbs_keep s e s0 : lstep s e = Some s0 -> forall j, j < nfut s ->
  fdone (ms s j) = true -> mcbs s0 j <> [] -> mcbs s j <> [].
Proof.
  intros H. step_cases H; intros j' L X Y; simpl in *; auto.
  all: try (rewrite upd_other in Y by lia; exact Y).
  all: usplit j0; auto; congruence.
Qed.

Lemma lstep_becomes_done s e s0 : lstep s e = Some s0 -> shape_all s -> forall j,
  fdone (ms s j) = false -> fdone (ms s0 j) = true -> live j (thr s0 (tid e)) = true.
Proof.
  intros H SH. pose proof (SH (tid e)) as Sh.
  step_cases H; intros j' X Y; simpl in *; try congruence.
  all: rewrite ?upd_same; rewrite Heql in Sh; simpl in Sh.
  all: try (usplit (nfut s); [discriminate Y|congruence]).
  all: usplit j0; try congruence.
  all: try (match goal with X : fdone (ms ?s ?j) = false |- _ => fcrush s j end; fail).
  all: destruct l as [|[] l]; try discriminate Sh; simpl in *.
  all: try (destruct l as [|[] l]; try discriminate Sh; simpl in *).
  all: norm_hyps; rewrite ?Nat.eqb_refl; auto.
Qed.

Lemma live_cbs j j0 l r : live j (map (fun c => IUserCb j0 c false) l ++ r) = live j r.
Proof. apply live_plain_app. apply (plain_cbs j0 l). Qed.

Lemma lstep_live_mono s e s0 : lstep s e = Some s0 -> shape_all s -> forall j,
  live j (thr s (tid e)) = true -> live j (thr s0 (tid e)) = true \/ mcbs s0 j = [].
Proof.
  intros H SH. pose proof (SH (tid e)) as Sh.
  step_cases H; intros j' X; simpl in *; auto.
  all: rewrite ?upd_same; rewrite Heql in Sh, X; simpl in Sh, X; try discriminate X.
  all: rewrite ?live_on_mapped, ?live_fires, ?live_cbs; simpl; auto.
  all: try (rewrite X; auto using orb_true_r; fail).
  - destruct (Nat.eqb j' j0) eqn:E; [apply Nat.eqb_eq in E; subst; right; apply upd_same|left; exact X].
  - destruct l as [|[] l']; try discriminate Sh; simpl in *. left; rewrite X; apply orb_true_r.
  - destruct l as [|[] l']; try discriminate Sh; simpl in *. left; exact X.
  - destruct l as [|[] l']; try discriminate Sh; simpl in *. left; rewrite X; apply orb_true_r.
  - destruct l as [|[] l']; try discriminate Sh; simpl in *. left; exact X.
Qed.

Record Cf (s : st) : Prop := {
  cf_grd : forall t j, gF s j (thr s t);
  cf_live : forall j, j < nfut s -> fdone (ms s j) = true -> mcbs s j <> [] -> exists t, live j (thr s t) = true
}.

Lemma lstep_fresh_pending s e s0 : lstep s e = Some s0 -> forall j, nfut s <= j -> j < nfut s0 -> ms s0 j = Pending.
Proof.
  intros H. step_cases H; intros j' L1 L2; simpl in *; try lia.
  assert (j' = nfut s) as -> by lia. apply upd_same.
Qed.

Lemma lstep_cf s e s0 : lstep s e = Some s0 -> shape_all s -> Bnd s -> Bnd s0 -> Cf s -> Cf s0.
Proof.
  intros H SH B B0 [I1 I2]. constructor; [eapply lstep_gF; eauto|].
  intros j L D M. destruct (le_lt_dec (nfut s) j) as [L1|L1].
  { rewrite (lstep_fresh_pending _ _ _ H j L1 L) in D. discriminate D. }
  destruct (fdone (ms s j)) eqn:D0.
  - pose proof (lstep_mcbs_keep _ _ _ H j L1 D0 M) as M0.
    destruct (I2 j L1 D0 M0) as [t1 Lv].
    destruct (Nat.eq_dec t1 (tid e)) as [->|N].
    + destruct (lstep_live_mono _ _ _ H SH j Lv) as [X|X]; [eauto|contradiction].
    + exists t1. rewrite (lstep_thr_other _ _ _ H _ N). exact Lv.
  - exists (tid e). eapply lstep_becomes_done; eauto.
Qed.

Lemma sil_head_plain t s s' : sil t s s' -> forall i r, thr s t = i :: r ->
  (isSetter 0 i = false /\ forall j, isSetter j i = false) /\
  (plain i = true \/ exists j, i = IRelMCbs j /\ mcbs s' j = []).
Proof.
  intros H i r E; inversion H; subst; rewrite (upd_eq_same _ _ _ _ H0) in E; inversion E; subst;
    (split; [split; [reflexivity|intros; reflexivity]|]); auto.
  right. exists j. split; [reflexivity|]. simpl. apply upd_same.
Qed.
Lemma live_plain_cons j i r : plain i = true -> live j (i :: r) = live j r.
Proof. intros H. apply (live_plain_app j [i] r). simpl. rewrite H. reflexivity. Qed.

Lemma sil_mcbs t s s' : sil t s s' -> forall j, mcbs s' j = mcbs s j \/ mcbs s' j = [].
Proof.
  intros H j'; inversion H; subst; simpl; auto.
  destruct (Nat.eq_dec j' j) as [->|N]; [right; apply upd_same|left; apply upd_other; exact N].
Qed.

Lemma sil_cf t s s' : sil t s s' -> Cf s -> Cf s'.
Proof.
  intros H [I1 I2]. destruct (sil_thr _ _ _ H) as (i & r & Et & Ho & Hr).
  destruct (sil_head_plain _ _ _ H _ _ Et) as [[_ HS] HP].
  constructor.
  - intros t' j. unfold gF. sil_frame H. destruct (Nat.eq_dec t' t) as [->|N]; [|rewrite Ho by exact N; apply I1].
    pose proof (I1 t j) as It. rewrite Et in It. apply grd_tl in It; [|apply HS].
    destruct Hr as [->|(j0 & -> & ->)]; [exact It|apply gF_cbs; exact It].
  - intros j. sil_frame H. intros L D M.
    assert (M0 : mcbs s j <> []). { destruct (sil_mcbs _ _ _ H j) as [X|X]; congruence. }
    destruct (I2 j L D M0) as [t1 Lv].
    destruct (Nat.eq_dec t1 t) as [->|N]; [|exists t1; rewrite Ho by exact N; exact Lv].
    exists t. rewrite Et in Lv. destruct HP as [HP|(j0 & -> & HP)].
    + rewrite live_plain_cons in Lv by exact HP.
      destruct Hr as [->|(j1 & -> & ->)]; [exact Lv|discriminate HP].
    + assert (Nj : Nat.eqb j j0 = false). { apply Nat.eqb_neq. intros ->. contradiction. }
      simpl in Lv. rewrite Nj in Lv. simpl in Lv.
      destruct Hr as [->|(j1 & E1 & ->)]; [exact Lv|rewrite live_cbs; exact Lv].
Qed.
