(* N1: small state/history facts used by the C03 / C06 theorems of Props/Comb_G.v:
   EC  a completed input has no handle_done registration left;
   OR  the output future is never Running (set_running_or_notify_cancel only runs on a cancelled output);
   DC  cdone = true  ->  a decision is in the history;
   OC  the output is cancelled  <->  HOutCancelled is in the history. *)
From Coq Require Import List Arith Bool Lia PeanoNat ZArith.
From ME Require Import Base.Machine Base.Fut Base.GenPrelude Gen.BoolGen Gen.ZipGen Model.Comb Proofs.Comb_Spec.
From ME Require Import Proofs.Comb_I0 Proofs.Comb_I1 Proofs.Comb_I2 Proofs.Comb_I4 Proofs.Comb_I8 Proofs.Comb_I10a.
Import ListNotations.

Ltac inv_pairs :=
  repeat match goal with
  | Hq : Some _ = Some _ |- _ => inversion Hq; clear Hq; subst
  | Hq : (_, _) = (_, _) |- _ => inversion Hq; clear Hq; subst
  end.

(* ---- EC ------------------------------------------------------------------------------------- *)
Definition EC (s : st) : Prop := forall d, fdone (es s d) = true -> ecbs s d = [].

Lemma EC_init : EC init.
Proof. intros d H. reflexivity. Qed.

Lemma EC_step s e s' : I4 s -> EC s -> step s e = Some s' -> EC s'.
Proof.
  intros J C H x. pose proof (C x) as Cx. pose proof (i4_es _ J) as Hes.
  destruct e; step_inv H; simpl; auto; clean; unfold upd; destruct (Nat.eqb x _) eqn:E; auto; clean;
  try match goal with
  | Hq : f_cancel (es s ?y) = _ |- _ => destruct (Hes y) as [E'|[E'|E']]; rewrite E' in *
  | Hq : f_set (es s ?y) = _ |- _ => destruct (Hes y) as [E'|[E'|E']]; rewrite E' in *
  | Hq : fdone (es s ?y) = false |- _ => destruct (Hes y) as [E'|[E'|E']]; rewrite E' in *
  end; simpl in *; try discriminate; inv_pairs; simpl; auto; try discriminate.
Qed.

Lemma EC_reach s : reachable s -> EC s.
Proof.
  apply invariant_rule_r; [exact EC_init|]. intros s0 e s' R C H.
  eapply EC_step; eauto using I4_reach.
Qed.

(* ---- OR ------------------------------------------------------------------------------------- *)
Definition Psr (c : bool) (x : instr) : Prop := match x with ISrncOut => c = true | _ => True end.

Record OR (s : st) : Prop := {
  or_thr : forall t, Forall (Psr (fcancelled (os s))) (thr s t);
  or_nr : os s <> Running
}.

Lemma OR_init : OR init.
Proof. constructor; simpl; intros; [constructor|discriminate]. Qed.

Lemma Psr_dead c : Psr c IDead. Proof. exact I. Qed.

Lemma OR_step s e s' : OR s -> step s e = Some s' -> OR s'.
Proof.
  intros L H.
  assert (M : forall a, Psr (fcancelled (os s)) a -> Psr (fcancelled (os s')) a).
  { intros a. destruct a; simpl; auto. eapply step_os_cancelled; eauto. }
  constructor.
  - intros u. destruct (Nat.eq_dec u (actor e)) as [->|Hu].
    2:{ rewrite (step_other_thr _ _ _ _ H Hu). eapply Forall_impl; [|apply (or_thr _ L u)]. exact M. }
    destruct e; simpl actor in *; pose proof (or_thr _ L t) as It; step_inv H;
    try match goal with Hq : thr _ _ = _ |- _ => rewrite Hq in It end;
    apply (Forall_impl _ M) in It; clear M; simpl in It; fa_hyps;
    simpl; rewrite ?upd_same; fold_retb; try (apply Forall_norm; [apply Psr_dead|]);
    try solve [fa_tac ltac:(simpl; clean; auto)]; try assumption; try apply (or_thr _ L).
  - pose proof (or_nr _ L) as Hn. clear M.
    destruct e; pose proof (or_thr _ L t) as It; step_inv H; simpl in *; try assumption;
    try match goal with Hq : thr _ _ = _ |- _ => rewrite Hq in It end; fa_hyps; clean;
    destruct (os s); simpl in *; try discriminate; try congruence; inv_pairs; try discriminate; try congruence.
Qed.

Lemma OR_reach s : reachable s -> OR s.
Proof. apply invariant_rule; [exact OR_init|]. intros; eapply OR_step; eauto. Qed.

(* a non-done output is Pending *)
Lemma os_pending s : reachable s -> fdone (os s) = false -> os s = Pending.
Proof.
  intros R H. pose proof (or_nr _ (OR_reach s R)) as N. destruct (os s); simpl in *; congruence.
Qed.

(* ---- DC ------------------------------------------------------------------------------------- *)
Definition DC (s : st) : Prop := cdone s = true -> 1 <= ndec (hist s).

Lemma DC_step s e s' : I2 s -> DC s -> step s e = Some s' -> DC s'.
Proof.
  intros K D H. unfold DC in *.
  destruct e; pose proof (i2_thr _ K t) as (_ & _ & Kc); step_inv H; simpl in *; auto;
  try match goal with Hq : thr _ _ = _ |- _ => rewrite Hq in Kc; simpl in Kc end;
  unfold ndec in *; simpl;
  repeat match goal with |- context [if ?c then _ else _] => destruct c end; simpl; intros; try lia;
  try (specialize (D ltac:(assumption)); lia); try (specialize (Kc eq_refl)); try congruence.
Qed.

Lemma DC_reach s : reachable s -> DC s.
Proof.
  apply invariant_rule_r; [intros H; discriminate|]. intros s0 e s' R D H.
  eapply DC_step; eauto using I2_reach.
Qed.

Lemma ndec_in l : 1 <= ndec l -> exists d o, In (HDecide d o) l.
Proof.
  unfold ndec. induction l as [|h r IH]; simpl; [lia|].
  destruct h; simpl; try (intros H; destruct (IH H) as (d' & o' & Hin); exists d', o'; right; exact Hin).
  intros _. eexists _, _. left. reflexivity.
Qed.
Lemma in_ndec l d o : In (HDecide d o) l -> 1 <= ndec l.
Proof.
  unfold ndec. induction l as [|h r IH]; simpl; [tauto|].
  intros [->|Hin]; simpl; [lia|]. specialize (IH Hin). destruct (isdec h); simpl; lia.
Qed.

(* cdone  <->  a decision has been logged *)
Lemma cdone_iff_decided s : reachable s -> (cdone s = true <-> exists d o, In (HDecide d o) (hist s)).
Proof.
  intros R. split.
  - intros H. apply ndec_in. apply (DC_reach s R H).
  - intros (d & o & Hin). destruct (cdone s) eqn:E; auto.
    pose proof (i2_zero _ (I2_reach s R) E) as Z. apply in_ndec in Hin. lia.
Qed.

(* ---- OC ------------------------------------------------------------------------------------- *)
Definition OC (s : st) : Prop := fcancelled (os s) = true <-> In HOutCancelled (hist s).

Lemma OC_step s e s' : OC s -> step s e = Some s' -> OC s'.
Proof.
  intros [A B] H. unfold OC.
  destruct e; step_inv H; simpl in *; try (split; assumption); clean;
  (split; [intros Hc|intros Hin]);
  repeat match goal with Hq : _ = _ \/ _ |- _ => destruct Hq as [Hq|Hq]; try discriminate Hq end;
  auto;
  destruct (os s) eqn:Eo; simpl in *; try discriminate; inv_pairs; simpl in *; auto; try discriminate;
  try (specialize (B ltac:(assumption)); discriminate).
Qed.

Lemma OC_reach s : reachable s -> OC s.
Proof.
  apply invariant_rule; [|intros; eapply OC_step; eauto].
  split; simpl; [discriminate|tauto].
Qed.
