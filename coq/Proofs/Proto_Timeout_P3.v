(* C02 / Timeout, part P3: InvP is preserved by the stdlib methods on the delegate future (step_fd) and on the
   returned future (step_fr); InvP holds in every reachable state. *)
From Coq Require Import ZArith List Bool Arith Lia.
From RecordUpdate Require Import RecordSet.
From ME Require Import Base.Machine Base.Fut Base.GenPrelude Gen.TimeoutGen Proofs.Timeout_Spec Model.Timeout
  Proofs.Timeout_Inv Proofs.Timeout_L1 Proofs.Proto_Timeout_P Proofs.Proto_Timeout_P1 Proofs.Proto_Timeout_P2.
Import ListNotations RecordSetNotations.

Lemma srnc_cancelled a n b : f_srnc a = Some (n, b) -> (fcancelled a = true -> fcancelled n = true) /\ n <> Cancelled.
Proof. destruct a; simpl; intros E; inversion E; subst; split; auto; discriminate. Qed.

(* the closing instruction expands to cancel-body instructions [pre] and the answer b *)
Ltac cl_step IP s j pre b :=
  match goal with Et : thr s ?t = ?i :: ?rest |- InvP (set_prog ?s1 ?t _) =>
    apply (invP_cl s s1 t i rest j pre b IP);
      [reflexivity|reflexivity|exact Et|simpl; apply Nat.eqb_refl|reflexivity|pok_side|reflexivity|simpl; rewrite ?Nat.eqb_refl; reflexivity|]
  end.
Ltac cl2_step IP s j i' :=
  match goal with Et : thr s ?t = ?i :: ?rest |- InvP (set_prog ?s1 ?t _) =>
    apply (invP_cl2 s s1 t i rest j i' IP);
      [reflexivity|reflexivity|exact Et|simpl; apply Nat.eqb_refl|reflexivity|simpl; apply Nat.eqb_refl|reflexivity|pok_side]
  end.
Ltac guard_left := left; simpl; rewrite ?Nat.eqb_refl; reflexivity.

Lemma fd_invP s t op d p s' : (forall d j, dcb s d = Some j -> j < nfut s) ->
  InvP s -> step_fd s t op d p = Some s' -> InvP s'.
Proof.
  intros Hdcb IP Hx. unfold step_fd in Hx.
  destruct (negb (fstate_eqb p (ds s d))) eqn:Epre; [discriminate|]. apply pre_eq in Epre. subst p.
  brk Hx; inv_some Hx; eqs; logs;
    first
    [ solve [nc_step IP s]
    | solve [both_step IP s]
    | (* delegate.cancel() == True, its callback _delegate_resolved of this very future runs inline *)
      solve [match goal with Et : thr s ?t = IDCancel ?j ?d0 :: ?rest |- InvP (set_prog _ _ (IDCancelledQ _ _ :: _)) =>
        cl_step IP s j [IDCancelledQ j d0; IFCancel j; IFSrnc j; IRelMCbs j] true; guard_left end]
    | (* ... of another future *)
      solve [match goal with Et : thr s ?t = IDCancel ?j ?d0 :: ?rest, Ed : dcb s ?d0 = Some ?j' |- InvP (set_prog _ _ (IAcqMSet _ _ :: _)) =>
        pose proof (ltb_of _ _ (Hdcb _ _ Ed)) as Hj';
        cl_step IP s j (resolved_prog j' d0 ++ [IFCancel j; IFSrnc j; IRelMCbs j]) true; guard_left end]
    | solve [match goal with Et : thr s ?t = IDCancel ?j ?d0 :: ?rest |- InvP (set_prog _ _ (IFCancel _ :: _)) =>
        cl_step IP s j [IFCancel j; IFSrnc j; IRelMCbs j] true; guard_left end]
    | solve [match goal with Et : thr s ?t = IDCancel ?j ?d0 :: ?rest |- InvP (set_prog _ _ (IRelM _ :: _)) =>
        cl_step IP s j [IRelM j] false; guard_left end] ].
Qed.

Ltac fcancel_case IP s :=
  match goal with Et : thr s ?t = IFCancel ?j :: ?rest, Ef : f_cancel _ = (?n, true) |- _ =>
    let Hk := fresh "Hk" in let Hn := fresh "Hn" in let Hb := fresh "Hb" in let Hcn := fresh "Hcn" in
    pose proof (head_pok _ _ _ _ IP Et) as Hk;
    assert (Hn : n = fst (f_cancel (rs s j))) by (rewrite Ef; reflexivity);
    assert (Hb : snd (f_cancel (rs s j)) = true) by (rewrite Ef; reflexivity);
    pose proof (f_cancel_true_cancelled _ Hb) as Hcn; rewrite <- Hn in Hcn;
    apply (invP_rs s _ t (IFCancel j) rest j n IP); auto;
    first
    [ solve [simpl in Hk; apply Nat.ltb_lt; exact Hk]
    | solve [let En := fresh "En" in let Hw := fresh "Hw" in let A2 := fresh "A2" in
      intros En; pose proof (p_wf _ IP t) as Hw; rewrite Et in Hw; destruct (wfp_split _ _ _ _ Hw) as [_ [A2 _]];
      simpl in A2; apply andb_prop in A2; destruct A2 as [A2 _];
      destruct rest as [|i2 r2]; [discriminate A2|]; destruct i2; try discriminate A2;
      apply Nat.eqb_eq in A2; subst; simpl; rewrite Nat.eqb_refl; reflexivity]
    | solve [let jc0 := fresh "jc0" in let Hg := fresh "Hg" in let E := fresh "E" in
      intros jc0 Hg; simpl in Hg; destruct (Nat.eqb j jc0) eqn:E; [apply Nat.eqb_eq in E; subst; right; auto|left; exact Hg]] ]
  end.
Ltac fsrnc_case IP s :=
  match goal with Et : thr s ?t = IFSrnc ?j :: ?rest, Ef : f_srnc _ = Some (?n, ?b) |- _ =>
    let Hk := fresh "Hk" in let Hm := fresh "Hm" in let Hnc := fresh "Hnc" in
    pose proof (head_pok _ _ _ _ IP Et) as Hk;
    destruct (srnc_cancelled _ _ _ Ef) as [Hm Hnc];
    apply (invP_rs s _ t (IFSrnc j) rest j n IP); auto;
    first
    [ solve [simpl in Hk; apply Nat.ltb_lt; exact Hk]
    | solve [intros; contradiction]
    | solve [let k := fresh "k" in let Hne := fresh "Hne" in let Hs := fresh "Hs" in
      intros k Hne Hs; simpl in Hs; apply orb_prop in Hs; destruct Hs as [Hs|Hs]; [apply Nat.eqb_eq in Hs; congruence|exact Hs]] ]
  end.
Ltac fset_case IP s :=
  match goal with Et : thr s ?t = ?i :: ?rest, Ef : f_set (rs s ?j) = Some ?n |- _ =>
    let Hk := fresh "Hk" in
    pose proof (head_pok _ _ _ _ IP Et) as Hk;
    apply (invP_rs s _ t i rest j n IP); auto;
    first
    [ solve [let k := fresh "k" in let Hne := fresh "Hne" in intros k Hne; simpl; rewrite upd_other by exact Hne; reflexivity]
    | solve [simpl in Hk; apply Nat.ltb_lt; exact Hk]
    | solve [let Hc := fresh "Hc" in intros Hc; destruct (rs s j); simpl in Ef, Hc; discriminate]
    | solve [let En := fresh "En" in intros En; destruct (rs s j); simpl in Ef; inversion Ef; congruence] ]
  end.
(* tolerated InvalidStateError: the with block is left, the callbacks are not run *)
Ltac lost_case IP s :=
  match goal with Et : thr s ?t = ?i :: ?rest, Es : skip_cbs ?rest = Some ?r |- InvP (set_prog ?s1 _ (IRelM ?j :: _)) =>
    let jx := fresh "jx" in
    apply skip_cbs_inv in Es; destruct Es as [jx Es]; subst rest;
    apply (invP_both s s1 t [i; IRelMCbs jx] r [IRelM j] IP); [reflexivity|reflexivity|exact Et|reflexivity|pok_side|reflexivity]
  end.

Lemma fr_invP s t op j p s' : InvP s -> step_fr s t op j p = Some s' -> InvP s'.
Proof.
  intros IP Hx. unfold step_fr in Hx.
  destruct (negb (fstate_eqb p (rs s j))) eqn:Epre; [discriminate|]. apply pre_eq in Epre. subst p.
  brk Hx; inv_some Hx; eqs; logs;
    first
    [ solve [nc_step IP s]
    | solve [both_step IP s]
    | solve [fcancel_case IP s]
    | solve [fsrnc_case IP s]
    | solve [fset_case IP s]
    | solve [lost_case IP s]
    | (* cancel(): self.cancelled() *)
      solve [match goal with Et : thr s ?t = ICancelled ?j0 :: ?rest, Ec : fcancelled _ = true |- _ =>
        cl_step IP s j0 [IRelM j0] true; right; exact Ec end]
    | solve [match goal with Et : thr s ?t = ICancelled ?j0 :: ?rest |- InvP (set_prog _ _ (IDoneC _ :: _)) =>
        cl2_step IP s j0 (IDoneC j0) end]
    | (* cancel(): self.done() *)
      solve [match goal with Et : thr s ?t = IDoneC ?j0 :: ?rest |- InvP (set_prog _ _ (IDCancel _ ?d0 :: _)) =>
        cl2_step IP s j0 (IDCancel j0 d0) end]
    | solve [match goal with Et : thr s ?t = IDoneC ?j0 :: ?rest |- InvP (set_prog _ _ (IRelM _ :: _)) =>
        cl_step IP s j0 [IRelM j0] false; guard_left end]
    | (* add_done_callback on a done future: the callback runs at once *)
      solve [match goal with Et : thr s ?t = IDoneA ?j0 ?c :: ?rest |- InvP (set_prog ?s1 _ _) =>
        change (InvP (set_prog s1 t ((IRelM j0 :: cb_prog j0 c) ++ rest)));
        apply (invP_nc s s1 t (IDoneA j0 c) rest _ IP); [reflexivity|reflexivity|exact Et|reflexivity|reflexivity| |];
          destruct c; reflexivity end] ].
Qed.

Lemma step0_invP s e s' :
  (forall job, In job (jobs s) -> tj_id job < nfut s) -> (forall d j, dcb s d = Some j -> j < nfut s) ->
  InvP s -> step0 s e = Some s' -> InvP s'.
Proof.
  intros Hjobs Hdcb IP Hx. destruct e; cbn [step0] in Hx;
    first [ eapply fr_invP; eassumption | eapply (fd_invP s); eassumption
          | eapply (call_invP s); eassumption | eapply (sync_invP s); eassumption ].
Qed.

Lemma invP_init : InvP init.
Proof.
  constructor; simpl; intros; auto; try discriminate.
  unfold wfp, okn. simpl. destruct (Nat.eqb t jt); reflexivity.
Qed.

Lemma invP_tick s ts : InvP s -> InvP (s <| clock := ts |>).
Proof. intros IP. apply (invP_view s); auto. Qed.

Lemma jobs_lt s : reachable_from step init s -> forall job, In job (jobs s) -> tj_id job < nfut s.
Proof.
  intros Hr job Hin. apply (l_lt _ (inv8b_reach s Hr)). unfold Lids. apply in_or_app. left. apply in_map. exact Hin.
Qed.
Lemma dcb_lt s : reachable_from step init s -> forall d j, dcb s d = Some j -> j < nfut s.
Proof.
  intros Hr d j E. pose proof (inv10_reach s Hr) as I. destruct (q_dcb _ I _ _ E) as [tmo [ts Hin]].
  destruct (q_lt _ I _ _ _ _ Hin). assumption.
Qed.

Theorem invP_reachable s : reachable_from step init s -> InvP s.
Proof.
  apply invariant_rule_r; [exact invP_init|].
  intros s0 [ts e] s' Hr IP Hx. apply step_split in Hx. destruct Hx as [_ Hx]. simpl in Hx.
  eapply (step0_invP (s0 <| clock := ts |>)); [exact (jobs_lt s0 Hr)|exact (dcb_lt s0 Hr)|apply invP_tick; exact IP|exact Hx].
Qed.
