(* Lockstep of the IR machine (generated combinator programs) and Comb.v: the window in which Zipper.__init__ has not yet
   registered notify_cancel; THE LOCKSTEP THEOREM. *)
From Coq Require Import List Arith Bool Lia PeanoNat ZArith.
From RecordUpdate Require Import RecordSet.
From ME Require Import Base.Machine Base.Fut Base.GenPrelude Gen.BoolGen Gen.ZipGen Model.Comb Model.CombIR Gen.CombSkel
  Proofs.CombIR_Sim Proofs.CombIR_Sim2 Proofs.CombIR_Sim3 Proofs.CombIR_Sim4 Proofs.CombIR_Sim5 Proofs.CombIR_Sim6
  Proofs.CombIR_Sim7 Proofs.CombIR_Sim8.
Import ListNotations RecordSetNotations.

Lemma upd_keep {A} (f : nat -> A) t v u : u <> t -> upd f t v u = f u.
Proof. apply upd_other. Qed.

(* an environment event of an idle thread other than the constructor's: no callback is registered yet *)
Lemma ls1_env s cs t0 e t : Rcore (sh s) cs -> R1 s cs t0 ->
  (exists d pre o, e = EEnvFinish t d pre o) \/ (exists d pre, e = EEnvCancel t d pre) ->
  lock_ok e (gstep s e) (step cs e).
Proof.
  intros Hc (Hk & Hb & Hrd & Hrem & He & Hi0 & Ht0 & Hidle) Hev.
  destruct s as [h thr_i]. simpl in Hc, Hi0. unfold idle in Hidle. simpl in Hidle.
  destruct (Nat.eq_dec t t0) as [->|Hne].
  - (* the constructor's thread is busy *)
    destruct Hev as [(d & pre & o & ->)|(d & pre & ->)]; unfold gstep, istep, step; simpl; rewrite Hi0, Ht0; exact I.
  - destruct (Hidle t Hne) as [Hi Ht].
    assert (Keep : forall (h' : shared) cs', Rcore h' cs' -> ck cs' = ck cs -> built cs' = built cs -> ready cs' = ready cs ->
              remaining cs' = remaining cs -> inputs cs' = inputs cs -> (forall d, ecbs cs' d = []) ->
              thr cs' = upd (thr cs) t [] ->
              R (mkI h' (upd thr_i t [])) cs').
    { intros h' cs' H1 H2 H3 H4 H5 H6 H7 H8. split; [exact H1|]. right. left. exists t0.
      split; [congruence|]. split; [congruence|]. split; [congruence|]. split; [congruence|]. split; [exact H7|].
      split; [simpl; rewrite upd_keep by auto; exact Hi0|]. split; [rewrite H8, H6, upd_keep by auto; exact Ht0|].
      intros u Hu. unfold idle. simpl. rewrite H8. unfold upd. destruct (Nat.eqb u t); [split; reflexivity|apply Hidle; exact Hu]. }
    destruct Hev as [(d & pre & o & ->)|(d & pre & ->)]; unfold gstep, istep, step; simpl; rewrite Hi, Ht; core_rw Hc.
    + destruct (fstate_eqb pre (es cs d)); simpl; [|exact I].
      destruct (f_set pre) as [n|]; simpl.
      * unfold resume, in_clos, in_fires. rewrite (rc_ecbs _ _ Hc), He. simpl.
        apply Keep; try reflexivity; [solve_core Hc|].
        intros d0. simpl. unfold upd. destruct (Nat.eqb d0 d); [reflexivity|apply He].
      * split; [exact Hc|]. right. left. exists t0. repeat split; auto; apply Hidle; assumption.
    + destruct (fstate_eqb pre (es cs d)); simpl; [|exact I].
      destruct (f_cancel pre) as [n b]. simpl. destruct (f_cancel_fires pre); simpl.
      * unfold resume, in_clos, in_fires. rewrite (rc_ecbs _ _ Hc), He. simpl.
        apply Keep; try reflexivity; [solve_core Hc|].
        intros d0. simpl. unfold upd. destruct (Nat.eqb d0 d); [reflexivity|apply He].
      * split; [solve_core Hc|]. right. left. exists t0. repeat split; auto; apply Hidle; assumption.
Qed.

(* self.out.add_done_callback(notify_cancel), then done / lock / count_remaining, then the head of the loop *)
Lemma ls1_fo s cs t0 op pre : Rcore (sh s) cs -> R1 s cs t0 ->
  lock_ok (EFO t0 op pre) (gstep s (EFO t0 op pre)) (step cs (EFO t0 op pre)).
Proof.
  intros Hc (Hk & Hb & Hrd & Hrem & He & Hi0 & Ht0 & Hidle).
  destruct s as [h thr_i]. simpl in Hc, Hi0. unfold idle in Hidle. simpl in Hidle.
  unfold gstep, istep, step. simpl. rewrite Hi0, Ht0. simpl. core_rw Hc.
  destruct (fstate_eqb pre (os cs)) eqn:Epre; simpl; ops op.
  destruct (fdone pre); simpl; [exact I|].
  assert (Others : forall u st' p', u <> t0 -> TR (set_prog (cs <| ocbs := ocbs cs ++ [notify_id] |>) t0 p')
                                                   (upd (thr cs) t0 (norm false p') u) (upd thr_i t0 st' u)).
  { intros u st' p' Hu. rewrite !upd_keep by exact Hu. destruct (Hidle u Hu) as [-> ->]. split; constructor. }
  unfold resume. simpl. rewrite (rc_inputs _ _ Hc).
  destruct (inputs cs) as [|a l] eqn:Ein; simpl.
  - (* no input: cannot happen after a call the IR machine accepted, but Comb.v does not know *)
    split; [solve_core Hc|]. right. right. split; [exact Hb|]. split; [left; simpl; rewrite (rc_ck _ _ Hc); exact Hk|].
    split; [right; simpl; rewrite Hrem; try rewrite Ein; reflexivity|].
    intros u. simpl. destruct (Nat.eq_dec u t0) as [->|Hu].
    + rewrite !upd_same. rewrite norm_real by reflexivity. split; [|reflexivity]. apply RT_bot. apply SB_K3. reflexivity.
    + apply Others. exact Hu.
  - split; [solve_core Hc|]. right. right. split; [exact Hb|]. split; [left; simpl; rewrite (rc_ck _ _ Hc); exact Hk|].
    split; [right; simpl; rewrite Hrem; try rewrite Ein; reflexivity|].
    intros u. simpl. destruct (Nat.eq_dec u t0) as [->|Hu].
    + rewrite !upd_same. rewrite norm_real by reflexivity. split; [|reflexivity]. apply RT_bot.
      match goal with |- segb ?c _ (_, ?lv) => pose proof (SB_K1 c 0 lv) as HK end.
      unfold input_at in HK. simpl in HK. rewrite Ein in HK. simpl in HK.
      unfold loop in HK. simpl in HK. rewrite Nat.sub_0_r in HK.
      apply HK; [lia|reflexivity|].
      unfold iinput_at. simpl. rewrite (rc_inputs _ _ Hc), Ein. reflexivity.
    + apply Others. exact Hu.
Qed.

Lemma lockstep1 s cs t0 e : Rcore (sh s) cs -> R1 s cs t0 -> lock_ok e (gstep s e) (step cs e).
Proof.
  intros Hc H1. pose proof H1 as (Hk & Hb & Hrd & Hrem & He & Hi0 & Ht0 & Hidle).
  assert (Busy : forall e', thread_of e' = Some t0 -> (forall op pre, e' <> EFO t0 op pre) ->
            lock_ok e' (gstep s e') (step cs e')).
  { intros e' He' Hn. destruct s as [h thr_i]. simpl in Hi0.
    destruct e'; try discriminate He'; injection He' as ->; unfold gstep, istep, step; simpl; rewrite Hi0, Ht0; simpl; try exact I.
    - exfalso. eapply Hn. reflexivity.
    - destruct (negb (fstate_eqb pre (es cs d))); exact I. }
  assert (Thread : forall e' t, thread_of e' = Some t -> lock_ok e' (gstep s e') (step cs e')).
  { intros e' t He'. destruct (Nat.eq_dec t t0) as [->|Hne].
    - destruct e'; try discriminate He'; injection He' as ->; try (apply Busy; [reflexivity|intros; discriminate]).
      apply ls1_fo; assumption.
    - destruct s as [h thr_i]. destruct (Hidle t Hne) as [Hi Ht]. apply (idle_thread_event h thr_i cs _ t); auto. }
  destruct e.
  - (* a second constructor call *)
    destruct s as [h thr_i]. simpl in Hc. unfold gstep, istep, step. simpl. core_rw Hc. rewrite Hb. simpl.
    destruct (thr_i t); destruct (thr cs t); exact I.
  - (* out.cancel(): the output has not been handed out *)
    destruct s as [h thr_i]. simpl in Hc. unfold gstep, istep, step. simpl. core_rw Hc. rewrite Hrd.
    destruct (thr_i t); destruct (thr cs t); exact I.
  - apply (Thread _ t). reflexivity.
  - apply (Thread _ t). reflexivity.
  - apply (Thread _ t). reflexivity.
  - apply (Thread _ t). reflexivity.
  - apply (Thread _ t). reflexivity.
  - apply (ls1_env s cs t0 _ t); auto. left. eauto.
  - apply (ls1_env s cs t0 _ t); auto. right. eauto.
  - destruct s as [h thr_i]. simpl in Hi0. unfold gstep, istep, step. simpl.
    destruct (Nat.eq_dec t t0) as [->|Hne]; [rewrite Ht0; exact I|]. destruct (Hidle t Hne) as [_ Ht]. simpl in Ht. rewrite Ht. exact I.
Qed.

(* THE LOCKSTEP THEOREM: from related states, every event is accepted by both machines (and the successors are related)
   or rejected by both - except the constructor call of Zipper over no inputs, which only Comb.v accepts. *)
Theorem lockstep s cs e : R s cs -> lock_ok e (gstep s e) (step cs e).
Proof.
  intros [Hc [H0|[[t0 H1]|H2]]].
  - apply lockstep0; assumption.
  - apply (lockstep1 s cs t0); assumption.
  - apply lockstep2; assumption.
Qed.
