(* C04 / Throttle, part 3: the lock typing is an invariant. *)
From Coq Require Import ZArith List Bool Arith Lia.
From RecordUpdate Require Import RecordSet.
From ME Require Import Base.Machine Base.Fut Base.GenPrelude Gen.ThrottleGen Model.Throttle
  Proofs.Throttle_Inv Proofs.Throttle_L1 Proofs.Throttle_L1b Proofs.Throttle_L2.
Import ListNotations RecordSetNotations.

Lemma run_setres c j o q : run c H0 (setres_prog j o ++ q) = run c H0 q.
Proof. destruct o; repeat (simpl; rewrite ?Nat.eqb_refl); reflexivity. Qed.
Lemma run_cb_prog c d l q : run c H0 (flat_map (cb_prog d) l ++ q) = run c H0 q.
Proof.
  induction l as [|x l IH]; [reflexivity|]. simpl. rewrite <- app_assoc. destruct x; simpl; rewrite ?Nat.eqb_refl; simpl; exact IH.
Qed.
Lemma run_cb_prog_held c d j l q : fcancelled (c d) = true ->
  run c (HM j) (flat_map (cb_prog_held d) l ++ q) = run c (HM j) q.
Proof.
  intros Hc. induction l as [|x l IH]; [reflexivity|]. simpl. rewrite <- app_assoc. destruct x; simpl; rewrite ?Hc; simpl; exact IH.
Qed.
Lemma run_map_dsubmit c l q : run c H0 (map IDSubmit l ++ q) = run c H0 q.
Proof. induction l; simpl; auto. Qed.

Ltac hyp_Et := match goal with Et : thr _ _ = _ :: _ |- _ => Et end.
Ltac run_goal :=
  let h := fresh "h" in let Ho := fresh "Ho" in let Hw := fresh "Hw" in
  repeat match goal with
  | E : negb (Nat.eqb _ _) = false |- _ => apply negb_false_iff in E; apply Nat.eqb_eq in E; subst
  | E : negb (Nat.eqb _ _) || _ = false |- _ => apply orb_false_elim in E; destruct E as [E _]
  end;
  intros h Ho Hw;
  match goal with Et : thr _ _ = _ :: _ |- _ => rewrite Et in Hw end;
  simpl in Hw; destruct h; try discriminate Hw;
  repeat match type of Hw with context [ifb ?b _] => destruct b eqn:?; simpl in Hw; try discriminate Hw end;
  simpl; rewrite ?run_map_dsubmit, ?run_cb_prog, ?run_setres; simpl;
  repeat match goal with E : Nat.eqb _ _ = true |- _ => apply Nat.eqb_eq in E; subst end;
  do 4 (rewrite ?Nat.eqb_refl; simpl);
  first [ exact Hw | reflexivity | split; [reflexivity|exact Hw] | congruence ].

Ltac lsame IL s :=
  repeat match goal with |- InvL (log _ _) => apply invL_log end;
  first [ apply (invL_same s) | apply (invL_sub_check s) | apply (invL_start_iter s) ];
  [ exact IL | reflexivity | reflexivity | reflexivity | reflexivity | reflexivity | reflexivity | run_goal ].
Ltac lhandler IL Hx s := brk Hx; inv_some Hx; lsame IL s.

Lemma do_ret_invL s t c s' : InvL s -> do_ret s t c = Some s' -> InvL s'.
Proof. intros IL Hx. unfold do_ret in Hx. lhandler IL Hx s. Qed.
Lemma do_evset_invL s t s' : InvL s -> do_evset s t = Some s' -> InvL s'.
Proof. intros IL Hx. unfold do_evset in Hx. lhandler IL Hx s. Qed.
Lemma do_dshutdown_invL s t s' : InvL s -> do_dshutdown s t = Some s' -> InvL s'.
Proof. intros IL Hx. unfold do_dshutdown in Hx. lhandler IL Hx s. Qed.
Lemma do_count_invL s t a s' : InvL s -> do_count s t a = Some s' -> InvL s'.
Proof. intros IL Hx. unfold do_count in Hx. lhandler IL Hx s. Qed.
Lemma do_rcread_invL s t x s' : InvL s -> do_rcread s t x = Some s' -> InvL s'.
Proof. intros IL Hx. unfold do_rcread in Hx. lhandler IL Hx s. Qed.
Lemma do_pop_invL s t s' : InvL s -> do_pop s t = Some s' -> InvL s'.
Proof. intros IL Hx. unfold do_pop in Hx. lhandler IL Hx s. Qed.
Lemma do_fm_invL s t op j p s' : InvL s -> do_fm s t op j p = Some s' -> InvL s'.
Proof. intros IL Hx. unfold do_fm in Hx. lhandler IL Hx s. Qed.
Lemma do_exit_invL s s' : InvL s -> do_exit s = Some s' -> InvL s'.
Proof. intros IL Hx. unfold do_exit in Hx. lhandler IL Hx s. Qed.
Lemma do_hstart_invL s s' : InvL s -> do_hstart s = Some s' -> InvL s'.
Proof. intros IL Hx. unfold do_hstart in Hx. lhandler IL Hx s. Qed.
Lemma do_clear_invL s t s' : InvL s -> do_clear s t = Some s' -> InvL s'.
Proof. intros IL Hx. unfold do_clear in Hx. lhandler IL Hx s. Qed.

(* a thread with an empty program holds nothing *)
Lemma idle_h0 s t h : thr s t = [] -> run (ds s) h (thr s t) = Some H0 -> h = H0.
Proof. intros Et Hw. rewrite Et in Hw. simpl in Hw. congruence. Qed.
Ltac idle_nil :=
  match goal with E : idle ?s ?t = true |- _ =>
    let Et := fresh "Et" in
    assert (Et : thr s t = []) by (unfold idle in E; destruct (thr s t); [reflexivity|rewrite andb_false_r in E; discriminate E])
  end.
Lemma do_call_submit_invL s t s' : InvL s -> do_call_submit s t = Some s' -> InvL s'.
Proof.
  intros IL Hx. unfold do_call_submit in Hx. brk Hx. inv_some Hx. idle_nil.
  apply (invL_same s); auto. intros h Ho Hw. rewrite (idle_h0 _ _ _ Et Hw). reflexivity.
Qed.
Lemma do_call_shutdown_invL s t w s' : InvL s -> do_call_shutdown s t w = Some s' -> InvL s'.
Proof.
  intros IL Hx. unfold do_call_shutdown in Hx. brk Hx. inv_some Hx. idle_nil.
  apply (invL_same s); auto. intros h Ho Hw. rewrite (idle_h0 _ _ _ Et Hw). reflexivity.
Qed.
Lemma do_call_cancel_invL s t j s' : InvL s -> do_call_cancel s t j = Some s' -> InvL s'.
Proof.
  intros IL Hx. unfold do_call_cancel in Hx. brk Hx. inv_some Hx.
  match goal with E : _ && _ = true |- _ => apply andb_prop in E; destruct E as [E _] end. idle_nil.
  apply (invL_same s); auto. intros h Ho Hw. rewrite (idle_h0 _ _ _ Et Hw). simpl. rewrite Nat.eqb_refl. reflexivity.
Qed.
Lemma do_wait_invL s t r s' : InvL s -> do_wait s t r = Some s' -> InvL s'.
Proof.
  intros IL Hx. unfold do_wait in Hx.
  destruct (thr s t) as [|i rest] eqn:Et; [discriminate|]. destruct i; try discriminate. destruct k;
    brk Hx; inv_some Hx; unfold after_wait; lsame IL s.
Qed.
Lemma do_woke_invL s t k s' : InvL s -> do_woke s t k = Some s' -> InvL s'.
Proof.
  intros IL Hx. unfold do_woke in Hx.
  destruct (thr s t) as [|i rest] eqn:Et; [discriminate|]. destruct i; try discriminate. destruct k0;
    brk Hx; inv_some Hx; unfold after_wait; lsame IL s.
Qed.
Lemma do_new_invL s b dy v s' : InvL s -> do_new s b dy v = Some s' -> InvL s'.
Proof.
  intros IL Hx. unfold do_new in Hx. brk Hx. inv_some Hx.
  match goal with E : _ || _ = false |- _ => apply orb_false_elim in E; destruct E as [_ E]; apply negb_false_iff in E end.
  destruct (thr s H) eqn:Et; [|discriminate].
  intros u. destruct (IL u) as [h [[O1 O2 O3 O4] Hw]]. simpl. destruct (Nat.eq_dec u H) as [->|Hne].
  - rewrite Et in Hw. apply wfh_run in Hw. simpl in Hw. injection Hw as ->.
    exists H0. rewrite upd_same. split; [constructor; simpl; auto|reflexivity].
  - exists h. rewrite upd_other by exact Hne. split; [constructor; simpl; auto|exact Hw].
Qed.

Lemma owned_acq' o t u : free o = true -> u <> t -> Nat.eqb u t = owned o u.
Proof. exact (owned_acq o t u). Qed.
Lemma owned_rel' o t u : owned o t = true -> u <> t -> false = owned o u.
Proof. exact (owned_rel o t u). Qed.

(* ---- acquisitions and releases ------------------------------------------------------------------ *)
Ltac old_h IL t :=
  let h := fresh "h" in let Ho := fresh "Ho" in let Hw := fresh "Hw" in
  destruct (IL t) as [h [Ho Hw]]; apply wfh_run in Hw;
  match goal with Et : thr _ t = _ :: _ |- _ => rewrite Et in Hw end;
  simpl in Hw; destruct h; try discriminate Hw;
  repeat match type of Hw with context [ifb ?b _] => destruct b eqn:?; simpl in Hw; try discriminate Hw end.
Ltac owns_goal Ho :=
  destruct Ho as [O1 O2 O3 O4]; constructor; simpl in *; rewrite ?Nat.eqb_refl; auto.
Ltac free_hyp :=
  repeat match goal with E : negb (free _) = false |- _ => apply negb_false_iff in E | E : negb (owned _ _) = false |- _ => apply negb_false_iff in E end.

Lemma do_acq_g_invL s t s' : InvL s -> do_acq_g s t = Some s' -> InvL s'.
Proof.
  intros IL Hx. unfold do_acq_g in Hx. brk Hx; inv_some Hx; free_hyp; old_h IL t.
  all: try (apply (invL_sub_check_gen s); auto; try (intros; simpl; auto; fail);
            [intros u Hne; simpl; apply owned_acq'; assumption | owns_goal Ho]).
  all: apply (invL_set s); auto; try (intros; simpl; auto; fail);
       [intros u Hne; simpl; apply owned_acq'; assumption | exists HG; split; [owns_goal Ho|simpl; exact Hw]].
Qed.
Lemma do_rel_g_invL s t s' : InvL s -> do_rel_g s t = Some s' -> InvL s'.
Proof.
  intros IL Hx. unfold do_rel_g in Hx. brk Hx; inv_some Hx. old_h IL t.
  apply (invL_set s); auto; try (intros; simpl; auto; fail);
    [intros u Hne; simpl; apply (owned_rel' _ t); assumption | exists H0; split; [owns_goal Ho|exact Hw]].
Qed.
Lemma do_xacq_invL s t s' : InvL s -> do_xacq s t = Some s' -> InvL s'.
Proof.
  intros IL Hx. unfold do_xacq in Hx. brk Hx; inv_some Hx.
  match goal with E : _ || _ = false |- _ => apply orb_false_elim in E; destruct E as [E _] end. free_hyp. old_h IL t.
  apply (invL_set s); auto; try (intros; simpl; auto; fail);
    [intros u Hne; simpl; apply owned_acq'; assumption | exists HX; split; [owns_goal Ho|reflexivity]].
Qed.
Lemma do_relx_invL s t s' : InvL s -> do_relx s t = Some s' -> InvL s'.
Proof.
  intros IL Hx. unfold do_relx in Hx. brk Hx; inv_some Hx.
  match goal with E : _ && _ = true |- _ => apply andb_prop in E; destruct E as [E _] end. old_h IL t.
  apply (invL_set s); auto; try (intros; simpl; auto; fail);
    [intros u Hne; simpl; apply (owned_rel' _ t); assumption | exists H0; split; [owns_goal Ho|rewrite run_map_dsubmit; simpl; exact Hw]].
Qed.
Lemma do_acq_a_invL s t s' : InvL s -> do_acq_a s t = Some s' -> InvL s'.
Proof.
  intros IL Hx. unfold do_acq_a in Hx. brk Hx; inv_some Hx; free_hyp; old_h IL t; apply invL_log.
  all: apply (invL_set s); auto; try (intros; simpl; auto; fail);
       [intros u Hne; simpl; apply owned_acq'; assumption|].
  - exists HXA. split; [owns_goal Ho|exact Hw].
  - exists HA. split; [owns_goal Ho|exact Hw].
  - exists (HMA j). split; [owns_goal Ho|exact Hw].
Qed.
Lemma do_rel_a_invL s t s' : InvL s -> do_rel_a s t = Some s' -> InvL s'.
Proof.
  intros IL Hx. unfold do_rel_a in Hx. brk Hx; inv_some Hx. old_h IL t.
  all: apply (invL_set s); auto; try (intros; simpl; auto; fail);
       [intros u Hne; simpl; apply (owned_rel' _ t); assumption|].
  - exists HX. split; [owns_goal Ho|exact Hw].
  - exists H0. split; [owns_goal Ho|exact Hw].
  - exists (HM j). split; [owns_goal Ho|exact Hw].
Qed.

Lemma upd_m_frame_acq s j t u j0 : free (mown s j) = true -> u <> t ->
  owned (upd (mown s) j (Some t) j0) u = owned (mown s j0) u.
Proof.
  intros Hf Hne. unfold upd. destruct (Nat.eqb j0 j) eqn:E; [|reflexivity]. apply Nat.eqb_eq in E. subst. apply owned_acq; assumption.
Qed.
Lemma upd_m_frame_rel s j t u j0 : owned (mown s j) t = true -> u <> t ->
  owned (upd (mown s) j None j0) u = owned (mown s j0) u.
Proof.
  intros Hf Hne. unfold upd. destruct (Nat.eqb j0 j) eqn:E; [|reflexivity]. apply Nat.eqb_eq in E. subst. apply (owned_rel _ t); assumption.
Qed.
Lemma owns_acq_m s s1 t j : owns s t H0 -> gown s1 = gown s -> xown s1 = xown s -> aown s1 = aown s ->
  mown s1 = upd (mown s) j (Some t) -> owns s1 t (HM j).
Proof.
  intros [O1 O2 O3 O4] E1 E2 E3 E4. constructor; rewrite ?E1, ?E2, ?E3, ?E4; auto.
  intros j0. unfold upd. simpl. rewrite (Nat.eqb_sym j j0). destruct (Nat.eqb j0 j); [simpl; apply Nat.eqb_refl|apply O4].
Qed.
Lemma owns_rel_m s s1 t j : owns s t (HM j) -> gown s1 = gown s -> xown s1 = xown s -> aown s1 = aown s ->
  mown s1 = upd (mown s) j None -> owns s1 t H0.
Proof.
  intros [O1 O2 O3 O4] E1 E2 E3 E4. constructor; rewrite ?E1, ?E2, ?E3, ?E4; auto.
  intros j0. unfold upd. simpl. specialize (O4 j0). simpl in O4. rewrite (Nat.eqb_sym j j0) in O4.
  destruct (Nat.eqb j0 j); [reflexivity|exact O4].
Qed.

Lemma do_acq_m_invL s t j s' : InvL s -> do_acq_m s t j = Some s' -> InvL s'.
Proof.
  intros IL Hx. unfold do_acq_m in Hx. brk Hx; inv_some Hx; free_hyp;
    match goal with E : Nat.eqb _ _ = true |- _ => apply Nat.eqb_eq in E; subst end; old_h IL t.
  all: apply (invL_set s); auto; try (intros; simpl; auto; fail);
       [intros u jj Hne; simpl; apply upd_m_frame_acq; assumption
       |eexists; split; [eapply (owns_acq_m s); [exact Ho|reflexivity..]|exact Hw]].
Qed.
Lemma do_rel_m_invL s t j s' : InvL s -> do_rel_m s t j = Some s' -> InvL s'.
Proof.
  intros IL Hx. unfold do_rel_m in Hx. brk Hx; inv_some Hx; free_hyp;
    match goal with E : Nat.eqb j _ = true |- _ => apply Nat.eqb_eq in E; subst end; old_h IL t;
    repeat match goal with E : Nat.eqb _ _ = true |- _ => apply Nat.eqb_eq in E; subst end.
  all: apply (invL_set s); auto; try (intros; simpl; auto; fail);
       [intros u jj Hne; simpl; apply (upd_m_frame_rel _ _ t); assumption
       |exists H0; split; [eapply (owns_rel_m s); [exact Ho|reflexivity..]|exact Hw]].
Qed.

(* ---- steps that change delegate-future states ------------------------------------------------------ *)
Lemma mono_upd (c : nat -> fstate) d n : (fcancelled (c d) = true -> fcancelled n = true) ->
  forall d0, fcancelled (c d0) = true -> fcancelled (upd c d n d0) = true.
Proof. intros Hm d0. unfold upd. destruct (Nat.eqb d0 d) eqn:E; [apply Nat.eqb_eq in E; subst; exact Hm|auto]. Qed.
Lemma fcancel_mono p : fcancelled p = true -> fcancelled (fst (f_cancel p)) = true.
Proof. destruct p; simpl; auto. Qed.
Lemma fsrnc_mono p n b : f_srnc p = Some (n, b) -> fcancelled p = true -> fcancelled n = true.
Proof. destruct p; simpl; intros Hx; inversion Hx; auto. Qed.
Lemma fset_not_cancelled p n : f_set p = Some n -> fcancelled p = false.
Proof. destruct p; simpl; intros Hx; inversion Hx; auto. Qed.

Lemma invL_ds s s' :
  InvL s -> thr s' = thr s -> gown s' = gown s -> xown s' = xown s -> aown s' = aown s -> mown s' = mown s ->
  (forall d, fcancelled (ds s d) = true -> fcancelled (ds s' d) = true) -> InvL s'.
Proof.
  intros IL E1 E2 E3 E4 E5 Hm t. destruct (IL t) as [h [[O1 O2 O3 O4] Hw]]. exists h. rewrite E1. split.
  - constructor; rewrite ?E2, ?E3, ?E4, ?E5; auto.
  - apply wfh_run. apply (run_mono (ds s)); [exact Hm|]. apply wfh_run. exact Hw.
Qed.
Lemma do_env_run_invL s t d p s' : InvL s -> do_env_run s t d p = Some s' -> InvL s'.
Proof.
  intros IL Hx. unfold do_env_run in Hx. brk Hx; inv_some Hx; auto.
  apply (invL_ds s); auto. simpl. apply mono_upd.
  repeat match goal with E : _ && _ = true |- _ => apply andb_prop in E; destruct E as [? E] end.
  match goal with E : fstate_eqb _ _ = true |- _ => apply fstate_eqb_eq in E; subst end. eapply fsrnc_mono. eassumption.
Qed.
Lemma do_env_finish_invL s t d p o s' : InvL s -> do_env_finish s t d p o = Some s' -> InvL s'.
Proof.
  intros IL Hx. unfold do_env_finish in Hx. brk Hx; inv_some Hx; auto.
  repeat match goal with E : _ && _ = true |- _ => let A := fresh "Hg" in apply andb_prop in E; destruct E as [A E] end.
  match goal with E : fstate_eqb _ _ = true |- _ => apply fstate_eqb_eq in E; subst end. idle_nil.
  assert (Hm : forall d0, fcancelled (ds s d0) = true -> fcancelled (upd (ds s) d f d0) = true).
  { apply mono_upd. intros Hc. erewrite fset_not_cancelled in Hc by eassumption. discriminate. }
  apply invL_log. apply (invL_set s); auto; try (intros; simpl; auto; fail).
  - intros u h Hne Hr. simpl. apply (run_mono (ds s)); assumption.
  - destruct (IL t) as [h [Ho Hw]]. apply wfh_run in Hw. rewrite (idle_h0 _ _ _ Et Hw) in Ho.
    exists H0. split; [destruct Ho; constructor; simpl; auto|].
    rewrite <- (app_nil_r (flat_map _ _)), run_cb_prog. reflexivity.
Qed.

Lemma do_xsec_invL s t s' : InvB s -> InvL s -> do_xsec s t = Some s' -> InvL s'.
Proof.
  intros IB IL Hx. unfold do_xsec in Hx. brk Hx; inv_some Hx; [|lsame IL s|lsame IL s].
  (* enqueue: the lock of the new future is (re)initialised; it was free *)
  old_h IL t. apply invL_log.
  pose proof (b_mown _ IB (nfut s) (le_n _)) as Hfree.
  apply (invL_set s); auto; try (intros; simpl; auto; fail).
  - intros u jj Hne. simpl. unfold upd. destruct (Nat.eqb jj (nfut s)) eqn:E; [|reflexivity].
    apply Nat.eqb_eq in E. subst. rewrite Hfree. reflexivity.
  - exists HG. split; [|exact Hw]. destruct Ho as [O1 O2 O3 O4]. constructor; simpl; auto.
    intros jj. unfold upd. destruct (Nat.eqb jj (nfut s)); [reflexivity|apply O4].
Qed.

Lemma do_dsubmit_invL s t d i s' : InvD s -> InvL s -> do_dsubmit s t d i = Some s' -> InvL s'.
Proof.
  intros ID IL Hx. unfold do_dsubmit in Hx.
  destruct (thr s t) as [|i0 rest] eqn:Et; [discriminate|]. destruct i0; try discriminate.
  destruct (negb (Nat.eqb d (ndel s)) || negb (Nat.eqb t H) || owned (xown s) t) eqn:Eg; [discriminate|].
  apply orb_false_elim in Eg. destruct Eg as [Eg _]. apply orb_false_elim in Eg. destruct Eg as [Eg _].
  apply negb_false_iff in Eg. apply Nat.eqb_eq in Eg. subst d.
  old_h IL t.
  assert (Hext : forall x u h, run (upd (ds s) (ndel s) x) h (thr s u) = run (ds s) h (thr s u)).
  { intros x u h1. apply (run_ext _ _ (ndel s)); [|apply (d_prog _ ID)].
    intros d0 Hlt. unfold upd. destruct (Nat.eqb d0 (ndel s)) eqn:E; [apply Nat.eqb_eq in E; lia|reflexivity]. }
  assert (Hrest : forall x, run (upd (ds s) (ndel s) x) H0 rest = Some H0).
  { intros x. pose proof (Hext x t H0) as Hq. rewrite Et in Hq. simpl in Hq. rewrite Hq. exact Hw. }
  destruct (issome i); inv_some Hx; repeat match goal with |- InvL (log _ _) => apply invL_log end;
    (apply (invL_set s); auto; try (intros; simpl; auto; fail);
     [intros u h1 Hne Hr; simpl; rewrite Hext; exact Hr
     |exists H0; split; [destruct Ho; constructor; simpl; auto|simpl; rewrite Nat.eqb_refl; simpl; apply Hrest]]).
Qed.

Lemma clear_del_lview l : forall s,
  thr (clear_del s l) = thr s /\ gown (clear_del s l) = gown s /\ xown (clear_del s l) = xown s /\
  aown (clear_del s l) = aown s /\ mown (clear_del s l) = mown s /\ ds (clear_del s l) = ds s.
Proof.
  unfold clear_del. induction l as [|c l IH]; intros s; simpl; [auto 7|].
  destruct (IH (match c with CbDone => s | CbRes j => s <| mdel := upd (mdel s) j None |> end)) as [A [B [C [D [E F]]]]].
  rewrite A, B, C, D, E, F. destruct c; simpl; auto 7.
Qed.

Lemma do_fd_invL s t op d p s' : InvL s -> do_fd s t op d p = Some s' -> InvL s'.
Proof.
  intros IL Hx. unfold do_fd in Hx.
  destruct (negb (fstate_eqb p (ds s d))) eqn:Ep; [discriminate|]. apply negb_false_iff in Ep. apply fstate_eqb_eq in Ep. subst p.
  brk Hx; inv_some Hx; try solve [lsame IL s].
  all: repeat match goal with E : negb (Nat.eqb _ _) = false |- _ => apply negb_false_iff in E; apply Nat.eqb_eq in E; subst end.
  all: old_h IL t; repeat match goal with E : Nat.eqb _ _ = true |- _ => apply Nat.eqb_eq in E; subst end.
  all: match goal with E : f_cancel (?c ?d) = (?f, _) |- _ =>
         assert (Hm : forall d0, fcancelled (c d0) = true -> fcancelled (upd c d f d0) = true)
           by (apply mono_upd; intros Hc; pose proof (fcancel_mono _ Hc) as Hq; rewrite E in Hq; exact Hq) end.
  - (* cancel() of the delegate future succeeds and runs its callbacks inline, under M_j *)
    apply invL_log.
    match goal with |- InvL (set_prog (clear_del ?x ?l) _ _) => destruct (clear_del_lview l x) as [A [B [C [D [E F]]]]] end.
    apply (invL_set s); rewrite ?A, ?B, ?C, ?D, ?E, ?F; auto; try (intros; simpl; auto; fail).
    + intros u h1 Hne Hr. simpl. apply (run_mono (ds s)); assumption.
    + match type of Ho with owns _ _ ?h => exists h end.
      split; [destruct Ho as [O1 O2 O3 O4]; constructor; rewrite ?B, ?C, ?D, ?E; simpl; auto|].
      simpl. match goal with E1 : f_cancel (ds s ?d) = (?f, true) |- _ =>
        assert (Hc : fcancelled (upd (ds s) d f d) = true)
          by (rewrite upd_same; pose proof (f_cancel_true_cancelled (ds s d)) as Hq; rewrite E1 in Hq; apply Hq; reflexivity) end.
      rewrite run_cb_prog_held by exact Hc. simpl. rewrite Nat.eqb_refl. simpl. apply (run_mono (ds s)); assumption.
  - apply (invL_set s); auto; try (intros; simpl; auto; fail).
    + intros u h1 Hne Hr. simpl. apply (run_mono (ds s)); assumption.
    + match type of Ho with owns _ _ ?h => exists h end.
      split; [destruct Ho as [O1 O2 O3 O4]; constructor; simpl; auto|].
      simpl. rewrite Nat.eqb_refl. simpl. apply (run_mono (ds s)); assumption.
  - apply (invL_set s); auto; try (intros; simpl; auto; fail).
    + intros u h1 Hne Hr. simpl. apply (run_mono (ds s)); assumption.
    + match type of Ho with owns _ _ ?h => exists h end.
      split; [destruct Ho as [O1 O2 O3 O4]; constructor; simpl; auto|].
      simpl. rewrite Nat.eqb_refl. simpl. apply (run_mono (ds s)); assumption.
Qed.

Lemma step0_invL s e s' : InvB s -> InvD s -> InvL s -> step0 s e = Some s' -> InvL s'.
Proof.
  intros IB ID IL Hx. destruct e; cbn [step0] in Hx;
  [ eapply do_new_invL | eapply do_hstart_invL | eapply do_exit_invL | eapply do_call_submit_invL
  | eapply do_call_cancel_invL | eapply do_call_shutdown_invL | eapply do_ret_invL | eapply do_acq_g_invL
  | eapply do_rel_g_invL | eapply do_count_invL | eapply (do_xsec_invL s) | eapply do_xacq_invL | eapply do_relx_invL
  | eapply do_rcread_invL | eapply do_pop_invL | eapply do_acq_a_invL | eapply do_rel_a_invL | eapply do_evset_invL
  | eapply do_wait_invL | eapply do_woke_invL | eapply do_clear_invL | eapply (do_dsubmit_invL s) | eapply do_dshutdown_invL
  | eapply do_acq_m_invL | eapply do_rel_m_invL | eapply do_fm_invL | eapply do_fd_invL | eapply do_env_run_invL
  | eapply do_env_finish_invL ]; eassumption.
Qed.

Lemma invL_init : InvL init.
Proof. intros t. exists H0. split; [constructor; reflexivity|reflexivity]. Qed.

Lemma invL_reachable s : reachable_from step init s -> InvL s.
Proof.
  apply invariant_rule_r; [exact invL_init|].
  intros s0 [ts e] s' Hr IL Hx. unfold step in Hx. simpl in Hx.
  destruct (tick s0 ts) as [s1|] eqn:Et; [|discriminate].
  pose proof (invB_reachable s0 Hr) as IB. pose proof (invD_reachable s0 Hr) as ID.
  unfold tick in Et. destruct (Z.leb (clock s0) ts); inv_some Et.
  eapply step0_invL; [| | |exact Hx].
  - destruct IB as [B1 B2 B3 B4 B5]. constructor; simpl; auto.
  - destruct ID as [D1 D2]. constructor; simpl; auto.
  - apply (invL_ext s0); auto.
Qed.
