(* Layers, part 8: other numberings.  `flat K` is `flatn (glob K)`; `ordered` is closed under sequencing; threads that
   perform sequences of calls which are ordered under ANY numbering do not deadlock (Locks_Proofs); the gates-first
   numbering is injective. *)
From Coq Require Import List Bool Arith Lia.
From ME Require Import Base.Machine Model.Locks Proofs.Locks_Proofs Model.Layers Proofs.Layers_Exec Proofs.Layers_Wf.
Import ListNotations.

Lemma flat1_flatn1 K x : forall i, flat1 K i x = flatn1 (glob K) i x.
Proof.
  induction x as [k|k|b IHb|b IHb] using lp_ind'; intros i; simpl; auto.
  - induction IHb as [|y r Hy _ IHr]; simpl; auto. rewrite Hy, IHr. reflexivity.
  - induction IHb as [|y r Hy _ IHr]; simpl; auto. rewrite Hy, IHr. reflexivity.
Qed.

Lemma flat_flatn K i p : flat K i p = flatn (glob K) i p.
Proof.
  unfold flat, flatn. induction p as [|x r IH]; simpl; auto. rewrite flat1_flatn1, IH. reflexivity.
Qed.

Lemma ordered_app p q : ordered [] p = true -> ordered [] q = true -> ordered [] (p ++ q) = true.
Proof.
  rewrite !exec_ordered. intros Hp Hq. rewrite exec_app, Hp. exact Hq.
Qed.

Lemma flatn_app num i p q : flatn num i (p ++ q) = flatn num i p ++ flatn num i q.
Proof. unfold flatn. apply flat_map_app. Qed.

Lemma ordered_flatn_concat num i ps :
  Forall (fun p => ordered [] (flatn num i p) = true) ps -> ordered [] (flatn num i (concat ps)) = true.
Proof.
  induction ps as [|p r IH]; intros H; simpl; [reflexivity|].
  inversion H; subst. rewrite flatn_app. apply ordered_app; auto.
Qed.

Theorem numbered_calls_no_deadlock : forall num n start (calls : nat -> list (list lp)),
  (forall t, Forall (fun p => ordered [] (flatn num (start t) p) = true) (calls t)) ->
  (forall t, n <= t -> calls t = []) ->
  forall s, reachable_from step (init_of (fun t => flatn num (start t) (concat (calls t)))) s ->
  (exists t, prog s t <> []) -> exists t s', step s t = Some s'.
Proof.
  intros num n start calls Ho Hn. apply (lock_order_no_deadlock n).
  - intros t. apply ordered_flatn_concat. apply Ho.
  - intros t Ht. rewrite (Hn t Ht). reflexivity.
Qed.

Lemma gate_first_inj L K i j k1 k2 : i < L -> j < L -> k1 < K -> k2 < K ->
  gate_first L K i k1 = gate_first L K j k2 -> i = j /\ k1 = k2.
Proof.
  intros Hi Hj H1 H2. unfold gate_first. destruct k1 as [|k1], k2 as [|k2]; intros E.
  - auto.
  - lia.
  - lia.
  - assert (E' : glob K i (S k1) = glob K j (S k2)) by (unfold glob; lia).
    apply glob_inj in E'; auto.
Qed.

(* gates below everything else, gates by layer, the rest lexicographic *)
Lemma gate_first_order L K : 
  (forall i j, i < j -> gate_first L K i 0 < gate_first L K j 0) /\
  (forall i j k, i < L -> gate_first L K i 0 < gate_first L K j (S k)) /\
  (forall i k1 k2, 0 < k1 -> k1 < k2 -> gate_first L K i k1 < gate_first L K i k2) /\
  (forall i j k1 k2, i < j -> 0 < k1 -> k1 < K -> 0 < k2 -> gate_first L K i k1 < gate_first L K j k2).
Proof.
  unfold gate_first. split; [|split; [|split]].
  - intros i j H. exact H.
  - intros i j k H. lia.
  - intros i [|k1] [|k2] H0 H; lia.
  - intros i j [|k1] [|k2] H H0 H1 H2; try lia. nia.
Qed.
