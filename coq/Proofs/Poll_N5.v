(* C03 for the Poll machine, part 5: a registration is always announced to the poll thread.
   Inv11: if a descriptor was appended (HReg) after the latest snapshot, then a set() of the poll event has not
   been answered by a snapshot yet (owed) or some thread's program still holds that set() (IEvSet: _register_poll
   appends and sets the event inside one X-section). *)
From Coq Require Import ZArith List Bool Arith Lia.
From RecordUpdate Require Import RecordSet.
From ME Require Import Base.Machine Base.Fut Base.GenPrelude Model.Poll Proofs.Poll_Inv Proofs.Poll_NoDup
     Proofs.Poll_N1.
Import ListNotations RecordSetNotations.

Fixpoint regev (p : list instr) : Prop :=
  match p with
  | [] => True
  | IXAcqReg _ _ :: r => In IEvSet r /\ regev r
  | _ :: r => regev r
  end.

(* was a descriptor appended after the latest snapshot? *)
Fixpoint reg_after_snap (h : list hev) : bool :=
  match h with
  | [] => false
  | HSnap _ _ :: _ => false
  | HReg _ _ _ :: _ => true
  | _ :: r => reg_after_snap r
  end.

Lemma regev_cancel_cont s j r : regev r -> regev (cancel_cont s j ++ r).
Proof.
  intros H. unfold cancel_cont, cancel_no, cancel_ok. destruct (negb (pexec s j)); [exact H|].
  destruct (negb (hascfn s)); [exact H|]. destruct (lookup j (descs s)); exact H.
Qed.
Lemma regev_norm s p : regev p -> regev (norm s p).
Proof. destruct p as [|i r]; [auto|]. destruct i; auto. simpl. apply regev_cancel_cont. Qed.
Lemma regev_raise e (sn : list (nat * nat)) : regev (flat_map (fun p => exc_prog (fst p) e) sn).
Proof. induction sn; simpl; auto. Qed.
Lemma evset_norm s p : In IEvSet p -> In IEvSet (norm s p).
Proof.
  destruct p as [|i r]; [auto|]. destruct i; auto. simpl. rewrite in_app_iff.
  intros [H|H]; [discriminate H|right; exact H].
Qed.

Record Inv11 (s : st) : Prop := {
  i11_prog : forall t, regev (thr s t);
  i11_sig : reg_after_snap (hist s) = true -> owed s <> None \/ exists t, In IEvSet (thr s t)
}.

Lemma inv11_init : Inv11 init.
Proof. constructor; simpl; intros; [exact I|discriminate]. Qed.

Ltac g11_prog Ip :=
  let t0 := fresh "t0" in intros t0; pose proof (Ip t0) as Hc0;
  try match goal with
  | E : thr ?s ?t = _ |- _ =>
      let Hc := fresh "Hc" in pose proof (Ip t) as Hc; rewrite E in Hc; simpl in Hc
  end;
  try match goal with |- context [upd (thr _) ?t _ t0] =>
    destruct (Nat.eq_dec t0 t) as [Heq|Hne];
    [ subst t0; rewrite (upd_same _ t); try apply regev_norm; try apply regev_cancel_cont
    | rewrite (upd_other _ t _ t0) by assumption ]
  end;
  try match goal with |- context [yield_prog _ ?o] => destruct o end;
  try match goal with |- context [if ?c then [IXDereg _] else []] => destruct c end;
  simpl; try apply regev_raise;
  repeat match goal with H : _ /\ _ |- _ => destruct H end;
  try solve [ exact I | assumption | tauto | split; [simpl; tauto|assumption] ].

Ltac ev_goal Hp :=
  match goal with
  | |- In IEvSet (upd (thr _) ?t _ ?t') =>
      destruct (Nat.eq_dec t' t) as [Heqt|Hnet];
      [ subst; rewrite upd_same;
        match goal with E : thr _ _ = _ |- _ => rewrite E in Hp end;
        try apply evset_norm;
        try match goal with |- context [yield_prog _ ?o] => destruct o end;
        try match goal with |- context [if ?c then [IXDereg _] else []] => destruct c end;
        simpl in *; rewrite ?in_app_iff; simpl;
        intuition (try discriminate; try congruence; eauto)
      | rewrite upd_other by assumption; exact Hp ]
  | _ => exact Hp
  end.

Ltac g11_sig Ip Is :=
  let Hr := fresh "Hr" in intros Hr;
  try match goal with
  | E : thr ?s ?t = _ |- _ =>
      let Hc := fresh "Hc" in pose proof (Ip t) as Hc; rewrite E in Hc; simpl in Hc
  end;
  first [ discriminate Hr
        | left; congruence
        | (* registered just now: the set() is still in this thread's program *)
          right; eexists; rewrite upd_same; apply evset_norm; tauto
        | destruct (Is Hr) as [Ho|[tw Hp]];
          [ left; first [assumption|congruence]
          | first [ right; exists tw; solve [ev_goal Hp] | left; congruence ] ] ].

Ltac inv11_fin Ip Is := constructor; simpl in *; [ try solve [g11_prog Ip] | try solve [g11_sig Ip Is] ].

Lemma inv11_step s e s' : Inv11 s -> step s e = Some s' -> Inv11 s'.
Proof.
  destruct e as [ts e]. intros I H. apply step_inv in H. destruct H as [s1 [Ht H]].
  assert (I1 : Inv11 s1).
  { apply tick_inv in Ht. destruct Ht as [[-> _]|[-> _]]; [exact I|]. destruct I; constructor; simpl; auto. }
  clear I Ht s. destruct I1 as [Ip Is].
  apply step0_inv in H. destruct H as [[c [d [-> [_ ->]]]]|[_ [H|[H|H]]]].
  - constructor; simpl; auto.
  - open1 H; norm_eqs; inv11_fin Ip Is.
  - open2 H; norm_eqs; inv11_fin Ip Is.
  - open3 H; norm_eqs; inv11_fin Ip Is.
Qed.
