(* source facts of more_executors/_impl/futures/check.py: what the translator finds now is what the models were written against *)
From Coq Require Import List String.
From ME Require Import Gen.Src_fcheck Model.SrcExpected.
Lemma src_fcheck_ok : Src_fcheck.facts = expected_fcheck.
Proof. reflexivity. Qed.
