(* The IR machine running the generated ShutdownHelper programs (Gen/GateSkel.v) and Model/Gate.v move in lockstep;
   consequences (lemmas behind Props/C11_ir.v). *)
From Coq Require Import List Arith Bool Lia PeanoNat.
From ME Require Import Base.Machine Base.Fut Model.Cos Model.CosIR Model.GateIR Gen.GateSkel.
From ME Require Model.Gate.
Import ListNotations.

Definition ggstep : ist -> Gate.ev -> option ist := gate_istep enter_prog call_prog.

Lemma gate_programs_wf : wf_prog enter_prog = true /\ wf_prog call_prog = true.
Proof. split; vm_compute; reflexivity. Qed.

Definition gconc (p : Gate.pc) : tstate :=
  match p with
  | Gate.Idle => TIdle
  | Gate.E0 => TRun [IS (SWith LG [SIf CFlag [SRaise] []]); KRet false] lv0
  | Gate.EIn => TRun [KRel LG; KRet false] lv0
  | Gate.ERaise => TRun [KRel LG; KRet true] lv0
  | Gate.H0 => TRun [IS (SWith LG [SIf CFlag [SReturn (EBool false)] []; SSetFlag; SReturn (EBool true)]); KRet false] lv0
  | Gate.HWon => TRun [KRel LG; KRet false] (mkLv None [] (RBool true) false true)
  | Gate.HLost => TRun [KRel LG; KRet false] (mkLv None [] (RBool false) false false)
  end.

(* Gate.v's ghosts (wins, submits_after) have no counterpart in the IR state, the IR's other shared fields none in Gate.v *)
Record Rg (s : ist) (cs : Gate.st) : Prop := {
  rg_gate : igate (sh s) = Gate.gate cs;
  rg_flag : iflag (sh s) = Gate.flag cs;
  rg_thr : forall t, ithr s t = gconc (Gate.thr cs t)
}.

Definition glock_ok (o1 : option ist) (o2 : option Gate.st) : Prop :=
  match o1, o2 with
  | Some s', Some cs' => Rg s' cs'
  | None, None => True
  | _, _ => False
  end.

Lemma Rg_init : Rg iinit Gate.init.
Proof. constructor; reflexivity. Qed.

Ltac open_Rg HR s cs :=
  destruct s as [[g l fl tr cr ff cc ds sr] th];
  destruct cs as [g' fl' th' w sa];
  destruct HR as [Hg Hfl Hth]; simpl in Hg, Hfl, Hth; subst g' fl'.

Ltac solve_Rg Hth t :=
  constructor; simpl; try reflexivity;
  let u := fresh "u" in
  intros u; unfold upd; destruct (Nat.eqb u t); [reflexivity | apply Hth].

Ltac gthread_cases Hth th' t :=
  let Ec := fresh "Ec" in let Ep := fresh "Ep" in
  pose proof (Hth t) as Ec; destruct (th' t) eqn:Ep; simpl in Ec; rewrite Ec; simpl.

Theorem gate_lockstep s cs e : Rg s cs -> glock_ok (ggstep s e) (Gate.step cs e).
Proof.
  intros HR. open_Rg HR s cs.
  destruct e as [t|t|t|t code]; unfold ggstep, gate_istep, istep, call, Gate.step; simpl.
  - gthread_cases Hth th' t; try exact I. solve_Rg Hth t.
  - gthread_cases Hth th' t; try exact I. solve_Rg Hth t.
  - destruct g; destruct fl; simpl; gthread_cases Hth th' t; try exact I; solve_Rg Hth t.
  - gthread_cases Hth th' t; try exact I; rewrite !upd_same; simpl;
      destruct code as [|[|[|[|code]]]]; simpl; try exact I; solve_Rg Hth t.
Qed.

Lemma gate_run_lockstep es : forall s cs, Rg s cs -> glock_ok (run ggstep s es) (run Gate.step cs es).
Proof.
  induction es as [|e r IH]; intros s cs HR; simpl; [exact HR|].
  pose proof (gate_lockstep s cs e HR) as L. unfold glock_ok in L.
  destruct (ggstep s e) as [s'|]; destruct (Gate.step cs e) as [cs'|]; try contradiction; [apply IH; exact L|exact I].
Qed.

Theorem gate_ir_trace_accepted_by_gate : forall es s, run ggstep iinit es = Some s ->
  exists cs, run Gate.step Gate.init es = Some cs /\ Rg s cs.
Proof.
  intros es s H. pose proof (gate_run_lockstep es iinit Gate.init Rg_init) as L. rewrite H in L. simpl in L.
  destruct (run Gate.step Gate.init es) as [cs|]; [|contradiction]. exists cs. split; [reflexivity|exact L].
Qed.

Theorem gate_trace_accepted_by_ir : forall es cs, run Gate.step Gate.init es = Some cs ->
  exists s, run ggstep iinit es = Some s /\ Rg s cs.
Proof.
  intros es cs H. pose proof (gate_run_lockstep es iinit Gate.init Rg_init) as L. rewrite H in L.
  destruct (run ggstep iinit es) as [s|]; simpl in L; [|contradiction]. exists s. split; [reflexivity|exact L].
Qed.

Lemma gate_first_reject_lockstep es : forall s cs n, Rg s cs ->
  first_reject ggstep s es n = first_reject Gate.step cs es n.
Proof.
  induction es as [|e r IH]; intros s cs n HR; simpl; [reflexivity|].
  pose proof (gate_lockstep s cs e HR) as L. unfold glock_ok in L.
  destruct (ggstep s e) as [s'|]; destruct (Gate.step cs e) as [cs'|]; try contradiction; [apply IH; exact L|reflexivity].
Qed.
Theorem gate_iaccept_eq_accept : forall ls, gate_iaccept enter_prog call_prog ls = Gate.accept ls.
Proof.
  intros ls. unfold gate_iaccept, Gate.accept. destruct (Gate.decode_all ls) as [es|]; [|reflexivity].
  change (gate_istep enter_prog call_prog) with ggstep.
  rewrite (gate_first_reject_lockstep es iinit Gate.init 0 Rg_init). reflexivity.
Qed.

Definition greachable (s : ist) : Prop := reachable_from ggstep iinit s.

Lemma greachable_related : forall s, greachable s -> exists cs, reachable_from Gate.step Gate.init cs /\ Rg s cs.
Proof.
  intros s [es H]. destruct (gate_ir_trace_accepted_by_gate es s H) as [cs [Hc HR]].
  exists cs. split; [exists es; exact Hc|exact HR].
Qed.

(* ---- the gate theorems of C11 on the generated programs ------------------------------------------ *)
(* thread t is inside the gate: its next operation is the release of LG *)
Definition inside (ts : tstate) : bool := match ts with TRun (KRel LG :: _) _ => true | _ => false end.

Lemma inside_holds p : inside (gconc p) = Gate.holds p.
Proof. destruct p; reflexivity. Qed.

Lemma gir_mutual_exclusion : forall s t u, greachable s ->
  inside (ithr s t) = true -> inside (ithr s u) = true -> t = u.
Proof.
  intros s t u Hs Ht Hu. destruct (greachable_related s Hs) as [cs [Hc HR]].
  rewrite (rg_thr _ _ HR), inside_holds in Ht, Hu. exact (Gate.gate_mutual_exclusion cs t u Hc Ht Hu).
Qed.

Lemma gir_gate_owner : forall s t, greachable s -> (igate (sh s) = Some t <-> inside (ithr s t) = true).
Proof.
  intros s t Hs. destruct (greachable_related s Hs) as [cs [Hc HR]].
  rewrite (rg_gate _ _ HR), (rg_thr _ _ HR), inside_holds. apply (Gate.i_gate _ (Gate.reachable_inv cs Hc)).
Qed.

(* ensure_alive entered after the flag is set: release and raise *)
Lemma gir_submit_after_shutdown_raises : forall s t s', iflag (sh s) = true ->
  ithr s t = TRun (map IS enter_prog ++ [KRet false]) lv0 ->
  ggstep s (Gate.Acq t) = Some s' -> ithr s' t = TRun [KRel LG; KRet true] lv0 /\ iflag (sh s') = true.
Proof.
  intros [[g l fl tr cr ff cc ds sr] th] t s' Hf Ht. simpl in Hf, Ht. subst fl.
  unfold ggstep, gate_istep, istep. simpl. rewrite Ht. simpl.
  destruct g; simpl; [discriminate|]. intros H. injection H as <-. simpl. rewrite upd_same. split; reflexivity.
Qed.

(* __call__ : with the flag already set the call is about to return False and leaves the flag; with the flag clear it
   sets it and is about to return True *)
Lemma gir_call_outcome : forall s t s',
  ithr s t = TRun (map IS call_prog ++ [KRet false]) lv0 ->
  ggstep s (Gate.Acq t) = Some s' ->
  iflag (sh s') = true /\
  exists lv, ithr s' t = TRun [KRel LG; KRet false] lv /\ l_ret lv = RBool (negb (iflag (sh s))).
Proof.
  intros [[g l fl tr cr ff cc ds sr] th] t s' Ht. simpl in Ht.
  unfold ggstep, gate_istep, istep. simpl. rewrite Ht. simpl.
  destruct g; simpl; [discriminate|]. destruct fl; simpl; intros H; injection H as <-; simpl; rewrite upd_same;
    (split; [reflexivity|eexists; split; reflexivity]).
Qed.

(* the ghosts of Gate.v, through the relation: exactly one call ever flipped the flag; no guarded section was entered after it *)
Lemma gir_first_shutdown_wins : forall s, greachable s ->
  exists cs, Rg s cs /\ Gate.wins cs <= 1 /\ (iflag (sh s) = true <-> Gate.wins cs = 1) /\ Gate.submits_after cs = 0.
Proof.
  intros s Hs. destruct (greachable_related s Hs) as [cs [Hc HR]]. exists cs.
  destruct (Gate.gate_first_shutdown_wins cs Hc) as [Hle Hiff]. rewrite (rg_flag _ _ HR).
  split; [exact HR|]. split; [exact Hle|]. split; [exact Hiff|]. exact (Gate.gate_no_submit_enters_after_win cs Hc).
Qed.

(* once the flag is set, nobody is inside a guarded section that did not raise (a fact of Gate.v first) *)
Lemma gate_no_section_after_flag : forall cs, reachable_from Gate.step Gate.init cs -> Gate.flag cs = true ->
  forall t, Gate.thr cs t <> Gate.EIn.
Proof.
  apply (invariant_rule_r Gate.step (fun cs => Gate.flag cs = true -> forall t, Gate.thr cs t <> Gate.EIn)).
  - intros H. discriminate.
  - intros s e s' Hr IH Hst Hf u. pose proof (Gate.reachable_inv s Hr) as [Ig _ _].
    destruct e as [t|t|t|t code]; simpl in Hst.
    + destruct (Gate.thr s t) eqn:Et; try discriminate. injection Hst as <-. simpl in *.
      unfold upd. destruct (Nat.eqb u t); [discriminate|apply IH; exact Hf].
    + destruct (Gate.thr s t) eqn:Et; try discriminate. injection Hst as <-. simpl in *.
      unfold upd. destruct (Nat.eqb u t); [discriminate|apply IH; exact Hf].
    + destruct (Gate.gate s) eqn:Eg; [discriminate|].
      destruct (Gate.thr s t) eqn:Et; try discriminate; injection Hst as <-; simpl in *; unfold upd;
        destruct (Nat.eqb u t) eqn:Eu.
      * rewrite Hf. discriminate.
      * apply IH; exact Hf.
      * destruct (Gate.flag s); discriminate.
      * intros E. assert (Hh : Gate.holds (Gate.thr s u) = true) by (rewrite E; reflexivity).
        apply Ig in Hh. congruence.
    + destruct (Gate.thr s t) eqn:Et; try discriminate; destruct code as [|[|[|[|c]]]]; try discriminate;
        injection Hst as <-; simpl in *; unfold upd; (destruct (Nat.eqb u t); [discriminate|apply IH; exact Hf]).
Qed.

Lemma gir_no_section_after_flag : forall s, greachable s -> iflag (sh s) = true ->
  forall t, ithr s t <> TRun [KRel LG; KRet false] lv0.
Proof.
  intros s Hs Hf t E. destruct (greachable_related s Hs) as [cs [Hc HR]].
  rewrite (rg_flag _ _ HR) in Hf. pose proof (gate_no_section_after_flag cs Hc Hf t) as Hn.
  rewrite (rg_thr _ _ HR) in E. destruct (Gate.thr cs t); simpl in E; try discriminate E. apply Hn; reflexivity.
Qed.

(* a race: a guarded section (thread 0) against two shutdown calls (threads 1, 2) *)
Definition gate_race : list Gate.ev :=
  [ Gate.CallSubmit 0; Gate.CallShutdown 1; Gate.CallShutdown 2; Gate.Acq 0; Gate.Rel 0 0; Gate.Acq 2; Gate.CallSubmit 0;
    Gate.Rel 2 2; Gate.Acq 1; Gate.Rel 1 3; Gate.Acq 0; Gate.Rel 0 1 ].
Lemma gir_race_accepted :
  option_map (fun s => (iflag (sh s), igate (sh s))) (run ggstep iinit gate_race) = Some (true, None).
Proof. vm_compute. reflexivity. Qed.

Lemma gir_nonvacuous : exists s t, greachable s /\ iflag (sh s) = true /\
  ithr s t = TRun (map IS enter_prog ++ [KRet false]) lv0 /\ exists s', ggstep s (Gate.Acq t) = Some s'.
Proof.
  pose (tr := [Gate.CallShutdown 1; Gate.Acq 1; Gate.Rel 1 2; Gate.CallSubmit 0]).
  destruct (run ggstep iinit tr) as [s|] eqn:E; [|vm_compute in E; discriminate].
  exists s, 0. split; [exists tr; exact E|].
  vm_compute in E. injection E as <-. repeat split. eexists. vm_compute. reflexivity.
Qed.
