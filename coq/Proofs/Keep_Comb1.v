(* C12 on the combinator machine (Model/Comb.v: f_or / f_and BoolOperation, f_zip Zipper): what the operation and
   the futures around it still hold once the output is decided.
     ecbs s d   handle_done registrations in the callback list of input d (bound methods: they keep the operation,
                hence its output future, its fs map and its slots alive);
     ocbs s     chain_cancel / notify_cancel callbacks in the callback list of the output (closures holding the inputs);
     fsd s      BoolOperation.fs, the remaining inputs.
   New invariants: OCL (a done output has an empty callback list), FS (fs only holds inputs; empty before the
   constructor call).  The rest assembles EC, BL, PB, LF/LC of Proofs/Comb_N*.v / Comb_I10*.v. *)
From Coq Require Import List Arith Bool Lia PeanoNat ZArith.
From ME Require Import Base.Machine Base.Fut Base.GenPrelude Gen.BoolGen Gen.ZipGen Model.Comb Proofs.Comb_Spec.
From ME Require Import Proofs.Comb_I0 Proofs.Comb_I1 Proofs.Comb_I2 Proofs.Comb_I4 Proofs.Comb_I5 Proofs.Comb_I8 Proofs.Comb_I10a
  Proofs.Comb_Inv Proofs.Comb_N1 Proofs.Comb_N2 Proofs.Comb_N3.
Import ListNotations.

(* ---- OCL: stdlib clears the callback list of a done future (the output) ------------------------- *)
Definition OCL (s : st) : Prop := fdone (os s) = true -> ocbs s = [].

Lemma f_set_some_notdone pre n : f_set pre = Some n -> fdone pre = false.
Proof. destruct pre; simpl; intros E; try discriminate E; reflexivity. Qed.
Lemma f_srnc_done pre n b : f_srnc pre = Some (n, b) -> fdone n = true -> fdone pre = true.
Proof. destruct pre; simpl; intros E; inversion E; subst; simpl; auto. Qed.
Lemma f_cancel_nofire_done pre n b : f_cancel pre = (n, b) -> f_cancel_fires pre = false -> fdone n = true -> fdone pre = true.
Proof. destruct pre; simpl; intros E F; inversion E; subst; simpl; auto; discriminate F. Qed.

Lemma OCL_step s e s' : OCL s -> step s e = Some s' -> OCL s'.
Proof.
  intros C H. unfold OCL in *.
  destruct e; step_inv H; simpl in *; auto; clean; intros D.
  all: try (apply C; exact D).
  all: try congruence.
  all: try (apply C; eapply f_srnc_done; eauto; fail).
  all: try (apply C; eapply f_cancel_nofire_done; eauto; fail).
Qed.

Lemma OCL_reach s : reachable s -> OCL s.
Proof. apply invariant_rule; [intros _; reflexivity|]. intros; eapply OCL_step; eauto. Qed.

(* ---- FS: BoolOperation.fs only holds inputs; nothing before the constructor call ------------------ *)
Definition FS (s : st) : Prop := (forall x, In x (fsd s) -> In x (inputs s)) /\ (built s = false -> fsd s = []).

Lemma FS_step s e s' : FS s -> step s e = Some s' -> FS s'.
Proof.
  intros [F U] H. unfold FS.
  destruct e; step_inv H; simpl in *; auto.
  all: try (split; [intros x Hx; apply dedup_in; exact Hx|discriminate]).
  all: split; [intros x Hx; apply remove_id_in in Hx; apply F; tauto|].
  all: intros B; rewrite (U B) in *; simpl in *; discriminate.
Qed.

Lemma FS_reach s : reachable s -> FS s.
Proof. apply invariant_rule; [split; [intros x []|reflexivity]|]. intros; eapply FS_step; eauto. Qed.

(* ---- the statements ------------------------------------------------------------------------------ *)
Lemma keep_comb_done_input_cbs_cleared : forall s, reachable s -> forall d, fdone (es s d) = true -> ecbs s d = [].
Proof. exact EC_reach. Qed.

Lemma keep_comb_done_output_cbs_cleared : forall s, reachable s -> fdone (os s) = true -> ocbs s = [].
Proof. exact OCL_reach. Qed.

(* every reachable state: whatever is still registered is registered on / for a future that is NOT done *)
Lemma keep_comb_registrations_only_pending : forall s, reachable s ->
  (forall d, ecbs s d <> [] -> fdone (es s d) = false /\ In d (inputs s)) /\
  (ocbs s <> [] -> fdone (os s) = false).
Proof.
  intros s R. split.
  - intros d Hne. split.
    + destruct (fdone (es s d)) eqn:E; auto. rewrite (EC_reach s R d E) in Hne. congruence.
    + destruct (ecbs s d) as [|i l] eqn:E; [congruence|].
      destruct (i4_ecbs _ (I4_reach s R) d i) as [Ex Hl]; [rewrite E; left; reflexivity|].
      rewrite Ex. apply nth_In. exact Hl.
  - intros Hne. destruct (fdone (os s)) eqn:E; auto. rewrite (OCL_reach s R E) in Hne. congruence.
Qed.

Lemma keep_comb_fs_inputs : forall s, reachable s -> forall x, In x (fsd s) -> In x (inputs s).
Proof. intros s R. apply (FS_reach s R). Qed.

(* f_or / f_and before the decision, every reachable state: a DONE input is still in fs only while its
   handle_done has not yet taken the lock (it pops the input as soon as it holds the lock): the callback is
   queued in a thread (IAcqL), or the constructor has not yet reached add_done_callback for it (IAddCbIn) *)
Lemma keep_comb_fs_window : forall s, reachable s -> ck s <> KZip -> cdone s = false ->
  forall x, In x (fsd s) -> fdone (es s x) = true ->
  (exists t i, In (IAddCbIn i) (thr s t) /\ input_at s i = x) \/ (exists t i, In (IAcqL i x) (thr s t)).
Proof.
  intros s R Hk Hc x Hx Hd.
  assert (Hb : built s = true).
  { destruct (built s) eqn:B; auto. rewrite (proj2 (FS_reach s R) B) in Hx. destruct Hx. }
  destruct (BL_reach s R Hb Hk Hc) as [B1 _].
  destruct (B1 x Hx) as [A|[A|A]]; auto.
  rewrite (EC_reach s R x Hd) in A. congruence.
Qed.

(* ... hence at quiescence, before the decision, fs holds exactly inputs that are still pending, each with its
   handle_done registered *)
Lemma keep_comb_fs_pending_at_quiescence : forall s, reachable s -> quiescent s -> ck s <> KZip -> cdone s = false ->
  forall x, In x (fsd s) -> fdone (es s x) = false /\ In x (inputs s) /\ ecbs s x <> [].
Proof.
  intros s R Q Hk Hc x Hx.
  assert (Hp : fdone (es s x) = false).
  { destruct (fdone (es s x)) eqn:E; auto. exfalso.
    destruct (keep_comb_fs_window s R Hk Hc x Hx E) as [(t & i & A & _)|(t & i & A)]; rewrite Q in A; destruct A. }
  split; [exact Hp|]. split; [apply (keep_comb_fs_inputs s R); exact Hx|].
  assert (Hb : built s = true).
  { destruct (built s) eqn:B; auto. rewrite (proj2 (FS_reach s R) B) in Hx. destruct Hx. }
  destruct (BL_reach s R Hb Hk Hc) as [B1 _].
  destruct (B1 x Hx) as [(t & i & A & _)|[(t & i & A)|A]]; auto; rewrite Q in A; destruct A.
Qed.
Lemma keep_comb_fs_incl_pending : forall s, reachable s -> quiescent s -> ck s <> KZip -> cdone s = false ->
  incl (fsd s) (filter (fun d => negb (fdone (es s d))) (inputs s)).
Proof.
  intros s R Q Hk Hc x Hx. destruct (keep_comb_fs_pending_at_quiescence s R Q Hk Hc x Hx) as (A & B & _).
  apply filter_In. split; [exact B|]. rewrite A. reflexivity.
Qed.

(* after the decision, at quiescence, every kind: the output is done and its callback list (the closures that
   held the inputs) is empty; what remains are handle_done registrations on inputs that are still pending *)
Lemma keep_comb_decided_quiescent : forall s, reachable s -> quiescent s -> cdone s = true ->
  fdone (os s) = true /\ ocbs s = [] /\
  forall d, ecbs s d <> [] -> fdone (es s d) = false /\ In d (inputs s).
Proof.
  intros s R Q Hc. pose proof (decided_published s R Q Hc) as Hd.
  split; [exact Hd|]. split; [apply (OCL_reach s R Hd)|]. apply (keep_comb_registrations_only_pending s R).
Qed.

(* f_or / f_and: the decision cancels every remaining input, so at quiescence no registration is left at all: no
   future references the operation any more (fs itself may still list the cancelled losers: handle_done returns
   early once done is set and does not pop them -- keep_comb_fs_only_pending_refuted in the Props file) *)
Lemma keep_comb_decided_quiescent_bool : forall s, reachable s -> quiescent s -> cdone s = true -> ck s <> KZip ->
  ~ In out_id (inputs s) -> length (inputs s) <= notify_id ->
  fdone (os s) = true /\ ocbs s = [] /\ (forall x, In x (inputs s) -> fdone (es s x) = true) /\ (forall d, ecbs s d = []).
Proof.
  intros s R Q Hc Hk Hno Hlen. destruct (keep_comb_decided_quiescent s R Q Hc) as (Hd & Ho & He).
  assert (Hb : built s = true).
  { destruct (built s) eqn:B; auto. rewrite (lo_unb _ (LO_reach s R) B) in Hc. discriminate. }
  assert (Hall : forall x, In x (inputs s) -> fdone (es s x) = true).
  { apply (comb_losers_cancelled_alt s R Q Hb Hd Hno Hlen). left. exact Hk. }
  split; [exact Hd|]. split; [exact Ho|]. split; [exact Hall|].
  intros d. destruct (ecbs s d) as [|i l] eqn:E; [reflexivity|]. exfalso.
  destruct (He d) as [A B]; [rewrite E; discriminate|]. rewrite (Hall d B) in A. discriminate.
Qed.

(* every reachable state, exact window after the decision: the output is done with an empty callback list, or the
   deciding thread has not yet published (its ISetOut / ICancelOut on the output is still pending) *)
Lemma keep_comb_decided_window : forall s, reachable s -> cdone s = true ->
  (fdone (os s) = true /\ ocbs s = []) \/ (exists t o, In (ISetOut o) (thr s t)) \/ (exists t, In ICancelOut (thr s t)).
Proof.
  intros s R Hc. destruct (PB_reach s R Hc) as [Hd|[[o [t Ht]]|[t Ht]]].
  - left. split; [exact Hd|apply (OCL_reach s R Hd)].
  - right. left. exists t, o. exact Ht.
  - right. right. exists t. exact Ht.
Qed.
