(* Model/PollIR.v's reference tables are what Model/Poll.v's [step] does:
   - step_cont: when [step] accepts an event of thread t whose program is i :: rest, the new program is
     norm (c ++ rest) for one of the alternatives c of [cont_a] i (the future created by IDSubmit is nfut s);
   - step_frame: no other thread's program changes;
   - entry_...: the programs [step] installs at the entry of an API call / a yield / a raising poll call / an
     environment completion of the delegate;
   - poller_cycle: the poll thread's position moves along [pm_trans]. *)
From Coq Require Import ZArith List Bool Arith Lia.
From RecordUpdate Require Import RecordSet.
From ME Require Import Base.Machine Base.Fut Base.GenPrelude Model.Poll Model.PollIR Proofs.Poll_Inv.
Import ListNotations RecordSetNotations.

(* the thread whose program an event is matched against *)
Definition ev_thread (e : ev) : option nat :=
  match e with
  | EGAcq t | EGRel t | EDSubmit t _ _ | EXSec t | EXAcq t | EXRel t | EEvSet t | ERet t _ | EAcqM t _ | ERelM t _
  | EFP t _ _ _ | EFD t _ _ _ | ECancelFn t _ _ => Some t
  | _ => None
  end.

Lemma tick_thr s ts s1 : tick s ts = Some s1 -> thr s1 = thr s /\ nfut s1 = nfut s /\ pmode s1 = pmode s.
Proof. intros H. apply tick_inv in H. destruct H as [[-> _]|[-> _]]; simpl; auto. Qed.

(* which alternative [step] takes: read off the event's pre-state and the fields the instruction's comment names *)
Definition alt_of (s : st) (e : ev) (i : instr) : nat :=
  match i, e with
  | IAddCbD _, EFD _ _ _ pre => if fdone pre then 1 else 0
  | IDoneA _, EFP _ _ _ pre => if fdone pre then 0 else 1
  | IRelMCbs j, _ => if pcb s j then 0 else 1
  | ICancelled _, EFP _ _ _ pre => if fcancelled pre then 0 else 1
  | IDoneC j, EFP _ _ _ pre => if fdone pre then 0 else if pdel s j then 1 else 2
  | IDCancel j, EFD _ _ _ pre =>
      if snd (f_cancel pre) then (if f_cancel_fires pre && dcb s j then 1 else 2) else 0
  | IUserCancelFn _ _, ECancelFn _ _ ans => if Nat.eqb ans 1 then 0 else 1
  | IDCancelledQ j, EFD _ _ _ pre =>
      if fcancelled pre then 0 else match dout s j with Some (Ok _) => 1 | _ => 2 end
  | IDoneS _ _, EFP _ _ _ pre | IDoneX _ _, EFP _ _ _ pre => if fdone pre then 0 else 1
  | IFSetRes _ _, EFP _ _ _ pre | IFSetExc _ _, EFP _ _ _ pre => match f_set pre with Some _ => 0 | None => 1 end
  | _, _ => 0
  end.

Ltac fin_tail :=
  split; [simpl; lia|]; split; [reflexivity|];
  unfold set_prog, log; simpl; rewrite ?upd_same; reflexivity.
Ltac finish :=
  first [ exists 0, 0; eexists; fin_tail
        | eexists _, 0, _; fin_tail
        | eexists 0, _, _; fin_tail ].
Ltac eqs :=
  repeat match goal with
         | E : negb (Nat.eqb _ _) = false |- _ => apply negb_false_iff, Nat.eqb_eq in E
         | E : andb _ _ = true |- _ => apply andb_prop in E; destruct E
         | E : Nat.eqb _ _ = true |- _ => apply Nat.eqb_eq in E
         end; subst.
Ltac rew :=
  repeat match goal with
         | E : ?x = _ |- context [?x] => rewrite E
         end.
Ltac crunch H := dmatch H; inversion H; subst; clear H; eqs; simpl alt_of; rew; finish.

Lemma step1_cont s e s' t i rest :
  step1 s e = Some s' -> ev_thread e = Some t -> thr s t = i :: rest ->
  exists v x c, alt_of s e i < nalts i /\ cont_a (nfut s) v x i (alt_of s e i) = Some c /\ thr s' t = norm s' (c ++ rest).
Proof.
  intros H Ht Hp.
  destruct e; simpl in Ht; try discriminate Ht; inversion Ht; subst; clear Ht;
    unfold step1 in H; try discriminate H; rewrite ?Hp in H.
  - (* EGAcq *) crunch H.
  - (* EGRel *) crunch H.
  - (* EDSubmit *) crunch H.
  - (* EXSec *) destruct (issome (xown s)); [discriminate|]. rewrite ?Hp in H. crunch H.
  - (* EXAcq *) destruct (issome (xown s)); [discriminate|]. rewrite ?Hp in H. crunch H.
  - (* EXRel *) crunch H.
  - (* EEvSet *) crunch H.
  - (* ERet *) crunch H.
  - (* EAcqM *) crunch H.
  - (* ERelM *) crunch H.
Qed.

Lemma step2_cont s e s' t i rest :
  step2 s e = Some s' -> ev_thread e = Some t -> thr s t = i :: rest ->
  exists v x c, alt_of s e i < nalts i /\ cont_a (nfut s) v x i (alt_of s e i) = Some c /\ thr s' t = norm s' (c ++ rest).
Proof.
  intros H Ht Hp.
  destruct e; simpl in Ht; try discriminate Ht; inversion Ht; subst; clear Ht;
    unfold step2 in H; try discriminate H.
  - (* EFP *) destruct (negb (fstate_eqb pre (ps s j))); [discriminate|]. rewrite Hp in H. crunch H.
  - (* EFD *) destruct (negb (fstate_eqb pre (ds s d))); [discriminate|]. rewrite Hp in H. crunch H.
  - (* ECancelFn *) rewrite Hp in H. crunch H.
Qed.

(* silent steps at the head: ICancelFnQ is expanded the moment it reaches the head, by one of its alternatives *)
Lemma norm_cont s j r :
  exists v alt c, alt < nalts (ICancelFnQ j) /\ cont_a 0 v 0 (ICancelFnQ j) alt = Some c /\ norm s (ICancelFnQ j :: r) = c ++ r.
Proof.
  simpl. unfold cancel_cont.
  destruct (negb (pexec s j)); [exists 0, 0; eexists; split; [lia|split; reflexivity]|].
  destruct (negb (hascfn s)); [exists 0, 1; eexists; split; [lia|split; reflexivity]|].
  destruct (lookup j (descs s)) as [v|].
  - exists v, 2; eexists; split; [lia|split; reflexivity].
  - exists 0, 3; eexists; split; [lia|split; reflexivity].
Qed.

Lemma tick_alt s ts s1 e i : tick s ts = Some s1 -> alt_of s1 e i = alt_of s e i.
Proof. intros H. apply tick_inv in H. destruct H as [[-> _]|[-> _]]; reflexivity. Qed.

(* the alternative is determined: alt_of *)
Theorem step_cont_alt s te s' t i rest :
  step s te = Some s' -> ev_thread (snd te) = Some t -> thr s t = i :: rest ->
  exists v x c, alt_of s (snd te) i < nalts i /\ cont_a (nfut s) v x i (alt_of s (snd te) i) = Some c /\
                thr s' t = norm s' (c ++ rest).
Proof.
  destruct te as [ts e]. intros H Ht Hp. simpl in Ht. simpl snd.
  apply step_inv in H. destruct H as [s1 [Htk H]].
  rewrite <- (tick_alt _ _ _ e i Htk).
  apply tick_thr in Htk. destruct Htk as [Hthr [Hn _]].
  rewrite <- Hn. rewrite <- Hthr in Hp.
  apply step0_inv in H. destruct H as [[c [d [-> _]]]|[_ H]]; [discriminate Ht|].
  destruct H as [H|[H|H]].
  - exact (step1_cont _ _ _ _ _ _ H Ht Hp).
  - exact (step2_cont _ _ _ _ _ _ H Ht Hp).
  - destruct e; simpl in Ht; discriminate Ht || (unfold step3 in H; discriminate H).
Qed.

Theorem step_cont s te s' t i rest :
  step s te = Some s' -> ev_thread (snd te) = Some t -> thr s t = i :: rest ->
  exists v x alt c, alt < nalts i /\ cont_a (nfut s) v x i alt = Some c /\ thr s' t = norm s' (c ++ rest).
Proof.
  intros H Ht Hp. destruct (step_cont_alt _ _ _ _ _ _ H Ht Hp) as [v [x [c Hc]]].
  exists v, x, (alt_of s (snd te) i), c. exact Hc.
Qed.

(* ---- entries: the programs [step] installs -------------------------------------------------------------------------- *)
Ltac open_step H s1 :=
  let Htk := fresh "Htk" in
  apply step_inv in H; destruct H as [s1 [Htk H]]; apply tick_thr in Htk; destruct Htk as [Hthr [Hn Hpm]];
  apply step0_inv in H; destruct H as [[? [? [H _]]]|[_ [H|[H|H]]]]; try discriminate H.

Lemma entry_submit s ts t s' : step s (ts, ECallSubmit t) = Some s' -> thr s t = [] /\ thr s' t = [IGAcq; IDSubmit].
Proof.
  intros H. open_step H s1.
  unfold step1 in H. destruct (client s1 t) eqn:Ec; [|discriminate]. inversion H; subst; clear H.
  apply client_nil in Ec. destruct Ec as [_ Ec]. rewrite Hthr in Ec. split; [exact Ec|].
  unfold set_prog; simpl. apply upd_same.
Qed.

Lemma entry_cancel s ts t j s' : step s (ts, ECallCancel t j) = Some s' -> thr s t = [] /\ thr s' t = [IAcqM j; ICancelled j].
Proof.
  intros H. open_step H s1.
  unfold step1 in H. destruct (client s1 t) eqn:Ec; [|discriminate]. simpl in H.
  destruct (j <? nfut s1); [|discriminate]. inversion H; subst; clear H.
  apply client_nil in Ec. destruct Ec as [_ Ec]. rewrite Hthr in Ec. split; [exact Ec|].
  unfold set_prog, log; simpl. apply upd_same.
Qed.

Lemma entry_notify s ts t s' : step s (ts, ECallNotify t) = Some s' -> thr s t = [] /\ thr s' t = [IEvSet; IRet].
Proof.
  intros H. open_step H s1.
  unfold step1 in H. destruct (client s1 t) eqn:Ec; [|discriminate]. inversion H; subst; clear H.
  apply client_nil in Ec. destruct Ec as [_ Ec]. rewrite Hthr in Ec. split; [exact Ec|].
  unfold set_prog; simpl. apply upd_same.
Qed.

(* the user's poll function calls yield_result / yield_exception on a descriptor it was shown *)
Lemma entry_yield s ts t j o s' :
  step s (ts, EYield t j o) = Some s' ->
  t = poller /\ thr s t = [] /\ (exists sn, pmode s = PBody sn /\ issome (lookup j sn) = true) /\ thr s' t = yield_prog j o.
Proof.
  intros H. open_step H s1.
  unfold step2 in H. rewrite Hthr, Hpm in H.
  destruct (thr s t) eqn:Et; [|discriminate]. destruct (pmode s) eqn:Em; try discriminate.
  destruct (Nat.eqb t poller && issome (lookup j l)) eqn:Ec; [|discriminate]. inversion H; subst; clear H.
  apply andb_prop in Ec. destruct Ec as [E1 E2]. apply Nat.eqb_eq in E1.
  split; [exact E1|]. split; [reflexivity|]. split; [eauto|].
  unfold set_prog, log; simpl. rewrite upd_same. destruct o; reflexivity.
Qed.

(* the poll function raised: the poll thread's program fails every future of the SNAPSHOT, one exc_prog each *)
Lemma entry_poll_raise s ts t e s' :
  step s (ts, EPollRaise t e) = Some s' ->
  t = poller /\ thr s t = [] /\ exists sn, pmode s = PBody sn /\ thr s' t = flat_map (fun p => exc_prog (fst p) e) sn.
Proof.
  intros H. open_step H s1.
  unfold step2 in H. rewrite Hthr, Hpm in H.
  destruct (thr s t) eqn:Et; [|discriminate]. destruct (pmode s) eqn:Em; try discriminate.
  destruct (Nat.eqb t poller) eqn:Ec; [|discriminate]. inversion H; subst; clear H.
  apply Nat.eqb_eq in Ec. split; [exact Ec|]. split; [reflexivity|]. exists l. split; [reflexivity|].
  unfold set_prog, log; simpl. rewrite upd_same. destruct l as [|[a b] l]; reflexivity.
Qed.

(* the environment completes / cancels delegate d: the stdlib runs _delegate_resolved inline when it is registered *)
Lemma entry_env_finish s ts t d pre o s' :
  step s (ts, EEnvFinish t d pre o) = Some s' -> thr s t = [] /\
  (thr s' t = [] \/ thr s' t = (if dcb s d then resolved_prog d else []) ++ [IRetEnv d]).
Proof.
  intros H. apply step_inv in H. destruct H as [s1 [Htk H]].
  assert (Hd : dcb s1 = dcb s) by (apply tick_inv in Htk; destruct Htk as [[-> _]|[-> _]]; reflexivity).
  apply tick_thr in Htk. destruct Htk as [Hthr _].
  apply step0_inv in H. destruct H as [[? [? [? _]]]|[_ [H|[H|H]]]]; try discriminate; try discriminate H.
  unfold step3 in H. destruct (client s1 t) eqn:Ec; [|discriminate]. simpl in H.
  apply client_nil in Ec. destruct Ec as [_ Ec]. rewrite Hthr in Ec. split; [exact Ec|].
  destruct ((d <? nfut s1) && fstate_eqb pre (ds s1 d)); [|discriminate].
  destruct (f_set pre); inversion H; subst; clear H.
  - right. unfold set_prog, log; simpl. rewrite upd_same. rewrite Hd. destruct (dcb s d); reflexivity.
  - left. rewrite Hthr. exact Ec.
Qed.

Lemma entry_env_cancel s ts t d pre s' :
  step s (ts, EEnvCancel t d pre) = Some s' -> thr s t = [] /\
  (thr s' t = [] \/ thr s' t = (if dcb s d then resolved_prog d else []) ++ [IRetEnv d]).
Proof.
  intros H. apply step_inv in H. destruct H as [s1 [Htk H]].
  assert (Hd : dcb s1 = dcb s) by (apply tick_inv in Htk; destruct Htk as [[-> _]|[-> _]]; reflexivity).
  apply tick_thr in Htk. destruct Htk as [Hthr _].
  apply step0_inv in H. destruct H as [[? [? [? _]]]|[_ [H|[H|H]]]]; try discriminate; try discriminate H.
  unfold step3 in H. destruct (client s1 t) eqn:Ec; [|discriminate]. simpl in H.
  apply client_nil in Ec. destruct Ec as [_ Ec]. rewrite Hthr in Ec. split; [exact Ec|].
  destruct ((d <? nfut s1) && fstate_eqb pre (ds s1 d)); [|discriminate].
  destruct (f_cancel pre) as [n0 b0]. destruct (f_cancel_fires pre); inversion H; subst; clear H.
  - right. unfold set_prog, log; simpl. rewrite upd_same. rewrite Hd. destruct (dcb s d); reflexivity.
  - left. simpl. rewrite Hthr. exact Ec.
Qed.

(* ---- the poll thread's cycle ------------------------------------------------------------------------------------------ *)
Definition pe_of (s : st) (e : ev) : option pe :=
  match e with
  | EXSec t => if Nat.eqb t poller && isnil (thr s t) then Some PESnap else None
  | EPoll _ _ => Some PEPoll
  | EPollRet _ _ => Some PEPollRet
  | EPollRaise _ _ => Some PEPollRaise
  | EWWait 0 => Some PEWait0
  | EWWait (S _) => Some PEWait1
  | EWWoke _ => Some PEWoke
  | EWClear => Some PEClear
  | _ => None
  end.

Theorem poller_cycle s te s' :
  step s te = Some s' ->
  match pe_of s (snd te) with
  | Some e => pm_trans (pk_of (pmode s)) e = Some (pk_of (pmode s'))
  | None => pmode s' = pmode s
  end.
Proof.
  destruct te as [ts e]. intros H. simpl snd.
  apply step_inv in H. destruct H as [s1 [Htk H]]. apply tick_thr in Htk. destruct Htk as [Hthr [_ Hpm]].
  assert (Hpe : pe_of s e = pe_of s1 e) by (destruct e; simpl; rewrite ?Hthr; reflexivity).
  rewrite Hpe, <- Hpm. clear Hpe Hpm Hthr.
  apply step0_inv in H. destruct H as [[c [d [-> [_ ->]]]]|[_ [H|[H|H]]]]; [reflexivity| | |].
  - destruct e; try discriminate H; simpl pe_of; try (open1 H; first [reflexivity | unfold set_prog, log; simpl; congruence]).
    unfold step1 in H. destruct (issome (xown s1)); [discriminate|].
    destruct (thr s1 t) as [|i r] eqn:Et.
    + destruct (negb (Nat.eqb t poller)) eqn:Ep; [discriminate|]. apply negb_false_iff in Ep. rewrite Ep. simpl.
      destruct (pmode s1); try discriminate. inversion H; subst; clear H. reflexivity.
    + simpl isnil. rewrite andb_false_r. destruct i; try discriminate. inversion H; subst; clear H. reflexivity.
  - destruct e; try discriminate H; simpl pe_of; try (open2 H; first [reflexivity | unfold set_prog, log; simpl; congruence]).
  - destruct e; try discriminate H; simpl pe_of; try (open3 H; first [reflexivity | unfold set_prog, log; simpl; congruence]).
Qed.

(* no other thread's program changes *)
Theorem step_frame s te s' t t' :
  step s te = Some s' -> ev_thread (snd te) = Some t -> t' <> t -> thr s' t' = thr s t'.
Proof.
  destruct te as [ts e]. intros H Ht Hne. simpl in Ht.
  apply step_inv in H. destruct H as [s1 [Htk H]]. apply tick_thr in Htk. destruct Htk as [Hthr _].
  rewrite <- Hthr.
  apply step0_inv in H. destruct H as [[c [d [-> _]]]|[_ [H|[H|H]]]]; [discriminate Ht| | |].
  - destruct e; simpl in Ht; try discriminate Ht; inversion Ht; subst; clear Ht;
      open1 H; unfold set_prog, log; simpl; rewrite ?upd_other by exact Hne; reflexivity.
  - destruct e; simpl in Ht; try discriminate Ht; inversion Ht; subst; clear Ht;
      open2 H; unfold set_prog, log; simpl; rewrite ?upd_other by exact Hne; reflexivity.
  - destruct e; simpl in Ht; discriminate Ht || (unfold step3 in H; discriminate H).
Qed.
