(* Monotonicity / immutability facts of a single step. *)
From Coq Require Import List ZArith Bool Arith Lia.
From RecordUpdate Require Import RecordSet.
From ME Require Import Base.Machine Base.Fut Base.GenPrelude Gen.RetryGen Model.Retry Proofs.Retry_Spec Proofs.Retry_C0 Proofs.Retry_C1 Proofs.Retry_C2 Proofs.Retry_C3 Proofs.Retry_C4.
Import ListNotations RecordSetNotations.

Record MONO (s s' : st) : Prop := {
  mo_nrec : nrec s <= nrec s';
  mo_ndel : ndel s <= ndel s';
  mo_nfut : nfut s <= nfut s';
  mo_jf : forall r, r < nrec s -> jf (recs s' r) = jf (recs s r);
  mo_jdel : forall r, r < nrec s -> jdel (recs s' r) = jdel (recs s r);
  mo_jold : forall r, r < nrec s -> jold (recs s' r) = jold (recs s r);
  mo_jstop_t : forall r, r < nrec s -> jstop (recs s r) = true -> jstop (recs s' r) = true;
  mo_jstop_q : forall r, r < nrec s -> jdel (recs s r) = None -> jstop (recs s' r) = jstop (recs s r);
  mo_ddone : forall d, d < ndel s -> fdone (ds s d) = true -> fdone (ds s' d) = true;
  mo_dfin : forall d, d < ndel s -> ds s d = Finished -> ds s' d = Finished;
  mo_dcan : forall d, d < ndel s -> fcancelled (ds s d) = true -> fcancelled (ds s' d) = true;
  mo_dcan_inv : forall d, d < ndel s -> fdone (ds s d) = true -> fcancelled (ds s' d) = fcancelled (ds s d);
  mo_dcb : forall d, d < ndel s -> dcb s d = true -> dcb s' d = true;
  mo_dfor : forall d, d < ndel s -> dfor s' d = dfor s d;
  mo_rdone : forall j, j < nfut s -> fdone (rs s j) = true -> fdone (rs s' j) = true;
  mo_rcan : forall j, j < nfut s -> fcancelled (rs s j) = true -> fcancelled (rs s' j) = true
}.

Lemma MONO_refl s : MONO s s.
Proof. constructor; auto. Qed.

Lemma upd_mono_P {A} (P : A -> Prop) (f : nat -> A) k v x : (P (f k) -> P v) -> P (f x) -> P (upd f k v x).
Proof.
  intros H Hx. unfold upd. destruct (Nat.eqb x k) eqn:E; [|exact Hx]. apply eqb_t in E. subst. auto.
Qed.

Lemma MONO_step0 s e s' : step0 s e = Some s' -> MONO s s'.
Proof.
  intros H. s0inv H; try apply MONO_refl.
  all: try (match goal with inl : option outcome |- _ => destruct inl end).
  all: bsplit; subst.
  all: constructor; unfold log, set_prog; simpl; auto.
  all: try (intros; rewrite upd_lt by assumption; auto; fail).
  all: try (intros x _; unfold upd; destruct (Nat.eqb x _) eqn:E; [apply eqb_t in E; subst x|auto; fail]; simpl; auto).
  all: try (match goal with
      | H : f_cancel ?p = _ |- _ => destruct p; simpl in H; inversion H; subst
      | H : f_srnc ?p = _ |- _ => destruct p; simpl in H; inversion H; subst
      | H : f_set ?p = _ |- _ => destruct p; simpl in H; inversion H; subst end; simpl; auto; try discriminate; try congruence; fail).
  intros E1. congruence.
  all: destruct (ds s d); simpl in *; congruence.
Qed.

Lemma MONO_step s e s' : step s e = Some s' -> MONO s s'.
Proof.
  intros H. apply step_split in H. destruct H as (s1 & Ht & H). apply tick_eq in Ht. subst s1.
  apply MONO_step0 in H. destruct H. constructor; simpl in *; assumption.
Qed.
