(* C02 / Timeout, clause (d) CALLBACKS, part D: what one step of the machine does to the user done-callbacks.
   A callback c registered on returned future j is, at any time, in exactly one place: a pending add_done_callback
   (IDoneA j (CbUser c) in a program), the future's list _me_done_callbacks (rcbs s j), a pending invocation
   (IUserCb j c in a program), or the history (HCb j c: it ran).  [dshape] lists the seven ways a step moves it;
   [step0_dshape] (Proto_Timeout_D1.v) shows every step has one of these shapes. *)
From Coq Require Import ZArith List Bool Arith Lia.
From RecordUpdate Require Import RecordSet.
From ME Require Import Base.Machine Base.Fut Base.GenPrelude Gen.TimeoutGen Proofs.Timeout_Spec Model.Timeout
  Proofs.Timeout_Inv Proofs.Proto_Timeout_P Proofs.Proto_Timeout_P1.
Import ListNotations RecordSetNotations.

(* ---- counting the occurrences of callback c of future j --------------------------------------------------- *)
Section Count.
Variables j c : nat.
Definition cntC (k : cbk) : nat := match k with CbUser c' => if Nat.eqb c' c then 1 else 0 | CbWake => 0 end.
Definition wt (j' : nat) (k : cbk) : nat := if Nat.eqb j' j then cntC k else 0.
Definition cntI (i : instr) : nat :=
  match i with IUserCb j' c' => wt j' (CbUser c') | IDoneA j' k => wt j' k | _ => 0 end.
Definition cntH (h : hev) : nat := match h with HCb j' c' _ => wt j' (CbUser c') | _ => 0 end.
Definition cntE (e : ev) : nat := match e with ECallAddCb _ j' c' => wt j' (CbUser c') | _ => 0 end.
Fixpoint pc (p : list instr) : nat := match p with [] => 0 | i :: r => cntI i + pc r end.
Fixpoint rc (l : list cbk) : nat := match l with [] => 0 | k :: r => cntC k + rc r end.
Fixpoint hc (l : list hev) : nat := match l with [] => 0 | h :: r => cntH h + hc r end.

Lemma pc_app p q : pc (p ++ q) = pc p + pc q.
Proof. induction p as [|i p IH]; simpl; [reflexivity|]. rewrite IH. lia. Qed.
Lemma rc_app p q : rc (p ++ q) = rc p + rc q.
Proof. induction p as [|i p IH]; simpl; [reflexivity|]. rewrite IH. lia. Qed.
Lemma pc_stamp s p : pc (stamp s p) = pc p.
Proof. destruct (stamp_cases s p) as [->|[r [b [-> ->]]]]; reflexivity. Qed.
Lemma pc_cb_prog j' k : pc (cb_prog j' k) = wt j' k.
Proof. destruct k; simpl; [unfold wt; destruct (Nat.eqb j' j); reflexivity|lia]. Qed.
Lemma pc_cbs_prog j' l : pc (cbs_prog j' l) = if Nat.eqb j' j then rc l else 0.
Proof.
  induction l as [|k l IH]; [simpl; destruct (Nat.eqb j' j); reflexivity|].
  unfold cbs_prog in *. simpl. rewrite pc_app, IH, pc_cb_prog. unfold wt. destruct (Nat.eqb j' j); reflexivity.
Qed.
Lemma hc_pos l : 0 < hc l <-> exists ts, In (HCb j c ts) l.
Proof.
  induction l as [|h l IH]; simpl; [split; [lia|intros [ts []]]|]. split.
  - intros Hp. destruct (Nat.eq_dec (cntH h) 0) as [E|E].
    + rewrite E in Hp. apply IH in Hp. destruct Hp as [ts Hin]. exists ts. right. exact Hin.
    + destruct h; simpl in E; try (exfalso; apply E; reflexivity). unfold wt, cntC in E.
      destruct (Nat.eqb j0 j) eqn:E1; [|exfalso; apply E; reflexivity].
      destruct (Nat.eqb c0 c) eqn:E2; [|exfalso; apply E; reflexivity].
      apply Nat.eqb_eq in E1. apply Nat.eqb_eq in E2. subst. exists ts. left. reflexivity.
  - intros [ts [E|Hin]].
    + subst h. simpl. unfold wt, cntC. rewrite !Nat.eqb_refl. lia.
    + assert (0 < hc l) by (apply IH; exists ts; exact Hin). lia.
Qed.
End Count.

(* instructions that carry no user callback *)
Definition nocb (i : instr) : bool := match i with IUserCb _ _ | IDoneA _ (CbUser _) => false | _ => true end.
Lemma nocb_pc j c p : forallb nocb p = true -> pc j c p = 0.
Proof.
  induction p as [|i p IH]; [reflexivity|]. simpl. intros Hx. apply andb_prop in Hx. destruct Hx as [A B]. rewrite (IH B).
  destruct i; simpl in A |- *; try discriminate; try reflexivity. destruct c0; [|discriminate]. unfold wt. destruct (Nat.eqb j0 j); reflexivity.
Qed.
Lemma nocb_not_in j c p : forallb nocb p = true -> ~ In (IUserCb j c) p.
Proof. intros Hx Hin. rewrite forallb_forall in Hx. specialize (Hx _ Hin). discriminate. Qed.
Lemma nocb_ret_of t b : forallb nocb (ret_of t b) = true.
Proof. unfold ret_of. destruct (Nat.eqb t jt); reflexivity. Qed.
Lemma nocb_map_tc l : forallb nocb (map ITCancel l) = true.
Proof. induction l; simpl; auto. Qed.
Lemma nocb_map_pd (l : list tjob) : forallb nocb (map (fun job => IPDone (tj_id job)) l) = true.
Proof. induction l; simpl; auto. Qed.

(* ---- the seven shapes of a step ---------------------------------------------------------------------------- *)
Definition same_h (s s' : st) : Prop := forall j c, hc j c (hist s') = hc j c (hist s).
Definition noreg (e : ev) : Prop := forall j c, cntE j c e = 0.

Inductive dshape (s : st) (e : ev) (s' : st) : Prop :=
| DNone : thr s' = thr s -> rcbs s' = rcbs s -> same_h s s' -> noreg e -> dshape s e s'
  (* thread t replaces [drop] by [pre]: neither carries a user callback *)
| DPlain t drop pre rest s1 : thr s t = drop ++ rest -> thr s' = upd (thr s) t (stamp s1 (pre ++ rest)) ->
    forallb nocb drop = true -> forallb nocb pre = true -> rcbs s' = rcbs s -> same_h s s' -> noreg e -> dshape s e s'
  (* add_done_callback(c) is called on future j *)
| DReg t j c s1 : e = ECallAddCb t j c -> thr s t = [] ->
    thr s' = upd (thr s) t (stamp s1 [IAcqM j; IDoneA j (CbUser c); IRet]) -> rcbs s' = rcbs s -> same_h s s' -> dshape s e s'
  (* ... on a done future: the callback is invoked at once *)
| DAddDone t j k rest s1 : thr s t = IDoneA j k :: rest -> fdone (rs s j) = true ->
    thr s' = upd (thr s) t (stamp s1 (IRelM j :: cb_prog j k ++ rest)) -> rcbs s' = rcbs s -> same_h s s' -> noreg e -> dshape s e s'
  (* ... on a future that is not done: appended to _me_done_callbacks *)
| DAddPend t j k rest s1 : thr s t = IDoneA j k :: rest ->
    thr s' = upd (thr s) t (stamp s1 (IRelM j :: rest)) -> rcbs s' = upd (rcbs s) j (rcbs s j ++ [k]) -> same_h s s' -> noreg e -> dshape s e s'
  (* _me_invoke_callbacks: the list is taken, every callback becomes a pending invocation *)
| DRun t j rest s1 : thr s t = IRelMCbs j :: rest ->
    thr s' = upd (thr s) t (stamp s1 (cbs_prog j (rcbs s j) ++ rest)) -> rcbs s' = upd (rcbs s) j [] -> same_h s s' -> noreg e -> dshape s e s'
  (* the callback runs *)
| DCb t j c rest s1 ts : thr s t = IUserCb j c :: rest ->
    thr s' = upd (thr s) t (stamp s1 rest) -> rcbs s' = rcbs s -> hist s' = HCb j c ts :: hist s -> noreg e -> dshape s e s'.

(* ---- tactics ----------------------------------------------------------------------------------------------- *)
Ltac nocb_solve := simpl; rewrite ?forallb_app, ?nocb_ret_of, ?nocb_map_tc, ?nocb_map_pd; reflexivity.
Ltac triv_h := intros ? ?; reflexivity.
Ltac plain_with s t s1 p :=
  match goal with
  | Et : thr s t = ?i :: ?rest |- _ =>
      let pre := prefix_of p rest in
      apply (DPlain s _ _ t [i] pre rest s1); [exact Et|reflexivity|reflexivity|nocb_solve|reflexivity|triv_h|triv_h]
  | Et : thr s t = [] |- _ =>
      apply (DPlain s _ _ t [] p [] s1); [exact Et|rewrite app_nil_r; reflexivity|reflexivity|nocb_solve|reflexivity|triv_h|triv_h]
  end.
Ltac plain s :=
  match goal with
  | |- dshape _ _ (log (set_prog ?s1 ?t ?p) _) => plain_with s t s1 p
  | |- dshape _ _ (set_prog ?s1 ?t ?p) => plain_with s t s1 p
  end.
(* the new program is [mid ++ x :: rest] *)
Ltac plain_mid s :=
  match goal with
  | Et : thr s ?t = ?i :: ?rest |- dshape _ _ (log (set_prog ?s1 ?t (?mid ++ ?x :: ?rest)) _) =>
      replace (mid ++ x :: rest) with ((mid ++ [x]) ++ rest) by (rewrite <- app_assoc; reflexivity);
      apply (DPlain s _ _ t [i] (mid ++ [x]) rest s1); [exact Et|reflexivity|reflexivity|nocb_solve|reflexivity|triv_h|triv_h]
  | Et : thr s ?t = ?i :: ?rest |- dshape _ _ (set_prog ?s1 ?t (?mid ++ ?x :: ?rest)) =>
      replace (mid ++ x :: rest) with ((mid ++ [x]) ++ rest) by (rewrite <- app_assoc; reflexivity);
      apply (DPlain s _ _ t [i] (mid ++ [x]) rest s1); [exact Et|reflexivity|reflexivity|nocb_solve|reflexivity|triv_h|triv_h]
  end.
