(* Layer C: the chain of records/delegates of one retry future is linear. *)
From Coq Require Import List ZArith Bool Arith Lia PeanoNat.
From RecordUpdate Require Import RecordSet.
From ME Require Import Base.Machine Base.Fut Base.GenPrelude Gen.RetryGen Model.Retry Proofs.Retry_InvB0
  Proofs.Retry_InvB2 Proofs.Retry_InvB3.
Import ListNotations RecordSetNotations.

Definition wheld (r : nat) (i : instr) : Prop := i = IXAcqPop r \/ i = IDoneW r \/ i = IDSubmit r.
Definition liveq (s : st) (r : nat) : Prop :=
  r < nrec s /\ jdel (recs s r) = None /\
  (In r (jobs s) \/ exists i, wheld r i /\ In i (thr s worker)).
Definition pend (s : st) (d : nat) : Prop :=
  d < ndel s /\ (started s d = false \/ exists t, 1 <= cbc (recs s) d (thr s t)).

Record InvC (s : st) : Prop := {
  c_u1 : forall d1 d2, d1 < ndel s -> d2 < ndel s -> dfor s d1 = dfor s d2 -> datt s d1 = datt s d2 -> d1 = d2;
  c_u2 : forall r1 r2, r1 < nrec s -> r2 < nrec s -> jdel (recs s r1) = None -> jdel (recs s r2) = None ->
         jf (recs s r1) = jf (recs s r2) -> jatt (recs s r1) = jatt (recs s r2) -> r1 = r2;
  c_l1d : forall r d, liveq s r -> d < ndel s -> dfor s d = jf (recs s r) -> datt s d <= jatt (recs s r);
  c_l1q : forall r r', liveq s r -> r' < nrec s -> jdel (recs s r') = None ->
          jf (recs s r') = jf (recs s r) -> jatt (recs s r') <= jatt (recs s r);
  c_l2d : forall d d', pend s d -> d' < ndel s -> dfor s d' = dfor s d -> datt s d' <= datt s d;
  c_l2q : forall d r, pend s d -> r < nrec s -> jdel (recs s r) = None ->
          jf (recs s r) = dfor s d -> jatt (recs s r) < datt s d
}.

Lemma wheld_wki r i : wheld r i -> wki i = true.
Proof. intros [->|[->| ->]]; reflexivity. Qed.

Lemma live_mono s s' t p :
  InvA s -> nrec s <= nrec s' ->
  (forall r, r < nrec s -> jdel (recs s' r) = jdel (recs s r)) ->
  (forall r, In r (jobs s') -> In r (jobs s) \/ nrec s <= r) ->
  thr s' = upd (thr s) t (norm false p) ->
  (forall r i, wheld r i -> In i p -> (exists i', wheld r i' /\ In i' (thr s t)) \/ In r (jobs s)) ->
  forall r, r < nrec s -> liveq s' r -> liveq s r.
Proof.
  intros IA Hn Hr Hj Ht Hp r Hlt (L1 & L2 & L3). split; [auto|]. split; [rewrite <- Hr; auto|].
  destruct L3 as [L3|(i & Hi & L3)].
  - destruct (Hj r L3); [auto|lia].
  - rewrite Ht in L3. unfold upd in L3. destruct (Nat.eqb worker t) eqn:E.
    + apply Nat.eqb_eq in E. subst t. apply norm_in in L3. destruct L3 as [L3| ->].
      * destruct (Hp r i Hi L3) as [(i' & G1 & G2)|G]; eauto.
      * destruct Hi as [Hi|[Hi|Hi]]; discriminate.
    + eauto.
Qed.

Lemma pend_mono s s' t p :
  InvA s -> InvB s -> ndel s <= ndel s' ->
  (forall r, r < nrec s -> jdel (recs s' r) = jdel (recs s r)) ->
  (forall d, d < ndel s -> started s' d = false -> started s d = false) ->
  thr s' = upd (thr s) t (norm false p) ->
  (forall d, cbc (recs s') d p <= cbc (recs s) d (thr s t) \/ started s d = false) ->
  forall d, d < ndel s -> pend s' d -> pend s d.
Proof.
  intros IA IB Hn Hr Hs Ht Hc d Hlt (P1 & P2). split; [auto|].
  destruct P2 as [P2|(t' & P2)]; [left; auto|].
  rewrite Ht in P2. unfold upd in P2. destruct (Nat.eqb t' t) eqn:E.
  - apply Nat.eqb_eq in E. subst t'. pose proof (cbc_norm (recs s') d false p).
    destruct (Hc d) as [G|G]; [right; exists t; lia|left; auto].
  - right. exists t'. rewrite (cbc_wf s) in P2; auto. apply Forall_forall. intros i. apply (a_wf _ IA).
Qed.

Lemma invC_frame s s' : InvC s ->
  nrec s' = nrec s -> ndel s' = ndel s -> dfor s' = dfor s -> datt s' = datt s ->
  (forall r, same_rec (recs s' r) (recs s r)) ->
  (forall r, liveq s' r -> liveq s r) -> (forall d, pend s' d -> pend s d) -> InvC s'.
Proof.
  intros [C1 C2 C3 C4 C5 C6] En Ed Ef Ea Hr Hl Hp.
  assert (R1 : forall r, jf (recs s' r) = jf (recs s r)) by (intros r; apply Hr).
  assert (R2 : forall r, jatt (recs s' r) = jatt (recs s r)) by (intros r; apply Hr).
  assert (R3 : forall r, jdel (recs s' r) = jdel (recs s r)) by (intros r; apply Hr).
  constructor; intros *; rewrite ?En, ?Ed, ?Ef, ?Ea, ?R1, ?R2, ?R3; eauto.
Qed.

Ltac split_lt H := let G := fresh "G" in
  match type of H with ?x < S ?n => assert (G : x < n \/ x = n) by lia; clear H; destruct G as [H|H]; [|subst x] end.

Lemma invC_append0 s s' rc :
  InvA s -> InvC s ->
  nrec s' = S (nrec s) -> ndel s' = ndel s -> dfor s' = dfor s -> datt s' = datt s ->
  recs s' = upd (recs s) (nrec s) rc -> jf rc = nfut s -> jdel rc = None ->
  (forall r, r < nrec s -> liveq s' r -> liveq s r) -> (forall d, pend s' d -> pend s d) -> InvC s'.
Proof.
  intros IA [C1 C2 C3 C4 C5 C6] En Ed Ef Ea Er Hjf Hjd Hl Hp.
  assert (Ro : forall x, x < nrec s -> recs s' x = recs s x) by (intros; rewrite Er; apply upd_fresh_other; auto).
  assert (Rn : recs s' (nrec s) = rc) by (rewrite Er; apply upd_same).
  assert (Jf := a_jf _ IA). assert (Df := a_dfor _ IA).
  constructor; rewrite ?En, ?Ed, ?Ef, ?Ea.
  - exact C1.
  - intros r1 r2 H1 H2. split_lt H1; split_lt H2; rewrite ?Rn, ?(Ro r1), ?(Ro r2) by auto; auto; intros _ _ E.
    + specialize (Jf r1 H1). lia.
    + specialize (Jf r2 H2). lia.
  - intros r d L Hd. assert (H := proj1 L). rewrite En in H. split_lt H.
    + rewrite (Ro r H). apply C3; auto.
    + rewrite Rn. intros E. specialize (Df d Hd). lia.
  - intros r r' L H'. assert (H := proj1 L). rewrite En in H. split_lt H; split_lt H'; rewrite ?Rn, ?(Ro r), ?(Ro r') by auto.
    + apply C4; auto.
    + intros _ E. specialize (Jf r H). lia.
    + intros _ E. specialize (Jf r' H'). lia.
    + lia.
  - intros d d' P. apply C5; auto.
  - intros d r P H. assert (Hd := proj1 (Hp d P)). split_lt H; rewrite ?Rn, ?(Ro r) by auto.
    + apply C6; auto.
    + intros _ E. specialize (Df d Hd). lia.
Qed.

Lemma invC_retry s s' r d rc :
  InvA s -> InvC s -> r < nrec s -> jdel (recs s r) = Some d -> pend s d ->
  nrec s' = S (nrec s) -> ndel s' = ndel s -> dfor s' = dfor s -> datt s' = datt s ->
  recs s' = upd (recs s) (nrec s) rc ->
  jf rc = jf (recs s r) -> jatt rc = jatt (recs s r) -> jdel rc = None ->
  (forall x, x < nrec s -> liveq s' x -> liveq s x) ->
  (forall x, pend s' x -> pend s x /\ x <> d) -> InvC s'.
Proof.
  intros IA IC Hr Hd Pd En Ed Ef Ea Er Hjf Hja Hjd Hl Hp.
  assert (Ro : forall x, x < nrec s -> recs s' x = recs s x) by (intros; rewrite Er; apply upd_fresh_other; auto).
  assert (Rn : recs s' (nrec s) = rc) by (rewrite Er; apply upd_same).
  destruct (a_rec _ IA r d Hr Hd) as (D1 & D2 & D3 & D4).
  assert (L2d := c_l2d _ IC d). assert (L2q := c_l2q _ IC d).
  destruct IC as [C1 C2 C3 C4 C5 C6].
  constructor; rewrite ?En, ?Ed, ?Ef, ?Ea.
  - exact C1.
  - intros r1 r2 H1 H2. split_lt H1; split_lt H2; rewrite ?Rn, ?(Ro r1), ?(Ro r2) by auto; auto; intros A1 A2 E1 E2.
    + specialize (L2q r1 Pd H1 A1). lia.
    + specialize (L2q r2 Pd H2 A2). lia.
  - intros x d' L Hd'. assert (H := proj1 L). rewrite En in H. split_lt H.
    + rewrite (Ro x H). apply C3; auto.
    + rewrite Rn. intros E. specialize (L2d d' Pd Hd'). lia.
  - intros x x' L H'. assert (H := proj1 L). rewrite En in H.
    split_lt H; split_lt H'; rewrite ?Rn, ?(Ro x), ?(Ro x') by auto.
    + apply C4; auto.
    + intros _ E. specialize (C3 x d (Hl x H L) D1). lia.
    + intros A E. specialize (L2q x' Pd H' A). lia.
    + lia.
  - intros x d' P. apply C5; auto. apply Hp; auto.
  - intros x x' P H. destruct (Hp x P) as [Px Nx]. split_lt H; rewrite ?Rn, ?(Ro x') by auto.
    + apply C6; auto.
    + intros _ E. exfalso. apply Nx. apply C1; [apply Px|auto|lia|].
      pose proof (C5 x d Px D1). pose proof (C5 d x Pd (proj1 Px)). lia.
Qed.

Lemma invC_dsubmit s s' r rc :
  InvA s -> InvC s -> liveq s r ->
  nrec s' = S (nrec s) -> ndel s' = S (ndel s) ->
  dfor s' = upd (dfor s) (ndel s) (jf (recs s r)) ->
  datt s' = upd (datt s) (ndel s) (S (jatt (recs s r))) ->
  recs s' = upd (recs s) (nrec s) rc -> jdel rc <> None ->
  (forall x, x < nrec s -> liveq s' x -> liveq s x /\ x <> r) ->
  (forall x, x < ndel s -> pend s' x -> pend s x) -> InvC s'.
Proof.
  intros IA IC Lr En Ed Ef Ea Er Hjd Hl Hp.
  assert (Ro : forall x, x < nrec s -> recs s' x = recs s x) by (intros; rewrite Er; apply upd_fresh_other; auto).
  assert (Rn : recs s' (nrec s) = rc) by (rewrite Er; apply upd_same).
  assert (Fo : forall x, x < ndel s -> dfor s' x = dfor s x) by (intros; rewrite Ef; apply upd_fresh_other; auto).
  assert (Fn : dfor s' (ndel s) = jf (recs s r)) by (rewrite Ef; apply upd_same).
  assert (Ao : forall x, x < ndel s -> datt s' x = datt s x) by (intros; rewrite Ea; apply upd_fresh_other; auto).
  assert (An : datt s' (ndel s) = S (jatt (recs s r))) by (rewrite Ea; apply upd_same).
  assert (L1d := c_l1d _ IC r). assert (L1q := c_l1q _ IC r).
  destruct Lr as (Lr1 & Lr2 & Lr3). assert (Lr : liveq s r) by (split; auto).
  destruct IC as [C1 C2 C3 C4 C5 C6].
  assert (Lq : forall x, liveq s' x -> x < nrec s).
  { intros x (X1 & X2 & _). rewrite En in X1. split_lt X1; auto. rewrite Rn in X2. tauto. }
  constructor; rewrite ?En, ?Ed.
  - intros d1 d2 H1 H2. split_lt H1; split_lt H2; rewrite ?Fn, ?An, ?(Fo d1), ?(Fo d2), ?(Ao d1), ?(Ao d2) by auto; auto; intros E1 E2.
    + specialize (L1d d1 Lr H1 E1). lia.
    + specialize (L1d d2 Lr H2 (eq_sym E1)). lia.
  - intros r1 r2 H1 H2. split_lt H1; split_lt H2; rewrite ?Rn, ?(Ro r1), ?(Ro r2) by auto; auto; tauto.
  - intros x d L Hd. assert (H := Lq x L). destruct (Hl x H L) as [Lx Nx]. rewrite (Ro x H).
    split_lt Hd; rewrite ?Fn, ?An, ?(Fo d), ?(Ao d) by auto.
    + apply C3; auto.
    + intros E. exfalso. apply Nx. apply C2; auto; try apply Lx.
      pose proof (C4 x r Lx Lr1 Lr2 E). pose proof (L1q x Lr H (proj1 (proj2 Lx)) (eq_sym E)). lia.
  - intros x x' L H'. assert (H := Lq x L). destruct (Hl x H L) as [Lx Nx]. rewrite (Ro x H).
    split_lt H'; rewrite ?Rn, ?(Ro x') by auto; [apply C4; auto|tauto].
  - intros d d' P H'. assert (H := proj1 P). rewrite Ed in H.
    split_lt H; split_lt H'; rewrite ?Fn, ?An, ?(Fo d), ?(Fo d'), ?(Ao d), ?(Ao d') by auto.
    + apply C5; auto.
    + intros E. specialize (C6 d r (Hp d H P) Lr1 Lr2 E). lia.
    + intros E. specialize (L1d d' Lr H' E). lia.
    + lia.
  - intros d x P H'. assert (H := proj1 P). rewrite Ed in H.
    split_lt H; split_lt H'; rewrite ?Fn, ?An, ?Rn, ?(Fo d), ?(Ao d), ?(Ro x) by auto; try tauto.
    + apply C6; auto.
    + intros A E. specialize (L1q x Lr H' A E). lia.
Qed.

Lemma pfacts s s' : InvA s -> InvB s -> BFacts s s' -> ndel s <= ndel s' ->
  forall d, d < ndel s -> pend s' d -> pend s d.
Proof.
  intros IA IB [(E1 & E2 & E3 & E4 & E5)|(F1 & F2 & F3 & t & p & F4 & F5)] Hn d Hd (P1 & P2).
  - split; auto. rewrite E1, E2 in P2. destruct P2 as [P2|P2]; auto.
    left. destruct (started s d) eqn:E; auto. rewrite E5 in P2; auto.
  - eapply (pend_mono s s' t p); eauto.
    + intros d0 _ H. destruct (started s d0) eqn:E; auto. rewrite F2 in H; auto.
    + intros d0. destruct (F5 d0) as [G|(G & _)]; auto.
    + split; auto.
Qed.

Ltac sv_jobs2 := simpl; intros ? ?; rewrite ?in_app_iff, ?in_remove_id in *; simpl in *;
  intuition (subst; auto; lia).
Ltac sv_wheld E := let r := fresh "r" in let i := fresh "i" in let Hi := fresh "Hi" in let Hin := fresh "Hin" in
  intros r i Hi Hin; left; exists i; split; [exact Hi|]; rewrite E; simpl in *; unfold wheld in *;
  intuition (subst; try discriminate; auto).

Lemma lfacts_step0 s e s' : InvA s -> step0 s e = Some s' -> forall r, r < nrec s -> liveq s' r -> liveq s r.
Proof.
  intros IA H. unfold step0 in H. destruct e.
  all: step_cases H.
  all: clean.
  all: try (intros r Hr L; exact L).
  all: try (eapply live_mono; [exact IA|simpl; lia| | |reflexivity|]).
  all: try (sv_jdel; fail).
  all: try (simpl; auto; fail).
  all: try (sv_jobs2; fail).
  all: try match goal with E : thr _ ?t = _ |- _ => sv_wheld E; fail end.
  - apply gnj_some in Heqo. destruct Heqo as [G1 G2].
    intros r0 i Hi [<-|[<-|[]]]; [destruct Hi as [Hi|[Hi|Hi]]; discriminate|].
    right. destruct Hi as [Hi|[Hi|Hi]]; inv_some Hi. exact G1.
  - intros r0 i Hi [<-|Hin]; left.
    + destruct Hi as [Hi|[Hi|Hi]]; inv_some Hi. exists (IXAcqPop r0). split; [left; auto|rewrite Heql; left; auto].
    + exists i. split; auto. rewrite Heql. right; auto.
  - intros r i Hi Hin. apply in_app_iff in Hin. destruct Hin as [Hin|Hin].
    + apply in_cbs_wk in Hin. rewrite (wheld_wki _ _ Hi) in Hin. discriminate.
    + left. exists i. split; auto. rewrite Heql. right; auto.
  - intros r i Hi [<-|Hin]; [destruct Hi as [Hi|[Hi|Hi]]; discriminate|].
    left. exists i. split; auto. rewrite Heql. right. apply in_tl_in; auto.
  - intros r0 i Hi [<-|Hin]; left.
    + destruct Hi as [Hi|[Hi|Hi]]; inv_some Hi. exists (IDoneW r0). split; [right; left; auto|rewrite Heql; left; auto].
    + exists i. split; auto. rewrite Heql. right; auto.
Qed.

Lemma retired_after s s' t p d :
  InvA s -> InvB s -> (forall r, r < nrec s -> jdel (recs s' r) = jdel (recs s r)) ->
  thr s' = upd (thr s) t (norm false p) -> 1 <= cbc (recs s) d (thr s t) -> cbc (recs s') d p = 0 ->
  forall t', cbc (recs s') d (thr s' t') = 0.
Proof.
  intros IA IB Hr Ht H1 H0 t'. rewrite Ht. unfold upd. destruct (Nat.eqb t' t) eqn:E.
  - pose proof (cbc_norm (recs s') d false p). lia.
  - apply Nat.eqb_neq in E. rewrite (cbc_wf s); auto.
    + destruct (cbc (recs s) d (thr s t')) eqn:Z; auto. exfalso. apply E. apply (b_uniq _ IB t' t d); lia.
    + apply Forall_forall. intros i. apply (a_wf _ IA).
Qed.

Lemma cbc_head_one s t i l d : InvB s -> thr s t = i :: l -> opt_eqb (cbk_of (recs s) i) d = true ->
  1 <= cbc (recs s) d (thr s t) /\ cbc (recs s) d l = 0.
Proof.
  intros IB E H. pose proof (b_one _ IB t d) as B. rewrite E in *. unfold cbc, cnt in *. simpl in *.
  rewrite H in *. simpl in *. lia.
Qed.
Ltac sv_recs2 := simpl; intros r0; unfold upd; try (destruct (Nat.eqb r0 _) eqn:E0;
  [apply Nat.eqb_eq in E0; subst r0|]); simpl; repeat split.

Lemma invC_step0 s e s' : InvA s -> InvB s -> InvC s -> step0 s e = Some s' -> InvC s'.
Proof.
  intros IA IB IC H.
  assert (LF := lfacts_step0 s e s' IA H).
  assert (BF := bfacts_step0 s e s' IA IB H).
  assert (IA' := invA_step0 s e s' IA H).
  unfold step0 in H. destruct e.
  all: step_cases H.
  all: clean.
  all: try exact IC.
  all: try (eapply invC_frame; [exact IC|reflexivity..| | |]; 
       [sv_recs2|intros r' L'; apply LF; [apply L'|exact L']|intros d' P'; apply (pfacts s _ IA IB BF); [simpl; lia|apply P'|exact P']]).
  - eapply (invC_append0 s _ _ IA IC); try reflexivity.
    + exact LF.
    + intros d P. apply (pfacts s _ IA IB BF); [simpl; lia|apply P|exact P].
  - assert (W := a_wf _ IA t (IXRetry r delta)). rewrite Heql in W. specialize (W (or_introl eq_refl)).
    simpl in W. destruct W as [W1 W2]. destruct (jdel (recs s r)) as [d|] eqn:Ed; [clear W2|tauto].
    assert (Hh : opt_eqb (cbk_of (recs s) (IXRetry r delta)) d = true) by (simpl; rewrite Ed; apply Nat.eqb_refl).
    destruct (cbc_head_one s t _ l d IB Heql Hh) as [Q1 Q2].
    assert (Hj : forall r0, r0 < nrec s -> jdel (recs (log (set_prog (s <| nrec := S (nrec s) |> <| recs :=
          upd (recs s) (nrec s) (mkJ (jf (recs s r)) (jatt (recs s r)) None (jstop (recs s r)) (clock s + delta)%Z (jdel (recs s r))) |>
          <| jobs := remove_id r (jobs s) ++ [nrec s] |>) t l) (HRetry (jf (recs s r)) (jatt (recs s r)) delta (clock s))) r0) = jdel (recs s r0)) by sv_jdel.
    eapply (invC_retry s _ r d _ IA IC W1 Ed); try reflexivity.
    + split; [apply (a_rec _ IA r d W1 Ed)|right; exists t; exact Q1].
    + exact LF.
    + intros x P. split; [apply (pfacts s _ IA IB BF); [simpl; lia|apply P|exact P]|].
      intros ->. destruct P as (_ & [P|(t' & P)]).
      * assert (G := b_started _ IB t d Q1). unfold started in *. simpl in P. congruence.
      * assert (Z := retired_after s _ t l d IA IB Hj eq_refl Q1).
        match type of Z with ?A -> _ => assert (Z0 : A) end.
        { rewrite (cbc_wf s); auto. assert (W := a_wf _ IA t). rewrite Heql in W. apply Forall_forall. intros i Hi. apply W. right; auto. }
        specialize (Z Z0 t'). simpl in Z, P. rewrite ?Ed in Z. lia.
  - assert (W := a_wf _ IA t (IDSubmit r)). rewrite Heql in W. specialize (W (or_introl eq_refl)).
    simpl in W. destruct W as [W1 W2].
    assert (t = worker) by (eapply wk_worker; [exact IA|exact Heql|reflexivity]). subst t.
    assert (Wl := wk_rest0 s worker _ l IA Heql eq_refl).
    assert (Lr : liveq s r).
    { split; [auto|]. split; [auto|]. right. exists (IDSubmit r). split; [right; right; auto|rewrite Heql; left; auto]. }
    eapply (invC_dsubmit s _ r _ IA IC Lr); try reflexivity.
    + simpl. discriminate.
    + intros x Hx L. split; [apply LF; auto|]. intros ->. destruct L as (_ & _ & [L|(i & Hi & L)]).
      * simpl in L. apply in_app_iff in L. simpl in L. destruct L as [L|[L|[]]]; [|lia].
        revert L. apply (a_held _ IA r (IDSubmit r)); [right; auto|rewrite Heql; left; auto].
      * simpl in L. assert (Hw := wheld_wki _ _ Hi).
        destruct L as [L|[L|[L|[L|L]]]]; try (subst i; destruct Hi as [Hi|[Hi|Hi]]; discriminate).
        apply (wcount0_in _ _ Wl) in L. congruence.
    + intros x Hx P. apply (pfacts s _ IA IB BF); [simpl; lia|auto|exact P].
  - assert (W := a_wf _ IA t (IDSubmit r)). rewrite Heql in W. specialize (W (or_introl eq_refl)).
    simpl in W. destruct W as [W1 W2].
    assert (t = worker) by (eapply wk_worker; [exact IA|exact Heql|reflexivity]). subst t.
    assert (Wl := wk_rest0 s worker _ l IA Heql eq_refl).
    assert (Lr : liveq s r).
    { split; [auto|]. split; [auto|]. right. exists (IDSubmit r). split; [right; right; auto|rewrite Heql; left; auto]. }
    eapply (invC_dsubmit s _ r _ IA IC Lr); try reflexivity.
    + simpl. discriminate.
    + intros x Hx L. split; [apply LF; auto|]. intros ->. destruct L as (_ & _ & [L|(i & Hi & L)]).
      * simpl in L. apply in_app_iff in L. simpl in L. destruct L as [L|[L|[]]]; [|lia].
        revert L. apply (a_held _ IA r (IDSubmit r)); [right; auto|rewrite Heql; left; auto].
      * simpl in L. assert (Hw := wheld_wki _ _ Hi).
        destruct L as [L|[L|[L|[L|L]]]]; try (subst i; destruct Hi as [Hi|[Hi|Hi]]; discriminate).
        apply (wcount0_in _ _ Wl) in L. congruence.
    + intros x Hx P. apply (pfacts s _ IA IB BF); [simpl; lia|auto|exact P].
  - assert (W := a_wf _ IA t (IDSubmit r)). rewrite Heql in W. specialize (W (or_introl eq_refl)).
    simpl in W. destruct W as [W1 W2].
    assert (t = worker) by (eapply wk_worker; [exact IA|exact Heql|reflexivity]). subst t.
    assert (Wl := wk_rest0 s worker _ l IA Heql eq_refl).
    assert (Lr : liveq s r).
    { split; [auto|]. split; [auto|]. right. exists (IDSubmit r). split; [right; right; auto|rewrite Heql; left; auto]. }
    eapply (invC_dsubmit s _ r _ IA IC Lr); try reflexivity.
    + simpl. discriminate.
    + intros x Hx L. split; [apply LF; auto|]. intros ->. destruct L as (_ & _ & [L|(i & Hi & L)]).
      * simpl in L. apply in_app_iff in L. simpl in L. destruct L as [L|[L|[]]]; [|lia].
        revert L. apply (a_held _ IA r (IDSubmit r)); [right; auto|rewrite Heql; left; auto].
      * simpl in L. assert (Hw := wheld_wki _ _ Hi).
        destruct L as [L|[L|[L|[L|L]]]]; try (subst i; destruct Hi as [Hi|[Hi|Hi]]; discriminate).
        apply (wcount0_in _ _ Wl) in L. congruence.
    + intros x Hx P. apply (pfacts s _ IA IB BF); [simpl; lia|auto|exact P].
  - assert (W := a_wf _ IA t (IDSubmit r)). rewrite Heql in W. specialize (W (or_introl eq_refl)).
    simpl in W. destruct W as [W1 W2].
    assert (t = worker) by (eapply wk_worker; [exact IA|exact Heql|reflexivity]). subst t.
    assert (Wl := wk_rest0 s worker _ l IA Heql eq_refl).
    assert (Lr : liveq s r).
    { split; [auto|]. split; [auto|]. right. exists (IDSubmit r). split; [right; right; auto|rewrite Heql; left; auto]. }
    eapply (invC_dsubmit s _ r _ IA IC Lr); try reflexivity.
    + simpl. discriminate.
    + intros x Hx L. split; [apply LF; auto|]. intros ->. destruct L as (_ & _ & [L|(i & Hi & L)]).
      * simpl in L. apply in_app_iff in L. simpl in L. destruct L as [L|[L|[]]]; [|lia].
        revert L. apply (a_held _ IA r (IDSubmit r)); [right; auto|rewrite Heql; left; auto].
      * simpl in L. assert (Hw := wheld_wki _ _ Hi).
        destruct L as [L|[L|[L|[L|L]]]]; try (subst i; destruct Hi as [Hi|[Hi|Hi]]; discriminate).
        apply (wcount0_in _ _ Wl) in L. congruence.
    + intros x Hx P. apply (pfacts s _ IA IB BF); [simpl; lia|auto|exact P].
Qed.

Lemma invC_init : InvC init.
Proof. constructor; simpl; intros; try lia; destruct H as [H _]; simpl in H; lia. Qed.

(* the three layers together *)
Definition InvABC (s : st) : Prop := InvA s /\ InvB s /\ InvC s.
Lemma invABC_step0 s e s' : InvABC s -> step0 s e = Some s' -> InvABC s'.
Proof.
  intros (IA & IB & IC) H. split; [eapply invA_step0; eauto|]. split; [eapply invB_step0; eauto|].
  eapply invC_step0; eauto.
Qed.
Lemma invC_tick s ts : InvC s -> InvC (s <| clock := ts |>).
Proof.
  intros IC. eapply invC_frame; [exact IC|reflexivity..| | |]; simpl; auto.
  intros; apply same_rec_refl.
Qed.
