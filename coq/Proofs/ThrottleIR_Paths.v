(* PATH CONFORMANCE, the checks: every method of Gen/ThrottleSkel.v, co-executed with Throttle.step from every
   configuration of its family (Proofs/ThrottleIR_Conf.v), issues exactly the instructions the machine has at the
   head of the calling thread's program.  The checks are evaluated by the kernel on the regenerated terms; an
   edit of the Python methods that moves a lock, reorders two visible operations, drops a re-check or a wake-up
   changes the generated term and turns one of them false. *)
From Coq Require Import ZArith List Bool Arith String.
From ME Require Import Base.Machine Base.Fut Base.GenPrelude Gen.ThrottleGen Model.Throttle Model.ThrottleIR Gen.ThrottleSkel
  Proofs.ThrottleIR_Conf.
Import ListNotations.

Lemma submit_conf : forallb (conf_ok EnSubmit) fam_submit = true.
Proof. vm_compute. reflexivity. Qed.
Lemma shutdown_conf : forallb (conf_ok EnShutdown) fam_shutdown = true.
Proof. vm_compute. reflexivity. Qed.
Lemma cancel_conf : forallb (conf_ok EnCancel) fam_cancel = true.
Proof. vm_compute. reflexivity. Qed.
Lemma callback_conf : forallb (conf_ok EnCallback) fam_callback = true.
Proof. vm_compute. reflexivity. Qed.
Lemma loop_conf : forallb (conf_ok EnLoop) fam_loop = true.
Proof. vm_compute. reflexivity. Qed.

Definition fam_of (en : entry) : list cfg :=
  match en with
  | EnSubmit => fam_submit | EnShutdown => fam_shutdown | EnCancel => fam_cancel
  | EnLoop => fam_loop | EnCallback => fam_callback
  end.

Theorem all_paths_conform : forall en c, In c (fam_of en) -> conforms en c.
Proof.
  intros en c. destruct en; unfold fam_of.
  - apply all_conform. exact submit_conf.
  - apply all_conform. exact shutdown_conf.
  - apply all_conform. exact cancel_conf.
  - apply all_conform. exact loop_conf.
  - apply all_conform. exact callback_conf.
Qed.

(* the methods without visible operation: ThrottleFuture.__init__ (on an object nobody else can see yet) and
   ThrottleFuture._clear_executor (the machine folds it into the release that runs the callbacks, IRelMCbs) *)
Lemma silent_methods : forall s loc,
  settle FUEL false s loc (map IS future_init_m ++ [KStop]) [] = Some ([], loc, [KStop]) /\
  settle FUEL false s loc (map IS clear_executor_m ++ [KStop]) [] = Some ([], loc, [KStop]).
Proof. intros s loc. split; reflexivity. Qed.

(* coverage: (configurations, completed calls, events matched) per entry point *)
Definition stats (en : entry) : Z * Z * Z :=
  fold_left (fun acc c =>
               match conf_run en c with
               | Some (_, (_, evs, _, d)) => (fst (fst acc) + 1, snd (fst acc) + (if d then 1 else 0), snd acc + Z.of_nat (List.length evs))%Z
               | None => acc
               end) (fam_of en) (0, 0, 0)%Z.
Lemma coverage_counts :
  stats EnSubmit = (576, 512, 5894)%Z /\ stats EnShutdown = (24, 24, 96)%Z /\ stats EnCancel = (320, 320, 2220)%Z /\
  stats EnCallback = (48, 48, 504)%Z /\ stats EnLoop = (2592, 1296, 61070)%Z.
Proof. vm_compute. repeat split; reflexivity. Qed.



(* the instructions met over all co-executions, by origin: every operation of the machine's alphabet that belongs
   to throttle.py is issued by a generated term somewhere *)
Definition instr_tag (i : instr) : nat :=
  match i with
  | IHStart => 0 | IExit => 1 | ICount _ => 2 | IXAcqH => 3 | ILoop => 4 | IRcRead RLoop => 5 | IRcRead RWait => 6 | IPop => 7
  | IAcqA AIncr => 8 | IAcqA (ADecr _) => 9 | IRelA => 10 | IRelXH => 11 | IDSubmit _ => 12 | IAddCb1 _ => 13 | IAddCb2 _ _ => 14
  | IAcqM _ => 15 | IAcqMSet _ _ => 16 | IRelM _ => 17 | IRelMCbs _ => 18 | IDCancelledQ _ _ => 19 | IFSet _ _ => 20 | IDoneQ _ => 21
  | IWait _ WH => 22 | IWait _ (WSub _) => 23 | IWoke WH => 24 | IWoke (WSub _) => 25 | IClear => 26 | IEvSet => 27
  | IAcqG GSub => 28 | IAcqG (GShut _) => 29 | IRelG => 30 | IXEnq => 31 | IDShutdown => 32 | IRet => 33 | IRetRaise => 34
  | IRetB _ => 35 | IRetJoin => 36 | ICancelled _ => 37 | IDoneC _ => 38 | IXCancel _ => 39 | IDCancel _ _ => 40
  | IFCancel _ => 41 | IFSrnc _ => 42
  end.
Definition add_tag (l : list nat) (x : nat) : list nat := if existsb (Nat.eqb x) l then l else x :: l.
Definition tags_of (en : entry) (ir : bool) : list nat :=
  fold_left (fun acc c =>
               match conf_run en c with
               | Some (_, (tis, _, _, _)) =>
                   fold_left (fun a ti => if Bool.eqb (fst ti) ir then add_tag a (instr_tag (snd ti)) else a) tis acc
               | None => acc
               end) (fam_of en) [].
Definition sorted_tags (l : list nat) : list nat := filter (fun x => existsb (Nat.eqb x) l) (seq 0 43).
Definition all_ir_tags : list nat :=
  sorted_tags (tags_of EnSubmit true ++ tags_of EnShutdown true ++ tags_of EnCancel true ++ tags_of EnCallback true ++ tags_of EnLoop true).
Definition all_lib_tags : list nat :=
  sorted_tags (tags_of EnSubmit false ++ tags_of EnShutdown false ++ tags_of EnCancel false ++ tags_of EnCallback false ++ tags_of EnLoop false).
(* issued by the generated terms: everything except IHStart (the entry event), ILoop (never a head: Throttle.norm)
   and the instructions of the library code underneath (M_j, the stdlib Future methods on the throttle future,
   add_done_callback of _delegate_resolved) *)
Lemma coverage_instrs :
  all_ir_tags = [1; 2; 3; 5; 6; 7; 8; 9; 10; 11; 12; 13; 22; 23; 24; 25; 26; 27; 28; 29; 30; 31; 32; 33; 34; 36; 39; 40] /\
  all_lib_tags = [14; 15; 16; 17; 18; 19; 20; 21; 35; 37; 38; 41; 42].
Proof. vm_compute. split; reflexivity. Qed.

