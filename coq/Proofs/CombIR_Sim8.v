(* Lockstep of the IR machine (generated combinator programs) and Comb.v: before the constructor call, and the window in
   which Zipper.__init__ has not yet registered notify_cancel. *)
From Coq Require Import List Arith Bool Lia PeanoNat ZArith.
From RecordUpdate Require Import RecordSet.
From ME Require Import Base.Machine Base.Fut Base.GenPrelude Gen.BoolGen Gen.ZipGen Model.Comb Model.CombIR Gen.CombSkel
  Proofs.CombIR_Sim Proofs.CombIR_Sim2 Proofs.CombIR_Sim3 Proofs.CombIR_Sim4 Proofs.CombIR_Sim5 Proofs.CombIR_Sim6
  Proofs.CombIR_Sim7.
Import ListNotations RecordSetNotations.

(* an idle thread accepts none of the thread events, in either machine *)
Lemma idle_thread_event h thr_i cs e t : thread_of e = Some t -> thr_i t = [] -> thr cs t = [] ->
  lock_ok e (gstep (mkI h thr_i) e) (step cs e).
Proof.
  intros He Hi Hc. destruct e; try discriminate He; injection He as <-; unfold gstep, istep, step; simpl; rewrite Hi, Hc.
  - exact I.
  - exact I.
  - exact I.
  - destruct (negb (fstate_eqb pre (os cs))); exact I.
  - destruct (negb (fstate_eqb pre (es cs d))); exact I.
Qed.

Lemma norm_nil : norm false [] = [].
Proof. reflexivity. Qed.

Lemma upd_idle {A} (f : nat -> list A) t : f t = [] -> forall u, upd f t [] u = f u.
Proof. intros H u. unfold upd. destruct (Nat.eqb u t) eqn:E; [apply Nat.eqb_eq in E; subst; symmetry; exact H|reflexivity]. Qed.

(* ---- before the constructor call ------------------------------------------------------------------------------- *)
Lemma ls0_env_finish s cs t d pre o : Rcore (sh s) cs -> R0 s cs ->
  lock_ok (EEnvFinish t d pre o) (gstep s (EEnvFinish t d pre o)) (step cs (EEnvFinish t d pre o)).
Proof.
  intros Hc (Hb & Hrd & He & Hidle). destruct s as [h thr_i]. simpl in Hc. unfold idle in Hidle. simpl in Hidle.
  destruct (Hidle t) as [Hi Ht].
  unfold gstep, istep, step. simpl. rewrite Hi, Ht. core_rw Hc.
  destruct (fstate_eqb pre (es cs d)); simpl; [|exact I].
  destruct (f_set pre) as [n|]; simpl.
  - unfold resume, in_clos, in_fires. rewrite (rc_ecbs _ _ Hc), He. simpl.
    split; [solve_core Hc|]. left. split; [exact Hb|]. split; [exact Hrd|]. split.
    + intros d0. simpl. unfold upd. destruct (Nat.eqb d0 d); [reflexivity|apply He].
    + intros u. unfold idle. simpl. rewrite norm_nil, !upd_idle by assumption. apply Hidle.
  - split; [exact Hc|]. left. repeat split; auto; apply Hidle.
Qed.

Lemma ls0_env_cancel s cs t d pre : Rcore (sh s) cs -> R0 s cs ->
  lock_ok (EEnvCancel t d pre) (gstep s (EEnvCancel t d pre)) (step cs (EEnvCancel t d pre)).
Proof.
  intros Hc (Hb & Hrd & He & Hidle). destruct s as [h thr_i]. simpl in Hc. unfold idle in Hidle. simpl in Hidle.
  destruct (Hidle t) as [Hi Ht].
  unfold gstep, istep, step. simpl. rewrite Hi, Ht. core_rw Hc.
  destruct (fstate_eqb pre (es cs d)); simpl; [|exact I].
  destruct (f_cancel pre) as [n b]. simpl. destruct (f_cancel_fires pre); simpl.
  - unfold resume, in_clos, in_fires. rewrite (rc_ecbs _ _ Hc), He. simpl.
    split; [solve_core Hc|]. left. split; [exact Hb|]. split; [exact Hrd|]. split.
    + intros d0. simpl. unfold upd. destruct (Nat.eqb d0 d); [reflexivity|apply He].
    + intros u. unfold idle. simpl. rewrite norm_nil, !upd_idle by assumption. apply Hidle.
  - split; [solve_core Hc|]. left. split; [exact Hb|]. split; [exact Hrd|]. split; [exact He|]. intros u. apply Hidle.
Qed.

Lemma ls0_call_new s cs t k ins : Rcore (sh s) cs -> R0 s cs ->
  lock_ok (ECallNew t k ins) (gstep s (ECallNew t k ins)) (step cs (ECallNew t k ins)).
Proof.
  intros Hc (Hb & Hrd & He & Hidle). destruct s as [h thr_i]. simpl in Hc. unfold idle in Hidle. simpl in Hidle.
  destruct (Hidle t) as [Hi Ht].
  unfold gstep, istep, step. simpl. rewrite Hi, Ht. core_rw Hc. rewrite Hb. simpl.
  assert (Hothers : forall (st' : list frame) (p' : list instr) u, u <> t ->
            upd thr_i t st' u = [] /\ upd (thr cs) t p' u = []).
  { intros st' p' u Hu. unfold upd. apply Nat.eqb_neq in Hu. rewrite Hu. apply Hidle. }
  assert (Bool : k <> KZip -> (2 <=? length ins) = true ->
            R (resume bool_init_prog zip_init_prog (h <| ick := k |> <| iinputs := ins |> <| ibuilt := true |>) thr_i t
                 [(map IS (wrapper_of or_wrapper_prog and_wrapper_prog zip_wrapper_prog k) ++ [KRet], lv0)])
              (set_prog (cs <| ck := k |> <| inputs := ins |> <| fsd := dedup ins |> <| remaining := Z.of_nat (length ins) |>
                            <| built := true |>) t
                 (IAddCbNotify :: flat_map (fun i => [IAddCbOut i; IAddCbIn i]) (seq 0 (length ins)) ++ [IRet]))).
  { intros Hk Hlen. apply Nat.leb_le in Hlen.
    assert (Hle : (length ins <=? 1) = false) by (apply Nat.leb_gt; lia).
    unfold resume. destruct k; [| |congruence]; simpl; rewrite Hle; simpl.
    - split; [solve_core Hc|]. right. right. split; [reflexivity|]. split; [right; reflexivity|]. split; [left; simpl; discriminate|].
      intros u. simpl. unfold upd. destruct (Nat.eqb u t) eqn:Eu.
      + rewrite loop_0. rewrite norm_real by reflexivity. split; [|reflexivity]. apply RT_bot. match goal with |- segb ?c _ _ => exact (SB_K0 c) end.
      + destruct (Hidle u) as [-> ->]. split; constructor.
    - split; [solve_core Hc|]. right. right. split; [reflexivity|]. split; [right; reflexivity|]. split; [left; simpl; discriminate|].
      intros u. simpl. unfold upd. destruct (Nat.eqb u t) eqn:Eu.
      + rewrite loop_0. rewrite norm_real by reflexivity. split; [|reflexivity]. apply RT_bot. match goal with |- segb ?c _ _ => exact (SB_K0 c) end.
      + destruct (Hidle u) as [-> ->]. split; constructor. }
  unfold call_ok. remember (2 <=? length ins) as b2 eqn:Eb2. remember (length ins <? 2) as b1 eqn:Eb1.
  assert (Hb12 : b2 = negb b1) by (subst; apply Nat.leb_antisym).
  destruct k; simpl.
  - rewrite andb_true_r, Hb12. destruct b1; simpl; [exact I|].
    apply Bool; [discriminate|exact Hb12].
  - rewrite andb_true_r, Hb12. destruct b1; simpl; [exact I|].
    apply Bool; [discriminate|exact Hb12].
  - rewrite andb_false_r. destruct ins as [|a ins]; simpl; [exact I|].
    (* Zipper over at least one input: up to self.out.add_done_callback(notify_cancel) *)
    unfold resume. simpl.
    split; [solve_core Hc|]. right. left. exists t.
    split; [reflexivity|]. split; [reflexivity|]. split; [exact Hrd|]. split; [reflexivity|]. split; [exact He|].
    split; [simpl; apply upd_same|]. split.
    + simpl. rewrite upd_same. rewrite norm_real by reflexivity. reflexivity.
    + intros u Hu. unfold idle. simpl. unfold upd. apply Nat.eqb_neq in Hu. rewrite Hu. apply Hidle.
Qed.

Lemma lockstep0 s cs e : Rcore (sh s) cs -> R0 s cs -> lock_ok e (gstep s e) (step cs e).
Proof.
  intros Hc H0. pose proof H0 as (Hb & Hrd & He & Hidle).
  destruct e.
  - apply ls0_call_new; assumption.
  - destruct s as [h thr_i]. simpl in Hc. destruct (Hidle t) as [Hi Ht]. simpl in Hi.
    unfold gstep, istep, step. simpl. rewrite Hi, Ht. core_rw Hc. rewrite Hrd. exact I.
  - destruct s as [h thr_i]. destruct (Hidle t) as [Hi Ht]. apply (idle_thread_event h thr_i cs _ t); auto.
  - destruct s as [h thr_i]. destruct (Hidle t) as [Hi Ht]. apply (idle_thread_event h thr_i cs _ t); auto.
  - destruct s as [h thr_i]. destruct (Hidle t) as [Hi Ht]. apply (idle_thread_event h thr_i cs _ t); auto.
  - destruct s as [h thr_i]. destruct (Hidle t) as [Hi Ht]. apply (idle_thread_event h thr_i cs _ t); auto.
  - destruct s as [h thr_i]. destruct (Hidle t) as [Hi Ht]. apply (idle_thread_event h thr_i cs _ t); auto.
  - apply ls0_env_finish; assumption.
  - apply ls0_env_cancel; assumption.
  - destruct s as [h thr_i]. destruct (Hidle t) as [Hi Ht]. unfold gstep, istep, step. simpl. rewrite Ht. exact I.
Qed.
