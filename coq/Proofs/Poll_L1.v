(* C04 for the Poll machine, part 1: lock discipline of every thread program.
   Locks of the model: M_j (PollFuture._me_lock, owner [mown s j]), X (PollExecutor._lock, [xown]), G (the
   shutdown gate, [gown]).  No re-entrant acquisition is modelled (the model blocks on it), so showing that
   a thread never requests a lock it holds is part of the discipline.
   [run] executes a program symbolically for ONE lock a, starting from "do I hold a": an instruction may
   acquire a (EA), release a - possibly deep inside its expansion - (ER) or leave it alone (EN); while a is
   held the instruction must not request a lock that is not strictly above a ([forb]). *)
From Coq Require Import ZArith List Bool Arith Lia.
From RecordUpdate Require Import RecordSet.
From ME Require Import Base.Machine Base.Fut Base.GenPrelude Model.Poll Proofs.Poll_Inv Proofs.Poll_NoDup.
Import ListNotations RecordSetNotations.

Inductive lock := LM (j : nat) | LX | LG.
Definition owner (s : st) (a : lock) : option nat :=
  match a with LM j => mown s j | LX => xown s | LG => gown s end.
(* G < X < M_j, all M_j on one level: no thread ever holds two of them *)
Definition lrank (a : lock) : nat := match a with LG => 0 | LX => 1 | LM _ => 2 end.

Inductive eff := EA | ER | EN.

(* the M lock an instruction acquires / will have released when its expansion is over *)
Definition macq (i : instr) : option nat :=
  match i with IAcqM j | IAcqMClr j => Some j | _ => None end.
Definition mrel (i : instr) : option nat :=
  match i with
  | IRelM j | IRelMCbs j | ICancelled j | IDoneC j | IDCancel j | ICancelFnQ j | IUserCancelFn j _
  | IDoneA j | IDoneS j _ | IDoneX j _ | IFSetRes j _ | IFSetExc j _ => Some j
  | _ => None
  end.
Definition is (o : option nat) (j : nat) : bool := match o with Some x => Nat.eqb x j | None => false end.

(* may the instruction (or its expansion) request G / X / an M_k with k <> j ? *)
Definition reqG (i : instr) : bool := match i with IGAcq => true | _ => false end.
Definition reqX (i : instr) : bool :=
  match i with
  | IXAcqReg _ _ | IXDereg _ | IRelMCbs _ | IAddCbD _ | IDCancelledQ _ | IDSubmit | IDoneA _ | IDoneS _ _
  | IDoneX _ _ | IFSetRes _ _ | IFSetExc _ _ | ICancelled _ | IDoneC _ | IDCancel _ | ICancelFnQ _
  | IUserCancelFn _ _ => true
  | _ => false
  end.
Definition reqMo (j : nat) (i : instr) : bool :=
  match i with
  | IAcqM k | IAcqMClr k | IDCancelledQ k | IAddCbD k | IDoneX k _ => negb (Nat.eqb k j)
  | IDSubmit => true
  | _ => false
  end.
Definition isXAcq (i : instr) : bool := match i with IXAcqReg _ _ => true | _ => false end.

(* forbidden while a is held.  M_j: anything that requests G, X (unless it is X taken by the callbacks AFTER
   this very instruction released M_j) or another M; _delegate_resolved of the same future is allowed only
   when its delegate is cancelled (it then returns at once: the cancel() path).  X: G, or X again. *)
Definition forb (dsf : nat -> fstate) (a : lock) (i : instr) : bool :=
  match a with
  | LM j =>
      match i with
      | IDCancelledQ k => if Nat.eqb k j then negb (fcancelled (dsf j)) else true
      | IAddCbD _ => true
      | _ => reqG i || reqMo j i || (reqX i && negb (is (mrel i) j))
      end
  | LX => reqG i || (reqX i && negb (isXAcq i))
  | LG => false
  end.

Definition effect (a : lock) (i : instr) : eff :=
  match a with
  | LM j => if is (macq i) j then EA else if is (mrel i) j then ER else EN
  | LX => match i with IXAcqReg _ _ => EA | IXRel => ER | _ => EN end
  | LG => match i with IGAcq => EA | IGRel | IDSubmit => ER | _ => EN end
  end.

Fixpoint run (dsf : nat -> fstate) (a : lock) (h : bool) (p : list instr) : option bool :=
  match p with
  | [] => Some h
  | i :: r =>
      if h && forb dsf a i then None else
      match effect a i with
      | EA => if h then None else run dsf a true r
      | ER => if h then run dsf a false r else None
      | EN => run dsf a h r
      end
  end.

(* the discipline: from its current holding status every thread's program alternates acquire / release of
   each lock correctly, respects the order while holding it, and ends holding nothing *)
Definition Disc (s : st) : Prop :=
  forall a t, run (ds s) a (holds (owner s a) t) (thr s t) = Some false.

Lemma disc_init : Disc init.
Proof. intros a t. destruct a; reflexivity. Qed.

Lemma run_app dsf a h p q :
  run dsf a h (p ++ q) = match run dsf a h p with Some h' => run dsf a h' q | None => None end.
Proof.
  revert h. induction p as [|i r IH]; intros h; simpl; [reflexivity|].
  destruct (h && forb dsf a i); [reflexivity|]. destruct (effect a i); destruct h; auto.
Qed.

(* cancelled delegates stay cancelled: the discipline survives changes of the delegate states *)
Lemma run_mono dsf dsf' a h p b :
  (forall j, a = LM j -> fcancelled (dsf j) = true -> fcancelled (dsf' j) = true) ->
  run dsf a h p = Some b -> run dsf' a h p = Some b.
Proof.
  intros Hm. revert h. induction p as [|i r IH]; intros h; simpl; [auto|].
  destruct h; simpl; [|destruct (effect a i); auto].
  assert (Hf : forb dsf a i = false -> forb dsf' a i = false).
  { destruct a as [ja| |]; simpl; auto. destruct i; auto.
    match goal with |- context [Nat.eqb ?x ja] => destruct (Nat.eqb x ja) end; auto.
    intros H. apply negb_false_iff in H. apply negb_false_iff. apply (Hm ja eq_refl H). }
  destruct (forb dsf a i); [discriminate|]. rewrite (Hf eq_refl). destruct (effect a i); auto.
Qed.

(* the delegate state of j is read only by a pending _delegate_resolved of j *)
Lemma run_indep dsf dsf' j h p : cnt j p = 0 -> run dsf (LM j) h p = run dsf' (LM j) h p.
Proof.
  revert h. induction p as [|i r IH]; intros h Hc; [reflexivity|]. simpl in Hc.
  assert (Ht : tokb j i = false) by (destruct (tokb j i); [discriminate|reflexivity]).
  rewrite Ht in Hc. simpl in Hc. cbn [run].
  assert (Hf : forb dsf (LM j) i = forb dsf' (LM j) i).
  { destruct i; simpl in *; try reflexivity. rewrite Ht. reflexivity. }
  rewrite Hf. destruct (h && forb dsf' (LM j) i); [reflexivity|].
  destruct (effect (LM j) i); destruct h; auto.
Qed.

Lemma fresh_cnt s : Inv7 s -> forall t, cnt (nfut s) (thr s t) = 0.
Proof.
  intros I t. rewrite (i7_cnt _ I). destruct (i7_fresh _ I (nfut s) (le_n _)) as [-> _]. reflexivity.
Qed.

(* the unlocked scan of _run_cancel_fn expands to something with the effect of ICancelFnQ itself *)
Lemma run_cancel_cont dsf a h s j r b :
  run dsf a h (ICancelFnQ j :: r) = Some b -> run dsf a h (cancel_cont s j ++ r) = Some b.
Proof.
  unfold cancel_cont, cancel_no, cancel_ok.
  destruct (negb (pexec s j)); [|destruct (negb (hascfn s)); [|destruct (lookup j (descs s))]];
    (destruct a as [k| |];
     [ destruct (Nat.eqb j k) eqn:E; destruct h; simpl; unfold is; simpl; rewrite ?E; simpl; rewrite ?E; auto; discriminate
     | destruct h; simpl; auto; discriminate | destruct h; simpl; auto ]).
Qed.
Lemma run_norm dsf a h s p b : run dsf a h p = Some b -> run dsf a h (norm s p) = Some b.
Proof. destruct p as [|i r]; [auto|]. destruct i; auto. simpl norm. apply run_cancel_cont. Qed.

Lemma run_raise dsf a e (sn : list (nat * nat)) r :
  run dsf a false (flat_map (fun p => exc_prog (fst p) e) sn ++ r) = run dsf a false r.
Proof.
  induction sn as [|p sn IH]; [reflexivity|]. simpl.
  destruct a as [k| |]; simpl; try exact IH.
  destruct (Nat.eqb (fst p) k) eqn:E; simpl; rewrite ?E; simpl; exact IH.
Qed.

Lemma run_raise0 dsf a e (sn : list (nat * nat)) :
  run dsf a false (flat_map (fun p => exc_prog (fst p) e) sn) = Some false.
Proof. rewrite <- (app_nil_r (flat_map _ sn)). rewrite run_raise. reflexivity. Qed.

Lemma fcancel_true_cancelled s n : f_cancel s = (n, true) -> fcancelled n = true.
Proof. destruct s; simpl; intros H; inversion H; reflexivity. Qed.
Lemma fcancel_keeps s n b : f_cancel s = (n, b) -> fcancelled s = true -> fcancelled n = true.
Proof. destruct s; simpl; intros H; inversion H; auto. Qed.
Lemma fsrnc_keeps s n b : f_srnc s = Some (n, b) -> fcancelled s = true -> fcancelled n = true.
Proof. destruct s; simpl; intros H; inversion H; auto. Qed.
Lemma fset_not_cancelled s n : f_set s = Some n -> fcancelled s = false.
Proof. destruct s; simpl; congruence. Qed.

(* ---- preservation ------------------------------------------------------------------------------ *)
Ltac opt_inv :=
  repeat match goal with
  | E : Some _ = Some _ |- _ => injection E as E
  | E : Some _ = None |- _ => discriminate E
  | E : None = Some _ |- _ => discriminate E
  end.

Ltac cancelled_mono :=
  let k := fresh "k" in let Hk := fresh "Hk" in let Hl := fresh "Hl" in
  intros k Hl Hk; try discriminate Hl; try (injection Hl as Hl; subst k);
  simpl in *; unfold upd in *; cleanup;
  repeat match goal with E : fstate_eqb _ _ = true |- _ => apply fstate_eqb_eq in E; subst end;
  repeat match goal with |- context [Nat.eqb ?x ?d] => destruct (Nat.eqb x d) eqn:?; cleanup end;
  first [ assumption | congruence
        | eapply fcancel_true_cancelled; eassumption
        | eapply fcancel_keeps; eassumption
        | eapply fsrnc_keeps; eassumption
        | match goal with E : f_set _ = Some _ |- _ => apply fset_not_cancelled in E; congruence end ].

Ltac neq_facts :=
  repeat match goal with
  | Hn : ?x <> ?y |- _ =>
      first [ rewrite (proj2 (Nat.eqb_neq x y) Hn) in *
            | rewrite (proj2 (Nat.eqb_neq y x) (not_eq_sym Hn)) in * ]
  end.

Ltac conj_facts :=
  repeat match goal with
  | H : _ && _ = true |- _ => apply andb_prop in H; destruct H
  | H : _ && _ = false |- _ => apply andb_false_iff in H; destruct H
  | H : negb _ = true |- _ => apply negb_true_iff in H
  | H : negb _ = false |- _ => apply negb_false_iff in H
  end.

(* the moving thread: Hc is the discipline of its old program, with the head instruction exposed *)
Ltac eqbs :=
  repeat match goal with
  | |- context [Nat.eqb ?x ?y] => destruct (Nat.eqb x y) eqn:?
  end.
Ltac holds_facts :=
  repeat match goal with
  | H : holds ?o ?t = _ |- _ => rewrite H in *
  end.

Ltac owner_facts :=
  repeat match goal with
  | E : gown _ = _ |- _ => rewrite E in *
  | E : xown _ = _ |- _ => rewrite E in *
  | E : mown _ _ = _ |- _ => rewrite E in *
  | E : issome (xown _) = false |- _ => let E' := fresh in destruct (xown _) eqn:E'; [discriminate E|clear E]
  end.

Ltac disc_fin Ic Hfr :=
  let a := fresh "a" in let t0 := fresh "t0" in
  intros a t0; pose proof (Ic a t0) as Hc0;
  try match goal with
  | E : thr ?s ?t = _ |- _ =>
      let Hc := fresh "Hc" in pose proof (Ic a t) as Hc; rewrite E in Hc; revert Hc
  end;
  try match goal with |- context [upd (thr _) ?t _ t0] =>
    destruct (Nat.eq_dec t0 t) as [Heq|Hne];
    [ subst t0; rewrite (upd_same _ t); try (intros Hc; apply run_norm; revert Hc); try (intros Hc; apply run_cancel_cont; revert Hc); rewrite ?run_app, ?run_raise
    | rewrite (upd_other _ t _ t0) by assumption ]
  end;
  try match goal with |- context [yield_prog _ ?o] => destruct o end;
  try match goal with E : f_cancel _ = (?f, true) |- _ =>
        let Hx := fresh "Hfc" in pose proof (fcancel_true_cancelled _ _ E) as Hx end;
  destruct a as [ja| |]; simpl; rewrite ?run_raise; unfold upd, is; simpl;
  try match goal with Hx : fcancelled _ = true |- _ => rewrite ?Hx end; simpl;
  eqbs; simpl; rewrite ?Nat.eqb_refl, ?andb_true_r, ?andb_false_r; simpl;
  try solve [ intros; simpl in *; cleanup; owner_facts; simpl in *; bools; opt_inv; conj_facts; cleanup; holds_facts; simpl in *;
              rewrite ?Nat.eqb_refl in *; neq_facts; simpl in *;
              try solve [ assumption | congruence | discriminate | apply run_raise0
                        | eapply run_mono; [|eassumption]; cancelled_mono
                        | match goal with |- run _ (LM ?j) _ (thr ?s ?tx) = _ =>
                            destruct (Nat.eq_dec j (nfut s)) as [->|?];
                            [ rewrite <- (run_indep (ds s) _ (nfut s) _ _ (Hfr tx)); assumption
                            | eapply run_mono; [|eassumption]; cancelled_mono ]
                          end
                        | match goal with
                          | Hr : run ?d1 (LM ?j) ?h ?p = Some false |- run ?d2 (LM ?j) ?h ?p = Some false =>
                              rewrite <- (run_indep d1 d2 j h p); [exact Hr|]
                          end;
                          first [ apply Hfr
                                | match goal with E : thr _ ?t = _ :: ?l |- cnt _ ?l = 0 =>
                                    let X := fresh in pose proof (Hfr t) as X; rewrite E in X; simpl in X; exact X end ] ] ].

Lemma disc_step s e s' : Inv7 s -> Disc s -> step s e = Some s' -> Disc s'.
Proof.
  destruct e as [ts e]. intros I7 I H. apply step_inv in H. destruct H as [s1 [Ht H]].
  assert (Ic : Disc s1 /\ forall t, cnt (nfut s1) (thr s1 t) = 0).
  { pose proof (fresh_cnt _ I7) as Hf.
    apply tick_inv in Ht. destruct Ht as [[-> _]|[-> _]]; [split; assumption|]. split; [|exact Hf].
    intros a t. specialize (I a t). destruct a; exact I. }
  clear I I7 Ht s. destruct Ic as [Ic Hfr].
  apply step0_inv in H. destruct H as [[c [d [-> [_ ->]]]]|[_ [H|[H|H]]]].
  - intros a t. specialize (Ic a t). destruct a; exact Ic.
  - open1 H; norm_eqs; unfold Disc; simpl; disc_fin Ic Hfr.
  - open2 H; norm_eqs; unfold Disc; simpl; disc_fin Ic Hfr.
  - open3 H; norm_eqs; unfold Disc; simpl; disc_fin Ic Hfr.
Qed.
