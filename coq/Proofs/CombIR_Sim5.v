(* Lockstep of the IR machine (generated combinator programs) and Comb.v: the stdlib Future methods on the OUTPUT
   (event EFO) of a thread in the phase after construction. *)
From Coq Require Import List Arith Bool Lia PeanoNat ZArith.
From RecordUpdate Require Import RecordSet.
From ME Require Import Base.Machine Base.Fut Base.GenPrelude Gen.BoolGen Gen.ZipGen Model.Comb Model.CombIR Gen.CombSkel
  Proofs.CombIR_Sim Proofs.CombIR_Sim2 Proofs.CombIR_Sim3 Proofs.CombIR_Sim4.
Import ListNotations RecordSetNotations.

Ltac ops x := destruct x as [|[|[|[|[|[|[|?]]]]]]]; simpl; try exact I.

(* the callbacks of the output, pushed as frames *)
Lemma push_out cs h kd X stX : Rcore h cs -> R_thr cs X stX ->
  R_thr cs (out_fires cs X)
        (map (frame_of bool_handle_prog zip_handle_prog chain_cb_prog notify_cb_prog kd) (out_clos h) ++ stX).
Proof.
  intros Hc HX. unfold out_fires, out_clos. rewrite (rc_ocbs _ _ Hc). apply (R_out_fires cs kd). exact HX.
Qed.

(* a tail never continues with the caller's IRetB *)
Definition hd_ok (l : list instr) : Prop := match l with IRetB _ :: _ => False | _ => True end.
Lemma tail_hd_ok o r q : forall lv, hd_ok (tail_instrs o lv r ++ ICatch :: q).
Proof.
  induction r as [|it r IH]; intros lv; [exact I|]. pose proof (IH lv) as IHlv.
  destruct it as [s| | |j b| | | ]; simpl; try exact IHlv; try exact I.
  destruct s; simpl; try exact IHlv; try exact I.
  - destruct c; simpl; try exact IHlv. destruct th as [|s1 [|s2 th]]; simpl; try exact IHlv.
    destruct el; simpl; try exact IHlv. destruct (get_lvar lv v); simpl; [|exact IHlv].
    destruct s1; simpl; try exact IHlv; exact I.
  - destruct (l_cf lv) as [|x cf]; simpl; [apply IH|]. unfold cancel_instr. destruct (Nat.eqb x out_id); exact I.
Qed.
Lemma hd_ok_retb l (b : bool) : hd_ok l -> match l with IRetB _ :: r0 => IRetB b :: r0 | _ => l end = l.
Proof. destruct l as [|x l]; [reflexivity|]. destruct x; simpl; intros H; try reflexivity. contradiction. Qed.

Ltac set_case Hc Hb Hf Hr Hgo Hseg :=
  unfold set_out;
  match goal with |- context [f_set ?pre] => destruct (f_set pre) as [?n|] end; simpl;
  [ eapply Hgo; [solve_core Hc|exact Hb|unfold fsd_rel in *; simpl; exact Hf|unfold rem_rel in *; simpl; exact Hr
               |reflexivity|apply stable_same; reflexivity|apply push_out; [exact Hc|exact Hseg]]
  | eapply (Hgo _ _ [] _ _ _ KOr); [solve_core Hc|exact Hb|unfold fsd_rel in *; simpl; exact Hf|unfold rem_rel in *; simpl; exact Hr
               |reflexivity|apply stable_same; reflexivity|exact Hseg] ].

Lemma ls2_fo s cs t op pre : Rcore (sh s) cs -> R2 s cs ->
  lock_ok (EFO t op pre) (gstep s (EFO t op pre)) (step cs (EFO t op pre)).
Proof.
  intros Hc (Hb & Hf & Hr & Hall).
  destruct s as [h thr_i]. simpl in Hc, Hf, Hr, Hall.
  destruct (Hall t) as [HRt Htop].
  unfold gstep, istep, step. simpl.
  remember (thr cs t) as p eqn:Ep. remember (thr_i t) as st eqn:Est.
  (* every successor differs from cs in os / oout / ocbs / hist / thr only *)
  assert (Fin : forall cs' h' p' st', Rcore h' cs' -> built cs' = true -> fsd_rel h' cs' -> rem_rel h' cs' ->
            thr cs' = upd (thr cs) t (norm false p') -> stable cs cs' -> R_thr cs p' st' ->
            R (resume bool_init_prog zip_init_prog h' thr_i t st') cs').
  { intros. eapply assemble_o; eauto. }
  destruct HRt as [|p fr Hs|p fr rest st Hs Hrest].
  - destruct (negb (fstate_eqb pre (os cs))); exact I.
  - destruct Hs as [ |i lv Hi Hx Hfl|i lv Hi Hx Hfl|lv|j lv|lv Hret|  |b lv Hret]; simpl in Htop; try discriminate Htop; simpl;
      core_rw Hc; destruct (fstate_eqb pre (os cs)) eqn:Epre; simpl; try exact I; ops op.
    + (* self.out.add_done_callback(notify_cancel) *)
      destruct (fdone pre); simpl; [exact I|].
      apply (Fin _ _ (loop (length (inputs cs)) 0 ++ [IRet])).
      * solve_core Hc.
      * exact Hb.
      * unfold fsd_rel in *. simpl. exact Hf.
      * unfold rem_rel in *. simpl. exact Hr.
      * reflexivity.
      * apply stable_same; reflexivity.
      * apply RT_bot. apply SB_KS.
    + (* chain_cancel(self.out, f) *)
      subst i. destruct (fdone pre); simpl.
      * (* the output is already done: the lambda runs now *)
        apply (Fin _ _ ([IOutCancelledQ (l_idx lv)] ++ ICatch :: IAddCbIn (l_idx lv) :: loop (length (inputs cs)) (S (l_idx lv)) ++ [IRet])).
        -- solve_core Hc.
        -- exact Hb.
        -- exact Hf.
        -- exact Hr.
        -- reflexivity.
        -- apply stable_same; reflexivity.
        -- apply RT_cb; [apply SC_C0; reflexivity|]. apply RT_bot. apply SB_K2; auto.
      * apply (Fin _ _ (IAddCbIn (l_idx lv) :: loop (length (inputs cs)) (S (l_idx lv)) ++ [IRet])).
        -- solve_core Hc.
        -- exact Hb.
        -- unfold fsd_rel in *. simpl. exact Hf.
        -- unfold rem_rel in *. simpl. exact Hr.
        -- reflexivity.
        -- apply stable_same; reflexivity.
        -- apply RT_bot. apply SB_K2; auto.
    + (* the caller's out.cancel() *)
      unfold cancel_out. destruct (f_cancel pre) as [n b] eqn:Ec. simpl. destruct (f_cancel_fires pre) eqn:Ef; simpl.
      * apply (Fin _ _ (out_fires cs [IRetB b])).
        -- solve_core Hc.
        -- exact Hb.
        -- unfold fsd_rel in *. simpl. exact Hf.
        -- unfold rem_rel in *. simpl. exact Hr.
        -- reflexivity.
        -- apply stable_same; reflexivity.
        -- apply push_out; [exact Hc|]. apply RT_bot. apply (SB_Q1 _ b). reflexivity.
      * apply (Fin _ _ [IRetB b]).
        -- solve_core Hc.
        -- exact Hb.
        -- unfold fsd_rel in *. simpl. exact Hf.
        -- unfold rem_rel in *. simpl. exact Hr.
        -- reflexivity.
        -- apply stable_same; reflexivity.
        -- apply RT_bot. apply (SB_Q1 _ b). reflexivity.
  - destruct Hs as [i lv Hx|i lv Hx|lv|lv|lv|lv|lv|i d Hk Hd|i d Hk Hd|i d Hk Hd|i d Hk Hd|i d Hk Hd|i d Hk Hd|d lv k Hd Hfl Ht Hl];
      simpl in Htop; try discriminate Htop; simpl; core_rw Hc.
    + (* the chain_cancel lambda: f.cancelled() *)
      destruct (fstate_eqb pre (os cs)) eqn:Epre; simpl; ops op. destruct (fcancelled pre); simpl.
      * apply (Fin _ _ ([ICancelIn (input_at cs i)] ++ ICatch :: rest)).
        -- solve_core Hc.
        -- exact Hb.
        -- exact Hf.
        -- exact Hr.
        -- reflexivity.
        -- apply stable_same; reflexivity.
        -- apply RT_cb; [apply SC_C1; exact Hx|exact Hrest].
      * apply (Fin _ _ ([] ++ ICatch :: rest)).
        -- solve_core Hc.
        -- exact Hb.
        -- exact Hf.
        -- exact Hr.
        -- reflexivity.
        -- apply stable_same; reflexivity.
        -- apply RT_cb; [apply SC_end|exact Hrest].
    + destruct (fstate_eqb pre (os cs)) eqn:Epre; simpl; ops op.
    + (* notify_cancel: f.cancelled() *)
      destruct (fstate_eqb pre (os cs)) eqn:Epre; simpl; ops op. destruct (fcancelled pre); simpl.
      * apply (Fin _ _ ([ISrncOut] ++ ICatch :: rest)).
        -- solve_core Hc.
        -- exact Hb.
        -- exact Hf.
        -- exact Hr.
        -- reflexivity.
        -- apply stable_same; reflexivity.
        -- apply RT_cb; [apply SC_N1r|exact Hrest].
      * apply (Fin _ _ ([] ++ ICatch :: rest)).
        -- solve_core Hc.
        -- exact Hb.
        -- exact Hf.
        -- exact Hr.
        -- reflexivity.
        -- apply stable_same; reflexivity.
        -- apply RT_cb; [apply SC_end|exact Hrest].
    + (* notify_cancel: f.set_running_or_notify_cancel() *)
      destruct (fstate_eqb pre (os cs)) eqn:Epre; simpl; ops op. destruct (f_srnc pre) as [[n b]|] eqn:Es; simpl.
      * apply (Fin _ _ ([] ++ ICatch :: rest)).
        -- solve_core Hc.
        -- exact Hb.
        -- unfold fsd_rel in *. simpl. exact Hf.
        -- unfold rem_rel in *. simpl. exact Hr.
        -- reflexivity.
        -- apply stable_same; reflexivity.
        -- apply RT_cb; [apply SC_catch|exact Hrest].
      * (* RuntimeError, swallowed by the except clause *)
        apply (Fin _ _ ([] ++ ICatch :: rest)).
        -- solve_core Hc.
        -- exact Hb.
        -- exact Hf.
        -- exact Hr.
        -- reflexivity.
        -- apply stable_same; reflexivity.
        -- apply RT_cb; [apply SC_end|exact Hrest].
    + destruct (fstate_eqb pre (os cs)) eqn:Epre; simpl; ops op.
    + destruct (fstate_eqb pre (os cs)) eqn:Epre; simpl; ops op.
    + destruct (fstate_eqb pre (os cs)) eqn:Epre; simpl; ops op.
    + destruct (fstate_eqb pre (os cs)) eqn:Epre; simpl; ops op.
    + (* tails *)
      destruct (tail_head_cases k lv Ht Htop) as [Hh Htl]. simpl in Hl. subst d.
      assert (Hgo : forall cs' h' cl p' r lv' kd,
                Rcore h' cs' -> built cs' = true -> fsd_rel h' cs' -> rem_rel h' cs' ->
                thr cs' = upd (thr cs) t (norm false p') -> stable cs cs' ->
                R_thr cs p' (map (frame_of bool_handle_prog zip_handle_prog chain_cb_prog notify_cb_prog kd) cl ++ (r, lv') :: st) ->
                R (resume bool_init_prog zip_init_prog h' thr_i t
                     (map (frame_of bool_handle_prog zip_handle_prog chain_cb_prog notify_cb_prog kd) cl ++ (r, lv') :: st)) cs').
      { intros. eapply Fin; eauto. }
      assert (Hseg : forall it r lv', k = it :: r -> l_f lv' = l_f lv ->
                R_thr cs (tail_instrs (oc_of cs (l_f lv)) lv' r ++ ICatch :: rest) ((r, lv') :: st)).
      { intros it r lv' -> Hlv. apply RT_cb; [|exact Hrest]. rewrite <- Hlv.
        simpl in Ht. apply andb_true_iff in Ht. simpl in Hl.
        apply SC_T; [rewrite Hlv; exact Hd|reflexivity|apply Ht|lia]. }
      destruct Hh as [r|r|r|r|r|r|r x cf Hcf]; simpl in Htl; simpl; core_rw Hc.
      * destruct (fstate_eqb pre (os cs)) eqn:Epre; simpl; exact I.
      * destruct (fstate_eqb pre (os cs)) eqn:Epre; simpl; exact I.
      * (* try_set_result(self.out, f.result()) *)
        destruct (fstate_eqb pre (os cs)) eqn:Epre; simpl; try exact I.
        ops op; set_case Hc Hb Hf Hr Hgo (Hseg _ r lv eq_refl eq_refl).
      * (* try_set_result(self.out, maketuple(self.fs)) *)
        destruct (fstate_eqb pre (os cs)) eqn:Epre; simpl; try exact I.
        ops op; set_case Hc Hb Hf Hr Hgo (Hseg _ r lv eq_refl eq_refl).
      * (* copy_future_exception(f, self.out) *)
        destruct (fstate_eqb pre (os cs)) eqn:Epre; simpl; try exact I.
        ops op; set_case Hc Hb Hf Hr Hgo (Hseg _ r lv eq_refl eq_refl).
      * (* self.out.cancel() in Zipper.handle_done *)
        destruct (fstate_eqb pre (os cs)) eqn:Epre; simpl; ops op. unfold cancel_out. destruct (f_cancel pre) as [n b] eqn:Ec. simpl.
        rewrite (hd_ok_retb _ b (tail_hd_ok _ r rest lv)).
        destruct (f_cancel_fires pre); simpl.
        -- eapply Hgo; [solve_core Hc|exact Hb|unfold fsd_rel in *; simpl; exact Hf|unfold rem_rel in *; simpl; exact Hr
                       |reflexivity|apply stable_same; reflexivity|apply push_out; [exact Hc|exact (Hseg _ r lv eq_refl eq_refl)]].
        -- eapply (Hgo _ _ [] _ _ _ KOr); [solve_core Hc|exact Hb|unfold fsd_rel in *; simpl; exact Hf|unfold rem_rel in *; simpl; exact Hr
                       |reflexivity|apply stable_same; reflexivity|exact (Hseg _ r lv eq_refl eq_refl)].
      * (* the loop over cancel_futures, at the output *)
        rewrite Hcf. simpl. destruct (Nat.eqb x out_id) eqn:Ex.
        2:{ replace (cancel_instr x) with (ICancelIn x) by (unfold cancel_instr; rewrite Ex; reflexivity).
            simpl. destruct (fstate_eqb pre (os cs)); simpl; ops op. }
        replace (cancel_instr x) with ICancelOut by (unfold cancel_instr; rewrite Ex; reflexivity). simpl.
        destruct (fstate_eqb pre (os cs)) eqn:Epre; simpl; ops op. unfold cancel_out. destruct (f_cancel pre) as [n b] eqn:Ec. simpl.
        change (map cancel_instr cf ++ tail_instrs (oc_of cs (l_f lv)) (set_cf lv []) r)
          with (tail_instrs (oc_of cs (l_f lv)) (set_cf lv cf) (IS SForCancel :: r)).
        rewrite (hd_ok_retb _ b (tail_hd_ok _ (IS SForCancel :: r) rest (set_cf lv cf))).
        assert (Hnew : R_thr cs (tail_instrs (oc_of cs (l_f lv)) (set_cf lv cf) (IS SForCancel :: r) ++ ICatch :: rest)
                             ((IS SForCancel :: r, set_cf lv cf) :: st)).
        { apply RT_cb; [|exact Hrest]. apply (SC_T cs (l_f lv) (set_cf lv cf)); auto. }
        destruct (f_cancel_fires pre); simpl.
        -- eapply Hgo; [solve_core Hc|exact Hb|unfold fsd_rel in *; simpl; exact Hf|unfold rem_rel in *; simpl; exact Hr
                       |reflexivity|apply stable_same; reflexivity|apply push_out; [exact Hc|exact Hnew]].
        -- eapply (Hgo _ _ [] _ _ _ KOr); [solve_core Hc|exact Hb|unfold fsd_rel in *; simpl; exact Hf|unfold rem_rel in *; simpl; exact Hr
                       |reflexivity|apply stable_same; reflexivity|exact Hnew].
Qed.
