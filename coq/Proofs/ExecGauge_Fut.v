(* The future side of Model/ExecGauge.v: future_inprogress / future_total / future_cancel / future_error of a
   series l against the futures themselves. *)
From Coq Require Import ZArith List Bool Arith Lia.
From ME Require Import Base.Machine Model.ExecGauge Proofs.ExecGauge_Defs.
Import ListNotations.
Local Open Scope Z_scope.

(* classification of a future's state, for series q *)
Definition p_own (q : nat) (x : fstate) : bool :=
  match x with SNone => false | STot l | STracked l | SRec l _ | SDone l _ => Nat.eqb q l end.
Definition p_prog (q : nat) (x : fstate) : bool :=
  match x with STracked l => Nat.eqb q l | _ => false end.
(* counter k has been touched for this future *)
Definition p_cnt (k : kind) (q : nat) (x : fstate) : bool :=
  match x with SRec l c | SDone l c => Nat.eqb q l && kind_eqb c k | _ => false end.
(* recorded with real outcome k *)
Definition p_done (k : kind) (q : nat) (x : fstate) : bool :=
  match x with SDone l c => Nat.eqb q l && kind_eqb c k | _ => false end.
Definition p_rec (q : nat) (x : fstate) : bool :=
  match x with SRec l _ => Nat.eqb q l | _ => false end.

Definition cnt (p : fstate -> bool) (m : nat -> fstate) (l : list nat) : Z :=
  Z.of_nat (countb (fun f => p (m f)) l).

Lemma cnt_cons p m f r : cnt p m (f :: r) = b2z (p (m f)) + cnt p m r.
Proof. unfold cnt. rewrite countb_cons. destruct (p (m f)); simpl b2n; simpl b2z; lia. Qed.

Lemma cnt_upd_notin p m f v r : ~ In f r -> cnt p (upd m f v) r = cnt p m r.
Proof.
  induction r as [|g r IH]; intros N; [reflexivity|].
  rewrite !cnt_cons. rewrite IH by (intros X; apply N; right; exact X).
  rewrite upd_other by (intros X; apply N; left; exact X). reflexivity.
Qed.

Lemma cnt_upd_in p m f v r : NoDup r -> In f r ->
  cnt p (upd m f v) r = cnt p m r - b2z (p (m f)) + b2z (p v).
Proof.
  induction r as [|g r IH]; intros D I; [destruct I|].
  inversion D as [|g' r' Ng Dr]; subst. rewrite !cnt_cons.
  destruct (Nat.eq_dec g f) as [E|NE].
  - subst g. rewrite upd_same. rewrite cnt_upd_notin by exact Ng. lia.
  - destruct I as [I|I]; [congruence|]. rewrite upd_other by exact NE. rewrite IH by assumption. lia.
Qed.

Definition FI1 (s : fst) (q : nat) : Prop :=
  ftot s q = cnt (p_own q) (fs s) (seen s)
  /\ fprog s q = cnt (p_prog q) (fs s) (seen s)
  /\ fcancel s q = cnt (p_cnt KCancel q) (fs s) (seen s)
  /\ ferr s q = cnt (p_cnt KErr q) (fs s) (seen s).

Definition FInv (s : fst) : Prop :=
  NoDup (seen s) /\ (forall f, In f (seen s) <-> fs s f <> SNone) /\ forall q, FI1 s q.

Lemma finv_init : FInv finit.
Proof.
  split; [constructor|]. split.
  - intros f. simpl. split; [tauto|intros H; apply H; reflexivity].
  - intros q. unfold FI1. simpl. repeat split; reflexivity.
Qed.

(* a state change of an already seen future: every series moves by the change of its classification *)
Lemma finv_change s f v tp pr cn er :
  FInv s -> fs s f <> SNone -> v <> SNone ->
  (forall q, tp q = ftot s q - b2z (p_own q (fs s f)) + b2z (p_own q v)) ->
  (forall q, pr q = fprog s q - b2z (p_prog q (fs s f)) + b2z (p_prog q v)) ->
  (forall q, cn q = fcancel s q - b2z (p_cnt KCancel q (fs s f)) + b2z (p_cnt KCancel q v)) ->
  (forall q, er q = ferr s q - b2z (p_cnt KErr q (fs s f)) + b2z (p_cnt KErr q v)) ->
  FInv (mkFs (upd (fs s) f v) (seen s) pr tp cn er).
Proof.
  intros [D [M I]] Nf Nv Ht Hp Hc He.
  assert (In f (seen s)) as Hin by (apply M; exact Nf).
  split; [exact D|]. split.
  - intros g. simpl. unfold upd. destruct (Nat.eqb g f) eqn:E.
    + apply Nat.eqb_eq in E. subst g. split; [intros _; exact Nv|intros _; exact Hin].
    + apply M.
  - intros q. destruct (I q) as [T [P [C E]]]. unfold FI1. simpl.
    rewrite !cnt_upd_in by assumption. rewrite Ht, Hp, Hc, He, T, P, C, E. repeat split; reflexivity.
Qed.

Lemma finv_new s f v tp :
  FInv s -> fs s f = SNone -> v <> SNone ->
  (forall q, p_prog q v = false /\ p_cnt KCancel q v = false /\ p_cnt KErr q v = false) ->
  (forall q, tp q = ftot s q + b2z (p_own q v)) ->
  FInv (mkFs (upd (fs s) f v) (f :: seen s) (fprog s) tp (fcancel s) (ferr s)).
Proof.
  intros [D [M I]] Ef Nv Hz Ht.
  assert (~ In f (seen s)) as Nin by (intros X; apply M in X; congruence).
  split; [constructor; assumption|]. split.
  - intros g. simpl. unfold upd. destruct (Nat.eqb g f) eqn:E.
    + apply Nat.eqb_eq in E. subst g. split; [intros _; exact Nv|intros _; left; reflexivity].
    + apply Nat.eqb_neq in E. rewrite <- M. split; [intros [X|X]; [congruence|exact X]|intros X; right; exact X].
  - intros q. destruct (I q) as [T [P [C E]]]. destruct (Hz q) as [Z1 [Z2 Z3]]. unfold FI1. simpl.
    rewrite !cnt_cons, !upd_same, !cnt_upd_notin by exact Nin. rewrite Ht, Z1, Z2, Z3, T, P, C, E.
    simpl b2z. repeat split; lia.
Qed.

Ltac series q l := unfold upd; destruct (Nat.eqb q l) eqn:?E; [apply Nat.eqb_eq in E; subst q|]; simpl; try lia.

Lemma finv_step s e s' : FInv s -> fstep s e = Some s' -> FInv s'.
Proof.
  intros I H. destruct e as [l f|l f|l f|l f k|l f k|f o]; simpl in H.
  - (* FTotal *)
    destruct (fs s f) eqn:Ef; try discriminate. inversion H; subst; clear H.
    apply finv_new; [exact I|exact Ef|discriminate| |].
    + intros q. simpl. auto.
    + intros q. simpl. series q l.
  - (* FProg *)
    destruct (fs s f) as [|l0|l0|l0 c|l0 c] eqn:Ef; try discriminate.
    destruct (Nat.eqb l0 l) eqn:El; [|discriminate]. apply Nat.eqb_eq in El. subst l0.
    inversion H; subst; clear H.
    apply finv_change; auto; try congruence; try discriminate; intros q; rewrite Ef; simpl; series q l.
  - (* FDec *)
    destruct (fs s f) as [|l0|l0|l0 c|l0 c] eqn:Ef; try discriminate.
    destruct (Nat.eqb l0 l) eqn:El; [|discriminate]. apply Nat.eqb_eq in El. subst l0.
    inversion H; subst; clear H.
    apply finv_change; auto; try congruence; try discriminate; intros q; rewrite Ef; simpl; series q l.
  - (* FCnt *)
    destruct (fs s f) as [|l0|l0|l0 c|l0 c] eqn:Ef; try discriminate.
    destruct c; try discriminate.
    destruct (Nat.eqb l0 l) eqn:El; [|discriminate]. apply Nat.eqb_eq in El. subst l0.
    destruct k; try discriminate; inversion H; subst; clear H;
      (apply finv_change; auto; try congruence; try discriminate; intros q; rewrite Ef; simpl; series q l).
  - (* FEnd *)
    destruct (fs s f) as [|l0|l0|l0 c|l0 c] eqn:Ef; try discriminate.
    destruct (Nat.eqb l0 l) eqn:El; [|discriminate]. apply Nat.eqb_eq in El. subst l0.
    destruct (kind_eqb c k) eqn:Ek; [|discriminate].
    assert (c = k) by (destruct c, k; simpl in Ek; congruence). subst c.
    simpl in H. inversion H; subst; clear H.
    apply finv_change; auto; try congruence; try discriminate; intros q; rewrite Ef; simpl; series q l.
  - (* FObs *)
    destruct (fs s f) as [|l0|l0|l0 c|l0 c]; destruct o as [k|]; try discriminate.
    + inversion H; subst; exact I.
    + destruct (kind_eqb c k); [|discriminate]. inversion H; subst; exact I.
Qed.

(* pointwise comparison of classifications sums up *)
Lemma countb_le3 (a b c d : nat -> bool) l :
  (forall f, (b2n (a f) + b2n (b f) + b2n (c f) <= b2n (d f))%nat) ->
  (countb a l + countb b l + countb c l <= countb d l)%nat.
Proof.
  intros H. induction l as [|f r IH]; [unfold countb; simpl; lia|]. rewrite !countb_cons. specialize (H f). lia.
Qed.

Lemma countb_ext (a b : nat -> bool) l : (forall f, In f l -> a f = b f) -> countb a l = countb b l.
Proof.
  induction l as [|f r IH]; intros H; [reflexivity|]. rewrite !countb_cons.
  rewrite (H f) by (left; reflexivity). rewrite IH by (intros g Hg; apply H; right; exact Hg). reflexivity.
Qed.
