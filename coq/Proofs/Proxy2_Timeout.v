(* C17 / Proxy2: the timeout f_proxy configures (generated expression) and the one `__result` uses. *)
From Coq Require Import String List Bool Arith ZArith.
From ME Require Import Base.GenPrelude Base.ProxyPrelude Gen.ProxyGen Gen.Proxy2Gen Model.Proxy Model.Proxy2.
Import ListNotations.
Local Open Scope string_scope.

(* f_proxy(f, timeout=x) configures exactly x -- whatever x is (None, 0, 0.0, ...); without the keyword, MAX_TIMEOUT *)
Lemma configured_timeout_spec kw :
  configured_timeout kw = match kwget kw "timeout" with Some x => x | None => TVNum max_timeout end.
Proof. unfold configured_timeout. vm_compute proxy_timeout_expr. simpl. destruct (kwget kw "timeout"); reflexivity. Qed.

(* ... and `self.__result` hands exactly that value to self.result() *)
Lemma result_timeout_spec kw :
  result_timeout kw = match kwget kw "timeout" with Some x => x | None => TVNum max_timeout end.
Proof. unfold result_timeout. vm_compute proxy_result_timeout. vm_compute proxy_init_stores_timeout. cbv iota. apply configured_timeout_spec. Qed.

Lemma result_timeout_zero kw : kwget kw "timeout" = Some (TVNum 0) -> result_timeout kw = TVNum 0.
Proof. intros H. rewrite result_timeout_spec, H. reflexivity. Qed.
Lemma result_timeout_explicit_none kw : kwget kw "timeout" = Some TVNone -> result_timeout kw = TVNone.
Proof. intros H. rewrite result_timeout_spec, H. reflexivity. Qed.
Lemma result_timeout_default kw : kwget kw "timeout" = None -> result_timeout kw = TVNum max_timeout.
Proof. intros H. rewrite result_timeout_spec, H. reflexivity. Qed.

(* the `or` form (seeded change C17-m1) is a different function: a zero timeout becomes 100 years; so is an `is None` form on
   an explicit None.  The model distinguishes all three. *)
Lemma timeout_or_form_differs :
  teval [("timeout", TVNum 0)] timeout_expr_m1 = TVNum max_timeout /\
  teval [("timeout", TVNum 0)] proxy_timeout_expr = TVNum 0 /\
  (forall z, z <> 0%Z -> teval [("timeout", TVNum z)] timeout_expr_m1 = TVNum z).
Proof.
  repeat split; try (vm_compute; reflexivity).
  intros z Hz. cbn. destruct (Z.eqb z 0) eqn:E; [apply Z.eqb_eq in E; contradiction|reflexivity].
Qed.
Lemma timeout_is_none_form_differs :
  teval [("timeout", TVNone)] (TEIfIsNone (TEKw true "timeout" TENone) TEMax (TEKw true "timeout" TENone)) = TVNum max_timeout /\
  teval [("timeout", TVNone)] proxy_timeout_expr = TVNone.
Proof. split; vm_compute; reflexivity. Qed.
