(* source facts of more_executors/_impl/metrics/__init__.py: what the translator finds now is what the models were written against *)
From Coq Require Import List String.
From ME Require Import Gen.Src_metrics Model.SrcExpected.
Lemma src_metrics_ok : Src_metrics.facts = expected_metrics.
Proof. reflexivity. Qed.
