(* Layer E4 (C03): no library future is lost: the theorem at quiescence. *)
From Coq Require Import ZArith List Bool Arith Lia.
From RecordUpdate Require Import RecordSet.
From ME Require Import Base.Machine Base.Fut Base.GenPrelude Model.MapFut Model.MapLaw Proofs.MapFut_InvD Proofs.MapFut_E1 Proofs.MapFut_E2 Proofs.MapFut_E3.
Import ListNotations RecordSetNotations.

Lemma cnt_le1_uniq {A} (f : A -> bool) l x y : cnt f l <= 1 -> In x l -> In y l -> f x = true -> f y = true -> x = y.
Proof.
  induction l as [|a l IH]; simpl; [tauto|]. rewrite cnt_cons. intros C [->|X] [->|Y] Fx Fy; auto.
  - rewrite Fx in C. pose proof (in_cnt_pos f l y Y Fy). lia.
  - rewrite Fy in C. pose proof (in_cnt_pos f l x X Fx). lia.
  - apply IH; auto. destruct (f a); lia.
Qed.

(* the delegate a library future currently depends on is unique *)
Lemma tokP_unique s j d d' : Fn s -> Cn s -> tokP s j d -> tokP s j d' -> d = d'.
Proof.
  intros F CN [X|[X1 X2]] [Y|[Y1 Y2]].
  - destruct X as (_ & d0 & din & N0 & O0 & _ & X). destruct Y as (_ & d1 & din1 & N1 & O1 & _ & Y).
    pose proof (n_uniq _ CN _ _ _ N0 N1) as <-. rewrite O0 in O1. inversion O1; subst din1.
    pose proof (f_le _ F j) as LE. unfold ncall in LE.
    destruct din; destruct X as [_ X]; destruct Y as [_ Y];
      pose proof (cnt_le1_uniq (hcall j) _ _ _ LE X Y) as E; simpl in E; rewrite Nat.eqb_refl in E;
      specialize (E eq_refl eq_refl); inversion E; reflexivity.
  - apply flatok_ncall in X. lia.
  - apply flatok_ncall in Y. lia.
  - eapply n_uniq; eauto.
Qed.

Lemma settle_hist f : forall th s t p s1 p1, settle f th s t p = (s1, p1) -> hist s1 = hist s.
Proof.
  induction f as [|f IH]; intros th s t p s1 p1 H; simpl in H.
  - inversion H; reflexivity.
  - destruct p as [|i r]; [inversion H; reflexivity|].
    destruct i; try (destruct th; [eapply IH in H; exact H | inversion H; reflexivity]);
      try (eapply IH in H; exact H);
      (destruct th; [eapply IH in H; exact H|]);
      destruct (mown s j) as [[o k]|]; try (inversion H; reflexivity).
    + destruct (Nat.eqb o t); [apply IH in H; exact H | inversion H; reflexivity].
    + destruct (Nat.eqb o t); [apply IH in H; exact H | inversion H; reflexivity].
    + destruct k as [|[|k]]; try (inversion H; reflexivity).
      destruct (Nat.eqb o t); [apply IH in H; exact H | inversion H; reflexivity].
    + destruct k as [|[|k]]; try (inversion H; reflexivity).
      destruct (Nat.eqb o t); [apply IH in H; exact H | inversion H; reflexivity].
Qed.

Lemma busy_nil j : busy j [] = false. Proof. reflexivity. Qed.

Lemma mapfut_no_lost : forall s, reachable s -> (forall t, thr s t = []) -> forall j, j < nfut s ->
  fdone (ms s j) = false ->
  exists d, tokP s j d /\
    ((In j (ecbs s d) /\ fdone (es s d) = false) \/ fcancelled (es s d) = true).
Proof.
  intros s R Q j L D. destruct (inv7_reach s R) as [I6 (E & N & CN)].
  destruct (N j L D) as [[t X]|[[d X]|(d & T & C)]].
  - rewrite Q in X. discriminate X.
  - exists d. split; [apply (o_ecbs _ (inv6_ol _ I6)); exact X|]. left. split; [exact X|].
    destruct (fdone (es s d)) eqn:Y; auto. rewrite (E d Y) in X. destruct X.
  - exists d. split; [exact T|right; exact C].
Qed.

(* the important half: the delegate j depends on finished with a value or an exception => j is done *)
Lemma mapfut_resolved_at_quiescence : forall s, reachable s -> (forall t, thr s t = []) -> forall j d, j < nfut s ->
  tokP s j d -> es s d = Finished -> fdone (ms s j) = true.
Proof.
  intros s R Q j d L T F. destruct (fdone (ms s j)) eqn:D; auto. exfalso.
  destruct (inv7_reach s R) as [I6 (_ & _ & CN)].
  destruct (mapfut_no_lost s R Q j L D) as (d' & T' & X).
  pose proof (tokP_unique _ _ _ _ (inv6_fn _ I6) CN T T') as <-.
  rewrite F in X. simpl in X. destruct X as [[_ X]|X]; discriminate X.
Qed.


(* C06 (b) assembled: True => an earlier granted delegate cancel on one of j's delegates *)
Lemma mapfut_cancel_forwards : forall s, reachable s -> forall l1 j l2,
  hist s = l1 ++ HCancelRet j true :: l2 ->
  exists d la lb, l2 = la ++ HDCancel j d true :: lb /\ attH (mkind s j) lb j d.
Proof.
  intros s R l1 j l2 E.
  pose proof (mapfut_cancel_true_cancelled_before s R _ _ _ E) as X.
  apply in_split in X. destruct X as (m1 & m2 & ->).
  assert (E2 : hist s = (l1 ++ HCancelRet j true :: m1) ++ HCancelled j :: m2) by (rewrite <- app_assoc; exact E).
  destruct (mapfut_cancelled_forwarded s R _ _ _ E2) as (d & Y).
  apply in_split in Y. destruct Y as (n1 & n2 & ->).
  exists d, (m1 ++ HCancelled j :: n1), n2. split; [rewrite <- app_assoc; reflexivity|].
  eapply (mapfut_dcancel_on_delegate s R ((l1 ++ HCancelRet j true :: m1) ++ HCancelled j :: n1)).
  rewrite <- app_assoc. exact E2.
Qed.

(* C06 (b), the forwarding step itself: a cancel() call that finds the future not done and attached to d
   has exactly one next move: d.cancel(), whose answer is logged *)
Lemma mapfut_cancel_forward_step : forall s t j rest pre s',
  thr s t = IDoneC j :: rest -> step s (EFM t 1 j pre) = Some s' -> fdone pre = false ->
  forall d, mdel s j = Some d -> thr s' t = IDCancel j d :: rest /\ hist s' = hist s.
Proof.
  intros s t j rest pre s' E H D d M. unfold step in H. rewrite E in H.
  destruct (negb (fstate_eqb pre (ms s j))); [discriminate H|].
  rewrite Nat.eqb_refl, D, M in H. simpl in H. inversion H; subst. simpl. rewrite upd_same. split; reflexivity.
Qed.
Lemma mapfut_dcancel_only_move : forall s t j d rest e s',
  thr s t = IDCancel j d :: rest -> step s e = Some s' -> tid e = t ->
  exists pre, e = EFE t 2 d pre /\ pre = es s d /\ hist s' = HDCancel j d (snd (f_cancel pre)) :: hist s.
Proof.
  intros s t j d rest e s' E H T. unfold step in H.
  destruct e; simpl in T; subst; rewrite ?E in H; try discriminate H.
  - destruct (negb (fstate_eqb pre (ms s j0))); [discriminate H|]. destruct op as [|[|[|[|[|[|[|op]]]]]]]; discriminate H.
  - destruct (fstate_eqb pre (es s d0)) eqn:P; [|discriminate H]. simpl in H. apply fstate_eqb_eq in P.
    destruct op as [|[|[|op]]]; try discriminate H.
    destruct (Nat.eqb d0 d) eqn:Ed; [|discriminate H]. apply Nat.eqb_eq in Ed. subst d0.
    exists pre. split; [reflexivity|]. split; [exact P|].
    destruct (f_cancel pre) as [n b] eqn:FC. simpl.
    destruct b; [destruct (f_cancel_fires pre)|]; inversion H; subst; unfold set_prog;
      match goal with |- context [settle ?f ?th ?s0 ?t0 ?p] => destruct (settle f th s0 t0 p) as [s1 p1] eqn:ES;
        pose proof (settle_hist _ _ _ _ _ _ _ ES) as HH end; simpl; rewrite HH; reflexivity.
Qed.
