(* Layer E8 (C03): a non-empty _delegate field is backed by a registration or a pending instruction;
   hence a lost future has _delegate = None at quiescence. *)
From Coq Require Import ZArith List Bool Arith Lia.
From RecordUpdate Require Import RecordSet.
From ME Require Import Base.Machine Base.Fut Base.GenPrelude Model.MapFut Model.MapLaw Proofs.MapFut_InvD Proofs.MapFut_E1 Proofs.MapFut_E2 Proofs.MapFut_E3 Proofs.MapFut_E4 Proofs.MapFut_E7.
Import ListNotations RecordSetNotations.

Definition bv (j d : nat) (i : instr) : bool := isAdd d j i || isAcqN j i.
Definition bvb (j d : nat) (p : list instr) : bool := existsb (bv j d) p.

Lemma bvb_app j d a b : bvb j d (a ++ b) = bvb j d a || bvb j d b.
Proof. apply existsb_app. Qed.
Lemma bvb_pre j d a r : bvb j d r = true -> bvb j d (a ++ r) = true.
Proof. intros H. rewrite bvb_app, H. apply orb_true_r. Qed.
Lemma bvb_fires_reg j d s d0 r : In j (ecbs s d0) -> bvb j d (fires s d0 r) = true.
Proof.
  intros X. unfold fires. rewrite bvb_app. apply orb_true_iff. left.
  induction (ecbs s d0) as [|a l IH]; [destruct X|]. simpl. destruct X as [->|X].
  - unfold bvb. simpl. unfold bv at 1. simpl. rewrite Nat.eqb_refl. reflexivity.
  - unfold bvb in *. simpl. rewrite (IH X). rewrite !orb_true_r. reflexivity.
Qed.
Lemma bvb_fires j d s d0 r : bvb j d r = true -> bvb j d (fires s d0 r) = true.
Proof. intros H. unfold fires. apply bvb_pre. exact H. Qed.

Definition Vd (s : st) : Prop := forall j d, mdel s j = Some d ->
  In j (ecbs s d) \/ exists t, bvb j d (thr s t) = true.

Lemma lstep_ecbs_keep_v s e s0 : lstep s e = Some s0 -> forall d j, In j (ecbs s d) ->
  In j (ecbs s0 d) \/ bvb j d (thr s0 (tid e)) = true.
Proof.
  intros H. step_cases H; intros d' j' X; simpl in *; auto.
  all: rewrite ?upd_same.
  all: try (usplit d0); try (usplit d); auto.
  all: try (left; apply in_or_app; left; exact X).
  all: right; apply bvb_fires_reg; exact X.
Qed.

Lemma lstep_bv_t s e s0 : lstep s e = Some s0 -> shape_all s -> forall j d,
  bvb j d (thr s (tid e)) = true ->
  bvb j d (thr s0 (tid e)) = true \/ In j (ecbs s0 d) \/ mdel s0 j = None.
Proof.
  intros H SH. pose proof (SH (tid e)) as Sh.
  step_cases H; intros j' d' X; simpl in *; try (rewrite Heql in X; simpl in X; discriminate X).
  all: rewrite ?upd_same; rewrite Heql in Sh, X; simpl in Sh.
  all: unfold bvb in X; simpl in X; unfold bv at 1 in X; simpl in X.
  all: try (left; apply bvb_fires; unfold bvb; simpl; exact X).
  all: try (left; apply bvb_pre; exact X).
  all: try (left; exact X).
  all: try (left; unfold bvb; simpl; rewrite X; rewrite ?orb_true_r; reflexivity).
  - destruct x as [dx|]; simpl in X; [left; exact X|].
    destruct (Nat.eqb j' j0) eqn:Ej; simpl in X; [apply Nat.eqb_eq in Ej; subst; right; right; apply upd_same|left; exact X].
  - destruct l as [|[] l']; try discriminate Sh; simpl in *; left; exact X.
  - destruct l as [|[] l']; try discriminate Sh; simpl in *; left; exact X.
  - destruct ((Nat.eqb d' d0) && (Nat.eqb j' j)) eqn:Ej; simpl in X.
    + apply andb_prop in Ej. destruct Ej as [E1 E2]. apply Nat.eqb_eq in E1, E2. subst.
      left. unfold bvb. simpl. unfold bv at 1. simpl. rewrite Nat.eqb_refl. reflexivity.
    + left. unfold bvb. simpl. rewrite X. rewrite !orb_true_r. reflexivity.
  - destruct ((Nat.eqb d' d0) && (Nat.eqb j' j)) eqn:Ej; simpl in X.
    + apply andb_prop in Ej. destruct Ej as [E1 E2]. apply Nat.eqb_eq in E1, E2. subst.
      right; left. rewrite upd_same. apply in_or_app; right; left; reflexivity.
    + left. exact X.
  - left. rewrite Heql. unfold bvb. simpl. exact X.
Qed.


Lemma shape3_acq_some s t j d fl r : shape3_all s -> thr s t = IAcqMSet j (Some d) fl :: r -> bvb j d r = true.
Proof.
  intros S3 E. pose proof (S3 t) as Sh. rewrite E in Sh. simpl in Sh.
  destruct r as [|[] [|tok r']]; try discriminate Sh.
  apply andb_prop in Sh. destruct Sh as [Sh _]. apply andb_prop in Sh. destruct Sh as [_ St].
  assert (B : bv j d tok = true) by (unfold bv; rewrite St; reflexivity).
  unfold bvb. apply existsb_exists. exists tok. split; [right; left; reflexivity|exact B].
Qed.

Lemma lstep_vd s e s0 : lstep s e = Some s0 -> shape_all s -> shape3_all s -> Vd s -> Vd s0.
Proof.
  intros H SH S3 V j d X.
  destruct (lstep_mdel_cases _ _ _ H j) as [[E NG]|[(E1 & E2 & _)|(x & fl & r & E1 & E2 & E3)]].
  - rewrite E in X. destruct (V j d X) as [Y|[t Y]].
    + destruct (lstep_ecbs_keep_v _ _ _ H d j Y) as [Z|Z]; eauto.
    + destruct (Nat.eq_dec t (tid e)) as [->|N].
      * destruct (lstep_bv_t _ _ _ H SH j d Y) as [Z|[Z|Z]]; eauto. rewrite E, X in Z. discriminate Z.
      * right. exists t. rewrite (lstep_thr_other _ _ _ H _ N). exact Y.
  - rewrite E2 in X. discriminate X.
  - right. exists (tid e). rewrite E3. rewrite E2 in X. subst x. eapply shape3_acq_some; eauto.
Qed.

Lemma sil_vd t s s' : sil t s s' -> shape3_all s -> Vd s -> Vd s'.
Proof.
  intros H S3 V j d X. destruct (sil_thr _ _ _ H) as (i & r & Et & Ho & Hr).
  destruct (sil_mdel_cases _ _ _ H j) as [[E NG]|(x & fl & r0 & E1 & E2 & E3)].
  - rewrite E in X. destruct (V j d X) as [Y|[t' Y]]; [left; rewrite (sil_ecbs _ _ _ H); exact Y|].
    right. exists t'. destruct (Nat.eq_dec t' t) as [->|N]; [|rewrite Ho by exact N; exact Y].
    rewrite Et in Y. unfold bvb in Y. simpl in Y.
    assert (HB : bv j d i = false).
    { unfold bv. destruct (isAdd d j i) eqn:A.
      - exfalso. inversion H; subst; rewrite (upd_eq_same _ _ _ _ H0) in Et; inversion Et; subst; discriminate A.
      - simpl. destruct (isAcqN j i) eqn:B; auto. exfalso.
        destruct i; try discriminate B. destruct x; try discriminate B. simpl in B. apply Nat.eqb_eq in B. subst j0.
        inversion H; subst; rewrite (upd_eq_same _ _ _ _ H0) in Et; inversion Et; subst.
        simpl in E. rewrite upd_same in E. rewrite <- E in X. discriminate X. }
    rewrite HB in Y. simpl in Y.
    destruct Hr as [->|(j0 & -> & ->)]; [exact Y|apply bvb_pre; exact Y].
  - right. exists t. rewrite E3. rewrite E2 in X. subst x. eapply shape3_acq_some; eauto.
Qed.

Definition Inv11 (s : st) : Prop := Inv10 s /\ Vd s.
Lemma linv11 : linv Inv11.
Proof.
  apply linv_and; [apply linv10|intros j d X; discriminate X| |].
  - intros s e s0 [[[I6 _] _] [S3 _]] _ V H. eapply lstep_vd; eauto. apply (inv6_shape _ I6).
  - intros t s s' [_ [S3 _]] _ V H. eapply sil_vd; eauto.
Qed.
Lemma inv11_reach s : reachable s -> Inv11 s.
Proof. apply linv_reach; [apply linv11|]. intros s0 H; apply H. Qed.

(* at quiescence a non-empty _delegate field means: registered on that delegate *)
Lemma mapfut_field_registered : forall s, reachable s -> (forall t, thr s t = []) -> forall j d,
  mdel s j = Some d -> In j (ecbs s d).
Proof.
  intros s R Q j d X. destruct (inv11_reach s R) as [_ V]. destruct (V j d X) as [Y|[t Y]]; [exact Y|].
  rewrite Q in Y. discriminate Y.
Qed.

(* C03 (d), exact shape *)
Lemma mapfut_no_lost_exact : forall s, reachable s -> (forall t, thr s t = []) -> forall j, j < nfut s ->
  fdone (ms s j) = false ->
  exists d, tokP s j d /\
    ((mdel s j = Some d /\ In j (ecbs s d) /\ fdone (es s d) = false) \/
     (mdel s j = None /\ (forall d', ~ In j (ecbs s d')) /\ fcancelled (es s d) = true)).
Proof.
  intros s R Q j L D. destruct (mapfut_no_lost_field s R Q j L D) as (d & T & [X|[X1 X2]]).
  - exists d. split; [exact T|left; exact X].
  - exists d. split; [exact T|right]. split; [|split; assumption].
    destruct (mdel s j) as [d'|] eqn:M; [|reflexivity]. exfalso. apply (X1 d'). apply (mapfut_field_registered s R Q j d' M).
Qed.
