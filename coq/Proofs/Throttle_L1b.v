(* C04 / Throttle, part 1b: throttle-future ids in programs, queue, callbacks are allocated; locks of
   unallocated futures are free. *)
From Coq Require Import ZArith List Bool Arith Lia.
From RecordUpdate Require Import RecordSet.
From ME Require Import Base.Machine Base.Fut Base.GenPrelude Gen.ThrottleGen Model.Throttle Proofs.Throttle_Inv.
Import ListNotations RecordSetNotations.

Definition fok (n : nat) (i : instr) : bool :=
  match i with
  | IAcqM j | IAcqMSet j _ | IDSubmit j | IAddCb2 _ j | IDCancelledQ j _ | IDoneQ j => j <? n
  | _ => true
  end.
Definition fbound (n : nat) (p : list instr) : bool := forallb (fok n) p.
Definition qb (n : nat) (l : list nat) : bool := forallb (fun j => j <? n) l.
Definition cbok (n : nat) (c : cbk) : bool := match c with CbDone => true | CbRes j => j <? n end.

Record InvB (s : st) : Prop := {
  b_prog : forall t, fbound (nfut s) (thr s t) = true;
  b_qu : qb (nfut s) (qu s) = true;
  b_hadm : qb (nfut s) (hadm s) = true;
  b_dcbs : forall d, forallb (cbok (nfut s)) (dcbs s d) = true;
  b_mown : forall j, nfut s <= j -> mown s j = None
}.

Lemma fbound_app n p q : fbound n (p ++ q) = fbound n p && fbound n q.
Proof. apply forallb_app. Qed.
Lemma ltb_mono a n n' : n <= n' -> (a <? n) = true -> (a <? n') = true.
Proof. intros Hle Hx. apply Nat.ltb_lt in Hx. apply Nat.ltb_lt. lia. Qed.
Lemma fbound_mono n n' p : n <= n' -> fbound n p = true -> fbound n' p = true.
Proof.
  intros Hle. induction p as [|i r IH]; simpl; auto. intros Hx. apply andb_prop in Hx. destruct Hx as [A B].
  rewrite (IH B), andb_true_r. destruct i; simpl in *; auto; eapply ltb_mono; eauto.
Qed.
Lemma qb_mono n n' l : n <= n' -> qb n l = true -> qb n' l = true.
Proof.
  intros Hle. induction l as [|i r IH]; simpl; auto. intros Hx. apply andb_prop in Hx. destruct Hx as [A B].
  rewrite (IH B), (ltb_mono _ _ _ Hle A). reflexivity.
Qed.
Lemma cbs_mono n n' l : n <= n' -> forallb (cbok n) l = true -> forallb (cbok n') l = true.
Proof.
  intros Hle. induction l as [|i r IH]; simpl; auto. intros Hx. apply andb_prop in Hx. destruct Hx as [A B].
  rewrite (IH B), andb_true_r. destruct i; simpl in *; auto; eapply ltb_mono; eauto.
Qed.
Lemma fbound_norm n s p : fbound n p = true -> fbound n (norm s p) = true.
Proof.
  destruct p as [|i r]; [auto|]. destruct i; auto. simpl. intros Hx.
  destruct (qu s); [exact Hx|]. destruct (hlim s); exact Hx.
Qed.
Lemma fbound_map_dsubmit n l : qb n l = true -> fbound n (map IDSubmit l) = true.
Proof. induction l as [|a l IH]; simpl; auto. intros Hx. apply andb_prop in Hx. destruct Hx as [A B]. rewrite A, (IH B). reflexivity. Qed.
Lemma fbound_cb_prog n d l : forallb (cbok n) l = true -> fbound n (flat_map (cb_prog d) l) = true.
Proof.
  induction l as [|c l IH]; [reflexivity|]. simpl. intros Hx. apply andb_prop in Hx. destruct Hx as [A B].
  rewrite fbound_app, (IH B). destruct c; simpl in *; [reflexivity|]. rewrite A. reflexivity.
Qed.
Lemma fbound_cb_prog_held n d l : forallb (cbok n) l = true -> fbound n (flat_map (cb_prog_held d) l) = true.
Proof.
  induction l as [|c l IH]; [reflexivity|]. simpl. intros Hx. apply andb_prop in Hx. destruct Hx as [A B].
  rewrite fbound_app, (IH B). destruct c; simpl in *; [reflexivity|]. rewrite A. reflexivity.
Qed.
Lemma fbound_setres n j o : (j <? n) = true -> fbound n (setres_prog j o) = true.
Proof. intros Hj. destruct o; simpl; rewrite ?Hj; reflexivity. Qed.
Lemma qb_remove n x l : qb n l = true -> qb n (remove_id x l) = true.
Proof.
  induction l as [|i r IH]; simpl; auto. intros Hx. apply andb_prop in Hx. destruct Hx as [A B].
  destruct (negb (Nat.eqb i x)); simpl; rewrite ?A; auto.
Qed.

Lemma invB_log s h : InvB s -> InvB (log s h).
Proof. intros [B1 B2 B3 B4 B5]. constructor; simpl; auto. Qed.
Lemma invB_set s s1 t p :
  InvB s -> thr s1 = thr s -> nfut s1 = nfut s -> qb (nfut s) (qu s1) = true -> qb (nfut s) (hadm s1) = true ->
  (forall d, forallb (cbok (nfut s)) (dcbs s1 d) = true) -> (forall j, nfut s <= j -> mown s1 j = None) ->
  fbound (nfut s) p = true -> InvB (set_prog s1 t p).
Proof.
  intros [B1 B2 B3 B4 B5] Ht Hn Hq Hh Hd Hm Hp. unfold set_prog. constructor; simpl; rewrite ?Hn; auto.
  intros u. rewrite Ht. destruct (Nat.eq_dec u t) as [->|Hne]; [rewrite upd_same; apply fbound_norm; exact Hp|].
  rewrite upd_other by exact Hne. apply B1.
Qed.
Lemma invB_sub_check s s1 t v rest :
  InvB s -> thr s1 = thr s -> nfut s1 = nfut s -> qb (nfut s) (qu s1) = true -> qb (nfut s) (hadm s1) = true ->
  (forall d, forallb (cbok (nfut s)) (dcbs s1 d) = true) -> (forall j, nfut s <= j -> mown s1 j = None) ->
  fbound (nfut s) rest = true -> InvB (sub_check s1 t v rest).
Proof.
  intros IB Ht Hn Hq Hh Hd Hm Hp. unfold sub_check.
  destruct (blk s1 && negb (shut s1)); [destruct (block_ready (qlen s1) v) as [[|]|]|];
    repeat apply invB_log; apply (invB_set s); auto; simpl; rewrite ?fbound_app, ?Hp; reflexivity.
Qed.
Lemma invB_after_wait s s1 t k rest :
  InvB s -> thr s1 = thr s -> nfut s1 = nfut s -> qb (nfut s) (qu s1) = true -> qb (nfut s) (hadm s1) = true ->
  (forall d, forallb (cbok (nfut s)) (dcbs s1 d) = true) -> (forall j, nfut s <= j -> mown s1 j = None) ->
  fbound (nfut s) rest = true -> InvB (after_wait s1 t k rest).
Proof. intros. destruct k; simpl; [apply (invB_set s)|apply (invB_sub_check s)]; auto. Qed.
Lemma invB_start_iter s s1 t :
  InvB s -> thr s1 = thr s -> nfut s1 = nfut s -> qb (nfut s) (qu s1) = true -> qb (nfut s) (hadm s1) = true ->
  (forall d, forallb (cbok (nfut s)) (dcbs s1 d) = true) -> (forall j, nfut s <= j -> mown s1 j = None) ->
  InvB (start_iter s1 t).
Proof. intros. unfold start_iter. destruct (shut s1); [|destruct (dyn s1)]; apply (invB_set s); auto. Qed.

Ltac bsplit Hs :=
  simpl in Hs;
  repeat match type of Hs with _ && _ = true => let A := fresh "Ha" in apply andb_prop in Hs; destruct Hs as [A Hs] end.
Ltac bgoal IB :=
  let Hs := fresh "Hs" in
  repeat match goal with
  | E : negb (Nat.eqb _ _) = false |- _ => apply negb_false_iff in E; apply Nat.eqb_eq in E; subst
  | E : negb (Nat.eqb _ _) || _ = false |- _ => apply orb_false_elim in E; destruct E as [E _]
  end;
  match goal with Et : thr _ ?t = _ :: _ |- _ => pose proof (b_prog _ IB t) as Hs; rewrite Et in Hs end;
  bsplit Hs;
  simpl; rewrite ?fbound_app; simpl;
  repeat match goal with A : (_ <? _) = true |- _ => rewrite ?A, ?(fbound_setres _ _ _ A); clear A end;
  rewrite ?fbound_app, ?Hs; simpl; rewrite ?Hs; reflexivity.
Ltac bside IB := first [ exact IB | reflexivity | exact (b_qu _ IB) | exact (b_hadm _ IB) | exact (b_dcbs _ IB) | exact (b_mown _ IB) | bgoal IB ].
Ltac bfin IB s :=
  repeat match goal with |- InvB (log _ _) => apply invB_log end;
  first [ apply (invB_set s) | apply (invB_sub_check s) | apply (invB_after_wait s) | apply (invB_start_iter s) ]; bside IB.
Ltac bhandler IB Hx s := brk Hx; inv_some Hx; bfin IB s.
Lemma do_hstart_invB s  s' : InvB s -> do_hstart s  = Some s' -> InvB s'.
Proof. intros IB Hx. unfold do_hstart in Hx. bhandler IB Hx s. Qed.
Lemma do_exit_invB s  s' : InvB s -> do_exit s  = Some s' -> InvB s'.
Proof. intros IB Hx. unfold do_exit in Hx. bhandler IB Hx s. Qed.
Lemma do_call_submit_invB s t s' : InvB s -> do_call_submit s t = Some s' -> InvB s'.
Proof. intros IB Hx. unfold do_call_submit in Hx. bhandler IB Hx s. Qed.
Lemma do_call_shutdown_invB s t w s' : InvB s -> do_call_shutdown s t w = Some s' -> InvB s'.
Proof. intros IB Hx. unfold do_call_shutdown in Hx. bhandler IB Hx s. Qed.
Lemma do_ret_invB s t c s' : InvB s -> do_ret s t c = Some s' -> InvB s'.
Proof. intros IB Hx. unfold do_ret in Hx. bhandler IB Hx s. Qed.
Lemma do_acq_g_invB s t s' : InvB s -> do_acq_g s t = Some s' -> InvB s'.
Proof. intros IB Hx. unfold do_acq_g in Hx. bhandler IB Hx s. Qed.
Lemma do_rel_g_invB s t s' : InvB s -> do_rel_g s t = Some s' -> InvB s'.
Proof. intros IB Hx. unfold do_rel_g in Hx. bhandler IB Hx s. Qed.
Lemma do_count_invB s t a s' : InvB s -> do_count s t a = Some s' -> InvB s'.
Proof. intros IB Hx. unfold do_count in Hx. bhandler IB Hx s. Qed.
Lemma do_rcread_invB s t x s' : InvB s -> do_rcread s t x = Some s' -> InvB s'.
Proof. intros IB Hx. unfold do_rcread in Hx. bhandler IB Hx s. Qed.
Lemma do_acq_a_invB s t s' : InvB s -> do_acq_a s t = Some s' -> InvB s'.
Proof. intros IB Hx. unfold do_acq_a in Hx. bhandler IB Hx s. Qed.
Lemma do_rel_a_invB s t s' : InvB s -> do_rel_a s t = Some s' -> InvB s'.
Proof. intros IB Hx. unfold do_rel_a in Hx. bhandler IB Hx s. Qed.
Lemma do_evset_invB s t s' : InvB s -> do_evset s t = Some s' -> InvB s'.
Proof. intros IB Hx. unfold do_evset in Hx. bhandler IB Hx s. Qed.
Lemma do_clear_invB s t s' : InvB s -> do_clear s t = Some s' -> InvB s'.
Proof. intros IB Hx. unfold do_clear in Hx. bhandler IB Hx s. Qed.
Lemma do_dshutdown_invB s t s' : InvB s -> do_dshutdown s t = Some s' -> InvB s'.
Proof. intros IB Hx. unfold do_dshutdown in Hx. bhandler IB Hx s. Qed.
Lemma do_woke_invB s t k s' : InvB s -> do_woke s t k = Some s' -> InvB s'.
Proof. intros IB Hx. unfold do_woke in Hx. bhandler IB Hx s. Qed.
Lemma do_wait_invB s t r s' : InvB s -> do_wait s t r = Some s' -> InvB s'.
Proof. intros IB Hx. unfold do_wait in Hx. bhandler IB Hx s. Qed.
Lemma do_fm_invB s t op j p s' : InvB s -> do_fm s t op j p = Some s' -> InvB s'.
Proof. intros IB Hx. unfold do_fm in Hx. bhandler IB Hx s. Qed.
Lemma do_call_cancel_invB s t j s' : InvB s -> do_call_cancel s t j = Some s' -> InvB s'.
Proof.
  intros IB Hx. unfold do_call_cancel in Hx. brk Hx. inv_some Hx.
  match goal with E : _ && _ = true |- _ => apply andb_prop in E; destruct E as [_ E] end.
  apply (invB_set s); try bside IB. simpl. rewrite Heqb0 || idtac. simpl.
  match goal with E : (j <? nfut s) = true |- _ => rewrite E end. reflexivity.
Qed.
Lemma do_new_invB s b dy v s' : InvB s -> do_new s b dy v = Some s' -> InvB s'.
Proof.
  intros [B1 B2 B3 B4 B5] Hx. unfold do_new in Hx. brk Hx. inv_some Hx. constructor; simpl; auto.
  intros u. destruct (Nat.eq_dec u H) as [->|Hn]; [rewrite upd_same; reflexivity|rewrite upd_other by exact Hn; apply B1].
Qed.
Lemma do_env_run_invB s t d p s' : InvB s -> do_env_run s t d p = Some s' -> InvB s'.
Proof. intros [B1 B2 B3 B4 B5] Hx. unfold do_env_run in Hx. brk Hx; inv_some Hx; constructor; simpl; auto. Qed.
Lemma do_env_finish_invB s t d p o s' : InvB s -> do_env_finish s t d p o = Some s' -> InvB s'.
Proof.
  intros IB Hx. unfold do_env_finish in Hx. brk Hx; inv_some Hx; auto.
  apply invB_log. apply (invB_set s); try bside IB.
  - intros d0. simpl. unfold upd. destruct (Nat.eqb d0 d); [reflexivity|apply (b_dcbs _ IB)].
  - apply fbound_cb_prog. apply (b_dcbs _ IB).
Qed.
Lemma do_xacq_invB s t s' : InvB s -> do_xacq s t = Some s' -> InvB s'.
Proof. intros IB Hx. unfold do_xacq in Hx. brk Hx. inv_some Hx. apply (invB_set s); try bside IB. Qed.
Lemma do_relx_invB s t s' : InvB s -> do_relx s t = Some s' -> InvB s'.
Proof.
  intros IB Hx. unfold do_relx in Hx. brk Hx. inv_some Hx. apply (invB_set s); try bside IB.
  pose proof (b_prog _ IB t) as Hs. match goal with Et : thr _ t = _ :: _ |- _ => rewrite Et in Hs end. simpl in Hs.
  rewrite fbound_app, (fbound_map_dsubmit _ _ (b_hadm _ IB)). simpl. exact Hs.
Qed.
Lemma do_pop_invB s t s' : InvB s -> do_pop s t = Some s' -> InvB s'.
Proof.
  intros IB Hx. unfold do_pop in Hx. brk Hx. inv_some Hx.
  pose proof (b_qu _ IB) as Hq. match goal with E : qu s = _ |- _ => rewrite E in Hq end. simpl in Hq.
  apply andb_prop in Hq. destruct Hq as [Hj Hq].
  apply invB_log. apply (invB_set s); try bside IB.
  all: first [ exact Hq
             | simpl; unfold qb; rewrite forallb_app; fold (qb (nfut s) (hadm s)); rewrite (b_hadm _ IB); simpl; rewrite Hj; reflexivity ].
Qed.
Lemma do_acq_m_invB s t j s' : InvB s -> do_acq_m s t j = Some s' -> InvB s'.
Proof.
  intros IB Hx. unfold do_acq_m in Hx. brk Hx; inv_some Hx;
    match goal with E : Nat.eqb _ _ = true |- _ => apply Nat.eqb_eq in E; subst end;
    pose proof (b_prog _ IB t) as Hs; match goal with Et : thr _ t = _ :: _ |- _ => rewrite Et in Hs end;
    simpl in Hs; apply andb_prop in Hs; destruct Hs as [Hj Hs]; apply Nat.ltb_lt in Hj;
    apply (invB_set s); try bside IB; try exact Hs;
    intros jj Hle; simpl; unfold upd; (destruct (Nat.eqb jj _) eqn:E; [apply Nat.eqb_eq in E; lia|apply (b_mown _ IB); exact Hle]).
Qed.
Lemma do_rel_m_invB s t j s' : InvB s -> do_rel_m s t j = Some s' -> InvB s'.
Proof.
  intros IB Hx. unfold do_rel_m in Hx. brk Hx; inv_some Hx;
    apply (invB_set s); try bside IB;
    intros jj Hle; simpl; unfold upd; (destruct (Nat.eqb jj _); [reflexivity|apply (b_mown _ IB); exact Hle]).
Qed.
Lemma do_xsec_invB s t s' : InvB s -> do_xsec s t = Some s' -> InvB s'.
Proof.
  intros IB Hx. unfold do_xsec in Hx. brk Hx; inv_some Hx; [| |bfin IB s].
  - (* enqueue: a new future id *)
    pose proof (b_prog _ IB t) as Hs. match goal with Et : thr _ t = _ :: _ |- _ => rewrite Et in Hs end. simpl in Hs.
    destruct IB as [B1 B2 B3 B4 B5]. apply invB_log. unfold set_prog. constructor; simpl.
    + intros u. destruct (Nat.eq_dec u t) as [->|Hne]; [rewrite upd_same|rewrite upd_other by exact Hne];
        apply (fbound_mono (nfut s)); auto.
    + unfold qb. rewrite forallb_app. fold (qb (S (nfut s)) (qu s)). rewrite (qb_mono (nfut s)) by auto. simpl.
      rewrite (proj2 (Nat.ltb_lt _ _) (Nat.lt_succ_diag_r _)). reflexivity.
    + apply (qb_mono (nfut s)); auto.
    + intros d. apply (cbs_mono (nfut s)); auto.
    + intros j Hle. unfold upd. destruct (Nat.eqb j (nfut s)); [reflexivity|apply B5; lia].
  - apply invB_log. apply (invB_set s); try bside IB. simpl. apply qb_remove. apply (b_qu _ IB).
Qed.
Lemma do_dsubmit_invB s t d i s' : InvB s -> do_dsubmit s t d i = Some s' -> InvB s'.
Proof.
  intros IB Hx. unfold do_dsubmit in Hx. brk Hx; inv_some Hx; apply (invB_set s); try bside IB;
    intros dd; simpl; unfold upd; (destruct (Nat.eqb dd _); [reflexivity|apply (b_dcbs _ IB)]).
Qed.
Lemma clear_del_bview l : forall s,
  thr (clear_del s l) = thr s /\ nfut (clear_del s l) = nfut s /\ qu (clear_del s l) = qu s /\ hadm (clear_del s l) = hadm s /\
  dcbs (clear_del s l) = dcbs s /\ mown (clear_del s l) = mown s.
Proof.
  unfold clear_del. induction l as [|c l IH]; intros s; simpl; [auto 7|].
  destruct (IH (match c with CbDone => s | CbRes j => s <| mdel := upd (mdel s) j None |> end)) as [A [B [C [D [E F]]]]].
  rewrite A, B, C, D, E, F. destruct c; simpl; auto 7.
Qed.
Lemma forallb_snoc {A} (f : A -> bool) l x : forallb f l = true -> f x = true -> forallb f (l ++ [x]) = true.
Proof. intros Hl Hx. rewrite forallb_app, Hl. simpl. rewrite Hx. reflexivity. Qed.
Lemma do_fd_invB s t op d p s' : InvB s -> do_fd s t op d p = Some s' -> InvB s'.
Proof.
  intros IB Hx. unfold do_fd in Hx. brk Hx; inv_some Hx; try solve [bfin IB s];
    pose proof (b_prog _ IB t) as Hs; (match goal with Et : thr _ t = _ :: _ |- _ => rewrite Et in Hs end).
  - apply (invB_set s); try bside IB.
    all: intros dd; simpl; unfold upd; (destruct (Nat.eqb dd _); [apply forallb_snoc; [apply (b_dcbs _ IB)|reflexivity]|apply (b_dcbs _ IB)]).
  - bsplit Hs. apply (invB_set s); try bside IB.
    all: first [ exact Hs
               | intros dd; simpl; unfold upd; (destruct (Nat.eqb dd _); [apply forallb_snoc; [apply (b_dcbs _ IB)|assumption]|apply (b_dcbs _ IB)]) ].
  - apply invB_log. simpl in Hs.
    match goal with |- InvB (set_prog (clear_del ?x ?l) _ _) => destruct (clear_del_bview l x) as [A [B [C [D [E F]]]]] end.
    apply (invB_set s); rewrite ?A, ?B, ?C, ?D, ?E, ?F; try bside IB.
    all: first [ intros dd; simpl; unfold upd; (destruct (Nat.eqb dd _); [reflexivity|apply (b_dcbs _ IB)])
               | rewrite fbound_app, fbound_cb_prog_held by apply (b_dcbs _ IB); simpl; exact Hs ].
Qed.

Lemma step0_invB s e s' : InvB s -> step0 s e = Some s' -> InvB s'.
Proof.
  intros IB Hx. destruct e; cbn [step0] in Hx;
  [ eapply do_new_invB | eapply do_hstart_invB | eapply do_exit_invB | eapply do_call_submit_invB
  | eapply do_call_cancel_invB | eapply do_call_shutdown_invB | eapply do_ret_invB | eapply do_acq_g_invB
  | eapply do_rel_g_invB | eapply do_count_invB | eapply do_xsec_invB | eapply do_xacq_invB | eapply do_relx_invB
  | eapply do_rcread_invB | eapply do_pop_invB | eapply do_acq_a_invB | eapply do_rel_a_invB | eapply do_evset_invB
  | eapply do_wait_invB | eapply do_woke_invB | eapply do_clear_invB | eapply do_dsubmit_invB | eapply do_dshutdown_invB
  | eapply do_acq_m_invB | eapply do_rel_m_invB | eapply do_fm_invB | eapply do_fd_invB | eapply do_env_run_invB
  | eapply do_env_finish_invB ]; eassumption.
Qed.
Lemma invB_reachable s : reachable_from step init s -> InvB s.
Proof.
  apply invariant_rule; [constructor; simpl; auto|].
  intros s0 [ts e] s' IB Hx. unfold step in Hx. simpl in Hx.
  destruct (tick s0 ts) as [s1|] eqn:Et; [|discriminate].
  eapply step0_invB; [|exact Hx].
  unfold tick in Et. destruct (Z.leb (clock s0) ts); inv_some Et. destruct IB as [B1 B2 B3 B4 B5]. constructor; simpl; auto.
Qed.
