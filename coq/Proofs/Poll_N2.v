(* C03 for the Poll machine, part 2: deregistration happens only for a done future.
   [dprog D p]: scanning program p, every IRelMCbs j / IXDereg j is reached with j in D, where D starts as
   the set of done poll futures and grows by j at IFCancel j (a cancel() that gets there succeeds).
   Consequences: _executor is cleared (pexec = false) only for a done future. *)
From Coq Require Import ZArith List Bool Arith Lia.
From RecordUpdate Require Import RecordSet.
From ME Require Import Base.Machine Base.Fut Base.GenPrelude Model.Poll Proofs.Poll_Inv Proofs.Poll_Raise
     Proofs.Poll_NoDup Proofs.Poll_N1.
Import ListNotations RecordSetNotations.

Fixpoint dprog (D : nat -> Prop) (p : list instr) : Prop :=
  match p with
  | [] => True
  | IFCancel j :: r => dprog (fun k => k = j \/ D k) r
  | IRelMCbs j :: r | IXDereg j :: r => D j /\ dprog D r
  | _ :: r => dprog D r
  end.

Lemma dprog_mono (D D' : nat -> Prop) p : (forall k, D k -> D' k) -> dprog D p -> dprog D' p.
Proof.
  revert D D'. induction p as [|i r IH]; intros D D' Hm; simpl; [auto|].
  destruct i; try (apply IH; exact Hm); try (intros [H1 H2]; split; [apply Hm, H1|eapply IH; eauto]).
  apply IH. intros k [Hk|Hk]; [left; exact Hk|right; apply Hm, Hk].
Qed.

Lemma dprog_cancel_cont D s j r : dprog D r -> dprog D (cancel_cont s j ++ r).
Proof.
  intros H. unfold cancel_cont, cancel_no, cancel_ok.
  destruct (negb (pexec s j)); [exact H|]. 
  assert (Hok : dprog D ([IFCancel j; IFSrnc j; IRelMCbs j; IRetB true] ++ r)).
  { simpl. split; [left; reflexivity|]. eapply dprog_mono; [|exact H]. intros k Hk; right; exact Hk. }
  destruct (negb (hascfn s)); [exact Hok|]. destruct (lookup j (descs s)); [exact H|exact Hok].
Qed.
Lemma dprog_norm D s p : dprog D p -> dprog D (norm s p).
Proof. destruct p as [|i r]; [auto|]. destruct i; auto. simpl. apply dprog_cancel_cont. Qed.
Lemma dprog_raise D e (sn : list (nat * nat)) : dprog D (flat_map (fun p => exc_prog (fst p) e) sn).
Proof. induction sn; simpl; auto. Qed.
Lemma fcancel_true_done s n : f_cancel s = (n, true) -> fdone n = true.
Proof. destruct s; simpl; intros H; inversion H; reflexivity. Qed.

Definition Dn (s : st) : nat -> Prop := fun j => fdone (ps s j) = true.

Record InvD (s : st) : Prop := {
  id_prog : forall t, dprog (Dn s) (thr s t);
  id_exec : forall j, j < nfut s -> pexec s j = false -> fdone (ps s j) = true
}.

Lemma invd_init : InvD init.
Proof. constructor; simpl; intros; [exact I|lia]. Qed.

(* done poll futures stay done across the stdlib transition of the step *)
Ltac done_mono :=
  let k := fresh "k" in let Hk := fresh "Hk" in
  intros k Hk; unfold Dn in *; simpl in *; unfold upd in *;
  try (destruct Hk as [Hk|Hk]; [subst k; rewrite ?Nat.eqb_refl|]);
  bools; cleanup; fst_eqs;
  solve [ assumption | auto | congruence
        | eapply fcancel_done_keeps; eassumption | eapply fsrnc_done_keeps; eassumption
        | eapply fset_done; eassumption
        | eapply fcancel_true_done; eassumption ].

Ltac gD_prog Ip :=
  let t0 := fresh "t0" in intros t0; pose proof (Ip t0) as Hc0;
  try match goal with
  | E : thr ?s ?t = _ |- _ =>
      let Hc := fresh "Hc" in pose proof (Ip t) as Hc; rewrite E in Hc; simpl in Hc
  end;
  try match goal with |- context [upd (thr _) ?t _ t0] =>
    destruct (Nat.eq_dec t0 t) as [Heq|Hne];
    [ subst t0; rewrite (upd_same _ t); try apply dprog_norm; try apply dprog_cancel_cont
    | rewrite (upd_other _ t _ t0) by assumption ]
  end;
  try match goal with |- context [yield_prog _ ?o] => destruct o end;
  try match goal with |- context [if ?c then [IXDereg _] else []] => destruct c end;
  simpl; try apply dprog_raise;
  repeat match goal with
  | H : _ /\ _ |- _ => destruct H
  | |- _ /\ _ => split
  end;
  try solve [ exact I | assumption
            | unfold Dn in *; simpl; rewrite ?upd_same; 
              solve [ assumption | reflexivity | auto | eapply fset_done; eassumption | left; reflexivity ]
            | eapply dprog_mono; [|eassumption]; done_mono ].

Ltac gD_exec Ip Ie :=
  let j0 := fresh "j0" in let Hl := fresh "Hl" in let Hx := fresh "Hx" in
  try match goal with
  | E : thr ?s ?t = _ |- _ =>
      let Hc := fresh "Hc" in pose proof (Ip t) as Hc; rewrite E in Hc; simpl in Hc; unfold Dn in Hc
  end;
  intros j0 Hl Hx; unfold upd in *; bools; cleanup; fst_eqs;
  try solve [ auto | congruence | tauto | apply Ie; [lia|assumption]
            | eapply fcancel_true_done; eassumption | eapply fset_done; eassumption
            | eapply fsrnc_done_keeps; [eassumption|]; first [tauto | apply Ie; [lia|assumption]]
            | eapply fcancel_done_keeps; [eassumption|]; first [tauto | apply Ie; [lia|assumption]] ].

Ltac invd_fin Ip Ie := constructor; simpl in *; [ try solve [gD_prog Ip] | try solve [gD_exec Ip Ie] ].

Lemma invd_step s e s' : InvD s -> step s e = Some s' -> InvD s'.
Proof.
  destruct e as [ts e]. intros I H. apply step_inv in H. destruct H as [s1 [Ht H]].
  assert (I1 : InvD s1).
  { apply tick_inv in Ht. destruct Ht as [[-> _]|[-> _]]; [exact I|]. destruct I; constructor; simpl; auto. }
  clear I Ht s. destruct I1 as [Ip Ie].
  apply step0_inv in H. destruct H as [[c [d [-> [_ ->]]]]|[_ [H|[H|H]]]].
  - constructor; simpl; auto.
  - open1 H; norm_eqs; invd_fin Ip Ie.
  - open2 H; norm_eqs; invd_fin Ip Ie.
  - open3 H; norm_eqs; invd_fin Ip Ie.
Qed.
