(* The general theorem at the level of the IR terms (one loop + a list of producer sites, any channel), and its
   instances for the four loops and their producer sets REGENERATED from the source (Gen/LoopSkel.v):
   good_loop / good_prod evaluate to true by computation on the generated terms. *)
From Coq Require Import List Bool Arith Lia String.
From ME Require Import Base.Machine Model.EventLoop Model.LoopIR Proofs.LoopIR_Sim Gen.LoopSkel.
Import ListNotations.

Lemma good_loop_all_c l c : good_loop_all l = true -> good_loop c l = true.
Proof.
  unfold good_loop_all. intros H. apply andb_true_iff in H. destruct H as [H H3].
  apply andb_true_iff in H. destruct H as [H1 H2]. destruct c; assumption.
Qed.

Lemma good_prod_all_c ps c : forallb good_prod_all ps = true -> good_prods c ps = true.
Proof.
  unfold good_prods. intros H. apply forallb_forall. intros p I.
  rewrite forallb_forall in H. specialize (H p I). unfold good_prod_all in H.
  apply andb_true_iff in H. destruct H as [H H3]. apply andb_true_iff in H. destruct H as [H1 H2].
  destruct c; assumption.
Qed.

Section Inst.
  Variable l : list litem.
  Variable ps : list (list pitem).
  Hypothesis GL : good_loop_all l = true.
  Hypothesis GP : forallb good_prod_all ps = true.
  Variable c : chan.
  Variable o : oracle.

  Let GW : good_wpaths (wpaths c l) = true := good_loop_all_c l c GL.
  Let GQ : good_ppaths (all_ppaths c ps) = true := good_prods_paths c ps (good_prod_all_c ps c GP).

  Theorem inst_trace_inclusion tr s : run (istep c l ps o) linit tr = Some s ->
    exists s', run step init tr = Some s' /\ R s s'.
  Proof. exact (trace_inclusion _ _ o GW GQ tr s). Qed.

  Theorem inst_no_lost_wakeup s tm : reachable_from (istep c l ps o) linit s ->
    lblk s = Some (false, tm) -> lwork s > 0 -> exists t, In PASet (pres s t).
  Proof. exact (l_no_lost_wakeup _ _ o GW GQ s tm). Qed.

  Theorem inst_quiescent_no_unseen_work s tm : reachable_from (istep c l ps o) linit s ->
    lblk s = Some (false, tm) -> (forall t, pres s t = []) -> lwork s = 0.
  Proof. exact (l_quiescent_no_unseen_work _ _ o GW GQ s tm). Qed.

  Theorem inst_blocked_flag_clear s tm : reachable_from (istep c l ps o) linit s ->
    lblk s = Some (false, tm) -> lflag s = false.
  Proof. exact (l_blocked_flag_clear _ _ o GW GQ s tm). Qed.
End Inst.

(* ---- (c) the generated terms satisfy the predicates: by computation -------------------------------------- *)
Lemma retry_loop_good : good_loop_all retry_loop = true.        Proof. vm_compute. reflexivity. Qed.
Lemma poll_loop_good : good_loop_all poll_loop = true.          Proof. vm_compute. reflexivity. Qed.
Lemma throttle_loop_good : good_loop_all throttle_loop = true.  Proof. vm_compute. reflexivity. Qed.
Lemma timeout_loop_good : good_loop_all timeout_loop = true.    Proof. vm_compute. reflexivity. Qed.

Lemma retry_producers_good : forallb good_prod_all retry_producers = true.        Proof. vm_compute. reflexivity. Qed.
Lemma poll_producers_good : forallb good_prod_all poll_producers = true.          Proof. vm_compute. reflexivity. Qed.
Lemma throttle_producers_good : forallb good_prod_all throttle_producers = true.  Proof. vm_compute. reflexivity. Qed.
Lemma timeout_producers_good : forallb good_prod_all timeout_producers = true.    Proof. vm_compute. reflexivity. Qed.

(* the generated loops really wait and really are woken by their producers: each has a waiting path on every
   channel and each producer set has a mutate-then-set path on the work channel (the predicates are not
   satisfied vacuously by empty path sets) *)
Definition has_wait (WP : list (list wact)) : bool :=
  existsb (fun p => existsb (fun x => match x with WAWait _ => true | _ => false end) p) WP.
Definition has_mut_set (PP : list (list pact)) : bool :=
  existsb (fun p => match p with PAMut :: r => existsb (fun x => match x with PASet => true | _ => false end) r | _ => false end) PP.
Definition substantive (l : list litem) (ps : list (list pitem)) : bool :=
  has_wait (wpaths CJobs l) && has_wait (wpaths CShutdown l) && has_wait (wpaths CAlive l)
  && has_mut_set (all_ppaths CJobs ps) && has_mut_set (all_ppaths CShutdown ps) && has_mut_set (all_ppaths CAlive ps).

Lemma retry_substantive : substantive retry_loop retry_producers = true.          Proof. vm_compute. reflexivity. Qed.
Lemma poll_substantive : substantive poll_loop poll_producers = true.             Proof. vm_compute. reflexivity. Qed.
Lemma throttle_substantive : substantive throttle_loop throttle_producers = true. Proof. vm_compute. reflexivity. Qed.
Lemma timeout_substantive : substantive timeout_loop timeout_producers = true.    Proof. vm_compute. reflexivity. Qed.
