(* Link between the reference evaluator of C01 (Model/Stack.v) and the component laws the machines are
   proved against: MapLaw (map / flat_map / chains) and the regenerated retry kernel (Gen/RetryGen.v). *)
From Coq Require Import List ZArith Bool Arith Lia.
From ME Require Import Base.GenPrelude Model.MapFut Model.MapLaw Proofs.MapLaw_Proofs Gen.RetryGen Proofs.Retry_Spec.
From ME Require Model.Stack.
Import ListNotations.

(* ---- value embedding ------------------------------------------------------------------------ *)
Definition inj (o : Stack.outcome) : outcome :=
  match o with Stack.Ok v => Ok (Z.to_nat v) | Stack.Err e => Err (Z.to_nat e) end.
Definition nonneg (o : Stack.outcome) : Prop :=
  match o with Stack.Ok v => (0 <= v)%Z | Stack.Err e => (0 <= e)%Z end.

Lemma inj_faithful o1 o2 : nonneg o1 -> nonneg o2 -> inj o1 = inj o2 -> o1 = o2.
Proof.
  destruct o1, o2; simpl; intros H1 H2 E; inversion E; f_equal; apply Z2Nat.inj; assumption.
Qed.
Lemma tagv_nonneg t v : (0 <= t)%Z -> (0 <= v)%Z -> (0 <= Stack.tagv t v)%Z.
Proof. unfold Stack.tagv. lia. Qed.
Lemma apply_fn_nonneg t r o : (0 <= t)%Z -> nonneg o -> nonneg (fst (Stack.apply_fn t r o)).
Proof.
  intros Ht. destruct o as [v|e], r; cbn -[Z.add Z.mul Z.to_nat]; auto; intros Hv; [lia|apply tagv_nonneg; assumption].
Qed.

(* the answer of a map layer's function on the value v *)
Definition map_ans (t : Z) (r : bool) (v : Z) : answer :=
  if r then ARaise (Z.to_nat (2000 + t)) else ARet (Z.to_nat (Stack.tagv t v)).
(* the answer of a flat_map layer's function: it returns the future d (f_return of the tagged value) *)
Definition flat_ans (t : Z) (r : bool) (d : nat) : answer :=
  if r then ARaise (Z.to_nat (2000 + t)) else ARetFut d.

Lemma link_map t r o fa inner :
  (forall v, o = Stack.Ok v -> fa = map_ans t r v) ->
  map_law KMap true false (inj o) fa ARaiseSame inner = Some (inj (fst (Stack.apply_fn t r o))) /\
  snd (Stack.apply_fn t r o) = fst (map_calls true false (inj o)).
Proof.
  intros H. destruct o as [v|e]; [|cbn; auto].
  rewrite (H v eq_refl). unfold map_ans. destruct r; cbn -[Z.add Z.mul Z.to_nat]; auto.
Qed.

Lemma link_flat_map t r o d inner :
  (forall v, o = Stack.Ok v -> r = false -> inner d = Some (Ok (Z.to_nat (Stack.tagv t v)))) ->
  map_law KFlat true false (inj o) (flat_ans t r d) ARaiseSame inner = Some (inj (fst (Stack.apply_fn t r o))) /\
  snd (Stack.apply_fn t r o) = fst (map_calls true false (inj o)).
Proof.
  intros H. destruct o as [v|e]; [|cbn; auto].
  unfold flat_ans. destruct r; cbn -[Z.add Z.mul Z.to_nat]; auto.
Qed.

(* ---- chains of map layers --------------------------------------------------------------------- *)
Definition vfun_of (l : Stack.layer) : vfun :=
  match l with
  | Stack.LMap t false => VRet (fun x => Z.to_nat (Stack.tagv t (Z.of_nat x)))
  | Stack.LMap t true => VRaise (fun _ => Z.to_nat (2000 + t))
  | _ => VRet (fun x => x)
  end.
Fixpoint map_only (ls : list Stack.layer) : Prop :=
  match ls with [] => True | Stack.LMap t _ :: r => (0 <= t)%Z /\ map_only r | _ => False end.
(* the stack lists the outermost layer first; the chain applies the innermost function first *)
Definition chain_of (ls : list Stack.layer) : list vfun := rev (map vfun_of ls).

Lemma vchain_app g1 g2 o : vchain (g1 ++ g2) o = vchain g2 (vchain g1 o).
Proof. revert o; induction g1; simpl; auto. Qed.
Lemma vcalls_app g1 g2 o : vcalls (g1 ++ g2) o = vcalls g1 o + vcalls g2 (vchain g1 o).
Proof.
  revert o; induction g1 as [|g r IH]; intros o; simpl; auto.
  destruct o; [rewrite IH; reflexivity|]. change (vapply g (Err e)) with (Err e). rewrite vchain_err. destruct g2; reflexivity.
Qed.
Lemma apply_fn_vapply t r o : nonneg o ->
  inj (fst (Stack.apply_fn t r o)) = vapply (vfun_of (Stack.LMap t r)) (inj o) /\
  snd (Stack.apply_fn t r o) = vcalls [vfun_of (Stack.LMap t r)] (inj o).
Proof.
  destruct o as [v|e], r; cbn -[Z.add Z.mul Z.to_nat Z.of_nat]; auto.
  intros Hv. rewrite Z2Nat.id by exact Hv. auto.
Qed.

Lemma link_chain ls script k : map_only ls -> nonneg (script k) ->
  inj (fst (fst (Stack.eval ls script k))) = vchain (chain_of ls) (inj (script k)) /\
  snd (fst (Stack.eval ls script k)) = S k /\
  snd (Stack.eval ls script k) = vcalls (chain_of ls) (inj (script k)) /\
  nonneg (fst (fst (Stack.eval ls script k))).
Proof.
  unfold chain_of. intros M Hs. induction ls as [|l ls IH]; [cbn; auto|].
  destruct l as [t r| | | | |]; try (destruct M; fail). destruct M as [Ht M].
  destruct (IH M) as (I1 & I2 & I3 & I4). clear IH.
  cbn [Stack.eval map rev]. destruct (Stack.eval ls script k) as [[o k'] c]. cbn [fst snd] in *.
  destruct (apply_fn_vapply t r o I4) as [A1 A2]. pose proof (apply_fn_nonneg t r o Ht I4) as A3.
  destruct (Stack.apply_fn t r o) as [o' n']. cbn [fst snd] in *.
  rewrite vchain_app, vcalls_app, <- I1, <- I3. cbn [vchain]. repeat split; auto.
Qed.

(* ---- retry ------------------------------------------------------------------------------------ *)
Section Retry.
Variable eb : nat -> Stack.outcome * nat * nat.      (* evaluation of the layers below, from a script position *)
Definition nextk (k : nat) : nat := snd (fst (eb k)).
(* script position at which the (i+1)-th evaluation of the layers below starts *)
Fixpoint pos (k i : nat) : nat := match i with O => k | S i' => pos (nextk k) i' end.
(* n+1 consecutive evaluations of the layers below; the outcome is that of the last one *)
Fixpoint run_n (n k calls : nat) : Stack.outcome * nat * nat :=
  let '(o, k', c) := eb k in
  match n with O => (o, k', calls + c) | S n' => run_n n' k' (calls + c) end.
(* what the retry policy sees of an attempt: None = success, Some 0 = an exception (class Exception) *)
Definition kclass (o : Stack.outcome) : option nat := match o with Stack.Ok _ => None | Stack.Err _ => Some 0 end.
Definition kscript (k0 i : nat) : option nat := kclass (fst (fst (eb (pos k0 (i - 1))))).
(* ExceptionRetryPolicy(max_attempts = m, exception_base = Exception): every exception is an instance *)
Definition any_exc (_ _ : nat) : bool := true.
Definition kattempts (m k0 fuel a : nat) : nat := seq_attempts any_exc (Z.of_nat m) [0] (kscript k0) fuel a.

Lemma pos_S_r k i : pos k (S i) = nextk (pos k i).
Proof. revert k; induction i; intros k; simpl; auto. apply (IHi (nextk k)). Qed.
Lemma seq_attempts_ge isinst M bases scr fuel : forall a, a <= seq_attempts isinst M bases scr fuel a.
Proof.
  induction fuel; intros a; simpl; auto. destruct (should_retry _ _ _ _ _); auto. specialize (IHfuel (S a)). lia.
Qed.
Lemma should_retry_any m a o :
  should_retry any_exc (Z.of_nat m) [0] (Z.of_nat a) (kclass o) =
  match o with Stack.Ok _ => false | Stack.Err _ => a <? m end.
Proof.
  destruct (should_retry _ _ _ _ _) eqn:E.
  - apply should_retry_spec in E. destruct E as (e & He & L & _). destruct o; [discriminate He|].
    symmetry. apply Nat.ltb_lt. lia.
  - destruct o; auto. destruct (a <? m) eqn:L; auto. apply Nat.ltb_lt in L.
    assert (X : should_retry any_exc (Z.of_nat m) [0] (Z.of_nat a) (kclass (Stack.Err e)) = true).
    { apply should_retry_spec. exists 0. repeat split; [lia|]. exists 0. split; [left; reflexivity|reflexivity]. }
    congruence.
Qed.

Lemma retry_loop_kernel m k0 fuel : forall a k calls, 1 <= a -> k = pos k0 (a - 1) ->
  Stack.retry_loop eb fuel a m k calls = run_n (kattempts m k0 fuel a - a) k calls.
Proof.
  unfold kattempts. induction fuel as [|f IH]; intros a k calls Ha Hk.
  - cbn [Stack.retry_loop seq_attempts]. rewrite Nat.sub_diag. reflexivity.
  - cbn [Stack.retry_loop seq_attempts]. unfold kscript at 1. rewrite <- Hk, should_retry_any.
    destruct (eb k) as [[o k'] c] eqn:E. cbn [fst].
    destruct o as [v|e].
    + rewrite Nat.sub_diag. cbn [run_n]. rewrite E. reflexivity.
    + destruct (a <? m) eqn:L.
      * pose proof (seq_attempts_ge any_exc (Z.of_nat m) [0] (kscript k0) f (S a)) as G.
        replace (seq_attempts any_exc (Z.of_nat m) [0] (kscript k0) f (S a) - a)
          with (S (seq_attempts any_exc (Z.of_nat m) [0] (kscript k0) f (S a) - S a)) by lia.
        cbn [run_n]. rewrite E. apply IH; [lia|].
        replace (S a - 1) with (S (a - 1)) by lia. rewrite pos_S_r, <- Hk. unfold nextk. rewrite E. reflexivity.
      * rewrite Nat.sub_diag. cbn [run_n]. rewrite E. reflexivity.
Qed.
End Retry.

(* more fuel than the attempts that can still be made does not change the result *)
Lemma retry_loop_fuel eb m f1 : forall f2 a k calls, m - a <= f1 -> m - a <= f2 ->
  Stack.retry_loop eb f1 a m k calls = Stack.retry_loop eb f2 a m k calls.
Proof.
  induction f1 as [|f1 IH]; intros f2 a k calls H1 H2.
  - assert (L : (a <? m) = false) by (apply Nat.ltb_ge; lia).
    destruct f2; cbn [Stack.retry_loop]; destruct (eb k) as [[o k'] c]; auto. destruct o; auto. rewrite L. reflexivity.
  - destruct f2 as [|f2].
    + assert (L : (a <? m) = false) by (apply Nat.ltb_ge; lia).
      cbn [Stack.retry_loop]. destruct (eb k) as [[o k'] c]. destruct o; auto. rewrite L. reflexivity.
    + cbn [Stack.retry_loop]. destruct (eb k) as [[o k'] c]. destruct o; auto.
      destruct (a <? m) eqn:L; auto. apply Nat.ltb_lt in L. apply IH; lia.
Qed.

Lemma run_n_spec eb n : forall k calls,
  fst (fst (run_n eb n k calls)) = fst (fst (eb (pos eb k n))) /\ snd (fst (run_n eb n k calls)) = pos eb k (S n).
Proof.
  induction n as [|n IH]; intros k calls.
  - cbn [run_n pos]. unfold nextk. destruct (eb k) as [[o k'] c]. auto.
  - change (pos eb k (S n)) with (pos eb (nextk eb k) n).
    change (pos eb k (S (S n))) with (pos eb (nextk eb k) (S n)).
    cbn [run_n]. unfold nextk. destruct (eb k) as [[o k'] c] eqn:E. cbn [fst snd]. apply IH.
Qed.

(* the retry layer: with fuel = max_attempts (or any larger fuel) the evaluator performs exactly the
   attempts the regenerated kernel should_retry allows under ExceptionRetryPolicy(max_attempts = m) over Exception *)
Lemma link_retry m below script k fuel : m <= fuel ->
  let eb := Stack.eval below script in
  Stack.eval (Stack.LRetry m :: below) script k = Stack.retry_loop eb fuel 1 m k 0 /\
  Stack.eval (Stack.LRetry m :: below) script k = run_n eb (kattempts eb m k fuel 1 - 1) k 0.
Proof.
  intros Hf eb. cbn [Stack.eval]. fold eb.
  assert (E : Stack.retry_loop eb m 1 m k 0 = Stack.retry_loop eb fuel 1 m k 0) by (apply retry_loop_fuel; lia).
  split; [exact E|]. rewrite E. apply retry_loop_kernel; auto.
Qed.

(* what exception_policy_runs says about that number of attempts *)
Lemma link_retry_runs m below script k fuel : 1 <= m -> m <= fuel ->
  let eb := Stack.eval below script in
  let n := kattempts eb m k fuel 1 in
  1 <= n <= m /\
  (forall i, 1 <= i < n -> exists e, fst (fst (eb (pos eb k (i - 1)))) = Stack.Err e) /\
  ((exists v, fst (fst (eb (pos eb k (n - 1)))) = Stack.Ok v) \/ n = m) /\
  fst (fst (Stack.eval (Stack.LRetry m :: below) script k)) = fst (fst (eb (pos eb k (n - 1)))) /\
  snd (fst (Stack.eval (Stack.LRetry m :: below) script k)) = pos eb k n.
Proof.
  intros Hm Hf eb n.
  destruct (exception_policy_runs any_exc (Z.of_nat m) [0] (kscript eb k) fuel ltac:(lia) ltac:(lia)) as (A & B & C & D).
  fold (kattempts eb m k fuel 1) in A, B, C, D. fold n in A, B, C, D.
  destruct (link_retry m below script k fuel Hf) as [_ E]. fold eb in E. fold n in E.
  destruct (run_n_spec eb (n - 1) k 0) as [R1 R2]. rewrite <- E in R1, R2.
  replace (S (n - 1)) with n in R2 by lia.
  repeat split; auto; try lia.
  - intros i Hi. destruct (C i Hi) as (e & He & _). unfold kscript in He.
    destruct (fst (fst (eb (pos eb k (i - 1))))) as [v|e0]; [discriminate He|eauto].
  - unfold kscript in D. destruct (fst (fst (eb (pos eb k (n - 1))))) as [v|e0]; [left; eauto|right].
    destruct D as [D|[D|D]]; [discriminate D| |lia].
    exfalso. apply D. exists 0. split; [reflexivity|]. exists 0. split; [left; reflexivity|reflexivity].
Qed.

(* ---- transparent layers and poll -------------------------------------------------------------- *)
Lemma link_ident ls script k : Stack.eval (Stack.LIdent :: ls) script k = Stack.eval ls script k.
Proof. apply Stack.eval_ident. Qed.
(* with_poll whose poll function yields the tagged result at the first poll: the first yield for the
   future is its outcome, i.e. the layer acts as a non-raising map with the same tag *)
Lemma link_poll t below script k :
  Stack.eval (Stack.LPoll t :: below) script k =
    (let '(o, k', c) := Stack.eval below script k in
     let '(o', n) := Stack.apply_fn t false o in (o', k', c + n)) /\
  Stack.eval (Stack.LPoll t :: below) script k = Stack.eval (Stack.LMap t false :: below) script k.
Proof. split; reflexivity. Qed.

Lemma link_chain_compose ls script k : map_only ls -> nonneg (script k) ->
  inj (fst (fst (Stack.eval ls script k))) = vapply (vcompose_all (chain_of ls)) (inj (script k)).
Proof. intros M H. destruct (link_chain ls script k M H) as [E _]. rewrite E. apply vchain_compose. Qed.

(* max_attempts = 0 (outside exception_policy_runs, which needs 1 <= max_attempts): both the evaluator
   and the kernel make exactly one attempt *)
Lemma link_retry_zero below script k fuel :
  kattempts (Stack.eval below script) 0 k fuel 1 = 1 /\
  Stack.eval (Stack.LRetry 0 :: below) script k =
    (let '(o, k', c) := Stack.eval below script k in (o, k', c)).
Proof.
  split.
  - unfold kattempts. destruct fuel; cbn [seq_attempts]; auto.
    unfold kscript. rewrite (should_retry_any 0 1).
    destruct (fst (fst (Stack.eval below script (pos (Stack.eval below script) k (1 - 1))))); reflexivity.
  - cbn. destruct (Stack.eval below script k) as [[o k'] c]. reflexivity.
Qed.
