(* C12 / Throttle (part D): the stdlib methods on the delegate future (add_done_callback, cancelled, cancel). *)
From Coq Require Import ZArith List Bool Arith Lia.
From RecordUpdate Require Import RecordSet.
From ME Require Import Base.Machine Base.Fut Base.GenPrelude Gen.ThrottleGen Model.Throttle
  Proofs.Throttle_Spec Proofs.Throttle_Inv Proofs.Throttle_Fifo Proofs.Throttle_U5 Proofs.Throttle_U6
  Proofs.Keep_Throttle_A Proofs.Keep_Throttle_C.
Import ListNotations RecordSetNotations.

Lemma clear_del_dcbs l : forall s, dcbs (clear_del s l) = dcbs s.
Proof. unfold clear_del. induction l as [|c l IH]; intros s; simpl; [reflexivity|]. rewrite IH. destruct c; reflexivity. Qed.
Lemma clear_del_mdel_none l : forall s j, mdel s j = None -> mdel (clear_del s l) j = None.
Proof.
  unfold clear_del. induction l as [|c l IH]; intros s j Hm; simpl; [exact Hm|]. apply IH.
  destruct c; [exact Hm|]. simpl. unfold upd. destruct (Nat.eqb j j0); [reflexivity|exact Hm].
Qed.
Lemma clear_del_mdel_in l : forall s j, In (CbRes j) l -> mdel (clear_del s l) j = None.
Proof.
  unfold clear_del. induction l as [|c l IH]; intros s j Hin; [destruct Hin|]. simpl. destruct Hin as [->|Hin].
  - apply clear_del_mdel_none. simpl. apply upd_same.
  - apply IH. exact Hin.
Qed.

Lemma kgrows_of s s' :
  (forall j, In j (cancq (hist s)) -> In j (cancq (hist s'))) -> ndel s' = ndel s -> dfor s' = dfor s ->
  (forall d, fdone (ds s d) = true -> fdone (ds s' d) = true) -> kgrows s s'.
Proof. intros A B C D. unfold kgrows. rewrite B, C. auto 6. Qed.

Lemma pok_kv s s' p : kv s' = kv s -> pok s p -> pok s' p.
Proof.
  intros Ev. unfold kv in Ev. inversion Ev as [[E1 E2 E3 E4 E5 E6 E7 E8]]. apply pok_grows.
  unfold kgrows. rewrite E3, E5, E6, E7. auto 6.
Qed.

Lemma pok_held s d l r :
  (forall j, In (CbRes j) l -> hand s d j) -> fdone (ds s d) = true -> pok s r -> pok s (flat_map (cb_prog_held d) l ++ r).
Proof.
  intros Hh Hd Hr. induction l as [|c l IH]; [exact Hr|]. simpl. rewrite <- app_assoc.
  assert (IH' : pok s (flat_map (cb_prog_held d) l ++ r)) by (apply IH; intros j Hin; apply Hh; right; exact Hin).
  destruct c; simpl; [auto 6|]. split; [|exact IH']. split; [apply Hh; left; reflexivity|exact Hd].
Qed.
Lemma pok_cbs s d l r :
  (forall j, In (CbRes j) l -> hand s d j) -> fdone (ds s d) = true -> pok s r -> pok s (flat_map (cb_prog d) l ++ r).
Proof.
  intros Hh Hd Hr. induction l as [|c l IH]; [exact Hr|]. simpl. rewrite <- app_assoc.
  assert (IH' : pok s (flat_map (cb_prog d) l ++ r)) by (apply IH; intros j Hin; apply Hh; right; exact Hin).
  destruct c; simpl; [auto 6|]. split; [exact Logic.I|]. split; [exact Logic.I|].
  split; [|exact IH']. split; [apply Hh; left; reflexivity|exact Hd].
Qed.

(* delegate.cancel() on a pending delegate future: its callbacks run inside the call *)
Lemma invK_cancel_fire s s' t sn d j rest :
  InvK s -> thr s t = IDCancel j d :: rest -> hand s d j -> ds s d = Pending ->
  (forall u, thr s' u = upd (thr s) t
     (norm sn (flat_map (cb_prog_held d) (dcbs s d) ++ IFCancel j :: IFSrnc j :: IRelMCbs j :: IRetB true :: rest)) u) ->
  cancq (hist s') = cancq (hist s) -> dsubs (hist s') = dsubs (hist s) -> ndel s' = ndel s -> dfor s' = dfor s ->
  ds s' = upd (ds s) d Cancelled -> ms s' = ms s -> dcbs s' = upd (dcbs s) d [] ->
  (forall j0 d0, mdel s' j0 = Some d0 -> mdel s j0 = Some d0) ->
  (forall j0, In (CbRes j0) (dcbs s d) -> mdel s' j0 = None) ->
  InvK s'.
Proof.
  intros IK Et Hh Hp Hthr E1 E2 E3 E4 E5 E6 E7 Hm1 Hm2.
  head_obl IK Et Hi Hr.
  assert (G : kgrows s s').
  { apply kgrows_of; auto; [rewrite E1; auto|]. intros d0 Hd0. rewrite E5. unfold upd.
    destruct (Nat.eqb d0 d) eqn:E; [reflexivity|exact Hd0]. }
  assert (Hd' : fdone (ds s' d) = true) by (rewrite E5, upd_same; reflexivity).
  assert (Hh' : hand s' d j) by (eapply hand_grows; eauto).
  eapply (invK_step s s' t _ IK G); [| exact Hthr | | | | | |].
  - rewrite E2, E3, E4. apply (k_ds _ IK).
  - apply pok_norm. apply pok_held; [|exact Hd'|].
    + intros j0 Hin. eapply hand_grows; [exact G|]. apply (k_cb _ IK). exact Hin.
    + split; [right; exists d; auto|]. split; [exact Logic.I|]. split; [exact Logic.I|]. split; [exact Logic.I|].
      eapply pok_grows; eauto.
  - intros j0 Hd0. left. rewrite <- E6. exact Hd0.
  - intros d0 j0 Hin. left. rewrite E7 in Hin. unfold upd in Hin. destruct (Nat.eqb d0 d); [destruct Hin|exact Hin].
  - intros j0 d0 Hm. left. auto.
  - intros d0 j0 Hin. destruct (Nat.eq_dec d0 d) as [->|Hne].
    + right. right. rewrite (Hm2 j0 Hin). discriminate.
    + left. rewrite E7, upd_other by exact Hne. exact Hin.
  - intros x Hx Hin. left. revert x Hx Hin. rewrite Et. to_sub. apply sub_norm. sub_tac.
Qed.

Ltac inv_idcancel IR Et Hlt Hdf :=
  let Hf := fresh "Hf" in let Hi2 := fresh "Hi2" in
  match type of Et with thr ?s ?t = _ :: _ =>
    pose proof (r_prog _ IR t) as Hf; rewrite Et in Hf; inversion Hf as [|? ? Hi2 _]; subst; clear Hf;
    simpl in Hi2; destruct Hi2 as [_ [Hlt Hdf]] end.

Lemma do_fd_invK s t op d p s' : InvR s -> InvK s -> do_fd s t op d p = Some s' -> InvK s'.
Proof.
  intros IR IK Hx. unfold do_fd in Hx.
  destruct (negb (fstate_eqb p (ds s d))) eqn:Ep; [discriminate|]. apply negb_false_iff, fstate_eqb_eq in Ep.
  destruct (thr s t) as [|i rest] eqn:Et; [discriminate|]. head_obl IK Et Hi Hr.
  destruct i; try discriminate.
  - (* add_done_callback(_delegate_future_done) *)
    brk Hx; inv_some Hx;
      repeat match goal with E : negb (Nat.eqb _ _) = false |- _ => apply negb_false_iff, Nat.eqb_eq in E; subst end.
    + kplain IK s.
    + match goal with |- InvK (set_prog ?s1 t ?pp) => apply (invK_neutral s _ t s1 pp IK) end.
      * unfold kgrows. simpl. auto 6.
      * simpl. apply (k_ds _ IK).
      * intros u. reflexivity.
      * eapply pok_grows; [|exact Hr]. unfold kgrows. simpl. auto 6.
      * intros j Hd. left. exact Hd.
      * reflexivity.
      * intros d1 j. simpl. unfold upd. destruct (Nat.eqb d1 d0) eqn:E; [|tauto]. apply Nat.eqb_eq in E. subst.
        rewrite in_app_iff. simpl. split; [intros [Hin|[Hin|[]]]; [exact Hin|discriminate Hin]|auto].
      * rewrite Et. sub_tac.
  - (* add_done_callback(_delegate_resolved) *)
    brk Hx; inv_some Hx;
      repeat match goal with E : negb (Nat.eqb _ _) = false |- _ => apply negb_false_iff, Nat.eqb_eq in E; subst end;
      simpl in Hi.
    + (* the delegate future is already done: the callback runs inline *)
      match goal with |- InvK (set_prog ?s1 t ?pp) => apply (invK_step s _ t (norm s1 pp) IK) end.
      * unfold kgrows. simpl. auto 6.
      * simpl. apply (k_ds _ IK).
      * intros u. reflexivity.
      * apply pok_norm. simpl. split; [exact Logic.I|]. split; [exact Logic.I|]. split; [|apply (pok_kv s); [reflexivity|exact Hr]]. split; [exact Hi|assumption].
      * intros j0 Hd. left. exact Hd.
      * intros d1 j0 Hin. left. exact Hin.
      * intros j0 d1 Hm. left. exact Hm.
      * intros d1 j0 Hin. left. exact Hin.
      * intros x Hxr Hin. rewrite Et in Hin. destruct Hin as [<-|Hin].
        -- right. left. exists d0, j. split; [reflexivity|]. right. apply in_norm_rel; [reflexivity|]. left. reflexivity.
        -- left. apply in_norm_rel; [exact Hxr|]. simpl. auto.
    + (* registered *)
      match goal with |- InvK (set_prog ?s1 t ?pp) => apply (invK_step s _ t (norm s1 pp) IK) end.
      * unfold kgrows. simpl. auto 6.
      * simpl. apply (k_ds _ IK).
      * intros u. reflexivity.
      * apply pok_norm. eapply pok_grows; [|exact Hr]. unfold kgrows. simpl. auto 6.
      * intros j0 Hd. left. exact Hd.
      * intros d1 j0 Hin. simpl in Hin. unfold upd in Hin. destruct (Nat.eqb d1 d0) eqn:E; [|left; exact Hin].
        apply Nat.eqb_eq in E. subst. apply in_app_or in Hin. destruct Hin as [Hin|[Hin|[]]]; [left; exact Hin|].
        inversion Hin; subst. right. exact Hi.
      * intros j0 d1 Hm. left. exact Hm.
      * intros d1 j0 Hin. left. simpl. unfold upd. destruct (Nat.eqb d1 d0) eqn:E; [|exact Hin].
        apply Nat.eqb_eq in E. subst. apply in_or_app. left. exact Hin.
      * intros x Hxr Hin. rewrite Et in Hin. destruct Hin as [<-|Hin].
        -- right. left. exists d0, j. split; [reflexivity|]. left. simpl. rewrite upd_same. apply in_or_app. right. left. reflexivity.
        -- left. apply in_norm_rel; [exact Hxr|]. exact Hin.
  - (* _delegate_resolved: delegate.cancelled() *)
    brk Hx; inv_some Hx;
      repeat match goal with E : negb (Nat.eqb _ _) = false |- _ => apply negb_false_iff, Nat.eqb_eq in E; subst end;
      simpl in Hi; try solve [kplain IK s].
    match goal with |- InvK (set_prog ?s1 t (setres_prog ?j ?o ++ ?r)) => apply (invK_prog s _ t s1 (setres_prog j o ++ r) IK) end;
      try reflexivity.
    + apply pok_setres; [|exact Hr]. right. exists d0. exact Hi.
    + rewrite Et. sub_tac.
  - (* delegate.cancel() *)
    destruct op as [|[|[|op]]]; try discriminate.
    destruct (negb (Nat.eqb d d0)) eqn:Ed; [discriminate|]. apply negb_false_iff, Nat.eqb_eq in Ed. subst d0.
    inv_idcancel IR Et Hlt Hdf.
    assert (Hh : hand s d j) by (split; assumption).
    assert (Ef : f_cancel (ds s d) = (fst (f_cancel (ds s d)), snd (f_cancel (ds s d)))) by (destruct (f_cancel (ds s d)); reflexivity).
    rewrite Ef in Hx.
    assert (Hmono : forall d0, fdone (ds s d0) = true -> fdone (upd (ds s) d (fst (f_cancel (ds s d))) d0) = true).
    { intros d0 Hd0. unfold upd. destruct (Nat.eqb d0 d) eqn:E; [|exact Hd0]. apply Nat.eqb_eq in E. subst.
      apply f_cancel_done. exact Hd0. }
    destruct (snd (f_cancel (ds s d))) eqn:Eb.
    + assert (Hcd : fdone (fst (f_cancel (ds s d))) = true).
      { apply f_cancel_true_cancelled in Eb. destruct (fst (f_cancel (ds s d))); simpl in *; congruence. }
      destruct (f_cancel_fires (ds s d)) eqn:Ec; inv_some Hx.
      * (* the delegate future was pending: its callbacks run in the canceller *)
        assert (Hpend : ds s d = Pending) by (destruct (ds s d); simpl in Ec; congruence).
        match goal with |- context [clear_del ?x ?l] => destruct (clear_del_rframe l x) as [A [B [C [D [E [F G2]]]]]];
          pose proof (clear_del_dcbs l x) as Hdc;
          pose proof (fun j0 d0 => clear_del_mdel l x j0 d0) as Hm1;
          pose proof (fun j0 => clear_del_mdel_in l x j0) as Hm2 end.
        eapply (invK_cancel_fire s _ t _ d (dfor s d) rest IK Et Hh Hpend); simpl;
          rewrite ?A, ?B, ?C, ?D, ?E, ?F, ?Hdc; simpl; try reflexivity.
        -- rewrite Hpend. reflexivity.
        -- exact Hm1.
        -- exact Hm2.
      * match goal with |- InvK (set_prog ?s1 t ?pp) => apply (invK_neutral s _ t s1 pp IK) end.
        -- apply kgrows_of; simpl; auto.
        -- simpl. apply (k_ds _ IK).
        -- intros u. reflexivity.
        -- assert (G : kgrows s (s <| ds := upd (ds s) d (fst (f_cancel (ds s d))) |>)) by (apply kgrows_of; simpl; auto).
           split; [right; exists d; split; [eapply hand_grows; eauto|simpl; rewrite upd_same; exact Hcd]|].
           split; [exact Logic.I|]. split; [exact Logic.I|]. split; [exact Logic.I|]. eapply pok_grows; eauto.
        -- intros j0 Hd0. left. exact Hd0.
        -- reflexivity.
        -- intros d1 j0. simpl. tauto.
        -- rewrite Et. sub_tac.
    + inv_some Hx.
      match goal with |- InvK (set_prog ?s1 t ?pp) => apply (invK_neutral s _ t s1 pp IK) end.
      * apply kgrows_of; simpl; auto.
      * simpl. apply (k_ds _ IK).
      * intros u. reflexivity.
      * split; [exact Logic.I|]. split; [exact Logic.I|]. eapply pok_grows; [|exact Hr]. apply kgrows_of; simpl; auto.
      * intros j0 Hd0. left. exact Hd0.
      * reflexivity.
      * intros d1 j0. simpl. tauto.
      * rewrite Et. sub_tac.
Qed.
