(* N7: refinements: what a logged cancel request did to its input (CR); Finished output <-> HSetOut (OF);
   the published outcome is the deciding input's. *)
From Coq Require Import List Arith Bool Lia PeanoNat ZArith.
From ME Require Import Base.Machine Base.Fut Base.GenPrelude Gen.BoolGen Gen.ZipGen Model.Comb Proofs.Comb_Spec.
From ME Require Import Proofs.Comb_I0 Proofs.Comb_I1 Proofs.Comb_I2 Proofs.Comb_I3 Proofs.Comb_I4 Proofs.Comb_I5 Proofs.Comb_I7 Proofs.Comb_I8
  Proofs.Comb_I10a Proofs.Comb_N1 Proofs.Comb_N2 Proofs.Comb_N5 Proofs.Comb_N6.
Import ListNotations.

(* ---- CR: a cancel() request that found its input Pending cancelled it; otherwise the input was done --- *)
Definition CR (s : st) : Prop :=
  forall x pre, In (HCancelReq x pre) (hist s) ->
    (pre = Pending -> es s x = Cancelled) /\ (pre <> Pending -> fdone pre = true /\ es s x = pre).

Lemma CR_step s e s' : I4 s -> CR s -> step s e = Some s' -> CR s'.
Proof.
  intros J C H x pre Hin.
  assert (Old : In (HCancelReq x pre) (hist s) ->
          (pre = Pending -> es s' x = Cancelled) /\ (pre <> Pending -> fdone pre = true /\ es s' x = pre)).
  { intros Ho. destruct (C x pre Ho) as [A B]. split.
    - intros Hp. pose proof (A Hp) as E. destruct (step_frozen _ _ _ x H) as [E1 _]; [rewrite E; reflexivity|]. congruence.
    - intros Hp. destruct (B Hp) as [D E]. split; auto.
      destruct (step_frozen _ _ _ x H) as [E1 _]; [rewrite E; exact D|]. congruence. }
  pose proof (i4_es _ J) as Hes.
  destruct e; step_inv H; simpl in *; auto;
  repeat match goal with Hq : _ = _ \/ _ |- _ => destruct Hq as [Hq|Hq]; try discriminate Hq end; auto.
  all: inversion Hin; subst x pre; clean; rewrite upd_same;
       destruct (Hes d0) as [E'|[E'|E']]; rewrite E' in *; simpl in *; inv_pairs;
       (split; [intros; congruence|intros; split; congruence]).
Qed.

Lemma CR_reach s : reachable s -> CR s.
Proof.
  apply invariant_rule_r; [intros x pre []|]. intros s0 e s' R C H.
  eapply CR_step; eauto using I4_reach.
Qed.

Lemma cancel_fans_out_effect s : reachable s -> quiescent s -> length (inputs s) <= notify_id ->
  forall l1 l2, hist s = l1 ++ HOutCancelled :: l2 ->
  forall x, In x (inputs s) -> exists pre, In (HCancelReq x pre) l1 /\
    (pre = Pending -> es s x = Cancelled) /\ (pre <> Pending -> fdone pre = true /\ es s x = pre).
Proof.
  intros R Q Hlen l1 l2 Hh x Hx. destruct (cancel_fans_out s R Q Hlen l1 l2 Hh x Hx) as [pre Hp].
  exists pre. split; auto. apply (CR_reach s R). rewrite Hh. apply in_or_app. left. exact Hp.
Qed.

(* ---- OF ------------------------------------------------------------------------------------------ *)
Record OF (s : st) : Prop := {
  of_fin : os s = Finished -> exists o, In (HSetOut o) (hist s);
  of_set : forall o, In (HSetOut o) (hist s) -> os s = Finished /\ oout s = Some o
}.

Lemma OF_step s e s' : OF s -> step s e = Some s' -> OF s'.
Proof.
  intros [A B] H. constructor.
  - destruct e; step_inv H; simpl in *; auto; clean; intros Hf;
    try (destruct (A Hf) as [o' Ho']; exists o'; auto; fail);
    try (eexists; left; reflexivity);
    destruct (os s) eqn:Eo; simpl in *; try discriminate; inv_pairs; try discriminate;
    try (destruct (A eq_refl) as [o' Ho']; exists o'; auto).
  - intros o0 Hin.
    destruct e; step_inv H; simpl in *; auto; clean;
    repeat match goal with Hq : _ = _ \/ _ |- _ => destruct Hq as [Hq|Hq]; try discriminate Hq end; auto;
    try (inversion Hin; subst);
    try (destruct (B _ Hin) as [B1 B2]; rewrite B1 in *; simpl in *; inv_pairs; try discriminate; auto; fail);
    destruct (os s) eqn:Eo; simpl in *; try discriminate; inv_pairs; auto.
Qed.

Lemma OF_reach s : reachable s -> OF s.
Proof.
  apply invariant_rule; [|intros; eapply OF_step; eauto].
  constructor; simpl; [discriminate|intros o []].
Qed.

(* ---- the published outcome ------------------------------------------------------------------------ *)
Lemma decision_published s : reachable s -> quiescent s -> forall d o, In (HDecide d o) (hist s) ->
  (os s = CancelledNotified /\ In HOutCancelled (hist s)) \/
  (os s = Finished /\ exists o', In (HSetOut o') (hist s) /\ oout s = Some o' /\ (ck s <> KZip -> o = Some o')).
Proof.
  intros R Q d o Hin. destruct (decided_output_done s R Q d o Hin) as [E|E].
  - right. split; auto. destruct (of_fin _ (OF_reach s R) E) as [o' Ho']. exists o'. split; auto.
    split; [apply (of_set _ (OF_reach s R) o' Ho')|].
    intros Hk. destruct (i7_hist _ (I7_reach s R) o' Ho' Hk) as [d' Hd'].
    destruct (in_split _ _ Hin) as (l1 & l2 & Hh).
    pose proof (i2_le _ (I2_reach s R)) as Hle. unfold ndec in Hle.
    rewrite Hh in Hd'. apply in_app_or in Hd'. destruct Hd' as [Hd'|[Hd'|Hd']].
    + exfalso. rewrite Hh, filter_app, app_length in Hle. simpl in Hle.
      assert (X : In (HDecide d' (Some o')) (filter isdec l1)) by (apply filter_In; auto).
      destruct (filter isdec l1); [contradiction|simpl in Hle; lia].
    + congruence.
    + exfalso. rewrite Hh, filter_app, app_length in Hle. simpl in Hle.
      assert (X : In (HDecide d' (Some o')) (filter isdec l2)) by (apply filter_In; auto).
      destruct (filter isdec l2); [contradiction|simpl in Hle; lia].
  - left. split; auto. apply (OC_reach s R). rewrite E. reflexivity.
Qed.

Lemma all_done_decided_hist s : reachable s -> quiescent s -> built s = true ->
  inputs s <> [] -> (forall x, In x (inputs s) -> fdone (es s x) = true) ->
  exists d o, In (HDecide d o) (hist s).
Proof. intros R Q B N A. apply (cdone_iff_decided s R). exact (all_done_decided s R Q B N A). Qed.
