(* source facts of more_executors/_impl/common.py: what the translator finds now is what the models were written against *)
From Coq Require Import List String.
From ME Require Import Gen.Src_common Model.SrcExpected.
Lemma src_common_ok : Src_common.facts = expected_common.
Proof. reflexivity. Qed.
