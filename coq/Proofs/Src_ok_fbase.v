(* source facts of more_executors/_impl/futures/base.py: what the translator finds now is what the models were written against *)
From Coq Require Import List String.
From ME Require Import Gen.Src_fbase Model.SrcExpected.
Lemma src_fbase_ok : Src_fbase.facts = expected_fbase.
Proof. reflexivity. Qed.
