(* C12 for the Poll machine, part A: two shape facts about every thread's program.
   [sprog p]: (1) the constructor step IDoneA j (self.add_done_callback(_clear_executor)) is followed, in the same
   program, by IAddCbD j (delegate.add_done_callback(_delegate_resolved)): while the first is pending the
   _delegate_resolved / _register_poll token of j is still in that program, so j has never been registered;
   (2) the append of _register_poll (IXAcqReg j v) is immediately followed by _clear_delegate (IAcqMClr j): once
   the descriptor is in the list, clearing PollFuture._delegate is the very next step of that thread, still
   inside the X-section. *)
From Coq Require Import ZArith List Bool Arith Lia.
From RecordUpdate Require Import RecordSet.
From ME Require Import Base.Machine Base.Fut Base.GenPrelude Model.Poll Proofs.Poll_Inv Proofs.Poll_NoDup.
Import ListNotations RecordSetNotations.

Definition clr_next (j : nat) (r : list instr) : Prop :=
  match r with IAcqMClr j' :: _ => j' = j | _ => False end.

Fixpoint sprog (p : list instr) : Prop :=
  match p with
  | [] => True
  | IDoneA j :: r => In (IAddCbD j) r /\ sprog r
  | IXAcqReg j _ :: r => clr_next j r /\ sprog r
  | _ :: r => sprog r
  end.

Lemma sprog_cancel_cont s j r : sprog r -> sprog (cancel_cont s j ++ r).
Proof.
  intros H. unfold cancel_cont, cancel_no, cancel_ok. destruct (negb (pexec s j)); [exact H|].
  destruct (negb (hascfn s)); [exact H|]. destruct (lookup j (descs s)); exact H.
Qed.
Lemma sprog_norm s p : sprog p -> sprog (norm s p).
Proof. destruct p as [|i r]; [auto|]. destruct i; auto. simpl. apply sprog_cancel_cont. Qed.
Lemma sprog_raise e (sn : list (nat * nat)) : sprog (flat_map (fun p => exc_prog (fst p) e) sn).
Proof. induction sn; simpl; auto. Qed.

Definition InvS (s : st) : Prop := forall t, sprog (thr s t).

Lemma invs_init : InvS init.
Proof. intros t. exact I. Qed.

Ltac gS_prog Ip :=
  let t0 := fresh "t0" in intros t0; pose proof (Ip t0) as Hc0;
  try match goal with
  | E : thr ?s ?t = _ |- _ =>
      let Hc := fresh "Hc" in pose proof (Ip t) as Hc; rewrite E in Hc; simpl in Hc
  end;
  try match goal with |- context [upd (thr _) ?t _ t0] =>
    destruct (Nat.eq_dec t0 t) as [Heq|Hne];
    [ subst t0; rewrite (upd_same _ t); try apply sprog_norm; try apply sprog_cancel_cont
    | rewrite (upd_other _ t _ t0) by assumption ]
  end;
  try match goal with |- context [yield_prog _ ?o] => destruct o end;
  try match goal with |- context [if ?c then [IXDereg _] else []] => destruct c end;
  simpl; try apply sprog_raise;
  repeat match goal with H : _ /\ _ |- _ => destruct H end;
  try solve [ exact I | assumption | tauto | repeat split; simpl; auto; tauto ].

Lemma invs_step s e s' : InvS s -> step s e = Some s' -> InvS s'.
Proof.
  destruct e as [ts e]. intros I H. apply step_inv in H. destruct H as [s1 [Ht H]].
  assert (Ip : InvS s1).
  { apply tick_inv in Ht. destruct Ht as [[-> _]|[-> _]]; exact I. }
  clear I Ht s.
  apply step0_inv in H. destruct H as [[c [d [-> [_ ->]]]]|[_ [H|[H|H]]]].
  - exact Ip.
  - open1 H; norm_eqs; unfold InvS; simpl; gS_prog Ip.
  - open2 H; norm_eqs; unfold InvS; simpl; gS_prog Ip.
  - open3 H; norm_eqs; unfold InvS; simpl; gS_prog Ip.
Qed.

Lemma reach_invs s : reachable s -> InvS s.
Proof. apply invariant_rule; [exact invs_init|intros; eapply invs_step; eauto]. Qed.

(* ---- consequences -------------------------------------------------------------------------------- *)
Lemma sprog_doneA_cnt j p : sprog p -> In (IDoneA j) p -> 1 <= cnt j p.
Proof.
  induction p as [|i r IH]; simpl; [tauto|]. intros Hs [Hi|Hi].
  - subst i. destruct Hs as [Ha _]. simpl.
    clear IH. induction r as [|x r IH]; simpl in *; [tauto|]. destruct Ha as [Ha|Ha].
    + subst x. simpl. rewrite Nat.eqb_refl. lia.
    + specialize (IH Ha). lia.
  - assert (Hr : sprog r) by (destruct i; simpl in Hs; tauto). specialize (IH Hr Hi). lia.
Qed.

Lemma sprog_reg_next j v p q : sprog (p ++ IXAcqReg j v :: q) -> clr_next j q.
Proof.
  induction p as [|i r IH]; simpl.
  - tauto.
  - intros H. apply IH. destruct i; simpl in H; tauto.
Qed.

(* the constructor step of j is not pending in any program once j has been registered *)
Lemma registered_no_doneA s j t :
  Inv7 s -> InvS s -> 1 <= nreg j (hist s) -> ~ In (IDoneA j) (thr s t).
Proof.
  intros I7 IS Hn Hin. pose proof (sprog_doneA_cnt j _ (IS t) Hin) as Hc.
  rewrite (i7_cnt _ I7 j t) in Hc.
  destruct (tok s j) as [x|] eqn:Et; simpl in Hc; [|lia].
  assert (Hx : tok s j <> None) by congruence. destruct (i7_tok _ I7 j Hx) as [_ Hz]. lia.
Qed.
