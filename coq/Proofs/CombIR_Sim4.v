(* Lockstep of the IR machine (generated combinator programs) and Comb.v: tactics, and the events EAcqL / ERelL / ERet
   of a thread in the phase after construction. *)
From Coq Require Import List Arith Bool Lia PeanoNat ZArith.
From RecordUpdate Require Import RecordSet.
From ME Require Import Base.Machine Base.Fut Base.GenPrelude Gen.BoolGen Gen.ZipGen Model.Comb Model.CombIR Gen.CombSkel
  Proofs.CombIR_Sim Proofs.CombIR_Sim2 Proofs.CombIR_Sim3.
Import ListNotations RecordSetNotations.

#[global] Arguments norm : simpl never.
#[global] Arguments resume : simpl never.

(* guards of the IR machine, rewritten into the fields of Comb.st *)
Ltac core_rw Hc :=
  rewrite ?(rc_ck _ _ Hc), ?(rc_inputs _ _ Hc), ?(rc_slots _ _ Hc), ?(rc_cdone _ _ Hc), ?(rc_lown _ _ Hc), ?(rc_os _ _ Hc),
          ?(rc_oout _ _ Hc), ?(rc_ocbs _ _ Hc), ?(rc_es _ _ Hc), ?(rc_eout _ _ Hc), ?(rc_ecbs _ _ Hc), ?(rc_built _ _ Hc),
          ?(rc_ready _ _ Hc), ?(rc_hist _ _ Hc).

Lemma Rcore_view h cs d : Rcore h cs -> iview h d = view cs d.
Proof. intros Hc. unfold iview, view. core_rw Hc. reflexivity. Qed.
Lemma Rcore_oc h cs d : Rcore h cs -> ioc_of h d = oc_of cs d.
Proof. intros Hc. unfold ioc_of, oc_of. core_rw Hc. reflexivity. Qed.
Lemma Rcore_input h cs i : Rcore h cs -> iinput_at h i = input_at cs i.
Proof. intros Hc. unfold iinput_at, input_at. core_rw Hc. reflexivity. Qed.

(* the shared parts are related after the same update on both sides *)
Ltac solve_core Hc :=
  let E1 := fresh in let E2 := fresh in let E3 := fresh in let E4 := fresh in let E5 := fresh in let E6 := fresh in
  let E7 := fresh in let E8 := fresh in let E9 := fresh in let E10 := fresh in let E11 := fresh in let E12 := fresh in
  let E13 := fresh in let E14 := fresh in
  pose proof Hc as [E1 E2 E3 E4 E5 E6 E7 E8 E9 E10 E11 E12 E13 E14];
  constructor; simpl; rewrite ?(Rcore_oc _ _ _ Hc), ?(Rcore_view _ _ _ Hc), ?(Rcore_input _ _ _ Hc); congruence.

(* a stack whose top is at rest is not changed by [resume] *)
Lemma assemble2 (thr_i : nat -> list frame) cs cs' h' t p' st' :
  Rcore h' cs' -> built cs' = true -> fsd_rel h' cs' -> rem_rel h' cs' ->
  thr cs' = upd (thr cs) t (norm false p') ->
  stable cs cs' ->
  (forall u, TR cs (thr cs u) (thr_i u)) ->
  R_thr cs' p' st' -> top_ok st' ->
  R (mkI h' (upd thr_i t st')) cs'.
Proof.
  intros Hc Hb Hf Hr Ht Hs Hall Hp Htop.
  split; [exact Hc|]. right. right. split; [exact Hb|]. split; [exact Hf|]. split; [exact Hr|].
  intros u. simpl. rewrite Ht. unfold upd. destruct (Nat.eqb u t).
  - rewrite (R_thr_norm _ _ _ Hp Htop). split; assumption.
  - destruct (Hall u) as [Hu Tu]. split; [eapply R_thr_stable; eassumption|exact Tu].
Qed.

(* steps that leave ck / inputs / es / eout alone *)
Lemma stable_same cs cs' : ck cs' = ck cs -> inputs cs' = inputs cs -> es cs' = es cs -> eout cs' = eout cs -> stable cs cs'.
Proof. intros H1 H2 H3 H4. split; [exact H1|]. split; [exact H2|]. intros d Hd. rewrite H3, H4. auto. Qed.

(* variants with the new stack described in the OLD Comb state (most steps) *)
Lemma assemble_o (thr_i : nat -> list frame) cs cs' h' t p' st' :
  Rcore h' cs' -> built cs' = true -> fsd_rel h' cs' -> rem_rel h' cs' ->
  thr cs' = upd (thr cs) t (norm false p') ->
  stable cs cs' ->
  (forall u, TR cs (thr cs u) (thr_i u)) ->
  R_thr cs p' st' ->
  R (resume bool_init_prog zip_init_prog h' thr_i t st') cs'.
Proof. intros. eapply assemble; eauto. eapply R_thr_stable; eassumption. Qed.
Lemma assemble2_o (thr_i : nat -> list frame) cs cs' h' t p' st' :
  Rcore h' cs' -> built cs' = true -> fsd_rel h' cs' -> rem_rel h' cs' ->
  thr cs' = upd (thr cs) t (norm false p') ->
  stable cs cs' ->
  (forall u, TR cs (thr cs u) (thr_i u)) ->
  R_thr cs p' st' -> top_ok st' ->
  R (mkI h' (upd thr_i t st')) cs'.
Proof. intros. eapply assemble2; eauto. eapply R_thr_stable; eassumption. Qed.

(* ---- the visible heads of a tail -------------------------------------------------------------------------- *)
Inductive tail_head (lv : locals) : list item -> Prop :=
| TH_k2 r : tail_head lv (KKernel2 :: r)
| TH_rel r : tail_head lv (KRel :: r)
| TH_setf r : tail_head lv (IS STrySetResultF :: r)
| TH_sett r : tail_head lv (IS STrySetResultTuple :: r)
| TH_exc r : tail_head lv (IS SCopyExc :: r)
| TH_oc r : tail_head lv (IS SOutCancel :: r)
| TH_for r x cf : l_cf lv = x :: cf -> tail_head lv (IS SForCancel :: r).

Lemma tail_head_cases k lv : tailish k = true -> visible_head (k, lv) = true ->
  tail_head lv k /\ tailish (tl k) = true.
Proof.
  intros Ht Hv. destruct k as [|it k]; [discriminate Hv|].
  simpl in Ht. apply andb_true_iff in Ht. destruct Ht as [Hi Ht]. split; [|exact Ht].
  destruct it as [s| | |j b| | | ]; try discriminate Hi; try discriminate Hv; try constructor.
  destruct s; simpl in Hv; try discriminate Hi; try discriminate Hv; try constructor.
  destruct (l_cf lv) as [|x cf] eqn:E; [discriminate Hv|]. econstructor. exact E.
Qed.

Lemma tail_len_tl (k : list item) it n : length (it :: k) <= n -> length k <= n.
Proof. simpl. lia. Qed.

(* ---- EAcqL -------------------------------------------------------------------------------------------------- *)
Lemma remove_id_nomem d l : memb d l = false -> remove_id d l = l.
Proof.
  unfold memb, remove_id. induction l as [|x l IH]; simpl; [reflexivity|].
  intros H. apply orb_false_iff in H. destruct H as [H1 H2].
  rewrite Nat.eqb_sym in H1. rewrite H1. simpl. rewrite IH by exact H2. reflexivity.
Qed.

Lemma ls2_acq s cs t : Rcore (sh s) cs -> R2 s cs -> lock_ok (EAcqL t) (gstep s (EAcqL t)) (step cs (EAcqL t)).
Proof.
  intros Hc (Hb & Hf & Hr & Hall).
  destruct s as [h thr_i]. simpl in Hc, Hf, Hr, Hall.
  destruct (Hall t) as [HRt Htop].
  unfold gstep, istep, step. simpl.
  remember (thr cs t) as p eqn:Ep. remember (thr_i t) as st eqn:Est.
  destruct HRt as [|p fr Hs|p fr rest st Hs Hrest].
  - exact I.
  - destruct Hs; simpl in Htop; try discriminate Htop; simpl; try exact I.
  - destruct Hs as [i lv Hx|i lv Hx|lv|lv|lv|lv|lv|i d Hk Hd|i d Hk Hd|i d Hk Hd|i d Hk Hd|i d Hk Hd|i d Hk Hd|d lv k Hd Hfl Ht Hl];
      simpl in Htop; try discriminate Htop; simpl; try exact I.
    + (* BoolOperation.handle_done: with self.lock *)
      core_rw Hc. destruct (lown cs) eqn:El; simpl; [exact I|].
      assert (Hfsd : ifsd h = fsd cs) by (destruct Hf as [Hf|Hf]; [rewrite (rc_ck _ _ Hc) in Hf; contradiction|exact Hf]).
      assert (Hbody : forall cs' h' p' k',
                Rcore h' cs' -> built cs' = true -> fsd_rel h' cs' -> rem_rel h' cs' ->
                thr cs' = upd (thr cs) t (norm false (p' ++ ICatch :: rest)) -> stable cs cs' ->
                segc cs' p' (k', lv_cb i d) -> visible_head (k', lv_cb i d) = true ->
                R (mkI h' (upd thr_i t ((k', lv_cb i d) :: st))) cs').
      { intros cs' h' p' k' H1 H2 H3 H4 H5 H6 H7 H8.
        apply (assemble2 thr_i cs cs' h' t (p' ++ ICatch :: rest)); auto.
        apply RT_cb; [exact H7|eapply R_thr_stable; eassumption]. }
      destruct (ck cs) eqn:Ek; [| |congruence].
      * destruct (cdone cs) eqn:Ecd.
        -- unfold resume. simpl. core_rw Hc. rewrite Ecd. simpl.
           apply (Hbody _ _ [IRelL] [KRel]); try reflexivity.
           ++ solve_core Hc.
           ++ exact Hb.
           ++ unfold fsd_rel in *. simpl. exact Hf.
           ++ unfold rem_rel in *. simpl. exact Hr.
           ++ apply stable_same; reflexivity.
           ++ apply (SC_T _ d (lv_cb i d) [KRel]); simpl; auto; lia.
        -- unfold resume. simpl. core_rw Hc. rewrite Ecd. simpl.
           destruct (memb d (fsd cs)) eqn:Em.
           ++ apply (Hbody _ _ [ICancelledQ i d] (IS SBoolKernel :: KRel :: BT)); try reflexivity.
              ** solve_core Hc.
              ** exact Hb.
              ** right. simpl. rewrite Hfsd. reflexivity.
              ** unfold rem_rel in *. simpl. exact Hr.
              ** apply stable_same; reflexivity.
              ** apply SC_HB1; simpl; [rewrite Ek; discriminate|exact Hd].
           ++ apply (Hbody _ _ [ICancelledQ i d] (IS SBoolKernel :: KRel :: BT)); try reflexivity.
              ** solve_core Hc.
              ** exact Hb.
              ** right. simpl. rewrite Hfsd. apply remove_id_nomem. exact Em.
              ** unfold rem_rel in *. simpl. exact Hr.
              ** apply stable_same; reflexivity.
              ** apply SC_HB1; simpl; [rewrite Ek; discriminate|exact Hd].
      * destruct (cdone cs) eqn:Ecd.
        -- unfold resume. simpl. core_rw Hc. rewrite Ecd. simpl.
           apply (Hbody _ _ [IRelL] [KRel]); try reflexivity.
           ++ solve_core Hc.
           ++ exact Hb.
           ++ unfold fsd_rel in *. simpl. exact Hf.
           ++ unfold rem_rel in *. simpl. exact Hr.
           ++ apply stable_same; reflexivity.
           ++ apply (SC_T _ d (lv_cb i d) [KRel]); simpl; auto; lia.
        -- unfold resume. simpl. core_rw Hc. rewrite Ecd. simpl.
           destruct (memb d (fsd cs)) eqn:Em.
           ++ apply (Hbody _ _ [ICancelledQ i d] (IS SBoolKernel :: KRel :: BT)); try reflexivity.
              ** solve_core Hc.
              ** exact Hb.
              ** right. simpl. rewrite Hfsd. reflexivity.
              ** unfold rem_rel in *. simpl. exact Hr.
              ** apply stable_same; reflexivity.
              ** apply SC_HB1; simpl; [rewrite Ek; discriminate|exact Hd].
           ++ apply (Hbody _ _ [ICancelledQ i d] (IS SBoolKernel :: KRel :: BT)); try reflexivity.
              ** solve_core Hc.
              ** exact Hb.
              ** right. simpl. rewrite Hfsd. apply remove_id_nomem. exact Em.
              ** unfold rem_rel in *. simpl. exact Hr.
              ** apply stable_same; reflexivity.
              ** apply SC_HB1; simpl; [rewrite Ek; discriminate|exact Hd].
    + (* Zipper.handle_done: with self.lock *)
      core_rw Hc. destruct (lown cs) eqn:El; simpl; [exact I|].
      rewrite Hk.
      assert (Hbody : forall cs' h' p' k',
                Rcore h' cs' -> built cs' = true -> fsd_rel h' cs' -> rem_rel h' cs' ->
                thr cs' = upd (thr cs) t (norm false (p' ++ ICatch :: rest)) -> stable cs cs' ->
                segc cs' p' (k', lv_cb i d) -> visible_head (k', lv_cb i d) = true ->
                R (mkI h' (upd thr_i t ((k', lv_cb i d) :: st))) cs').
      { intros cs' h' p' k' H1 H2 H3 H4 H5 H6 H7 H8.
        apply (assemble2 thr_i cs cs' h' t (p' ++ ICatch :: rest)); auto.
        apply RT_cb; [exact H7|eapply R_thr_stable; eassumption]. }
      destruct (cdone cs) eqn:Ecd.
      * unfold resume. simpl. core_rw Hc. rewrite Ecd. simpl.
        apply (Hbody _ _ [IRelL] (KRel :: ZT)); try reflexivity.
        -- solve_core Hc.
        -- exact Hb.
        -- unfold fsd_rel in *. simpl. exact Hf.
        -- unfold rem_rel in *. simpl. exact Hr.
        -- apply stable_same; reflexivity.
        -- apply (SC_T _ d (lv_cb i d) (KRel :: ZT)); simpl; auto; lia.
      * unfold resume. simpl. core_rw Hc. rewrite Ecd. simpl.
        apply (Hbody _ _ [ICancelledQ i d] (IS SZipKernel :: KRel :: ZT)); try reflexivity.
        -- solve_core Hc.
        -- exact Hb.
        -- unfold fsd_rel in *. simpl. exact Hf.
        -- unfold rem_rel in *. simpl. exact Hr.
        -- apply stable_same; reflexivity.
        -- apply SC_HZ1; simpl; assumption.
    + (* a tail never starts with a with-block *)
      destruct (tail_head_cases k lv Ht Htop) as [Hh _]. destruct Hh as [r|r|r|r|r|r|r x cf Hcf]; simpl; try exact I.
      rewrite Hcf. simpl. unfold cancel_instr. destruct (Nat.eqb x out_id); simpl; exact I.
Qed.

(* ---- ERelL -------------------------------------------------------------------------------------------------- *)
Lemma ls2_rel s cs t : Rcore (sh s) cs -> R2 s cs -> lock_ok (ERelL t) (gstep s (ERelL t)) (step cs (ERelL t)).
Proof.
  intros Hc (Hb & Hf & Hr & Hall).
  destruct s as [h thr_i]. simpl in Hc, Hf, Hr, Hall.
  destruct (Hall t) as [HRt Htop].
  unfold gstep, istep, step. simpl.
  remember (thr cs t) as p eqn:Ep. remember (thr_i t) as st eqn:Est.
  destruct HRt as [|p fr Hs|p fr rest st Hs Hrest].
  - exact I.
  - destruct Hs; simpl in Htop; try discriminate Htop; simpl; try exact I.
  - destruct Hs as [i lv Hx|i lv Hx|lv|lv|lv|lv|lv|i d Hk Hd|i d Hk Hd|i d Hk Hd|i d Hk Hd|i d Hk Hd|i d Hk Hd|d lv k Hd Hfl Ht Hl];
      simpl in Htop; try discriminate Htop; simpl; try exact I.
    destruct (tail_head_cases k lv Ht Htop) as [Hh Htl]. destruct Hh as [r|r|r|r|r|r|r x cf Hcf]; simpl; try exact I.
    + (* the release *)
      core_rw Hc. destruct (lown cs) as [t'|] eqn:El; simpl; [|exact I].
      destruct (Nat.eqb t t') eqn:Et; simpl; [|exact I].
      apply (assemble_o thr_i cs _ _ t (tail_instrs (oc_of cs d) lv r ++ ICatch :: rest)).
      * solve_core Hc.
      * exact Hb.
      * unfold fsd_rel in *. simpl. exact Hf.
      * unfold rem_rel in *. simpl. exact Hr.
      * reflexivity.
      * apply stable_same; reflexivity.
      * exact Hall.
      * apply RT_cb; [|exact Hrest]. apply (SC_T _ d lv r); auto. simpl in Hl. lia.
    + rewrite Hcf. simpl. unfold cancel_instr. destruct (Nat.eqb x out_id); simpl; exact I.
Qed.

(* ---- ERet --------------------------------------------------------------------------------------------------- *)
Lemma ls2_ret s cs t c : Rcore (sh s) cs -> R2 s cs -> lock_ok (ERet t c) (gstep s (ERet t c)) (step cs (ERet t c)).
Proof.
  intros Hc (Hb & Hf & Hr & Hall).
  destruct s as [h thr_i]. simpl in Hc, Hf, Hr, Hall.
  destruct (Hall t) as [HRt Htop].
  unfold gstep, istep, step. simpl.
  remember (thr cs t) as p eqn:Ep. remember (thr_i t) as st eqn:Est.
  destruct HRt as [|p fr Hs|p fr rest st Hs Hrest].
  - exact I.
  - destruct Hs as [ |i lv Hi Hx Hfl|i lv Hi Hx Hfl|lv|j lv|lv Hret|  |b lv Hret]; simpl in Htop; try discriminate Htop; simpl; try exact I.
    + (* the constructor returns the output *)
      rewrite Hret. destruct (Nat.eqb c 0); simpl; [|exact I].
      unfold resume. simpl.
      apply (assemble2 thr_i cs _ _ t []).
      * solve_core Hc.
      * exact Hb.
      * unfold fsd_rel in *. simpl. exact Hf.
      * unfold rem_rel in *. simpl. exact Hr.
      * reflexivity.
      * apply stable_same; reflexivity.
      * exact Hall.
      * constructor.
      * exact I.
    + (* out.cancel() returns to its caller *)
      rewrite Hret. destruct (Nat.eqb c (if b then 2 else 1)); simpl; [|exact I].
      unfold resume. simpl.
      apply (assemble2 thr_i cs _ _ t []).
      * solve_core Hc.
      * exact Hb.
      * unfold fsd_rel in *. simpl. exact Hf.
      * unfold rem_rel in *. simpl. exact Hr.
      * reflexivity.
      * apply stable_same; reflexivity.
      * exact Hall.
      * constructor.
      * exact I.
  - destruct Hs as [i lv Hx|i lv Hx|lv|lv|lv|lv|lv|i d Hk Hd|i d Hk Hd|i d Hk Hd|i d Hk Hd|i d Hk Hd|i d Hk Hd|d lv k Hd Hfl Ht Hl];
      simpl in Htop; try discriminate Htop; simpl; try exact I.
    destruct (tail_head_cases k lv Ht Htop) as [Hh Htl]. destruct Hh as [r|r|r|r|r|r|r x cf Hcf]; simpl; try exact I.
    rewrite Hcf. simpl. unfold cancel_instr. destruct (Nat.eqb x out_id); simpl; exact I.
Qed.
