(* source facts of more_executors/_impl/helpers.py: what the translator finds now is what the models were written against *)
From Coq Require Import List String.
From ME Require Import Gen.Src_helpers Model.SrcExpected.
Lemma src_helpers_ok : Src_helpers.facts = expected_helpers.
Proof. reflexivity. Qed.
