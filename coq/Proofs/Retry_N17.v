(* C03 / C12 for the Retry machine, part 17: a CANCELLED retry future keeps no record in _jobs (quiescent states); hence
   no record of a DONE future is left in _jobs in a quiescent state.
   CK: once super().cancel() is pending for j (IFCancel j in some program) or j is cancelled, every record of j that is
   still in _jobs is about to be popped by some thread (wpop), is in flight on a cancelled delegate future, and no
   _delegate_callback chain works on j any more; no new record of j can appear. *)
From Coq Require Import List ZArith Bool Arith Lia.
From RecordUpdate Require Import RecordSet.
From ME Require Import Base.Machine Base.Fut Base.GenPrelude Gen.RetryGen Model.Retry Proofs.Retry_Spec.
From ME Require Proofs.Retry_InvA.
From ME Require Import Proofs.Retry_C0 Proofs.Retry_C1 Proofs.Retry_C2 Proofs.Retry_C3 Proofs.Retry_C4 Proofs.Retry_C5 Proofs.Retry_C6
  Proofs.Retry_C7 Proofs.Retry_C8 Proofs.Retry_C9 Proofs.Retry_C10 Proofs.Retry_C11 Proofs.Retry_C12 Proofs.Retry_C13
  Proofs.Retry_C17 Proofs.Retry_C18
  Proofs.Retry_N0 Proofs.Retry_N1 Proofs.Retry_N5 Proofs.Retry_N10 Proofs.Retry_N12 Proofs.Retry_N15 Proofs.Retry_N16.
Import ListNotations RecordSetNotations.
#[local] Arguments norm : simpl nomatch.

(* ---- no _delegate_callback chain works on j ---------------------------------------------------------------------- *)
Definition nochain (s : st) (j : nat) (i : instr) : Prop :=
  match i with
  | IXRetry r _ | IPolSR r | IPolST r => jf (recs s r) <> j
  | IDCbCancelled d r => jf (recs s r) = j -> fcancelled (ds s d) = true
  | _ => True
  end.

Lemma nochain_nh s j i : nh i = true -> nochain s j i.
Proof. destruct i; simpl; intros H; try discriminate H; exact I. Qed.

Lemma nochain_mono s s' j i : MONO s s' -> ipr s i -> nochain s j i -> nochain s' j i.
Proof.
  intros M. destruct i; simpl; auto.
  - intros (A & B & C & D & E) F G. rewrite (mo_jf _ _ M) in G by exact A. apply (mo_dcan _ _ M); auto.
  - intros (A & _). rewrite (mo_jf _ _ M) by exact A. auto.
  - intros (A & _). rewrite (mo_jf _ _ M) by exact A. auto.
  - intros (A & _). rewrite (mo_jf _ _ M) by exact A. auto.
Qed.

Lemma nochain_upd s s' j : MONO s s' -> PI s -> (forall u, Forall (nochain s j) (thr s u)) ->
  forall t p, (forall u, thr s' u = upd (thr s) t p u) -> Forall (nochain s' j) p ->
  forall u, Forall (nochain s' j) (thr s' u).
Proof.
  intros M HP H t p E Hp u. rewrite E. unfold upd. destruct (Nat.eqb u t); [exact Hp|].
  pose proof (pi_thr s HP u) as Q. pose proof (H u) as K. rewrite Forall_forall in *.
  intros i Hi. apply (nochain_mono s s' j i M); auto.
Qed.

Lemma nochain_cbs s j j' l : Forall (nochain s j) (cbs_prog j' l).
Proof. apply Forall_cbs; intros; exact I. Qed.

(* a step starts no chain on j, provided every queued in-flight record of j has a cancelled delegate future *)
Lemma nochain_step0 s e s' j : (forall t, Forall (nochain s j) (thr s t)) -> PI s ->
  (forall r d, In r (jobs s) -> jf (recs s r) = j -> jdel (recs s r) = Some d -> fdone (ds s d) = true ->
               fcancelled (ds s d) = true) ->
  step0 s e = Some s' -> forall t, Forall (nochain s' j) (thr s' t).
Proof.
  intros HT HP Hcan H. pose proof (MONO_step0 _ _ _ H) as HM.
  s0inv H; try exact HT.
  all: try (match goal with inl : option outcome |- _ => destruct inl end).
  all: bsplit; subst.
  all: match goal with Hq : thr _ ?t = _ |- _ => pose proof (HT t) as Tt; rewrite Hq in Tt; pose proof Tt as Tt0;
         pose proof (pi_thr s HP t) as Pt; rewrite Hq in Pt end.
  all: first [eapply (nochain_upd s _ _ HM HP HT); [intros u; reflexivity|]
             | intros u; pose proof (pi_thr s HP u) as Q; pose proof (HT u) as K; rewrite Forall_forall in *;
               intros i Hi; apply (nochain_mono s _ _ i HM); auto].
  all: try (apply Forall_norm; [exact I|]).
  all: match type of Tt with Forall _ ?p =>
         match goal with |- Forall (nochain ?B _) _ =>
           let Tm := fresh "Tm" in
           assert (Tm : Forall (nochain B j) p)
             by (rewrite Forall_forall in *; intros x Hx; apply (nochain_mono s _ _ x HM); auto) end end.
  all: repeat (match goal with H : Forall _ (_ :: _) |- _ => inversion H; subst; clear H end).
  all: try assumption.
  all: repeat (match goal with |- Forall _ (_ :: _) => apply Forall_cons end); try assumption; try exact I; try apply Forall_nil.
  all: clear HM; unfold log, set_prog in *; simpl in *.
  all: try assumption.
  all: try (match goal with |- context[if dcb ?s ?d then _ else _] => destruct (dcb s d); repeat constructor end).
  all: try (apply Forall_app; split; [apply nochain_cbs|assumption]).
  all: try (apply Forall_tl; assumption).
  all: repeat match goal with H : _ /\ _ |- _ => destruct H | H : exists _, _ |- _ => destruct H end.
  all: try congruence.
  - apply find_del_some in Heqo. destruct Heqo as [A B]. intros E. apply (Hcan n0 d0); assumption.
  - intros E. match goal with K : _ = _ -> fcancelled _ = true |- _ => apply K in E; congruence end.
Qed.

(* ---- where a pending super().cancel() comes from ------------------------------------------------------------------- *)
Definition scan_idle (s s' : st) (u j : nat) : Prop :=
  exists l r, thr s u = IXCancelScan j :: l /\ find_fut s j = Some r /\ jdel (recs s r) = None /\
              jobs s' = remove_id r (jobs s).
Definition dcancel_ok (s s' : st) (u j : nat) : Prop :=
  exists d r l f, thr s u = IDCancel j d r :: l /\ f_cancel (ds s d) = (f, true) /\
                  jobs s' = jobs s /\ ds s' = upd (ds s) d f /\ wpop r false (thr s' u) = true.

Lemma in_cbs_ifc j0 j l : ~ In (IFCancel j0) (cbs_prog j l).
Proof.
  induction l as [|c l IH]; simpl; [tauto|]. destruct c; simpl; intros [E|H]; try discriminate E; auto.
  destruct H as [E|H]; [discriminate E|auto].
Qed.

Lemma in_ifcancel_step s e s' u j : step0 s e = Some s' -> In (IFCancel j) (thr s' u) ->
  In (IFCancel j) (thr s u) \/ scan_idle s s' u j \/ dcancel_ok s s' u j.
Proof.
  intros H. s0inv H; auto.
  all: try (match goal with inl : option outcome |- _ => destruct inl end).
  all: bsplit; subst.
  all: intros Hin.
  all: try (left; exact Hin).
  all: match goal with Hq : thr _ ?t = _ |- _ =>
      destruct (Nat.eq_dec u t) as [->|Nu];
      [|left; unfold log, set_prog in Hin; simpl in Hin; rewrite upd_other in Hin by exact Nu; exact Hin] end.
  all: pose proof Hin as Hin0; unfold log, set_prog in Hin; simpl in Hin; rewrite ?upd_same in Hin.
  all: try (match type of Hin with context[if dcb ?s ?d then _ else _] => destruct (dcb s d) end).
  all: try (apply in_norm in Hin; destruct Hin as [Hin|Hin]; [|discriminate Hin]).
  all: try (apply in_app_iff in Hin; destruct Hin as [Hin|Hin]; [exfalso; eapply in_cbs_ifc; exact Hin|]).
  all: try (apply in_tl in Hin).
  all: simpl in Hin; repeat (destruct Hin as [Hin|Hin]; [try discriminate Hin|]); try contradiction.
  all: try (apply in_tl in Hin).
  all: try (match goal with Hq : thr _ ?t = _ :: _ |- _ => left; rewrite Hq; right; exact Hin end).
  all: try (inversion Hin; subst; clear Hin).
  - right. left. exists l, n. auto.
  - right. right. exists d0, r, l, f. repeat split; auto. rewrite thr_set_prog_same. simpl. rewrite Nat.eqb_refl. reflexivity.
  - right. right. exists d0, r, l, f. repeat split; auto. rewrite thr_set_prog_same. simpl. rewrite Nat.eqb_refl. reflexivity.
Qed.

Lemma rs_cancel_step s e s' j : step0 s e = Some s' -> j < nfut s' -> fcancelled (rs s' j) = true ->
  (j < nfut s /\ fcancelled (rs s j) = true) \/ exists t l, thr s t = IFCancel j :: l.
Proof.
  intros H. s0inv H; auto.
  all: try (match goal with inl : option outcome |- _ => destruct inl end).
  all: bsplit; subst.
  all: unfold log, set_prog; simpl; auto.
  all: intros Hj Hc.
  all: unfold upd in Hc; match type of Hc with context[Nat.eqb ?a ?b] => destruct (Nat.eqb a b) eqn:E end;
    [apply eqb_t in E; subst|try (left; split; [|exact Hc]; auto; apply Nat.eqb_neq in E; lia)].
  - discriminate Hc.
  - right. eauto.
  - left. split; [exact Hj|]. match type of Heqo with f_srnc ?x = _ => destruct x; simpl in *; inversion Heqo; subst; auto; discriminate end.
  - exfalso. match type of Heqo0 with f_set ?x = _ => destruct x; simpl in *; inversion Heqo0; subst; discriminate end.
Qed.

(* ---- the invariant --------------------------------------------------------------------------------------------------- *)
Definition PJ (s : st) (j : nat) : Prop :=
  (j < nfut s /\ fcancelled (rs s j) = true) \/ exists c, In (IFCancel j) (thr s c).
Record CKj (s : st) (j : nat) : Prop := {
  k_lt : j < nfut s;
  k_pop : forall r, In r (jobs s) -> jf (recs s r) = j -> exists c, wpop r false (thr s c) = true;
  k_can : forall r d, In r (jobs s) -> jf (recs s r) = j -> jdel (recs s r) = Some d -> fcancelled (ds s d) = true;
  k_thr : forall t, Forall (nochain s j) (thr s t)
}.
Definition CK (s : st) : Prop := forall j, PJ s j -> CKj s j.

(* the invariants of a reachable state this layer uses *)
Record Ctx (s : st) : Prop := {
  x_a : Retry_InvA.Inv s; x_jch : JCH s; x_d6 : D6 s; x_hi : HI s; x_mi : MI s; x_pi : PI s; x_ri : RI s;
  x_u : uniq s; x_pos : forall t, posok (thr s t) = true; x_bf : forall t, bfc s (thr s t) = true
}.

Lemma fcan_done x : fcancelled x = true -> fdone x = true.
Proof. destruct x; simpl; congruence. Qed.

(* no record of j enters _jobs once PJ holds *)
Lemma no_new_j s e s' j : Ctx s -> CKj s j -> PJ s j -> step0 s e = Some s' ->
  In (nrec s) (jobs s') -> nrec s' = S (nrec s) -> jf (recs s' (nrec s)) <> j.
Proof.
  intros X K P H Hin En E.
  destruct (new_rec s e s' H Hin En) as [N|[(t & r1 & delta & l & Et & N)|(t & r0 & l & Et & N)]].
  - pose proof (k_lt s j K). lia.
  - pose proof (k_thr s j K t) as Tt. rewrite Et in Tt. inversion Tt as [|? ? Th _]; subst. simpl in Th. congruence.
  - destruct P as [[_ Pc]|[c Pc]].
    + pose proof (x_hi s X _ _ _ Et) as Hh. simpl in Hh. destruct Hh as [_ Hn]. apply fcan_done in Pc. congruence.
    + assert (B1 : mown s j = Some c) by (eapply fc_owner; [apply (x_mi s X)|apply (x_bf s X)|exact Pc]).
      assert (B2 : mown s j = Some t).
      { eapply MI_head; [apply (x_mi s X)|exact Et|]. right. simpl. unfold jfs. rewrite <- N, E, Nat.eqb_refl. reflexivity. }
      assert (c = t) by congruence. subst c. rewrite Et in Pc. destruct Pc as [Pc|Pc]; [discriminate Pc|].
      pose proof (x_bf s X t) as B. rewrite Et in B. simpl in B. rewrite (in_hasfc _ _ Pc) in B. discriminate B.
Qed.

(* case A: PJ held before the step *)
Lemma CKj_keep s e s' j : Ctx s -> CKj s j -> PJ s j -> step0 s e = Some s' -> CKj s' j.
Proof.
  intros X K P H. pose proof (MONO_step0 _ _ _ H) as HM.
  destruct (Retry_InvA.step_ext _ _ _ H) as (_ & _ & _ & _ & Ej & _).
  pose proof (x_pi s X) as HP. pose proof (x_ri s X) as HR.
  assert (Old : forall r, In r (jobs s') -> jf (recs s' r) = j -> In r (jobs s) /\ jf (recs s r) = j /\ r < nrec s).
  { intros r Hr Ejf. destruct (Ej r Hr) as [Hr0|[-> En]].
    - pose proof (ri_jobs s HR r Hr0) as L. rewrite (mo_jf _ _ HM) in Ejf by exact L. auto.
    - exfalso. exact (no_new_j s e s' j X K P H Hr En Ejf). }
  constructor.
  - pose proof (mo_nfut _ _ HM). pose proof (k_lt s j K). lia.
  - intros r Hr Ejf. destruct (Old r Hr Ejf) as (Hr0 & Ej0 & _).
    destruct (k_pop s j K r Hr0 Ej0) as [c W].
    destruct (wpop_step s e s' r c (x_mi s X) H W) as [W'|N]; [exists c; exact W'|contradiction].
  - intros r d Hr Ejf Ed. destruct (Old r Hr Ejf) as (Hr0 & Ej0 & L).
    rewrite (mo_jdel _ _ HM) in Ed by exact L. apply (mo_dcan _ _ HM); [apply (pi_del s HP r d L Ed)|].
    exact (k_can s j K r d Hr0 Ej0 Ed).
  - apply (nochain_step0 s e s' j (k_thr s j K) HP); [|exact H].
    intros r d Hr Ej0 Ed _. exact (k_can s j K r d Hr Ej0 Ed).
Qed.

(* all chain instructions are heads *)
Lemma nochain_heads s j : (forall t, posok (thr s t) = true) ->
  (forall t i l, thr s t = i :: l -> nochain s j i) -> forall t, Forall (nochain s j) (thr s t).
Proof.
  intros HPos Hh t. destruct (thr s t) as [|i l] eqn:E; [constructor|]. constructor; [eapply Hh; exact E|].
  pose proof (HPos t) as P. rewrite E in P. unfold posok in P. simpl in P. rewrite forallb_forall in P.
  apply Forall_forall. intros x Hx. apply nochain_nh, P, Hx.
Qed.

(* case B: the X-section of executor._cancel has removed the idle record of j *)
Lemma CKj_scan s e s' u j : Ctx s -> step0 s e = Some s' -> scan_idle s s' u j -> CKj s' j.
Proof.
  intros X H (l & r0 & Eu & Ef & Ed & Ejobs). pose proof (MONO_step0 _ _ _ H) as HM.
  pose proof (x_pi s X) as HP. pose proof (x_ri s X) as HR.
  apply find_fut_some in Ef. destruct Ef as [Rin Rj].
  pose proof (x_hi s X _ _ _ Eu) as Hnd. simpl in Hnd.
  assert (Only : forall r, In r (jobs s) -> jf (recs s r) = j -> r = r0).
  { intros r Hr E. destruct (x_u s X r r0 Hr Rin) as [A|A]; [congruence|exact A|congruence]. }
  assert (None' : forall r, In r (jobs s') -> jf (recs s' r) = j -> False).
  { intros r Hr E. rewrite Ejobs in Hr. apply in_remove_id in Hr. destruct Hr as [Hr Nr].
    rewrite (mo_jf _ _ HM) in E by (apply (ri_jobs s HR); exact Hr). apply Nr, Only; assumption. }
  constructor.
  - pose proof (head_ipr s u _ _ HP Eu) as Hi. simpl in Hi. pose proof (mo_nfut _ _ HM). lia.
  - intros r Hr E. exfalso. eapply None'; eassumption.
  - intros r d Hr E. exfalso. eapply None'; eassumption.
  - apply (nochain_step0 s e s' j); [|exact HP| |exact H].
    + apply nochain_heads; [apply (x_pos s X)|]. intros t i l0 Et.
      pose proof (head_ipr s t i l0 HP Et) as Hi.
      assert (Q0 : Retry_InvA.qlive (jobs s) (recs s) (thr s) r0) by (left; auto).
      assert (Bad : forall d1, d1 < ndel s -> dfor s d1 = j -> Retry_InvA.tok_of (recs s) i = Some d1 -> False).
      { intros d1 Ld Efo Etok. apply (Retry_InvA.i_rd s (x_a s X) r0 d1 Q0); [|congruence].
        right. exists t, i. split; [rewrite Et; left; reflexivity|exact Etok]. }
      destruct i; simpl; try exact I; simpl in Hi.
      * destruct Hi as (A & B & C & D & E). intros Ejf. destruct (fcancelled (ds s d)) eqn:Ec; [reflexivity|exfalso].
        destruct (pi_del s HP r d A B) as [_ Efo]. apply (Bad d C); [congruence|reflexivity].
      * destruct Hi as (A & d1 & B & C & _). intros Ejf. destruct (pi_del s HP r d1 A B) as [_ Efo].
        apply (Bad d1 C); [congruence|simpl; exact B].
      * destruct Hi as (A & d1 & B & C & _). intros Ejf. destruct (pi_del s HP r d1 A B) as [_ Efo].
        apply (Bad d1 C); [congruence|simpl; exact B].
      * destruct Hi as (A & d1 & B & C & _). intros Ejf. destruct (pi_del s HP r d1 A B) as [_ Efo].
        apply (Bad d1 C); [congruence|simpl; exact B].
    + intros r d Hr E Edl _. rewrite (Only r Hr E) in Edl. congruence.
Qed.

Lemma done_not_can x : fdone x = true -> fcancelled x = false -> x = Finished.
Proof. destruct x; simpl; congruence. Qed.

(* case C: delegate_future.cancel() has just answered True *)
Lemma CKj_dcancel s e s' u j : Ctx s -> step0 s e = Some s' -> dcancel_ok s s' u j -> CKj s' j.
Proof.
  intros X H (d & r & l & f & Eu & Ef & Ejobs & Eds & W). pose proof (MONO_step0 _ _ _ H) as HM.
  pose proof (x_pi s X) as HP. pose proof (x_ri s X) as HR.
  pose proof (head_ipr s u _ _ HP Eu) as Hi. simpl in Hi. destruct Hi as (Lr & Edr & Ejr & Ld).
  pose proof (x_hi s X _ _ _ Eu) as Hnd. simpl in Hnd.
  assert (NF : ds s d <> Finished) by (intros E; rewrite E in Ef; discriminate Ef).
  assert (Only : forall r', In r' (jobs s) -> jf (recs s r') = j -> r' = r).
  { destruct (x_d6 s X u j d r l Eu Hnd) as [A|A]; [exact A|contradiction]. }
  assert (Old : forall r', In r' (jobs s') -> jf (recs s' r') = j -> r' = r).
  { intros r' Hr E. rewrite Ejobs in Hr. rewrite (mo_jf _ _ HM) in E by (apply (ri_jobs s HR); exact Hr). auto. }
  constructor.
  - pose proof (pi_jf s HP r Lr). pose proof (mo_nfut _ _ HM). lia.
  - intros r' Hr E. rewrite (Old r' Hr E). exists u. exact W.
  - intros r' d' Hr E Ed'. rewrite (Old r' Hr E) in Ed'. rewrite (mo_jdel _ _ HM) in Ed' by exact Lr.
    assert (d' = d) by congruence. subst d'. rewrite Eds, upd_same. eapply f_cancel_can; exact Ef.
  - apply (nochain_step0 s e s' j); [|exact HP| |exact H].
    + apply nochain_heads; [apply (x_pos s X)|]. intros t i l0 Et.
      pose proof (head_ipr s t i l0 HP Et) as Hi.
      assert (Bad : forall r1 d1, chr i = Some r1 -> jf (recs s r1) = j -> jdel (recs s r1) = Some d1 ->
                    ds s d1 = Finished -> False).
      { intros r1 d1 C Ejf Ed1 Fd1.
        assert (In1 : In r1 (jobs s)).
        { eapply (x_jch s X t i l0 r1 Et C); [rewrite Ejf; exact Hnd|intros dd Hdd; congruence]. }
        assert (r1 = r) by (apply Only; assumption). subst r1. assert (d1 = d) by congruence. subst d1. contradiction. }
      destruct i; simpl; try exact I; simpl in Hi.
      * destruct Hi as (A & B & C & D & E). intros Ejf. destruct (fcancelled (ds s d0)) eqn:Ec; [reflexivity|exfalso].
        apply (Bad r0 d0 eq_refl Ejf B). apply done_not_can; assumption.
      * destruct Hi as (A & d1 & B & C & D & _). intros Ejf. exact (Bad r0 d1 eq_refl Ejf B D).
      * destruct Hi as (A & d1 & B & C & D & _). intros Ejf. exact (Bad r0 d1 eq_refl Ejf B D).
      * destruct Hi as (A & d1 & B & C & D & _). intros Ejf. exact (Bad r0 d1 eq_refl Ejf B D).
    + intros r' d' Hr E Ed' Hdn. rewrite (Only r' Hr E) in Ed'. assert (d' = d) by congruence. subst d'.
      destruct (fcancelled (ds s d)) eqn:Ec; [reflexivity|exfalso]. apply NF. apply done_not_can; assumption.
Qed.

Lemma CK_step0 s e s' : CK s -> Ctx s -> step0 s e = Some s' -> CK s'.
Proof.
  intros HK X H j [[Hj Hc]|[c Hin]].
  - destruct (rs_cancel_step s e s' j H Hj Hc) as [[Hj0 Hc0]|(t & l & Et)].
    + assert (P : PJ s j) by (left; auto). exact (CKj_keep s e s' j X (HK j P) P H).
    + assert (P : PJ s j) by (right; exists t; rewrite Et; left; reflexivity). exact (CKj_keep s e s' j X (HK j P) P H).
  - destruct (in_ifcancel_step s e s' c j H Hin) as [Hin0|[B|C]].
    + assert (P : PJ s j) by (right; exists c; exact Hin0). exact (CKj_keep s e s' j X (HK j P) P H).
    + exact (CKj_scan s e s' c j X H B).
    + exact (CKj_dcancel s e s' c j X H C).
Qed.

Lemma Ctx_reach_tick s ts : reachable_from step init s -> (clock s <= ts)%Z -> Ctx (s <| clock := ts |>).
Proof.
  intros R Hc. constructor.
  - apply Retry_InvA.inv_tick; [apply Retry_InvA.reachable_inv; exact R|exact Hc].
  - exact (JCH_reach s R).
  - exact (D6_reach s R).
  - apply HI_tick, HI_reach, R.
  - apply MI_tick, MI_reach, R.
  - apply PI_tick, PI_reach, R.
  - apply RI_tick, RI_reach, R.
  - exact (proj1 (JU_reach s R)).
  - exact (POS_reach s R).
  - intros t. simpl. rewrite bfc_tick. apply (BF_reach s R).
Qed.

Lemma CK_tick s ts : CK s -> CK (s <| clock := ts |>).
Proof.
  intros HK j P. destruct (HK j P) as [A B C D]. constructor; [exact A|exact B|exact C|].
  intros t. eapply Forall_impl; [|apply D]. intros i. destruct i; simpl; auto.
Qed.

Lemma CK_reach s : reachable_from step init s -> CK s.
Proof.
  apply (invariant_rule_r step CK).
  - intros j [[Hj _]|[c Hin]]; [simpl in Hj; lia|destruct Hin].
  - intros s0 e s' R IH H. apply step_split in H. destruct H as (s1 & Ht & H).
    pose proof Ht as Ht'. apply tick_eq in Ht. subst s1.
    unfold tick in Ht'. destruct (Z.leb (clock s0) (fst e)) eqn:Ec; [|discriminate Ht']. apply Z.leb_le in Ec.
    apply (CK_step0 (s0 <| clock := fst e |>) (snd e) s'); [apply CK_tick; exact IH|apply Ctx_reach_tick; [exact R|exact Ec]|exact H].
Qed.

(* a CANCELLED retry future: every record of it that is still in _jobs is about to be popped ... *)
Lemma retry_cancelled_job_popped s : reachable_from step init s -> forall r, In r (jobs s) ->
  fcancelled (rs s (jf (recs s r))) = true -> exists c, wpop r false (thr s c) = true.
Proof.
  intros R r Hin Hc.
  assert (Hj : jf (recs s r) < nfut s) by (apply (pi_jf s (PI_reach s R)), (ri_jobs s (RI_reach s R)); exact Hin).
  exact (k_pop s _ (CK_reach s R _ (or_introl (conj Hj Hc))) r Hin eq_refl).
Qed.

(* ... hence (c), full: in a reachable quiescent state NO record of a done future is left in _jobs *)
Lemma retry_done_has_no_job s tau since : reachable_from step init s -> quiescent s tau since ->
  forall r, In r (jobs s) -> fdone (rs s (jf (recs s r))) = false.
Proof.
  intros R Q r Hin. destruct (fdone (rs s (jf (recs s r)))) eqn:E; [exfalso|reflexivity].
  destruct (fcancelled (rs s (jf (recs s r)))) eqn:Ec.
  - destruct (retry_cancelled_job_popped s R r Hin Ec) as [c W].
    destruct (quiescent_prog s tau since R Q c) as [Ep|Ep]; rewrite Ep in W; discriminate W.
  - apply (retry_finished_has_no_job s tau since R Q r Hin). apply done_not_can; assumption.
Qed.

(* the converse reading: a retry future with a record in _jobs is not done; with retry_no_lost_3 the records in _jobs of
   a quiescent state are exactly the records of the futures that are not done, one each *)
Lemma retry_jobs_are_pending s tau since : reachable_from step init s -> quiescent s tau since ->
  forall j, fdone (rs s j) = true -> forall r, In r (jobs s) -> jf (recs s r) <> j.
Proof.
  intros R Q j Hd r Hin E. pose proof (retry_done_has_no_job s tau since R Q r Hin) as X. congruence.
Qed.

(* in a quiescent state EVERY in-flight record in _jobs belongs to a retry future that is not done, and its delegate
   future is not done with _delegate_callback registered, or was cancelled by somebody else *)
Lemma retry_inflight_at_quiescence2 s tau since : reachable_from step init s -> quiescent s tau since ->
  forall r d, In r (jobs s) -> jdel (recs s r) = Some d ->
  d < ndel s /\ fdone (rs s (jf (recs s r))) = false /\
  ((fdone (ds s d) = false /\ dcb s d = true) \/ (fcancelled (ds s d) = true /\ envc s d)).
Proof.
  intros R Q r d Hin Hjd. destruct (retry_inflight_at_quiescence s tau since R Q r d Hin Hjd) as (A & B).
  split; [exact A|]. split; [exact (retry_done_has_no_job s tau since R Q r Hin)|].
  destruct B as [(B1 & B2 & _)|B]; [left; auto|right; exact B].
Qed.

(* the residue statement of the earlier development (now vacuous: its premise is impossible) *)
Lemma retry_done_job_residue_orig s tau since : reachable_from step init s -> quiescent s tau since ->
  forall r, In r (jobs s) -> fdone (rs s (jf (recs s r))) = true ->
  jdel (recs s r) = None /\ fcancelled (rs s (jf (recs s r))) = true.
Proof.
  intros R Q r Hin Hdn. pose proof (retry_done_has_no_job s tau since R Q r Hin) as X. congruence.
Qed.
