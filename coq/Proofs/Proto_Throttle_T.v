(* C02 / Throttle, part T: the Future-protocol clauses of the ThrottleFuture in the machine's own vocabulary. *)
From Coq Require Import ZArith List Bool Arith Lia.
From RecordUpdate Require Import RecordSet.
From ME Require Import Base.Machine Base.Fut Base.GenPrelude Gen.ThrottleGen Model.Throttle
  Proofs.Throttle_Inv Proofs.Throttle_L1b Proofs.Throttle_U3 Proofs.Proto_Gen
  Proofs.Proto_Throttle_P Proofs.Proto_Throttle_P1 Proofs.Proto_Throttle_P2 Proofs.Proto_Throttle_V.
Import ListNotations RecordSetNotations.

(* ---- (a) terminal once ------------------------------------------------------------------------------------ *)
Lemma throttle_stable s : reachable s -> forall es s', run step s es = Some s' -> forall j, fdone (ms s j) = true ->
  frefines (ms s j) (ms s' j) /\ mout s' j = mout s j.
Proof.
  intros Hr es s' Hrun j Hd.
  destruct (sys_stable outcome step init view_of view_init step_vstep es s s' Hr Hrun j Hd) as [A [B _]]. auto.
Qed.
Lemma throttle_outcome_iff s : reachable s -> forall j,
  (ms s j = Finished <-> exists o, mout s j = Some o) /\ (fcancelled (ms s j) = true -> mout s j = None) /\
  (nfut s <= j -> ms s j = Pending /\ mout s j = None).
Proof.
  intros Hr j. pose proof (throttle_vinv s Hr) as I. split; [split|split].
  - intros Hf. destruct (vi_fin _ _ I j Hf) as [o [A _]]. exists o. exact A.
  - intros [o Ho]. exact (vi_out _ _ I j o Ho).
  - intros Hc. destruct (mout s j) as [o|] eqn:E; [|reflexivity]. pose proof (vi_out _ _ I j o E) as Hf. simpl in Hf.
    rewrite Hf in Hc. discriminate.
  - exact (vi_fresh _ _ I j).
Qed.

Lemma hist_split_pmap l1 h l2 : pmap pe (l1 ++ h :: l2) = pmap pe l1 ++ pmap pe (h :: l2).
Proof. apply pmap_app. Qed.

Lemma throttle_final_once s : reachable s -> forall l1 j o ts l2, hist s = l1 ++ HFinal j o ts :: l2 ->
  (forall o' ts', ~ In (HFinal j o' ts') l1) /\ (forall o' ts', ~ In (HFinal j o' ts') l2) /\
  (forall ts', ~ In (HCancelled j ts') l1) /\ (forall ts', ~ In (HCancelled j ts') l2) /\
  (forall ts', ~ In (HCancelRet j true ts') l1) /\ (forall ts', ~ In (HCancelRet j true ts') l2) /\
  ms s j = Finished /\ mout s j = Some o.
Proof.
  intros Hr l1 j o ts l2 E. pose proof (throttle_vinv s Hr) as I.
  assert (E' : vh (view_of s) = pmap pe l1 ++ PSet j o :: pmap pe l2) by (simpl; rewrite E, pmap_app; reflexivity).
  destruct (vinv_set_once _ _ I _ _ _ _ E') as [A1 [A2 [A3 [A4 [A5 [A6 [A7 A8]]]]]]].
  repeat split; auto; intros; intro Hin.
  - eapply A1. eapply in_pmap; [exact Hin|reflexivity].
  - eapply A2. eapply in_pmap; [exact Hin|reflexivity].
  - eapply A3. eapply in_pmap; [exact Hin|reflexivity].
  - eapply A4. eapply in_pmap; [exact Hin|reflexivity].
  - eapply A5. eapply in_pmap; [exact Hin|reflexivity].
  - eapply A6. eapply in_pmap; [exact Hin|reflexivity].
Qed.

(* the state of a done future is justified by the history *)
Lemma throttle_done_justified s : reachable s -> forall j,
  (ms s j = Finished -> exists o ts, mout s j = Some o /\ In (HFinal j o ts) (hist s)) /\
  (fcancelled (ms s j) = true -> exists ts, In (HCancelled j ts) (hist s)).
Proof.
  intros Hr j. pose proof (throttle_vinv s Hr) as I. split.
  - intros Hf. destruct (vi_fin _ _ I j Hf) as [o [A B]]. simpl in B. destruct (in_pmap_inv _ _ _ B) as [h [Hin Hp]].
    destruct h; simpl in Hp; inversion Hp; subst. eauto.
  - intros Hc. pose proof (vi_canc _ _ I j Hc) as B. simpl in B. destruct (in_pmap_inv _ _ _ B) as [h [Hin Hp]].
    destruct h; simpl in Hp; inversion Hp; subst. eauto.
Qed.

(* ---- (b) cancel() ---------------------------------------------------------------------------------------- *)
Lemma throttle_cancel_true_stays s : reachable s -> forall j ts, In (HCancelRet j true ts) (hist s) ->
  fcancelled (ms s j) = true /\ mout s j = None /\
  forall es s', run step s es = Some s' -> fcancelled (ms s' j) = true /\ mout s' j = None.
Proof.
  intros Hr j ts Hin. pose proof (throttle_vinv s Hr) as I.
  assert (Hc : fcancelled (ms s j) = true).
  { apply (vi_hret _ _ I j). simpl. eapply in_pmap; [exact Hin|reflexivity]. }
  destruct (throttle_outcome_iff s Hr j) as [_ [Ho _]]. split; [exact Hc|]. split; [auto|].
  intros es s' Hrun. assert (Hd : fdone (ms s j) = true) by (destruct (ms s j); simpl in *; congruence).
  destruct (throttle_stable s Hr es s' Hrun j Hd) as [A B]. rewrite <- (frefines_cancelled _ _ A), B. auto.
Qed.
Lemma throttle_cancel_false_on_finished s : reachable s -> forall l1 j b ts l2, hist s = l1 ++ HCancelRet j b ts :: l2 ->
  (exists o ts', In (HFinal j o ts') l2) -> b = false.
Proof.
  intros Hr l1 j b ts l2 E [o [ts' Hin]]. pose proof (throttle_vinv s Hr) as I.
  assert (E' : vh (view_of s) = pmap pe l1 ++ PCancelRet j b :: pmap pe l2) by (simpl; rewrite E, pmap_app; reflexivity).
  apply (vinv_ret_after_set _ _ I _ _ _ _ E'). exists o. eapply in_pmap; [exact Hin|reflexivity].
Qed.
Lemma throttle_no_outcome_after_true s : reachable s -> forall l1 j ts l2, hist s = l1 ++ HCancelRet j true ts :: l2 ->
  forall o ts', ~ In (HFinal j o ts') l1.
Proof.
  intros Hr l1 j ts l2 E o ts' Hin. pose proof (throttle_vinv s Hr) as I.
  assert (E' : vh (view_of s) = pmap pe l1 ++ PCancelRet j true :: pmap pe l2) by (simpl; rewrite E, pmap_app; reflexivity).
  apply (vinv_no_set_after_true _ _ I _ _ _ E' o). eapply in_pmap; [exact Hin|reflexivity].
Qed.

(* the program of a thread inside cancel(): cancel-body instructions, closed by the instruction that returns the bool *)
Lemma cprog_spec j p : cprog j p = true -> exists body c, p = body ++ [c] /\ forallb cbody body = true /\ closer j c = true.
Proof.
  induction p as [|i r IH]; [discriminate|]. intros Hc. destruct (cprog_head _ _ _ Hc) as [[-> Hx]|[Hb Hr]].
  - exists [], i. auto.
  - destruct (IH Hr) as [body [c [-> [A B]]]]. exists (i :: body), c. simpl. rewrite Hb, A. auto.
Qed.
Lemma cbody_safe i : cbody i = true -> i <> IRetRaise /\ i <> IRet /\ i <> IRetJoin /\ (forall k, i <> IAcqG k) /\ (forall tau k, i <> IWait tau k).
Proof. destruct i; simpl; try discriminate; repeat split; intros; discriminate. Qed.
Lemma throttle_cancel_never_raises s : reachable s -> forall t j, cancelling s t = Some j ->
  j < nfut s /\
  (exists body c, thr s t = body ++ [c] /\ forallb cbody body = true /\ closer j c = true) /\
  ~ In IRetRaise (thr s t).
Proof.
  intros Hr t j Hc. pose proof (invP_reachable s Hr) as IP. split; [exact (p_cn _ IP _ _ Hc)|].
  pose proof (p_wf _ IP t) as Hw. rewrite Hc in Hw. destruct (wfp_split _ _ _ Hw) as [_ [_ A3]].
  destruct (cprog_spec _ _ A3) as [body [c [E [A B]]]]. split; [exists body, c; auto|].
  rewrite E. intros Hin. apply in_app_or in Hin. destruct Hin as [Hin|[Hx|[]]].
  - rewrite forallb_forall in A. specialize (A _ Hin). discriminate.
  - subst c. discriminate.
Qed.
(* the API return of a thread inside cancel() is a bool, and it is the recorded one *)
Lemma throttle_cancel_returns_bool s ts t c s' : reachable s -> step s (ts, ERet t c) = Some s' ->
  forall j, cancelling s t = Some j ->
  (c = 1 \/ c = 2) /\ hist s' = HCancelRet j (Nat.eqb c 2) ts :: hist s /\ cancelling s' t = None.
Proof.
  intros Hr Hx j Hc. pose proof (invP_reachable s Hr) as IP.
  pose proof (p_wf _ IP t) as Hw. rewrite Hc in Hw. destruct (wfp_split _ _ _ Hw) as [_ [_ A3]].
  unfold step in Hx. simpl in Hx. unfold tick in Hx. destruct (Z.leb (clock s) ts); [|discriminate].
  unfold do_ret in Hx. simpl in Hx. rewrite Hc in Hx.
  destruct (thr s t) as [|i rest] eqn:Et; [discriminate|].
  destruct (cprog_head _ _ _ A3) as [[-> Hcl]|[Hb _]].
  - destruct i; try discriminate. destruct b.
    + destruct (Nat.eqb c 2) eqn:E; [|discriminate]. apply Nat.eqb_eq in E. subst. inv_some Hx. simpl.
      rewrite upd_same. auto.
    + destruct (Nat.eqb c 1) eqn:E; [|discriminate]. apply Nat.eqb_eq in E. subst. inv_some Hx. simpl.
      rewrite upd_same. auto.
  - destruct i; simpl in Hb; discriminate.
Qed.

(* ---- (c) a cancelled future is notified ------------------------------------------------------------------- *)
Lemma throttle_cancelled_notified s : reachable s -> forall j, ms s j = Cancelled -> exists t, In (IFSrnc j) (thr s t).
Proof.
  intros Hr j Hj. destruct (p_notif _ (invP_reachable s Hr) j Hj) as [t Ht]. exists t. apply has_srnc_in. exact Ht.
Qed.
Lemma throttle_at_rest_notified s : reachable s -> all_idle_parked s -> forall j, ms s j <> Cancelled.
Proof.
  intros Hr [Hi Hh] j Hj. destruct (throttle_cancelled_notified s Hr j Hj) as [t Hin].
  destruct (Nat.eq_dec t H) as [->|Hne]; [rewrite Hh in Hin|rewrite (Hi t Hne) in Hin]; simpl in Hin; intuition discriminate.
Qed.

(* ---- witnesses --------------------------------------------------------------------------------------------- *)
Definition pevs (w : list (list Z)) : list (Z * ev) := match decode_all w with Some es => es | None => [] end.
Local Open Scope Z_scope.

(* limit 1, static, non-blocking; thread 1 submits jobs 0, 1, 2; the hand-over thread hands job 0 to the delegate
   (future 0) and parks; thread 2 cancels the queued job 1 (True); thread 3 completes delegate future 0 with value 7:
   its callbacks free the slot and resolve throttle future 0 *)
Definition proto_prefix : list (list Z) :=
  [[0; 0; 0; 0; 0; 1]; [0; 1];
   [0; 3; 1]; [0; 12; 1]; [0; 23; 1]; [0; 29; 1]; [0; 13; 1]; [0; 7; 1; 0];
   [0; 3; 1]; [0; 12; 1]; [0; 23; 1]; [0; 29; 1]; [0; 13; 1]; [0; 7; 1; 0];
   [0; 3; 1]; [0; 12; 1]; [0; 23; 1]; [0; 29; 1]; [0; 13; 1]; [0; 7; 1; 0];
   [0; 24; 0]; [0; 26; 0; 0]; [0; 31; 0]; [0; 27; 0]; [0; 28; 0]; [0; 26; 0; 1]; [0; 25; 0];
   [0; 15; 0; 0; 0; 0; 0]; [0; 11; 0; 5; 0; 0]; [0; 8; 0; 0]; [0; 9; 0; 0]; [0; 11; 0; 5; 0; 0];
   [0; 26; 0; 1]; [0; 16; 0; 0]; [0; 18; 0];
   [0; 24; 0]; [0; 26; 0; 1]; [0; 25; 0]; [0; 26; 0; 1]; [0; 16; 0; 1];
   [1; 4; 2; 1]; [1; 8; 2; 1]; [1; 10; 2; 0; 1; 0]; [1; 10; 2; 1; 1; 0]; [1; 23; 2];
   [1; 10; 2; 2; 1; 0]].
Definition proto_cancel_rest : list (list Z) := [[1; 10; 2; 3; 1; 2]; [1; 9; 2; 1]; [1; 7; 2; 2]].
Definition proto_finish : list (list Z) :=
  [[2; 21; 3; 0; 0; 0; 7]; [2; 27; 3]; [2; 28; 3]; [2; 29; 3]; [2; 8; 3; 0]; [2; 9; 3; 0]; [2; 11; 3; 0; 0; 4];
   [2; 8; 3; 0]; [2; 10; 3; 4; 0; 0]; [2; 9; 3; 0]].
Definition proto_trace : list (list Z) := proto_prefix ++ proto_cancel_rest ++ proto_finish.

(* one finished, one cancelled (and notified), one pending future, at rest; cancel() of the cancelled one returned True *)
Lemma proto_rest_example :
  exists s, reachable s /\ all_idle_parked s /\
            ms s 0 = Finished /\ mout s 0 = Some (Ok 7) /\ ms s 1 = CancelledNotified /\ mout s 1 = None /\
            ms s 2 = Pending /\ nfut s = 3%nat /\
            hist s = HFinal 0 (Ok 7) 2 :: HDecr 0 0 2 :: HDDone 0 2 :: HCancelRet 1 true 1 :: HCancelled 1 1 :: HCancelQ 1 1 ::
                     skipn 6 (hist s).
Proof.
  eexists. split; [exists (pevs proto_trace); vm_compute; reflexivity|].
  split; [split; [intros u Hu; destruct u as [|[|[|[|u]]]]; [contradiction Hu; reflexivity|reflexivity|reflexivity|reflexivity|reflexivity]|reflexivity]|].
  repeat split; reflexivity.
Qed.

(* the literal "the state of a done future never changes" is false: CANCELLED becomes CANCELLED_AND_NOTIFIED *)
Lemma proto_state_frozen_refuted :
  exists s e s' j, reachable s /\ step s e = Some s' /\ fdone (ms s j) = true /\ ms s j = Cancelled /\ ms s' j = CancelledNotified.
Proof.
  destruct (run step init (pevs proto_prefix)) as [s|] eqn:E; [|vm_compute in E; discriminate].
  exists s, (1, EFM 2 3 1 Cancelled). assert (Hs : run step init (pevs proto_prefix) = Some s) by exact E.
  vm_compute in E. inversion E; subst. eexists. exists 1%nat.
  split; [exists (pevs proto_prefix); vm_compute; reflexivity|].
  split; [vm_compute; reflexivity|]. repeat split; reflexivity.
Qed.

(* a thread inside cancel(): thread 2 between `super().cancel()` and `set_running_or_notify_cancel()` *)
Lemma proto_cancel_example :
  exists s, reachable s /\ cancelling s 2 = Some 1%nat /\ thr s 2 = [IFSrnc 1; IRelMCbs 1; IRetB true] /\ ms s 1 = Cancelled.
Proof.
  eexists. split; [exists (pevs proto_prefix); vm_compute; reflexivity|]. repeat split; reflexivity.
Qed.
