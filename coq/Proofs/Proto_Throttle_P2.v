(* C02 / Throttle, part P2: InvP is preserved by cancel(), by the stdlib methods on the throttle future and by the
   allocation of a new future; InvP holds in every reachable state. *)
From Coq Require Import ZArith List Bool Arith Lia.
From RecordUpdate Require Import RecordSet.
From ME Require Import Base.Machine Base.Fut Base.GenPrelude Gen.ThrottleGen Model.Throttle
  Proofs.Throttle_Inv Proofs.Throttle_L1b Proofs.Proto_Throttle_P Proofs.Proto_Throttle_P1.
Import ListNotations RecordSetNotations.

(* what the invariant says about a thread whose head is a cancel-only instruction *)
Lemma head_conly s t i rest : InvP s -> thr s t = i :: rest -> conly i = true ->
  exists jc, cancelling s t = Some jc /\ jc < nfut s /\ cprog jc (i :: rest) = true /\ pok (nfut s) i = true.
Proof.
  intros IP Et Hc. pose proof (p_wf _ IP t) as Hw. rewrite Et in Hw. destruct (wfp_split _ _ _ Hw) as [A1 [_ A3]].
  simpl in A1. apply andb_prop in A1. destruct A1 as [A1 _].
  destruct (cancelling s t) as [jc|] eqn:Ec.
  - exists jc. split; [reflexivity|]. split; [exact (p_cn _ IP _ _ Ec)|]. auto.
  - exfalso. simpl in A3. apply andb_prop in A3. destruct A3 as [A3 _]. unfold nonc in A3. rewrite Hc in A3. discriminate.
Qed.
(* ... that is the closing instruction of cancel(): nothing follows it *)
Lemma head_closer s t i rest : InvP s -> thr s t = i :: rest -> conly i = true -> cbody i = false ->
  exists jc, cancelling s t = Some jc /\ jc < nfut s /\ rest = [] /\ closer jc i = true.
Proof.
  intros IP Et Hc Hb. destruct (head_conly _ _ _ _ IP Et Hc) as [jc [A [B [C _]]]]. exists jc.
  destruct (cprog_head _ _ _ C) as [[D E]|[D _]]; [auto|congruence].
Qed.

Lemma ltb_of a b : a < b -> (a <? b) = true. Proof. intros. apply Nat.ltb_lt. assumption. Qed.

(* the whole program of a canceller is replaced (its old program was the closing instruction alone) *)
Lemma invP_closer s s1 t i jc p :
  InvP s -> thr s1 = thr s -> pview s1 = pview s -> thr s t = [i] -> cancelling s t = Some jc ->
  conly i = true -> cbody i = false ->
  forallb (pok (nfut s)) p = true -> pairs p = true -> cprog jc p = true ->
  (guard jc p = true \/ fcancelled (ms s jc) = true) ->
  InvP (set_prog s1 t p).
Proof.
  intros IP Et Ev Ep Ec Hc Hs Hk Hp Hcp Hg.
  apply (invP_set s); auto.
  - rewrite Ec. apply wfp_join; auto.
  - intros j Hj. rewrite Ec in Hj. inversion Hj; subst. exact Hg.
  - intros j Hj. rewrite Ep in Hj. simpl in Hj. rewrite orb_false_r in Hj.
    destruct i; simpl in Hc, Hs, Hj; discriminate.
Qed.

Ltac closer_step IP s t jc Ep Ec Hjc :=
  eapply (invP_closer s _ t _ jc _ IP); [reflexivity|reflexivity|exact Ep|exact Ec|reflexivity|reflexivity|..];
  simpl; rewrite ?(ltb_of _ _ Hjc), ?Nat.eqb_refl; auto.

Lemma do_call_cancel_invP s t j s' : InvP s -> do_call_cancel s t j = Some s' -> InvP s'.
Proof.
  intros IP Hx. unfold do_call_cancel in Hx. brk Hx. inv_some Hx.
  match goal with E : _ && _ = true |- _ => apply andb_prop in E; destruct E as [Ei Ej] end.
  pose proof (idle_nil _ _ Ei) as Et.
  apply (invP_step s _ t [IAcqM j; ICancelled j] IP); unfold set_prog; simpl; auto.
  - intros u Hne. rewrite upd_other by exact Hne. reflexivity.
  - exact (p_fresh _ IP).
  - rewrite upd_same. unfold wfp. simpl. rewrite Ej, Nat.eqb_refl. reflexivity.
  - intros j0. rewrite upd_same. intros Hj. inversion Hj; subst. split; [apply Nat.ltb_lt; exact Ej|left; reflexivity].
  - intros k Hk. right. split; [exact Hk|]. rewrite Et. discriminate.
Qed.

Lemma do_ret_invP s t c s' : InvP s -> do_ret s t c = Some s' -> InvP s'.
Proof.
  intros IP Hx. unfold do_ret in Hx. brk Hx; inv_some Hx; eqs; logs; try solve [nc_step IP s].
  (* cancel() returns *)
  match goal with Et : thr s t = IRetB ?b :: ?rest |- _ =>
    destruct (head_closer _ _ _ _ IP Et eq_refl eq_refl) as [jc [Ec [Hjc [Er _]]]]; subst rest; rename Et into Ep end.
  apply (invP_step s _ t [] IP); unfold set_prog; simpl; auto.
  - intros u Hne. rewrite upd_other by exact Hne. reflexivity.
  - exact (p_fresh _ IP).
  - rewrite upd_same. reflexivity.
  - intros j0. rewrite upd_same. discriminate.
  - intros k Hk. right. split; [exact Hk|]. rewrite Ep. discriminate.
Qed.

Ltac closer_case IP s :=
  match goal with Et : thr s ?t = ?i :: ?rest |- _ =>
    let jc := fresh "jc" in let Ec := fresh "Ec" in let Hjc := fresh "Hjc" in let Er := fresh "Er" in let Hcl := fresh "Hcl" in
    destruct (head_closer _ _ _ _ IP Et eq_refl eq_refl) as [jc [Ec [Hjc [Er Hcl]]]]; subst rest;
    simpl in Hcl; try (apply Nat.eqb_eq in Hcl; subst);
    closer_step IP s t jc Et Ec Hjc
  end.

Lemma do_xsec_invP s t s' : InvP s -> do_xsec s t = Some s' -> InvP s'.
Proof.
  intros IP Hx. unfold do_xsec in Hx. brk Hx; inv_some Hx; eqs; logs; try solve [closer_case IP s].
  (* a new throttle future *)
  match goal with Et : thr s t = IXEnq :: IEvSet :: ?r0 |- _ => rename Et into Ep; set (rest0 := r0) in * end.
  pose proof (head_nc_none _ _ _ _ IP Ep eq_refl eq_refl) as En.
  pose proof (p_wf _ IP t) as Hw. rewrite Ep, En in Hw. destruct (wfp_split _ _ _ Hw) as [A1 [A2 A3]].
  apply (invP_step s _ t (IEvSet :: rest0) IP); unfold set_prog; simpl; auto.
  - intros j Hj Hc. rewrite upd_other by lia. exact Hc.
  - intros j Hj. unfold upd. destruct (Nat.eqb j (nfut s)); [auto|]. apply (p_fresh _ IP). lia.
  - rewrite En. apply wfp_join.
    + eapply pok_mono; [|exact A1]. lia.
    + exact A2.
    + simpl in A3. exact A3.
  - intros j Hj. rewrite En in Hj. discriminate.
  - intros j Hj. right. unfold upd in Hj. destruct (Nat.eqb j (nfut s)); [discriminate|]. split; [exact Hj|].
    rewrite Ep. auto.
Qed.

Lemma pre_eq pre a : negb (fstate_eqb pre a) = false -> pre = a.
Proof. intros E. apply negb_false_iff in E. apply fstate_eqb_eq in E. exact E. Qed.

Lemma srnc_cancelled a n b : f_srnc a = Some (n, b) -> (fcancelled a = true -> fcancelled n = true) /\ n <> Cancelled.
Proof. destruct a; simpl; intros E; inversion E; subst; split; auto; discriminate. Qed.

Ltac fcancel_case IP s :=
  match goal with Et : thr s ?t = IFCancel ?j :: ?rest, Ef : f_cancel _ = (?n, true) |- _ =>
    let jc := fresh "jc" in let Ec := fresh "Ec" in let Hjc := fresh "Hjc" in let Hcp := fresh "Hcp" in let Hk := fresh "Hk" in
    let Hn := fresh "Hn" in let Hb := fresh "Hb" in let Hcn := fresh "Hcn" in
    destruct (head_conly _ _ _ _ IP Et eq_refl) as [jc [Ec [Hjc [Hcp Hk]]]];
    assert (Hn : n = fst (f_cancel (ms s j))) by (rewrite Ef; reflexivity);
    assert (Hb : snd (f_cancel (ms s j)) = true) by (rewrite Ef; reflexivity);
    pose proof (f_cancel_true_cancelled _ Hb) as Hcn; rewrite <- Hn in Hcn;
    apply (invP_ms s _ t (IFCancel j) rest j n IP); auto;
    first
    [ solve [simpl in Hk; apply Nat.ltb_lt; exact Hk]
    | solve [let En := fresh "En" in let Hw := fresh "Hw" in let A2 := fresh "A2" in
      intros En; pose proof (p_wf _ IP t) as Hw; rewrite Et in Hw; destruct (wfp_split _ _ _ Hw) as [_ [A2 _]];
      simpl in A2; apply andb_prop in A2; destruct A2 as [A2 _];
      destruct rest as [|i2 r2]; [discriminate A2|]; destruct i2; try discriminate A2;
      apply Nat.eqb_eq in A2; subst; simpl; rewrite Nat.eqb_refl; reflexivity]
    | solve [let jc0 := fresh "jc0" in let Hg := fresh "Hg" in let E := fresh "E" in
      intros jc0 Hg; simpl in Hg; destruct (Nat.eqb j jc0) eqn:E; [apply Nat.eqb_eq in E; subst; right; auto|left; exact Hg]] ]
  end.
Ltac fsrnc_case IP s :=
  match goal with Et : thr s ?t = IFSrnc ?j :: ?rest, Ef : f_srnc _ = Some (?n, ?b) |- _ =>
    let jc := fresh "jc" in let Ec := fresh "Ec" in let Hjc := fresh "Hjc" in let Hcp := fresh "Hcp" in let Hk := fresh "Hk" in
    let Hm := fresh "Hm" in let Hnc := fresh "Hnc" in
    destruct (head_conly _ _ _ _ IP Et eq_refl) as [jc [Ec [Hjc [Hcp Hk]]]];
    destruct (srnc_cancelled _ _ _ Ef) as [Hm Hnc];
    apply (invP_ms s _ t (IFSrnc j) rest j n IP); auto;
    first
    [ solve [simpl in Hk; apply Nat.ltb_lt; exact Hk]
    | solve [intros; contradiction]
    | solve [let k := fresh "k" in let Hne := fresh "Hne" in let Hs := fresh "Hs" in
      intros k Hne Hs; simpl in Hs; apply orb_prop in Hs; destruct Hs as [Hs|Hs]; [apply Nat.eqb_eq in Hs; congruence|exact Hs]] ]
  end.
Ltac fset_case IP s :=
  match goal with Et : thr s ?t = IFSet ?j ?o :: ?rest, Ef : f_set (ms s ?j) = Some ?n |- _ =>
    let Hw := fresh "Hw" in let A1 := fresh "A1" in let Hk := fresh "Hk" in
    pose proof (p_wf _ IP t) as Hw; rewrite Et in Hw; destruct (wfp_split _ _ _ Hw) as [A1 _];
    simpl in A1; apply andb_prop in A1; destruct A1 as [Hk _];
    apply (invP_ms s _ t (IFSet j o) rest j n IP); auto;
    first
    [ solve [let k := fresh "k" in let Hne := fresh "Hne" in intros k Hne; simpl; rewrite upd_other by exact Hne; reflexivity]
    | solve [apply Nat.ltb_lt; exact Hk]
    | solve [let Hc := fresh "Hc" in intros Hc; destruct (ms s j); simpl in Ef, Hc; discriminate]
    | solve [let En := fresh "En" in intros En; destruct (ms s j); simpl in Ef; inversion Ef; congruence] ]
  end.

Lemma do_fm_invP s t op j p s' : InvP s -> do_fm s t op j p = Some s' -> InvP s'.
Proof.
  intros IP Hx. unfold do_fm in Hx.
  destruct (negb (fstate_eqb p (ms s j))) eqn:Epre; [discriminate|]. apply pre_eq in Epre. subst p.
  brk Hx; inv_some Hx; eqs; logs;
    first [ solve [closer_case IP s] | solve [both_step IP s] | solve [fcancel_case IP s] | solve [fsrnc_case IP s]
          | solve [fset_case IP s] | idtac ].
  (* tolerated InvalidStateError *)
  match goal with Et : thr s t = IFSet ?j ?o :: IRelMCbs ?x :: ?rest |- InvP (set_prog ?s1 _ _) =>
    apply (invP_both s s1 t [IFSet j o; IRelMCbs x] rest [IRelM j] IP); auto; try discriminate; pok_side end.
Qed.

Lemma clear_del_pview l : forall s, thr (clear_del s l) = thr s /\ pview (clear_del s l) = pview s.
Proof.
  unfold clear_del. induction l as [|c l IH]; intros s; simpl; [auto|].
  destruct (IH (match c with CbDone => s | CbRes j => s <| mdel := upd (mdel s) j None |> end)) as [A B].
  rewrite A, B. destruct c; simpl; auto.
Qed.

Lemma do_fd_invP s t op d p s' : InvB s -> InvP s -> do_fd s t op d p = Some s' -> InvP s'.
Proof.
  intros IB IP Hx. unfold do_fd in Hx.
  destruct (negb (fstate_eqb p (ds s d))) eqn:Epre; [discriminate|]. apply pre_eq in Epre. subst p.
  brk Hx; inv_some Hx; eqs; logs; try solve [nc_step IP s | both_step IP s | closer_case IP s].
  - (* _delegate_resolved copies the delegate's outcome *)
    match goal with Et : thr s t = IDCancelledQ ?j ?d :: ?rest |- InvP (set_prog ?s1 _ (setres_prog _ ?o ++ _)) =>
      apply (invP_both s s1 t [IDCancelledQ j d] rest (setres_prog j o) IP); auto; try discriminate;
        [intros Hk; simpl in Hk; apply andb_prop in Hk; destruct Hk as [Hk _]; apply pok_setres; exact Hk|apply neutral_setres] end.
  - (* delegate.cancel() == True, the delegate's callbacks run here *)
    match goal with Et : thr s t = IDCancel ?j ?d :: ?rest |- _ =>
      destruct (head_closer _ _ _ _ IP Et eq_refl eq_refl) as [jc [Ec [Hjc [Er Hcl]]]]; subst rest; rename Et into Ep end.
    simpl in Hcl. apply Nat.eqb_eq in Hcl. subst.
    match goal with |- InvP (set_prog (clear_del ?x ?l) _ (flat_map (cb_prog_held ?d0) _ ++ _)) =>
      destruct (clear_del_pview l x) as [Ct Cv];
      pose proof (forallb_imp _ _ _ neutral_nonc (neutral_cb_prog_held d0 l)) as Hnn;
      pose proof (forallb_imp _ _ _ neutral_cbody (neutral_cb_prog_held d0 l)) as Hnc;
      pose proof (pok_cb_prog_held _ d0 _ (b_dcbs _ IB d0)) as Hpk end.
    eapply (invP_closer s _ t _ jc _ IP); [rewrite Ct; reflexivity|rewrite Cv; reflexivity|exact Ep|exact Ec|reflexivity|reflexivity|..].
    + rewrite forallb_app, Hpk. simpl. rewrite (ltb_of _ _ Hjc). reflexivity.
    + rewrite pairs_app by exact Hnn. simpl. rewrite Nat.eqb_refl. reflexivity.
    + rewrite cprog_app by exact Hnc. reflexivity.
    + left. rewrite guard_app by exact Hnn. simpl. rewrite Nat.eqb_refl. reflexivity.
Qed.

Lemma step0_invP s e s' : InvB s -> InvP s -> step0 s e = Some s' -> InvP s'.
Proof.
  intros IB IP Hx. destruct e; cbn [step0] in Hx;
  [ eapply do_new_invP | eapply do_hstart_invP | eapply do_exit_invP | eapply do_call_submit_invP
  | eapply do_call_cancel_invP | eapply do_call_shutdown_invP | eapply do_ret_invP | eapply do_acq_g_invP
  | eapply do_rel_g_invP | eapply do_count_invP | eapply do_xsec_invP | eapply do_xacq_invP | eapply (do_relx_invP s)
  | eapply do_rcread_invP | eapply do_pop_invP | eapply do_acq_a_invP | eapply do_rel_a_invP | eapply do_evset_invP
  | eapply do_wait_invP | eapply do_woke_invP | eapply do_clear_invP | eapply do_dsubmit_invP | eapply do_dshutdown_invP
  | eapply do_acq_m_invP | eapply do_rel_m_invP | eapply do_fm_invP | eapply (do_fd_invP s) | eapply do_env_run_invP
  | eapply (do_env_finish_invP s) ]; eassumption.
Qed.

Lemma invP_init : InvP init.
Proof.
  constructor; simpl; intros; auto; discriminate.
Qed.

Lemma invB_tick s ts : InvB s -> InvB (s <| clock := ts |>).
Proof. intros [B1 B2 B3 B4 B5]. constructor; simpl; auto. Qed.
Lemma invP_tick s ts : InvP s -> InvP (s <| clock := ts |>).
Proof. intros IP. apply (invP_view s); auto. Qed.

Theorem invP_reachable s : reachable_from step init s -> InvP s.
Proof.
  apply invariant_rule_r; [exact invP_init|].
  intros s0 [ts e] s' Hr IP Hx. unfold step in Hx. simpl in Hx.
  destruct (tick s0 ts) as [s1|] eqn:Et; [|discriminate].
  pose proof (invB_reachable s0 Hr) as IB.
  unfold tick in Et. destruct (Z.leb (clock s0) ts); inv_some Et.
  eapply step0_invP; [apply invB_tick; exact IB|apply invP_tick; exact IP|exact Hx].
Qed.
