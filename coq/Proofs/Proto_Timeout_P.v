(* C02 on the TimeoutExecutor machine (Model/Timeout.v), part P: the program-shape invariant behind the cancel()
   clauses.  A client thread inside cancel() on future j (ghost [cancelling s t = Some j]) runs a CANCEL PROGRAM:
   instructions of the cancel path and of the callbacks it may run inline only, closed by exactly one instruction
   that returns a bool (or expands to one).  The job thread (thread jt) cancels overdue futures itself, without the
   ghost and without a bool return: its program never contains IRetB.  Every other thread runs no cancel-only
   instruction.  On top of the shape:
   - a pending `return True` is preceded by the pending `super().cancel()` on j, or j is already cancelled (guard);
   - `super().cancel()` is immediately followed by `set_running_or_notify_cancel()` on the same future (fpairs), so a
     future in the bare CANCELLED state always has its notification pending in some program (notif);
   - future ids in programs are allocated, unallocated ids are untouched (fresh). *)
From Coq Require Import ZArith List Bool Arith Lia.
From RecordUpdate Require Import RecordSet.
From ME Require Import Base.Machine Base.Fut Base.GenPrelude Gen.TimeoutGen Proofs.Timeout_Spec Model.Timeout
  Proofs.Timeout_Inv.
Import ListNotations RecordSetNotations.

Ltac brk Hx :=
  repeat match type of Hx with
         | context [match ?x with _ => _ end] => destruct x eqn:?; try discriminate Hx
         end.
Ltac inv_some Hx := inversion Hx; subst; clear Hx.

(* ---- instruction classes ------------------------------------------------------------------------------ *)
Definition pok (n : nat) (i : instr) : bool :=
  match i with
  | IAddCbD _ j | IDCancelledQ j _ | IFSetRes j _ | IFSetExc j _ | IDoneQ j | ICancelled j | IDoneC j | IDCancel j _
  | IFCancel j | IFSrnc j => j <? n
  | ITCancel job => tj_id job <? n
  | _ => true
  end.
(* occur in cancel programs (own path or inline callbacks) and elsewhere *)
Definition neut (i : instr) : bool :=
  match i with
  | IAcqM _ | IRelM _ | IRelMCbs _ | IAcqMSet _ _ | IDCancelledQ _ _ | IFSetRes _ _ | IFSetExc _ _ | IDoneQ _
  | IUserCb _ _ | IEvSet => true
  | _ => false
  end.
(* occur only on a cancel path: inside a client's cancel(), or in the job thread's _do_cancel *)
Definition conly (i : instr) : bool :=
  match i with ICancelled _ | IDoneC _ | IDCancel _ _ | IFCancel _ | IFSrnc _ | IRetB _ | ITCancel _ => true | _ => false end.
Definition nonc (i : instr) : bool := negb (conly i).
Definition noretb (i : instr) : bool := match i with IRetB _ => false | _ => true end.
Definition cbody (i : instr) : bool := neut i || match i with IFCancel _ | IFSrnc _ => true | _ => false end.
(* the last instruction of a cancel program on j: the bool return, or a step of cancel() that expands to one *)
Definition closer (j : nat) (i : instr) : bool :=
  match i with
  | IRetB _ => true
  | ICancelled j' | IDoneC j' | IDCancel j' _ => Nat.eqb j' j
  | _ => false
  end.
Fixpoint cprog (j : nat) (p : list instr) : bool :=
  match p with
  | [] => false
  | i :: r => match r with [] => closer j i | _ :: _ => cbody i && cprog j r end
  end.
(* the first `return True` is preceded by `super().cancel()` on j *)
Fixpoint guard (j : nat) (p : list instr) : bool :=
  match p with
  | [] => true
  | IRetB true :: _ => false
  | IFCancel j' :: r => if Nat.eqb j' j then true else guard j r
  | _ :: r => guard j r
  end.
Fixpoint fpairs (p : list instr) : bool :=
  match p with
  | [] => true
  | IFCancel j :: r => match r with IFSrnc j' :: _ => Nat.eqb j j' | _ => false end && fpairs r
  | _ :: r => fpairs r
  end.
Definition is_srnc (j : nat) (i : instr) : bool := match i with IFSrnc j' => Nat.eqb j' j | _ => false end.
Definition has_srnc (j : nat) (p : list instr) : bool := existsb (is_srnc j) p.

(* a thread that is not inside cancel(): the job thread never returns a bool, a client runs no cancel instruction *)
Definition okn (t : nat) (p : list instr) : bool := if Nat.eqb t jt then forallb noretb p else forallb nonc p.
Definition wfp (n t : nat) (c : option nat) (p : list instr) : bool :=
  forallb (pok n) p && fpairs p &&
  match c with Some j => negb (Nat.eqb t jt) && cprog j p | None => okn t p end.

Record InvP (s : st) : Prop := {
  p_wf : forall t, wfp (nfut s) t (cancelling s t) (thr s t) = true;
  p_cn : forall t j, cancelling s t = Some j -> j < nfut s;
  p_guard : forall t j, cancelling s t = Some j -> guard j (thr s t) = true \/ fcancelled (rs s j) = true;
  p_fresh : forall j, nfut s <= j -> rs s j = Pending /\ rout s j = None;
  p_notif : forall j, rs s j = Cancelled -> exists t, has_srnc j (thr s t) = true
}.

(* ---- list lemmas --------------------------------------------------------------------------------------- *)
Lemma neut_cbody i : neut i = true -> cbody i = true.
Proof. unfold cbody. intros ->. reflexivity. Qed.
Lemma neut_nonc i : neut i = true -> nonc i = true.
Proof. destruct i; simpl; try discriminate; reflexivity. Qed.
Lemma nonc_noretb i : nonc i = true -> noretb i = true.
Proof. destruct i; simpl; try discriminate; reflexivity. Qed.
Lemma cbody_noretb i : cbody i = true -> noretb i = true.
Proof. destruct i; simpl; try discriminate; reflexivity. Qed.
Lemma forallb_imp {A} (f g : A -> bool) l : (forall x, f x = true -> g x = true) -> forallb f l = true -> forallb g l = true.
Proof.
  intros H. induction l as [|a r IH]; simpl; [auto|]. intros Hx. apply andb_prop in Hx. destruct Hx as [A1 A2].
  rewrite (H _ A1), (IH A2). reflexivity.
Qed.
Lemma cbody_not_closer j i : cbody i = true -> closer j i = false.
Proof. destruct i; simpl; try discriminate; reflexivity. Qed.
Lemma cprog_cons j i r : cbody i = true -> cprog j (i :: r) = cprog j r.
Proof.
  intros Hc. destruct r as [|a r']; [simpl; apply cbody_not_closer; exact Hc|].
  change (cprog j (i :: a :: r')) with (cbody i && cprog j (a :: r')). rewrite Hc. reflexivity.
Qed.
Lemma cprog_app j pre r : forallb cbody pre = true -> cprog j (pre ++ r) = cprog j r.
Proof.
  induction pre as [|a pre IH]; [reflexivity|]. simpl forallb. intros Hx. apply andb_prop in Hx. destruct Hx as [A1 A2].
  change ((a :: pre) ++ r) with (a :: (pre ++ r)). rewrite (cprog_cons _ _ _ A1). auto.
Qed.
Lemma cprog_head j i r : cprog j (i :: r) = true -> (r = [] /\ closer j i = true) \/ (cbody i = true /\ cprog j r = true).
Proof.
  destruct r as [|a r']; [simpl; auto|].
  change (cprog j (i :: a :: r')) with (cbody i && cprog j (a :: r')). intros Hx. apply andb_prop in Hx. auto.
Qed.
Lemma closer_conly j i : closer j i = true -> conly i = true.
Proof. destruct i; simpl; try discriminate; reflexivity. Qed.

Lemma guard_cons j i r : nonc i = true -> guard j (i :: r) = guard j r.
Proof. destruct i; simpl; try discriminate; reflexivity. Qed.
Lemma guard_app j pre r : forallb nonc pre = true -> guard j (pre ++ r) = guard j r.
Proof.
  induction pre as [|a pre IH]; [reflexivity|]. simpl forallb. intros Hx. apply andb_prop in Hx. destruct Hx as [A1 A2].
  change ((a :: pre) ++ r) with (a :: (pre ++ r)). rewrite (guard_cons _ _ _ A1). auto.
Qed.
Lemma fpairs_tl i r : fpairs (i :: r) = true -> fpairs r = true.
Proof. destruct i; simpl; auto. intros Hx. apply andb_prop in Hx. tauto. Qed.
Lemma fpairs_drop l r : fpairs (l ++ r) = true -> fpairs r = true.
Proof. induction l as [|a l IH]; [auto|]. intros Hx. apply IH. eapply fpairs_tl. exact Hx. Qed.
(* a prefix in which every `super().cancel()` is followed by its notification *)
Lemma fpairs_app pre r : fpairs (pre ++ [IRet]) = true -> fpairs (pre ++ r) = fpairs r.
Proof.
  induction pre as [|a pre IH]; [reflexivity|]. intros Hx. pose proof (fpairs_tl _ _ Hx) as Ht. specialize (IH Ht).
  change ((a :: pre) ++ r) with (a :: (pre ++ r)). destruct a; simpl; try exact IH.
  change ((IFCancel j :: pre) ++ [IRet]) with (IFCancel j :: (pre ++ [IRet])) in Hx. simpl in Hx.
  apply andb_prop in Hx. destruct Hx as [Hx _]. rewrite IH.
  destruct pre as [|b pre']; [discriminate Hx|]. simpl in Hx. simpl. destruct b; try discriminate Hx. rewrite Hx. reflexivity.
Qed.
Lemma fpairs_nonc pre : forallb nonc pre = true -> fpairs (pre ++ [IRet]) = true.
Proof.
  induction pre as [|a pre IH]; [reflexivity|]. simpl forallb. intros Hx. apply andb_prop in Hx. destruct Hx as [A1 A2].
  change ((a :: pre) ++ [IRet]) with (a :: (pre ++ [IRet])). destruct a; simpl in *; try discriminate; auto.
Qed.
Lemma srnc_app j pre r : has_srnc j (pre ++ r) = has_srnc j pre || has_srnc j r.
Proof. apply existsb_app. Qed.
Lemma nonc_no_srnc j p : forallb nonc p = true -> has_srnc j p = false.
Proof.
  induction p as [|a p IH]; [reflexivity|]. simpl. intros Hx. apply andb_prop in Hx. destruct Hx as [A1 A2].
  rewrite (IH A2). destruct a; simpl in *; try discriminate; reflexivity.
Qed.
Lemma has_srnc_in j p : has_srnc j p = true <-> In (IFSrnc j) p.
Proof.
  unfold has_srnc. rewrite existsb_exists. split.
  - intros [x [Hin Hx]]. destruct x; simpl in Hx; try discriminate. apply Nat.eqb_eq in Hx. subst. exact Hin.
  - intros Hin. exists (IFSrnc j). split; [exact Hin|]. simpl. apply Nat.eqb_refl.
Qed.

Lemma okn_nonc t p : forallb nonc p = true -> okn t p = true.
Proof. unfold okn. intros Hx. destruct (Nat.eqb t jt); [eapply forallb_imp; [apply nonc_noretb|exact Hx]|exact Hx]. Qed.
Lemma okn_app t p q : okn t (p ++ q) = okn t p && okn t q.
Proof. unfold okn. destruct (Nat.eqb t jt); apply forallb_app. Qed.
Lemma okn_tl t i r : okn t (i :: r) = true -> okn t r = true.
Proof. unfold okn. destruct (Nat.eqb t jt); simpl; intros Hx; apply andb_prop in Hx; tauto. Qed.
Lemma okn_conly t i r : okn t (i :: r) = true -> conly i = true -> t = jt.
Proof.
  unfold okn. destruct (Nat.eqb t jt) eqn:E; [intros _ _; apply Nat.eqb_eq; exact E|].
  simpl. unfold nonc at 1. intros Hx Hc. rewrite Hc in Hx. discriminate.
Qed.
Lemma okn_jt p : okn jt p = forallb noretb p.
Proof. unfold okn. rewrite Nat.eqb_refl. reflexivity. Qed.

Lemma ret_of_jt b : ret_of jt b = [].
Proof. unfold ret_of. rewrite Nat.eqb_refl. reflexivity. Qed.
Lemma ret_of_ne t b : Nat.eqb t jt = false -> ret_of t b = [IRetB b].
Proof. unfold ret_of. intros ->. reflexivity. Qed.

Lemma pok_mono n n' p : n <= n' -> forallb (pok n) p = true -> forallb (pok n') p = true.
Proof.
  intros Hle. apply forallb_imp. intros i. destruct i; simpl; auto; intros Hx; apply Nat.ltb_lt in Hx; apply Nat.ltb_lt; lia.
Qed.
Lemma wfp_split n t c p : wfp n t c p = true ->
  forallb (pok n) p = true /\ fpairs p = true /\
  match c with Some j => negb (Nat.eqb t jt) && cprog j p | None => okn t p end = true.
Proof. unfold wfp. intros Hx. apply andb_prop in Hx. destruct Hx as [Hx A3]. apply andb_prop in Hx. tauto. Qed.
Lemma wfp_join n t c p : forallb (pok n) p = true -> fpairs p = true ->
  match c with Some j => negb (Nat.eqb t jt) && cprog j p | None => okn t p end = true -> wfp n t c p = true.
Proof. unfold wfp. intros -> -> ->. reflexivity. Qed.
Lemma wfp_mono n n' t c p : n <= n' -> wfp n t c p = true -> wfp n' t c p = true.
Proof.
  intros Hle Hx. destruct (wfp_split _ _ _ _ Hx) as [A1 [A2 A3]]. apply wfp_join; auto. eapply pok_mono; eauto.
Qed.

(* [stamp] only rewrites the argument of a leading IWaitCalc *)
Lemma stamp_cases s p : stamp s p = p \/ exists r b, p = IWaitCalc None :: r /\ stamp s p = IWaitCalc (Some b) :: r.
Proof.
  destruct p as [|i r]; [left; reflexivity|]. destruct i; try (left; reflexivity).
  destruct e; [left; reflexivity|]. right. exists r, (isnil (jobs s)). split; reflexivity.
Qed.
Lemma wfp_stamp n t c s p : wfp n t c (stamp s p) = wfp n t c p.
Proof.
  destruct (stamp_cases s p) as [->|[r [b [-> ->]]]]; [reflexivity|]. unfold wfp, okn. simpl.
  destruct c as [j|]; [|destruct (Nat.eqb t jt); reflexivity]. destruct r; reflexivity.
Qed.
Lemma guard_stamp j s p : guard j (stamp s p) = guard j p.
Proof. destruct (stamp_cases s p) as [->|[r [b [-> ->]]]]; reflexivity. Qed.
Lemma srnc_stamp j s p : has_srnc j (stamp s p) = has_srnc j p.
Proof. destruct (stamp_cases s p) as [->|[r [b [-> ->]]]]; reflexivity. Qed.

(* ---- the master lemma: thread t replaces its program by p ----------------------------------------------- *)
Lemma invP_step s s' t p :
  InvP s ->
  (forall u, thr s' u = upd (thr s) t p u) ->
  (forall u, u <> t -> cancelling s' u = cancelling s u) ->
  nfut s <= nfut s' ->
  (forall j, j < nfut s -> fcancelled (rs s j) = true -> fcancelled (rs s' j) = true) ->
  (forall j, nfut s' <= j -> rs s' j = Pending /\ rout s' j = None) ->
  wfp (nfut s') t (cancelling s' t) p = true ->
  (forall j, cancelling s' t = Some j -> j < nfut s' /\ (guard j p = true \/ fcancelled (rs s' j) = true)) ->
  (forall j, rs s' j = Cancelled ->
     has_srnc j p = true \/ (rs s j = Cancelled /\ (has_srnc j (thr s t) = true -> has_srnc j p = true))) ->
  InvP s'.
Proof.
  intros [P1 P2 P3 P4 P5] Hthr Hc Hn Hmono Hfresh Hwf Hg Hnot. constructor.
  - intros u. rewrite Hthr. destruct (Nat.eq_dec u t) as [->|Hne]; [rewrite upd_same; exact Hwf|].
    rewrite upd_other by exact Hne. rewrite (Hc u Hne). eapply wfp_mono; [exact Hn|apply P1].
  - intros u j Hu. destruct (Nat.eq_dec u t) as [->|Hne]; [apply Hg; exact Hu|].
    rewrite (Hc u Hne) in Hu. specialize (P2 _ _ Hu). lia.
  - intros u j Hu. rewrite Hthr. destruct (Nat.eq_dec u t) as [->|Hne]; [rewrite upd_same; apply Hg; exact Hu|].
    rewrite upd_other by exact Hne. rewrite (Hc u Hne) in Hu. destruct (P3 _ _ Hu) as [A|A]; [left; exact A|right].
    apply Hmono; [eapply P2; eauto|exact A].
  - exact Hfresh.
  - intros j Hj. destruct (Hnot j Hj) as [A|[A B]].
    + exists t. rewrite Hthr, upd_same. exact A.
    + destruct (P5 j A) as [u Hu]. destruct (Nat.eq_dec u t) as [->|Hne].
      * exists t. rewrite Hthr, upd_same. auto.
      * exists u. rewrite Hthr, upd_other by exact Hne. exact Hu.
Qed.

Lemma invP_log s h : InvP s -> InvP (log s h).
Proof. intros [P1 P2 P3 P4 P5]. constructor; simpl; auto. Qed.

(* s1 agrees with s on everything the invariant looks at, except thr *)
Definition pview (s : st) := (nfut s, rs s, rout s, cancelling s).
Lemma invP_set s s1 t p :
  InvP s -> thr s1 = thr s -> pview s1 = pview s ->
  wfp (nfut s) t (cancelling s t) p = true ->
  (forall j, cancelling s t = Some j -> guard j p = true \/ fcancelled (rs s j) = true) ->
  (forall j, has_srnc j (thr s t) = true -> has_srnc j p = true) ->
  InvP (set_prog s1 t p).
Proof.
  intros IP Et Ev Hw Hg Hs. unfold pview in Ev. inversion Ev as [[E1 E2 E3 E4]].
  apply (invP_step s _ t (stamp s1 p) IP); unfold set_prog; simpl; rewrite ?E1, ?E2, ?E3, ?E4, ?Et; auto.
  - exact (p_fresh _ IP).
  - rewrite wfp_stamp. exact Hw.
  - intros j Hj. split; [exact (p_cn _ IP _ _ Hj)|]. rewrite guard_stamp. auto.
  - intros j Hj. right. split; [exact Hj|]. rewrite srnc_stamp. auto.
Qed.

(* nothing the invariant looks at changes *)
Lemma invP_view s s' : InvP s -> thr s' = thr s -> pview s' = pview s -> InvP s'.
Proof.
  intros [P1 P2 P3 P4 P5] Et Ev. unfold pview in Ev. inversion Ev as [[E1 E2 E3 E4]].
  constructor; rewrite ?E1, ?E2, ?E3, ?E4, ?Et; auto.
Qed.

Lemma head_pok s t i rest : InvP s -> thr s t = i :: rest -> pok (nfut s) i = true.
Proof.
  intros IP Et. pose proof (p_wf _ IP t) as Hw. rewrite Et in Hw. destruct (wfp_split _ _ _ _ Hw) as [A1 _].
  simpl in A1. apply andb_prop in A1. tauto.
Qed.
(* a thread whose head instruction is not part of any cancel program is not inside cancel() *)
Lemma head_nc_none s t i rest : InvP s -> thr s t = i :: rest -> cbody i = false -> conly i = false ->
  cancelling s t = None.
Proof.
  intros IP Et Hb Hc. pose proof (p_wf _ IP t) as Hw. rewrite Et in Hw. destruct (wfp_split _ _ _ _ Hw) as [_ [_ A3]].
  destruct (cancelling s t) as [j|]; [|reflexivity]. exfalso. apply andb_prop in A3. destruct A3 as [_ A3].
  destruct (cprog_head _ _ _ A3) as [[_ Hx]|[Hx _]]; [apply closer_conly in Hx|]; congruence.
Qed.
Lemma nil_none s t : InvP s -> thr s t = [] -> cancelling s t = None.
Proof.
  intros IP Et. pose proof (p_wf _ IP t) as Hw. rewrite Et in Hw. destruct (wfp_split _ _ _ _ Hw) as [_ [_ A3]].
  destruct (cancelling s t) as [j|]; [|reflexivity]. rewrite andb_false_r in A3. discriminate.
Qed.
Lemma jt_none s : InvP s -> cancelling s jt = None.
Proof.
  intros IP. pose proof (p_wf _ IP jt) as Hw. destruct (wfp_split _ _ _ _ Hw) as [_ [_ A3]].
  destruct (cancelling s jt) as [j|]; [|reflexivity]. rewrite Nat.eqb_refl in A3. discriminate.
Qed.
