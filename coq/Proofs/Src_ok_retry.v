(* source facts of more_executors/_impl/retry.py: what the translator finds now is what the models were written against *)
From Coq Require Import List String.
From ME Require Import Gen.Src_retry Model.SrcExpected.
Lemma src_retry_ok : Src_retry.facts = expected_retry.
Proof. reflexivity. Qed.
