(* Chain model: gate order.  As long as no call is made from inside the base executor's submit
   (nested = false), every program is ordered: each instruction's layer is strictly below every gate
   still to be released behind it.  Hence a fresh acquisition of G_k happens only while holding
   gates above k, and no set of threads can wait on each other's gates in a cycle. *)
From Coq Require Import List Arith Bool Lia PeanoNat.
From ME Require Import Base.Machine Model.Chain Proofs.Chain_Base Proofs.Chain_Gate.
Import ListNotations.

Definition lvl (i : instr) : nat :=
  match i with
  | IAcqSub k | ICallSub k | IRelSub k _ | ISubRet k _ | IAcqSd k _ _ | IRelSd k | ICallSd k _ _ | ISdRet k _ _ => k
  | IBase | IBaseSd => 0
  end.
Definition is_acq (i : instr) : bool := match i with IAcqSub _ | IAcqSd _ _ _ => true | _ => false end.
Fixpoint gates_of (p : list instr) : list nat :=
  match p with
  | [] => []
  | IRelSub k _ :: r => k :: gates_of r
  | IRelSd k :: r => k :: gates_of r
  | _ :: r => gates_of r
  end.
Fixpoint lo (p : list instr) : Prop :=
  match p with [] => True | i :: r => (forall g, In g (gates_of r) -> lvl i < g) /\ lo r end.

Lemma gates_inside k p : 0 < inside k p -> In k (gates_of p).
Proof.
  induction p as [|i r IH]; simpl; [lia|]. destruct i; simpl; auto;
    (destruct (Nat.eqb k0 k) eqn:E; [apply Nat.eqb_eq in E; subst; intros _; left; reflexivity|intros X; right; apply IH; exact X]).
Qed.
Lemma gates_unwind p : gates_of (unwind p) = gates_of p.
Proof. destruct p as [|a p]; [reflexivity|]. destruct a; try reflexivity. destruct p as [|b r]; [reflexivity|]. destruct b; reflexivity. Qed.
Lemma lo_unwind p : lo p -> lo (unwind p).
Proof.
  destruct p as [|a p]; [auto|]. destruct a; auto. destruct p as [|b r]; [auto|]. destruct b; auto.
Qed.
Lemma lo_tail i r : lo (i :: r) -> lo r.
Proof. intros [_ X]; exact X. Qed.
Lemma lo_head i r g : lo (i :: r) -> In g (gates_of r) -> lvl i < g.
Proof. intros [X _]; apply X. Qed.
Lemma lo_same i j r : lo (i :: r) -> lvl j <= lvl i -> lo (j :: r).
Proof. intros [X Y] L. split; [|exact Y]. intros g G. apply X in G. lia. Qed.

Definition LInv (s : st) : Prop := nested s = false -> forall t, lo (prog s t).

Lemma linv_init : LInv init.
Proof. intros _ t. exact I. Qed.

Lemma linv_upd s s' t p' : LInv s -> (nested s' = false -> nested s = false) ->
  prog s' = upd (prog s) t p' -> (nested s' = false -> lo (prog s t) -> lo p') -> LInv s'.
Proof.
  intros L N Ep Hp N' u. rewrite Ep. unfold upd. destruct (Nat.eqb u t) eqn:E.
  - apply Hp; auto.
  - apply L; auto.
Qed.

Lemma uctx_nobase p : uctx p = true -> in_base p = false -> p = [].
Proof. destruct p as [|i r]; auto. destruct i; simpl; intros; discriminate. Qed.

Lemma lo_sub_body c k r : 0 < k -> lo (IAcqSub k :: r) -> lo (sub_body c k ++ r).
Proof.
  intros K [X Y]. unfold sub_body. destruct (inline_submit (kindof c k)); simpl.
  - split; [intros g [G|G]; [lia|apply X in G; simpl in *; lia]|].
    split; [exact X|]. split; [exact X|exact Y].
  - split; [exact X|]. split; [exact X|exact Y].
Qed.
Lemma lo_sd_body c k w kw r : lo (IAcqSd k w kw :: r) -> lo (sd_body c k w kw ++ r).
Proof.
  intros [X Y]. unfold sd_body. simpl. split; [exact X|].
  split; [intros g G; apply X in G; simpl in *; lia|]. split; [exact X|exact Y].
Qed.

Lemma linv_gin c s t k r i s' : LInv s -> prog s t = i :: r -> 0 < k -> gin c s t k r i s' -> LInv s'.
Proof.
  intros L P K G. destruct G; (eapply (linv_upd s _ t); [exact L|simpl; auto|reflexivity|]); rewrite P; intros _ Hl.
  - destruct Hl as [X Y]. split; [exact X|]. split; [exact X|exact Y].
  - apply lo_sub_body; assumption.
  - destruct Hl as [X Y]. split; [exact X|]. split; [exact X|exact Y].
  - apply lo_sd_body; assumption.
Qed.

Lemma lo_start_sub k : lo (start_sub k ++ []).
Proof. destruct k; simpl; (split; [intros g []|exact I]). Qed.
Lemma lo_start_sd k w kw : lo (start_sd k w kw ++ []).
Proof. destruct k; simpl; (split; [intros g []|exact I]). Qed.

Lemma linv_step c s e s' : LInv s -> tr c s e s' -> LInv s'.
Proof.
  intros L T. destruct T.
  - eapply (linv_upd s _ t); [exact L|simpl; auto|reflexivity|]. rewrite H0. intros _ Hl.
    destruct k; [exact (lo_same _ IBase r Hl (le_n 0))|exact (lo_same _ (IAcqSub (S k)) r Hl (le_n _))].
  - eapply (linv_upd s _ t); [exact L| |reflexivity|].
    + simpl. intros N. apply orb_false_iff in N. tauto.
    + simpl. intros N _. apply orb_false_iff in N. destruct N as [_ N].
      rewrite (uctx_nobase _ H0 N). apply lo_start_sub.
  - unfold finish_sub. eapply (linv_upd s _ t); [exact L|simpl; auto|reflexivity|]. rewrite H0. intros _ Hl.
    apply lo_tail in Hl. destruct ok; [exact Hl|apply lo_unwind; exact Hl].
  - unfold finish_sub. eapply (linv_upd s _ t); [exact L|simpl; auto|reflexivity|]. rewrite H. intros _ Hl.
    apply lo_tail in Hl. destruct ok; [exact Hl|apply lo_unwind; exact Hl].
  - refine (linv_gin c (log (set_gate s k (Some t) 1) (HAcq t k (held_by c s t))) t k r i s' _ H0 H1 H2). exact L.
  - refine (linv_gin c (set_gate s k (Some t) (S (gdepth s k))) t k r i s' _ H0 H1 H2). exact L.
  - eapply (linv_upd s _ t); [exact L|simpl; auto|reflexivity|]. rewrite H1. intros _ Hl. eapply lo_tail; exact Hl.
  - eapply (linv_upd s _ t); [exact L|simpl; auto|reflexivity|]. rewrite H1. intros _ Hl. eapply lo_tail; exact Hl.
  - eapply (linv_upd s _ t); [exact L|destruct k; simpl; auto|destruct k; reflexivity|]. rewrite H0. intros _ Hl.
    destruct k; [exact (lo_same _ IBaseSd r Hl (le_n 0))|exact (lo_same _ (IAcqSd (S k) w kw) r Hl (le_n _))].
  - eapply (linv_upd s _ t); [exact L| |destruct k; reflexivity|].
    + destruct k; simpl; intros N; apply orb_false_iff in N; tauto.
    + intros N _. assert (N' : in_base (prog s t) = false) by (destruct k; simpl in N; apply orb_false_iff in N; tauto).
      rewrite (uctx_nobase _ H0 N'). apply lo_start_sd.
  - eapply (linv_upd s _ t); [exact L|simpl; auto|reflexivity|]. rewrite H0. intros _ Hl. eapply lo_tail; exact Hl.
  - eapply (linv_upd s _ t); [exact L|simpl; auto|reflexivity|]. rewrite H. intros _ Hl. eapply lo_tail; exact Hl.
  - intros N u. apply L. exact N.
Qed.

(* fresh acquisitions recorded in the history respect the order *)
Definition HInv (s : st) : Prop :=
  nested s = false -> forall t k held, In (HAcq t k held) (hist s) -> forall j, In j held -> k < j.

Lemma nested_mono c s e s' : tr c s e s' -> nested s' = false -> nested s = false.
Proof.
  intros T. destruct T; simpl; auto; try (destruct k; simpl; auto; fail);
    try (intros N; apply orb_false_iff in N; tauto);
    try (destruct H2; simpl; auto; fail).
  destruct k; simpl; intros N; apply orb_false_iff in N; tauto.
Qed.

Lemma hist_step c s e s' : tr c s e s' -> exists hs, hist s' = hs ++ hist s /\
  forall t k held, In (HAcq t k held) hs ->
    held = held_by c s t /\ exists i r, prog s t = i :: r /\ is_acq i = true /\ lvl i = k.
Proof.
  intros T. destruct T.
  - exists [HSubCall t k false]. split; [reflexivity|]. intros ? ? ? [X|[]]; discriminate.
  - exists [HSubCall t k true]. split; [reflexivity|]. intros ? ? ? [X|[]]; discriminate.
  - exists [HSubRet t k ok]. split; [reflexivity|]. intros ? ? ? [X|[]]; discriminate.
  - exists [HSubRet t 0 ok]. split; [reflexivity|]. intros ? ? ? [X|[]]; discriminate.
  - destruct H2; eexists [_; HAcq t k (held_by c s t)]; (split; [reflexivity|]);
      intros ? ? ? [X|[X|[]]]; try discriminate; inversion X; subst; (split; [reflexivity|]);
      eexists; eexists; (split; [exact H0|split; reflexivity]).
  - destruct H2; eexists [_]; (split; [reflexivity|]); intros ? ? ? [X|[]]; discriminate.
  - exists []. split; [reflexivity|]. intros ? ? ? [].
  - exists []. split; [reflexivity|]. intros ? ? ? [].
  - exists [HSdCall t k w kw false; HDown t (S k) w kw]. split; [destruct k; reflexivity|]. intros ? ? ? [X|[X|[]]]; discriminate.
  - exists [HSdCall t k w kw true]. split; [destruct k; reflexivity|]. intros ? ? ? [X|[]]; discriminate.
  - exists [HSdRet t k won]. split; [reflexivity|]. intros ? ? ? [X|[]]; discriminate.
  - exists [HSdRet t 0 true]. split; [reflexivity|]. intros ? ? ? [X|[]]; discriminate.
  - exists [HWExit t k]. split; [reflexivity|]. intros ? ? ? [X|[]]; discriminate.
Qed.

Lemma held_gates c s t j : GInv s -> In j (held_by c s t) -> In j (gates_of (prog s t)).
Proof.
  intros G X. unfold held_by in X. apply filter_In in X. destruct X as [_ X]. apply owns_true in X.
  apply gates_inside. destruct (g_depth s G t j X) as [A B]. lia.
Qed.

Lemma hinv_step c s e s' : GInv s -> LInv s -> HInv s -> tr c s e s' -> HInv s'.
Proof.
  intros G L Hh T N t k held X j J.
  assert (N0 : nested s = false) by (eapply nested_mono; eauto).
  destruct (hist_step c s e s' T) as [hs [Eh Ha]]. rewrite Eh in X. apply in_app_or in X. destruct X as [X|X].
  - destruct (Ha _ _ _ X) as [-> [i [r [P [A Lv]]]]]. apply (held_gates c s t j G) in J.
    rewrite P in J. assert (J' : In j (gates_of r)) by (destruct i; try discriminate; exact J).
    generalize (L N0 t). rewrite P. intros Hl. rewrite <- Lv. eapply lo_head; eauto.
  - eapply Hh; eauto.
Qed.

Record LockInv (s : st) : Prop := { li_g : GInv s; li_l : LInv s; li_h : HInv s }.
Theorem lockinv_reachable c s : reachable_from (step c) init s -> LockInv s.
Proof.
  apply invariant_rule.
  - constructor; [apply ginv_init|apply linv_init|]. intros _ t k held [].
  - intros s0 e s1 [G L Hh] H. apply step_tr in H. constructor.
    + eapply ginv_step; eauto.
    + eapply linv_step; eauto.
    + eapply hinv_step; eauto.
Qed.

(* what a thread is waiting for: the gate of the acquisition at the head of its program *)
Definition want (s : st) (t : nat) : option nat :=
  match prog s t with i :: _ => if is_acq i then Some (lvl i) else None | [] => None end.

Lemma no_gate_cycle c s : reachable_from (step c) init s -> nested s = false ->
  forall L : list nat,
    (forall t, In t L -> exists k u, want s t = Some k /\ gown s k = Some u /\ u <> t /\ In u L) ->
    forall t, In t L -> False.
Proof.
  intros R N L D. destruct (lockinv_reachable c s R) as [G Li _].
  assert (Q : forall n t k, In t L -> want s t = Some k -> k <= n -> False).
  { induction n as [|n IH]; intros t k Ht W Kn.
    - destruct (D t Ht) as [k1 [u [W1 [O [_ Hu]]]]]. rewrite W in W1. inversion W1; subst k1.
      destruct (D u Hu) as [k2 [v [W2 _]]]. unfold want in W2. destruct (prog s u) as [|i r] eqn:P; [discriminate|].
      destruct (is_acq i) eqn:A; [|discriminate]. inversion W2; subst k2.
      destruct (g_depth s G u k O) as [X Y]. assert (Z : In k (gates_of (prog s u))) by (apply gates_inside; lia).
      rewrite P in Z. assert (Z' : In k (gates_of r)) by (destruct i; try discriminate; exact Z).
      generalize (Li N u). rewrite P. intros Hl. generalize (lo_head i r k Hl Z'). lia.
    - destruct (D t Ht) as [k1 [u [W1 [O [_ Hu]]]]]. rewrite W in W1. inversion W1; subst k1.
      destruct (D u Hu) as [k2 [v [W2 _]]]. generalize W2. unfold want. destruct (prog s u) as [|i r] eqn:P; [discriminate|].
      destruct (is_acq i) eqn:A; [|discriminate]. intros W3. inversion W3; subst k2.
      destruct (g_depth s G u k O) as [X Y]. assert (Z : In k (gates_of (prog s u))) by (apply gates_inside; lia).
      rewrite P in Z. assert (Z' : In k (gates_of r)) by (destruct i; try discriminate; exact Z).
      generalize (Li N u). rewrite P. intros Hl. generalize (lo_head i r k Hl Z'). intros Lt.
      apply (IH u (lvl i) Hu W2). lia. }
  intros t Ht. destruct (D t Ht) as [k [u [W _]]]. eapply Q; eauto.
Qed.
