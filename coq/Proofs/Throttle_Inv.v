(* Invariants of the ThrottleExecutor machine (Model/Throttle.v) and the lemmas behind Props/C07_Throttle.v. *)
From Coq Require Import ZArith List Bool Arith Lia.
From RecordUpdate Require Import RecordSet.
From ME Require Import Base.Machine Base.Fut Base.GenPrelude Gen.ThrottleGen Model.Throttle Proofs.Throttle_Spec.
Import ListNotations RecordSetNotations.
Local Open Scope Z_scope.

(* ---- 1. the committed count never exceeds the limit in force (single incrementer) ---------------- *)
Definition adm_ok (h : hev) : Prop :=
  match h with HAdmit _ r (Some t) _ => r <= t | _ => True end.
Definition park_ok (h : hev) : Prop :=
  match h with
  | HBlock _ v q _ => exists t, v = Some t /\ t <= q
  | HGo _ v q _ => v = None \/ exists t, v = Some t /\ q < t
  | HSubRaise _ _ => False
  | _ => True
  end.
Definition hist_ok (h : hev) : Prop := adm_ok h /\ park_ok h.

Definition noinc (i : instr) : bool := match i with IPop | IAcqA AIncr => false | _ => true end.
Definition clean (p : list instr) : bool := forallb noinc p.
Definition shape (p : list instr) : bool :=
  match p with
  | IPop :: IAcqA AIncr :: IRelA :: ILoop :: r => clean r
  | IAcqA AIncr :: IRelA :: ILoop :: r => clean r
  | _ => clean p
  end.
Definition pending_incr (p : list instr) : bool :=
  match p with IPop :: IAcqA AIncr :: _ => true | IAcqA AIncr :: _ => true | _ => false end.

Record InvA (s : st) : Prop := {
  a_hist : Forall hist_ok (hist s);
  a_shape : shape (thr s H) = true;
  a_bound : pending_incr (thr s H) = true -> forall t, hlim s = Some t -> running s < t
}.

Lemma clean_app p q : clean (p ++ q) = clean p && clean q.
Proof. apply forallb_app. Qed.
Lemma clean_shape p : clean p = true -> shape p = true.
Proof.
  destruct p as [|i r]; [reflexivity|]. intros Hc. destruct i; try exact Hc; simpl in Hc; try discriminate.
  destruct k; [discriminate|exact Hc].
Qed.
Lemma clean_not_pending p : clean p = true -> pending_incr p = false.
Proof.
  destruct p as [|i r]; [reflexivity|]. intros Hc. destruct i; try reflexivity; simpl in Hc; try discriminate.
  destruct k; [discriminate|reflexivity].
Qed.
Lemma shape_tail i r : shape (i :: r) = true -> noinc i = true -> clean r = true.
Proof.
  intros Hs Hn. destruct i; simpl in Hn; try discriminate; simpl in Hs; try (apply andb_prop in Hs; tauto); try exact Hs.
  destruct k; [discriminate|]. simpl in Hs. exact Hs.
Qed.
Lemma shape_incr l : shape (IAcqA AIncr :: l) = true -> clean l = true /\ exists r, l = IRelA :: ILoop :: r.
Proof.
  intros Hs. destruct l as [|i3 r3]; [discriminate|]. destruct i3; try discriminate.
  destruct r3 as [|i4 r4]; [discriminate|]. destruct i4; try discriminate. simpl in Hs. split; [exact Hs|eauto].
Qed.
Lemma shape_pop l : shape (IPop :: l) = true -> shape l = true /\ exists r, l = IAcqA AIncr :: IRelA :: ILoop :: r.
Proof.
  intros Hs. destruct l as [|i2 r2]; [discriminate|]. destruct i2; try discriminate. destruct k; try discriminate.
  destruct r2 as [|i3 r3]; [discriminate|]. destruct i3; try discriminate.
  destruct r3 as [|i4 r4]; [discriminate|]. destruct i4; try discriminate. simpl in Hs. split; [exact Hs|eauto].
Qed.
Lemma clean_map_dsubmit l : clean (map IDSubmit l) = true.
Proof. induction l; simpl; auto. Qed.
Lemma clean_cb_prog d l : clean (flat_map (cb_prog d) l) = true.
Proof. induction l as [|c l IH]; [reflexivity|]. simpl. rewrite clean_app, IH. destruct c; reflexivity. Qed.
Lemma clean_cb_prog_held d l : clean (flat_map (cb_prog_held d) l) = true.
Proof. induction l as [|c l IH]; [reflexivity|]. simpl. rewrite clean_app, IH. destruct c; reflexivity. Qed.
Lemma clean_setres j o : clean (setres_prog j o) = true.
Proof. destruct o; reflexivity. Qed.

(* norm of a clean program: still well-shaped; an increment becomes pending only when there is no limit *)
Lemma norm_clean s p : clean p = true ->
  shape (norm s p) = true /\ (pending_incr (norm s p) = true -> hlim s = None).
Proof.
  intros Hc. destruct p as [|i r]; [split; [reflexivity|discriminate]|].
  destruct i; unfold norm; try (split; [apply clean_shape; exact Hc | rewrite (clean_not_pending _ Hc); discriminate]).
  simpl in Hc. destruct (qu s); [split; [exact Hc|discriminate]|].
  destruct (hlim s); [split; [exact Hc|discriminate]|]. split; [exact Hc|reflexivity].
Qed.

Lemma hist_ok_other h : (match h with HAdmit _ _ _ _ | HBlock _ _ _ _ | HGo _ _ _ _ | HSubRaise _ _ => False | _ => True end) -> hist_ok h.
Proof. destruct h; simpl; intros Hx; try contradiction; split; exact I. Qed.

Lemma invA_log s h : InvA s -> hist_ok h -> InvA (log s h).
Proof. intros [Ih Is Ib] Hh. constructor; simpl; auto. Qed.

(* replacing thread t's program in a state s1 that differs from s outside thr *)
Lemma invA_set (s s1 : st) t p :
  InvA s -> Forall hist_ok (hist s1) -> thr s1 = thr s ->
  (t <> H -> hlim s1 = hlim s /\ running s1 <= running s) ->
  (t = H -> clean p = true) ->
  InvA (set_prog s1 t p).
Proof.
  intros [Ih Is Ib] Hh Ht Hne Hc. unfold set_prog.
  destruct (Nat.eq_dec t H) as [->|Hn].
  - destruct (norm_clean s1 p (Hc eq_refl)) as [N1 N2].
    constructor; simpl; rewrite ?upd_same; auto.
    intros Hp t El. rewrite (N2 Hp) in El. discriminate.
  - destruct (Hne Hn) as [E1 E2].
    constructor; simpl; rewrite ?upd_other by (intro; apply Hn; auto); rewrite ?Ht; auto.
    intros Hp t' El. rewrite E1 in El. specialize (Ib Hp t' El). lia.
Qed.

Lemma invA_sub_check (s s1 : st) t v rest :
  InvA s -> Forall hist_ok (hist s1) -> thr s1 = thr s ->
  (t <> H -> hlim s1 = hlim s /\ running s1 <= running s) ->
  (t = H -> clean rest = true) ->
  InvA (sub_check s1 t v rest).
Proof.
  intros I Hh Ht Hne Hc. unfold sub_check.
  assert (Hc2 : forall pre, clean pre = true -> t = H -> clean (pre ++ rest) = true).
  { intros pre Hp E. rewrite clean_app, Hp, (Hc E). reflexivity. }
  destruct (blk s1 && negb (shut s1)).
  - destruct (block_ready (qlen s1) v) as [[|]|] eqn:Eb.
    + apply invA_log; [apply (invA_set s); auto; try (apply Hc2; reflexivity)|].
      split; [exact Logic.I|]. simpl. apply block_ready_true in Eb. exact Eb.
    + apply invA_log; [apply (invA_set s); auto; try (apply (Hc2 [IWait 30 (WSub v)]); reflexivity)|].
      split; [exact Logic.I|]. simpl. destruct v as [x|]; [|discriminate]. exists x. split; [reflexivity|].
      simpl in Eb. inversion Eb as [Hl]. apply Z.ltb_ge in Hl. exact Hl.
    + exfalso. exact (block_ready_total _ _ Eb).
  - apply (invA_set s); auto; try (apply Hc2; reflexivity).
Qed.

Lemma invA_after_wait (s s1 : st) t k rest :
  InvA s -> Forall hist_ok (hist s1) -> thr s1 = thr s ->
  (t <> H -> hlim s1 = hlim s /\ running s1 <= running s) ->
  (t = H -> clean rest = true) ->
  InvA (after_wait s1 t k rest).
Proof.
  intros I Hh Ht Hne Hc. destruct k; simpl.
  - apply (invA_set s); auto; try (intros E; simpl; exact (Hc E)).
  - apply (invA_sub_check s); auto.
Qed.

(* the hand-over thread starts an iteration: whatever limit it picks, no increment is pending *)
Lemma invA_start_iter (s s1 : st) :
  InvA s -> Forall hist_ok (hist s1) -> thr s1 = thr s -> InvA (start_iter s1 H).
Proof.
  intros [Ih Is Ib] Hh Ht. unfold start_iter.
  destruct (shut s1); [|destruct (dyn s1)]; unfold set_prog; constructor; simpl; rewrite ?upd_same; auto; discriminate.
Qed.

Lemma clean_tl p : clean p = true -> clean (tl p) = true.
Proof. destruct p as [|i r]; simpl; [auto|]. intros Hx. apply andb_prop in Hx. tauto. Qed.

(* ---- tactics: invert one handler, then discharge the side conditions of the lemmas above ---------- *)
Ltac brk Hx :=
  repeat match type of Hx with
         | context [match ?x with _ => _ end] => destruct x eqn:?; try discriminate Hx
         end.
Ltac inv_some Hx := inversion Hx; subst; clear Hx.

Ltac clean_goal IA :=
  let E := fresh "E" in let Hs := fresh "Hs" in
  intros E; try subst;
  pose proof (a_shape _ IA) as Hs;
  match goal with Et : thr _ H = _ :: _ |- _ => rewrite Et in Hs end;
  apply shape_tail in Hs; [|reflexivity]; simpl in Hs;
  rewrite ?clean_app, ?clean_map_dsubmit, ?clean_cb_prog, ?clean_cb_prog_held, ?clean_setres;
  simpl; rewrite ?clean_app, ?clean_setres, ?Hs, ?(clean_tl _ Hs); reflexivity.

Ltac hist_goal IA :=
  simpl; repeat (constructor; [solve [apply hist_ok_other; exact Logic.I]|]); exact (a_hist _ IA).

Ltac side IA :=
  first [ exact IA
        | reflexivity
        | hist_goal IA
        | solve [simpl; intros; split; [reflexivity|lia]]
        | clean_goal IA ].

Ltac fin_set IA s :=
  repeat (apply invA_log; [|solve [apply hist_ok_other; exact Logic.I]]);
  first [ apply (invA_set s) | apply (invA_sub_check s) | apply (invA_after_wait s) ]; side IA.

Ltac handler IA Hx s := brk Hx; inv_some Hx; fin_set IA s.

Lemma do_call_submit_invA s t s' : InvA s -> do_call_submit s t = Some s' -> InvA s'.
Proof.
  intros IA Hx. unfold do_call_submit in Hx. brk Hx. inv_some Hx.
  apply (invA_set s); side IA.
Qed.
Lemma do_call_shutdown_invA s t w s' : InvA s -> do_call_shutdown s t w = Some s' -> InvA s'.
Proof.
  intros IA Hx. unfold do_call_shutdown in Hx. brk Hx. inv_some Hx.
  apply (invA_set s); side IA.
Qed.
Lemma do_call_cancel_invA s t j s' : InvA s -> do_call_cancel s t j = Some s' -> InvA s'.
Proof.
  intros IA Hx. unfold do_call_cancel in Hx. brk Hx. inv_some Hx.
  apply (invA_set s); side IA.
Qed.
Lemma do_ret_invA s t c s' : InvA s -> do_ret s t c = Some s' -> InvA s'.
Proof. intros IA Hx. unfold do_ret in Hx. handler IA Hx s. Qed.
Lemma do_acq_g_invA s t s' : InvA s -> do_acq_g s t = Some s' -> InvA s'.
Proof. intros IA Hx. unfold do_acq_g in Hx. handler IA Hx s. Qed.
Lemma do_rel_g_invA s t s' : InvA s -> do_rel_g s t = Some s' -> InvA s'.
Proof. intros IA Hx. unfold do_rel_g in Hx. handler IA Hx s. Qed.
Lemma do_xsec_invA s t s' : InvA s -> do_xsec s t = Some s' -> InvA s'.
Proof. intros IA Hx. unfold do_xsec in Hx. handler IA Hx s. Qed.
Lemma do_rel_a_invA s t s' : InvA s -> do_rel_a s t = Some s' -> InvA s'.
Proof. intros IA Hx. unfold do_rel_a in Hx. handler IA Hx s. Qed.
Lemma do_evset_invA s t s' : InvA s -> do_evset s t = Some s' -> InvA s'.
Proof. intros IA Hx. unfold do_evset in Hx. handler IA Hx s. Qed.
Lemma do_dshutdown_invA s t s' : InvA s -> do_dshutdown s t = Some s' -> InvA s'.
Proof. intros IA Hx. unfold do_dshutdown in Hx. handler IA Hx s. Qed.
Lemma do_acq_m_invA s t j s' : InvA s -> do_acq_m s t j = Some s' -> InvA s'.
Proof. intros IA Hx. unfold do_acq_m in Hx. handler IA Hx s. Qed.
Lemma do_rel_m_invA s t j s' : InvA s -> do_rel_m s t j = Some s' -> InvA s'.
Proof. intros IA Hx. unfold do_rel_m in Hx. handler IA Hx s. Qed.
Lemma do_xacq_invA s t s' : InvA s -> do_xacq s t = Some s' -> InvA s'.
Proof. intros IA Hx. unfold do_xacq in Hx. handler IA Hx s. Qed.
Lemma do_relx_invA s t s' : InvA s -> do_relx s t = Some s' -> InvA s'.
Proof. intros IA Hx. unfold do_relx in Hx. handler IA Hx s. Qed.
Lemma do_dsubmit_invA s t d i s' : InvA s -> do_dsubmit s t d i = Some s' -> InvA s'.
Proof. intros IA Hx. unfold do_dsubmit in Hx. handler IA Hx s. Qed.
Lemma do_wait_invA s t r s' : InvA s -> do_wait s t r = Some s' -> InvA s'.
Proof. intros IA Hx. unfold do_wait in Hx. handler IA Hx s. Qed.
Lemma do_woke_invA s t k s' : InvA s -> do_woke s t k = Some s' -> InvA s'.
Proof. intros IA Hx. unfold do_woke in Hx. handler IA Hx s. Qed.
Lemma do_fm_invA s t op j p s' : InvA s -> do_fm s t op j p = Some s' -> InvA s'.
Proof. intros IA Hx. unfold do_fm in Hx. handler IA Hx s. Qed.
Lemma do_exit_invA s s' : InvA s -> do_exit s = Some s' -> InvA s'.
Proof. intros IA Hx. unfold do_exit in Hx. handler IA Hx s. Qed.
Lemma do_env_run_invA s t d p s' : InvA s -> do_env_run s t d p = Some s' -> InvA s'.
Proof.
  intros IA Hx. unfold do_env_run in Hx. brk Hx; inv_some Hx; auto.
  destruct IA as [Ih Is Ib]. constructor; simpl; auto.
Qed.
Lemma do_env_finish_invA s t d p o s' : InvA s -> do_env_finish s t d p o = Some s' -> InvA s'.
Proof.
  intros IA Hx. unfold do_env_finish in Hx. brk Hx; inv_some Hx; auto.
  apply invA_log; [|apply hist_ok_other; exact Logic.I].
  apply (invA_set s); try side IA. intros _. apply clean_cb_prog.
Qed.
Lemma do_new_invA s b dy v s' : InvA s -> do_new s b dy v = Some s' -> InvA s'.
Proof.
  intros IA Hx. unfold do_new in Hx. brk Hx. inv_some Hx.
  destruct IA as [Ih Is Ib]. constructor; simpl; rewrite ?upd_same; auto; discriminate.
Qed.
Lemma do_hstart_invA s s' : InvA s -> do_hstart s = Some s' -> InvA s'.
Proof.
  intros IA Hx. unfold do_hstart in Hx. brk Hx. inv_some Hx.
  apply (invA_start_iter s); auto. exact (a_hist _ IA).
Qed.
Lemma do_clear_invA s t s' : InvA s -> do_clear s t = Some s' -> InvA s'.
Proof.
  intros IA Hx. unfold do_clear in Hx. brk Hx. inv_some Hx.
  match goal with E : Nat.eqb _ H = true |- _ => apply Nat.eqb_eq in E; subst end.
  apply (invA_start_iter s); auto. exact (a_hist _ IA).
Qed.

Lemma clear_del_frame l : forall s,
  thr (clear_del s l) = thr s /\ hist (clear_del s l) = hist s /\ hlim (clear_del s l) = hlim s /\
  running (clear_del s l) = running s /\ qu (clear_del s l) = qu s.
Proof.
  unfold clear_del. induction l as [|c l IH]; intros s; simpl; [auto 6|].
  destruct (IH (match c with CbDone => s | CbRes j => s <| mdel := upd (mdel s) j None |> end)) as [A [B [C [D E]]]].
  rewrite A, B, C, D, E. destruct c; simpl; auto 6.
Qed.

Lemma do_count_invA s t a s' : InvA s -> do_count s t a = Some s' -> InvA s'.
Proof.
  intros IA Hx. unfold do_count in Hx. brk Hx; inv_some Hx.
  - match goal with E : Nat.eqb _ H = true |- _ => apply Nat.eqb_eq in E; subst end.
    apply (invA_set s); try side IA. intros Hn; exfalso; apply Hn; reflexivity.
  - apply (invA_sub_check s); side IA.
Qed.

Lemma do_fd_invA s t op d p s' : InvA s -> do_fd s t op d p = Some s' -> InvA s'.
Proof.
  intros IA Hx. unfold do_fd in Hx. brk Hx; inv_some Hx; try solve [fin_set IA s].
  apply invA_log; [|apply hist_ok_other; exact Logic.I].
  match goal with |- InvA (set_prog (clear_del ?x ?l) _ _) => destruct (clear_del_frame l x) as [A [B [C [D _]]]] end.
  apply (invA_set s); try exact IA.
  - rewrite B. simpl. exact (a_hist _ IA).
  - rewrite A. reflexivity.
  - intros _. rewrite C, D. simpl. split; [reflexivity|lia].
  - clean_goal IA.
Qed.

(* the three steps that matter: the racy test, popleft, the increment *)
Lemma do_rcread_invA s t x s' : InvA s -> do_rcread s t x = Some s' -> InvA s'.
Proof.
  intros IA Hx. unfold do_rcread in Hx. brk Hx; inv_some Hx; try solve [fin_set IA s].
  (* not throttled: IPop :: IAcqA AIncr :: IRelA :: ILoop :: rest, with running < limit *)
  match goal with E : _ || _ = false |- _ => apply orb_false_elim in E; destruct E as [E1 E2] end.
  apply negb_false_iff in E1, E2. apply Z.eqb_eq in E1. apply Nat.eqb_eq in E2. subst.
  pose proof (a_shape _ IA) as Hs.
  match goal with Et : thr _ H = _ :: _ |- _ => rewrite Et in Hs end.
  simpl in Hs.
  destruct IA as [Ih _ _]. unfold set_prog. constructor; simpl; rewrite ?upd_same; simpl; auto.
  intros _ lim El.
  match goal with E : throttled _ _ = false |- _ => apply throttled_false in E; rewrite El in E; exact E end.
Qed.

Lemma do_pop_invA s t s' : InvA s -> do_pop s t = Some s' -> InvA s'.
Proof.
  intros IA Hx. unfold do_pop in Hx. brk Hx; inv_some Hx.
  match goal with E : _ && _ = true |- _ => apply andb_prop in E; destruct E as [E _]; apply Nat.eqb_eq in E; subst end.
  pose proof (a_shape _ IA) as Hs. pose proof (a_bound _ IA) as Hb.
  match goal with Et : thr _ H = _ :: _ |- _ => rewrite Et in Hs, Hb end.
  destruct (shape_pop _ Hs) as [Hs2 [r ->]]. simpl in Hb.
  apply invA_log; [|apply hist_ok_other; exact Logic.I].
  destruct IA as [Ih _ _]. unfold set_prog. constructor; simpl; rewrite ?upd_same; simpl; auto.
Qed.

Lemma do_acq_a_invA s t s' : InvA s -> do_acq_a s t = Some s' -> InvA s'.
Proof.
  intros IA Hx. unfold do_acq_a in Hx. brk Hx; inv_some Hx; try solve [fin_set IA s].
  match goal with E : negb (Nat.eqb _ H) = false |- _ => apply negb_false_iff in E; apply Nat.eqb_eq in E; subst end.
  pose proof (a_shape _ IA) as Hs. pose proof (a_bound _ IA) as Hb.
  match goal with Et : thr _ H = _ :: _ |- _ => rewrite Et in Hs, Hb end.
  destruct (shape_incr _ Hs) as [Hs2 _]. simpl in Hb.
  apply invA_log.
  - apply (invA_set s); try side IA. intros _. exact Hs2.
  - split; [|exact Logic.I]. simpl. destruct (hlim s) as [lim|] eqn:El; [|exact Logic.I].
    specialize (Hb eq_refl lim eq_refl). lia.
Qed.

Lemma step0_invA s e s' : InvA s -> step0 s e = Some s' -> InvA s'.
Proof.
  intros IA Hx. destruct e; cbn [step0] in Hx;
  [ eapply do_new_invA
  | eapply do_hstart_invA
  | eapply do_exit_invA
  | eapply do_call_submit_invA
  | eapply do_call_cancel_invA
  | eapply do_call_shutdown_invA
  | eapply do_ret_invA
  | eapply do_acq_g_invA
  | eapply do_rel_g_invA
  | eapply do_count_invA
  | eapply do_xsec_invA
  | eapply do_xacq_invA
  | eapply do_relx_invA
  | eapply do_rcread_invA
  | eapply do_pop_invA
  | eapply do_acq_a_invA
  | eapply do_rel_a_invA
  | eapply do_evset_invA
  | eapply do_wait_invA
  | eapply do_woke_invA
  | eapply do_clear_invA
  | eapply do_dsubmit_invA
  | eapply do_dshutdown_invA
  | eapply do_acq_m_invA
  | eapply do_rel_m_invA
  | eapply do_fm_invA
  | eapply do_fd_invA
  | eapply do_env_run_invA
  | eapply do_env_finish_invA ]; eassumption.
Qed.

Lemma tick_invA s ts s1 : InvA s -> tick s ts = Some s1 -> InvA s1.
Proof.
  intros [Ih Is Ib] Hx. unfold tick in Hx. destruct (Z.leb (clock s) ts); inv_some Hx. constructor; simpl; auto.
Qed.

Lemma invA_init : InvA init.
Proof. constructor; simpl; auto; discriminate. Qed.

Lemma invA_reachable s : reachable_from step init s -> InvA s.
Proof.
  apply invariant_rule; [exact invA_init|].
  intros s0 [ts e] s' IA Hx. unfold step in Hx. simpl in Hx.
  destruct (tick s0 ts) as [s1|] eqn:Et; [|discriminate].
  eapply step0_invA; [eapply tick_invA; eauto|exact Hx].
Qed.

(* ---- consequences --------------------------------------------------------------------------------- *)
Lemma inflight_le_count_lemma s : reachable_from step init s ->
  forall j r t ts, In (HAdmit j r (Some t) ts) (hist s) -> r <= t.
Proof.
  intros Hr j r t ts Hin. pose proof (a_hist _ (invA_reachable s Hr)) as Hh.
  rewrite Forall_forall in Hh. destruct (Hh _ Hin) as [Ha _]. exact Ha.
Qed.

Lemma blocking_decision_lemma s : reachable_from step init s ->
  forall t v q ts,
    (In (HBlock t v q ts) (hist s) -> exists x, v = Some x /\ x <= q) /\
    (In (HGo t v q ts) (hist s) -> v = None \/ exists x, v = Some x /\ q < x).
Proof.
  intros Hr t v q ts. pose proof (a_hist _ (invA_reachable s Hr)) as Hh. rewrite Forall_forall in Hh.
  split; intros Hin; destruct (Hh _ Hin) as [_ Hp]; exact Hp.
Qed.

(* submit() never raises out of _block_until_ready, whatever the count *)
Lemma no_sub_raise_lemma s : reachable_from step init s -> forall t ts, ~ In (HSubRaise t ts) (hist s).
Proof.
  intros Hr t ts Hin. pose proof (a_hist _ (invA_reachable s Hr)) as Hh. rewrite Forall_forall in Hh.
  destruct (Hh _ Hin) as [_ Hp]. exact Hp.
Qed.

(* the pending increment of the hand-over thread always fits under the limit it works with *)
Lemma pending_incr_lemma s : reachable_from step init s ->
  pending_incr (thr s H) = true -> forall t, hlim s = Some t -> running s < t.
Proof. intros Hr. exact (a_bound _ (invA_reachable s Hr)). Qed.

(* _eval_throttle: a raising count callable leaves the last good value in force; an answer replaces it *)
Lemma count_eval_lemma s ts t a s' : step s (ts, ECount t a) = Some s' ->
  last s' = eval_throttle (last s) a /\
  (forall rest, thr s t = ICount CH :: rest -> hlim s' = eval_throttle (last s) a).
Proof.
  unfold step. simpl. unfold tick. destruct (Z.leb (clock s) ts); [|discriminate]. intros Hx.
  unfold do_count in Hx. simpl in Hx.
  destruct (negb (dyn s)); [discriminate|].
  destruct (thr s t) as [|i rest]; [discriminate|]. destruct i; try discriminate. destruct k.
  - destruct (Nat.eqb t H); inv_some Hx. simpl. split; auto.
  - inv_some Hx. split; [|intros r Hr; discriminate Hr]. unfold sub_check. simpl.
    destruct (blk s && negb (shut s)); [destruct (block_ready _ _) as [[|]|]|]; reflexivity.
Qed.
