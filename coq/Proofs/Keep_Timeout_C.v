(* C12 / Timeout (part C): the done-callbacks of a returned future (_me_done_callbacks, rcbs) are cleared once it is
   done, except in the window between the completing stdlib call and `leave M_j; _me_invoke_callbacks`. *)
From Coq Require Import List ZArith Bool Arith Lia.
From RecordUpdate Require Import RecordSet.
From ME Require Import Base.Machine Base.Fut Base.GenPrelude Gen.TimeoutGen Proofs.Timeout_Spec Model.Timeout Proofs.Timeout_Inv
  Proofs.Keep_Timeout_A Proofs.Keep_Timeout_B.
Import ListNotations RecordSetNotations.
Local Open Scope Z_scope.

(* the thread that completed j is about to leave M_j and run the callbacks *)
Definition cbw (s : st) (j : nat) : Prop :=
  exists t r, thr s t = IRelMCbs j :: r \/ thr s t = IFSrnc j :: IRelMCbs j :: r.
Definition InvCW (s : st) : Prop := forall j, fdone (rs s j) = true -> rcbs s j <> [] -> cbw s j.

Definition notwin (p : list instr) (j : nat) : Prop :=
  forall r, p <> IRelMCbs j :: r /\ p <> IFSrnc j :: IRelMCbs j :: r.
Lemma nb_notwin p j : nb p = true -> notwin p j.
Proof. intros Hn r. destruct p as [|[] p]; simpl in Hn; try discriminate Hn; split; discriminate. Qed.

Lemma invcw_gen s s' t :
  InvCW s -> (forall u, u <> t -> thr s' u = thr s u) ->
  (forall j, fdone (rs s' j) = true -> rcbs s' j <> [] ->
     cbw s' j \/ (fdone (rs s j) = true /\ rcbs s j <> [] /\ notwin (thr s t) j)) ->
  InvCW s'.
Proof.
  intros I Ho Hj j Hd Hc. destruct (Hj j Hd Hc) as [Hw|[Hd0 [Hc0 Hn]]]; [exact Hw|].
  destruct (I j Hd0 Hc0) as [tw [r Hw]]. destruct (Nat.eq_dec tw t) as [->|Hne].
  - exfalso. destruct (Hn r) as [N1 N2]. destruct Hw; contradiction.
  - exists tw, r. rewrite (Ho tw Hne). exact Hw.
Qed.

Lemma stamp_bound s p i r : p = i :: r -> bound i = true -> stamp s p = p.
Proof. intros -> Hb. destruct i; try discriminate Hb; reflexivity. Qed.

Lemma sh_okhd s t i l : InvSH s -> thr s t = i :: l -> okhd i l = true /\ shp l = true.
Proof. intros SH E. destruct (SH t) as [A _]. rewrite E in A. simpl in A. apply andb_true_iff in A. exact A. Qed.

Lemma invcw_step0 s e s' : InvSH s -> InvCW s -> step0 s e = Some s' -> InvCW s'.
Proof.
  intros SH I H. step0_cases H.
  all: try match goal with E : wait_view _ = _ |- _ => apply wait_view_inv in E; destruct E as [E|[E _]] end.
  all: try solve [ match goal with I0 : InvCW ?s0, E : thr ?s0 ?t = _ |- _ =>
         eapply (invcw_gen s0 _ t); [exact I|intros u Hu; simpl; apply upd_other; exact Hu|];
         intros j' Hd Hc; right; split; [exact Hd|]; split; [exact Hc|]; rewrite E; apply nb_notwin; reflexivity end ].
  all: repeat match goal with E : negb (Nat.eqb _ _) = false |- _ => apply negb_false_iff, Nat.eqb_eq in E; subst end.
  all: try match goal with E : negb (fstate_eqb _ _) = false |- _ => apply pre_eq in E; subst end.
  all: repeat match goal with E : _ && _ = true |- _ =>
         let A := fresh "Ea" in let B := fresh "Eb" in apply andb_true_iff in E; destruct E as [A B] end.
  all: repeat match goal with E : Nat.eqb _ _ = true |- _ => apply Nat.eqb_eq in E; subst end.
  all: try match goal with I0 : InvCW ?s0, E : thr ?s0 _ = _ |- _ => rename E into Et end.
  - (* leave M_j and run the callbacks: the list is cleared *)
    match type of Et with thr s ?t0 = IRelMCbs ?jj :: _ =>
      eapply (invcw_gen s _ t0); [exact I|intros u Hu; simpl; apply upd_other; exact Hu|];
      intros j' Hd Hc; simpl in Hd, Hc; unfold upd in Hc; destruct (Nat.eqb j' jj) eqn:Ej; [contradiction Hc; reflexivity|] end.
    right. split; [exact Hd|]. split; [exact Hc|]. rewrite Et. intros r. split; [|discriminate].
    intros Hx. apply Nat.eqb_neq in Ej. inversion Hx. congruence.
  - (* set_result *)
    destruct (sh_okhd s t _ _ SH Et) as [Ho _]. eapply (setter_next j0) in Ho; [|simpl; reflexivity]. destruct Ho as [r ->].
    eapply (invcw_gen s _ t); [exact I|intros u Hu; simpl; apply upd_other; exact Hu|].
    intros j' Hd Hc. simpl in Hd, Hc. unfold upd in Hd. destruct (Nat.eqb j' j0) eqn:Ej.
    + apply Nat.eqb_eq in Ej. subst j'. left. exists t, r. left. simpl. rewrite upd_same. reflexivity.
    + right. split; [exact Hd|]. split; [exact Hc|]. rewrite Et. apply nb_notwin. reflexivity.
  - (* set_exception *)
    destruct (sh_okhd s t _ _ SH Et) as [Ho _]. eapply (setter_next j0) in Ho; [|simpl; reflexivity]. destruct Ho as [r ->].
    eapply (invcw_gen s _ t); [exact I|intros u Hu; simpl; apply upd_other; exact Hu|].
    intros j' Hd Hc. simpl in Hd, Hc. unfold upd in Hd. destruct (Nat.eqb j' j0) eqn:Ej.
    + apply Nat.eqb_eq in Ej. subst j'. left. exists t, r. left. simpl. rewrite upd_same. reflexivity.
    + right. split; [exact Hd|]. split; [exact Hc|]. rewrite Et. apply nb_notwin. reflexivity.
  - (* add_done_callback on a future that is not done *)
    eapply (invcw_gen s _ t); [exact I|intros u Hu; simpl; apply upd_other; exact Hu|].
    intros j' Hd Hc. simpl in Hd, Hc. unfold upd in Hc. destruct (Nat.eqb j' j0) eqn:Ej.
    + apply Nat.eqb_eq in Ej. subst j'. congruence.
    + right. split; [exact Hd|]. split; [exact Hc|]. rewrite Et. apply nb_notwin. reflexivity.
  - (* Future.cancel *)
    destruct (sh_okhd s t _ _ SH Et) as [Ho Hs]. destruct (cancel_next j0 _ Ho) as [r ->].
    simpl in Hs. apply andb_true_iff in Hs. destruct Hs as [Ho2 _]. eapply (setter_next j0) in Ho2; [|simpl; reflexivity]. destruct Ho2 as [r2 ->].
    eapply (invcw_gen s _ t); [exact I|intros u Hu; simpl; apply upd_other; exact Hu|].
    intros j' Hd Hc. simpl in Hd, Hc. unfold upd in Hd. destruct (Nat.eqb j' j0) eqn:Ej.
    + apply Nat.eqb_eq in Ej. subst j'. left. exists t, r2. right. simpl. rewrite upd_same. reflexivity.
    + right. split; [exact Hd|]. split; [exact Hc|]. rewrite Et. apply nb_notwin. reflexivity.
  - (* set_running_or_notify_cancel *)
    destruct (sh_okhd s t _ _ SH Et) as [Ho _]. eapply (setter_next j0) in Ho; [|simpl; reflexivity]. destruct Ho as [r ->].
    eapply (invcw_gen s _ t); [exact I|intros u Hu; simpl; apply upd_other; exact Hu|].
    intros j' Hd Hc. simpl in Hd, Hc. unfold upd in Hd. destruct (Nat.eqb j' j0) eqn:Ej.
    + apply Nat.eqb_eq in Ej. subst j'. left. exists t, r. left. simpl. rewrite upd_same. reflexivity.
    + right. split; [exact Hd|]. split; [exact Hc|]. rewrite Et. intros r0. split; [discriminate|].
      intros Hx. apply Nat.eqb_neq in Ej. inversion Hx. congruence.
  - intros j' Hd Hc. destruct (I j' Hd Hc) as [tw [r Hw]]. exists tw, r. exact Hw.
Qed.

Lemma invcw_reach s : reachable_from step init s -> InvCW s.
Proof.
  apply invariant_rule_r; [intros j _ Hc; contradiction Hc; reflexivity|]. intros s0 e s1 R I H.
  apply step_split in H. destruct H as [_ H]. eapply invcw_step0; [| |exact H].
  - intros t. exact (invsh_reach s0 R t).
  - exact I.
Qed.

(* the exact window, and quiescence *)
Theorem timeout_done_callbacks_window_lemma s : reachable_from step init s -> forall j,
  fdone (rs s j) = true -> rcbs s j = [] \/ cbw s j.
Proof.
  intros R j Hd. destruct (rcbs s j) as [|c l] eqn:E; [left; reflexivity|right].
  apply (invcw_reach s R j Hd). rewrite E. discriminate.
Qed.
