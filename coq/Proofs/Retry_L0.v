(* C04 for the Retry machine: definitions (locks, requests, ownership, program lock discipline). *)
From Coq Require Import List ZArith Bool Arith Lia PeanoNat.
From ME Require Import Base.Machine Base.Fut Base.GenPrelude Gen.RetryGen Model.Retry.
Import ListNotations.

Inductive lock := LM (j : nat) | LX.
(* the nesting order: every M_j is below the executor lock X; nothing else is comparable *)
Definition lock_lt (a b : lock) : Prop := match a, b with LM _, LX => True | _, _ => False end.

Definition owner (s : st) (l : lock) : option nat := match l with LM j => mown s j | LX => xown s end.
Definition holds (s : st) (t : nat) (l : lock) : Prop := owner s l = Some t.

(* the lock the next instruction of thread t has to acquire (X-sections acquire and release X
   within one event; the idle worker's next operation is the X-section at the top of its loop) *)
Definition requests (s : st) (t : nat) : option lock :=
  match thr s t with
  | IAcqM j :: _ => Some (LM j)
  | IXAcqPop _ :: _ | IXAppend0 :: _ | IXCancelScan _ :: _ | IXRetry _ _ :: _ | IXPop _ :: _ => Some LX
  | [] => if Nat.eqb t worker then Some LX else None
  | _ => None
  end.
Definition blocked (s : st) (t u : nat) : Prop :=
  exists l, requests s t = Some l /\ owner s l = Some u.
Definition unblocked (s : st) (t : nat) : Prop := forall u, ~ blocked s t u.
Fixpoint chain (s : st) (t : nat) (path : list nat) : Prop :=
  match path with [] => True | u :: r => blocked s t u /\ chain s u r end.

(* classification of instructions by what they do to the locks *)
Inductive lkind :=
| KAcq (j : nat) | KRel (j : nat) | KXAcq (r : nat) | KXHeld (r : nat) | KXRel | KFSet (j : nat) | KXSec
| KCbD (d : nat) | KCbC (d : nat) | KFree | KNone | KCatch | KThrow.
Definition kind (i : instr) : lkind :=
  match i with
  | IAcqM j => KAcq j
  | IRelM j | IRelMCbs j | ICancelled j | IDoneC j | IXCancelScan j | IDoneA j _ | IDCancel j _ _ => KRel j
  | IXAcqPop r => KXAcq r
  | IDoneW r | IDSubmit r => KXHeld r
  | IXRel => KXRel
  | IFSet j _ => KFSet j
  | IXAppend0 | IXRetry _ _ | IXPop _ => KXSec
  | IDCbDone d => KCbD d
  | IDCbCancelled d _ => KCbC d
  | IPolSR _ | IPolST _ | IAddCbD _ => KFree
  | ICatch => KCatch
  | IThrow => KThrow
  | _ => KNone
  end.

(* "the program still contains the matching release": scanning the program the way norm does,
   a release obligation for the lock comes before any acquisition of it.  Besides IRelM/IRelMCbs/IXRel
   the obligations (kinds KRel, KXAcq, KXHeld) are the instructions that expand to the release later:
   the cancel()/add_done_callback steps under M_j, and the worker's _submit_now steps (M of the job's
   future, and X). *)
Fixpoint pendM (rc : nat -> jrec) (j : nat) (b : bool) (p : list instr) : bool :=
  match p with
  | [] => false
  | i :: r =>
      match kind i with
      | KCatch => pendM rc j false r
      | KThrow => pendM rc j true r
      | k =>
        if b then pendM rc j true r else
        match k with
        | KAcq j' => if Nat.eqb j j' then false else pendM rc j false r
        | KRel j' => if Nat.eqb j j' then true else pendM rc j false r
        | KXAcq r0 | KXHeld r0 => if Nat.eqb j (jf (rc r0)) then true else pendM rc j false r
        | _ => pendM rc j false r
        end
      end
  end.
Fixpoint pendX (b : bool) (p : list instr) : bool :=
  match p with
  | [] => false
  | i :: r =>
      match kind i with
      | KCatch => pendX false r
      | KThrow => pendX true r
      | k =>
        if b then pendX true r else
        match k with KXAcq _ => false | KXRel | KXHeld _ => true | _ => pendX false r end
      end
  end.
